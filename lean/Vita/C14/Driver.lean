/-
  C14 line-protocol driver: `<name> x0 x1 x2 x3` -> `ok <value>` | `ub <fault>` | `bad-op`.
  Evaluates the *generated* term with the checked semantics `evalC`.
-/
import Vita.Common.IntE
import Vita.C14.Gen
open Vita.IntE

def answer (line : String) : String :=
  match line.trimAscii.toString.splitOn " " with
  | "names" :: _ => " ".intercalate (Vita.C14.Gen.ops.map (·.1))
  | name :: rest =>
    match Vita.C14.Gen.ops.lookup name with
    | none => "bad-op"
    | some e =>
      match rest.mapM String.toInt? with
      | none => "bad-op"
      | some xs =>
        let f : Nat → Int := fun i => xs.getD i 0
        match evalC ⟨f, f⟩ e with
        | .ok v => s!"ok {v}"
        | .error _ => "ub"
  | _ => "bad-op"

partial def loop (h : IO.FS.Stream) (out : IO.FS.Stream) : IO Unit := do
  let line ← h.getLine
  if line.isEmpty then return ()
  out.putStrLn (answer line)
  loop h out

def main : IO Unit := do
  loop (← IO.getStdin) (← IO.getStdout)
