/-
  C14 line-protocol driver: `<name> x0 x1 x2 x3` -> `ok <value>` | `ub <fault>` | `bad-op`.
  Evaluates the *generated* term with the checked semantics `evalC`.
-/
import Vita.Common.IntE
import Vita.C14.Gen
import Vita.C14.GenNum
import Vita.C13.Wire
open Vita.IntE Vita.Wire

/-- one exact binary64 operation of the model (`b64 <op> a b`) -/
def b64Op (op : String) (a : Nat) (y : String) : String :=
  let bit (b : Bool) : String := if b then "1" else "0"
  match op with
  | "ofint" => match y.toInt? with
    | some n => toHex16 (UInt64.ofNat (Vita.B64.ofInt n))
    | none => "bad-op"
  | "isnan" => bit (Vita.B64.isNaN a)
  | "isfinite" => bit (Vita.B64.isFinite a)
  | "trunc" => match (Vita.B64.ext a).trunc with
    | none => "none"
    | some n => if n.natAbs < 9223372036854775808 then toString n else "big"
  | _ => match hexNat? y with
    | none => "bad-op"
    | some b => match op with
      | "lt" => bit (Vita.B64.lt a b)
      | "le" => bit (Vita.B64.le a b)
      | "eq" => bit (Vita.B64.eq a b)
      | _ => "bad-op"

def answer (line : String) : String :=
  match line.trimAscii.toString.splitOn " " with
  | "names" :: _ => " ".intercalate (Vita.C14.Gen.ops.map (·.1))
  | ["number", h] =>
    match hexNat? h with
    | none => "bad-op"
    | some p =>
      match Vita.C14.GenNum.numberEval p with
      | .ok v => s!"ok I{v}"
      | .error _ => "ub"
  | ["init", m, u, r] =>
    match m.toInt?, u.toInt?, r.toInt? with
    | some m, some u, some r =>
      toHex16 (UInt64.ofNat (Vita.C14.GenNum.numberInit (fun _ _ => r) m u)) ++ " " ++
        (if (Vita.C14.GenNum.flags.any fun f => f.1 == "number" && f.2.1 == "parametric" && f.2.2) then "1" else "0")
    | _, _, _ => "bad-op"
  | ["cast", v] =>
    match decodeVal? v with
    | none => "bad-op"
    | some x => match Vita.C14.GenNum.cast x with
      | some n => s!"ok {n}"
      | none => "T"
  | ["b64", op, a, b] =>
    match hexNat? a with
    | none => "bad-op"
    | some x => b64Op op x b
  | name :: rest =>
    match Vita.C14.Gen.ops.lookup name with
    | none => "bad-op"
    | some e =>
      match rest.mapM String.toInt? with
      | none => "bad-op"
      | some xs =>
        let f : Nat → Int := fun i => xs.getD i 0
        match evalC ⟨f, f⟩ e with
        | .ok v => s!"ok {v}"
        | .error _ => "ub"
  | _ => "bad-op"

partial def loop (h : IO.FS.Stream) (out : IO.FS.Stream) : IO Unit := do
  let line ← h.getLine
  if line.isEmpty then return ()
  out.putStrLn (answer line)
  loop h out

def main : IO Unit := do
  loop (← IO.getStdin) (← IO.getStdout)
