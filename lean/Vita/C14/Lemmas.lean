/-
  C14 — helper lemmas about the exact binary64 model (Vita/C14/Model.lean).
  The property theorems are in Props.lean.
-/
import Vita.C14.Model

namespace Vita.B64
open Vita.IntE

set_option exponentiation.threshold 2048

theorem D_pos : 0 < D := by
  unfold D Dn
  exact Int.natCast_pos.mpr (Nat.pow_pos (by decide))

/-- truncation is monotone, and exact on whole numbers: lower bound -/
theorem trunc_ge (K u : Int) (h : K * D ≤ u) : K ≤ Int.tdiv u D := by
  have h1 := Int.tdiv_le_tdiv D_pos h
  rwa [Int.mul_tdiv_cancel K (Int.ne_of_gt D_pos)] at h1

/-- … upper bound -/
theorem trunc_le (K u : Int) (h : u ≤ K * D) : Int.tdiv u D ≤ K := by
  have h1 := Int.tdiv_le_tdiv D_pos h
  rwa [Int.mul_tdiv_cancel K (Int.ne_of_gt D_pos)] at h1

theorem trunc_whole (n : Int) : Int.tdiv (n * D) D = n :=
  Int.mul_tdiv_cancel n (Int.ne_of_gt D_pos)

/-- the conversion `int → double` is exact for |n| < 2^53: the double counts `n·2^1074` units -/
theorem ext_ofInt (n : Int) (hn : n.natAbs < 9007199254740992) : ext (ofInt n) = .fin (n * D) := by
  by_cases h0 : n = 0
  · subst h0
    have : ext (ofInt 0) = .fin 0 := by decide
    rw [this, Int.zero_mul]
  · have hm0 : n.natAbs ≠ 0 := by omega
    have hk : n.natAbs.log2 < 53 := (Nat.log2_lt hm0).mpr (by simpa using hn)
    have hk52 : n.natAbs.log2 ≤ 52 := by omega
    have hlo : 2 ^ n.natAbs.log2 ≤ n.natAbs := Nat.log2_self_le hm0
    have hhi : n.natAbs < 2 ^ (n.natAbs.log2 + 1) := Nat.lt_log2_self
    generalize hk' : n.natAbs.log2 = k at *
    generalize hm' : n.natAbs = m at *
    -- the normalised significand
    have hp : 2 ^ k * 2 ^ (52 - k) = 4503599627370496 := by
      rw [← Nat.pow_add]; have : k + (52 - k) = 52 := by omega
      rw [this]
    have hp1 : 2 ^ (k + 1) * 2 ^ (52 - k) = 9007199254740992 := by
      rw [← Nat.pow_add]; have : k + 1 + (52 - k) = 53 := by omega
      rw [this]
    have hpos : 0 < 2 ^ (52 - k) := Nat.pow_pos (by decide)
    have hmlo : 4503599627370496 ≤ m * 2 ^ (52 - k) := by
      rw [← hp]; exact Nat.mul_le_mul_right _ hlo
    have hmhi : m * 2 ^ (52 - k) < 9007199254740992 := by
      rw [← hp1]; exact Nat.mul_lt_mul_of_pos_right hhi hpos
    generalize hM : m * 2 ^ (52 - k) = M at *
    have hbits : ofInt n = (if n < 0 then 9223372036854775808 else 0) + (1023 + k) * 4503599627370496 +
        (M - 4503599627370496) := by
      unfold ofInt
      simp only [h0, if_false, hm', hk', hk52, if_true, hM]
    have hE : expField (ofInt n) = 1023 + k := by
      rw [hbits]; unfold expField; split <;> omega
    have hF : frac (ofInt n) = M - 4503599627370496 := by
      rw [hbits]; unfold frac; split <;> omega
    have hS : sign (ofInt n) = decide (n < 0) := by
      rw [hbits]; unfold sign
      by_cases hneg : n < 0
      · simp only [hneg, if_true, decide_true]; simp; omega
      · simp only [hneg, if_false, decide_false]; simp; omega
    unfold ext
    rw [hE, hF, hS]
    have e1 : ¬ (1023 + k = 2047) := by omega
    have e2 : ¬ (1023 + k = 0) := by omega
    simp only [e1, e2, if_false]
    have e3 : 4503599627370496 + (M - 4503599627370496) = M := by omega
    have e4 : 1023 + k - 1 = 1022 + k := by omega
    rw [e3, e4, ← hM]
    have e5 : m * 2 ^ (52 - k) * 2 ^ (1022 + k) = m * Dn := by
      rw [Nat.mul_assoc, ← Nat.pow_add]
      have : 52 - k + (1022 + k) = 1074 := by omega
      rw [this]; rfl
    rw [e5]
    unfold sgn D
    generalize Dn = d
    apply congrArg Ext.fin
    by_cases hneg : n < 0
    · simp only [hneg, decide_true, if_true]
      have : n = -(m : Int) := by omega
      rw [this]; simp [Int.neg_mul]
    · simp only [hneg, decide_false]
      have : n = (m : Int) := by omega
      rw [this]; simp

end Vita.B64
