/-
  C14 — helper lemmas about the exact binary64 model (Vita/C14/Model.lean).
  The property theorems are in Props.lean.
-/
import Vita.C14.Model

namespace Vita.B64
open Vita.IntE

set_option exponentiation.threshold 2048

theorem D_pos : 0 < D := by
  unfold D Dn
  exact Int.natCast_pos.mpr (Nat.pow_pos (by decide))

/-- truncation is monotone, and exact on whole numbers: lower bound -/
theorem trunc_ge (K u : Int) (h : K * D ≤ u) : K ≤ Int.tdiv u D := by
  have h1 := Int.tdiv_le_tdiv D_pos h
  rwa [Int.mul_tdiv_cancel K (Int.ne_of_gt D_pos)] at h1

/-- … upper bound -/
theorem trunc_le (K u : Int) (h : u ≤ K * D) : Int.tdiv u D ≤ K := by
  have h1 := Int.tdiv_le_tdiv D_pos h
  rwa [Int.mul_tdiv_cancel K (Int.ne_of_gt D_pos)] at h1

/-- strict bounds: a value below a positive whole number truncates below it … -/
theorem trunc_lt_pos (K u : Int) (hK : 0 < K) (h : u < K * D) : Int.tdiv u D < K := by
  by_cases hu : 0 ≤ u
  · rw [Int.tdiv_eq_ediv_of_nonneg hu]
    exact (Int.ediv_lt_iff_lt_mul D_pos).mpr h
  · have : Int.tdiv u D ≤ 0 := by
      have := trunc_le 0 u (by rw [Int.zero_mul]; omega)
      exact this
    omega

/-- … and a value above a negative whole number truncates above it -/
theorem trunc_gt_neg (K u : Int) (hK : K < 0) (h : K * D < u) : K < Int.tdiv u D := by
  have h1 := trunc_lt_pos (-K) (-u) (by omega) (by rw [Int.neg_mul]; omega)
  rw [Int.neg_tdiv] at h1
  omega

theorem trunc_whole (n : Int) : Int.tdiv (n * D) D = n :=
  Int.mul_tdiv_cancel n (Int.ne_of_gt D_pos)

/-- the conversion `int → double` is exact for |n| < 2^53: the double counts `n·2^1074` units -/
theorem ext_ofInt (n : Int) (hn : n.natAbs < 9007199254740992) : ext (ofInt n) = .fin (n * D) := by
  by_cases h0 : n = 0
  · subst h0
    have : ext (ofInt 0) = .fin 0 := by decide
    rw [this, Int.zero_mul]
  · have hm0 : n.natAbs ≠ 0 := by omega
    have hk : n.natAbs.log2 < 53 := (Nat.log2_lt hm0).mpr (by simpa using hn)
    have hk52 : n.natAbs.log2 ≤ 52 := by omega
    have hlo : 2 ^ n.natAbs.log2 ≤ n.natAbs := Nat.log2_self_le hm0
    have hhi : n.natAbs < 2 ^ (n.natAbs.log2 + 1) := Nat.lt_log2_self
    generalize hk' : n.natAbs.log2 = k at *
    generalize hm' : n.natAbs = m at *
    -- the normalised significand
    have hp : 2 ^ k * 2 ^ (52 - k) = 4503599627370496 := by
      rw [← Nat.pow_add]; have : k + (52 - k) = 52 := by omega
      rw [this]
    have hp1 : 2 ^ (k + 1) * 2 ^ (52 - k) = 9007199254740992 := by
      rw [← Nat.pow_add]; have : k + 1 + (52 - k) = 53 := by omega
      rw [this]
    have hpos : 0 < 2 ^ (52 - k) := Nat.pow_pos (by decide)
    have hmlo : 4503599627370496 ≤ m * 2 ^ (52 - k) := by
      rw [← hp]; exact Nat.mul_le_mul_right _ hlo
    have hmhi : m * 2 ^ (52 - k) < 9007199254740992 := by
      rw [← hp1]; exact Nat.mul_lt_mul_of_pos_right hhi hpos
    generalize hM : m * 2 ^ (52 - k) = M at *
    have hbits : ofInt n = (if n < 0 then 9223372036854775808 else 0) + (1023 + k) * 4503599627370496 +
        (M - 4503599627370496) := by
      unfold ofInt
      simp only [h0, if_false, hm', hk', hk52, if_true, hM]
    have hE : expField (ofInt n) = 1023 + k := by
      rw [hbits]; unfold expField; split <;> omega
    have hF : frac (ofInt n) = M - 4503599627370496 := by
      rw [hbits]; unfold frac; split <;> omega
    have hS : sign (ofInt n) = decide (n < 0) := by
      rw [hbits]; unfold sign
      by_cases hneg : n < 0
      · simp only [hneg, if_true, decide_true]; simp; omega
      · simp only [hneg, if_false, decide_false]; simp; omega
    unfold ext
    rw [hE, hF, hS]
    have e1 : ¬ (1023 + k = 2047) := by omega
    have e2 : ¬ (1023 + k = 0) := by omega
    simp only [e1, e2, if_false]
    have e3 : 4503599627370496 + (M - 4503599627370496) = M := by omega
    have e4 : 1023 + k - 1 = 1022 + k := by omega
    rw [e3, e4, ← hM]
    have e5 : m * 2 ^ (52 - k) * 2 ^ (1022 + k) = m * Dn := by
      rw [Nat.mul_assoc, ← Nat.pow_add]
      have : 52 - k + (1022 + k) = 1074 := by omega
      rw [this]; rfl
    rw [e5]
    unfold sgn D
    generalize Dn = d
    apply congrArg Ext.fin
    by_cases hneg : n < 0
    · simp only [hneg, decide_true, if_true]
      have : n = -(m : Int) := by omega
      rw [this]; simp [Int.neg_mul]
    · simp only [hneg, decide_false]
      have : n = (m : Int) := by omega
      rw [this]; simp

end Vita.B64

namespace Vita.B64
open Vita.IntE

/-- facts about the truncation `q` of `u` units that the guards of any saturating conversion use -/
theorem trunc_facts (u : Int) :
    let q := Int.tdiv u Vita.B64.D
    (¬ (2147483647 * Vita.B64.D ≤ u) ∨ 2147483647 ≤ q) ∧ (¬ (u ≤ -2147483648 * Vita.B64.D) ∨ q ≤ -2147483648) ∧
    (¬ (u ≤ 2147483647 * Vita.B64.D) ∨ q ≤ 2147483647) ∧ (¬ (-2147483648 * Vita.B64.D ≤ u) ∨ -2147483648 ≤ q) ∧
    (¬ (u < 2147483648 * Vita.B64.D) ∨ q < 2147483648) ∧ (¬ (-2147483649 * Vita.B64.D < u) ∨ -2147483649 < q) ∧
    (¬ (2147483648 * Vita.B64.D ≤ u) ∨ 2147483648 ≤ q) ∧ (¬ (u ≤ -2147483649 * Vita.B64.D) ∨ q ≤ -2147483649) := by
  intro q
  refine ⟨?_, ?_, ?_, ?_, ?_, ?_, ?_, ?_⟩
  · by_cases h : 2147483647 * Vita.B64.D ≤ u
    · exact Or.inr (Vita.B64.trunc_ge _ _ h)
    · exact Or.inl h
  · by_cases h : u ≤ -2147483648 * Vita.B64.D
    · exact Or.inr (Vita.B64.trunc_le _ _ h)
    · exact Or.inl h
  · by_cases h : u ≤ 2147483647 * Vita.B64.D
    · exact Or.inr (Vita.B64.trunc_le _ _ h)
    · exact Or.inl h
  · by_cases h : -2147483648 * Vita.B64.D ≤ u
    · exact Or.inr (Vita.B64.trunc_ge _ _ h)
    · exact Or.inl h
  · by_cases h : u < 2147483648 * Vita.B64.D
    · exact Or.inr (Vita.B64.trunc_lt_pos _ _ (by decide) h)
    · exact Or.inl h
  · by_cases h : -2147483649 * Vita.B64.D < u
    · exact Or.inr (Vita.B64.trunc_gt_neg _ _ (by decide) h)
    · exact Or.inl h
  · by_cases h : 2147483648 * Vita.B64.D ≤ u
    · exact Or.inr (Vita.B64.trunc_ge _ _ h)
    · exact Or.inl h
  · by_cases h : u ≤ -2147483649 * Vita.B64.D
    · exact Or.inr (Vita.B64.trunc_le _ _ h)
    · exact Or.inl h

macro "number_script" p:term : tactic => `(tactic| (
  have hmax : Vita.B64.ext (Vita.B64.ofInt 2147483647) = .fin (2147483647 * Vita.B64.D) := Vita.B64.ext_ofInt _ (by decide)
  have hmin : Vita.B64.ext (Vita.B64.ofInt (-2147483648)) = .fin (-2147483648 * Vita.B64.D) := Vita.B64.ext_ofInt _ (by decide)
  have hmax1 : Vita.B64.ext 0x41E0000000000000 = .fin (2147483648 * Vita.B64.D) := by
    have := Vita.B64.ext_ofInt 2147483648 (by decide); rwa [show Vita.B64.ofInt 2147483648 = 0x41E0000000000000 by decide] at this
  have hz : Vita.B64.ext 0 = .fin 0 := by decide
  have hmin1 : Vita.B64.ext 0xC1E0000000200000 = .fin (-2147483649 * Vita.B64.D) := by
    have := Vita.B64.ext_ofInt (-2147483649) (by decide); rwa [show Vita.B64.ofInt (-2147483649) = 0xC1E0000000200000 by decide] at this
  (try unfold Vita.B64.le); (try unfold Vita.B64.lt); (try unfold Vita.B64.eq); (try unfold Vita.B64.isNaN); (try unfold Vita.B64.isFinite)
  (try unfold Vita.B64.toInt)
  (try rw [hmax]); (try rw [hmin]); (try rw [hmax1]); (try rw [hmin1]); (try rw [hz])
  cases h : Vita.B64.ext $p with
  | nan => simp [Vita.B64.Ext.le, Vita.B64.Ext.lt, Vita.B64.Ext.eq, Vita.B64.satSpec, Vita.B64.Ext.trunc, Except.bind]
  | ninf => simp [Vita.B64.Ext.le, Vita.B64.Ext.lt, Vita.B64.Ext.eq, Vita.B64.satSpec, Vita.B64.Ext.trunc, Except.bind]
  | pinf => simp [Vita.B64.Ext.le, Vita.B64.Ext.lt, Vita.B64.Ext.eq, Vita.B64.satSpec, Vita.B64.Ext.trunc, Except.bind]
  | fin u =>
    have hf := trunc_facts u
    simp only [Vita.B64.Ext.le, Vita.B64.Ext.lt, Vita.B64.Ext.eq, Vita.B64.Ext.trunc, Vita.B64.satSpec, decide_eq_true_eq, decide_true,
      decide_false, Bool.not_true, Bool.not_false, Bool.false_eq_true, if_false, if_true, Bool.not_eq_true',
      decide_eq_false_iff_not, Bool.and_eq_true, Bool.or_eq_true, reduceCtorEq, inW32_iff, clamp32] at hf ⊢
    generalize Int.tdiv u Vita.B64.D = q at hf ⊢
    repeat' split
    all_goals (first
      | rfl
      | (exfalso; omega)
      | (simp only [Except.bind]; repeat' split)
      | skip)
    all_goals (first
      | rfl
      | (exfalso; omega)
      | (congr 1; omega)
      | (simp only [Except.bind]; congr 1; omega)
      | (simp only [inW32_iff] at *; omega))))


end Vita.B64
