/-
  C14 — an exact, executable model of the *exact* operations on IEEE-754 binary64 values that
  the integer family of int.h uses on its way in and out of `terminal_param_t = double`:

      classification (NaN / ±inf / finite), the comparisons `< <= == !=`, `std::isnan`,
      the conversion `int → double` (exact for |n| < 2^53) and the conversion `double → int`
      (C++17 [conv.fpint]: "truncates; the behaviour is UNDEFINED if the truncated value cannot
      be represented in the destination type").

  None of these operations rounds, so – unlike the arithmetic of C13 – they can be defined
  completely on the 64-bit pattern and every theorem of Props.lean about them is a statement about
  ALL 2^64 doubles, with no IEEE law taken as hypothesis.  A double is a `Nat` (its bit pattern;
  bits above 63 are ignored).  A finite double is an integer number of units of 2^-1074
  (`Ext.fin u`), which turns comparisons and truncation into integer arithmetic.

  The driver runs these definitions against the hardware (`b64 …` lines of checks/c14.py).
-/
import Vita.Common.IntE
import Vita.Common.FloatOps

namespace Vita.B64
open Vita.IntE

/-- biased exponent field (11 bits) -/
def expField (b : Nat) : Nat := (b / 4503599627370496) % 2048
/-- fraction field (52 bits) -/
def frac (b : Nat) : Nat := b % 4503599627370496
/-- sign bit -/
def sign (b : Nat) : Bool := (b / 9223372036854775808) % 2 = 1

/-- the unit: every finite double is an integer multiple of 2^-1074; `D = 2^1074` units make 1.0 -/
def Dn : Nat := 2 ^ 1074
def D : Int := (Dn : Int)

/-- extended value of a double: NaN, −∞, a finite value counted in units of 2^-1074, +∞ -/
inductive Ext where
  | nan
  | ninf
  | fin (u : Int)
  | pinf
  deriving DecidableEq, Repr

def sgn (s : Bool) (m : Int) : Int := if s then -m else m

/-- decode a bit pattern -/
def ext (b : Nat) : Ext :=
  if expField b = 2047 then
    (if frac b = 0 then (if sign b then .ninf else .pinf) else .nan)
  else if expField b = 0 then .fin (sgn (sign b) (frac b))
  else .fin (sgn (sign b) (((4503599627370496 + frac b) * 2 ^ (expField b - 1) : Nat) : Int))

/-- `a < b` (IEEE: false when either is NaN; −0 = +0 because both are 0 units) -/
def Ext.lt : Ext → Ext → Bool
  | .nan, _ => false
  | _, .nan => false
  | .ninf, .ninf => false
  | .ninf, _ => true
  | _, .ninf => false
  | .pinf, _ => false
  | .fin _, .pinf => true
  | .fin x, .fin y => decide (x < y)

def Ext.le : Ext → Ext → Bool
  | .nan, _ => false
  | _, .nan => false
  | .ninf, _ => true
  | _, .ninf => false
  | _, .pinf => true
  | .pinf, _ => false
  | .fin x, .fin y => decide (x ≤ y)

def Ext.eq : Ext → Ext → Bool
  | .ninf, .ninf => true
  | .pinf, .pinf => true
  | .fin x, .fin y => decide (x = y)
  | _, _ => false

def lt (a b : Nat) : Bool := (ext a).lt (ext b)
def le (a b : Nat) : Bool := (ext a).le (ext b)
def eq (a b : Nat) : Bool := (ext a).eq (ext b)
/-- `std::isnan(v)` / `v != v` -/
def isNaN (a : Nat) : Bool := ext a = .nan
/-- `std::isfinite(v)` -/
def isFinite (a : Nat) : Bool := match ext a with | .fin _ => true | _ => false

/-- truncation toward zero of a finite value, `none` for NaN and the infinities -/
def Ext.trunc : Ext → Option Int
  | .fin u => some (Int.tdiv u D)
  | _ => none

/-- `static_cast<T>(double)` for a signed integer type of width `w`, C++17 [conv.fpint]:
    the truncated value when it is representable, a fault (undefined behaviour) otherwise -/
def toInt (w : W) (b : Nat) : Except Fault Int :=
  match (ext b).trunc with
  | some n => if InW w n then .ok n else .error .narrowing
  | none => .error .narrowing

/-- `static_cast<double>(n)` for an integer with |n| < 2^53 (exact; every `int` qualifies).
    For larger magnitudes the low bits are dropped – the translator never emits that case. -/
def ofInt (n : Int) : Nat :=
  if n = 0 then 0 else
  let m := n.natAbs
  let k := m.log2
  let mant := if k ≤ 52 then m * 2 ^ (52 - k) else m / 2 ^ (k - 52)
  (if n < 0 then 9223372036854775808 else 0) + (1023 + k) * 4503599627370496 + (mant - 4503599627370496)

/-- what a saturating conversion to `int` has to return: NaN ↦ 0, out of range ↦ the nearer bound -/
def satSpec : Ext → Int
  | .nan => 0
  | .ninf => -2147483648
  | .pinf => 2147483647
  | .fin u => clamp32 (Int.tdiv u D)

/-- `std::get<int>(v)` on `value_t`: the int inside, `none` = `std::bad_variant_access` -/
def getInt {F : Type} : Vita.Val F → Option Int
  | .int n => some n
  | _ => none

end Vita.B64
