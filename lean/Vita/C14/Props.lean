/-
  C14 — integer primitives never overflow and saturate as documented.

  The terms `Gen.addE … Gen.subE` are regenerated from int.h on every run.
  For each primitive `p` and *all* 32-bit operands:
    * `p_safe` : the C++ expression executes no signed overflow, no division by
                 zero, no `INT_MIN / -1`, no invalid shift, no lossy narrowing;
    * `p_spec` : its ideal value is the documented one;
  hence (`p_run`) the checked evaluation returns exactly the documented value.
-/
import Vita.Common.IntE
import Vita.C14.Gen

namespace Vita.C14
open Vita.IntE

def env2 (a b : Int) : Env := ⟨fun i => if i = 0 then a else b, fun _ => 0⟩

/-- environment for the conditionals: `v` are the cast operands, `r` the raw arguments -/
def envA (v r : Nat → Int) : Env := ⟨v, r⟩

/-! ### documented behaviour -/

def divSpec (a b : Int) : Int :=
  if b = 0 ∨ (a = -2147483648 ∧ b = -1) then a else Int.tdiv a b

def modSpec (a b : Int) : Int :=
  if b = 0 ∨ (a = -2147483648 ∧ b = -1) then b else Int.tmod a b

def shlSpec (a b : Int) : Int :=
  if 0 ≤ a ∧ 0 ≤ b ∧ b < 32 ∧ a * 2 ^ b.toNat ≤ 2147483647 then a * 2 ^ b.toNat else a

/-! ### helpers -/

theorem mul_in64 (a b : Int) (ha : In32 a) (hb : In32 b) :
    -4611686018427387904 ≤ a * b ∧ a * b ≤ 4611686018427387904 := by
  simp only [inW32_iff] at *
  have h1 : (a * b).natAbs = a.natAbs * b.natAbs := Int.natAbs_mul a b
  have h2 : a.natAbs ≤ 2147483648 := by omega
  have h3 : b.natAbs ≤ 2147483648 := by omega
  have h4 : a.natAbs * b.natAbs ≤ 2147483648 * 2147483648 := Nat.mul_le_mul h2 h3
  omega

theorem shift_cases (n : Int) (h0 : 0 ≤ n) (h1 : n < 32) :
    n = 0 ∨ n = 1 ∨ n = 2 ∨ n = 3 ∨ n = 4 ∨ n = 5 ∨ n = 6 ∨ n = 7 ∨ n = 8 ∨ n = 9 ∨ n = 10 ∨
    n = 11 ∨ n = 12 ∨ n = 13 ∨ n = 14 ∨ n = 15 ∨ n = 16 ∨ n = 17 ∨ n = 18 ∨ n = 19 ∨ n = 20 ∨
    n = 21 ∨ n = 22 ∨ n = 23 ∨ n = 24 ∨ n = 25 ∨ n = 26 ∨ n = 27 ∨ n = 28 ∨ n = 29 ∨ n = 30 ∨
    n = 31 := by omega

/-! ### the primitives shipped today are exactly the ones proved below -/

theorem ops_covered :
    Gen.ops.map (·.1) = ["add", "div", "ife", "ifl", "ifz", "mod", "mul", "shl", "sub"] := by
  decide

/-! ### ADD -/

theorem add_safe (a b : Int) (ha : In32 a) (hb : In32 b) : safe (env2 a b) Gen.addE := by
  unfold Gen.addE
  simp only [safe, evalZ, binOK, binZ, cmpZ, b2i, env2, inW32_iff, inW64_iff, lo_i32, hi_i32] at *
  simp
  omega

theorem add_spec (a b : Int) (ha : In32 a) (hb : In32 b) :
    evalZ (env2 a b) Gen.addE = clamp32 (a + b) := by
  unfold Gen.addE clamp32
  simp only [evalZ, binZ, cmpZ, b2i, env2, inW32_iff, inW64_iff, lo_i32, hi_i32] at *
  simp
  omega

/-! ### SUB -/

theorem sub_safe (a b : Int) (ha : In32 a) (hb : In32 b) : safe (env2 a b) Gen.subE := by
  unfold Gen.subE
  simp only [safe, evalZ, binOK, binZ, cmpZ, b2i, env2, inW32_iff, inW64_iff, lo_i32, hi_i32] at *
  simp
  omega

theorem sub_spec (a b : Int) (ha : In32 a) (hb : In32 b) :
    evalZ (env2 a b) Gen.subE = clamp32 (a - b) := by
  unfold Gen.subE clamp32
  simp only [evalZ, binZ, cmpZ, b2i, env2, inW32_iff, inW64_iff, lo_i32, hi_i32] at *
  simp
  omega

/-! ### MUL -/

theorem mul_safe (a b : Int) (ha : In32 a) (hb : In32 b) : safe (env2 a b) Gen.mulE := by
  have hm := mul_in64 a b ha hb
  unfold Gen.mulE
  simp only [safe, evalZ, binOK, binZ, cmpZ, b2i, env2, inW32_iff, inW64_iff, lo_i32, hi_i32] at *
  simp
  generalize a * b = p at *
  omega

theorem mul_spec (a b : Int) (ha : In32 a) (hb : In32 b) :
    evalZ (env2 a b) Gen.mulE = clamp32 (a * b) := by
  unfold Gen.mulE clamp32
  simp only [evalZ, binZ, cmpZ, b2i, env2]
  simp

/-! ### DIV / MOD -/

theorem div_safe (a b : Int) (ha : In32 a) (hb : In32 b) : safe (env2 a b) Gen.divE := by
  unfold Gen.divE
  simp only [safe, evalZ, binOK, binZ, cmpZ, b2i, env2, inW32_iff, inW64_iff, lo_i32, hi_i32] at *
  simp
  omega

theorem div_spec (a b : Int) (ha : In32 a) (hb : In32 b) :
    evalZ (env2 a b) Gen.divE = divSpec a b := by
  unfold Gen.divE divSpec
  simp only [evalZ, binZ, cmpZ, b2i, env2, inW32_iff, inW64_iff, lo_i32, hi_i32] at *
  simp
  split <;> split <;> first | rfl | omega

theorem mod_safe (a b : Int) (ha : In32 a) (hb : In32 b) : safe (env2 a b) Gen.modE := by
  unfold Gen.modE
  simp only [safe, evalZ, binOK, binZ, cmpZ, b2i, env2, inW32_iff, inW64_iff, lo_i32, hi_i32] at *
  simp
  omega

theorem mod_spec (a b : Int) (ha : In32 a) (hb : In32 b) :
    evalZ (env2 a b) Gen.modE = modSpec a b := by
  unfold Gen.modE modSpec
  simp only [evalZ, binZ, cmpZ, b2i, env2, inW32_iff, inW64_iff, lo_i32, hi_i32] at *
  simp
  split <;> split <;> first | rfl | omega

/-- the quotient returned by `DIV` is itself a 32-bit integer (representability) -/
theorem div_result_in32 (a b : Int) (ha : In32 a) (hb : In32 b) : In32 (divSpec a b) := by
  unfold divSpec
  split
  · exact ha
  · rename_i h
    simp only [inW32_iff] at *
    have h1 : (Int.tdiv a b).natAbs = a.natAbs / b.natAbs := Int.natAbs_tdiv a b
    have h2 : a.natAbs / b.natAbs ≤ a.natAbs := Nat.div_le_self _ _
    have hb0 : b ≠ 0 := by omega
    by_cases hm : a = -2147483648
    · have hb1 : b ≠ -1 := by omega
      have h3 : 2 ≤ b.natAbs ∨ b = 1 := by omega
      rcases h3 with h3 | h3
      · have : a.natAbs / b.natAbs ≤ a.natAbs / 2 := Nat.div_le_div_left h3 (by omega)
        omega
      · subst h3; simp; omega
    · omega

/-! ### SHL -/

theorem shl_safe (a b : Int) (ha : In32 a) (hb : In32 b) : safe (env2 a b) Gen.shlE := by
  unfold Gen.shlE
  simp only [safe, evalZ, binOK, binZ, cmpZ, b2i, env2, inW32_iff, inW64_iff, lo_i32, hi_i32, bits_i32] at *
  by_cases h0 : 0 ≤ b ∧ b < 32
  · rcases shift_cases b h0.1 h0.2 with h | h | h | h | h | h | h | h | h | h | h | h | h | h | h | h |
      h | h | h | h | h | h | h | h | h | h | h | h | h | h | h | h <;> subst h <;> simp <;> omega
  · simp
    omega

theorem shl_spec (a b : Int) (ha : In32 a) (hb : In32 b) :
    evalZ (env2 a b) Gen.shlE = shlSpec a b := by
  unfold Gen.shlE shlSpec
  simp only [evalZ, binZ, cmpZ, b2i, env2, inW32_iff, inW64_iff, lo_i32, hi_i32] at *
  by_cases h0 : 0 ≤ b ∧ b < 32
  · rcases shift_cases b h0.1 h0.2 with h | h | h | h | h | h | h | h | h | h | h | h | h | h | h | h |
      h | h | h | h | h | h | h | h | h | h | h | h | h | h | h | h <;> subst h <;> simp <;> omega
  · simp
    split <;> split <;> omega

/-! ### conditionals -/

theorem ife_safe (v r : Nat → Int) : safe (envA v r) Gen.ifeE := by
  unfold Gen.ifeE; simp [safe]

theorem ife_spec (v r : Nat → Int) :
    evalZ (envA v r) Gen.ifeE = if v 0 = v 1 then r 2 else r 3 := by
  unfold Gen.ifeE
  simp only [evalZ, cmpZ, b2i, envA]
  by_cases h : v 0 = v 1 <;> simp [h]

theorem ifl_safe (v r : Nat → Int) : safe (envA v r) Gen.iflE := by
  unfold Gen.iflE; simp [safe]

theorem ifl_spec (v r : Nat → Int) :
    evalZ (envA v r) Gen.iflE = if v 0 < v 1 then r 2 else r 3 := by
  unfold Gen.iflE
  simp only [evalZ, cmpZ, b2i, envA]
  by_cases h : v 0 < v 1 <;> simp [h]

theorem ifz_safe (v r : Nat → Int) : safe (envA v r) Gen.ifzE := by
  unfold Gen.ifzE; simp [safe]

theorem ifz_spec (v r : Nat → Int) :
    evalZ (envA v r) Gen.ifzE = if v 0 = 0 then r 1 else r 2 := by
  unfold Gen.ifzE
  simp only [evalZ, cmpZ, b2i, envA]
  by_cases h : v 0 = 0 <;> simp [h]

/-! ### the property: checked execution returns the documented value, for all operands -/

theorem C14_add (a b : Int) (ha : In32 a) (hb : In32 b) :
    run Gen.addE (env2 a b) = .ok (clamp32 (a + b)) := by
  unfold run; rw [safe_sound _ _ (add_safe a b ha hb), add_spec a b ha hb]

theorem C14_sub (a b : Int) (ha : In32 a) (hb : In32 b) :
    run Gen.subE (env2 a b) = .ok (clamp32 (a - b)) := by
  unfold run; rw [safe_sound _ _ (sub_safe a b ha hb), sub_spec a b ha hb]

theorem C14_mul (a b : Int) (ha : In32 a) (hb : In32 b) :
    run Gen.mulE (env2 a b) = .ok (clamp32 (a * b)) := by
  unfold run; rw [safe_sound _ _ (mul_safe a b ha hb), mul_spec a b ha hb]

theorem C14_div (a b : Int) (ha : In32 a) (hb : In32 b) :
    run Gen.divE (env2 a b) = .ok (divSpec a b) := by
  unfold run; rw [safe_sound _ _ (div_safe a b ha hb), div_spec a b ha hb]

theorem C14_mod (a b : Int) (ha : In32 a) (hb : In32 b) :
    run Gen.modE (env2 a b) = .ok (modSpec a b) := by
  unfold run; rw [safe_sound _ _ (mod_safe a b ha hb), mod_spec a b ha hb]

theorem C14_shl (a b : Int) (ha : In32 a) (hb : In32 b) :
    run Gen.shlE (env2 a b) = .ok (shlSpec a b) := by
  unfold run; rw [safe_sound _ _ (shl_safe a b ha hb), shl_spec a b ha hb]

theorem C14_ife (v r : Nat → Int) :
    run Gen.ifeE (envA v r) = .ok (if v 0 = v 1 then r 2 else r 3) := by
  unfold run; rw [safe_sound _ _ (ife_safe v r), ife_spec v r]

theorem C14_ifl (v r : Nat → Int) :
    run Gen.iflE (envA v r) = .ok (if v 0 < v 1 then r 2 else r 3) := by
  unfold run; rw [safe_sound _ _ (ifl_safe v r), ifl_spec v r]

theorem C14_ifz (v r : Nat → Int) :
    run Gen.ifzE (envA v r) = .ok (if v 0 = 0 then r 1 else r 2) := by
  unfold run; rw [safe_sound _ _ (ifz_safe v r), ifz_spec v r]

/-- saturating results are representable -/
theorem clamp32_in32 (x : Int) : In32 (clamp32 x) := by
  unfold clamp32; simp only [inW32_iff]; split <;> (try split) <;> omega

/-- exactness: whenever the mathematical result is representable it is returned unchanged -/
theorem clamp32_exact (x : Int) (h : In32 x) : clamp32 x = x := by
  unfold clamp32; simp only [inW32_iff] at h; split <;> (try split) <;> omega

/-! ### non-vacuity: the hypotheses are met by boundary operands and the statements bite -/

example : In32 2147483647 ∧ In32 (-2147483648)  := by decide
example : run Gen.addE (env2 2147483647 1) = .ok 2147483647  := by rfl
example : run Gen.mulE (env2 (-2147483648) (-2147483648)) = .ok 2147483647  := by rfl
example : run Gen.divE (env2 (-2147483648) (-1)) = .ok (-2147483648)  := by rfl
example : run Gen.shlE (env2 1 31) = .ok 1  := by rfl
example : run Gen.shlE (env2 1 30) = .ok 1073741824 := by rfl

end Vita.C14
