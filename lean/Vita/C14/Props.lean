/-
  C14 — integer primitives never overflow and saturate as documented.

  The terms `Gen.addE … Gen.subE` are regenerated from int.h on every run.
  For each primitive `p` and *all* 32-bit operands:
    * `p_safe` : the C++ expression executes no signed overflow, no division by
                 zero, no `INT_MIN / -1`, no invalid shift, no lossy narrowing;
    * `p_spec` : its ideal value is the documented one;
  hence (`p_run`) the checked evaluation returns exactly the documented value.
-/
import Vita.Common.IntE
import Vita.C14.Gen
import Vita.C14.GenNum
import Vita.C14.Lemmas

namespace Vita.C14
open Vita.IntE

def env2 (a b : Int) : Env := ⟨fun i => if i = 0 then a else b, fun _ => 0⟩

/-- environment for the conditionals: `v` are the cast operands, `r` the raw arguments -/
def envA (v r : Nat → Int) : Env := ⟨v, r⟩

/-! ### documented behaviour -/

def divSpec (a b : Int) : Int :=
  if b = 0 ∨ (a = -2147483648 ∧ b = -1) then a else Int.tdiv a b

def modSpec (a b : Int) : Int :=
  if b = 0 ∨ (a = -2147483648 ∧ b = -1) then b else Int.tmod a b

def shlSpec (a b : Int) : Int :=
  if 0 ≤ a ∧ 0 ≤ b ∧ b < 32 ∧ a * 2 ^ b.toNat ≤ 2147483647 then a * 2 ^ b.toNat else a

/-! ### helpers -/

theorem mul_in64 (a b : Int) (ha : In32 a) (hb : In32 b) :
    -4611686018427387904 ≤ a * b ∧ a * b ≤ 4611686018427387904 := by
  simp only [inW32_iff] at *
  have h1 : (a * b).natAbs = a.natAbs * b.natAbs := Int.natAbs_mul a b
  have h2 : a.natAbs ≤ 2147483648 := by omega
  have h3 : b.natAbs ≤ 2147483648 := by omega
  have h4 : a.natAbs * b.natAbs ≤ 2147483648 * 2147483648 := Nat.mul_le_mul h2 h3
  omega

theorem shift_cases (n : Int) (h0 : 0 ≤ n) (h1 : n < 32) :
    n = 0 ∨ n = 1 ∨ n = 2 ∨ n = 3 ∨ n = 4 ∨ n = 5 ∨ n = 6 ∨ n = 7 ∨ n = 8 ∨ n = 9 ∨ n = 10 ∨
    n = 11 ∨ n = 12 ∨ n = 13 ∨ n = 14 ∨ n = 15 ∨ n = 16 ∨ n = 17 ∨ n = 18 ∨ n = 19 ∨ n = 20 ∨
    n = 21 ∨ n = 22 ∨ n = 23 ∨ n = 24 ∨ n = 25 ∨ n = 26 ∨ n = 27 ∨ n = 28 ∨ n = 29 ∨ n = 30 ∨
    n = 31 := by omega

/-! ### the primitives shipped today are exactly the ones proved below -/

theorem ops_covered :
    Gen.ops.map (·.1) = ["add", "div", "ife", "ifl", "ifz", "mod", "mul", "shl", "sub"] := by
  decide

/-! ### ADD -/

theorem add_safe (a b : Int) (ha : In32 a) (hb : In32 b) : safe (env2 a b) Gen.addE := by
  unfold Gen.addE
  simp only [safe, evalZ, binOK, binZ, cmpZ, b2i, env2, inW32_iff, inW64_iff, lo_i32, hi_i32] at *
  simp
  omega

theorem add_spec (a b : Int) (ha : In32 a) (hb : In32 b) :
    evalZ (env2 a b) Gen.addE = clamp32 (a + b) := by
  unfold Gen.addE clamp32
  simp only [evalZ, binZ, cmpZ, b2i, env2, inW32_iff, inW64_iff, lo_i32, hi_i32] at *
  simp
  omega

/-! ### SUB -/

theorem sub_safe (a b : Int) (ha : In32 a) (hb : In32 b) : safe (env2 a b) Gen.subE := by
  unfold Gen.subE
  simp only [safe, evalZ, binOK, binZ, cmpZ, b2i, env2, inW32_iff, inW64_iff, lo_i32, hi_i32] at *
  simp
  omega

theorem sub_spec (a b : Int) (ha : In32 a) (hb : In32 b) :
    evalZ (env2 a b) Gen.subE = clamp32 (a - b) := by
  unfold Gen.subE clamp32
  simp only [evalZ, binZ, cmpZ, b2i, env2, inW32_iff, inW64_iff, lo_i32, hi_i32] at *
  simp
  omega

/-! ### MUL -/

theorem mul_safe (a b : Int) (ha : In32 a) (hb : In32 b) : safe (env2 a b) Gen.mulE := by
  have hm := mul_in64 a b ha hb
  unfold Gen.mulE
  simp only [safe, evalZ, binOK, binZ, cmpZ, b2i, env2, inW32_iff, inW64_iff, lo_i32, hi_i32] at *
  simp
  generalize a * b = p at *
  omega

theorem mul_spec (a b : Int) (ha : In32 a) (hb : In32 b) :
    evalZ (env2 a b) Gen.mulE = clamp32 (a * b) := by
  unfold Gen.mulE clamp32
  simp only [evalZ, binZ, cmpZ, b2i, env2]
  simp

/-! ### DIV / MOD -/

theorem div_safe (a b : Int) (ha : In32 a) (hb : In32 b) : safe (env2 a b) Gen.divE := by
  unfold Gen.divE
  simp only [safe, evalZ, binOK, binZ, cmpZ, b2i, env2, inW32_iff, inW64_iff, lo_i32, hi_i32] at *
  simp
  omega

theorem div_spec (a b : Int) (ha : In32 a) (hb : In32 b) :
    evalZ (env2 a b) Gen.divE = divSpec a b := by
  unfold Gen.divE divSpec
  simp only [evalZ, binZ, cmpZ, b2i, env2, inW32_iff, inW64_iff, lo_i32, hi_i32] at *
  simp
  split <;> split <;> first | rfl | omega

theorem mod_safe (a b : Int) (ha : In32 a) (hb : In32 b) : safe (env2 a b) Gen.modE := by
  unfold Gen.modE
  simp only [safe, evalZ, binOK, binZ, cmpZ, b2i, env2, inW32_iff, inW64_iff, lo_i32, hi_i32] at *
  simp
  omega

theorem mod_spec (a b : Int) (ha : In32 a) (hb : In32 b) :
    evalZ (env2 a b) Gen.modE = modSpec a b := by
  unfold Gen.modE modSpec
  simp only [evalZ, binZ, cmpZ, b2i, env2, inW32_iff, inW64_iff, lo_i32, hi_i32] at *
  simp
  split <;> split <;> first | rfl | omega

/-- the quotient returned by `DIV` is itself a 32-bit integer (representability) -/
theorem div_result_in32 (a b : Int) (ha : In32 a) (hb : In32 b) : In32 (divSpec a b) := by
  unfold divSpec
  split
  · exact ha
  · rename_i h
    simp only [inW32_iff] at *
    have h1 : (Int.tdiv a b).natAbs = a.natAbs / b.natAbs := Int.natAbs_tdiv a b
    have h2 : a.natAbs / b.natAbs ≤ a.natAbs := Nat.div_le_self _ _
    have hb0 : b ≠ 0 := by omega
    by_cases hm : a = -2147483648
    · have hb1 : b ≠ -1 := by omega
      have h3 : 2 ≤ b.natAbs ∨ b = 1 := by omega
      rcases h3 with h3 | h3
      · have : a.natAbs / b.natAbs ≤ a.natAbs / 2 := Nat.div_le_div_left h3 (by omega)
        omega
      · subst h3; simp; omega
    · omega

/-! ### SHL -/

theorem shl_safe (a b : Int) (ha : In32 a) (hb : In32 b) : safe (env2 a b) Gen.shlE := by
  unfold Gen.shlE
  simp only [safe, evalZ, binOK, binZ, cmpZ, b2i, env2, inW32_iff, inW64_iff, lo_i32, hi_i32, bits_i32] at *
  by_cases h0 : 0 ≤ b ∧ b < 32
  · rcases shift_cases b h0.1 h0.2 with h | h | h | h | h | h | h | h | h | h | h | h | h | h | h | h |
      h | h | h | h | h | h | h | h | h | h | h | h | h | h | h | h <;> subst h <;> simp <;> omega
  · simp
    omega

theorem shl_spec (a b : Int) (ha : In32 a) (hb : In32 b) :
    evalZ (env2 a b) Gen.shlE = shlSpec a b := by
  unfold Gen.shlE shlSpec
  simp only [evalZ, binZ, cmpZ, b2i, env2, inW32_iff, inW64_iff, lo_i32, hi_i32] at *
  by_cases h0 : 0 ≤ b ∧ b < 32
  · rcases shift_cases b h0.1 h0.2 with h | h | h | h | h | h | h | h | h | h | h | h | h | h | h | h |
      h | h | h | h | h | h | h | h | h | h | h | h | h | h | h | h <;> subst h <;> simp <;> omega
  · simp
    split <;> split <;> omega

/-! ### conditionals -/

theorem ife_safe (v r : Nat → Int) : safe (envA v r) Gen.ifeE := by
  unfold Gen.ifeE; simp [safe]

theorem ife_spec (v r : Nat → Int) :
    evalZ (envA v r) Gen.ifeE = if v 0 = v 1 then r 2 else r 3 := by
  unfold Gen.ifeE
  simp only [evalZ, cmpZ, b2i, envA]
  by_cases h : v 0 = v 1 <;> simp [h]

theorem ifl_safe (v r : Nat → Int) : safe (envA v r) Gen.iflE := by
  unfold Gen.iflE; simp [safe]

theorem ifl_spec (v r : Nat → Int) :
    evalZ (envA v r) Gen.iflE = if v 0 < v 1 then r 2 else r 3 := by
  unfold Gen.iflE
  simp only [evalZ, cmpZ, b2i, envA]
  by_cases h : v 0 < v 1 <;> simp [h]

theorem ifz_safe (v r : Nat → Int) : safe (envA v r) Gen.ifzE := by
  unfold Gen.ifzE; simp [safe]

theorem ifz_spec (v r : Nat → Int) :
    evalZ (envA v r) Gen.ifzE = if v 0 = 0 then r 1 else r 2 := by
  unfold Gen.ifzE
  simp only [evalZ, cmpZ, b2i, envA]
  by_cases h : v 0 = 0 <;> simp [h]

/-! ### the property: checked execution returns the documented value, for all operands -/

theorem C14_add (a b : Int) (ha : In32 a) (hb : In32 b) :
    run Gen.addE (env2 a b) = .ok (clamp32 (a + b)) := by
  unfold run; rw [safe_sound _ _ (add_safe a b ha hb), add_spec a b ha hb]

theorem C14_sub (a b : Int) (ha : In32 a) (hb : In32 b) :
    run Gen.subE (env2 a b) = .ok (clamp32 (a - b)) := by
  unfold run; rw [safe_sound _ _ (sub_safe a b ha hb), sub_spec a b ha hb]

theorem C14_mul (a b : Int) (ha : In32 a) (hb : In32 b) :
    run Gen.mulE (env2 a b) = .ok (clamp32 (a * b)) := by
  unfold run; rw [safe_sound _ _ (mul_safe a b ha hb), mul_spec a b ha hb]

theorem C14_div (a b : Int) (ha : In32 a) (hb : In32 b) :
    run Gen.divE (env2 a b) = .ok (divSpec a b) := by
  unfold run; rw [safe_sound _ _ (div_safe a b ha hb), div_spec a b ha hb]

theorem C14_mod (a b : Int) (ha : In32 a) (hb : In32 b) :
    run Gen.modE (env2 a b) = .ok (modSpec a b) := by
  unfold run; rw [safe_sound _ _ (mod_safe a b ha hb), mod_spec a b ha hb]

theorem C14_shl (a b : Int) (ha : In32 a) (hb : In32 b) :
    run Gen.shlE (env2 a b) = .ok (shlSpec a b) := by
  unfold run; rw [safe_sound _ _ (shl_safe a b ha hb), shl_spec a b ha hb]

theorem C14_ife (v r : Nat → Int) :
    run Gen.ifeE (envA v r) = .ok (if v 0 = v 1 then r 2 else r 3) := by
  unfold run; rw [safe_sound _ _ (ife_safe v r), ife_spec v r]

theorem C14_ifl (v r : Nat → Int) :
    run Gen.iflE (envA v r) = .ok (if v 0 < v 1 then r 2 else r 3) := by
  unfold run; rw [safe_sound _ _ (ifl_safe v r), ifl_spec v r]

theorem C14_ifz (v r : Nat → Int) :
    run Gen.ifzE (envA v r) = .ok (if v 0 = 0 then r 1 else r 2) := by
  unfold run; rw [safe_sound _ _ (ifz_safe v r), ifz_spec v r]

/-- saturating results are representable -/
theorem clamp32_in32 (x : Int) : In32 (clamp32 x) := by
  unfold clamp32; simp only [inW32_iff]; split <;> (try split) <;> omega

/-- exactness: whenever the mathematical result is representable it is returned unchanged -/
theorem clamp32_exact (x : Int) (h : In32 x) : clamp32 x = x := by
  unfold clamp32; simp only [inW32_iff] at h; split <;> (try split) <;> omega


/-! ### the ephemeral constant `integer::number`: parameter (a double) → `int`

`GenNum.numberEval` / `numberInit` / `cast` are regenerated from int.h.  The conversion
`static_cast<int>(double)` is the CHECKED `B64.toInt` of the exact binary64 model: a fault is the
undefined behaviour of C++17 [conv.fpint].  The statements quantify over ALL bit patterns. -/

/-- the raw conversion is defined exactly on the finite doubles strictly between −2^31−1 and 2^31 -/
theorem toInt32_defined_iff (p : Nat) :
    (∃ n, B64.toInt .i32 p = .ok n) ↔
      ∃ u, B64.ext p = .fin u ∧ In32 (Int.tdiv u B64.D) := by
  unfold B64.toInt
  cases h : B64.ext p <;> simp [B64.Ext.trunc]
  rename_i u
  by_cases hin : InW .i32 (Int.tdiv u B64.D) <;> simp [hin]

/-- `number::eval` executes no undefined conversion, for EVERY double parameter (NaN, ±inf and
    out-of-range values included), and returns the saturated truncation -/
theorem number_eval_spec (p : Nat) :
    GenNum.numberEval p = .ok (B64.satSpec (B64.ext p)) := by
  unfold GenNum.numberEval
  number_script p

theorem satSpec_in32 (x : B64.Ext) : In32 (B64.satSpec x) := by
  cases x <;> simp only [B64.satSpec, inW32_iff] <;> try omega
  exact (inW32_iff _).mp (clamp32_in32 _)

/-- … so the value handed to `value_t` is always a representable `int` -/
theorem number_eval_total (p : Nat) : ∃ n, GenNum.numberEval p = .ok n ∧ In32 n :=
  ⟨_, number_eval_spec p, satSpec_in32 _⟩

/-- a parameter that holds an `int` (what `init` stores) is read back exactly -/
theorem number_roundtrip (n : Int) (h : In32 n) : GenNum.numberEval (B64.ofInt n) = .ok n := by
  rw [number_eval_spec, B64.ext_ofInt n (by simp only [inW32_iff] at h; omega)]
  simp only [B64.satSpec, B64.trunc_whole]
  rw [clamp32_exact n h]

/-- `init` followed by `eval`: whatever integer `random::between<int>(min, upp)` returns inside the
    interval it promises is stored without rounding and evaluated without a fault to that integer -/
theorem number_init_eval (between : Int → Int → Int) (min upp : Int) (hmin : In32 min) (hupp : In32 upp)
    (hb : min ≤ between min upp ∧ between min upp < upp) :
    GenNum.numberEval (GenNum.numberInit between min upp) = .ok (between min upp) := by
  unfold GenNum.numberInit
  apply number_roundtrip
  simp only [inW32_iff] at *; omega

/-- `integer::cast` hands back the stored `int` unchanged and otherwise raises (no conversion) -/
theorem cast_spec {F : Type} (v : Val F) :
    GenNum.cast v = (match v with | .int n => some n | _ => none) := by
  unfold GenNum.cast B64.getInt; cases v <;> rfl

/-- every `return` of every integer primitive selects the `int` alternative of `value_t` or hands an
    argument back unchanged: no integer result ever travels through `double` -/
theorem returns_int_or_arg :
    ∀ p ∈ GenNum.retKinds, ∀ k ∈ p.2, k = "int" ∨ k = "arg" := by decide

/-- the classes of namespace `vita::integer` (from the AST) are exactly the ones covered here:
    `number` (above) and the nine arithmetic / conditional primitives of `ops_covered` -/
theorem classes_covered :
    GenNum.classes.map (·.1) = "number" :: ["add", "div", "ife", "ifl", "ifz", "mod", "mul", "shl", "sub"] ∧
    GenNum.functions = ["cast"] := by decide

/-- every member defined with a body is one this check (or the named one) accounts for:
    `eval` / `init` / the boolean flags here, `penalty_nvi` = `comparison_function_penalty` in C13 (and C01),
    `display` in C19 -/
theorem members_covered :
    ∀ c ∈ GenNum.classes, ∀ m ∈ c.2.2.1,
      m ∈ ["eval", "init", "parametric", "associative", "penalty_nvi", "display"] := by decide

theorem flags_spec :
    GenNum.flags = [("number", "parametric", true), ("add", "associative", true), ("mul", "associative", true)] ∧
    -- the four-term comparison penalty (it reads four argument rows) is attached to the four-argument
    -- conditionals only
    GenNum.penalties = ["ife", "ifl"] := by
  decide

set_option exponentiation.threshold 2048

/-- the un-guarded conversion (`static_cast<int>(p.fetch_param())`, the body before the repair) is
    undefined for 1e10, NaN and +inf -/
theorem unguarded_conversion_faults :
    B64.toInt .i32 0x4202A05F20000000 = .error .narrowing ∧
    B64.toInt .i32 0x7FF8000000000000 = .error .narrowing ∧
    B64.toInt .i32 0x7FF0000000000000 = .error .narrowing := by
  refine ⟨?_, ?_, ?_⟩ <;> rfl

/-! ### non-vacuity: the hypotheses are met by boundary operands and the statements bite -/

example : In32 2147483647 ∧ In32 (-2147483648)  := by decide
example : run Gen.addE (env2 2147483647 1) = .ok 2147483647  := by rfl
example : run Gen.mulE (env2 (-2147483648) (-2147483648)) = .ok 2147483647  := by rfl
example : run Gen.divE (env2 (-2147483648) (-1)) = .ok (-2147483648)  := by rfl
example : run Gen.shlE (env2 1 31) = .ok 1  := by rfl
example : run Gen.shlE (env2 1 30) = .ok 1073741824 := by rfl

example : GenNum.numberEval 0x41DFFFFFFFC00000 = .ok 2147483647 := by rfl      -- 2147483647.0
example : GenNum.numberEval 0xC1E0000000200000 = .ok (-2147483648) := by rfl     -- -2147483649.0: saturates
example : GenNum.numberEval 0xC1E00000001FFFFF = .ok (-2147483648) := by rfl     -- -2147483648.99…: truncates
example : GenNum.numberEval 0xBFEFFFFFFFFFFFFF = .ok 0 := by rfl                 -- -0.99…
example : GenNum.numberEval 0x7FF8000000000000 = .ok 0 := by rfl                 -- NaN
example : B64.ofInt (-128) = 0xC060000000000000 := by decide

end Vita.C14
