/-
  C15 — the sequential cache `Mem.*` of the concurrent model refines C04's `Cache` (lean/Vita/C04/Model.lean):
  under an encoding of the abstract keys that is injective on the keys in use (`ok`) and any encoding of
  the token values, the relation `Rep` (same seal, same slot seals, same keys, same values in the slots that
  hold a key) is preserved by insert / clear() / clear(key), and related states answer `find` alike.  Hence
  the answer recorded for a linearized lookup is C04's `Cache.find` on C04's `Cache.run` of the stores and
  clears linearized before it (`find_is_C04`).
-/
import Vita.C15.Model
import Vita.C04.Model
namespace Vita.C15

structure Enc where
  key : Key → Vita.C04.Key
  fit : List Tok → Vita.C04.Fit
  ok : Key → Prop                       -- the keys in use (C04's keys are finitely many)
  key_inj : ∀ a b, ok a → ok b → key a = key b → a = b
  key_ne0 : ∀ a, ok a → key a ≠ Vita.C04.Key.zero

/-- the C04 cache `C` represents the table `m` -/
def Rep (e : Enc) (c : Cfg) (m : Mem) (C : Vita.C04.Cache) : Prop :=
  C.sl.toNat = m.ep ∧ (∀ k, e.ok k → C.idx (e.key k) = c.idx k) ∧
  ∀ i, (C.table i).sl.toNat = (m.tab i).sl ∧
       match (m.tab i).key with
       | some k => e.ok k ∧ (C.table i).hash = e.key k ∧ (C.table i).fit = e.fit (m.tab i).words
       | none => (C.table i).hash = Vita.C04.Key.zero

theorem rep_init (e : Enc) (c : Cfg) (idx : Vita.C04.Key → Nat) (dom : List Nat)
    (hidx : ∀ k, e.ok k → idx (e.key k) = c.idx k) : Rep e c (Mem.init c) (Vita.C04.Cache.init idx dom) := by
  refine ⟨rfl, hidx, fun i => ⟨rfl, rfl⟩⟩

theorem rep_find {e : Enc} {c : Cfg} {m : Mem} {C : Vita.C04.Cache} (h : Rep e c m C) (k : Key) (hk0 : e.ok k) :
    C.find (e.key k) = (m.find c k).map e.fit := by
  obtain ⟨h1, h2, h3⟩ := h
  obtain ⟨hs, hk⟩ := h3 (c.idx k)
  simp only [Vita.C04.Cache.find, Mem.find, h2 k hk0]
  have hsl : (C.sl = (C.table (c.idx k)).sl) ↔ (m.ep = (m.tab (c.idx k)).sl) := by
    rw [← h1, ← hs]; exact UInt32.toNat_inj.symm
  cases hkey : (m.tab (c.idx k)).key with
  | none =>
    rw [hkey] at hk
    simp only at hk
    have : ¬ (e.key k = (C.table (c.idx k)).hash) := by rw [hk]; exact e.key_ne0 k hk0
    simp [this]
  | some k' =>
    rw [hkey] at hk
    simp only at hk
    by_cases hkk : k' = k
    · subst hkk
      by_cases hq : m.ep = (m.tab (c.idx k')).sl
      · simp [hsl.mpr hq, hk.2.1, hk.2.2, hq]
      · have : ¬ C.sl = (C.table (c.idx k')).sl := fun x => hq (hsl.mp x)
        simp [this, hq]
    · have : ¬ (e.key k = (C.table (c.idx k)).hash) := by
        rw [hk.2.1]; intro x; exact hkk (e.key_inj _ _ hk0 hk.1 x).symm
      have h' : ¬ (some k' = some k) := by simpa using hkk
      simp [this, h']

theorem rep_insert {e : Enc} {c : Cfg} {m : Mem} {C : Vita.C04.Cache} (h : Rep e c m C) (k : Key) (hk0 : e.ok k)
    (v : List Tok) : Rep e c (m.insert c k v) (C.insert (e.key k) (e.fit v)) := by
  obtain ⟨h1, h2, h3⟩ := h
  refine ⟨h1, h2, fun i => ?_⟩
  simp only [Vita.C04.Cache.insert, Mem.insert, Vita.C04.setSlot, setSlot, h2 k hk0]
  by_cases hi : i = c.idx k
  · simp [hi, h1, hk0]
  · simp only [hi, if_false]; exact h3 i

theorem rep_clearKey {e : Enc} {c : Cfg} {m : Mem} {C : Vita.C04.Cache} (h : Rep e c m C) (k : Key) (hk0 : e.ok k) :
    Rep e c (m.clearKey c k) (C.clearKey (e.key k)) := by
  obtain ⟨h1, h2, h3⟩ := h
  refine ⟨h1, h2, fun i => ?_⟩
  simp only [Vita.C04.Cache.clearKey, Mem.clearKey, Mem.modSlot, Vita.C04.setSlot, setSlot, h2 k hk0]
  by_cases hi : i = c.idx k
  · subst hi; simp [(h3 (c.idx k)).1]
  · simp only [hi, if_false]; exact h3 i

/-- `unsigned` wraps exactly where the model's seal does -/
theorem rep_clear {e : Enc} {c : Cfg} (hM : c.M = 4294967295) {m : Mem} {C : Vita.C04.Cache} (h : Rep e c m C) :
    Rep e c (m.clear c) C.clear := by
  obtain ⟨h1, h2, h3⟩ := h
  have hlt : C.sl.toNat < 4294967296 := C.sl.toNat_lt
  simp only [Vita.C04.Cache.clear, Mem.clear, hM]
  by_cases hw : m.ep = 4294967295
  · have : C.sl + 1 = 0 := by
      apply UInt32.toNat_inj.mp
      rw [UInt32.toNat_add]; simp [h1, hw]
    simp only [this, hw, if_true]
    exact ⟨rfl, h2, fun i => ⟨rfl, rfl⟩⟩
  · have : ¬ (C.sl + 1 = 0) := by
      intro x
      have := congrArg UInt32.toNat x
      rw [UInt32.toNat_add] at this
      simp at this
      omega
    simp only [this, hw, if_false]
    refine ⟨?_, h2, h3⟩
    rw [UInt32.toNat_add]; simp; omega

/-- the operation of C04's history language an event of the linearized history stands for -/
def Ev.toOp (e : Enc) (c : Cfg) : Ev → Option Vita.C04.Op
  | .insert _ k id => some (.insert (e.key k) (e.fit (val c k id)))
  | .clear _ => some .clear
  | .clearKey _ k => some (.clearKey (e.key k))
  | _ => none

/-- an event C04's history language has a counterpart for (everything but `load`), on keys in use -/
def Ev.plain (e : Enc) : Ev → Prop
  | .load .. => False
  | .insert _ k _ | .clearKey _ k | .find _ k _ => e.ok k
  | _ => True

/-- the C04 history (OLDEST FIRST) of a linearized history (newest first) -/
def opsOf (e : Enc) (c : Cfg) (l : List Ev) : List Vita.C04.Op := l.reverse.filterMap (Ev.toOp e c)

theorem run_append (C : Vita.C04.Cache) (a b : List Vita.C04.Op) : C.run (a ++ b) = (C.run a).run b := by
  simp [Vita.C04.Cache.run, List.foldl_append]

/-- a legal history without `load` ends in a table that C04's `Cache.run` of the same stores and clears
    represents -/
theorem rep_replay (e : Enc) (c : Cfg) (hM : c.M = 4294967295) (idx : Vita.C04.Key → Nat) (dom : List Nat)
    (hidx : ∀ k, e.ok k → idx (e.key k) = c.idx k) (l : List Ev) (hl : ∀ x, x ∈ l → x.plain e) {m : Mem}
    (h : replay c l = some m) : Rep e c m ((Vita.C04.Cache.init idx dom).run (opsOf e c l)) := by
  induction l generalizing m with
  | nil =>
    simp only [replay, Option.some.injEq] at h; subst h
    exact rep_init e c idx dom hidx
  | cons x l ih =>
    simp only [replay] at h
    split at h
    · rename_i m0 h0
      split at h
      · simp only [Option.some.injEq] at h; subst h
        have ih' := ih (fun y hy => hl y (List.mem_cons_of_mem _ hy)) h0
        have hx := hl x List.mem_cons_self
        simp only [opsOf, List.reverse_cons, List.filterMap_append, run_append] at ih' ⊢
        cases x with
        | find t k r =>
          simp only [Ev.toOp, Mem.apply, List.filterMap_cons, List.filterMap_nil, Vita.C04.Cache.run, List.foldl_nil]
          exact ih'
        | save t out =>
          simp only [Ev.toOp, Mem.apply, List.filterMap_cons, List.filterMap_nil, Vita.C04.Cache.run, List.foldl_nil]
          exact ih'
        | insert t k id =>
          simp only [Ev.toOp, Mem.apply, List.filterMap_cons, List.filterMap_nil, Vita.C04.Cache.run, List.foldl_cons,
            List.foldl_nil, Vita.C04.Cache.step]
          exact rep_insert ih' k hx _
        | clear t =>
          simp only [Ev.toOp, Mem.apply, List.filterMap_cons, List.filterMap_nil, Vita.C04.Cache.run, List.foldl_cons,
            List.foldl_nil, Vita.C04.Cache.step]
          exact rep_clear hM ih'
        | clearKey t k =>
          simp only [Ev.toOp, Mem.apply, List.filterMap_cons, List.filterMap_nil, Vita.C04.Cache.run, List.foldl_cons,
            List.foldl_nil, Vita.C04.Cache.step]
          exact rep_clearKey ih' k hx
        | load t sl es ok => exact hx.elim
      · cases h
    · cases h

/-- in a legal history (no `load`, keys in use) the answer recorded for a lookup is what C04's `Cache`
    answers after running the stores and clears recorded before it -/
theorem find_is_C04 (e : Enc) (c : Cfg) (hM : c.M = 4294967295) (idx : Vita.C04.Key → Nat) (dom : List Nat)
    (hidx : ∀ k, e.ok k → idx (e.key k) = c.idx k) (l1 l2 : List Ev) (t : Tid) (k : Key) (r : Option (List Tok))
    (hl : ∀ x, x ∈ l1 ++ .find t k r :: l2 → x.plain e) {m : Mem} (h : replay c (l1 ++ .find t k r :: l2) = some m) :
    ((Vita.C04.Cache.init idx dom).run (opsOf e c l2)).find (e.key k) = r.map e.fit := by
  have hsplit : ∀ (l1 : List Ev) (m : Mem), replay c (l1 ++ .find t k r :: l2) = some m →
      ∃ m0, replay c l2 = some m0 ∧ r = m0.find c k := by
    intro l1
    induction l1 with
    | nil =>
      intro m h
      simp only [List.nil_append, replay] at h
      split at h
      · rename_i m0 h0
        split at h
        · rename_i hleg; exact ⟨m0, h0, by simpa [Mem.legal] using hleg⟩
        · cases h
      · cases h
    | cons x l1 ih =>
      intro m h
      simp only [List.cons_append, replay] at h
      split at h
      · rename_i m1 h1; exact ih m1 h1
      · cases h
  obtain ⟨m0, h0, hr⟩ := hsplit l1 m h
  have hk : e.ok k := hl (.find t k r) (List.mem_append_right _ List.mem_cons_self)
  have hrep := rep_replay e c hM idx dom hidx l2
    (fun x hx => hl x (List.mem_append_right _ (List.mem_cons_of_mem _ hx))) h0
  rw [rep_find hrep k hk, hr]

end Vita.C15
