/-
  C15 line-protocol driver: executes schedules on the MODEL (Vita.C15.Exec, the canonical discipline:
  std::shared_mutex by its specification, shared for find/save, exclusive for the others).  One macro
  step per line = what a real thread does between two scheduling points of harness/c15_sched.cc.

  Each line is `<step> = <what the harness observed on the real threads>`; the driver checks that
  the observed transition is a transition of the model (answers `ok`, else `REJECT <why>`; after a
  REJECT the rest of that schedule is answered `skip`):
    init <L> <n> [<disc>] = init          (disc: 7 characters as in the harness; default S0XXXSX = canonical;
                                           only recorded corpus traces name another one)
    facq t k | pacq t k = ok|blocked      fcmp t = ok     fret t = ok[ woke p]     rcopy t = r none | r k:id … (L words)
    peval t = ok     pret t = r k:id …                                  (evaluator_proxy::operator())
    wacq t k id = ok|blocked     wwr t = ok     wrel t = ok[ woke p]
    cacq t / cinv t / crel t  (clear())         kacq t k / kinv t / krel t  (clear(key))
    sacq t = ok|blocked   spt t = ok   srel t = ok[ woke p]   sres t = s@<seal> <k>/<w>,<w>… …
    lacq t <seal> <1|0> k:id … = ok|blocked     lent t = ok     lrel t = ok[ woke p]     lres t = 1|0
  `blocked`: the thread did not get the lock within the probe time and is now pending; `woke p`: the
  pending thread p got the lock as a consequence of this release.
  Keys 1..7 share slot 5, the keys from 8 on live in slot `k % 16` (as in the harness).
-/
import Vita.C15.Exec
open Vita.C15

def drvCfg (l : Nat) : Cfg := ⟨l, 4294967295, fun k => if k < 8 then 5 else k % 16, List.range 128⟩

structure St where
  n : Nat := 0
  c : Cfg := drvCfg 1
  s : S := S.init (drvCfg 1)
  d : Disc := Disc.canonical
  pend : Option (Tid × Act) := none
  eps : List (Tid × Nat) := []        -- the seal a thread's save saw
  dead : Bool := true

def lkOfChar : Char → Option LK
  | 'N' => some .none
  | 'S' => some .shared
  | 'X' => some .excl
  | _ => none

def discOfString (w : String) : Option Disc :=
  match w.toList with
  | [f, r, i, c, k, s, l] =>
    match lkOfChar f, lkOfChar i, lkOfChar c, lkOfChar k, lkOfChar s, lkOfChar l with
    | some f, some i, some c, some k, some s, some l => some ⟨f, r == '1', i, c, k, s, l⟩
    | _, _, _, _, _, _ => none
  | _ => none

def showTok (w : Tok) : String := toString w.1 ++ ":" ++ toString w.2

def showRes : Option (List Tok) → String
  | none => "r none"
  | some v => v.foldl (fun acc w => acc ++ " " ++ showTok w) "r"

def showSave (ep : Nat) (out : List (Key × List Tok)) : String :=
  out.foldl (fun acc e => acc ++ " " ++ toString e.1 ++ "/" ++ ",".intercalate (e.2.map showTok)) ("s@" ++ toString ep)

def runActs (st : St) (as : List Act) : Option St :=
  match execs st.d st.c st.n st.s as with
  | some s' => some { st with s := s' }
  | none => none

def reject (st : St) (why : String) : St × String := ({ st with dead := true }, "REJECT " ++ why)

/-- does some thread other than `t` hold the lock in shared mode? -/
def otherReader (st : St) (t : Tid) : Bool :=
  (List.range st.n).any fun u => u != t && lockOf st.d (st.s.th u) == .shared

/-- an acquisition together with what the harness observed (`ok` = the thread got the lock,
    `blocked` = it did not within the probe time).  A lock that excludes MORE than the specification
    (a reader kept waiting by another reader, e.g. std::mutex) is accepted: the thread is pending. -/
def acquire (st : St) (t : Tid) (as : List Act) (shared : Bool) (obs : List String) : St × String :=
  match as with
  | [] => reject st "bad-step"
  | a :: _ =>
  match obs, runActs st as with
  | ["ok"], some st' => (st', "ok")
  | ["ok"], none =>
    match step1 st.d st.c st.s a with
    | some _ => reject st "lock-acquired-although-the-specification-forbids-it"
    | none => reject st "step-not-enabled-in-the-model"
  | ["blocked"], none =>
    if t < st.n ∧ (step1 st.d st.c st.s a).isSome ∧ st.pend.isNone then ({ st with pend := some (t, a) }, "ok")
    else reject st "bad-step"
  | ["blocked"], some _ =>
    if shared ∧ otherReader st t ∧ st.pend.isNone then ({ st with pend := some (t, a) }, "ok")
    else reject st "blocked-although-nobody-holds-a-conflicting-lock"
  | _, _ => reject st "bad-observation"

/-- what a pending acquisition is followed by once the lock is there -/
def afterWake (a : Act) : List Act :=
  match a with
  | .sAcquire t => [.sStart t]
  | _ => []

/-- a step that gives a lock back, with the observed wake-up of the pending thread -/
def release (st : St) (obs : List String) : St × String :=
  match obs, st.pend with
  | ["ok"], none => (st, "ok")
  | ["ok"], some (_, a) =>
    match exec st.d st.c st.n st.s a with
    | some _ => reject st "pending-thread-not-woken-although-the-lock-is-free"
    | none => (st, "ok")
  | ["ok", "woke", p], some (t, a) =>
    if p.toNat? = some t then
      match runActs st (a :: afterWake a) with
      | some st' => ({ st' with pend := none }, "ok")
      | none => reject st "pending-thread-got-the-lock-although-the-specification-forbids-it"
    else reject st "bad-observation"
  | _, _ => reject st "bad-observation"

def parseTok (w : String) : Option Tok :=
  match w.splitOn ":" with
  | [a, b] => match a.toNat?, b.toNat? with
    | some x, some y => some (x, y)
    | _, _ => none
  | _ => none

def step (st : St) (line : String) : St × String :=
  match line.trimAscii.toString.splitOn " = " with
  | [lhs, rhs] =>
    let toks := (lhs.splitOn " ").filter (· ≠ "")
    let obs := (rhs.splitOn " ").filter (· ≠ "")
    match toks with
    | [] => (st, "bad-op")
    | cmd :: args =>
      if cmd == "init" then
        let (nums, disc) : List String × Option Disc :=
          match args with
          | [l, n, w] => ([l, n], discOfString w)
          | _ => (args, some Disc.canonical)
        match nums.mapM String.toNat?, disc with
        | some [l, n], some d =>
          if l ≥ 1 ∧ l ≤ 64 ∧ n ≥ 1 ∧ n ≤ 64 then
            ({ n := n, c := drvCfg l, s := S.init (drvCfg l), d := d, pend := none, eps := [], dead := false }, "ok")
          else (st, "bad-op")
        | _, _ => (st, "bad-op")
      else if st.dead then (st, "skip")
      else if cmd == "lacq" then
        match args with
        | t :: sl :: ok :: es =>
          match t.toNat?, sl.toNat?, ok.toNat?, es.mapM parseTok with
          | some t, some sl, some ok, some es => acquire st t [.lAcquire t sl es (ok == 1)] false obs
          | _, _, _, _ => (st, "bad-op")
        | _ => (st, "bad-op")
      else
      match args.mapM String.toNat? with
      | none => (st, "bad-op")
      | some xs =>
        let run (as : List Act) (k : St → St × String) : St × String :=
          match runActs st as with
          | some st' => k st'
          | none => reject st "step-not-enabled-in-the-model"
        let cmpRes (_t : Tid) (st1 : St) (r : Option (List Tok)) (next : List Act) : St × String :=
          match runActs st1 next with
          | some st2 =>
            if showRes r == " ".intercalate obs then (st2, "ok")
            else reject st2 ("lookup-differs model=" ++ (showRes r).replace " " "_")
          | none => reject st "step-not-enabled-in-the-model"
        match cmd, xs with
        | "facq", [t, k] => acquire st t [.fAcquire t k] true obs
        | "pacq", [t, k] => acquire st t [.fAcquire t k] true obs
        | "fcmp", [t] => run [.fCheck t] fun st' => (st', "ok")
        | "fret", [t] =>
          match st.s.th t with
          | .fCopy _ acc =>
            run ((List.replicate (st.c.L - acc.length) (Act.fCopyWord t)) ++ [.fRelease t]) (release · obs)
          | .fMissed _ => run [.fRelease t] (release · obs)
          | .rCopy .. => release st obs          -- (reference variant) the lock went back at the comparison
          | _ => reject st "step-not-enabled-in-the-model"
        | "rcopy", [t] =>
          match st.s.th t with
          | .fDone _ r => cmpRes t st r [.fReturn t]
          | .rCopy k acc =>
            -- (reference variant) the caller copies now, through the reference
            match runActs st ((List.replicate (st.c.L - acc.length) (Act.fCopyWord t)) ++ [.fRelease t]) with
            | some st1 =>
              match st1.s.th t with
              | .fDone _ r => cmpRes t st1 r [.fReturn t]
              | _ => reject st "step-not-enabled-in-the-model"
            | none => let _ := k; reject st "step-not-enabled-in-the-model"
          | _ => reject st "step-not-enabled-in-the-model"
        | "peval", [t] => run [.pMiss t] fun st' => (st', "ok")
        | "pret", [t] =>
          match st.s.th t with
          | .fDone _ (some v) => cmpRes t st (some v) [.pHit t, .pReturn t]
          | .pDone _ v => cmpRes t st (some v) [.pReturn t]
          | _ => reject st "step-not-enabled-in-the-model"
        | "wacq", [t, k, id] => acquire st t [.wAcquire t k id] false obs
        | "wwr", [t] =>
          match st.s.th t with
          | .wLocked .. => run (.wKey t :: List.replicate st.c.L (Act.wWord t) ++ [.wSeal t]) fun st' => (st', "ok")
          | _ => reject st "step-not-enabled-in-the-model"
        | "wrel", [t] => run [.wRelease t] (release · obs)
        | "cacq", [t] => acquire st t [.cAcquire t] false obs
        | "cinv", [t] => run [.cBump t] fun st' => (st', "ok")
        | "crel", [t] => run [.cRelease t] (release · obs)
        | "kacq", [t, k] => acquire st t [.kAcquire t k] false obs
        | "kinv", [t] => run [.kInv t] fun st' => (st', "ok")
        | "krel", [t] => run [.kRelease t] (release · obs)
        | "sacq", [t] => acquire st t [.sAcquire t, .sStart t] true obs
        | "spt", [t] =>
          match st.s.th t with
          | .sRun .. => (st, "ok")
          | _ => reject st "step-not-enabled-in-the-model"
        | "srel", [t] =>
          match st.s.th t with
          | .sRun rest _ =>
            let st0 := { st with eps := (t, st.s.mem.ep) :: st.eps.filter (·.1 != t) }
            match runActs st0 (List.replicate rest.length (Act.sSlot t) ++ [.sEnd t]) with
            | some st' => release st' obs
            | none => reject st "step-not-enabled-in-the-model"
          | _ => reject st "step-not-enabled-in-the-model"
        | "sres", [t] =>
          match st.s.th t with
          | .sDone out =>
            let ep := ((st.eps.find? (·.1 == t)).map (·.2)).getD 0
            match runActs st [.sReturn t] with
            | some st2 =>
              if showSave ep out == " ".intercalate obs then (st2, "ok")
              else reject st2 ("save-differs model=" ++ (showSave ep out).replace " " "_")
            | none => reject st "step-not-enabled-in-the-model"
          | _ => reject st "step-not-enabled-in-the-model"
        | "lent", [t] => run [.lEntry t] fun st' => (st', "ok")
        | "lrel", [t] =>
          match st.s.th t with
          | .lRun _ es _ => run (List.replicate es.length (Act.lEntry t) ++ [.lSeal t, .lRelease t]) (release · obs)
          | _ => reject st "step-not-enabled-in-the-model"
        | "lres", [t] =>
          match lastOf t st.s.lin with
          | some (.load _ _ _ ok) =>
            if obs == [if ok then "1" else "0"] then (st, "ok") else reject st "load-result-differs"
          | _ => reject st "step-not-enabled-in-the-model"
        | _, _ => (st, "bad-op")
  | _ => (st, "bad-op")

partial def loop (h : IO.FS.Stream) (out : IO.FS.Stream) (st : St) : IO Unit := do
  let line ← h.getLine
  if line.isEmpty then return ()
  let (st', ans) := step st line
  out.putStrLn ans
  loop h out st'

def main : IO Unit := do
  loop (← IO.getStdin) (← IO.getStdout) {}
