/-
  C15 line-protocol driver: executes schedules on the MODEL (Vita.C15.Exec).  One macro step per
  line = what a real thread does between two scheduling points of the harness:

  Each line is `<step> = <what the harness observed on the real threads>`; the driver checks that
  the observed transition is a transition of the model (answers `ok`, else `REJECT <why>`; after a
  REJECT the rest of that schedule is answered `skip`):
    init <L> <n> <ref> = init             (ref = 1: the reference variant of find)
    facq t k = ok|blocked    fcmp t = ok    fret t = ok[ woke p]    rcopy t = r none | r k:id … (L words)
    wacq t k id = ok|blocked wwr t = ok     wrel t = ok[ woke p]
    cacq t / cinv t / crel t  (clear())     kacq t k / kinv t / krel t  (clear(key))
  `blocked`: the thread did not get the lock within the probe time and is now pending; `woke p`: the
  pending thread p got the lock as a consequence of this release.
-/
import Vita.C15.Exec
open Vita.C15

structure St where
  n : Nat := 0
  ref : Bool := false
  s : S := S.init 1
  pend : Option (Tid × Act) := none
  dead : Bool := true

def showRes : Option (List Tok) → String
  | none => "r none"
  | some v => v.foldl (fun acc w => acc ++ " " ++ toString w.1 ++ ":" ++ toString w.2) "r"

def runActs (st : St) (as : List Act) : Option St :=
  match execs st.ref st.n st.s as with
  | some s' => some { st with s := s' }
  | none => none

def reject (st : St) (why : String) : St × String := ({ st with dead := true }, "REJECT " ++ why)

/-- does some thread other than `t` hold the shared lock? -/
def otherReader (st : St) (t : Tid) : Bool := (List.range st.n).any fun u => u != t && (st.s.th u).isR

/-- an acquisition together with what the harness observed (`ok` = the thread got the lock,
    `blocked` = it did not within the probe time).  A lock that excludes MORE than the specification
    (a reader kept waiting by another reader, e.g. std::mutex) is accepted: the thread is pending. -/
def acquire (st : St) (t : Tid) (a : Act) (shared : Bool) (obs : List String) : St × String :=
  match obs, exec st.ref st.n st.s a with
  | ["ok"], some s' => ({ st with s := s' }, "ok")
  | ["ok"], none => reject st "lock-acquired-although-the-specification-forbids-it"
  | ["blocked"], none =>
    if t < st.n ∧ st.s.th t = .idle ∧ st.pend.isNone then ({ st with pend := some (t, a) }, "ok")
    else reject st "bad-step"
  | ["blocked"], some _ =>
    if shared ∧ otherReader st t ∧ st.pend.isNone then ({ st with pend := some (t, a) }, "ok")
    else reject st "blocked-although-nobody-holds-a-conflicting-lock"
  | _, _ => reject st "bad-observation"

/-- a step that gives a lock back, with the observed wake-up of the pending thread -/
def release (st : St) (obs : List String) : St × String :=
  match obs, st.pend with
  | ["ok"], none => (st, "ok")
  | ["ok"], some (_, a) =>
    match exec st.ref st.n st.s a with
    | some _ => reject st "pending-thread-not-woken-although-the-lock-is-free"
    | none => (st, "ok")
  | ["ok", "woke", p], some (t, a) =>
    if p.toNat? = some t then
      match exec st.ref st.n st.s a with
      | some s' => ({ st with s := s', pend := none }, "ok")
      | none => reject st "pending-thread-got-the-lock-although-the-specification-forbids-it"
    else reject st "bad-observation"
  | _, _ => reject st "bad-observation"

def step (st : St) (line : String) : St × String :=
  match line.trimAscii.toString.splitOn " = " with
  | [lhs, rhs] =>
    let toks := (lhs.splitOn " ").filter (· ≠ "")
    let obs := (rhs.splitOn " ").filter (· ≠ "")
    match toks with
    | [] => (st, "bad-op")
    | cmd :: args =>
      match args.mapM String.toNat? with
      | none => (st, "bad-op")
      | some xs =>
        if cmd == "init" then
          match xs with
          | [l, n, r] =>
            if l ≥ 1 ∧ l ≤ 64 ∧ n ≥ 1 ∧ n ≤ 64 then
              ({ n := n, ref := r == 1, s := S.init l, pend := none, dead := false }, "ok")
            else (st, "bad-op")
          | _ => (st, "bad-op")
        else if st.dead then (st, "skip")
        else
        let run (as : List Act) (k : St → St × String) : St × String :=
          match runActs st as with
          | some st' => k st'
          | none => reject st "step-not-enabled-in-the-model"
        match cmd, xs with
        | "facq", [t, k] => acquire st t (.fAcquire t k) true obs
        | "fcmp", [t] => run [.fCheck t] fun st' => (st', "ok")
        | "fret", [t] =>
          match st.s.th t with
          | .fCopy _ acc =>
            run ((List.replicate (st.s.L - acc.length) (Act.fCopyWord t)) ++ [.fRelease t]) (release · obs)
          | .fMissed _ => run [.fRelease t] (release · obs)
          | .rCopy _ _ => release st obs
          | _ => reject st "step-not-enabled-in-the-model"
        | "rcopy", [t] =>
          let fin (st1 : St) : St × String :=
            match st1.s.th t with
            | .fDone _ r =>
              match runActs st1 [.fReturn t] with
              | some st2 =>
                if showRes r == " ".intercalate obs then (st2, "ok")
                else reject st2 ("lookup-differs model=" ++ (showRes r).replace " " "_")
              | none => reject st "step-not-enabled-in-the-model"
            | _ => reject st "step-not-enabled-in-the-model"
          match st.s.th t with
          | .fDone _ _ => fin st
          | .rCopy _ acc =>
            run ((List.replicate (st.s.L - acc.length) (Act.fCopyWord t)) ++ [.fRelease t]) fin
          | _ => reject st "step-not-enabled-in-the-model"
        | "wacq", [t, k, id] => acquire st t (.wAcquire t k id) false obs
        | "wwr", [t] =>
          match st.s.th t with
          | .wLocked _ _ => run (.wKey t :: List.replicate st.s.L (Act.wWord t)) fun st' => (st', "ok")
          | _ => reject st "step-not-enabled-in-the-model"
        | "wrel", [t] => run [.wRelease t] (release · obs)
        | "cacq", [t] => acquire st t (.cAcquire t) false obs
        | "kacq", [t, _] => acquire st t (.cAcquire t) false obs
        | "cinv", [t] => run [.cInvalidate t] fun st' => (st', "ok")
        | "kinv", [t] => run [.cInvalidate t] fun st' => (st', "ok")
        | "crel", [t] => run [.cRelease t] (release · obs)
        | "krel", [t] => run [.cRelease t] (release · obs)
        | _, _ => (st, "bad-op")
  | _ => (st, "bad-op")

partial def loop (h : IO.FS.Stream) (out : IO.FS.Stream) (st : St) : IO Unit := do
  let line ← h.getLine
  if line.isEmpty then return ()
  let (st', ans) := step st line
  out.putStrLn ans
  loop h out st'

def main : IO Unit := do
  loop (← IO.getStdin) (← IO.getStdout) {}
