/-
  C15 line-protocol driver: executes schedules on the MODEL (Vita.C15.Exec).  One macro step per
  line = what a real thread does between two scheduling points of the harness:

    init <L> <n> <ref>                    -> init           (ref = 1: the reference variant of find)
    facq t k | fcmp t | fret t | rcopy t  -> ok | blocked | ok | ok | r none | r k:id … (the L words)
    wacq t k id | wwr t | wrel t          -> ok | blocked …
    cacq t | cinv t | crel t              -> (clear())        kacq t k | kinv t | krel t  (clear(key))
  A step that releases a lock answers `ok woke <t>` when the pending (blocked) thread gets it.
  A step the model does not enable for a thread that is ready to take it answers `blocked` and the
  thread becomes pending; anything else that is not enabled is `bad-op`.
-/
import Vita.C15.Exec
open Vita.C15

structure St where
  n : Nat := 0
  ref : Bool := false
  s : S := S.init 1
  pend : Option (Tid × Act) := none

def showRes : Option (List Tok) → String
  | none => "r none"
  | some v => v.foldl (fun acc w => acc ++ " " ++ toString w.1 ++ ":" ++ toString w.2) "r"

def runActs (st : St) (as : List Act) : Option St :=
  match execs st.ref st.n st.s as with
  | some s' => some { st with s := s' }
  | none => none

/-- after a release: the pending thread (if any) takes the lock as soon as the model enables it -/
def wake (st : St) : St × String :=
  match st.pend with
  | some (t, a) =>
    match exec st.ref st.n st.s a with
    | some s' => ({ st with s := s', pend := none }, " woke " ++ toString t)
    | none => (st, "")
  | none => (st, "")

def okWake (st : St) : St × String :=
  let (st', w) := wake st
  (st', "ok" ++ w)

def acquire (st : St) (t : Tid) (a : Act) : St × String :=
  match exec st.ref st.n st.s a with
  | some s' => ({ st with s := s' }, "ok")
  | none =>
    if t < st.n ∧ st.s.th t = .idle ∧ st.pend.isNone then ({ st with pend := some (t, a) }, "blocked")
    else (st, "bad-op")

def step (st : St) (line : String) : St × String :=
  let toks := (line.trimAscii.toString.splitOn " ").filter (· ≠ "")
  match toks with
  | [] => (st, "bad-op")
  | cmd :: args =>
    match args.mapM String.toNat? with
    | none => (st, "bad-op")
    | some xs =>
      let run (as : List Act) (k : St → St × String) : St × String :=
        match runActs st as with
        | some st' => k st'
        | none => (st, "bad-op")
      match cmd, xs with
      | "init", [l, n, r] =>
        if l ≥ 1 ∧ l ≤ 64 ∧ n ≥ 1 ∧ n ≤ 64 then ({ n := n, ref := r == 1, s := S.init l, pend := none }, "init")
        else (st, "bad-op")
      | "facq", [t, k] => acquire st t (.fAcquire t k)
      | "fcmp", [t] => run [.fCheck t] fun st' => (st', "ok")
      | "fret", [t] =>
        match st.s.th t with
        | .fCopy _ acc =>
          run ((List.replicate (st.s.L - acc.length) (Act.fCopyWord t)) ++ [.fRelease t]) okWake
        | .fMissed _ => run [.fRelease t] okWake
        | .rCopy _ _ => (st, "ok")
        | _ => (st, "bad-op")
      | "rcopy", [t] =>
        match st.s.th t with
        | .fDone _ r => run [.fReturn t] fun st' => (st', showRes r)
        | .rCopy _ acc =>
          match runActs st ((List.replicate (st.s.L - acc.length) (Act.fCopyWord t)) ++ [.fRelease t]) with
          | some st1 =>
            match st1.s.th t with
            | .fDone _ r =>
              match runActs st1 [.fReturn t] with
              | some st2 => (st2, showRes r)
              | none => (st, "bad-op")
            | _ => (st, "bad-op")
          | none => (st, "bad-op")
        | _ => (st, "bad-op")
      | "wacq", [t, k, id] => acquire st t (.wAcquire t k id)
      | "wwr", [t] =>
        match st.s.th t with
        | .wLocked _ _ => run (.wKey t :: List.replicate st.s.L (Act.wWord t)) fun st' => (st', "ok")
        | _ => (st, "bad-op")
      | "wrel", [t] => run [.wRelease t] okWake
      | "cacq", [t] => acquire st t (.cAcquire t)
      | "kacq", [t, _] => acquire st t (.cAcquire t)
      | "cinv", [t] => run [.cInvalidate t] fun st' => (st', "ok")
      | "kinv", [t] => run [.cInvalidate t] fun st' => (st', "ok")
      | "crel", [t] => run [.cRelease t] okWake
      | "krel", [t] => run [.cRelease t] okWake
      | _, _ => (st, "bad-op")

partial def loop (h : IO.FS.Stream) (out : IO.FS.Stream) (st : St) : IO Unit := do
  let line ← h.getLine
  if line.isEmpty then return ()
  let (st', ans) := step st line
  out.putStrLn ans
  loop h out st'

def main : IO Unit := do
  loop (← IO.getStdin) (← IO.getStdout) {}
