/-
  C15 — executable form of the transition system for `n` threads (what the driver runs, and what
  the witness schedules of Props.lean are evaluated with), and its soundness: every executed action
  is a step of the relation the theorems are about.
-/
import Vita.C15.Lemmas
namespace Vita.C15

/-- `Free` for the threads `0 … n-1` -/
def freeB (d : Disc) (n : Nat) (th : Tid → T) : LK → Bool
  | .none => true
  | .shared => (List.range n).all fun u => lockOf d (th u) != .excl
  | .excl => (List.range n).all fun u => lockOf d (th u) == .none

def exec (d : Disc) (c : Cfg) (n : Nat) (s : S) (a : Act) : Option S :=
  if a.tid < n ∧ freeB d n s.th (acq d a) = true then step1 d c s a else none

/-- threads `n, n+1, …` never run -/
def Bounded (n : Nat) (s : S) : Prop := ∀ u, n ≤ u → s.th u = .idle

theorem free_of_freeB {d : Disc} {n : Nat} {s : S} (hb : Bounded n s) (lk : LK)
    (h : freeB d n s.th lk = true) : Free d s.th lk := by
  cases lk with
  | none => trivial
  | shared =>
    intro u
    by_cases hu : u < n
    · have := List.all_eq_true.mp h u (List.mem_range.mpr hu)
      simpa using this
    · rw [hb u (Nat.le_of_not_lt hu)]; simp [lockOf]
  | excl =>
    intro u
    by_cases hu : u < n
    · have := List.all_eq_true.mp h u (List.mem_range.mpr hu)
      simpa using this
    · rw [hb u (Nat.le_of_not_lt hu)]; rfl

/-- **exec_sound** — an action the driver executes is a step of `Step`, and the idle tail stays idle -/
theorem exec_sound {d : Disc} {c : Cfg} {n : Nat} {s s' : S} (hb : Bounded n s) (a : Act)
    (h : exec d c n s a = some s') : Step d c s s' ∧ Bounded n s' := by
  simp only [exec] at h
  split at h
  · rename_i hg
    refine ⟨⟨a, free_of_freeB hb _ hg.2, h⟩, ?_⟩
    obtain ⟨x, hx, _⟩ := step1_th a h
    intro u hu
    rw [hx, upd_other _ _ _ _ (Nat.ne_of_gt (Nat.lt_of_lt_of_le hg.1 hu))]
    exact hb u hu
  · cases h

def execs (d : Disc) (c : Cfg) (n : Nat) (s : S) : List Act → Option S
  | [] => some s
  | a :: as => match exec d c n s a with
    | some s' => execs d c n s' as
    | none => none

theorem execs_reach {d : Disc} {c : Cfg} {n : Nat} {s s' : S} (hr : Reach d c s) (hb : Bounded n s) (as : List Act)
    (h : execs d c n s as = some s') : Reach d c s' ∧ Bounded n s' := by
  induction as generalizing s with
  | nil => simp only [execs, Option.some.injEq] at h; subst h; exact ⟨hr, hb⟩
  | cons a as ih =>
    simp only [execs] at h
    split at h
    · rename_i s1 h1
      have := exec_sound hb a h1
      exact ih (Reach.step _ _ hr this.1) this.2 h
    · cases h

theorem bounded_init (c : Cfg) (n : Nat) : Bounded n (S.init c) := fun _ _ => rfl

/-- a schedule that the executable model runs from the initial state ends in a reachable state -/
theorem reach_of_execs {d : Disc} {c : Cfg} {n : Nat} {as : List Act} {s : S}
    (h : execs d c n (S.init c) as = some s) : Reach d c s :=
  (execs_reach Reach.init (bounded_init c n) as h).1

end Vita.C15
