/-
  C15 — executable form of the transition system for `n` threads (what the driver runs), and its
  soundness: every executed action is a step of the relation the theorems are about.
-/
import Vita.C15.Model
namespace Vita.C15

inductive Act where
  | fAcquire (t : Tid) (k : Key) | fCheck (t : Tid) | fCopyWord (t : Tid) | fRelease (t : Tid) | fReturn (t : Tid)
  | wAcquire (t : Tid) (k : Key) (id : Nat) | wKey (t : Tid) | wWord (t : Tid) | wRelease (t : Tid)
  | cAcquire (t : Tid) | cInvalidate (t : Tid) | cRelease (t : Tid)
deriving Repr

def noWriter (n : Nat) (s : S) : Bool := (List.range n).all fun u => !(s.th u).isW
def noHolder (n : Nat) (s : S) : Bool := (List.range n).all fun u => !(s.th u).holds

/-- `ref = false`: find copies under the lock (StepV); `ref = true`: the reference variant (StepR) -/
def exec (ref : Bool) (n : Nat) (s : S) : Act → Option S
  | .fAcquire t k =>
    if t < n ∧ s.th t = .idle ∧ noWriter n s = true then some { s with th := upd s.th t (.fLocked k) } else none
  | .fCheck t =>
    match s.th t with
    | .fLocked k =>
      if s.key = some k then some { s with th := upd s.th t (if ref then .rCopy k [] else .fCopy k []) }
      else some { s with th := upd s.th t (.fMissed k) }
    | _ => none
  | .fCopyWord t =>
    match s.th t with
    | .fCopy k acc =>
      if ref then none else
      match s.words[acc.length]? with
      | some w => some { s with th := upd s.th t (.fCopy k (acc ++ [w])) }
      | none => none
    | .rCopy k acc =>
      if ref then
        match s.words[acc.length]? with
        | some w => some { s with th := upd s.th t (.rCopy k (acc ++ [w])) }
        | none => none
      else none
    | _ => none
  | .fRelease t =>
    match s.th t with
    | .fCopy k acc => if ¬ ref ∧ acc.length = s.L then some { s with th := upd s.th t (.fDone k (some acc)) } else none
    | .rCopy k acc => if ref ∧ acc.length = s.L then some { s with th := upd s.th t (.fDone k (some acc)) } else none
    | .fMissed k => some { s with th := upd s.th t (.fDone k none) }
    | _ => none
  | .fReturn t =>
    match s.th t with
    | .fDone _ _ => some { s with th := upd s.th t .idle }
    | _ => none
  | .wAcquire t k id =>
    if t < n ∧ s.th t = .idle ∧ noHolder n s = true then
      some { s with th := upd s.th t (.wLocked k id), stored := (k, id) :: s.stored } else none
  | .wKey t =>
    match s.th t with
    | .wLocked k id => some { s with th := upd s.th t (.wWrite k id 0), key := none }
    | _ => none
  | .wWord t =>
    match s.th t with
    | .wWrite k id i =>
      if i < s.L then some { s with th := upd s.th t (.wWrite k id (i + 1)), words := s.words.set i (k, id) } else none
    | _ => none
  | .wRelease t =>
    match s.th t with
    | .wWrite k _ i => if i = s.L then some { s with th := upd s.th t .idle, key := some k } else none
    | _ => none
  | .cAcquire t =>
    if t < n ∧ s.th t = .idle ∧ noHolder n s = true then some { s with th := upd s.th t .cLocked } else none
  | .cInvalidate t =>
    match s.th t with
    | .cLocked => some { s with th := upd s.th t .cCleared, key := none }
    | _ => none
  | .cRelease t =>
    match s.th t with
    | .cCleared => some { s with th := upd s.th t .idle }
    | _ => none

/-- threads `n, n+1, …` never run -/
def Bounded (n : Nat) (s : S) : Prop := ∀ u, n ≤ u → s.th u = .idle

theorem sharedFree_of {n : Nat} {s : S} (hb : Bounded n s) (h : noWriter n s = true) : s.sharedFree := by
  intro u
  by_cases hu : u < n
  · have := List.all_eq_true.mp h u (List.mem_range.mpr hu)
    simpa using this
  · rw [hb u (Nat.le_of_not_lt hu)]; rfl

theorem exclFree_of {n : Nat} {s : S} (hb : Bounded n s) (h : noHolder n s = true) : s.exclFree := by
  intro u
  by_cases hu : u < n
  · have := List.all_eq_true.mp h u (List.mem_range.mpr hu)
    simpa using this
  · rw [hb u (Nat.le_of_not_lt hu)]; rfl

/-- **exec_sound** — an action the by-value driver executes is a step of `StepV` -/
theorem exec_sound {n : Nat} {s s' : S} (hb : Bounded n s) (a : Act) (h : exec false n s a = some s') :
    StepV s s' := by
  cases a with
  | fAcquire t k =>
    simp only [exec] at h
    split at h
    · rename_i hg; cases h
      exact .common _ _ (.fAcquire _ t k hg.2.1 (sharedFree_of hb hg.2.2))
    · cases h
  | fCheck t =>
    simp only [exec] at h
    split at h
    · rename_i k hk
      split at h
      · rename_i hkey; cases h; exact .fHit _ t k hk hkey
      · rename_i hkey; cases h; exact .common _ _ (.fMiss _ t k hk hkey)
    · cases h
  | fCopyWord t =>
    simp only [exec] at h
    split at h
    · rename_i k acc hk
      simp only [Bool.false_eq_true, if_false] at h
      split at h
      · rename_i w hw; cases h; exact .fCopyWord _ t k acc w hk hw
      · cases h
    · simp at h
    · cases h
  | fRelease t =>
    simp only [exec] at h
    split at h
    · rename_i k acc hk
      split at h
      · rename_i hg; cases h; exact .fRelease _ t k acc hk hg.2
      · cases h
    · simp at h
    · rename_i k hk; cases h; exact .common _ _ (.fMissRelease _ t k hk)
    · cases h
  | fReturn t =>
    simp only [exec] at h
    split at h
    · rename_i k r hk; cases h; exact .common _ _ (.fReturn _ t k r hk)
    · cases h
  | wAcquire t k id =>
    simp only [exec] at h
    split at h
    · rename_i hg; cases h
      exact .common _ _ (.wAcquire _ t k id hg.2.1 (exclFree_of hb hg.2.2))
    · cases h
  | wKey t =>
    simp only [exec] at h
    split at h
    · rename_i k id hk; cases h; exact .common _ _ (.wKey _ t k id hk)
    · cases h
  | wWord t =>
    simp only [exec] at h
    split at h
    · rename_i k id i hk
      split at h
      · rename_i hi; cases h; exact .common _ _ (.wWord _ t k id i hk hi)
      · cases h
    · cases h
  | wRelease t =>
    simp only [exec] at h
    split at h
    · rename_i k id i hk
      split at h
      · rename_i hi; cases h; subst hi; exact .common _ _ (.wRelease _ t k id hk)
      · cases h
    · cases h
  | cAcquire t =>
    simp only [exec] at h
    split at h
    · rename_i hg; cases h
      exact .common _ _ (.cAcquire _ t hg.2.1 (exclFree_of hb hg.2.2))
    · cases h
  | cInvalidate t =>
    simp only [exec] at h
    split at h
    · rename_i hk; cases h; exact .common _ _ (.cInvalidate _ t hk)
    · cases h
  | cRelease t =>
    simp only [exec] at h
    split at h
    · rename_i hk; cases h; exact .common _ _ (.cRelease _ t hk)
    · cases h

theorem upd_ne (th : Tid → T) (t x u) (h : u ≠ t) : upd th t x u = th u := by simp [upd, h]

def Act.tid : Act → Tid
  | .fAcquire t _ | .fCheck t | .fCopyWord t | .fRelease t | .fReturn t | .wAcquire t _ _ | .wKey t | .wWord t
  | .wRelease t | .cAcquire t | .cInvalidate t | .cRelease t => t

/-- an action only changes the state of its own thread -/
theorem exec_th {ref : Bool} {n : Nat} {s s' : S} (a : Act) (h : exec ref n s a = some s') :
    ∃ x, s'.th = upd s.th a.tid x := by
  cases a <;> simp only [exec] at h <;> repeat' split at h
  all_goals first
    | (cases h; exact ⟨_, rfl⟩)
    | cases h

theorem exec_live {ref : Bool} {n : Nat} {s s' : S} (hb : Bounded n s) (a : Act) (h : exec ref n s a = some s') :
    a.tid < n := by
  rcases Nat.lt_or_ge a.tid n with hlt | hge
  · exact hlt
  · exfalso
    have hidle := hb _ hge
    cases a with
    | fAcquire t k =>
      simp only [exec] at h; split at h
      · rename_i hg; exact Nat.lt_irrefl _ (Nat.lt_of_lt_of_le hg.1 hge)
      · cases h
    | wAcquire t k id =>
      simp only [exec] at h; split at h
      · rename_i hg; exact Nat.lt_irrefl _ (Nat.lt_of_lt_of_le hg.1 hge)
      · cases h
    | cAcquire t =>
      simp only [exec] at h; split at h
      · rename_i hg; exact Nat.lt_irrefl _ (Nat.lt_of_lt_of_le hg.1 hge)
      · cases h
    | fCheck t => simp only [Act.tid] at hidle; simp [exec, hidle] at h
    | fCopyWord t => simp only [Act.tid] at hidle; simp [exec, hidle] at h
    | fRelease t => simp only [Act.tid] at hidle; simp [exec, hidle] at h
    | fReturn t => simp only [Act.tid] at hidle; simp [exec, hidle] at h
    | wKey t => simp only [Act.tid] at hidle; simp [exec, hidle] at h
    | wWord t => simp only [Act.tid] at hidle; simp [exec, hidle] at h
    | wRelease t => simp only [Act.tid] at hidle; simp [exec, hidle] at h
    | cInvalidate t => simp only [Act.tid] at hidle; simp [exec, hidle] at h
    | cRelease t => simp only [Act.tid] at hidle; simp [exec, hidle] at h

theorem exec_bounded {ref : Bool} {n : Nat} {s s' : S} (hb : Bounded n s) (a : Act)
    (h : exec ref n s a = some s') : Bounded n s' := by
  intro u hu
  obtain ⟨x, hx⟩ := exec_th a h
  have := exec_live hb a h
  have hne : u ≠ a.tid := Nat.ne_of_gt (Nat.lt_of_lt_of_le this hu)
  rw [hx, upd_ne _ _ _ _ hne]
  exact hb u hu

def execs (ref : Bool) (n : Nat) (s : S) : List Act → Option S
  | [] => some s
  | a :: as => match exec ref n s a with
    | some s' => execs ref n s' as
    | none => none

/-- whatever sequence of actions the by-value driver executes from the initial state, the state
    it is in is reachable in `StepV`: `lookup_returns_stored` speaks about the driver's answers -/
theorem execs_reach {n L : Nat} {s s' : S} (hr : Reach StepV (S.init L) s) (hb : Bounded n s) (as : List Act)
    (h : execs false n s as = some s') : Reach StepV (S.init L) s' ∧ Bounded n s' := by
  induction as generalizing s with
  | nil => simp only [execs, Option.some.injEq] at h; subst h; exact ⟨hr, hb⟩
  | cons a as ih =>
    simp only [execs] at h
    split at h
    · rename_i s1 h1
      exact ih (Reach.tail _ _ hr (exec_sound hb a h1)) (exec_bounded hb a h1) h
    · cases h

end Vita.C15
