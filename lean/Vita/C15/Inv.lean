/-
  C15 — every step of an `ok` discipline preserves `PInv` (one case per action).
-/
import Vita.C15.Lemmas
namespace Vita.C15

theorem pinv_init (d : Disc) (c : Cfg) : PInv d c (S.init c) := by
  constructor
  · exact excl_init d c
  · intro i; simp [S.init, Mem.init, Slot.fresh]
  · intro i k hk; simp [S.init, Mem.init, Slot.fresh] at hk
  · intro _; rfl
  · intro u; trivial

/-- nobody holds anything, so nobody writes: the table is the sequential cache -/
theorem mem_eq_abs_free {d : Disc} (hok : OkF d) {c : Cfg} {s : S} (hp : PInv d c s)
    (hf : ∀ u, lockOf d (s.th u) = .none) : s.mem = s.abs :=
  hp.quiet (fun u => by
    cases hw : (s.th u).writing with
    | false => rfl
    | true => have := writing_excl hok hw; rw [hf u] at this; cases this)

theorem take_all {α} (l : List α) (n : Nat) (h : l.length = n) : l.take n = l := by
  subst h; exact List.take_length

theorem step1_inv {d : Disc} (hd : d.ok = true) {c : Cfg} {s s' : S} (hp : PInv d c s) (a : Act)
    (hfree : Free d s.th (acq d a)) (h : step1 d c s a = some s') : PInv d c s' := by
  have hok := okF hd
  cases a with
  | fAcquire t k =>
    simp only [step1] at h
    split at h
    · rename_i hi; cases h
      exact pinv_local hp t _ s.lin (fun _ _ => rfl) (by rw [hi]; rfl) (Or.inr (Or.inr hfree)) trivial
    · cases h
  | fCheck t =>
    simp only [step1] at h
    split at h
    · rename_i k hk
      have hma := mem_eq_abs hok hp t (by rw [hk]; exact hok.find) (by rw [hk]; rfl)
      split at h
      · rename_i v hv
        cases h
        simp only [hok.ref, Bool.false_eq_true, if_false]
        exact pinv_local hp t _ _ (fun u hu => lastOf_cons_other (fun e => hu e.symm)) (by rw [hk]; rfl)
          (Or.inl (by rw [hk]; rfl)) ⟨v, by simp [lastOf, Ev.tid, ← hma, hv], hv, by simp, Nat.zero_le _⟩
      · rename_i hv
        cases h
        exact pinv_local hp t _ _ (fun u hu => lastOf_cons_other (fun e => hu e.symm)) (by rw [hk]; rfl)
          (Or.inl (by rw [hk]; rfl)) (by simp [TOK, lastOf, Ev.tid, ← hma, hv])
    · cases h
  | fCopyWord t =>
    simp only [step1] at h
    split at h
    · rename_i k acc hk
      split at h
      · rename_i w hw; cases h
        have ht := hp.thr t; rw [hk] at ht
        obtain ⟨v, h1, h2, h3, _⟩ := ht
        obtain ⟨_, _, hwords⟩ := find_some h2
        rw [hwords] at hw
        have hvl : v.length = c.L := by rw [← hwords]; exact hp.len _
        have hlt : acc.length < v.length := by
          rcases Nat.lt_or_ge acc.length v.length with h | h
          · exact h
          · rw [List.getElem?_eq_none h] at hw; cases hw
        refine pinv_local hp t _ s.lin (fun _ _ => rfl) (by rw [hk]; rfl) (Or.inl (by rw [hk]; rfl))
          ⟨v, h1, h2, ?_, ?_⟩
        · simp only [List.length_append, List.length_singleton]
          rw [List.take_add_one, ← h3, hw]; rfl
        · simp only [List.length_append, List.length_singleton]; omega
      · cases h
    · rename_i k acc hk
      have ht := hp.thr t; rw [hk] at ht; exact ht.elim
    · cases h
  | fRelease t =>
    simp only [step1] at h
    split at h
    · rename_i k acc hk
      split at h
      · rename_i hl; cases h
        have ht := hp.thr t; rw [hk] at ht
        obtain ⟨v, h1, h2, h3, _⟩ := ht
        obtain ⟨_, hkey, hwords⟩ := find_some h2
        have hvl : v.length = c.L := by rw [← hwords]; exact hp.len _
        have hacc : acc = v := by rw [h3, hl, take_all v c.L hvl]
        have hma := mem_eq_abs hok hp t (by rw [hk]; exact hok.find) (by rw [hk]; rfl)
        have hc : Complete c s.stored k v := by
          have := hp.absok (c.idx k) k (by rw [← hma]; exact hkey)
          rw [← hma, hwords] at this; exact this
        subst hacc
        exact pinv_local hp t _ s.lin (fun _ _ => rfl) (by rw [hk]; rfl) (Or.inr (Or.inl rfl))
          ⟨h1, fun v' hv' => by cases hv'; exact hc⟩
      · cases h
    · rename_i k acc hk
      have ht := hp.thr t; rw [hk] at ht; exact ht.elim
    · rename_i k hk
      cases h
      have ht := hp.thr t; rw [hk] at ht
      exact pinv_local hp t _ s.lin (fun _ _ => rfl) (by rw [hk]; rfl) (Or.inr (Or.inl rfl))
        ⟨ht, fun v' hv' => by cases hv'⟩
    · cases h
  | fReturn t =>
    simp only [step1] at h
    split at h
    · rename_i k r hk; cases h
      exact pinv_local hp t _ s.lin (fun _ _ => rfl) (by rw [hk]; rfl) (Or.inr (Or.inl rfl)) trivial
    · cases h
  | pMiss t =>
    simp only [step1] at h
    split at h
    · rename_i k hk; cases h
      exact pinv_local hp t _ s.lin (fun _ _ => rfl) (by rw [hk]; rfl) (Or.inr (Or.inl rfl)) trivial
    · cases h
  | pHit t =>
    simp only [step1] at h
    split at h
    · rename_i k v hk; cases h
      have ht := hp.thr t; rw [hk] at ht
      exact pinv_local hp t _ s.lin (fun _ _ => rfl) (by rw [hk]; rfl) (Or.inr (Or.inl rfl)) ⟨ht.2 v rfl, Or.inl ht.1⟩
    · cases h
  | pReturn t =>
    simp only [step1] at h
    split at h
    · rename_i k v hk; cases h
      exact pinv_local hp t _ s.lin (fun _ _ => rfl) (by rw [hk]; rfl) (Or.inr (Or.inl rfl)) trivial
    · cases h
  | wAcquire t k id =>
    simp only [step1] at h
    split at h
    · cases h
      have hf : ∀ u, lockOf d (s.th u) = .none := by
        have := hfree; simp only [acq, hok.insert] at this; exact this
      have hma := mem_eq_abs_free hok hp hf
      exact pinv_excl hok hp t _ s.mem _ (.insert t k id :: s.lin) ((k, id) :: s.stored) (fun u _ => hf u)
        (fun u hu => lastOf_cons_other (fun e => hu e.symm)) (fun a ha => List.mem_cons_of_mem _ ha) hp.len
        (AbsOK_insert (AbsOK_mono (fun a ha => List.mem_cons_of_mem _ ha) hp.absok) k id List.mem_cons_self)
        (fun hw => by simp [T.writing] at hw) ⟨lastOf_cons_self, List.mem_cons_self, by rw [hma]⟩
    · cases h
  | wKey t =>
    simp only [step1] at h
    split at h
    · rename_i k id p hk; cases h
      have ht := hp.thr t; rw [hk] at ht
      exact pinv_excl hok hp t _ _ s.abs s.lin s.stored (others_none hp t (by rw [hk]; exact hok.insert))
        (fun _ _ => rfl) (fun _ ha => ha) (LenOK_modSlot hp.len _ _ (hp.len _)) hp.absok
        (fun hw => by simp [T.writing] at hw)
        ⟨ht.1, ht.2.1, Nat.zero_le _, by rw [insert_modSlot]; exact ht.2.2, by rw [modSlot_same], by simp⟩
    · cases h
  | wWord t =>
    simp only [step1] at h
    split at h
    · rename_i k id p i hk
      split at h
      · rename_i hi; cases h
        have ht := hp.thr t; rw [hk] at ht
        obtain ⟨h0, h1, _, h3, h4, h5⟩ := ht
        have hl := hp.len (c.idx k)
        refine pinv_excl hok hp t _ _ s.abs s.lin s.stored (others_none hp t (by rw [hk]; exact hok.insert))
          (fun _ _ => rfl) (fun _ ha => ha) (LenOK_modSlot hp.len _ _ (by simp [hl])) hp.absok
          (fun hw => by simp [T.writing] at hw)
          ⟨h0, h1, hi, by rw [insert_modSlot]; exact h3, by rw [modSlot_same]; exact h4, ?_⟩
        rw [modSlot_same]
        simp only
        rw [List.take_add_one, List.take_set_of_le (Nat.le_refl i), h5, List.replicate_succ']
        congr 1
        simp [hl, hi]
      · cases h
    · cases h
  | wSeal t =>
    simp only [step1] at h
    split at h
    · rename_i k id p i hk
      split at h
      · rename_i hi; cases h
        have ht := hp.thr t; rw [hk] at ht
        obtain ⟨h0, h1, _, h3, h4, h5⟩ := ht
        have hl := hp.len (c.idx k)
        have hwords : (s.mem.tab (c.idx k)).words = val c k id := by
          subst hi; rw [← take_all _ c.L hl, h5]; rfl
        have heq : s.mem.modSlot (c.idx k) (fun x => { x with sl := s.mem.ep }) = s.abs := by
          rw [h3]
          apply Mem.ext'
          · rfl
          · intro j
            by_cases e : j = c.idx k
            · subst e
              rw [modSlot_same]
              simp only [Mem.insert, setSlot, if_true, ← h4, ← hwords]
            · rw [modSlot_other _ _ _ _ e]
              simp [Mem.insert, setSlot, e]
        exact pinv_excl hok hp t _ _ s.abs s.lin s.stored (others_none hp t (by rw [hk]; exact hok.insert))
          (fun _ _ => rfl) (fun _ ha => ha) (LenOK_modSlot hp.len _ _ hl) hp.absok
          (fun _ => heq) ⟨h0, h1, heq⟩
      · cases h
    · cases h
  | wRelease t =>
    simp only [step1] at h
    split at h
    · rename_i k id p hk; cases h
      have ht := hp.thr t; rw [hk] at ht
      refine pinv_excl hok hp t _ s.mem s.abs s.lin s.stored (others_none hp t (by rw [hk]; exact hok.insert))
        (fun _ _ => rfl) (fun _ ha => ha) hp.len hp.absok (fun _ => ht.2.2) ?_
      cases p
      · trivial
      · exact ⟨⟨id, ht.2.1, rfl⟩, Or.inr ⟨id, ht.1, rfl⟩⟩
    · cases h
  | cAcquire t =>
    simp only [step1] at h
    split at h
    · cases h
      have hf : ∀ u, lockOf d (s.th u) = .none := by
        have := hfree; simp only [acq, hok.clear] at this; exact this
      have hma := mem_eq_abs_free hok hp hf
      exact pinv_excl hok hp t _ s.mem _ (.clear t :: s.lin) s.stored (fun u _ => hf u)
        (fun u hu => lastOf_cons_other (fun e => hu e.symm)) (fun _ ha => ha) hp.len
        (AbsOK_clear hp.absok) (fun hw => by simp [T.writing] at hw) (by simp only [TOK]; rw [hma])
    · cases h
  | cBump t =>
    simp only [step1] at h
    split at h
    · rename_i hk; cases h
      have ht := hp.thr t; rw [hk] at ht
      exact pinv_excl hok hp t _ _ s.abs s.lin s.stored (others_none hp t (by rw [hk]; exact hok.clear))
        (fun _ _ => rfl) (fun _ ha => ha) (LenOK_clear hp.len) hp.absok (fun _ => ht.symm) ht.symm
    · cases h
  | cRelease t =>
    simp only [step1] at h
    split at h
    · rename_i hk; cases h
      have ht := hp.thr t; rw [hk] at ht
      exact pinv_excl hok hp t _ s.mem s.abs s.lin s.stored (others_none hp t (by rw [hk]; exact hok.clear))
        (fun _ _ => rfl) (fun _ ha => ha) hp.len hp.absok (fun _ => ht) trivial
    · cases h
  | kAcquire t k =>
    simp only [step1] at h
    split at h
    · cases h
      have hf : ∀ u, lockOf d (s.th u) = .none := by
        have := hfree; simp only [acq, hok.clearKey] at this; exact this
      have hma := mem_eq_abs_free hok hp hf
      exact pinv_excl hok hp t _ s.mem _ (.clearKey t k :: s.lin) s.stored (fun u _ => hf u)
        (fun u hu => lastOf_cons_other (fun e => hu e.symm)) (fun _ ha => ha) hp.len
        (AbsOK_modSlot hp.absok _ _ (fun k' hk' => by simp at hk'))
        (fun hw => by simp [T.writing] at hw) (by simp only [TOK]; rw [hma])
    · cases h
  | kInv t =>
    simp only [step1] at h
    split at h
    · rename_i k hk; cases h
      have ht := hp.thr t; rw [hk] at ht
      exact pinv_excl hok hp t _ _ s.abs s.lin s.stored (others_none hp t (by rw [hk]; exact hok.clearKey))
        (fun _ _ => rfl) (fun _ ha => ha) (LenOK_modSlot hp.len _ _ (hp.len _)) hp.absok
        (fun _ => ht.symm) ht.symm
    · cases h
  | kRelease t =>
    simp only [step1] at h
    split at h
    · rename_i hk; cases h
      have ht := hp.thr t; rw [hk] at ht
      exact pinv_excl hok hp t _ s.mem s.abs s.lin s.stored (others_none hp t (by rw [hk]; exact hok.clearKey))
        (fun _ _ => rfl) (fun _ ha => ha) hp.len hp.absok (fun _ => ht) trivial
    · cases h
  | sAcquire t =>
    simp only [step1] at h
    split at h
    · rename_i hi; cases h
      exact pinv_local hp t _ s.lin (fun _ _ => rfl) (by rw [hi]; rfl) (Or.inr (Or.inr hfree)) trivial
    · cases h
  | sStart t =>
    simp only [step1] at h
    split at h
    · rename_i hk; cases h
      have hma := mem_eq_abs hok hp t (by rw [hk]; exact hok.save) (by rw [hk]; rfl)
      exact pinv_local hp t _ _ (fun u hu => lastOf_cons_other (fun e => hu e.symm)) (by rw [hk]; rfl)
        (Or.inl (by rw [hk]; rfl)) ⟨_, lastOf_cons_self, by rw [hma]; rfl, fun e he => by cases he⟩
    · cases h
  | sSlot t =>
    simp only [step1] at h
    split at h
    · rename_i i rest out hk; cases h
      have ht := hp.thr t; rw [hk] at ht
      obtain ⟨full, h1, h2, h3⟩ := ht
      have hma := mem_eq_abs hok hp t (by rw [hk]; exact hok.save) (by rw [hk]; rfl)
      refine pinv_local hp t _ s.lin (fun _ _ => rfl) (by rw [hk]; rfl) (Or.inl (by rw [hk]; rfl))
        ⟨full, h1, by rw [h2]; simp [Mem.saveOf], ?_⟩
      intro e he
      rcases List.mem_append.mp he with he | he
      · exact h3 e he
      · simp only [saveSlot] at he
        split at he
        · cases hkey : (s.mem.tab i).key with
          | none => rw [hkey] at he; simp at he
          | some k =>
            rw [hkey] at he
            simp only [Option.map_some, Option.toList_some, List.mem_singleton] at he
            subst he
            have := hp.absok i k (by rw [← hma]; exact hkey)
            rw [← hma] at this; exact this
        · simp at he
    · cases h
  | sEnd t =>
    simp only [step1] at h
    split at h
    · rename_i out hk; cases h
      have ht := hp.thr t; rw [hk] at ht
      obtain ⟨full, h1, h2, h3⟩ := ht
      have : full = out := by rw [h2]; simp [Mem.saveOf]
      subst this
      exact pinv_local hp t _ s.lin (fun _ _ => rfl) (by rw [hk]; rfl) (Or.inr (Or.inl rfl)) ⟨h1, h3⟩
    · cases h
  | sReturn t =>
    simp only [step1] at h
    split at h
    · rename_i out hk; cases h
      exact pinv_local hp t _ s.lin (fun _ _ => rfl) (by rw [hk]; rfl) (Or.inr (Or.inl rfl)) trivial
    · cases h
  | lAcquire t sl es ok =>
    simp only [step1] at h
    split at h
    · cases h
      have hf : ∀ u, lockOf d (s.th u) = .none := by
        have := hfree; simp only [acq, hok.load] at this; exact this
      have hma := mem_eq_abs_free hok hp hf
      have hsub : ∀ a, a ∈ s.stored → a ∈ es ++ s.stored := fun a ha => List.mem_append_right _ ha
      exact pinv_excl hok hp t _ s.mem _ (.load t sl es ok :: s.lin) (es ++ s.stored) (fun u _ => hf u)
        (fun u hu => lastOf_cons_other (fun e => hu e.symm)) hsub hp.len
        (loadTab_ok sl es _ (fun e he => List.mem_append_left _ he) (AbsOK_mono hsub hp.absok))
        (fun hw => by simp [T.writing] at hw) (by simp only [TOK]; rw [hma])
    · cases h
  | lEntry t =>
    simp only [step1] at h
    split at h
    · rename_i sl k id rest ok hk; cases h
      have ht := hp.thr t; rw [hk] at ht
      exact pinv_excl hok hp t _ _ s.abs s.lin s.stored (others_none hp t (by rw [hk]; exact hok.load))
        (fun _ _ => rfl) (fun _ ha => ha) (LenOK_modSlot hp.len _ _ (val_length c k id)) hp.absok
        (fun hw => by simp [T.writing] at hw) (by simp only [TOK]; rw [load_modSlot]; exact ht)
    · cases h
  | lSeal t =>
    simp only [step1] at h
    split at h
    · rename_i sl ok hk; cases h
      have ht := hp.thr t; rw [hk] at ht
      have heq : ({ s.mem with ep := if ok = true then sl else s.mem.ep } : Mem) = s.abs := by rw [ht]; rfl
      exact pinv_excl hok hp t _ _ s.abs s.lin s.stored (others_none hp t (by rw [hk]; exact hok.load))
        (fun _ _ => rfl) (fun _ ha => ha) (fun i => hp.len i) hp.absok (fun _ => heq) heq
    · cases h
  | lRelease t =>
    simp only [step1] at h
    split at h
    · rename_i hk; cases h
      have ht := hp.thr t; rw [hk] at ht
      exact pinv_excl hok hp t _ s.mem s.abs s.lin s.stored (others_none hp t (by rw [hk]; exact hok.load))
        (fun _ _ => rfl) (fun _ ha => ha) hp.len hp.absok (fun _ => ht) trivial
    · cases h

end Vita.C15
