/-
  C15 — the protocol invariant `PInv` and its preservation by every step, for every lock discipline
  that is `ok` (writes under the exclusive lock, reads under at least the shared lock, no reference
  handed out).  Mutual exclusion (`Excl`) and the legality of the linearized history (`replay`) hold
  for EVERY discipline: they only depend on the lock's specification / on the ghost bookkeeping.
-/
import Vita.C15.Model
namespace Vita.C15

theorem upd_same (th : Tid → T) (t x) : upd th t x t = x := by simp [upd]
theorem upd_other (th : Tid → T) (t x u) (h : u ≠ t) : upd th t x u = th u := by simp [upd, h]

/-! ### mutual exclusion (any discipline) -/

/-- a thread that holds the lock exclusively is the only holder -/
def Excl (d : Disc) (th : Tid → T) : Prop := ∀ a b, a ≠ b → lockOf d (th a) = .excl → lockOf d (th b) = .none

/-- a thread keeps its lock, gives it back, or takes one the specification lets it have -/
theorem excl_upd {d : Disc} {th : Tid → T} (h : Excl d th) (t : Tid) (x : T)
    (hl : lockOf d x = lockOf d (th t) ∨ lockOf d x = .none ∨ Free d th (lockOf d x)) : Excl d (upd th t x) := by
  intro a b hab ha
  by_cases ea : a = t
  · subst ea
    rw [upd_same] at ha
    rw [upd_other _ _ _ _ (Ne.symm hab)]
    rcases hl with hl | hl | hl
    · exact h a b hab (by rw [← hl]; exact ha)
    · rw [hl] at ha; cases ha
    · rw [ha] at hl; exact hl b
  · rw [upd_other _ _ _ _ ea] at ha
    by_cases eb : b = t
    · subst eb
      rw [upd_same]
      rcases hl with hl | hl | hl
      · rw [hl]; exact h a b hab ha
      · exact hl
      · cases hx : lockOf d x with
        | none => rfl
        | shared => rw [hx] at hl; exact absurd ha (hl a)
        | excl => rw [hx] at hl; have := hl a; rw [ha] at this; cases this
    · rw [upd_other _ _ _ _ eb]; exact h a b hab ha

theorem excl_init (d : Disc) (c : Cfg) : Excl d (S.init c).th := by
  intro a b _ ha; simp [S.init, lockOf] at ha

/-- every action changes the state of its own thread only, and in a lock-respecting way -/
theorem step1_th {d : Disc} {c : Cfg} {s s' : S} (a : Act) (h : step1 d c s a = some s') :
    ∃ x, s'.th = upd s.th a.tid x ∧
      (lockOf d x = lockOf d (s.th a.tid) ∨ lockOf d x = .none ∨ (lockOf d x = acq d a)) := by
  cases a <;> simp only [step1] at h <;> (repeat' split at h) <;> (try cases h)
  all_goals simp only [Act.tid]
  all_goals first
    | exact ⟨_, rfl, Or.inr (Or.inr rfl)⟩
    | (refine ⟨_, rfl, Or.inl ?_⟩; simp_all [lockOf]; done)
    | (refine ⟨_, rfl, Or.inr (Or.inl ?_)⟩; simp_all [lockOf]; done)
    | (refine ⟨_, rfl, Or.inr (Or.inl ?_)⟩; split <;> rfl)

theorem step_excl {d : Disc} {c : Cfg} {s s' : S} (h : Excl d s.th) (st : Step d c s s') : Excl d s'.th := by
  obtain ⟨a, hf, h1⟩ := st
  obtain ⟨x, hx, hl⟩ := step1_th a h1
  rw [hx]
  refine excl_upd h _ _ ?_
  rcases hl with hl | hl | hl
  · exact Or.inl hl
  · exact Or.inr (Or.inl hl)
  · exact Or.inr (Or.inr (by rw [hl]; exact hf))

/-! ### the linearized history is a legal history of the sequential cache (any discipline) -/

theorem step1_hist {d : Disc} {c : Cfg} {s s' : S} (a : Act) (hh : replay c s.lin = some s.abs)
    (h : step1 d c s a = some s') : replay c s'.lin = some s'.abs := by
  cases a <;> simp only [step1] at h <;> (repeat' split at h) <;> (try cases h)
  all_goals first
    | exact hh
    | simp [replay, hh, Mem.legal, Mem.apply]

/-! ### the invariant -/

/-- `v` is one complete value that was stored under `k` -/
def Complete (c : Cfg) (stored : List Tok) (k : Key) (v : List Tok) : Prop := ∃ id, (k, id) ∈ stored ∧ v = val c k id

def SlotOK (c : Cfg) (stored : List Tok) (x : Slot) : Prop := ∀ k, x.key = some k → Complete c stored k x.words
def AbsOK (c : Cfg) (stored : List Tok) (m : Mem) : Prop := ∀ i, SlotOK c stored (m.tab i)
def LenOK (c : Cfg) (m : Mem) : Prop := ∀ i, (m.tab i).words.length = c.L

/-- what must hold of thread `u` in state `x`; `last` is its most recent linearized operation -/
def TOK (c : Cfg) (mem abs : Mem) (last : Option Ev) (stored : List Tok) (u : Tid) : T → Prop
  | .idle | .fLocked _ | .pEval _ | .sLocked => True
  | .fCopy k acc => ∃ v, last = some (.find u k (some v)) ∧ mem.find c k = some v ∧ acc = v.take acc.length ∧ acc.length ≤ c.L
  | .fMissed k => last = some (.find u k none)
  | .fDone k r => last = some (.find u k r) ∧ ∀ v, r = some v → Complete c stored k v
  | .rCopy .. => False
  | .pDone k v => Complete c stored k v ∧
      (last = some (.find u k (some v)) ∨ ∃ id, last = some (.insert u k id) ∧ v = val c k id)
  | .wLocked k id _ => last = some (.insert u k id) ∧ (k, id) ∈ stored ∧ abs = mem.insert c k (val c k id)
  | .wWrite k id _ i => last = some (.insert u k id) ∧ (k, id) ∈ stored ∧ i ≤ c.L ∧ abs = mem.insert c k (val c k id) ∧
      (mem.tab (c.idx k)).key = some k ∧ (mem.tab (c.idx k)).words.take i = List.replicate i (k, id)
  | .wFin k id _ => last = some (.insert u k id) ∧ (k, id) ∈ stored ∧ mem = abs
  | .cLocked => abs = mem.clear c
  | .cDone | .kDone | .lFin => mem = abs
  | .kLocked k => abs = mem.clearKey c k
  | .sRun rest out => ∃ full, last = some (.save u full) ∧ full = out ++ mem.saveOf rest ∧
      ∀ e, e ∈ out → Complete c stored e.1 e.2
  | .sDone out => last = some (.save u out) ∧ ∀ e, e ∈ out → Complete c stored e.1 e.2
  | .lRun sl es ok => abs = mem.load c sl es ok

structure PInv (d : Disc) (c : Cfg) (s : S) : Prop where
  excl : Excl d s.th
  len : LenOK c s.mem
  absok : AbsOK c s.stored s.abs
  /-- when no thread is inside a writing operation the table IS the sequential cache -/
  quiet : (∀ u, (s.th u).writing = false) → s.mem = s.abs
  thr : ∀ u, TOK c s.mem s.abs (lastOf u s.lin) s.stored u (s.th u)

structure OkF (d : Disc) : Prop where
  find : d.find ≠ .none
  ref : d.findRef = false
  insert : d.insert = .excl
  clear : d.clear = .excl
  clearKey : d.clearKey = .excl
  save : d.save ≠ .none
  load : d.load = .excl

theorem okF {d : Disc} (h : d.ok = true) : OkF d := by
  simp only [Disc.ok, Bool.and_eq_true, Bool.not_eq_true', beq_iff_eq] at h
  obtain ⟨⟨⟨⟨⟨⟨h1, h2⟩, h3⟩, h4⟩, h5⟩, h6⟩, h7⟩ := h
  refine ⟨?_, h2, h3, h4, h5, ?_, h7⟩
  · intro e; rw [e] at h1; cases h1
  · intro e; rw [e] at h6; cases h6

theorem writing_excl {d : Disc} (hok : OkF d) {x : T} (h : x.writing = true) : lockOf d x = .excl := by
  cases x <;> simp_all [T.writing, lockOf, hok.insert, hok.clear, hok.clearKey, hok.load]

theorem Complete_mono {c : Cfg} {stored stored' : List Tok} {k v} (hsub : ∀ a, a ∈ stored → a ∈ stored')
    (h : Complete c stored k v) : Complete c stored' k v := by
  obtain ⟨id, h1, h2⟩ := h; exact ⟨id, hsub _ h1, h2⟩

theorem AbsOK_mono {c : Cfg} {stored stored' : List Tok} {m} (hsub : ∀ a, a ∈ stored → a ∈ stored')
    (h : AbsOK c stored m) : AbsOK c stored' m := fun i k hk => Complete_mono hsub (h i k hk)

/-- growing the set of stores keeps every thread fact -/
theorem TOK_mono {c mem abs last stored stored' u} {x : T} (hsub : ∀ a, a ∈ stored → a ∈ stored')
    (h : TOK c mem abs last stored u x) : TOK c mem abs last stored' u x := by
  cases x <;> simp only [TOK] at h ⊢
  case fCopy => exact h
  case fMissed => exact h
  case fDone => exact ⟨h.1, fun v hv => Complete_mono hsub (h.2 v hv)⟩
  case pDone => exact ⟨Complete_mono hsub h.1, h.2⟩
  case wLocked => exact ⟨h.1, hsub _ h.2.1, h.2.2⟩
  case wWrite => exact ⟨h.1, hsub _ h.2.1, h.2.2⟩
  case wFin => exact ⟨h.1, hsub _ h.2.1, h.2.2⟩
  case cLocked => exact h
  case cDone => exact h
  case kDone => exact h
  case lFin => exact h
  case kLocked => exact h
  case sRun =>
    obtain ⟨full, h1, h2, h3⟩ := h
    exact ⟨full, h1, h2, fun e he => Complete_mono hsub (h3 e he)⟩
  case sDone => exact ⟨h.1, fun e he => Complete_mono hsub (h.2 e he)⟩
  case lRun => exact h

/-- a thread that holds no lock only depends on its own last linearized operation and on the set of
    stores: whatever happens to the table leaves its fact alone -/
theorem TOK_nolock {d : Disc} (hok : OkF d) {c mem abs mem' abs' last stored stored' u} {x : T}
    (hx : lockOf d x = .none) (hsub : ∀ a, a ∈ stored → a ∈ stored')
    (h : TOK c mem abs last stored u x) : TOK c mem' abs' last stored' u x := by
  have hf := hok.find; have hs := hok.save
  cases x <;> simp only [lockOf, hok.insert, hok.clear, hok.clearKey, hok.load] at hx <;>
    (try cases hx) <;> (try exact absurd hx hf) <;> (try exact absurd hx hs)
  all_goals first
    | trivial
    | exact TOK_mono hsub h

theorem lastOf_cons_other {u : Tid} {e : Ev} {l : List Ev} (h : e.tid ≠ u) : lastOf u (e :: l) = lastOf u l := by
  simp [lastOf, h]

theorem lastOf_cons_self {e : Ev} {l : List Ev} : lastOf e.tid (e :: l) = some e := by
  simp [lastOf]

/-- a step of a thread that does not write: the table and the ghost cache are untouched -/
theorem pinv_local {d : Disc} {c : Cfg} {s : S} (h : PInv d c s) (t : Tid) (x : T) (lin' : List Ev)
    (hlin : ∀ u, u ≠ t → lastOf u lin' = lastOf u s.lin)
    (htw : (s.th t).writing = false)
    (hlock : lockOf d x = lockOf d (s.th t) ∨ lockOf d x = .none ∨ Free d s.th (lockOf d x))
    (hx : TOK c s.mem s.abs (lastOf t lin') s.stored t x) :
    PInv d c { s with th := upd s.th t x, lin := lin' } := by
  constructor
  · exact excl_upd h.excl t x hlock
  · exact h.len
  · exact h.absok
  · intro hq
    apply h.quiet
    intro u
    by_cases e : u = t
    · subst e; exact htw
    · have := hq u; dsimp only at this; rw [upd_other _ _ _ _ e] at this; exact this
  · intro u
    dsimp only
    by_cases e : u = t
    · subst e; rw [upd_same]; exact hx
    · rw [upd_other _ _ _ _ e, hlin u e]; exact h.thr u

/-- a step of the thread that holds (or takes, or gives back) the lock exclusively: nobody else holds
    anything, so the table and the ghost cache may change -/
theorem pinv_excl {d : Disc} (hok : OkF d) {c : Cfg} {s : S} (h : PInv d c s) (t : Tid) (x : T)
    (mem' abs' : Mem) (lin' : List Ev) (stored' : List Tok)
    (hoth : ∀ u, u ≠ t → lockOf d (s.th u) = .none)
    (hlin : ∀ u, u ≠ t → lastOf u lin' = lastOf u s.lin)
    (hsub : ∀ a, a ∈ s.stored → a ∈ stored')
    (hlen : LenOK c mem') (habs : AbsOK c stored' abs')
    (hq : x.writing = false → mem' = abs')
    (hx : TOK c mem' abs' (lastOf t lin') stored' t x) :
    PInv d c ⟨mem', abs', lin', upd s.th t x, stored'⟩ := by
  constructor
  · intro a b hab ha
    dsimp only at ha ⊢
    by_cases eb : b = t
    · subst eb
      rw [upd_other _ _ _ _ hab] at ha
      rw [hoth a hab] at ha; cases ha
    · rw [upd_other _ _ _ _ eb]; exact hoth b eb
  · exact hlen
  · exact habs
  · intro hq'
    have := hq' t; dsimp only at this; rw [upd_same] at this
    exact hq this
  · intro u
    dsimp only
    by_cases e : u = t
    · subst e; rw [upd_same]; exact hx
    · rw [upd_other _ _ _ _ e, hlin u e]; exact TOK_nolock hok (hoth u e) hsub (h.thr u)

/-- everybody but the holder of the exclusive lock holds nothing -/
theorem others_none {d : Disc} {c : Cfg} {s : S} (h : PInv d c s) (t : Tid) (ht : lockOf d (s.th t) = .excl) :
    ∀ u, u ≠ t → lockOf d (s.th u) = .none := fun u e => h.excl t u (Ne.symm e) ht

/-- while a thread holds the lock (in any mode) and does not write itself, nobody writes: the table
    is the sequential cache -/
theorem mem_eq_abs {d : Disc} (hok : OkF d) {c : Cfg} {s : S} (h : PInv d c s) (t : Tid)
    (ht : lockOf d (s.th t) ≠ .none) (htw : (s.th t).writing = false) : s.mem = s.abs := by
  apply h.quiet
  intro u
  by_cases e : u = t
  · subst e; exact htw
  · cases hw : (s.th u).writing with
    | false => rfl
    | true => exact absurd (h.excl u t e (writing_excl hok hw)) ht

/-! ### facts about the table operations -/

theorem Mem.ext' {a b : Mem} (h1 : a.ep = b.ep) (h2 : ∀ i, a.tab i = b.tab i) : a = b := by
  cases a; cases b; simp only at h1 h2; subst h1; congr; exact funext h2

theorem find_some {c : Cfg} {m : Mem} {k : Key} {v : List Tok} (h : m.find c k = some v) :
    m.ep = (m.tab (c.idx k)).sl ∧ (m.tab (c.idx k)).key = some k ∧ (m.tab (c.idx k)).words = v := by
  simp only [Mem.find] at h
  split at h
  · rename_i hc; cases h; exact ⟨hc.1, hc.2, rfl⟩
  · cases h

theorem modSlot_ep (m : Mem) (i : Nat) (f : Slot → Slot) : (m.modSlot i f).ep = m.ep := rfl
theorem modSlot_same (m : Mem) (i : Nat) (f : Slot → Slot) : (m.modSlot i f).tab i = f (m.tab i) := by
  simp [Mem.modSlot, setSlot]
theorem modSlot_other (m : Mem) (i j : Nat) (f : Slot → Slot) (h : j ≠ i) : (m.modSlot i f).tab j = m.tab j := by
  simp [Mem.modSlot, setSlot, h]

/-- an insert overwrites the whole slot: what was in it before does not matter -/
theorem insert_modSlot (c : Cfg) (m : Mem) (k : Key) (v : List Tok) (f : Slot → Slot) :
    (m.modSlot (c.idx k) f).insert c k v = m.insert c k v := by
  apply Mem.ext'
  · rfl
  · intro i
    simp only [Mem.insert, Mem.modSlot, setSlot]
    split <;> rfl

theorem LenOK_modSlot {c : Cfg} {m : Mem} (h : LenOK c m) (i : Nat) (f : Slot → Slot)
    (hf : (f (m.tab i)).words.length = c.L) : LenOK c (m.modSlot i f) := by
  intro j
  by_cases e : j = i
  · subst e; rw [modSlot_same]; exact hf
  · rw [modSlot_other _ _ _ _ e]; exact h j

theorem val_length (c : Cfg) (k id) : (val c k id).length = c.L := by simp [val]

theorem LenOK_fresh (c : Cfg) (ep : Nat) : LenOK c ⟨ep, fun _ => Slot.fresh c.L⟩ := by
  intro i; simp [Slot.fresh]

theorem LenOK_clear {c : Cfg} {m : Mem} (h : LenOK c m) : LenOK c (m.clear c) := by
  simp only [Mem.clear]
  split
  · exact LenOK_fresh c 1
  · exact h

theorem AbsOK_fresh (c : Cfg) (stored : List Tok) (ep : Nat) : AbsOK c stored ⟨ep, fun _ => Slot.fresh c.L⟩ := by
  intro i k hk; simp [Slot.fresh] at hk

theorem AbsOK_clear {c : Cfg} {stored : List Tok} {m : Mem} (h : AbsOK c stored m) : AbsOK c stored (m.clear c) := by
  simp only [Mem.clear]
  split
  · exact AbsOK_fresh c stored 1
  · exact h

theorem AbsOK_modSlot {c : Cfg} {stored : List Tok} {m : Mem} (h : AbsOK c stored m) (i : Nat) (f : Slot → Slot)
    (hf : SlotOK c stored (f (m.tab i))) : AbsOK c stored (m.modSlot i f) := by
  intro j
  by_cases e : j = i
  · subst e; rw [modSlot_same]; exact hf
  · rw [modSlot_other _ _ _ _ e]; exact h j

theorem AbsOK_insert {c : Cfg} {stored : List Tok} {m : Mem} (h : AbsOK c stored m) (k id : Nat)
    (hm : (k, id) ∈ stored) : AbsOK c stored (m.insert c k (val c k id)) := by
  intro j
  simp only [Mem.insert, setSlot]
  split
  · intro k' hk'; simp only [Option.some.injEq] at hk'; subst hk'; exact ⟨id, hm, rfl⟩
  · exact h j

theorem loadTab_ok {c : Cfg} {stored : List Tok} (sl : Nat) (es : List Tok) (t : Nat → Slot)
    (hes : ∀ e, e ∈ es → e ∈ stored) (ht : ∀ i, SlotOK c stored (t i)) : ∀ i, SlotOK c stored (loadTab c sl es t i) := by
  induction es generalizing t with
  | nil => exact ht
  | cons e es ih =>
    obtain ⟨k, id⟩ := e
    simp only [loadTab]
    apply ih
    · intro e he; exact hes e (List.mem_cons_of_mem _ he)
    · intro j
      simp only [setSlot]
      split
      · intro k' hk'; simp only [Option.some.injEq] at hk'; subst hk'
        exact ⟨id, hes _ (List.mem_cons_self), rfl⟩
      · exact ht j

theorem loadTab_len {c : Cfg} (sl : Nat) (es : List Tok) (t : Nat → Slot)
    (ht : ∀ i, (t i).words.length = c.L) : ∀ i, (loadTab c sl es t i).words.length = c.L := by
  induction es generalizing t with
  | nil => exact ht
  | cons e es ih =>
    obtain ⟨k, id⟩ := e
    simp only [loadTab]
    apply ih
    intro j
    simp only [setSlot]
    split
    · exact val_length c k id
    · exact ht j

/-- writing the first entry and loading the rest is loading everything -/
theorem load_modSlot (c : Cfg) (m : Mem) (sl : Nat) (k id : Nat) (rest : List Tok) (ok : Bool) :
    (m.modSlot (c.idx k) (fun _ => ⟨some k, sl, val c k id⟩)).load c sl rest ok = m.load c sl ((k, id) :: rest) ok := by
  apply Mem.ext'
  · rfl
  · intro i; rfl

end Vita.C15
