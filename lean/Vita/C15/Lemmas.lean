/-
  C15 — the protocol invariant and its preservation by every step of the by-value variant.
-/
import Vita.C15.Model
namespace Vita.C15

/-- what must hold of a thread in state `x` given the slot `(key, words)` and the stores so far -/
def TOK (L : Nat) (key : Option Key) (words : List Tok) (stored : List Tok) : T → Prop
  | .wLocked k id => (k, id) ∈ stored
  | .wWrite k id i => key = none ∧ i ≤ L ∧ words.take i = List.replicate i (k, id) ∧ (k, id) ∈ stored
  | .fCopy k acc => key = some k ∧ acc.length ≤ L ∧ acc = words.take acc.length
  | .fDone k (some v) => ∃ id, (k, id) ∈ stored ∧ v = List.replicate L (k, id)
  | _ => True

/-- the slot is empty or holds one whole stored value under its key -/
def SlotOK (L : Nat) (key : Option Key) (words : List Tok) (stored : List Tok) : Prop :=
  key = none ∨ ∃ k id, key = some k ∧ (k, id) ∈ stored ∧ words = List.replicate L (k, id)

structure PInv (s : S) : Prop where
  len : s.words.length = s.L
  /-- a writer excludes every other lock holder -/
  excl : ∀ t u, t ≠ u → (s.th t).isW = true → (s.th u).holds = false
  /-- with no insert in its data phase the slot is consistent -/
  slot : (∀ u, (s.th u).isWriting = false) → SlotOK s.L s.key s.words s.stored
  thr : ∀ u, TOK s.L s.key s.words s.stored (s.th u)

theorem upd_same (th t x) : upd th t x t = x := by simp [upd]
theorem upd_other (th t x u) (h : u ≠ t) : upd th t x u = th u := by simp [upd, h]

/-- a thread that holds no lock only depends on the set of stores, which grows -/
theorem TOK_frame {L key words stored key' words' stored'} {x : T} (hx : x.holds = false)
    (hsub : ∀ a, a ∈ stored → a ∈ stored') (h : TOK L key words stored x) : TOK L key' words' stored' x := by
  cases x with
  | fDone k r =>
    cases r with
    | none => trivial
    | some v => obtain ⟨id, h1, h2⟩ := h; exact ⟨id, hsub _ h1, h2⟩
  | idle => trivial
  | rCopy => trivial
  | fLocked => trivial
  | fMissed => trivial
  | cLocked => trivial
  | cCleared => trivial
  | fCopy => simp [T.holds, T.isW, T.isR] at hx
  | wLocked => simp [T.holds, T.isW, T.isR] at hx
  | wWrite => simp [T.holds, T.isW, T.isR] at hx

/-- growing the set of stores keeps every thread fact -/
theorem TOK_mono {L key words stored stored'} {x : T}
    (hsub : ∀ a, a ∈ stored → a ∈ stored') (h : TOK L key words stored x) : TOK L key words stored' x := by
  cases x with
  | fDone k r =>
    cases r with
    | none => trivial
    | some v => obtain ⟨id, h1, h2⟩ := h; exact ⟨id, hsub _ h1, h2⟩
  | wLocked k id => exact hsub _ h
  | wWrite k id i => exact ⟨h.1, h.2.1, h.2.2.1, hsub _ h.2.2.2⟩
  | fCopy => exact h
  | idle => trivial
  | rCopy => trivial
  | fLocked => trivial
  | fMissed => trivial
  | cLocked => trivial
  | cCleared => trivial

theorem SlotOK_mono {L key words stored stored'} (hsub : ∀ a, a ∈ stored → a ∈ stored')
    (h : SlotOK L key words stored) : SlotOK L key words stored' := by
  rcases h with h | ⟨k, id, h1, h2, h3⟩
  · exact Or.inl h
  · exact Or.inr ⟨k, id, h1, hsub _ h2, h3⟩

/-- a step of thread `t` that touches only `t`'s state, into a state `x` with the same lock status -/
theorem pinv_thread_only {s : S} (h : PInv s) (t : Tid) (x : T)
    (hW : x.isW = (s.th t).isW) (hH : x.holds = (s.th t).holds) (hWr : x.isWriting = (s.th t).isWriting)
    (hx : TOK s.L s.key s.words s.stored x) : PInv { s with th := upd s.th t x } := by
  constructor
  · exact h.len
  · intro a b hab ha
    dsimp only at ha ⊢
    by_cases e1 : a = t
    · subst e1
      rw [upd_same] at ha
      rw [upd_other _ _ _ _ (Ne.symm hab)]
      exact h.excl a b hab (by rw [← hW]; exact ha)
    · rw [upd_other _ _ _ _ e1] at ha
      by_cases e2 : b = t
      · subst e2; rw [upd_same, hH]; exact h.excl a b hab ha
      · rw [upd_other _ _ _ _ e2]; exact h.excl a b hab ha
  · intro hq
    dsimp only at hq ⊢
    apply h.slot
    intro u
    by_cases e : u = t
    · subst e; have := hq u; rw [upd_same] at this; rw [← hWr]; exact this
    · have := hq u; rw [upd_other _ _ _ _ e] at this; exact this
  · intro u
    dsimp only
    by_cases e : u = t
    · subst e; rw [upd_same]; exact hx
    · rw [upd_other _ _ _ _ e]; exact h.thr u

theorem isW_holds {x : T} (h : x.isW = true) : x.holds = true := by simp [T.holds, h]
theorem isWriting_isW {x : T} (h : x.isWriting = true) : x.isW = true := by
  cases x <;> simp_all [T.isWriting, T.isW]

/-- a step of a reader or of a thread that holds nothing: the slot is untouched -/
theorem pinv_reader_step {s : S} (h : PInv s) (t : Tid) (x : T)
    (hxW : x.isW = false) (htW : (s.th t).isW = false)
    (hnw : x.holds = true → ∀ a, a ≠ t → (s.th a).isW = false)
    (hx : TOK s.L s.key s.words s.stored x) : PInv { s with th := upd s.th t x } := by
  have hxWr : x.isWriting = false := by
    cases hw : x.isWriting with
    | false => rfl
    | true => rw [isWriting_isW hw] at hxW; cases hxW
  have htWr : (s.th t).isWriting = false := by
    cases hw : (s.th t).isWriting with
    | false => rfl
    | true => rw [isWriting_isW hw] at htW; cases htW
  constructor
  · exact h.len
  · intro a b hab ha
    dsimp only at ha ⊢
    by_cases e1 : a = t
    · subst e1; rw [upd_same, hxW] at ha; cases ha
    · rw [upd_other _ _ _ _ e1] at ha
      by_cases e2 : b = t
      · subst e2; rw [upd_same]
        cases hh : x.holds with
        | false => rfl
        | true => have := hnw hh a e1; rw [this] at ha; cases ha
      · rw [upd_other _ _ _ _ e2]; exact h.excl a b hab ha
  · intro hq
    dsimp only at hq ⊢
    apply h.slot
    intro u
    by_cases e : u = t
    · subst e; exact htWr
    · have := hq u; rw [upd_other _ _ _ _ e] at this; exact this
  · intro u
    dsimp only
    by_cases e : u = t
    · subst e; rw [upd_same]; exact hx
    · rw [upd_other _ _ _ _ e]; exact h.thr u

/-- a step of the thread that holds (or takes, or gives back) the exclusive lock: nobody else
    holds anything, so the slot may change -/
theorem pinv_writer_step {s : S} (h : PInv s) (t : Tid) (x : T) (key' : Option Key) (words' stored' : List Tok)
    (hothers : ∀ u, u ≠ t → (s.th u).holds = false)
    (hlen : words'.length = s.L) (hsub : ∀ a, a ∈ s.stored → a ∈ stored')
    (hslot : x.isWriting = false → SlotOK s.L key' words' stored')
    (hx : TOK s.L key' words' stored' x) :
    PInv { s with th := upd s.th t x, key := key', words := words', stored := stored' } := by
  constructor
  · exact hlen
  · intro a b hab ha
    dsimp only at ha ⊢
    by_cases e2 : b = t
    · subst e2
      have e1 : a ≠ b := hab
      rw [upd_other _ _ _ _ e1] at ha
      have := hothers a e1
      rw [isW_holds ha] at this; cases this
    · rw [upd_other _ _ _ _ e2]; exact hothers b e2
  · intro hq
    dsimp only at hq ⊢
    have := hq t; rw [upd_same] at this
    exact hslot this
  · intro u
    dsimp only
    by_cases e : u = t
    · subst e; rw [upd_same]; exact hx
    · rw [upd_other _ _ _ _ e]; exact TOK_frame (hothers u e) hsub (h.thr u)

/-- everybody but a writer `t` holds nothing -/
theorem others_of_writer {s : S} (h : PInv s) (t : Tid) (ht : (s.th t).isW = true) :
    ∀ u, u ≠ t → (s.th u).holds = false := fun u e => h.excl t u (Ne.symm e) ht

/-- while a reader `t` holds the shared lock nobody writes -/
theorem no_writer_of_reader {s : S} (h : PInv s) (t : Tid) (ht : (s.th t).holds = true) :
    ∀ a, a ≠ t → (s.th a).isW = false := by
  intro a e
  cases hw : (s.th a).isW with
  | false => rfl
  | true => have := h.excl a t e hw; rw [this] at ht; cases ht

theorem common_inv {s s' : S} (h : PInv s) (st : Common s s') : PInv s' := by
  cases st with
  | fAcquire t k hi hf =>
    exact pinv_reader_step h t _ rfl (by rw [hi]; rfl) (fun _ a _ => hf a) trivial
  | fMiss t k hl hk =>
    exact pinv_reader_step h t _ rfl (by rw [hl]; rfl)
      (fun _ => no_writer_of_reader h t (by rw [hl]; rfl)) trivial
  | fMissRelease t k hm =>
    exact pinv_reader_step h t _ rfl (by rw [hm]; rfl) (fun hh => by simp [T.holds, T.isW, T.isR] at hh) trivial
  | fReturn t k r hd =>
    exact pinv_reader_step h t _ rfl (by rw [hd]; rfl) (fun hh => by simp [T.holds, T.isW, T.isR] at hh) trivial
  | wAcquire t k id hi hf =>
    have := pinv_writer_step h t (.wLocked k id) s.key s.words ((k, id) :: s.stored)
      (fun u _ => hf u) h.len (fun a ha => List.mem_cons_of_mem _ ha)
      (fun _ => SlotOK_mono (fun a ha => List.mem_cons_of_mem _ ha) (h.slot (fun u => by
        cases hw : (s.th u).isWriting with
        | false => rfl
        | true => have := hf u; rw [isW_holds (isWriting_isW hw)] at this; cases this)))
      (by simp [TOK])
    exact this
  | wKey t k id hl =>
    have hw : (s.th t).isW = true := by rw [hl]; rfl
    have ht := h.thr t; rw [hl] at ht
    exact pinv_writer_step h t (.wWrite k id 0) none s.words s.stored (others_of_writer h t hw) h.len
      (fun _ ha => ha) (fun hh => by simp [T.isWriting] at hh) (by simpa [TOK] using ht)
  | wWord t k id i hwr hi =>
    have hw : (s.th t).isW = true := by rw [hwr]; rfl
    have ht := h.thr t; rw [hwr] at ht
    obtain ⟨h1, h2, h3, h4⟩ := ht
    refine pinv_writer_step h t (.wWrite k id (i + 1)) s.key (s.words.set i (k, id)) s.stored
      (others_of_writer h t hw) (by simp [h.len]) (fun _ ha => ha) (fun hh => by simp [T.isWriting] at hh) ?_
    refine ⟨h1, hi, ?_, h4⟩
    have hl := h.len
    rw [List.take_add_one, List.take_set_of_le (Nat.le_refl i), h3, List.replicate_succ']
    congr 1
    simp [hl, hi]
  | wRelease t k id hwr =>
    have hw : (s.th t).isW = true := by rw [hwr]; rfl
    have ht := h.thr t; rw [hwr] at ht
    obtain ⟨_, _, h3, h4⟩ := ht
    refine pinv_writer_step h t .idle (some k) s.words s.stored (others_of_writer h t hw) h.len
      (fun _ ha => ha) (fun _ => Or.inr ⟨k, id, rfl, h4, ?_⟩) trivial
    rw [← h3, List.take_of_length_le (by rw [h.len]; exact Nat.le_refl _)]
  | cAcquire t hi hf =>
    have := pinv_writer_step h t .cLocked s.key s.words s.stored (fun u _ => hf u) h.len (fun _ ha => ha)
      (fun _ => h.slot (fun u => by
        cases hw : (s.th u).isWriting with
        | false => rfl
        | true => have := hf u; rw [isW_holds (isWriting_isW hw)] at this; cases this))
      trivial
    exact this
  | cInvalidate t hc =>
    have hw : (s.th t).isW = true := by rw [hc]; rfl
    exact pinv_writer_step h t .cCleared none s.words s.stored (others_of_writer h t hw) h.len
      (fun _ ha => ha) (fun _ => Or.inl rfl) trivial
  | cRelease t hc =>
    have hw : (s.th t).isW = true := by rw [hc]; rfl
    have := pinv_writer_step h t .idle s.key s.words s.stored (others_of_writer h t hw) h.len
      (fun _ ha => ha) (fun _ => h.slot (fun u => by
        by_cases e : u = t
        · subst e; rw [hc]; rfl
        · cases hwr : (s.th u).isWriting with
          | false => rfl
          | true =>
            have := others_of_writer h t hw u e
            rw [isW_holds (isWriting_isW hwr)] at this; cases this)) trivial
    exact this

theorem stepV_inv {s s' : S} (h : PInv s) (st : StepV s s') : PInv s' := by
  cases st with
  | common _ c => exact common_inv h c
  | fHit t k hl hk =>
    exact pinv_reader_step h t _ rfl (by rw [hl]; rfl)
      (fun _ => no_writer_of_reader h t (by rw [hl]; rfl)) ⟨hk, Nat.zero_le _, by simp⟩
  | fCopyWord t k acc w hc hw =>
    have ht := h.thr t; rw [hc] at ht
    obtain ⟨h1, h2, h3⟩ := ht
    have hlt : acc.length < s.words.length := by
      rcases Nat.lt_or_ge acc.length s.words.length with h | h
      · exact h
      · rw [List.getElem?_eq_none h] at hw; cases hw
    refine pinv_reader_step h t _ rfl (by rw [hc]; rfl)
      (fun _ => no_writer_of_reader h t (by rw [hc]; rfl)) ⟨h1, ?_, ?_⟩
    · simp only [List.length_append, List.length_singleton]; rw [← h.len]; exact hlt
    · simp only [List.length_append, List.length_singleton]
      rw [List.take_add_one, ← h3, hw]; rfl
  | fRelease t k acc hc hl =>
    have ht := h.thr t; rw [hc] at ht
    obtain ⟨h1, _, h3⟩ := ht
    have hnw := no_writer_of_reader h t (by rw [hc]; rfl)
    have hslot := h.slot (fun u => by
      by_cases e : u = t
      · subst e; rw [hc]; rfl
      · cases hwr : (s.th u).isWriting with
        | false => rfl
        | true => have := hnw u e; rw [isWriting_isW hwr] at this; cases this)
    refine pinv_reader_step h t _ rfl (by rw [hc]; rfl) (fun hh => by simp [T.holds, T.isW, T.isR] at hh) ?_
    rcases hslot with hn | ⟨k', id, hk', hmem, hwords⟩
    · rw [hn] at h1; cases h1
    · rw [h1] at hk'; cases hk'
      refine ⟨id, hmem, ?_⟩
      rw [h3, hl, ← h.len, List.take_length, hwords]; simp

theorem pinv_init (L : Nat) : PInv (S.init L) := by
  constructor
  · simp [S.init]
  · intro a b _ ha; simp [S.init, T.isW] at ha
  · intro _; exact Or.inl rfl
  · intro u; trivial

theorem reach_inv {L : Nat} {s : S} (h : Reach StepV (S.init L) s) : PInv s := by
  induction h with
  | refl => exact pinv_init L
  | tail s s' _ st ih => exact stepV_inv ih st

end Vita.C15
