/-
  C15 — from what tools/translate_cache_locks.py extracts of cache.cc (which RAII lock object guards
  a member function, where its data-member accesses lie relative to the lock's lexical scope, whether
  a reference into the table escapes) to the lock discipline `Disc` the model is instantiated with.
-/
import Vita.C15.Model
namespace Vita.C15

/-- the operation of the model a public member function of vita::cache is (by name and arity) -/
inductive Fn where
  | find | insert | clear | clearKey | save | load | other
deriving DecidableEq, Repr

inductive LockClass where
  | sharedLock | uniqueLock | lockGuard | scopedLock
deriving DecidableEq, Repr

/-- what the lock object is constructed from -/
inductive Mx where
  | theMutex      -- exactly `this->mutex_`, the lock of the table
  | otherExpr     -- anything else (another mutex, a pool of mutexes, a helper's result)
deriving DecidableEq, Repr

/-- one access to a data member of the cache (other than the mutex) -/
structure Access where
  write : Bool      -- not provably a read
  inside : Bool     -- in the lexical scope of the lock object
  exempt : Bool     -- the member is const (immutable after construction) or std::atomic
deriving DecidableEq, Repr

structure FnInfo where
  fn : Fn
  guard : Option (LockClass × Mx)
  accesses : List Access
  escapes : Bool    -- returns a reference / pointer rooted in a data member
deriving DecidableEq, Repr

/-- the mode in which a lock object holds the mutex -/
def LockClass.mode (mutexShared : Bool) : LockClass → LK
  | .sharedLock => if mutexShared then .shared else .excl
  | _ => .excl

/-- the lock that protects ALL the (non-exempt) accesses of the function: the guard's mode when it is
    built from the table's mutex and every access lies in its scope, otherwise nothing -/
def FnInfo.eff (mutexShared : Bool) (f : FnInfo) : LK :=
  match f.guard with
  | some (cls, .theMutex) => if f.accesses.all (fun a => a.inside || a.exempt) then cls.mode mutexShared else .none
  | _ => .none

def FnInfo.touches (f : FnInfo) : Bool := f.accesses.any (fun a => !a.exempt)
def FnInfo.writes (f : FnInfo) : Bool := f.accesses.any (fun a => a.write && !a.exempt)

/-- every write under the exclusive lock, every read under at least the shared lock, nothing escapes -/
def FnInfo.disciplined (mutexShared : Bool) (f : FnInfo) : Bool :=
  !f.escapes && (!f.writes || f.eff mutexShared == .excl) && (!f.touches || (f.eff mutexShared).atLeastShared)

/-- a function that touches the table must be one of the six operations of the model -/
def FnInfo.modelled (f : FnInfo) : Bool := !f.touches || f.fn != .other

def lookupFn (fns : List FnInfo) (x : Fn) : Option FnInfo := fns.find? (fun f => f.fn == x)

def effOf (mutexShared : Bool) (fns : List FnInfo) (x : Fn) : LK :=
  match lookupFn fns x with
  | some f => f.eff mutexShared
  | none => .none

def discOf (mutexShared : Bool) (fns : List FnInfo) : Disc :=
  { find := effOf mutexShared fns .find
    findRef := match lookupFn fns .find with
      | some f => f.escapes
      | none => true
    insert := effOf mutexShared fns .insert
    clear := effOf mutexShared fns .clear
    clearKey := effOf mutexShared fns .clearKey
    save := effOf mutexShared fns .save
    load := effOf mutexShared fns .load }

end Vita.C15
