/-
  C15 — vita::cache (src/kernel/cache.cc) shared by threads: the lock protocol and the table as a
  transition system.

  * The table: any number of slots (`tab : Nat → Slot`), `idx : Key → Nat` (C++ `index()`), the
    epoch counter `seal` that wraps after `M` (C++ `UINT_MAX`).  A fitness value is `L` machine
    words; the value of the store `(k, id)` is `L` copies of the token `(k, id)` (`val`), so a torn or
    a foreign read is visible in the result.
  * `Mem.find / insert / clear / clearKey / save / load` are the SEQUENTIAL cache (the same functions
    as C04's `Cache`, over abstract keys and token values): they are the specification object of the
    linearizability statement and, at the same time, what each critical section does to the table.
  * Threads (`Tid = Nat`, any number) run find / insert / clear() / clear(key) / save / load and the
    composite `evaluator_proxy::operator()` (find; on a miss evaluate holding NO lock; insert) one
    atomic step at a time.  `find` copies the value word by word, `insert` writes key, words (one by
    one) and seal; `load` writes entry by entry; `save` reads slot by slot.
  * `std::shared_mutex` BY ITS SPECIFICATION: a shared acquisition is enabled iff nobody holds the
    lock exclusively, an exclusive one iff nobody holds it at all.  Holders are read off the thread
    states through the LOCK DISCIPLINE `d : Disc` – which lock each member function takes – so the
    same system also describes the broken variants (`find` takes no lock, `insert` takes the shared
    lock, `find` hands out a reference, …); lean/Vita/C15/Gen.lean holds the discipline extracted
    from the current cache.cc.
  * Ghost state: `abs` (the sequential cache, advanced once per operation at its linearization
    point) and `lin` (the linearized history, newest first, with the answers of the specification).
-/
namespace Vita.C15

abbrev Tid := Nat
abbrev Key := Nat
/-- a token identifies one stored value: (key, id) -/
abbrev Tok := Key × Nat

/-! ### lock discipline -/

inductive LK where
  | none | shared | excl
deriving DecidableEq, Repr

def LK.atLeastShared : LK → Bool
  | .none => false
  | _ => true

/-- which lock each public member function holds around its table accesses; `findRef`: find hands
    out a reference into the table (the copy happens after the lock is released) -/
structure Disc where
  find : LK
  findRef : Bool
  insert : LK
  clear : LK
  clearKey : LK
  save : LK
  load : LK
deriving DecidableEq, Repr

/-- every write under the exclusive lock, every read under at least the shared lock, nothing escapes -/
def Disc.ok (d : Disc) : Bool :=
  d.find.atLeastShared && !d.findRef && d.insert == .excl && d.clear == .excl && d.clearKey == .excl &&
  d.save.atLeastShared && d.load == .excl

/-- cache.cc as it is: shared for find/save, exclusive for insert/clear/clear(key)/load -/
def Disc.canonical : Disc := ⟨.shared, false, .excl, .excl, .excl, .shared, .excl⟩

/-! ### the table and the sequential cache -/

structure Slot where
  key : Option Key          -- slot::hash (none = hash_t())
  sl : Nat                  -- slot::seal
  words : List Tok          -- slot::fitness
deriving DecidableEq, Repr

structure Cfg where
  L : Nat                   -- words per value
  M : Nat                   -- the largest seal (UINT_MAX)
  idx : Key → Nat           -- cache::index
  dom : List Nat            -- the slots `save` walks over

structure Mem where
  ep : Nat                  -- seal_ (`seal` is a Lean keyword)
  tab : Nat → Slot

def setSlot (t : Nat → Slot) (i : Nat) (x : Slot) : Nat → Slot := fun j => if j = i then x else t j

/-- change one slot -/
def Mem.modSlot (m : Mem) (i : Nat) (f : Slot → Slot) : Mem := { m with tab := setSlot m.tab i (f (m.tab i)) }

def Slot.fresh (L : Nat) : Slot := ⟨none, 0, List.replicate L (0, 0)⟩

/-- cache::cache -/
def Mem.init (c : Cfg) : Mem := ⟨1, fun _ => Slot.fresh c.L⟩

/-- the value of the store `(k, id)` -/
def val (c : Cfg) (k : Key) (id : Nat) : List Tok := List.replicate c.L (k, id)

/-- cache::find -/
def Mem.find (c : Cfg) (m : Mem) (k : Key) : Option (List Tok) :=
  if m.ep = (m.tab (c.idx k)).sl ∧ (m.tab (c.idx k)).key = some k then some (m.tab (c.idx k)).words else none

/-- cache::insert -/
def Mem.insert (c : Cfg) (m : Mem) (k : Key) (v : List Tok) : Mem :=
  { m with tab := setSlot m.tab (c.idx k) ⟨some k, m.ep, v⟩ }

/-- cache::clear() (wipes the table when the seal wraps around) -/
def Mem.clear (c : Cfg) (m : Mem) : Mem :=
  if m.ep = c.M then ⟨1, fun _ => Slot.fresh c.L⟩ else { m with ep := m.ep + 1 }

/-- cache::clear(const hash_t &) -/
def Mem.clearKey (c : Cfg) (m : Mem) (k : Key) : Mem :=
  m.modSlot (c.idx k) (fun x => { x with key := none })

def saveSlot (ep : Nat) (s : Slot) : Option (Key × List Tok) :=
  if s.sl = ep then s.key.map (fun k => (k, s.words)) else none

def Mem.saveOf (m : Mem) : List Nat → List (Key × List Tok)
  | [] => []
  | i :: r => (saveSlot m.ep (m.tab i)).toList ++ m.saveOf r

/-- cache::save: the entries of the current epoch, in table order -/
def Mem.save (c : Cfg) (m : Mem) : List (Key × List Tok) := m.saveOf c.dom

def loadTab (c : Cfg) (sl : Nat) : List Tok → (Nat → Slot) → (Nat → Slot)
  | [], t => t
  | (k, id) :: es, t => loadTab c sl es (setSlot t (c.idx k) ⟨some k, sl, val c k id⟩)

/-- cache::load: the entries are written one after the other, the seal last; a load that fails
    (`ok = false`: the stream ended early) has written the entries it could read and keeps the seal -/
def Mem.load (c : Cfg) (m : Mem) (sl : Nat) (es : List Tok) (ok : Bool) : Mem :=
  ⟨if ok then sl else m.ep, loadTab c sl es m.tab⟩

/-! ### linearized history -/

inductive Ev where
  | find (t : Tid) (k : Key) (r : Option (List Tok))
  | insert (t : Tid) (k : Key) (id : Nat)
  | clear (t : Tid)
  | clearKey (t : Tid) (k : Key)
  | save (t : Tid) (out : List (Key × List Tok))
  | load (t : Tid) (sl : Nat) (es : List Tok) (ok : Bool)
deriving DecidableEq, Repr

def Ev.tid : Ev → Tid
  | .find t .. | .insert t .. | .clear t | .clearKey t _ | .save t _ | .load t .. => t

/-- the effect of an operation on the sequential cache -/
def Mem.apply (c : Cfg) (m : Mem) : Ev → Mem
  | .find .. => m
  | .insert _ k id => m.insert c k (val c k id)
  | .clear _ => m.clear c
  | .clearKey _ k => m.clearKey c k
  | .save .. => m
  | .load _ sl es ok => m.load c sl es ok

/-- the recorded answer is the answer of the sequential cache -/
def Mem.legal (c : Cfg) (m : Mem) : Ev → Bool
  | .find _ k r => r == m.find c k
  | .save _ out => out == m.save c
  | _ => true

/-- run a history (NEWEST FIRST) on the sequential cache, checking every recorded answer -/
def replay (c : Cfg) : List Ev → Option Mem
  | [] => some (Mem.init c)
  | e :: l =>
    match replay c l with
    | some m => if m.legal c e then some (m.apply c e) else none
    | none => none

/-- the most recent linearized operation of thread `t` -/
def lastOf (t : Tid) : List Ev → Option Ev
  | [] => none
  | e :: l => if e.tid = t then some e else lastOf t l

/-! ### threads -/

inductive T where
  | idle
  | fLocked (k : Key)                          -- find: lock taken (10)
  | fCopy (k : Key) (acc : List Tok)           -- find: seal and key matched (11), copying under the lock
  | fMissed (k : Key)                          -- find: no match, still under the lock
  | fDone (k : Key) (res : Option (List Tok))  -- find has returned
  | rCopy (k : Key) (acc : List Tok)           -- (reference variant) lock released, the caller copies
  | pEval (k : Key)                            -- proxy: missed, evaluating – holds NO lock
  | pDone (k : Key) (v : List Tok)             -- proxy: about to return `v`
  | wLocked (k : Key) (id : Nat) (p : Bool)    -- insert: lock taken (p: called by the proxy)
  | wWrite (k : Key) (id : Nat) (p : Bool) (i : Nat)  -- insert: key written, `i` words written
  | wFin (k : Key) (id : Nat) (p : Bool)       -- insert: seal written, before the release
  | cLocked | cDone                            -- clear()
  | kLocked (k : Key) | kDone                  -- clear(key)
  | sLocked                                    -- save: lock taken
  | sRun (rest : List Nat) (out : List (Key × List Tok))   -- save: slots still to visit, entries written
  | sDone (out : List (Key × List Tok))        -- save has returned
  | lRun (sl : Nat) (es : List Tok) (ok : Bool)  -- load: entries still to write
  | lFin                                       -- load: seal written, before the release
deriving DecidableEq, Repr

/-- the lock a thread in state `x` holds, given the discipline -/
def lockOf (d : Disc) : T → LK
  | .fLocked _ | .fCopy .. | .fMissed _ => d.find
  | .wLocked .. | .wWrite .. | .wFin .. => d.insert
  | .cLocked | .cDone => d.clear
  | .kLocked _ | .kDone => d.clearKey
  | .sLocked | .sRun .. => d.save
  | .lRun .. | .lFin => d.load
  | _ => .none

/-- inside an operation that writes the table -/
def T.writing : T → Bool
  | .wLocked .. | .wWrite .. | .wFin .. | .cLocked | .cDone | .kLocked _ | .kDone | .lRun .. | .lFin => true
  | _ => false

structure S where
  mem : Mem                 -- the table as the threads see it
  abs : Mem                 -- ghost: the sequential cache
  lin : List Ev             -- ghost: linearized history, newest first
  th : Tid → T
  stored : List Tok         -- every (key, id) some insert / load has been started with

def upd (th : Tid → T) (t : Tid) (x : T) : Tid → T := fun u => if u = t then x else th u

def S.init (c : Cfg) : S := ⟨Mem.init c, Mem.init c, [], fun _ => .idle, []⟩

inductive Act where
  | fAcquire (t : Tid) (k : Key) | fCheck (t : Tid) | fCopyWord (t : Tid) | fRelease (t : Tid) | fReturn (t : Tid)
  | pMiss (t : Tid) | pHit (t : Tid) | pReturn (t : Tid)
  | wAcquire (t : Tid) (k : Key) (id : Nat) | wKey (t : Tid) | wWord (t : Tid) | wSeal (t : Tid) | wRelease (t : Tid)
  | cAcquire (t : Tid) | cBump (t : Tid) | cRelease (t : Tid)
  | kAcquire (t : Tid) (k : Key) | kInv (t : Tid) | kRelease (t : Tid)
  | sAcquire (t : Tid) | sStart (t : Tid) | sSlot (t : Tid) | sEnd (t : Tid) | sReturn (t : Tid)
  | lAcquire (t : Tid) (sl : Nat) (es : List Tok) (ok : Bool) | lEntry (t : Tid) | lSeal (t : Tid) | lRelease (t : Tid)
deriving Repr

def Act.tid : Act → Tid
  | .fAcquire t _ | .fCheck t | .fCopyWord t | .fRelease t | .fReturn t | .pMiss t | .pHit t | .pReturn t
  | .wAcquire t .. | .wKey t | .wWord t | .wSeal t | .wRelease t | .cAcquire t | .cBump t | .cRelease t
  | .kAcquire t _ | .kInv t | .kRelease t | .sAcquire t | .sStart t | .sSlot t | .sEnd t | .sReturn t
  | .lAcquire t .. | .lEntry t | .lSeal t | .lRelease t => t

/-- the lock an action asks for (`.none`: the action is not an acquisition, or takes no lock) -/
def acq (d : Disc) : Act → LK
  | .fAcquire .. => d.find
  | .wAcquire .. => d.insert
  | .cAcquire _ => d.clear
  | .kAcquire .. => d.clearKey
  | .sAcquire _ => d.save
  | .lAcquire .. => d.load
  | _ => .none

/-- what an action does (the lock's availability is `Free`, below) -/
def step1 (d : Disc) (c : Cfg) (s : S) : Act → Option S
  | .fAcquire t k =>
    if s.th t = .idle then some { s with th := upd s.th t (.fLocked k) } else none
  | .fCheck t =>
    match s.th t with
    | .fLocked k =>
      -- linearization point of find: the specification's answer is recorded; the code compares
      match s.mem.find c k with
      | some _ => some { s with lin := .find t k (s.abs.find c k) :: s.lin,
                                th := upd s.th t (if d.findRef then .rCopy k [] else .fCopy k []) }
      | none => some { s with lin := .find t k (s.abs.find c k) :: s.lin, th := upd s.th t (.fMissed k) }
    | _ => none
  | .fCopyWord t =>
    match s.th t with
    | .fCopy k acc =>
      match (s.mem.tab (c.idx k)).words[acc.length]? with
      | some w => some { s with th := upd s.th t (.fCopy k (acc ++ [w])) }
      | none => none
    | .rCopy k acc =>
      match (s.mem.tab (c.idx k)).words[acc.length]? with
      | some w => some { s with th := upd s.th t (.rCopy k (acc ++ [w])) }
      | none => none
    | _ => none
  | .fRelease t =>
    match s.th t with
    | .fCopy k acc => if acc.length = c.L then some { s with th := upd s.th t (.fDone k (some acc)) } else none
    | .rCopy k acc => if acc.length = c.L then some { s with th := upd s.th t (.fDone k (some acc)) } else none
    | .fMissed k => some { s with th := upd s.th t (.fDone k none) }
    | _ => none
  | .fReturn t =>
    match s.th t with
    | .fDone _ _ => some { s with th := upd s.th t .idle }
    | _ => none
  | .pMiss t =>
    match s.th t with
    | .fDone k none => some { s with th := upd s.th t (.pEval k) }
    | _ => none
  | .pHit t =>
    match s.th t with
    | .fDone k (some v) => some { s with th := upd s.th t (.pDone k v) }
    | _ => none
  | .pReturn t =>
    match s.th t with
    | .pDone _ _ => some { s with th := upd s.th t .idle }
    | _ => none
  | .wAcquire t k id =>
    -- linearization point of insert
    if s.th t = .idle ∨ s.th t = .pEval k then
      some { s with th := upd s.th t (.wLocked k id (decide (s.th t = .pEval k))), stored := (k, id) :: s.stored,
                    abs := s.abs.insert c k (val c k id), lin := .insert t k id :: s.lin }
    else none
  | .wKey t =>
    match s.th t with
    | .wLocked k id p =>
      some { s with th := upd s.th t (.wWrite k id p 0),
                    mem := s.mem.modSlot (c.idx k) (fun x => { x with key := some k }) }
    | _ => none
  | .wWord t =>
    match s.th t with
    | .wWrite k id p i =>
      if i < c.L then
        some { s with th := upd s.th t (.wWrite k id p (i + 1)),
                      mem := s.mem.modSlot (c.idx k) (fun x => { x with words := x.words.set i (k, id) }) }
      else none
    | _ => none
  | .wSeal t =>
    match s.th t with
    | .wWrite k id p i =>
      if i = c.L then
        some { s with th := upd s.th t (.wFin k id p),
                      mem := s.mem.modSlot (c.idx k) (fun x => { x with sl := s.mem.ep }) }
      else none
    | _ => none
  | .wRelease t =>
    match s.th t with
    | .wFin k id p => some { s with th := upd s.th t (if p then .pDone k (val c k id) else .idle) }
    | _ => none
  | .cAcquire t =>
    if s.th t = .idle then
      some { s with th := upd s.th t .cLocked, abs := s.abs.clear c, lin := .clear t :: s.lin }
    else none
  | .cBump t =>
    match s.th t with
    | .cLocked => some { s with th := upd s.th t .cDone, mem := s.mem.clear c }
    | _ => none
  | .cRelease t =>
    match s.th t with
    | .cDone => some { s with th := upd s.th t .idle }
    | _ => none
  | .kAcquire t k =>
    if s.th t = .idle then
      some { s with th := upd s.th t (.kLocked k), abs := s.abs.clearKey c k, lin := .clearKey t k :: s.lin }
    else none
  | .kInv t =>
    match s.th t with
    | .kLocked k => some { s with th := upd s.th t .kDone, mem := s.mem.clearKey c k }
    | _ => none
  | .kRelease t =>
    match s.th t with
    | .kDone => some { s with th := upd s.th t .idle }
    | _ => none
  | .sAcquire t =>
    if s.th t = .idle then some { s with th := upd s.th t .sLocked } else none
  | .sStart t =>
    match s.th t with
    | .sLocked => some { s with th := upd s.th t (.sRun c.dom []), lin := .save t (s.abs.save c) :: s.lin }
    | _ => none
  | .sSlot t =>
    match s.th t with
    | .sRun (i :: rest) out =>
      some { s with th := upd s.th t (.sRun rest (out ++ (saveSlot s.mem.ep (s.mem.tab i)).toList)) }
    | _ => none
  | .sEnd t =>
    match s.th t with
    | .sRun [] out => some { s with th := upd s.th t (.sDone out) }
    | _ => none
  | .sReturn t =>
    match s.th t with
    | .sDone _ => some { s with th := upd s.th t .idle }
    | _ => none
  | .lAcquire t sl es ok =>
    if s.th t = .idle then
      some { s with th := upd s.th t (.lRun sl es ok), stored := es ++ s.stored,
                    abs := s.abs.load c sl es ok, lin := .load t sl es ok :: s.lin }
    else none
  | .lEntry t =>
    match s.th t with
    | .lRun sl ((k, id) :: rest) ok =>
      some { s with th := upd s.th t (.lRun sl rest ok),
                    mem := s.mem.modSlot (c.idx k) (fun _ => ⟨some k, sl, val c k id⟩) }
    | _ => none
  | .lSeal t =>
    match s.th t with
    | .lRun sl [] ok => some { s with th := upd s.th t .lFin, mem := { s.mem with ep := if ok then sl else s.mem.ep } }
    | _ => none
  | .lRelease t =>
    match s.th t with
    | .lFin => some { s with th := upd s.th t .idle }
    | _ => none

/-- specification of std::shared_mutex: `lock_shared` succeeds iff nobody holds the lock exclusively,
    `lock` iff nobody holds it at all; taking no lock always succeeds -/
def Free (d : Disc) (th : Tid → T) : LK → Prop
  | .none => True
  | .shared => ∀ u, lockOf d (th u) ≠ .excl
  | .excl => ∀ u, lockOf d (th u) = .none

/-- one atomic step of one thread -/
def Step (d : Disc) (c : Cfg) (s s' : S) : Prop := ∃ a, Free d s.th (acq d a) ∧ step1 d c s a = some s'

inductive Reach (d : Disc) (c : Cfg) : S → Prop where
  | init : Reach d c (S.init c)
  | step (s s') : Reach d c s → Step d c s s' → Reach d c s'

end Vita.C15
