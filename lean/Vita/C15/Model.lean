/-
  C15 — the lock protocol of vita::cache (src/kernel/cache.cc) as a transition system.

  One contested slot of the table.  A fitness value is `L` machine words; the value stored by the
  insert `(k, id)` is `L` copies of the token `(k, id)`, so a torn or foreign read is visible in
  the result.  Any number of threads (`Tid = Nat`), each running find / insert / clear / clear(key)
  one atomic step at a time.  `std::shared_mutex` is modelled BY ITS SPECIFICATION: a shared
  acquisition is enabled iff no thread is in a writer state, an exclusive one iff no thread is in
  a lock-holding state; there are no counters – the holders are read off the thread states.

  Two variants of `find`:
    `StepV`  the value is copied while the shared lock is held   (find returns fitness_t)
    `StepR`  the lock is released first and the caller copies through the returned reference
             (find returned `const fitness_t &` – the code before the fix)
-/
namespace Vita.C15

abbrev Tid := Nat
abbrev Key := Nat
/-- a token identifies one insert: (key, id) -/
abbrev Tok := Key × Nat

inductive T where
  | idle
  | fLocked (k : Key)                       -- find: shared lock taken
  | fCopy (k : Key) (acc : List Tok)        -- find: key and seal matched, copying under the lock
  | fMissed (k : Key)                       -- find: no match, still under the lock
  | fDone (k : Key) (res : Option (List Tok))  -- find has returned (lock released)
  | rCopy (k : Key) (acc : List Tok)        -- (reference variant) lock released, caller copies
  | wLocked (k : Key) (id : Nat)            -- insert: exclusive lock taken
  | wWrite (k : Key) (id : Nat) (i : Nat)   -- insert: slot being overwritten, `i` words written
  | cLocked                                 -- clear()/clear(key): exclusive lock taken
  | cCleared                                -- clear: slot invalidated, lock still held
deriving DecidableEq, Repr

/-- holds the exclusive lock -/
def T.isW : T → Bool
  | .wLocked .. | .wWrite .. | .cLocked | .cCleared => true
  | _ => false

/-- holds the shared lock -/
def T.isR : T → Bool
  | .fLocked .. | .fCopy .. | .fMissed .. => true
  | _ => false

def T.holds (x : T) : Bool := x.isW || x.isR

def T.isWriting : T → Bool
  | .wWrite .. => true
  | _ => false

structure S where
  L : Nat
  key : Option Key          -- key of the slot; none = empty / invalidated (seal or hash)
  words : List Tok          -- the fitness stored in the slot
  th : Tid → T
  stored : List Tok         -- every (key, id) some insert has been started with

def upd (th : Tid → T) (t : Tid) (x : T) : Tid → T := fun u => if u = t then x else th u

/-- specification of std::shared_mutex::lock_shared: no writer holds -/
def S.sharedFree (s : S) : Prop := ∀ u, (s.th u).isW = false
/-- specification of std::shared_mutex::lock: nobody holds -/
def S.exclFree (s : S) : Prop := ∀ u, (s.th u).holds = false

def S.init (L : Nat) : S := ⟨L, none, List.replicate L (0, 0), fun _ => .idle, []⟩

/-- steps common to both variants -/
inductive Common : S → S → Prop where
  | fAcquire (s t k) : s.th t = .idle → s.sharedFree → Common s { s with th := upd s.th t (.fLocked k) }
  | fMiss (s t k) : s.th t = .fLocked k → s.key ≠ some k → Common s { s with th := upd s.th t (.fMissed k) }
  | fMissRelease (s t k) : s.th t = .fMissed k → Common s { s with th := upd s.th t (.fDone k none) }
  | fReturn (s t k r) : s.th t = .fDone k r → Common s { s with th := upd s.th t .idle }
  | wAcquire (s t k id) : s.th t = .idle → s.exclFree →
      Common s { s with th := upd s.th t (.wLocked k id), stored := (k, id) :: s.stored }
  | wKey (s t k id) : s.th t = .wLocked k id → Common s { s with th := upd s.th t (.wWrite k id 0), key := none }
  | wWord (s t k id i) : s.th t = .wWrite k id i → i < s.L →
      Common s { s with th := upd s.th t (.wWrite k id (i + 1)), words := s.words.set i (k, id) }
  | wRelease (s t k id) : s.th t = .wWrite k id s.L → Common s { s with th := upd s.th t .idle, key := some k }
  | cAcquire (s t) : s.th t = .idle → s.exclFree → Common s { s with th := upd s.th t .cLocked }
  | cInvalidate (s t) : s.th t = .cLocked → Common s { s with th := upd s.th t .cCleared, key := none }
  | cRelease (s t) : s.th t = .cCleared → Common s { s with th := upd s.th t .idle }

/-- find copies the value while it holds the shared lock (find returns by value) -/
inductive StepV : S → S → Prop where
  | common (s s') : Common s s' → StepV s s'
  | fHit (s t k) : s.th t = .fLocked k → s.key = some k → StepV s { s with th := upd s.th t (.fCopy k []) }
  | fCopyWord (s t k acc) (w : Tok) : s.th t = .fCopy k acc → s.words[acc.length]? = some w →
      StepV s { s with th := upd s.th t (.fCopy k (acc ++ [w])) }
  | fRelease (s t k acc) : s.th t = .fCopy k acc → acc.length = s.L →
      StepV s { s with th := upd s.th t (.fDone k (some acc)) }

/-- find releases the lock and hands out a reference; the caller copies afterwards -/
inductive StepR : S → S → Prop where
  | common (s s') : Common s s' → StepR s s'
  | fHitRef (s t k) : s.th t = .fLocked k → s.key = some k → StepR s { s with th := upd s.th t (.rCopy k []) }
  | rCopyWord (s t k acc) (w : Tok) : s.th t = .rCopy k acc → s.words[acc.length]? = some w →
      StepR s { s with th := upd s.th t (.rCopy k (acc ++ [w])) }
  | rDone (s t k acc) : s.th t = .rCopy k acc → acc.length = s.L →
      StepR s { s with th := upd s.th t (.fDone k (some acc)) }

inductive Reach (step : S → S → Prop) (s0 : S) : S → Prop where
  | refl : Reach step s0 s0
  | tail (s s') : Reach step s0 s → step s s' → Reach step s0 s'

end Vita.C15
