/-
  C15 — the fitness cache can be shared by threads: theorems (statements in words: design/C15.md).

  The transition system `Step d c` of Model.lean: any number of threads running find / insert /
  clear() / clear(key) / save / load / evaluator_proxy::operator() one atomic step at a time on a
  table of any number of slots whose values are `c.L` machine words; `d` says which lock each
  operation takes.  For EVERY interleaving (induction over `Reach`):

    mutex_inv                 (any d)   a thread that holds the lock exclusively is the only holder
    step_inv / reach_pinv     (d.ok)    the protocol invariant `PInv`
    lookup_returns_stored     (d.ok)    a finished lookup of `k` returned nothing or ONE COMPLETE value
                                        that some insert / load stored under `k` – no torn, no foreign value
    proxy_returns_stored      (d.ok)    the same for what evaluator_proxy::operator() returns
    proxy_is_linearized       (d.ok)    … which is the answer of its own linearized find or the value of its own
                                        linearized insert
    save_returns_stored       (d.ok)    the same for every entry a finished `save` has written
    history_legal             (any d)   the linearized history is a legal history of the sequential cache
    linearizable              (d.ok)    … it ends in the sequential cache `abs`, the table IS `abs` whenever no
                                        writing operation is in progress, and every finished find / save returned
                                        exactly the answer recorded at its linearization point
    linearized_answer                   an answer recorded in a legal history is the sequential cache's answer
                                        on the history before it
    lookup_is_C04_sequential, proxy_is_C04_sequential
                                        … and that answer is C04's `Cache.find` on C04's `Cache.run` of the stores and
                                        clears linearized before (Bridge.lean; histories without `load`)
    cache_discipline_checked            the obligations on the table extracted from cache.cc (Gen.lean)
    cache_*                             the theorems above for `Gen.disc`, the discipline extracted from cache.cc
    driver_states_reachable             whatever the driver executes is reachable
  and for the broken disciplines, schedules (evaluated by the executable model) on which a lookup
  returns a foreign / torn value:
    reference_foreign_value_witness, reference_torn_value_witness   find hands out a reference
    find_unlocked_torn_witness        find takes no lock
    insert_shared_torn_witness        insert takes the shared lock
    clear_shared_torn_witness         clear() takes the shared lock and the seal wraps
    lookup_returns_stored_needs_ok    so `lookup_returns_stored` fails for each of them
-/
import Vita.C15.Inv
import Vita.C15.Exec
import Vita.C15.Gen
import Vita.C15.Bridge
namespace Vita.C15

/-- **mutual exclusion** (any discipline: it is the lock's specification carried along every
    interleaving): a thread that holds the lock exclusively is the only thread that holds it -/
theorem mutex_inv {d : Disc} {c : Cfg} {s : S} (h : Reach d c s) (t u : Tid) (htu : t ≠ u)
    (ht : lockOf d (s.th t) = .excl) : lockOf d (s.th u) = .none := by
  have : Excl d s.th := by
    clear ht
    induction h with
    | init => exact excl_init d c
    | step s s' _ st ih => exact step_excl ih st
  exact this t u htu ht

theorem step_inv {d : Disc} (hd : d.ok = true) {c : Cfg} {s s' : S} (h : PInv d c s) (st : Step d c s s') :
    PInv d c s' := by
  obtain ⟨a, hf, h1⟩ := st
  exact step1_inv hd h a hf h1

theorem reach_pinv {d : Disc} (hd : d.ok = true) {c : Cfg} {s : S} (h : Reach d c s) : PInv d c s := by
  induction h with
  | init => exact pinv_init d c
  | step s s' _ st ih => exact step_inv hd ih st

/-- under an ok discipline a thread inside a writing operation excludes every other lock holder, and
    a reader excludes every writer -/
theorem writer_alone {d : Disc} (hd : d.ok = true) {c : Cfg} {s : S} (h : Reach d c s) (t u : Tid) (htu : t ≠ u)
    (ht : (s.th t).writing = true) : lockOf d (s.th u) = .none :=
  mutex_inv h t u htu (writing_excl (okF hd) ht)

/-- **lookup_returns_stored** — every interleaving, every thread count, every table, every `L` -/
theorem lookup_returns_stored {d : Disc} (hd : d.ok = true) {c : Cfg} {s : S} (h : Reach d c s) (t : Tid) (k : Key)
    (v : List Tok) (hdone : s.th t = .fDone k (some v)) :
    ∃ id, (k, id) ∈ s.stored ∧ v = List.replicate c.L (k, id) := by
  have := (reach_pinv hd h).thr t
  rw [hdone] at this
  exact this.2 v rfl

/-- what `evaluator_proxy::operator()` returns for the signature `k` is one complete value stored
    under `k` (found in the cache, or evaluated – outside any lock – and stored by this very call) -/
theorem proxy_returns_stored {d : Disc} (hd : d.ok = true) {c : Cfg} {s : S} (h : Reach d c s) (t : Tid) (k : Key)
    (v : List Tok) (hdone : s.th t = .pDone k v) :
    ∃ id, (k, id) ∈ s.stored ∧ v = List.replicate c.L (k, id) := by
  have := (reach_pinv hd h).thr t
  rw [hdone] at this
  exact this.1

/-- … and it is the answer of the proxy's own linearized lookup, or the value of its own linearized
    store (made after its lookup had missed): the proxy is a client of the linearizable cache -/
theorem proxy_is_linearized {d : Disc} (hd : d.ok = true) {c : Cfg} {s : S} (h : Reach d c s) (t : Tid) (k : Key)
    (v : List Tok) (hdone : s.th t = .pDone k v) :
    lastOf t s.lin = some (.find t k (some v)) ∨ ∃ id, lastOf t s.lin = some (.insert t k id) ∧ v = val c k id := by
  have := (reach_pinv hd h).thr t
  rw [hdone] at this
  exact this.2

/-- every entry a finished `save` wrote is a key with one complete value stored under it -/
theorem save_returns_stored {d : Disc} (hd : d.ok = true) {c : Cfg} {s : S} (h : Reach d c s) (t : Tid)
    (out : List (Key × List Tok)) (hdone : s.th t = .sDone out) (k : Key) (v : List Tok) (hm : (k, v) ∈ out) :
    ∃ id, (k, id) ∈ s.stored ∧ v = List.replicate c.L (k, id) := by
  have := (reach_pinv hd h).thr t
  rw [hdone] at this
  exact this.2 (k, v) hm

/-- while the proxy evaluates it holds no lock (whatever the discipline) -/
theorem proxy_evaluates_outside_locks (d : Disc) (k : Key) : lockOf d (.pEval k) = .none := rfl

/-! ### linearizability w.r.t. the sequential cache `Mem.find / insert / clear / clearKey / save / load`
    (the functions of C04's `Cache`, over abstract keys and token values) -/

/-- the linearized history (each operation appears at one step between its call and its return, with
    the answer of the sequential cache) is a legal sequential history ending in `abs` -/
theorem history_legal {d : Disc} {c : Cfg} {s : S} (h : Reach d c s) : replay c s.lin = some s.abs := by
  induction h with
  | init => rfl
  | step s s' _ st ih =>
    obtain ⟨a, _, h1⟩ := st
    exact step1_hist a ih h1

/-- an answer recorded in a legal history is the answer of the sequential cache run on the history
    before it -/
theorem linearized_answer {c : Cfg} (l1 l2 : List Ev) (e : Ev) {m : Mem} (h : replay c (l1 ++ e :: l2) = some m) :
    ∃ m0, replay c l2 = some m0 ∧ m0.legal c e = true := by
  induction l1 generalizing m with
  | nil =>
    simp only [List.nil_append, replay] at h
    split at h
    · rename_i m0 h0
      split at h
      · rename_i hl; exact ⟨m0, h0, hl⟩
      · cases h
    · cases h
  | cons e1 l1 ih =>
    simp only [List.cons_append, replay] at h
    split at h
    · rename_i m1 h1; exact ih h1
    · cases h

/-- **linearizable** -/
theorem linearizable {d : Disc} (hd : d.ok = true) {c : Cfg} {s : S} (h : Reach d c s) :
    replay c s.lin = some s.abs ∧
    ((∀ u, (s.th u).writing = false) → s.mem = s.abs) ∧
    (∀ t k r, s.th t = .fDone k r → lastOf t s.lin = some (.find t k r)) ∧
    (∀ t out, s.th t = .sDone out → lastOf t s.lin = some (.save t out)) := by
  have hp := reach_pinv hd h
  refine ⟨history_legal h, hp.quiet, ?_, ?_⟩
  · intro t k r ht
    have := hp.thr t; rw [ht] at this; exact this.1
  · intro t out ht
    have := hp.thr t; rw [ht] at this; exact this.1

theorem lastOf_split (t : Tid) (e : Ev) : ∀ l : List Ev, lastOf t l = some e → ∃ l1 l2, l = l1 ++ e :: l2 := by
  intro l
  induction l with
  | nil => intro h; simp [lastOf] at h
  | cons x l ih =>
    intro h
    simp only [lastOf] at h
    split at h
    · simp only [Option.some.injEq] at h; subst h; exact ⟨[], l, rfl⟩
    · obtain ⟨l1, l2, hl⟩ := ih h; exact ⟨x :: l1, l2, by rw [hl]; rfl⟩

/-- a finished lookup returned what the sequential cache answers on the operations linearized before it -/
theorem lookup_is_sequential {d : Disc} (hd : d.ok = true) {c : Cfg} {s : S} (h : Reach d c s) (t : Tid) (k : Key)
    (r : Option (List Tok)) (hdone : s.th t = .fDone k r) :
    ∃ l1 l2 m0, s.lin = l1 ++ .find t k r :: l2 ∧ replay c l2 = some m0 ∧ r = m0.find c k := by
  obtain ⟨hl, _, hf, _⟩ := linearizable hd h
  have hlast := hf t k r hdone
  obtain ⟨l1, l2, hs⟩ := lastOf_split t _ s.lin hlast
  rw [hs] at hl
  obtain ⟨m0, h0, hleg⟩ := linearized_answer l1 l2 _ hl
  refine ⟨l1, l2, m0, hs, h0, ?_⟩
  simpa [Mem.legal] using hleg

/-! ### … and w.r.t. C04's specification object `Vita.C04.Cache` (Bridge.lean: `Mem.*` refines it under any
    encoding of the keys in use that is injective and avoids the empty key; `load` has no counterpart in
    C04's history language, so the statements are about histories without it) -/

/-- **a finished lookup returned what C04's `Cache.find` answers after C04's `Cache.run` of the stores and
    clears linearized before it** -/
theorem lookup_is_C04_sequential {d : Disc} (hd : d.ok = true) {c : Cfg} (hM : c.M = 4294967295) {s : S}
    (h : Reach d c s) (e : Enc) (idx : Vita.C04.Key → Nat) (dom : List Nat)
    (hidx : ∀ k, e.ok k → idx (e.key k) = c.idx k) (hplain : ∀ x, x ∈ s.lin → x.plain e)
    (t : Tid) (k : Key) (r : Option (List Tok)) (hdone : s.th t = .fDone k r) :
    ∃ l1 l2, s.lin = l1 ++ .find t k r :: l2 ∧
      ((Vita.C04.Cache.init idx dom).run (opsOf e c l2)).find (e.key k) = r.map e.fit := by
  obtain ⟨hl, _, hf, _⟩ := linearizable hd h
  obtain ⟨l1, l2, hs⟩ := lastOf_split t _ s.lin (hf t k r hdone)
  rw [hs] at hl hplain
  exact ⟨l1, l2, hs, find_is_C04 e c hM idx dom hidx l1 l2 t k r hplain hl⟩

/-- what `evaluator_proxy::operator()` returned is C04's `Cache.find` answer for its own lookup (a hit),
    or the value it stored itself after its lookup had missed -/
theorem proxy_is_C04_sequential {d : Disc} (hd : d.ok = true) {c : Cfg} (hM : c.M = 4294967295) {s : S}
    (h : Reach d c s) (e : Enc) (idx : Vita.C04.Key → Nat) (dom : List Nat)
    (hidx : ∀ k, e.ok k → idx (e.key k) = c.idx k) (hplain : ∀ x, x ∈ s.lin → x.plain e)
    (t : Tid) (k : Key) (v : List Tok) (hdone : s.th t = .pDone k v) :
    (∃ l1 l2, s.lin = l1 ++ .find t k (some v) :: l2 ∧
      ((Vita.C04.Cache.init idx dom).run (opsOf e c l2)).find (e.key k) = some (e.fit v)) ∨
    (∃ id, lastOf t s.lin = some (.insert t k id) ∧ v = val c k id) := by
  rcases proxy_is_linearized hd h t k v hdone with hh | hh
  · left
    have hl := history_legal h
    obtain ⟨l1, l2, hs⟩ := lastOf_split t _ s.lin hh
    rw [hs] at hl hplain
    exact ⟨l1, l2, hs, find_is_C04 e c hM idx dom hidx l1 l2 t k (some v) hplain hl⟩
  · right; exact hh

/-! ### the discipline extracted from cache.cc (lean/Vita/C15/Gen.lean, regenerated on every run) -/

/-- the obligations on the extracted table (Gen.lean, `by decide`): every write under the exclusive lock,
    every read under at least the shared lock, nothing escapes; every function that touches the table is
    an operation of the model; hence the discipline is `ok` -/
theorem cache_discipline_checked :
    Gen.fns.all (FnInfo.disciplined Gen.mutexShared) = true ∧ Gen.fns.all FnInfo.modelled = true ∧
    Gen.disc.ok = true := ⟨Gen.all_disciplined, Gen.all_modelled, Gen.disc_ok⟩

theorem cache_mutex_inv {c : Cfg} {s : S} (h : Reach Gen.disc c s) (t u : Tid) (htu : t ≠ u)
    (ht : lockOf Gen.disc (s.th t) = .excl) : lockOf Gen.disc (s.th u) = .none := mutex_inv h t u htu ht

theorem cache_lookup_returns_stored {c : Cfg} {s : S} (h : Reach Gen.disc c s) (t : Tid) (k : Key) (v : List Tok)
    (hdone : s.th t = .fDone k (some v)) : ∃ id, (k, id) ∈ s.stored ∧ v = List.replicate c.L (k, id) :=
  lookup_returns_stored Gen.disc_ok h t k v hdone

theorem cache_proxy_returns_stored {c : Cfg} {s : S} (h : Reach Gen.disc c s) (t : Tid) (k : Key) (v : List Tok)
    (hdone : s.th t = .pDone k v) : ∃ id, (k, id) ∈ s.stored ∧ v = List.replicate c.L (k, id) :=
  proxy_returns_stored Gen.disc_ok h t k v hdone

theorem cache_linearizable {c : Cfg} {s : S} (h : Reach Gen.disc c s) :
    replay c s.lin = some s.abs ∧ ((∀ u, (s.th u).writing = false) → s.mem = s.abs) ∧
    (∀ t k r, s.th t = .fDone k r → lastOf t s.lin = some (.find t k r)) ∧
    (∀ t out, s.th t = .sDone out → lastOf t s.lin = some (.save t out)) :=
  linearizable Gen.disc_ok h

/-- the tie: whatever sequence of actions the driver executes from the initial state of `n` threads,
    the state it is in is reachable – the theorems above cover the model answers that the real
    lookups are compared with -/
theorem driver_states_reachable {d : Disc} {c : Cfg} {n : Nat} (as : List Act) {s' : S}
    (h : execs d c n (S.init c) as = some s') : Reach d c s' := reach_of_execs h

/-! ### the broken disciplines: schedules with a foreign / torn lookup -/

/-- one slot (every key is sent to slot 0), values of `L` words, seals up to `M` -/
def oneSlot (L M : Nat) : Cfg := ⟨L, M, fun _ => 0, [0]⟩

/-- a whole insert of thread `t` -/
def insertActs (t : Tid) (k id L : Nat) : List Act :=
  [.wAcquire t k id, .wKey t] ++ List.replicate L (.wWord t) ++ [.wSeal t, .wRelease t]

theorem witness_of {d : Disc} {c : Cfg} {n : Nat} {as : List Act} {t : Tid} {x : T}
    (h : (execs d c n (S.init c) as).map (fun s => s.th t) = some x) : ∃ s, Reach d c s ∧ s.th t = x := by
  cases hs : execs d c n (S.init c) as with
  | none => rw [hs] at h; cases h
  | some s =>
    rw [hs] at h
    simp only [Option.map_some, Option.some.injEq] at h
    exact ⟨s, reach_of_execs hs, h⟩

def dRef : Disc := { Disc.canonical with findRef := true }
def dFindNone : Disc := { Disc.canonical with find := .none }
def dInsertShared : Disc := { Disc.canonical with insert := .shared }
def dClearShared : Disc := { Disc.canonical with clear := .shared }

/-- thread 1 stores (1,0); thread 0 looks key 1 up and is handed the reference; thread 1 stores
    (2,0) into the same slot; thread 0 copies: it gets the value of key 2 -/
theorem reference_foreign_value_witness :
    ∃ s, Reach dRef (oneSlot 1 9) s ∧ s.th 0 = .fDone 1 (some [(2, 0)]) :=
  witness_of (n := 2) (as := insertActs 1 1 0 1 ++ [.fAcquire 0 1, .fCheck 0] ++ insertActs 1 2 0 1 ++
    [.fCopyWord 0, .fRelease 0]) (by decide)

/-- with two words: the reader copies one word of the old value, the writer overwrites both, the
    reader copies the second word – a value nobody stored -/
theorem reference_torn_value_witness :
    ∃ s, Reach dRef (oneSlot 2 9) s ∧ s.th 0 = .fDone 1 (some [(1, 0), (1, 1)]) :=
  witness_of (n := 2) (as := insertActs 1 1 0 2 ++ [.fAcquire 0 1, .fCheck 0, .fCopyWord 0] ++
    [.wAcquire 1 1 1, .wKey 1, .wWord 1, .wWord 1] ++ [.fCopyWord 0, .fRelease 0]) (by decide)

/-- `find` takes no lock: the insert runs between the two word copies -/
theorem find_unlocked_torn_witness :
    ∃ s, Reach dFindNone (oneSlot 2 9) s ∧ s.th 0 = .fDone 1 (some [(1, 0), (1, 1)]) :=
  witness_of (n := 2) (as := insertActs 1 1 0 2 ++ [.fAcquire 0 1, .fCheck 0, .fCopyWord 0] ++
    [.wAcquire 1 1 1, .wKey 1, .wWord 1, .wWord 1] ++ [.fCopyWord 0, .fRelease 0]) (by decide)

/-- `insert` takes the shared lock: it is admitted while the reader is copying -/
theorem insert_shared_torn_witness :
    ∃ s, Reach dInsertShared (oneSlot 2 9) s ∧ s.th 0 = .fDone 1 (some [(1, 0), (1, 1)]) :=
  witness_of (n := 2) (as := insertActs 1 1 0 2 ++ [.fAcquire 0 1, .fCheck 0, .fCopyWord 0] ++
    [.wAcquire 1 1 1, .wKey 1, .wWord 1, .wWord 1] ++ [.fCopyWord 0, .fRelease 0]) (by decide)

/-- `clear()` takes the shared lock and the seal wraps (here M = 1): the table is wiped under the
    reader, which returns one word of the value and one word of the wiped slot -/
theorem clear_shared_torn_witness :
    ∃ s, Reach dClearShared (oneSlot 2 1) s ∧ s.th 0 = .fDone 1 (some [(1, 0), (0, 0)]) :=
  witness_of (n := 2) (as := insertActs 1 1 0 2 ++ [.fAcquire 0 1, .fCheck 0, .fCopyWord 0] ++
    [.cAcquire 1, .cBump 1] ++ [.fCopyWord 0, .fRelease 0]) (by decide)

/-- the property fails for each of the broken disciplines -/
theorem lookup_returns_stored_needs_ok :
    ∀ d, d = dRef ∨ d = dFindNone ∨ d = dInsertShared ∨ d = dClearShared →
      ¬ ∀ (c : Cfg) (s : S) (t : Tid) (k : Key) (v : List Tok), Reach d c s →
          s.th t = .fDone k (some v) → ∃ id, v = List.replicate c.L (k, id) := by
  intro d hd h
  rcases hd with hd | hd | hd | hd <;> subst hd
  · obtain ⟨s, hr, hs⟩ := reference_foreign_value_witness
    obtain ⟨id, hid⟩ := h _ s 0 1 _ hr hs
    simp [oneSlot] at hid
  · obtain ⟨s, hr, hs⟩ := find_unlocked_torn_witness
    obtain ⟨id, hid⟩ := h _ s 0 1 _ hr hs
    simp [oneSlot, List.replicate] at hid
    omega
  · obtain ⟨s, hr, hs⟩ := insert_shared_torn_witness
    obtain ⟨id, hid⟩ := h _ s 0 1 _ hr hs
    simp [oneSlot, List.replicate] at hid
    omega
  · obtain ⟨s, hr, hs⟩ := clear_shared_torn_witness
    obtain ⟨id, hid⟩ := h _ s 0 1 _ hr hs
    simp [oneSlot, List.replicate] at hid

/-! ### non-vacuity -/

/-- the canonical discipline is ok, and so is the one with every lock exclusive (std::mutex) -/
example : Disc.canonical.ok = true ∧ (⟨.excl, false, .excl, .excl, .excl, .excl, .excl⟩ : Disc).ok = true := by decide

/-- two slots: keys 1, 2 share slot 0, key 3 lives in slot 1 -/
def twoSlots (L : Nat) : Cfg := ⟨L, 4294967295, fun k => if k = 3 then 1 else 0, [0, 1]⟩

/-- a reachable state of the canonical system with a finished, successful lookup while another reader
    is still inside its critical section -/
example : ∃ s, Reach Disc.canonical (twoSlots 2) s ∧ s.th 0 = .fDone 1 (some [(1, 0), (1, 0)]) := witness_of (n := 3)
  (as := insertActs 1 1 0 2 ++ [.fAcquire 0 1, .fAcquire 2 3, .fCheck 0, .fCopyWord 0, .fCopyWord 0, .fRelease 0])
  (by decide)

/-- two proxies miss on the same key, both evaluate (no lock held), both store: the second returns its
    own value; a third finds it -/
example : ∃ s, Reach Disc.canonical (twoSlots 1) s ∧ s.th 1 = .pDone 1 [(1, 8)] := witness_of (n := 2)
  (as := [.fAcquire 0 1, .fAcquire 1 1, .fCheck 0, .fCheck 1, .fRelease 0, .fRelease 1, .pMiss 0, .pMiss 1,
          .wAcquire 0 1 7, .wKey 0, .wWord 0, .wSeal 0, .wRelease 0,
          .wAcquire 1 1 8, .wKey 1, .wWord 1, .wSeal 1, .wRelease 1]) (by decide)

/-- a save that ran after a load and an insert into another slot wrote both entries -/
example : ∃ s, Reach Disc.canonical (twoSlots 1) s ∧ s.th 0 = .sDone [(2, [(2, 5)]), (3, [(3, 0)])] := witness_of (n := 2)
  (as := [.lAcquire 1 1 [(1, 4), (2, 5)] true, .lEntry 1, .lEntry 1, .lSeal 1, .lRelease 1] ++ insertActs 1 3 0 1 ++
         [.sAcquire 0, .sStart 0, .sSlot 0, .sSlot 0, .sEnd 0]) (by decide)

/-- an encoding of the keys 1 and 2 into C04's keys -/
def encEx : Enc where
  key := fun k => if k = 1 then ⟨1, 0⟩ else ⟨2, 0⟩
  fit := fun v => v.map (fun w => UInt64.ofNat (w.1 * 100000 + w.2))
  ok := fun k => k = 1 ∨ k = 2
  key_inj := by
    intro a b ha hb h
    rcases ha with ha | ha <;> rcases hb with hb | hb <;> subst ha <;> subst hb <;> first | rfl | (exact absurd h (by decide))
  key_ne0 := by
    intro a ha
    rcases ha with ha | ha <;> subst ha <;> decide

/-- … for which the hypotheses of `lookup_is_C04_sequential` are met by a reachable state with a finished
    lookup (insert 1, insert 2 into the same slot, clear(key 2) concurrently with the lookup of 1) -/
example : ∃ s, Reach Disc.canonical (twoSlots 1) s ∧ s.th 0 = .fDone 1 none ∧
    (∀ x, x ∈ s.lin → x.plain encEx) ∧ (twoSlots 1).M = 4294967295 := by
  obtain ⟨s, hr, hs⟩ : ∃ s, execs Disc.canonical (twoSlots 1) 2 (S.init (twoSlots 1))
      (insertActs 1 1 0 1 ++ insertActs 1 2 0 1 ++ [.fAcquire 0 1, .fCheck 0, .fRelease 0]) = some s ∧
      (s.th 0 = .fDone 1 none ∧ s.lin = [.find 0 1 none, .insert 1 2 0, .insert 1 1 0]) := by
    refine ⟨_, rfl, by decide, by decide⟩
  refine ⟨s, reach_of_execs hr, hs.1, ?_, rfl⟩
  intro x hx
  rw [hs.2] at hx
  simp only [List.mem_cons, List.not_mem_nil, or_false] at hx
  rcases hx with hx | hx | hx <;> subst hx <;> simp [Ev.plain, encEx]

/-- a legal history with a recorded lookup in the middle -/
example : replay (twoSlots 1) ([.clear 0] ++ .find 1 1 (some [(1, 0)]) :: [.insert 0 1 0]) ≠ none := by decide

end Vita.C15
