/-
  C15 — the fitness cache can be shared by threads: theorems about the lock protocol
  (statements in words: design/C15.md).

  By-value `find` (the code after `fix: cache::find returns the fitness by value`), for every
  interleaving of every number of threads and every value length `L`:
    step_inv               every atomic step preserves the protocol invariant `PInv`
    reach_pinv             hence `PInv` holds in every reachable state
    mutex_inv              a thread inside insert/clear excludes every other lock holder
    lookup_returns_stored  a finished lookup of `k` returned nothing or ONE COMPLETE value that some
                           insert stored under `k`  (no torn, no foreign value)
  `find` as it was written (reference handed out, lock released, caller copies):
    foreign_value_witness  a schedule on which the lookup of key 1 returns the value stored under key 2
    torn_value_witness     a schedule on which it returns a mixture of two values
    lookup_returns_stored_fails_for_reference   so the statement above is false for that variant
-/
import Vita.C15.Lemmas
import Vita.C15.Exec
namespace Vita.C15

theorem step_inv {s s' : S} (h : PInv s) (st : StepV s s') : PInv s' := stepV_inv h st

theorem reach_pinv {L : Nat} {s : S} (h : Reach StepV (S.init L) s) : PInv s := reach_inv h

/-- mutual exclusion, derived (the lock itself is specified, not implemented, in the model): in
    every reachable state a thread in an insert/clear critical section is alone -/
theorem mutex_inv {L : Nat} {s : S} (h : Reach StepV (S.init L) s) (t u : Tid) (htu : t ≠ u)
    (ht : (s.th t).isW = true) : (s.th u).holds = false :=
  (reach_inv h).excl t u htu ht

/-- **lookup_returns_stored** — every interleaving, every thread count, every `L` -/
theorem lookup_returns_stored {L : Nat} {s : S} (h : Reach StepV (S.init L) s) (t : Tid) (k : Key)
    (v : List Tok) (hd : s.th t = .fDone k (some v)) :
    ∃ id, (k, id) ∈ s.stored ∧ v = List.replicate L (k, id) := by
  have hp := reach_inv h
  have hL : s.L = L := by
    clear hd hp
    induction h with
    | refl => rfl
    | tail s s' _ st ih =>
      cases st with
      | common _ c => cases c <;> exact ih
      | fHit => exact ih
      | fCopyWord => exact ih
      | fRelease => exact ih
  have := hp.thr t
  rw [hd] at this
  simpa [TOK, hL] using this

/-- the tie: whatever sequence of actions the (by-value) driver executes from the initial state of `n`
    threads, the state it is in is reachable – so `lookup_returns_stored` covers the driver's answers -/
theorem driver_states_reachable {n L : Nat} (as : List Act) {s' : S}
    (h : execs false n (S.init L) as = some s') : Reach StepV (S.init L) s' :=
  (execs_reach Reach.refl (fun _ _ => rfl) as h).1

/-! ### the code as it was written: the reference outlives the lock -/

macro "lock_free" : tactic =>
  `(tactic| (intro u; dsimp only [upd, S.init]; (repeat' split) <;> rfl))

/-- thread 1 stores (1,0); thread 0 looks key 1 up and is handed the reference; thread 1 stores
    (2,0) into the same slot; thread 0 copies: it gets the value of key 2 -/
theorem foreign_value_witness :
    ∃ s, Reach StepR (S.init 1) s ∧ s.th 0 = .fDone 1 (some [(2, 0)]) := by
  have h0 : Reach StepR (S.init 1) (S.init 1) := Reach.refl
  have h1 := Reach.tail _ _ h0 (StepR.common _ _ (Common.wAcquire _ 1 1 0 rfl (by lock_free)))
  have h2 := Reach.tail _ _ h1 (StepR.common _ _ (Common.wKey _ 1 1 0 rfl))
  have h3 := Reach.tail _ _ h2 (StepR.common _ _ (Common.wWord _ 1 1 0 0 rfl (by decide)))
  have h4 := Reach.tail _ _ h3 (StepR.common _ _ (Common.wRelease _ 1 1 0 rfl))
  have h5 := Reach.tail _ _ h4 (StepR.common _ _ (Common.fAcquire _ 0 1 rfl (by lock_free)))
  have h6 := Reach.tail _ _ h5 (StepR.fHitRef _ 0 1 rfl rfl)
  have h7 := Reach.tail _ _ h6 (StepR.common _ _ (Common.wAcquire _ 1 2 0 rfl (by lock_free)))
  have h8 := Reach.tail _ _ h7 (StepR.common _ _ (Common.wKey _ 1 2 0 rfl))
  have h9 := Reach.tail _ _ h8 (StepR.common _ _ (Common.wWord _ 1 2 0 0 rfl (by decide)))
  have h10 := Reach.tail _ _ h9 (StepR.common _ _ (Common.wRelease _ 1 2 0 rfl))
  have h11 := Reach.tail _ _ h10 (StepR.rCopyWord _ 0 1 [] (2, 0) rfl rfl)
  have h12 := Reach.tail _ _ h11 (StepR.rDone _ 0 1 [(2, 0)] rfl rfl)
  exact ⟨_, h12, rfl⟩

/-- with two words: the reader copies one word of the old value, the writer overwrites both, the
    reader copies the second word – a value nobody stored -/
theorem torn_value_witness :
    ∃ s, Reach StepR (S.init 2) s ∧ s.th 0 = .fDone 1 (some [(1, 0), (1, 1)]) := by
  have h0 : Reach StepR (S.init 2) (S.init 2) := Reach.refl
  have h1 := Reach.tail _ _ h0 (StepR.common _ _ (Common.wAcquire _ 1 1 0 rfl (by lock_free)))
  have h2 := Reach.tail _ _ h1 (StepR.common _ _ (Common.wKey _ 1 1 0 rfl))
  have h3 := Reach.tail _ _ h2 (StepR.common _ _ (Common.wWord _ 1 1 0 0 rfl (by decide)))
  have h3' := Reach.tail _ _ h3 (StepR.common _ _ (Common.wWord _ 1 1 0 1 rfl (by decide)))
  have h4 := Reach.tail _ _ h3' (StepR.common _ _ (Common.wRelease _ 1 1 0 rfl))
  have h5 := Reach.tail _ _ h4 (StepR.common _ _ (Common.fAcquire _ 0 1 rfl (by lock_free)))
  have h6 := Reach.tail _ _ h5 (StepR.fHitRef _ 0 1 rfl rfl)
  have h6' := Reach.tail _ _ h6 (StepR.rCopyWord _ 0 1 [] (1, 0) rfl rfl)
  have h7 := Reach.tail _ _ h6' (StepR.common _ _ (Common.wAcquire _ 1 1 1 rfl (by lock_free)))
  have h8 := Reach.tail _ _ h7 (StepR.common _ _ (Common.wKey _ 1 1 1 rfl))
  have h9 := Reach.tail _ _ h8 (StepR.common _ _ (Common.wWord _ 1 1 1 0 rfl (by decide)))
  have h9' := Reach.tail _ _ h9 (StepR.common _ _ (Common.wWord _ 1 1 1 1 rfl (by decide)))
  have h11 := Reach.tail _ _ h9' (StepR.rCopyWord _ 0 1 [(1, 0)] (1, 1) rfl rfl)
  have h12 := Reach.tail _ _ h11 (StepR.rDone _ 0 1 [(1, 0), (1, 1)] rfl rfl)
  exact ⟨_, h12, rfl⟩

/-- the property fails for the reference variant -/
theorem lookup_returns_stored_fails_for_reference :
    ¬ ∀ (L : Nat) (s : S) (t : Tid) (k : Key) (v : List Tok), Reach StepR (S.init L) s →
        s.th t = .fDone k (some v) → ∃ id, v = List.replicate L (k, id) := by
  intro h
  obtain ⟨s, hr, hs⟩ := foreign_value_witness
  obtain ⟨id, hid⟩ := h 1 s 0 1 _ hr hs
  simp at hid

/-! ### non-vacuity: a reachable state of the by-value system with a finished, successful lookup
    while another reader is still inside its critical section -/
example : ∃ s, Reach StepV (S.init 1) s ∧ s.th 0 = .fDone 1 (some [(1, 0)]) ∧ s.th 2 = .fLocked 1 := by
  have h0 : Reach StepV (S.init 1) (S.init 1) := Reach.refl
  have h1 := Reach.tail _ _ h0 (StepV.common _ _ (Common.wAcquire _ 1 1 0 rfl (by lock_free)))
  have h2 := Reach.tail _ _ h1 (StepV.common _ _ (Common.wKey _ 1 1 0 rfl))
  have h3 := Reach.tail _ _ h2 (StepV.common _ _ (Common.wWord _ 1 1 0 0 rfl (by decide)))
  have h4 := Reach.tail _ _ h3 (StepV.common _ _ (Common.wRelease _ 1 1 0 rfl))
  have h5 := Reach.tail _ _ h4 (StepV.common _ _ (Common.fAcquire _ 0 1 rfl (by lock_free)))
  have h5' := Reach.tail _ _ h5 (StepV.common _ _ (Common.fAcquire _ 2 1 rfl (by lock_free)))
  have h6 := Reach.tail _ _ h5' (StepV.fHit _ 0 1 rfl rfl)
  have h7 := Reach.tail _ _ h6 (StepV.fCopyWord _ 0 1 [] (1, 0) rfl rfl)
  have h8 := Reach.tail _ _ h7 (StepV.fRelease _ 0 1 [(1, 0)] rfl rfl)
  exact ⟨_, h8, rfl, rfl⟩

end Vita.C15
