/-
  C16 — the extracted container programs (Tables.lean = Gen.lean by `decide`, see Props.lean) mean what
  the list model says: running them on the abstract machine of Interp.lean gives exactly
  `holdoutInit`, `moveToValidation`, `shakeImpl`, `dssInit`, `dssShake`, `dssClose`.
-/
import Vita.C16.Interp
import Vita.C16.Tables
import Vita.C16.Lemmas
namespace Vita.C16
open IxE BE Op0 Op

/-- machine state at the entry of a strategy call -/
def M.enter {α} (s : Sets α) (rng clT clV : Nat) (sch : Nat × Nat) : M α :=
  ⟨s.tr, s.va, [], rng, clT, clV, none, sch⟩

/-- the draw used in the iteration with index `i` of a shuffle over `n` elements that starts at stream
    position `rng`: the raw value reduced modulo `i + 1` -/
def drawOf (env : Env) (rng n : Nat) : Nat → Nat := fun i => env.draws (rng + (n - 1 - i)) % (i + 1)

theorem shuffleTail_congr {α} (d d' : Nat → Nat) (k i : Nat) (l : List α)
    (h : ∀ j, j ≤ i → d j = d' j) : shuffleTail d k i l = shuffleTail d' k i l := by
  induction k generalizing i l with
  | zero => rfl
  | succ k ih =>
    simp only [shuffleTail]
    rw [h i (Nat.le_refl _)]
    exact ih _ _ (fun j hj => h j (by omega))

/-! ### arithmetic without wrap-around under the documented preconditions -/

theorem subW_of_le (w x y : Nat) (hx : x < 2 ^ w) (hy : y ≤ x) : subW w x y = x - y := by
  unfold subW
  have hy' : y % 2 ^ w = y := Nat.mod_eq_of_lt (by omega)
  rw [Nat.mod_eq_of_lt hx, hy']
  have : 2 ^ w + x - y = (x - y) + 2 ^ w := by omega
  rw [this, Nat.add_mod_right]
  exact Nat.mod_eq_of_lt (by omega)

theorem addW_of_lt (w x y : Nat) (h : x + y < 2 ^ w) : addW w x y = x + y := Nat.mod_eq_of_lt h
theorem mulW_of_lt (w x y : Nat) (h : x * y < 2 ^ w) : mulW w x y = x * y := Nat.mod_eq_of_lt h

theorem decr64_pos (v : Nat) (h0 : 0 < v) (h : v < 2 ^ 64) : decr64 v = v - 1 := by
  unfold decr64; omega

/-- `max(available * (100 - perc) / 100, 1)` in machine arithmetic = `skipOf` -/
theorem skip_machine (n p : Nat) (hp : p < 100) (hsz : n * 100 < 2 ^ 64) :
    Nat.max (mulW 64 n (subW 32 100 p) / 100) 1 = skipOf n p := by
  rw [subW_of_le 32 100 p (by omega) (by omega)]
  rw [mulW_of_lt]
  · rfl
  · have : n * (100 - p) ≤ n * 100 := Nat.mul_le_mul_left _ (by omega)
    omega

/-! ### `dataframe::clone_schema` -/

/-- `clone_schema` moves no example: whatever the two frames named, both example lists (hence their
    multisets), the draw counter, the evaluator counters, the locals and the return status are untouched;
    only the abstract schema changes. -/
theorem cloneSchema_frames {α} (ops : ElemOps α) (cf : CallFn α) (env : Env) (arg : Option Cont) (d s : Cont)
    (m m' : M α) (h : exec0 ops cf env arg (.cloneSchema d s) m = some m') :
    m'.tr = m.tr ∧ m'.va = m.va ∧ m'.loc = m.loc ∧ m'.rng = m.rng ∧ m'.clT = m.clT ∧ m'.clV = m.clV ∧
    m'.ret = m.ret := by
  simp only [exec0, Option.bind_eq_bind] at h
  cases hs : m.getSch arg s with
  | none => simp [hs] at h
  | some v =>
    simp only [hs, Option.bind_some] at h
    have key : ∀ w, (m.putSch arg d v = some w) → w.tr = m.tr ∧ w.va = m.va ∧ w.loc = m.loc ∧ w.rng = m.rng ∧
        w.clT = m.clT ∧ w.clV = m.clV ∧ w.ret = m.ret := by
      intro w hw
      unfold M.putSch at hw
      split at hw
      · cases hw; simp
      · cases hw; simp
      · split at hw
        · cases hw; simp
        · cases hw; simp
        · cases hw
    exact key m' h

/-- `validation_.clone_schema(training_)`: afterwards the validation frame has the training frame's schema -/
theorem cloneSchema_va_tr {α} (ops : ElemOps α) (cf : CallFn α) (env : Env) (arg : Option Cont) (m : M α) :
    exec0 ops cf env arg (.cloneSchema .va .tr) m = some { m with sch := (m.sch.1, m.sch.1) } := by
  simp [exec0, M.getSch, M.putSch]

/-! ### hold-out -/

theorem lookup_filter_ne (x y : String) (l : List (String × Nat)) (h : (y == x) = false) :
    List.lookup y (l.filter (fun p => p.1 != x)) = List.lookup y l := by
  induction l with
  | nil => rfl
  | cons p l ih =>
    by_cases hp : p.1 = x
    · obtain ⟨a, b⟩ := p
      simp only at hp
      subst hp
      simp [List.filter, List.lookup, h, ih]
    · obtain ⟨a, b⟩ := p
      have hpx : (a != x) = true := by simpa using hp
      simp only [List.filter, hpx, List.lookup]
      rw [ih]

theorem lookup_setLoc {α} (m : M α) (x y : String) (v : Nat) :
    List.lookup y (m.setLoc x v).loc = if y == x then some v else List.lookup y m.loc := by
  unfold M.setLoc
  by_cases h : (y == x) = true
  · simp [List.lookup, h]
  · have h' : (y == x) = false := by simpa using h
    simp only [List.lookup, h', Bool.false_eq_true, if_false]
    exact lookup_filter_ne x y m.loc h'

@[simp] theorem setLoc_tr {α} (m : M α) (x v) : (m.setLoc x v).tr = m.tr := rfl
@[simp] theorem setLoc_va {α} (m : M α) (x v) : (m.setLoc x v).va = m.va := rfl
@[simp] theorem setLoc_rng {α} (m : M α) (x v) : (m.setLoc x v).rng = m.rng := rfl
@[simp] theorem setLoc_clT {α} (m : M α) (x v) : (m.setLoc x v).clT = m.clT := rfl
@[simp] theorem setLoc_clV {α} (m : M α) (x v) : (m.setLoc x v).clV = m.clV := rfl
@[simp] theorem setLoc_ret {α} (m : M α) (x v) : (m.setLoc x v).ret = m.ret := rfl
@[simp] theorem setLoc_sch {α} (m : M α) (x v) : (m.setLoc x v).sch = m.sch := rfl

def swapBody : List Op0 :=
  [set "curr" (var "i"), set "rand" (sup (add 64 (var "i") (lit 1))), swap .tr (var "curr") (var "rand")]

/-- one iteration of the body: `curr = begin + i; rand = begin + sup(i + 1); iter_swap(curr, rand)` -/
theorem swapBody_step {α} (ops : ElemOps α) (cf : CallFn α) (env : Env) (m : M α) (v : Nat)
    (hi : m.loc.lookup "i" = some v) (hv : v < m.tr.length) (hl : m.tr.length < 2 ^ 64) (hr : m.ret = none) :
    ∃ m', exec0s ops cf env none swapBody m = some m' ∧
      m'.tr = swapAt m.tr v (env.draws m.rng % (v + 1)) ∧ m'.va = m.va ∧ m'.rng = m.rng + 1 ∧
      m'.clT = m.clT ∧ m'.clV = m.clV ∧ m'.ret = none ∧
      m'.loc.lookup "i" = some v ∧ m'.loc.lookup "skip" = m.loc.lookup "skip" ∧ m'.sch = m.sch := by
  have hv1 : addW 64 v 1 = v + 1 := addW_of_lt _ _ _ (by omega)
  have hdl : env.draws m.rng % (v + 1) < m.tr.length := by
    have := Nat.mod_lt (env.draws m.rng) (show 0 < v + 1 by omega); omega
  simp [swapBody, exec0s, exec0, evalIx, hi, hr, M.setRng, lookup_setLoc, hv1, M.get, M.put, hv, hdl]

/-- the partial Fisher–Yates loop of the table is `shuffleTail` -/
theorem loop_shuffle {α} (ops : ElemOps α) (cf : CallFn α) (env : Env) (t : Nat) :
    ∀ (v k : Nat) (m : M α) (fuel : Nat),
      t = v + 1 - k → 1 ≤ k → v < m.tr.length → m.tr.length < 2 ^ 64 → t + 1 ≤ fuel →
      m.loc.lookup "i" = some v → m.loc.lookup "skip" = some k → m.ret = none →
      ∃ m', loopDown ops cf env none "i" (ge (var "i") (var "skip")) swapBody fuel m = some m' ∧
        m'.tr = shuffleTail (fun i => env.draws (m.rng + (v - i)) % (i + 1)) t v m.tr ∧
        m'.va = m.va ∧ m'.rng = m.rng + t ∧ m'.clT = m.clT ∧ m'.clV = m.clV ∧ m'.ret = none ∧
        m'.loc.lookup "skip" = some k ∧ m'.sch = m.sch := by
  induction t with
  | zero =>
    intro v k m fuel ht hk hv hl hf hi hskip hr
    obtain ⟨f, rfl⟩ : ∃ f, fuel = f + 1 := ⟨fuel - 1, by omega⟩
    have hlt : ¬ (v ≥ k) := by omega
    refine ⟨m, ?_, rfl, rfl, rfl, rfl, rfl, hr, hskip, rfl⟩
    simp [loopDown, evalB, evalIx, hi, hskip, hlt, M.setRng, hr]
    cases m; simp_all
  | succ t ih =>
    intro v k m fuel ht hk hv hl hf hi hskip hr
    obtain ⟨f, rfl⟩ : ∃ f, fuel = f + 1 := ⟨fuel - 1, by omega⟩
    have hge : v ≥ k := by omega
    obtain ⟨m1, hb, h1tr, h1va, h1rng, h1clT, h1clV, h1ret, h1i, h1skip, h1sch⟩ :=
      swapBody_step ops cf env m v hi hv hl hr
    have hdec : decr64 v = v - 1 := decr64_pos v (by omega) (by omega)
    have hm : (m.setRng m.rng) = m := rfl
    obtain ⟨m2, h2, h2tr, h2va, h2rng, h2clT, h2clV, h2ret, h2skip, h2sch⟩ :=
      ih (v - 1) k (m1.setLoc "i" (v - 1)) f (by omega) hk
        (by simp [h1tr, swapAt_length]; omega) (by simp [h1tr, swapAt_length]; exact hl) (by omega)
        (by simp [lookup_setLoc]) (by simp [lookup_setLoc, h1skip, hskip]) (by simp [h1ret])
    refine ⟨m2, ?_, ?_, ?_, ?_, ?_, ?_, h2ret, h2skip, by simp [h2sch, h1sch]⟩
    · rw [loopDown]
      simp [evalB, evalIx, hi, hskip, hge, hr, hm, hb, h1i, hdec, h2]
    · rw [h2tr]
      simp only [setLoc_tr, setLoc_rng, h1tr, h1rng, shuffleTail, Nat.sub_self, Nat.add_zero]
      apply shuffleTail_congr
      intro j hj
      have : m.rng + 1 + (v - 1 - j) = m.rng + (v - j) := by omega
      simp only [this]
    · simp [h2va, h1va]
    · simp [h2rng, h1rng]; omega
    · simp [h2clT, h1clT]
    · simp [h2clV, h1clV]
/-- run 0: the table computes `holdoutInit` on the draws `drawOf`, consumes one raw value per swap and
    clears the training evaluator iff it was given one -/
theorem holdout_bridge0 {α} (ops : ElemOps α) (env : Env) (s : Sets α) (rng clT clV : Nat) (sch : Nat × Nat)
    (hp : env.perc < 100) (hn : 1 ≤ s.tr.length) (hsz : s.tr.length * 100 < 2 ^ 64) :
    ∃ loc, runFn ops Tables.prog env 1 .holdoutInit [("run", 0)] none (M.enter s rng clT clV sch) =
      some ⟨(holdoutInit (drawOf env rng s.tr.length) env.perc 0 s).tr,
            (holdoutInit (drawOf env rng s.tr.length) env.perc 0 s).va, loc,
            rng + (s.tr.length - skipOf s.tr.length env.perc),
            clT + (if env.hasEvaT then 1 else 0), clV, none, (sch.1, sch.1)⟩ := by
  have hk := skip_machine s.tr.length env.perc hp hsz
  have hsub : subW 64 s.tr.length 1 = s.tr.length - 1 := subW_of_le _ _ _ (by omega) hn
  have hle := skipOf_le s.tr.length env.perc hn
  have hpos := skipOf_pos s.tr.length env.perc
  simp [runFn, Tables.prog, Tables.holdoutInit, execOps, execOp, evalB, evalIx, M.enter, List.lookup,
    exec0s, exec0, M.setRng, M.setLoc, M.get, hk, hsub]
  obtain ⟨m', hloop, htr, hva, hrng, hclT, hclV, hret, hskip, hsch⟩ :=
    loop_shuffle ops (fun _ _ _ => none) env (s.tr.length - skipOf s.tr.length env.perc)
      (s.tr.length - 1) (skipOf s.tr.length env.perc)
      ⟨s.tr, s.va, [("i", s.tr.length - 1), ("skip", skipOf s.tr.length env.perc), ("available", s.tr.length),
        ("perc", env.perc), ("run", 0)], rng, clT, clV, none, sch⟩ (s.tr.length - 1 + 2)
      (by omega) hpos (by simp; omega) (by simp; omega) (by omega) (by simp [List.lookup])
      (by simp [List.lookup]) rfl
  rw [swapBody] at hloop
  rw [hloop]
  have hd : (fun i => env.draws (rng + (s.tr.length - 1 - i)) % (i + 1)) = drawOf env rng s.tr.length := rfl
  simp only [hd] at htr
  have hlen := (shuffleTail_perm (drawOf env rng s.tr.length) (s.tr.length - skipOf s.tr.length env.perc)
    (s.tr.length - 1) s.tr).length_eq
  simp only [holdoutInit]
  generalize shuffleTail (drawOf env rng s.tr.length) (s.tr.length - skipOf s.tr.length env.perc)
    (s.tr.length - 1) s.tr = sh at hlen htr ⊢
  have htk : List.take (s.tr.length - skipOf s.tr.length env.perc) (List.drop (skipOf s.tr.length env.perc) sh)
      = List.drop (skipOf s.tr.length env.perc) sh := List.take_of_length_le (by simp; omega)
  obtain ⟨tr', va', loc', rng', clT', clV', ret', sch'⟩ := m'
  simp only at htr hva hrng hclT hclV hret hskip hsch
  subst htr hva hrng hclT hclV hret hsch
  cases hE : env.hasEvaT <;>
    simp [hskip, lookup_setLoc, M.put, M.setLoc, List.lookup, hlen, hle, htk, M.getSch, M.putSch]

/-- later runs: nothing happens (the `return` is reached before anything else) -/
theorem holdout_bridge_later {α} (ops : ElemOps α) (env : Env) (run : Nat) (s : Sets α) (rng clT clV : Nat)
    (sch : Nat × Nat) (hrun : 0 < run) :
    ∃ loc, runFn ops Tables.prog env 1 .holdoutInit [("run", run)] none (M.enter s rng clT clV sch) =
      some ⟨s.tr, s.va, loc, rng, clT, clV, some none, sch⟩ := by
  simp [runFn, Tables.prog, Tables.holdoutInit, execOps, execOp, evalB, evalIx, M.enter, List.lookup, hrun,
    exec0s, exec0, M.setRng]

/-! ### dynamic subset selection -/

theorem run_reset_tr (env : Env) (k : Nat) (m : M Ex) :
    runFn exOps Tables.prog env (k + 1) .resetAgeDifficulty [] (some .tr) m =
      some { m with tr := resetAD m.tr, loc := [], ret := none } := by
  simp [runFn, Tables.prog, Tables.resetAgeDifficulty, execOps, execOp, exec0, M.get, M.put, applyFn, exOps, resetAD]

theorem run_reset_va (env : Env) (k : Nat) (m : M Ex) :
    runFn exOps Tables.prog env (k + 1) .resetAgeDifficulty [] (some .va) m =
      some { m with va := resetAD m.va, loc := [], ret := none } := by
  simp [runFn, Tables.prog, Tables.resetAgeDifficulty, execOps, execOp, exec0, M.get, M.put, applyFn, exOps, resetAD]

theorem run_clear (env : Env) (k : Nat) (m : M Ex) :
    runFn exOps Tables.prog env (k + 1) .clearEvaluators [] none m =
      some { m with clT := m.clT + 1, clV := m.clV + 1, loc := [], ret := none } := by
  simp [runFn, Tables.prog, Tables.clearEvaluators, execOps, execOp, exec0]

/-- the metadata after `move_to_validation`: an empty validation frame that is about to receive examples
    takes the schema of the training frame -/
def schMove {α} (m : M α) : Nat × Nat :=
  if m.va.isEmpty && !m.tr.isEmpty then (m.sch.1, m.sch.1) else m.sch

theorem run_move (env : Env) (k : Nat) (m : M Ex) :
    runFn exOps Tables.prog env (k + 1) .moveToValidation [] none m =
      some { m with tr := [], va := m.va ++ m.tr, loc := [], ret := none, sch := schMove m } := by
  cases hc : (m.va.isEmpty && !m.tr.isEmpty) <;>
    simp [runFn, Tables.prog, Tables.moveToValidation, execOps, execOp, exec0, exec0s, M.get, M.put, evalIx, evalB,
      M.setRng, M.getSch, M.putSch, schMove, hc] <;> simp_all



theorem call_move (env : Env) (k : Nat) (m : M Ex) :
    callAt exOps Tables.prog env (k + 1) .moveToValidation none m =
      some { m with tr := [], va := m.va ++ m.tr, sch := schMove m } := by
  simp [callAt, run_move]

theorem call_reset_tr (env : Env) (k : Nat) (m : M Ex) :
    callAt exOps Tables.prog env (k + 1) .resetAgeDifficulty (some .tr) m =
      some { m with tr := resetAD m.tr } := by
  simp [callAt, run_reset_tr]

theorem call_reset_va (env : Env) (k : Nat) (m : M Ex) :
    callAt exOps Tables.prog env (k + 1) .resetAgeDifficulty (some .va) m =
      some { m with va := resetAD m.va } := by
  simp [callAt, run_reset_va]

theorem call_clear (env : Env) (k : Nat) (m : M Ex) :
    callAt exOps Tables.prog env (k + 1) .clearEvaluators none m =
      some { m with clT := m.clT + 1, clV := m.clV + 1 } := by
  simp [callAt, run_clear]


def pivotOf (ts : Nat → Nat) (parted : List (Ex × Bool)) : Nat :=
  if parted.countP (fun x => !x.2) = 0 ∨ parted.countP (fun x => !x.2) = parted.length then ts parted.length
  else parted.countP (fun x => !x.2)

theorem shakeImpl_parted (P : Partitioner) (ts sel) (s : St) (parted : List (Ex × Bool))
    (h : parted = P.run (fun (x : Ex × Bool) => !x.2) ((s.va ++ s.tr).zipIdx.map fun x => (x.1, sel x.2))) :
    shakeImpl P ts sel s =
      ⟨resetAD ((parted.map (·.1)).drop (pivotOf ts parted)), (parted.map (·.1)).take (pivotOf ts parted)⟩ := by
  subst h; rfl

theorem run_shakeImpl (env : Env) (k : Nat) (m : M Ex)
    (hts : env.ts (m.va.length + m.tr.length) ≤ m.va.length + m.tr.length) :
    ∃ loc, runFn exOps Tables.prog env (k + 2) .shakeImpl [] none m =
      some { m with tr := (shakeImpl env.P env.ts env.sel ⟨m.tr, m.va⟩).tr,
                    va := (shakeImpl env.P env.ts env.sel ⟨m.tr, m.va⟩).va, loc := loc, ret := none,
                    sch := schMove m } := by
  rw [runFn_succ]
  simp [Tables.prog, Tables.shakeImpl, execOps, execOp, exec0, call_move, call_reset_tr, M.get, M.put, M.setLoc,
    evalB, evalIx, List.lookup, M.setRng, exec0s]
  have hperm := env.P.perm (fun (y : Ex × Bool) => !y.2)
    (List.map (fun x => (x.fst, env.sel x.snd)) (m.va ++ m.tr).zipIdx)
  have hlen := hperm.length_eq
  simp only [List.length_map, List.length_zipIdx, List.length_append] at hlen
  clear hperm
  obtain ⟨parted, hpt⟩ : ∃ p, p = env.P.run (fun (y : Ex × Bool) => !y.snd)
      (List.map (fun x => (x.fst, env.sel x.snd)) (m.va ++ m.tr).zipIdx) := ⟨_, rfl⟩
  rw [shakeImpl_parted env.P env.ts env.sel ⟨m.tr, m.va⟩ parted hpt]
  rw [← hpt] at hlen ⊢
  have hc : List.countP (fun (y : Ex × Bool) => !y.2) parted ≤ parted.length := List.countP_le_length
  rw [← hlen] at hts
  unfold pivotOf
  by_cases h0 : List.countP (fun (y : Ex × Bool) => !y.2) parted = 0
  · simp [List.lookup, hts, List.take_of_length_le, h0]; rfl
  · by_cases h1 : List.countP (fun (y : Ex × Bool) => !y.2) parted = parted.length
    · simp [h0, h1, List.lookup, hts, List.take_of_length_le]; rfl
    · simp [h0, h1, List.lookup, hc, List.take_of_length_le]; rfl

theorem call_shakeImpl (env : Env) (k : Nat) (m : M Ex)
    (hts : env.ts (m.va.length + m.tr.length) ≤ m.va.length + m.tr.length) :
    callAt exOps Tables.prog env (k + 2) .shakeImpl none m =
      some { m with tr := (shakeImpl env.P env.ts env.sel ⟨m.tr, m.va⟩).tr,
                    va := (shakeImpl env.P env.ts env.sel ⟨m.tr, m.va⟩).va, sch := schMove m } := by
  obtain ⟨loc, h⟩ := run_shakeImpl env k m hts
  simp [callAt, h]

/-- what a strategy call leaves behind, read off the machine state -/
def M.res (m : M Ex) (clT0 : Nat) : Res := ⟨⟨m.tr, m.va⟩, m.ret == some (some true), m.clT - clT0⟩

theorem dssInit_bridge (env : Env) (run : Nat) (s : St) (rng clT clV : Nat) (sch : Nat × Nat)
    (hts : env.ts (s.va.length + s.tr.length) ≤ s.va.length + s.tr.length) :
    ∃ loc sch', runFn exOps Tables.prog env 3 .dssInit [("run", run)] none (M.enter s rng clT clV sch) =
      some ⟨(dssInit env.P env.ts env.sel s).st.tr, (dssInit env.P env.ts env.sel s).st.va, loc, rng,
            clT + 1, clV + 1, none, sch'⟩ := by
  rw [runFn_succ]
  have h := call_shakeImpl env 0 ⟨resetAD s.tr, resetAD s.va, [("run", run)], rng, clT, clV, none, sch⟩
    (by simpa [resetAD_length] using hts)
  simp [Tables.prog, Tables.dssInit, execOps, execOp, exec0, call_reset_tr, call_reset_va, call_clear, M.enter, h,
    dssInit]

theorem dssClose_bridge (env : Env) (run : Nat) (s : St) (rng clT clV : Nat) (sch : Nat × Nat) :
    ∃ loc sch', runFn exOps Tables.prog env 2 .dssClose [("run", run)] none (M.enter s rng clT clV sch) =
      some ⟨(dssClose s).st.tr, (dssClose s).st.va, loc, rng, clT + 1, clV + 1, none, sch'⟩ := by
  rw [runFn_succ]
  simp [Tables.prog, Tables.dssClose, execOps, execOp, exec0, call_move, call_clear, M.enter, dssClose,
    moveToValidation]

theorem dssShake_bridge_skip (env : Env) (g : Nat) (s : St) (rng clT clV : Nat) (sch : Nat × Nat)
    (h : g = 0 ∨ (0 < env.gap ∧ g % env.gap ≠ 0)) :
    ∃ loc, runFn exOps Tables.prog env 3 .dssShake [("generation", g)] none (M.enter s rng clT clV sch) =
      some ⟨s.tr, s.va, loc, rng, clT, clV, some (some false), sch⟩ := by
  rw [runFn_succ]
  rcases h with h | ⟨hg, h⟩
  · simp [Tables.prog, Tables.dssShake, execOps, execOp, exec0, exec0s, M.enter, evalB, evalIx, List.lookup,
      M.setLoc, M.setRng, h]
  · by_cases h0 : g = 0
    · simp [Tables.prog, Tables.dssShake, execOps, execOp, exec0, exec0s, M.enter, evalB, evalIx, List.lookup,
        M.setLoc, M.setRng, h0]
    · have : env.gap ≠ 0 := by omega
      simp [Tables.prog, Tables.dssShake, execOps, execOp, exec0, exec0s, M.enter, evalB, evalIx, List.lookup,
        M.setLoc, M.setRng, h0, h, this]

theorem dssShake_bridge_reshuffle (env : Env) (g : Nat) (s : St) (rng clT clV : Nat) (sch : Nat × Nat)
    (hg : g ≠ 0) (hgap : 0 < env.gap) (hd : g % env.gap = 0)
    (hts : env.ts (s.va.length + s.tr.length) ≤ s.va.length + s.tr.length) :
    ∃ loc sch', runFn exOps Tables.prog env 3 .dssShake [("generation", g)] none (M.enter s rng clT clV sch) =
      some ⟨(shakeImpl env.P env.ts env.sel ⟨incAge s.tr, incAge s.va⟩).tr,
            (shakeImpl env.P env.ts env.sel ⟨incAge s.tr, incAge s.va⟩).va, loc, rng,
            clT + 1, clV + 1, some (some true), sch'⟩ := by
  rw [runFn_succ]
  have hne : env.gap ≠ 0 := by omega
  have h := call_shakeImpl env 0 ⟨incAge s.tr, incAge s.va, [("gap", env.gap), ("generation", g)], rng, clT, clV, none, sch⟩
    (by simpa [incAge] using hts)
  have ea : applyFn exOps .incAge = Ex.older := rfl
  have e1 : ∀ l, List.map Ex.older l = incAge l := fun _ => rfl
  simp only [Nat.zero_add] at h
  simp [Tables.prog, Tables.dssShake, execOps, execOp, exec0, exec0s, M.enter, evalB, evalIx, List.lookup,
    M.setLoc, M.setRng, hg, hd, hne, M.get, M.put, ea, e1, h, call_clear]
end Vita.C16
