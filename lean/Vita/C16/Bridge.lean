/-
  C16 — the extracted container programs (Tables.lean = Gen.lean by `decide`, see Props.lean) mean what
  the list model says: running them on the abstract machine of Interp.lean gives exactly
  `holdoutInit`, `moveToValidation`, `shakeImpl`, `dssInit`, `dssShake`, `dssClose`.
-/
import Vita.C16.Interp
import Vita.C16.Tables
import Vita.C16.Lemmas
namespace Vita.C16
open IxE BE Op0 Op

/-- machine state at the entry of a strategy call -/
def M.enter {α} (s : Sets α) (rng clT clV : Nat) : M α := ⟨s.tr, s.va, [], rng, clT, clV, none⟩

/-- the draw used in the iteration with index `i` of a shuffle over `n` elements that starts at stream
    position `rng`: the raw value reduced modulo `i + 1` -/
def drawOf (env : Env) (rng n : Nat) : Nat → Nat := fun i => env.draws (rng + (n - 1 - i)) % (i + 1)

theorem shuffleTail_congr {α} (d d' : Nat → Nat) (k i : Nat) (l : List α)
    (h : ∀ j, j ≤ i → d j = d' j) : shuffleTail d k i l = shuffleTail d' k i l := by
  induction k generalizing i l with
  | zero => rfl
  | succ k ih =>
    simp only [shuffleTail]
    rw [h i (Nat.le_refl _)]
    exact ih _ _ (fun j hj => h j (by omega))

/-! ### arithmetic without wrap-around under the documented preconditions -/

theorem subW_of_le (w x y : Nat) (hx : x < 2 ^ w) (hy : y ≤ x) : subW w x y = x - y := by
  unfold subW
  have hy' : y % 2 ^ w = y := Nat.mod_eq_of_lt (by omega)
  rw [Nat.mod_eq_of_lt hx, hy']
  have : 2 ^ w + x - y = (x - y) + 2 ^ w := by omega
  rw [this, Nat.add_mod_right]
  exact Nat.mod_eq_of_lt (by omega)

theorem addW_of_lt (w x y : Nat) (h : x + y < 2 ^ w) : addW w x y = x + y := Nat.mod_eq_of_lt h
theorem mulW_of_lt (w x y : Nat) (h : x * y < 2 ^ w) : mulW w x y = x * y := Nat.mod_eq_of_lt h

theorem decr64_pos (v : Nat) (h0 : 0 < v) (h : v < 2 ^ 64) : decr64 v = v - 1 := by
  unfold decr64; omega

/-- `max(available * (100 - perc) / 100, 1)` in machine arithmetic = `skipOf` -/
theorem skip_machine (n p : Nat) (hp : p < 100) (hsz : n * 100 < 2 ^ 64) :
    Nat.max (mulW 64 n (subW 32 100 p) / 100) 1 = skipOf n p := by
  rw [subW_of_le 32 100 p (by omega) (by omega)]
  rw [mulW_of_lt]
  · rfl
  · have : n * (100 - p) ≤ n * 100 := Nat.mul_le_mul_left _ (by omega)
    omega

/-! ### hold-out -/

def swapBody : List Op0 := [swap .tr (var "i") (sup (add 64 (var "i") (lit 1)))]

/-- the partial Fisher–Yates loop of the table is `shuffleTail` -/
theorem loop_shuffle {α} (ops : ElemOps α) (cf : CallFn α) (env : Env) (t : Nat) :
    ∀ (v k : Nat) (l va : List α) (rest : List (String × Nat)) (rng clT clV fuel : Nat),
      t = v + 1 - k → 1 ≤ k → v < l.length → l.length < 2 ^ 64 → t + 1 ≤ fuel →
      rest.filter (fun p => p.1 != "i") = rest → rest.lookup "skip" = some k →
      loopDown ops cf env none "i" (ge (var "i") (var "skip")) swapBody fuel
        ⟨l, va, ("i", v) :: rest, rng, clT, clV, none⟩ =
      some ⟨shuffleTail (fun i => env.draws (rng + (v - i)) % (i + 1)) t v l, va,
            ("i", v - t) :: rest, rng + t, clT, clV, none⟩ := by
  induction t with
  | zero =>
    intro v k l va rest rng clT clV fuel ht hk hv hl hf hrest hskip
    obtain ⟨f, rfl⟩ : ∃ f, fuel = f + 1 := ⟨fuel - 1, by omega⟩
    have hlt : ¬ (v ≥ k) := by omega
    simp [loopDown, evalB, evalIx, List.lookup, hskip, hlt, M.setRng, shuffleTail]
  | succ t ih =>
    intro v k l va rest rng clT clV fuel ht hk hv hl hf hrest hskip
    obtain ⟨f, rfl⟩ : ∃ f, fuel = f + 1 := ⟨fuel - 1, by omega⟩
    have hge : v ≥ k := by omega
    have hv1 : addW 64 v 1 = v + 1 := addW_of_lt _ _ _ (by omega)
    have hdl : env.draws rng % (v + 1) < l.length := by
      have := Nat.mod_lt (env.draws rng) (show 0 < v + 1 by omega); omega
    have hdec : decr64 v = v - 1 := decr64_pos v (by omega) (by omega)
    simp [loopDown, evalB, evalIx, List.lookup, hskip, hge, M.setRng, swapBody, exec0s, exec0, M.get,
      M.put, M.setLoc, hv1, hv, hdl, hrest, hdec, shuffleTail]
    have := ih (v - 1) k (swapAt l v (env.draws rng % (v + 1))) va rest (rng + 1) clT clV f
      (by omega) hk (by rw [swapAt_length]; omega) (by rw [swapAt_length]; exact hl) (by omega) hrest hskip
    rw [swapBody] at this
    rw [this]
    have e1 : v - 1 - t = v - (t + 1) := by omega
    have e2 : rng + 1 + t = rng + (t + 1) := by omega
    have e3 : shuffleTail (fun i => env.draws (rng + 1 + (v - 1 - i)) % (i + 1)) t (v - 1)
        (swapAt l v (env.draws rng % (v + 1))) =
        shuffleTail (fun i => env.draws (rng + (v - i)) % (i + 1)) t (v - 1)
        (swapAt l v (env.draws rng % (v + 1))) := by
      apply shuffleTail_congr
      intro j hj
      have : rng + 1 + (v - 1 - j) = rng + (v - j) := by omega
      simp only [this]
    rw [e1, e2, e3]

/-- run 0: the table computes `holdoutInit` on the draws `drawOf`, consumes one raw value per swap and
    clears the training evaluator iff it was given one -/
theorem holdout_bridge0 {α} (ops : ElemOps α) (env : Env) (s : Sets α) (rng clT clV : Nat)
    (hp : env.perc < 100) (hn : 1 ≤ s.tr.length) (hsz : s.tr.length * 100 < 2 ^ 64) :
    ∃ loc, runFn ops Tables.prog env 1 .holdoutInit [("run", 0)] none (M.enter s rng clT clV) =
      some ⟨(holdoutInit (drawOf env rng s.tr.length) env.perc 0 s).tr,
            (holdoutInit (drawOf env rng s.tr.length) env.perc 0 s).va, loc,
            rng + (s.tr.length - skipOf s.tr.length env.perc),
            clT + (if env.hasEvaT then 1 else 0), clV, none⟩ := by
  have hk := skip_machine s.tr.length env.perc hp hsz
  have hsub : subW 64 s.tr.length 1 = s.tr.length - 1 := subW_of_le _ _ _ (by omega) hn
  simp [runFn, Tables.prog, Tables.holdoutInit, execOps, execOp, evalB, evalIx, M.enter, List.lookup,
    exec0s, exec0, M.setRng, M.setLoc, M.get, hk, hsub]
  have hle := skipOf_le s.tr.length env.perc hn
  have hpos := skipOf_pos s.tr.length env.perc
  have hloop := loop_shuffle ops (fun g a m' => none) env (s.tr.length - skipOf s.tr.length env.perc)
    (s.tr.length - 1) (skipOf s.tr.length env.perc) s.tr s.va
    [("skip", skipOf s.tr.length env.perc), ("available", s.tr.length), ("perc", env.perc), ("run", 0)]
    rng clT clV (s.tr.length - 1 + 2) (by omega) hpos (by omega) (by omega) (by omega) (by simp)
    (by simp [List.lookup])
  rw [swapBody] at hloop
  rw [hloop]
  have hd : (fun i => env.draws (rng + (s.tr.length - 1 - i)) % (i + 1)) = drawOf env rng s.tr.length := rfl
  simp only [List.lookup, M.put, hd, holdoutInit]
  have hlen := (shuffleTail_perm (drawOf env rng s.tr.length) (s.tr.length - skipOf s.tr.length env.perc)
    (s.tr.length - 1) s.tr).length_eq
  generalize shuffleTail (drawOf env rng s.tr.length) (s.tr.length - skipOf s.tr.length env.perc)
    (s.tr.length - 1) s.tr = sh at hlen ⊢
  have htk : List.take (sh.length - skipOf s.tr.length env.perc) (List.drop (skipOf s.tr.length env.perc) sh)
      = List.drop (skipOf s.tr.length env.perc) sh := List.take_of_length_le (by simp)
  rw [hlen] at htk
  cases hE : env.hasEvaT <;> simp [List.lookup, hlen, hle, htk]

/-- later runs: nothing happens (the `return` is reached before anything else) -/
theorem holdout_bridge_later {α} (ops : ElemOps α) (env : Env) (run : Nat) (s : Sets α) (rng clT clV : Nat)
    (hrun : 0 < run) :
    ∃ loc, runFn ops Tables.prog env 1 .holdoutInit [("run", run)] none (M.enter s rng clT clV) =
      some ⟨s.tr, s.va, loc, rng, clT, clV, some none⟩ := by
  simp [runFn, Tables.prog, Tables.holdoutInit, execOps, execOp, evalB, evalIx, M.enter, List.lookup, hrun,
    exec0s, exec0, M.setRng]

end Vita.C16
