/-
  C16 — the extracted container programs (Tables.lean = Gen.lean by `decide`, see Props.lean) mean what
  the list model says: running them on the abstract machine of Interp.lean gives exactly
  `holdoutInit`, `moveToValidation`, `shakeImpl`, `dssInit`, `dssShake`, `dssClose`.
-/
import Vita.C16.Interp
import Vita.C16.Tables
import Vita.C16.Lemmas
namespace Vita.C16
open IxE BE Op0 Op

/-- machine state at the entry of a strategy call -/
def M.enter {α} (s : Sets α) (rng clT clV : Nat) : M α := ⟨s.tr, s.va, [], rng, clT, clV, none⟩

/-- the draw used in the iteration with index `i` of a shuffle over `n` elements that starts at stream
    position `rng`: the raw value reduced modulo `i + 1` -/
def drawOf (env : Env) (rng n : Nat) : Nat → Nat := fun i => env.draws (rng + (n - 1 - i)) % (i + 1)

theorem shuffleTail_congr {α} (d d' : Nat → Nat) (k i : Nat) (l : List α)
    (h : ∀ j, j ≤ i → d j = d' j) : shuffleTail d k i l = shuffleTail d' k i l := by
  induction k generalizing i l with
  | zero => rfl
  | succ k ih =>
    simp only [shuffleTail]
    rw [h i (Nat.le_refl _)]
    exact ih _ _ (fun j hj => h j (by omega))

/-! ### arithmetic without wrap-around under the documented preconditions -/

theorem subW_of_le (w x y : Nat) (hx : x < 2 ^ w) (hy : y ≤ x) : subW w x y = x - y := by
  unfold subW
  have hy' : y % 2 ^ w = y := Nat.mod_eq_of_lt (by omega)
  rw [Nat.mod_eq_of_lt hx, hy']
  have : 2 ^ w + x - y = (x - y) + 2 ^ w := by omega
  rw [this, Nat.add_mod_right]
  exact Nat.mod_eq_of_lt (by omega)

theorem addW_of_lt (w x y : Nat) (h : x + y < 2 ^ w) : addW w x y = x + y := Nat.mod_eq_of_lt h
theorem mulW_of_lt (w x y : Nat) (h : x * y < 2 ^ w) : mulW w x y = x * y := Nat.mod_eq_of_lt h

theorem decr64_pos (v : Nat) (h0 : 0 < v) (h : v < 2 ^ 64) : decr64 v = v - 1 := by
  unfold decr64; omega

/-- `max(available * (100 - perc) / 100, 1)` in machine arithmetic = `skipOf` -/
theorem skip_machine (n p : Nat) (hp : p < 100) (hsz : n * 100 < 2 ^ 64) :
    Nat.max (mulW 64 n (subW 32 100 p) / 100) 1 = skipOf n p := by
  rw [subW_of_le 32 100 p (by omega) (by omega)]
  rw [mulW_of_lt]
  · rfl
  · have : n * (100 - p) ≤ n * 100 := Nat.mul_le_mul_left _ (by omega)
    omega

/-! ### hold-out -/

def swapBody : List Op0 := [swap .tr (var "i") (sup (add 64 (var "i") (lit 1)))]

/-- the partial Fisher–Yates loop of the table is `shuffleTail` -/
theorem loop_shuffle {α} (ops : ElemOps α) (cf : CallFn α) (env : Env) (t : Nat) :
    ∀ (v k : Nat) (l va : List α) (rest : List (String × Nat)) (rng clT clV fuel : Nat),
      t = v + 1 - k → 1 ≤ k → v < l.length → l.length < 2 ^ 64 → t + 1 ≤ fuel →
      rest.filter (fun p => p.1 != "i") = rest → rest.lookup "skip" = some k →
      loopDown ops cf env none "i" (ge (var "i") (var "skip")) swapBody fuel
        ⟨l, va, ("i", v) :: rest, rng, clT, clV, none⟩ =
      some ⟨shuffleTail (fun i => env.draws (rng + (v - i)) % (i + 1)) t v l, va,
            ("i", v - t) :: rest, rng + t, clT, clV, none⟩ := by
  induction t with
  | zero =>
    intro v k l va rest rng clT clV fuel ht hk hv hl hf hrest hskip
    obtain ⟨f, rfl⟩ : ∃ f, fuel = f + 1 := ⟨fuel - 1, by omega⟩
    have hlt : ¬ (v ≥ k) := by omega
    simp [loopDown, evalB, evalIx, List.lookup, hskip, hlt, M.setRng, shuffleTail]
  | succ t ih =>
    intro v k l va rest rng clT clV fuel ht hk hv hl hf hrest hskip
    obtain ⟨f, rfl⟩ : ∃ f, fuel = f + 1 := ⟨fuel - 1, by omega⟩
    have hge : v ≥ k := by omega
    have hv1 : addW 64 v 1 = v + 1 := addW_of_lt _ _ _ (by omega)
    have hdl : env.draws rng % (v + 1) < l.length := by
      have := Nat.mod_lt (env.draws rng) (show 0 < v + 1 by omega); omega
    have hdec : decr64 v = v - 1 := decr64_pos v (by omega) (by omega)
    simp [loopDown, evalB, evalIx, List.lookup, hskip, hge, M.setRng, swapBody, exec0s, exec0, M.get,
      M.put, M.setLoc, hv1, hv, hdl, hrest, hdec, shuffleTail]
    have := ih (v - 1) k (swapAt l v (env.draws rng % (v + 1))) va rest (rng + 1) clT clV f
      (by omega) hk (by rw [swapAt_length]; omega) (by rw [swapAt_length]; exact hl) (by omega) hrest hskip
    rw [swapBody] at this
    rw [this]
    have e1 : v - 1 - t = v - (t + 1) := by omega
    have e2 : rng + 1 + t = rng + (t + 1) := by omega
    have e3 : shuffleTail (fun i => env.draws (rng + 1 + (v - 1 - i)) % (i + 1)) t (v - 1)
        (swapAt l v (env.draws rng % (v + 1))) =
        shuffleTail (fun i => env.draws (rng + (v - i)) % (i + 1)) t (v - 1)
        (swapAt l v (env.draws rng % (v + 1))) := by
      apply shuffleTail_congr
      intro j hj
      have : rng + 1 + (v - 1 - j) = rng + (v - j) := by omega
      simp only [this]
    rw [e1, e2, e3]

/-- run 0: the table computes `holdoutInit` on the draws `drawOf`, consumes one raw value per swap and
    clears the training evaluator iff it was given one -/
theorem holdout_bridge0 {α} (ops : ElemOps α) (env : Env) (s : Sets α) (rng clT clV : Nat)
    (hp : env.perc < 100) (hn : 1 ≤ s.tr.length) (hsz : s.tr.length * 100 < 2 ^ 64) :
    ∃ loc, runFn ops Tables.prog env 1 .holdoutInit [("run", 0)] none (M.enter s rng clT clV) =
      some ⟨(holdoutInit (drawOf env rng s.tr.length) env.perc 0 s).tr,
            (holdoutInit (drawOf env rng s.tr.length) env.perc 0 s).va, loc,
            rng + (s.tr.length - skipOf s.tr.length env.perc),
            clT + (if env.hasEvaT then 1 else 0), clV, none⟩ := by
  have hk := skip_machine s.tr.length env.perc hp hsz
  have hsub : subW 64 s.tr.length 1 = s.tr.length - 1 := subW_of_le _ _ _ (by omega) hn
  simp [runFn, Tables.prog, Tables.holdoutInit, execOps, execOp, evalB, evalIx, M.enter, List.lookup,
    exec0s, exec0, M.setRng, M.setLoc, M.get, hk, hsub]
  have hle := skipOf_le s.tr.length env.perc hn
  have hpos := skipOf_pos s.tr.length env.perc
  have hloop := loop_shuffle ops (fun g a m' => none) env (s.tr.length - skipOf s.tr.length env.perc)
    (s.tr.length - 1) (skipOf s.tr.length env.perc) s.tr s.va
    [("skip", skipOf s.tr.length env.perc), ("available", s.tr.length), ("perc", env.perc), ("run", 0)]
    rng clT clV (s.tr.length - 1 + 2) (by omega) hpos (by omega) (by omega) (by omega) (by simp)
    (by simp [List.lookup])
  rw [swapBody] at hloop
  rw [hloop]
  have hd : (fun i => env.draws (rng + (s.tr.length - 1 - i)) % (i + 1)) = drawOf env rng s.tr.length := rfl
  simp only [List.lookup, M.put, hd, holdoutInit]
  have hlen := (shuffleTail_perm (drawOf env rng s.tr.length) (s.tr.length - skipOf s.tr.length env.perc)
    (s.tr.length - 1) s.tr).length_eq
  generalize shuffleTail (drawOf env rng s.tr.length) (s.tr.length - skipOf s.tr.length env.perc)
    (s.tr.length - 1) s.tr = sh at hlen ⊢
  have htk : List.take (sh.length - skipOf s.tr.length env.perc) (List.drop (skipOf s.tr.length env.perc) sh)
      = List.drop (skipOf s.tr.length env.perc) sh := List.take_of_length_le (by simp)
  rw [hlen] at htk
  cases hE : env.hasEvaT <;> simp [List.lookup, hlen, hle, htk]

/-- later runs: nothing happens (the `return` is reached before anything else) -/
theorem holdout_bridge_later {α} (ops : ElemOps α) (env : Env) (run : Nat) (s : Sets α) (rng clT clV : Nat)
    (hrun : 0 < run) :
    ∃ loc, runFn ops Tables.prog env 1 .holdoutInit [("run", run)] none (M.enter s rng clT clV) =
      some ⟨s.tr, s.va, loc, rng, clT, clV, some none⟩ := by
  simp [runFn, Tables.prog, Tables.holdoutInit, execOps, execOp, evalB, evalIx, M.enter, List.lookup, hrun,
    exec0s, exec0, M.setRng]

/-! ### dynamic subset selection -/

theorem run_reset_tr (env : Env) (k : Nat) (m : M Ex) :
    runFn exOps Tables.prog env (k + 1) .resetAgeDifficulty [] (some .tr) m =
      some { m with tr := resetAD m.tr, loc := [], ret := none } := by
  simp [runFn, Tables.prog, Tables.resetAgeDifficulty, execOps, execOp, exec0, M.get, M.put, applyFn, exOps, resetAD]

theorem run_reset_va (env : Env) (k : Nat) (m : M Ex) :
    runFn exOps Tables.prog env (k + 1) .resetAgeDifficulty [] (some .va) m =
      some { m with va := resetAD m.va, loc := [], ret := none } := by
  simp [runFn, Tables.prog, Tables.resetAgeDifficulty, execOps, execOp, exec0, M.get, M.put, applyFn, exOps, resetAD]

theorem run_clear (env : Env) (k : Nat) (m : M Ex) :
    runFn exOps Tables.prog env (k + 1) .clearEvaluators [] none m =
      some { m with clT := m.clT + 1, clV := m.clV + 1, loc := [], ret := none } := by
  simp [runFn, Tables.prog, Tables.clearEvaluators, execOps, execOp, exec0]

theorem run_move (env : Env) (k : Nat) (m : M Ex) :
    runFn exOps Tables.prog env (k + 1) .moveToValidation [] none m =
      some { m with tr := [], va := m.va ++ m.tr, loc := [], ret := none } := by
  simp [runFn, Tables.prog, Tables.moveToValidation, execOps, execOp, exec0, M.get, M.put, evalIx, M.setRng]



theorem call_move (env : Env) (k : Nat) (m : M Ex) :
    callAt exOps Tables.prog env (k + 1) .moveToValidation none m =
      some { m with tr := [], va := m.va ++ m.tr } := by
  simp [callAt, run_move]

theorem call_reset_tr (env : Env) (k : Nat) (m : M Ex) :
    callAt exOps Tables.prog env (k + 1) .resetAgeDifficulty (some .tr) m =
      some { m with tr := resetAD m.tr } := by
  simp [callAt, run_reset_tr]

theorem call_reset_va (env : Env) (k : Nat) (m : M Ex) :
    callAt exOps Tables.prog env (k + 1) .resetAgeDifficulty (some .va) m =
      some { m with va := resetAD m.va } := by
  simp [callAt, run_reset_va]

theorem call_clear (env : Env) (k : Nat) (m : M Ex) :
    callAt exOps Tables.prog env (k + 1) .clearEvaluators none m =
      some { m with clT := m.clT + 1, clV := m.clV + 1 } := by
  simp [callAt, run_clear]


def pivotOf (ts : Nat → Nat) (parted : List (Ex × Bool)) : Nat :=
  if parted.countP (fun x => !x.2) = 0 ∨ parted.countP (fun x => !x.2) = parted.length then ts parted.length
  else parted.countP (fun x => !x.2)

theorem shakeImpl_parted (P : Partitioner) (ts sel) (s : St) (parted : List (Ex × Bool))
    (h : parted = P.run (fun (x : Ex × Bool) => !x.2) ((s.va ++ s.tr).zipIdx.map fun x => (x.1, sel x.2))) :
    shakeImpl P ts sel s =
      ⟨resetAD ((parted.map (·.1)).drop (pivotOf ts parted)), (parted.map (·.1)).take (pivotOf ts parted)⟩ := by
  subst h; rfl

theorem run_shakeImpl (env : Env) (k : Nat) (m : M Ex)
    (hts : env.ts (m.va.length + m.tr.length) ≤ m.va.length + m.tr.length) :
    ∃ loc, runFn exOps Tables.prog env (k + 2) .shakeImpl [] none m =
      some { m with tr := (shakeImpl env.P env.ts env.sel ⟨m.tr, m.va⟩).tr,
                    va := (shakeImpl env.P env.ts env.sel ⟨m.tr, m.va⟩).va, loc := loc, ret := none } := by
  rw [runFn_succ]
  simp [Tables.prog, Tables.shakeImpl, execOps, execOp, exec0, call_move, call_reset_tr, M.get, M.put, M.setLoc,
    evalB, evalIx, List.lookup, M.setRng, exec0s]
  have hperm := env.P.perm (fun (y : Ex × Bool) => !y.2)
    (List.map (fun x => (x.fst, env.sel x.snd)) (m.va ++ m.tr).zipIdx)
  have hlen := hperm.length_eq
  simp only [List.length_map, List.length_zipIdx, List.length_append] at hlen
  clear hperm
  obtain ⟨parted, hpt⟩ : ∃ p, p = env.P.run (fun (y : Ex × Bool) => !y.snd)
      (List.map (fun x => (x.fst, env.sel x.snd)) (m.va ++ m.tr).zipIdx) := ⟨_, rfl⟩
  rw [shakeImpl_parted env.P env.ts env.sel ⟨m.tr, m.va⟩ parted hpt]
  rw [← hpt] at hlen ⊢
  have hc : List.countP (fun (y : Ex × Bool) => !y.2) parted ≤ parted.length := List.countP_le_length
  rw [← hlen] at hts
  unfold pivotOf
  by_cases h0 : List.countP (fun (y : Ex × Bool) => !y.2) parted = 0
  · simp [List.lookup, hts, List.take_of_length_le, h0]
  · by_cases h1 : List.countP (fun (y : Ex × Bool) => !y.2) parted = parted.length
    · simp [h0, h1, List.lookup, hts, List.take_of_length_le]
    · simp [h0, h1, List.lookup, hc, List.take_of_length_le]

theorem call_shakeImpl (env : Env) (k : Nat) (m : M Ex)
    (hts : env.ts (m.va.length + m.tr.length) ≤ m.va.length + m.tr.length) :
    callAt exOps Tables.prog env (k + 2) .shakeImpl none m =
      some { m with tr := (shakeImpl env.P env.ts env.sel ⟨m.tr, m.va⟩).tr,
                    va := (shakeImpl env.P env.ts env.sel ⟨m.tr, m.va⟩).va } := by
  obtain ⟨loc, h⟩ := run_shakeImpl env k m hts
  simp [callAt, h]

/-- what a strategy call leaves behind, read off the machine state -/
def M.res (m : M Ex) (clT0 : Nat) : Res := ⟨⟨m.tr, m.va⟩, m.ret == some (some true), m.clT - clT0⟩

theorem dssInit_bridge (env : Env) (run : Nat) (s : St) (rng clT clV : Nat)
    (hts : env.ts (s.va.length + s.tr.length) ≤ s.va.length + s.tr.length) :
    ∃ loc, runFn exOps Tables.prog env 3 .dssInit [("run", run)] none (M.enter s rng clT clV) =
      some ⟨(dssInit env.P env.ts env.sel s).st.tr, (dssInit env.P env.ts env.sel s).st.va, loc, rng,
            clT + 1, clV + 1, none⟩ := by
  rw [runFn_succ]
  have h := call_shakeImpl env 0 ⟨resetAD s.tr, resetAD s.va, [("run", run)], rng, clT, clV, none⟩
    (by simpa [resetAD_length] using hts)
  simp [Tables.prog, Tables.dssInit, execOps, execOp, exec0, call_reset_tr, call_reset_va, call_clear, M.enter, h,
    dssInit]

theorem dssClose_bridge (env : Env) (run : Nat) (s : St) (rng clT clV : Nat) :
    ∃ loc, runFn exOps Tables.prog env 2 .dssClose [("run", run)] none (M.enter s rng clT clV) =
      some ⟨(dssClose s).st.tr, (dssClose s).st.va, loc, rng, clT + 1, clV + 1, none⟩ := by
  rw [runFn_succ]
  simp [Tables.prog, Tables.dssClose, execOps, execOp, exec0, call_move, call_clear, M.enter, dssClose,
    moveToValidation]

theorem dssShake_bridge_skip (env : Env) (g : Nat) (s : St) (rng clT clV : Nat)
    (h : g = 0 ∨ (0 < env.gap ∧ g % env.gap ≠ 0)) :
    ∃ loc, runFn exOps Tables.prog env 3 .dssShake [("generation", g)] none (M.enter s rng clT clV) =
      some ⟨s.tr, s.va, loc, rng, clT, clV, some (some false)⟩ := by
  rw [runFn_succ]
  rcases h with h | ⟨hg, h⟩
  · simp [Tables.prog, Tables.dssShake, execOps, execOp, exec0, exec0s, M.enter, evalB, evalIx, List.lookup,
      M.setLoc, M.setRng, h]
  · by_cases h0 : g = 0
    · simp [Tables.prog, Tables.dssShake, execOps, execOp, exec0, exec0s, M.enter, evalB, evalIx, List.lookup,
        M.setLoc, M.setRng, h0]
    · have : env.gap ≠ 0 := by omega
      simp [Tables.prog, Tables.dssShake, execOps, execOp, exec0, exec0s, M.enter, evalB, evalIx, List.lookup,
        M.setLoc, M.setRng, h0, h, this]

theorem dssShake_bridge_reshuffle (env : Env) (g : Nat) (s : St) (rng clT clV : Nat)
    (hg : g ≠ 0) (hgap : 0 < env.gap) (hd : g % env.gap = 0)
    (hts : env.ts (s.va.length + s.tr.length) ≤ s.va.length + s.tr.length) :
    ∃ loc, runFn exOps Tables.prog env 3 .dssShake [("generation", g)] none (M.enter s rng clT clV) =
      some ⟨(shakeImpl env.P env.ts env.sel ⟨incAge s.tr, incAge s.va⟩).tr,
            (shakeImpl env.P env.ts env.sel ⟨incAge s.tr, incAge s.va⟩).va, loc, rng,
            clT + 1, clV + 1, some (some true)⟩ := by
  rw [runFn_succ]
  have hne : env.gap ≠ 0 := by omega
  have h := call_shakeImpl env 0 ⟨incAge s.tr, incAge s.va, [("gap", env.gap), ("generation", g)], rng, clT, clV, none⟩
    (by simpa [incAge] using hts)
  have ea : applyFn exOps .incAge = Ex.older := rfl
  have e1 : ∀ l, List.map Ex.older l = incAge l := fun _ => rfl
  simp only [Nat.zero_add] at h
  simp [Tables.prog, Tables.dssShake, execOps, execOp, exec0, exec0s, M.enter, evalB, evalIx, List.lookup,
    M.setLoc, M.setRng, hg, hd, hne, M.get, M.put, ea, e1, h, call_clear]
end Vita.C16
