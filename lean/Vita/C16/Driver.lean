/-
  C16 line-protocol driver.  One observed strategy call per line, fields separated by " | ":

    H <perc> <run> | pre_tr | pre_va | post_tr | post_va            (ids)
        -> ok exact | ok rel | bad <why>
           exact: the observed result equals `holdoutInit` on the draws reconstructed from it
           rel  : only the step relation `HoldoutStep` holds (order differs from the model)
    D init <run>  | pre_tr | pre_va | post_tr | post_va | ret ct cv  (id:age:diff)
    D shake <gap> <g> | …                                            -> ok [fb] | bad <why>
    D close <run> | …                                                   (fb: order-preserving split at the
                                                                         floating-point target size)
    T <lo> <hi>   -> ok <agree> <differ> <first-differ> | bad <n>    target size: Float vs ℚ vs TsOK
                     (the Float value is the EXTRACTED double chain `Gen.targetSize` evaluated in hardware doubles)
    H <perc> <run> | pre_tr | pre_va | post_tr | post_va | clears hasEva   hold-out with the evaluator (ids or id:age:diff)
    A <call> <arg> | pre_tr | pre_va | post_tr | post_va | ret       as-is / default shake, close: nothing may change
    E | pre_tr | pre_va | post_tr | post_va                          evaluator activity between two calls: EvalRel
    X <strat> <param> <kind> <g> | tr1 | va1 | tr2 | va2            two consecutive observations of a monitored search
                                   strat asis|holdout|dss, kind first|newrun|gen|end   -> ok | bad <why>
    P <k> | tok tok …              the calls of one run(k): i<r> s<g> b<g> c<r>   -> ok | bad shape <predicted>
    W | id:age:diff …              -> w <weight64 of each> s <weightSum64>  (model) – compared with the harness
-/
import Vita.C16.Model
import Vita.C16.Protocol
import Vita.C16.Interp
import Vita.C16.Gen
open Vita.C16

instance (p run : Nat) (pre post : Sets Nat) : Decidable (HoldoutStep p run pre post) := by
  unfold HoldoutStep; exact inferInstance

instance (pre post : St) : Decidable (ReshuffleStep pre post) := by
  unfold ReshuffleStep; exact inferInstance

instance (c : Call) (pre : St) (r : Res) : Decidable (DssStep c pre r) := by
  cases c <;> (unfold DssStep; simp only; exact inferInstance)

instance (p run : Nat) (b : Bool) (pre post : Sets Nat) (cl : Nat) : Decidable (HoldoutStepR p run b pre post cl) := by
  unfold HoldoutStepR; exact inferInstance
instance (pre post : St) : Decidable (EvalRel pre post) := by unfold EvalRel; exact inferInstance
instance (pre post : St) : Decidable (ReshuffleObs pre post) := by unfold ReshuffleObs; exact inferInstance
instance (gap g : Nat) (pre post : St) : Decidable (GenObs gap g pre post) := by unfold GenObs; exact inferInstance
instance (pre post : St) : Decidable (FreshObs pre post) := by unfold FreshObs; exact inferInstance
instance (pre post : St) : Decidable (EndObs pre post) := by unfold EndObs; exact inferInstance

def words (s : String) : List String :=
  (s.trimAscii.toString.splitOn " ").filter (· ≠ "")

/-- an id, or the id of an `id:age:diff` item -/
def parseId (w : String) : Option Nat := ((w.splitOn ":").head?).bind String.toNat?
def parseIds (s : String) : Option (List Nat) := (words s).mapM parseId

def parseEx (w : String) : Option Ex :=
  match w.splitOn ":" with
  | [a, b, c] => do
    let id ← a.toNat?
    let age ← b.toNat?
    let diff ← c.toNat?
    pure ⟨id, age, diff⟩
  | _ => none

def parseExs (s : String) : Option (List Ex) := (words s).mapM parseEx

/-- reconstruct the Fisher–Yates draws from the observed final array `sh` (unique ids):
    position `i` of the result names the element swapped in at step `i`. -/
def reconstruct (sh : List Nat) : (steps i : Nat) → (cur : List Nat) → List (Nat × Nat) →
    Option (List (Nat × Nat))
  | 0, _, _, acc => some acc
  | k + 1, i, cur, acc =>
    match sh[i]? with
    | none => none
    | some x =>
      let j := cur.idxOf x
      if j ≤ i then reconstruct sh k (i - 1) (swapAt cur i j) ((i, j) :: acc) else none

def holdoutAnswer (p run : Nat) (pre post : Sets Nat) : String :=
  if decide (HoldoutStep p run pre post) then
    if run > 0 then "ok exact"
    else
      let n := pre.tr.length
      let skip := skipOf n p
      let sh := post.tr ++ post.va.drop pre.va.length
      match reconstruct sh (n - skip) (n - 1) pre.tr [] with
      | none => "ok rel"
      | some ds =>
        let draw : Nat → Nat := fun i => (ds.lookup i).getD 0
        if holdoutInit draw p run pre = post then "ok exact" else "ok rel"
  else "bad HoldoutStep"

/-- `target_size` as the C++ computes it (hardware doubles; `std::min/max` spelled out) -/
def targetSizeF (n : Nat) : Nat :=
  (Gen.targetSize.evalF n).toUInt64.toNat                   -- static_cast<std::ptrdiff_t>(target_size)

def dssAnswer (c : Call) (pre : St) (r : Res) (ct cv : Nat) : String :=
  if ct ≠ cv then "bad clear-counts-differ"
  else if decide (DssStep c pre r) then
    let all := pre.va ++ pre.tr
    let t := targetSizeF all.length
    let reshuffled : Bool := match c with
      | .init _ => true
      | .shake gap g => !(g == 0 || g % gap != 0)
      | .close _ => false
    if reshuffled && ids r.st.va == ids (all.take t) && ids r.st.tr == ids (all.drop t) then "ok fb" else "ok"
  else "bad DssStep"

def tsAnswer (lo hi : Nat) : String := Id.run do
  let mut agree := 0
  let mut differ := 0
  let mut first := 0
  for n in [lo:hi + 1] do
    let f := targetSizeF n
    if n ≥ 2 ∧ ¬ (1 ≤ f ∧ f < n) then return s!"bad {n}"
    if f = targetSizeQ n then agree := agree + 1
    else
      differ := differ + 1
      if first = 0 then first := n
  return s!"ok {agree} {differ} {first}"

def holdoutAnswerR (p run : Nat) (pre post : Sets Nat) (clears : Nat) (hasEva : Bool) : String :=
  if decide (HoldoutStepR p run hasEva pre post clears) then holdoutAnswer p run pre post
  else if decide (HoldoutStep p run pre post) then "bad HoldoutStepR clears"
  else "bad HoldoutStep"

def obsAnswer (strat : String) (param : Nat) (kind : String) (g : Nat) (pre post : St) : String :=
  let okb (b : Bool) (why : String) : String := if b then "ok" else "bad " ++ why
  match strat, kind with
  | "asis", _ => okb (decide (EvalRel pre post)) "EvalRel"
  | "holdout", "first" =>
      okb (decide (HoldoutStep param 0 (⟨ids pre.tr, ids pre.va⟩ : Sets Nat) ⟨ids post.tr, ids post.va⟩)) "HoldoutStep"
  | "holdout", _ => okb (decide (EvalRel pre post)) "EvalRel"
  | "dss", "first" => okb (decide (FreshObs pre post)) "FreshObs"
  | "dss", "newrun" => okb (decide (FreshObs pre post)) "FreshObs"
  | "dss", "gen" => okb (decide (GenObs param g pre post)) "GenObs"
  | "dss", "end" => okb (decide (EndObs pre post)) "EndObs"
  | "dss", "idle" => okb (decide (EvalRel pre post)) "EvalRel"
  | _, _ => "bad-op"

def parseTag (w : String) : Option Tag :=
  let n := (w.drop 1).toString.toNat?
  match w.take 1 |>.toString with
  | "i" => n.map Tag.init
  | "s" => n.map Tag.shake
  | "b" => n.map Tag.cb
  | "c" => n.map Tag.close
  | _ => none

def showTag : Tag → String
  | .init r => s!"i{r}" | .shake g => s!"s{g}" | .cb g => s!"b{g}" | .close r => s!"c{r}"

/-- generations of each run of an observed call list: callbacks between an `init` and the next one -/
def gensOf : List Tag → List Nat → List Nat
  | [], acc => acc.reverse
  | .init _ :: ts, acc => gensOf ts (0 :: acc)
  | .cb _ :: ts, a :: acc => gensOf ts ((a + 1) :: acc)
  | _ :: ts, acc => gensOf ts acc

def protoAnswer (k : Nat) (tags : List Tag) : String :=
  let gens := gensOf tags []
  let pred := predictedShape gens
  if gens.length = k ∧ pred = tags then "ok"
  else "bad shape " ++ " ".intercalate (pred.map showTag)

def weightAnswer (l : List Ex) : String :=
  "w " ++ " ".intercalate (l.map fun e => toString (Gen.weight.eval e)) ++ " s " ++ toString (Gen.weightSum.eval l)

def answer (line : String) : String :=
  match line.splitOn " | " with
  | [hd, a, b, c, d] =>
    match words hd with
    | ["H", p, run] =>
      match parseIds a, parseIds b, parseIds c, parseIds d, p.toNat?, run.toNat? with
      | some a, some b, some c, some d, some p, some run => holdoutAnswer p run ⟨a, b⟩ ⟨c, d⟩
      | _, _, _, _, _, _ => "bad-op"
    | ["E"] =>
      match parseExs a, parseExs b, parseExs c, parseExs d with
      | some a, some b, some c, some d => if decide (EvalRel ⟨a, b⟩ ⟨c, d⟩) then "ok" else "bad EvalRel"
      | _, _, _, _ => "bad-op"
    | ["X", strat, param, kind, g] =>
      match parseExs a, parseExs b, parseExs c, parseExs d, param.toNat?, g.toNat? with
      | some a, some b, some c, some d, some param, some g => obsAnswer strat param kind g ⟨a, b⟩ ⟨c, d⟩
      | _, _, _, _, _, _ => "bad-op"
    | _ => "bad-op"
  | [hd, a] =>
    match words hd with
    | ["P", k] =>
      match k.toNat?, (words a).mapM parseTag with
      | some k, some tags => protoAnswer k tags
      | _, _ => "bad-op"
    | ["W"] =>
      match parseExs a with
      | some l => weightAnswer l
      | none => "bad-op"
    | _ => "bad-op"
  | [hd, a, b, c, d, e] =>
    if (words hd).head? = some "H" then
      match words hd, parseIds a, parseIds b, parseIds c, parseIds d, (words e).mapM String.toNat? with
      | ["H", p, run], some a, some b, some c, some d, some [cl, he] =>
        match p.toNat?, run.toNat? with
        | some p, some run => holdoutAnswerR p run ⟨a, b⟩ ⟨c, d⟩ cl (he != 0)
        | _, _ => "bad-op"
      | _, _, _, _, _, _ => "bad-op"
    else if (words hd).head? = some "A" then
      match parseExs a, parseExs b, parseExs c, parseExs d, (words e).mapM String.toNat? with
      | some a, some b, some c, some d, some [ret] =>
        if a = c ∧ b = d ∧ ret = 0 then "ok" else "bad AsIsStep"
      | _, _, _, _, _ => "bad-op"
    else
    match parseExs a, parseExs b, parseExs c, parseExs d, (words e).mapM String.toNat? with
    | some a, some b, some c, some d, some [ret, ct, cv] =>
      let call : Option Call := match words hd with
        | ["D", "init", run] => run.toNat?.map Call.init
        | ["D", "shake", gap, g] => do pure (Call.shake (← gap.toNat?) (← g.toNat?))
        | ["D", "close", run] => run.toNat?.map Call.close
        | _ => none
      match call with
      | some call => dssAnswer call ⟨a, b⟩ ⟨⟨c, d⟩, ret ≠ 0, ct⟩ ct cv
      | none => "bad-op"
    | _, _, _, _, _ => "bad-op"
  | [hd] =>
    match words hd with
    | ["T", lo, hi] =>
      match lo.toNat?, hi.toNat? with
      | some lo, some hi => tsAnswer lo hi
      | _, _ => "bad-op"
    | _ => "bad-op"
  | _ => "bad-op"

partial def loop (h : IO.FS.Stream) (out : IO.FS.Stream) : IO Unit := do
  let line ← h.getLine
  if line.isEmpty then return ()
  out.putStrLn (answer line)
  loop h out

def main : IO Unit := do
  loop (← IO.getStdin) (← IO.getStdout)
