/-
  C16 line-protocol driver.  One observed strategy call per line, fields separated by " | ":

    H <perc> <run> | pre_tr | pre_va | post_tr | post_va            (ids)
        -> ok exact | ok rel | bad <why>
           exact: the observed result equals `holdoutInit` on the draws reconstructed from it
           rel  : only the step relation `HoldoutStep` holds (order differs from the model)
    D init <run>  | pre_tr | pre_va | post_tr | post_va | ret ct cv  (id:age:diff)
    D shake <gap> <g> | …                                            -> ok [fb] | bad <why>
    D close <run> | …                                                   (fb: order-preserving split at the
                                                                         floating-point target size)
    T <lo> <hi>   -> ok <agree> <differ> <first-differ> | bad <n>    target size: Float vs ℚ vs TsOK
-/
import Vita.C16.Model
open Vita.C16

instance (p run : Nat) (pre post : Sets Nat) : Decidable (HoldoutStep p run pre post) := by
  unfold HoldoutStep; exact inferInstance

instance (pre post : St) : Decidable (ReshuffleStep pre post) := by
  unfold ReshuffleStep; exact inferInstance

instance (c : Call) (pre : St) (r : Res) : Decidable (DssStep c pre r) := by
  cases c <;> (unfold DssStep; simp only; exact inferInstance)

def words (s : String) : List String :=
  (s.trimAscii.toString.splitOn " ").filter (· ≠ "")

def parseIds (s : String) : Option (List Nat) := (words s).mapM String.toNat?

def parseEx (w : String) : Option Ex :=
  match w.splitOn ":" with
  | [a, b, c] => do
    let id ← a.toNat?
    let age ← b.toNat?
    let diff ← c.toNat?
    pure ⟨id, age, diff⟩
  | _ => none

def parseExs (s : String) : Option (List Ex) := (words s).mapM parseEx

/-- reconstruct the Fisher–Yates draws from the observed final array `sh` (unique ids):
    position `i` of the result names the element swapped in at step `i`. -/
def reconstruct (sh : List Nat) : (steps i : Nat) → (cur : List Nat) → List (Nat × Nat) →
    Option (List (Nat × Nat))
  | 0, _, _, acc => some acc
  | k + 1, i, cur, acc =>
    match sh[i]? with
    | none => none
    | some x =>
      let j := cur.idxOf x
      if j ≤ i then reconstruct sh k (i - 1) (swapAt cur i j) ((i, j) :: acc) else none

def holdoutAnswer (p run : Nat) (pre post : Sets Nat) : String :=
  if decide (HoldoutStep p run pre post) then
    if run > 0 then "ok exact"
    else
      let n := pre.tr.length
      let skip := skipOf n p
      let sh := post.tr ++ post.va.drop pre.va.length
      match reconstruct sh (n - skip) (n - 1) pre.tr [] with
      | none => "ok rel"
      | some ds =>
        let draw : Nat → Nat := fun i => (ds.lookup i).getD 0
        if holdoutInit draw p run pre = post then "ok exact" else "ok rel"
  else "bad HoldoutStep"

/-- `target_size` as the C++ computes it (hardware doubles; `std::min/max` spelled out) -/
def targetSizeF (n : Nat) : Nat :=
  let s : Float := n.toFloat
  let x : Float := 0.2 + 100.0 / (s + 100.0)
  let ratio : Float := if x < 0.6 then x else 0.6          -- std::min(0.6, x)
  let y : Float := s * ratio
  let t : Float := if (1.0 : Float) < y then y else 1.0    -- std::max(1.0, y)
  t.toUInt64.toNat                                          -- static_cast<std::ptrdiff_t>

def dssAnswer (c : Call) (pre : St) (r : Res) (ct cv : Nat) : String :=
  if ct ≠ cv then "bad clear-counts-differ"
  else if decide (DssStep c pre r) then
    let all := pre.va ++ pre.tr
    let t := targetSizeF all.length
    let reshuffled : Bool := match c with
      | .init _ => true
      | .shake gap g => !(g == 0 || g % gap != 0)
      | .close _ => false
    if reshuffled && ids r.st.va == ids (all.take t) && ids r.st.tr == ids (all.drop t) then "ok fb" else "ok"
  else "bad DssStep"

def tsAnswer (lo hi : Nat) : String := Id.run do
  let mut agree := 0
  let mut differ := 0
  let mut first := 0
  for n in [lo:hi + 1] do
    let f := targetSizeF n
    if n ≥ 2 ∧ ¬ (1 ≤ f ∧ f < n) then return s!"bad {n}"
    if f = targetSizeQ n then agree := agree + 1
    else
      differ := differ + 1
      if first = 0 then first := n
  return s!"ok {agree} {differ} {first}"

def answer (line : String) : String :=
  match line.splitOn " | " with
  | [hd, a, b, c, d] =>
    match words hd, parseIds a, parseIds b, parseIds c, parseIds d with
    | ["H", p, run], some a, some b, some c, some d =>
      match p.toNat?, run.toNat? with
      | some p, some run => holdoutAnswer p run ⟨a, b⟩ ⟨c, d⟩
      | _, _ => "bad-op"
    | _, _, _, _, _ => "bad-op"
  | [hd, a, b, c, d, e] =>
    match parseExs a, parseExs b, parseExs c, parseExs d, (words e).mapM String.toNat? with
    | some a, some b, some c, some d, some [ret, ct, cv] =>
      let call : Option Call := match words hd with
        | ["D", "init", run] => run.toNat?.map Call.init
        | ["D", "shake", gap, g] => do pure (Call.shake (← gap.toNat?) (← g.toNat?))
        | ["D", "close", run] => run.toNat?.map Call.close
        | _ => none
      match call with
      | some call => dssAnswer call ⟨a, b⟩ ⟨⟨c, d⟩, ret ≠ 0, ct⟩ ct cv
      | none => "bad-op"
    | _, _, _, _, _ => "bad-op"
  | [hd] =>
    match words hd with
    | ["T", lo, hi] =>
      match lo.toNat?, hi.toNat? with
      | some lo, some hi => tsAnswer lo hi
      | _, _ => "bad-op"
    | _ => "bad-op"
  | _ => "bad-op"

partial def loop (h : IO.FS.Stream) (out : IO.FS.Stream) : IO Unit := do
  let line ← h.getLine
  if line.isEmpty then return ()
  out.putStrLn (answer line)
  loop h out

def main : IO Unit := do
  loop (← IO.getStdin) (← IO.getStdout)
