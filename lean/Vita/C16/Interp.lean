/-
  C16 — meaning of the extracted container programs (Syntax.lean), as a small abstract machine.

  * integer arithmetic wraps at the width recorded in the expression (`std::size_t` 64, `unsigned` 32);
    division / remainder by zero, `random::sup(0)`, an iterator outside `[begin, end]`, an element
    access at `end()` or beyond are FAULTS (`none`): the C++ has undefined behaviour there;
  * `random::sup(a)` consumes the next raw value of the stream `draws` and reduces it modulo `a`
    (every value below `a` is possible, nothing else is assumed);
  * `std::partition` is any `Partitioner` (a permutation), the predicate's coin is `sel` by position;
  * `dataframe::push_back` has the single overload `(const example &)`, so `std::move(…,
    back_inserter(d))` copies exactly like `std::copy` (the translator checks the overload set);
  * `static_cast<ptrdiff_t>(target_size)` is the parameter `ts` applied to `validation_.size()`;
  * `dataframe::clone_schema(other)` assigns the metadata members only (`columns`, `classes_map_` – the
    translator extracts and checks the assignments): it copies the abstract schema identifier and
    touches no example.
-/
import Vita.C16.Model
import Vita.C16.Syntax
namespace Vita.C16

/-- what the code reads but does not own -/
structure Env where
  perc : Nat
  gap : Nat
  hasEvaT : Bool
  draws : Nat → Nat
  sel : Nat → Bool
  ts : Nat → Nat
  P : Partitioner

/-- per-example operations of the element type -/
structure ElemOps (α : Type) where
  reset : α → α
  older : α → α

def exOps : ElemOps Ex := ⟨Ex.reset, Ex.older⟩
/-- element types without counters (hold-out never touches them) -/
def idOps (α : Type) : ElemOps α := ⟨id, id⟩

/-- machine state -/
structure M (α : Type) where
  tr : List α
  va : List α
  loc : List (String × Nat)
  rng : Nat                       -- number of `random::sup` calls so far
  clT : Nat                       -- `clear()` calls on the training evaluator
  clV : Nat
  ret : Option (Option Bool)      -- `some v` once a `return v` was executed
  sch : Nat × Nat := (0, 0)       -- the metadata (columns, class labels) of training_ / validation_, as
                                  -- abstract identifiers: `clone_schema` copies one onto the other

namespace M
variable {α : Type}

def get (m : M α) (arg : Option Cont) : Cont → Option (List α)
  | .tr => some m.tr
  | .va => some m.va
  | .arg => match arg with
    | some .tr => some m.tr
    | some .va => some m.va
    | _ => none

def put (m : M α) (arg : Option Cont) (c : Cont) (l : List α) : Option (M α) :=
  match c with
  | .tr => some { m with tr := l }
  | .va => some { m with va := l }
  | .arg => match arg with
    | some .tr => some { m with tr := l }
    | some .va => some { m with va := l }
    | _ => none

def setRng (m : M α) (r : Nat) : M α := { m with rng := r }

def getSch (m : M α) (arg : Option Cont) : Cont → Option Nat
  | .tr => some m.sch.1
  | .va => some m.sch.2
  | .arg => match arg with
    | some .tr => some m.sch.1
    | some .va => some m.sch.2
    | _ => none

def putSch (m : M α) (arg : Option Cont) (c : Cont) (v : Nat) : Option (M α) :=
  match c with
  | .tr => some { m with sch := (v, m.sch.2) }
  | .va => some { m with sch := (m.sch.1, v) }
  | .arg => match arg with
    | some .tr => some { m with sch := (v, m.sch.2) }
    | some .va => some { m with sch := (m.sch.1, v) }
    | _ => none

def setLoc (m : M α) (x : String) (v : Nat) : M α :=
  { m with loc := (x, v) :: m.loc.filter (fun p => p.1 != x) }

end M

/-- arithmetic in an unsigned type of `w` bits.  (The big constant is always the LEFT summand: `Nat.add`
    recurses on its right argument, so the kernel gets stuck on a symbolic operand instead of peeling
    2^64 successors when it has to compare two machine terms.) -/
def addW (w x y : Nat) : Nat := (x + y) % 2 ^ w
def subW (w x y : Nat) : Nat := (2 ^ w + x % 2 ^ w - y % 2 ^ w) % 2 ^ w
def mulW (w x y : Nat) : Nat := (x * y) % 2 ^ w

/-- integer expressions; the second component is the updated draw counter -/
def evalIx {α} (env : Env) (arg : Option Cont) (m : M α) : IxE → Nat → Option (Nat × Nat)
  | .lit n, r => some (n, r)
  | .var x, r => (m.loc.lookup x).map (·, r)
  | .size c, r => (m.get arg c).map (fun l => (l.length, r))
  | .perc, r => some (env.perc, r)
  | .gap, r => some (env.gap, r)
  | .add w a b, r => do
      let (x, r) ← evalIx env arg m a r
      let (y, r) ← evalIx env arg m b r
      pure (addW w x y, r)
  | .sub w a b, r => do
      let (x, r) ← evalIx env arg m a r
      let (y, r) ← evalIx env arg m b r
      pure (subW w x y, r)
  | .mul w a b, r => do
      let (x, r) ← evalIx env arg m a r
      let (y, r) ← evalIx env arg m b r
      pure (mulW w x y, r)
  | .div a b, r => do
      let (x, r) ← evalIx env arg m a r
      let (y, r) ← evalIx env arg m b r
      if y = 0 then none else pure (x / y, r)
  | .mod a b, r => do
      let (x, r) ← evalIx env arg m a r
      let (y, r) ← evalIx env arg m b r
      if y = 0 then none else pure (x % y, r)
  | .max a b, r => do
      let (x, r) ← evalIx env arg m a r
      let (y, r) ← evalIx env arg m b r
      pure (Nat.max x y, r)
  | .sup a, r => do
      let (x, r) ← evalIx env arg m a r
      if x = 0 then none else pure (env.draws r % x, r + 1)
  | .target, r => some (env.ts m.va.length, r)

/-- conditions (lazy `||`, `&&`) -/
def evalB {α} (env : Env) (arg : Option Cont) (m : M α) : BE → Nat → Option (Bool × Nat)
  | .lt a b, r => do
      let (x, r) ← evalIx env arg m a r; let (y, r) ← evalIx env arg m b r; pure (decide (x < y), r)
  | .le a b, r => do
      let (x, r) ← evalIx env arg m a r; let (y, r) ← evalIx env arg m b r; pure (decide (x ≤ y), r)
  | .gt a b, r => do
      let (x, r) ← evalIx env arg m a r; let (y, r) ← evalIx env arg m b r; pure (decide (x > y), r)
  | .ge a b, r => do
      let (x, r) ← evalIx env arg m a r; let (y, r) ← evalIx env arg m b r; pure (decide (x ≥ y), r)
  | .eq a b, r => do
      let (x, r) ← evalIx env arg m a r; let (y, r) ← evalIx env arg m b r; pure (decide (x = y), r)
  | .ne a b, r => do
      let (x, r) ← evalIx env arg m a r; let (y, r) ← evalIx env arg m b r; pure (decide (x ≠ y), r)
  | .nz a, r => do
      let (x, r) ← evalIx env arg m a r; pure (decide (x ≠ 0), r)
  | .or a b, r => do
      let (x, r) ← evalB env arg m a r
      if x then pure (true, r) else evalB env arg m b r
  | .and a b, r => do
      let (x, r) ← evalB env arg m a r
      if x then evalB env arg m b r else pure (false, r)
  | .not a, r => do
      let (x, r) ← evalB env arg m a r; pure (!x, r)
  | .hasEvaT, r => some (env.hasEvaT, r)
  | .empty c, r => (m.get arg c).map (fun l => (l.isEmpty, r))

def applyFn {α} (ops : ElemOps α) : ElemFn → α → α
  | .resetAgeDiff => ops.reset
  | .incAge => ops.older

/-- how a nested call is executed (supplied by `runFn`) -/
abbrev CallFn (α : Type) := Fn → Option Cont → M α → Option (M α)

/-- one simple statement -/
def exec0 {α} (ops : ElemOps α) (callFn : CallFn α) (env : Env) (arg : Option Cont) (o : Op0) (m : M α) :
    Option (M α) :=
  match o with
  | .set x e => do
      let (v, r) ← evalIx env arg m e m.rng
      pure ((m.setRng r).setLoc x v)
  | .note _ _ => some m
  | .swap c i j => do
      let (a, r) ← evalIx env arg m i m.rng
      let (b, r) ← evalIx env arg m j r
      let l ← m.get arg c
      if a < l.length ∧ b < l.length then (m.setRng r).put arg c (swapAt l a b) else none
  | .copyBack s f l d | .moveBack s f l d => do
      let (a, r) ← evalIx env arg m f m.rng
      let (b, r) ← evalIx env arg m l r
      let src ← m.get arg s
      let dst ← m.get arg d
      if a ≤ b ∧ b ≤ src.length then (m.setRng r).put arg d (dst ++ (src.drop a).take (b - a)) else none
  | .erase c f l => do
      let (a, r) ← evalIx env arg m f m.rng
      let (b, r) ← evalIx env arg m l r
      let src ← m.get arg c
      if a ≤ b ∧ b ≤ src.length then (m.setRng r).put arg c (src.take a ++ src.drop b) else none
  | .clear c => m.put arg c []
  | .cloneSchema d s => do
      let v ← m.getSch arg s
      m.putSch arg d v
  | .partition c x => do
      let l ← m.get arg c
      let tagged := l.zipIdx.map fun (e, i) => (e, env.sel i)
      let parted := env.P.run (fun (y : α × Bool) => !y.2) tagged
      let m' ← m.put arg c (parted.map (·.1))
      pure (m'.setLoc x (parted.countP (fun y => !y.2)))
  | .forEach c f => do
      let l ← m.get arg c
      m.put arg c (l.map (applyFn ops f))
  | .clearEva .t => some { m with clT := m.clT + 1 }
  | .clearEva .v => some { m with clV := m.clV + 1 }
  | .call f a => callFn f (match a with | some .arg => arg | x => x) m
  | .ret v => some { m with ret := some v }

/-- a block of simple statements; nothing is executed after a `return` -/
def exec0s {α} (ops : ElemOps α) (callFn : CallFn α) (env : Env) (arg : Option Cont) :
    List Op0 → M α → Option (M α)
  | [], m => some m
  | o :: os, m =>
    if m.ret.isSome then some m
    else (exec0 ops callFn env arg o m).bind (exec0s ops callFn env arg os)

/-- `--i` on a `std::size_t` -/
def decr64 (v : Nat) : Nat := (18446744073709551615 + v) % 18446744073709551616

/-- `for (std::size_t i(start); cond; --i) body` after the initialisation; `--i` wraps at 2^64 -/
def loopDown {α} (ops : ElemOps α) (callFn : CallFn α) (env : Env) (arg : Option Cont)
    (i : String) (cond : BE) (body : List Op0) : Nat → M α → Option (M α)
  | 0, _ => none
  | fuel + 1, m =>
    if m.ret.isSome then some m
    else do
      let (c, r) ← evalB env arg m cond m.rng
      if c then do
        let m' ← exec0s ops callFn env arg body (m.setRng r)
        let v ← m'.loc.lookup i
        loopDown ops callFn env arg i cond body fuel (m'.setLoc i (decr64 v))
      else some (m.setRng r)

def execOp {α} (ops : ElemOps α) (callFn : CallFn α) (env : Env) (arg : Option Cont) (o : Op) (m : M α) :
    Option (M α) :=
  match o with
  | .s o => exec0 ops callFn env arg o m
  | .ifThen c body => do
      let (b, r) ← evalB env arg m c m.rng
      if b then exec0s ops callFn env arg body (m.setRng r) else some (m.setRng r)
  | .forDown i start cond body => do
      let (v, r) ← evalIx env arg m start m.rng
      loopDown ops callFn env arg i cond body (v + 2) ((m.setRng r).setLoc i v)

def execOps {α} (ops : ElemOps α) (callFn : CallFn α) (env : Env) (arg : Option Cont) :
    List Op → M α → Option (M α)
  | [], m => some m
  | o :: os, m =>
    if m.ret.isSome then some m
    else (execOp ops callFn env arg o m).bind (execOps ops callFn env arg os)

/-- a program: the body of every translated function -/
abbrev Prog := Fn → List Op

/-- call `f` (depth of nested calls bounded by the fuel): fresh locals `locals`, the callee's `return`
    does not end the caller -/
def runFn {α} (ops : ElemOps α) (prog : Prog) (env : Env) : Nat → Fn → List (String × Nat) → Option Cont →
    M α → Option (M α)
  | 0, _, _, _, _ => none
  | k + 1, f, locals, arg, m =>
    (execOps ops (fun g a m' => (runFn ops prog env k g [] a m').map
        (fun m'' => { m'' with loc := m'.loc, ret := m'.ret })) env arg (prog f)
      { m with loc := locals, ret := none })

/-- a nested call at depth `k`: the callee starts with fresh locals; the caller's locals and `return`
    status are restored afterwards -/
def callAt {α} (ops : ElemOps α) (prog : Prog) (env : Env) (k : Nat) : CallFn α :=
  fun g a m' => (runFn ops prog env k g [] a m').map (fun m'' => { m'' with loc := m'.loc, ret := m'.ret })

theorem runFn_succ {α} (ops : ElemOps α) (prog : Prog) (env : Env) (k : Nat) (f : Fn)
    (locals : List (String × Nat)) (arg : Option Cont) (m : M α) :
    runFn ops prog env (k + 1) f locals arg m =
      execOps ops (callAt ops prog env k) env arg (prog f) { m with loc := locals, ret := none } := rfl

/-- meaning of the float chain over ℚ -/
def FE.evalQ (n : Nat) : FE → Rat
  | .sizeD _ => (n : Rat)
  | .lit a b => (a : Rat) / (b : Rat)
  | .add a b => a.evalQ n + b.evalQ n
  | .mul a b => a.evalQ n * b.evalQ n
  | .div a b => a.evalQ n / b.evalQ n
  | .min a b => Min.min (a.evalQ n) (b.evalQ n)
  | .max a b => Max.max (a.evalQ n) (b.evalQ n)

/-- … and in hardware doubles, `std::min(a, b)` = `(b < a) ? b : a`, `std::max(a, b)` = `(a < b) ? b : a` -/
def FE.evalF (n : Nat) : FE → Float
  | .sizeD _ => n.toFloat
  | .lit a b => a.toFloat / b.toFloat
  | .add a b => a.evalF n + b.evalF n
  | .mul a b => a.evalF n * b.evalF n
  | .div a b => a.evalF n / b.evalF n
  | .min a b => let x := a.evalF n; let y := b.evalF n; if y < x then y else x
  | .max a b => let x := a.evalF n; let y := b.evalF n; if x < y then y else x

/-- meaning of the weight expression: every node in `std::uintmax_t` -/
def WE.eval (e : Ex) : WE → Nat
  | .diff => e.diff % 2 ^ 64
  | .age => e.age % 2 ^ 64
  | .cast64 a => a.eval e % 2 ^ 64
  | .add64 a b => (a.eval e + b.eval e) % 2 ^ 64
  | .mul64 a b => (a.eval e * b.eval e) % 2 ^ 64

def AccE.eval (a : AccE) (l : List Ex) : Nat :=
  l.foldl (fun s e => (s + a.term.eval e) % 2 ^ a.width) (a.init % 2 ^ a.width)

end Vita.C16
