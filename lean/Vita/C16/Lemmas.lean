/-
  C16 helper lemmas (hold-out shuffle, partition bookkeeping, target size over ℚ).
-/
import Vita.C16.Model
namespace Vita.C16

theorem swapAt_perm {α} (l : List α) (i j : Nat) : (swapAt l i j).Perm l := by
  unfold swapAt
  split
  · rename_i a b ha hb
    obtain ⟨hi, rfl⟩ := List.getElem?_eq_some_iff.mp ha
    obtain ⟨hj, rfl⟩ := List.getElem?_eq_some_iff.mp hb
    exact List.set_set_perm hi hj
  · exact List.Perm.refl _

theorem swapAt_length {α} (l : List α) (i j : Nat) : (swapAt l i j).length = l.length :=
  (swapAt_perm l i j).length_eq

theorem shuffleTail_perm {α} (draw : Nat → Nat) (k i : Nat) (l : List α) :
    (shuffleTail draw k i l).Perm l := by
  induction k generalizing i l with
  | zero => exact List.Perm.refl _
  | succ k ih => exact (ih _ _).trans (swapAt_perm _ _ _)

theorem skipOf_pos (n p : Nat) : 1 ≤ skipOf n p := by unfold skipOf; omega

theorem skipOf_le (n p : Nat) (h : 1 ≤ n) : skipOf n p ≤ n := by
  unfold skipOf
  have : n * (100 - p) / 100 ≤ n := by
    apply Nat.div_le_of_le_mul
    have : 100 - p ≤ 100 := by omega
    calc n * (100 - p) ≤ n * 100 := Nat.mul_le_mul_left _ this
      _ = 100 * n := Nat.mul_comm _ _
  omega


/-! ## DSS -/

theorem ids_resetAD (l : List Ex) : ids (resetAD l) = ids l := by
  simp [ids, resetAD, Ex.reset, List.map_map, Function.comp_def]

theorem ids_incAge (l : List Ex) : ids (incAge l) = ids l := by
  simp [ids, incAge, Ex.older, List.map_map, Function.comp_def]

theorem ids_append (a b : List Ex) : ids (a ++ b) = ids a ++ ids b := by simp [ids]

theorem resetAD_length (l : List Ex) : (resetAD l).length = l.length := by simp [resetAD]

theorem mem_resetAD {e : Ex} {l : List Ex} (h : e ∈ resetAD l) : e.age = 1 ∧ e.diff = 0 := by
  simp only [resetAD, List.mem_map] at h
  obtain ⟨a, _, rfl⟩ := h
  simp [Ex.reset]

theorem tagged_fst {α} (l : List α) (sel : Nat → Bool) :
    (l.zipIdx.map fun (e, i) => (e, sel i)).map (·.1) = l := by
  rw [List.map_map]
  have : ((fun (x : α × Bool) => x.1) ∘ fun (x : α × Nat) => (x.1, sel x.2)) = Prod.fst := by
    funext x; rfl
  simp [this]

/-- the pivot finally used by `shake_impl` is strictly inside the range -/
theorem pivot_inside (ts : Nat → Nat) (hts : TsOK ts) (len c : Nat) (hlen : 2 ≤ len) (hc : c ≤ len) :
    let pivot := if c = 0 ∨ c = len then ts len else c
    1 ≤ pivot ∧ pivot < len := by
  intro pivot
  have := hts len hlen
  simp only [pivot]
  split <;> omega


/-- the ℚ version of `target_size` is strictly inside `[1, s)` for every `s ≥ 2` -/
theorem targetSizeQ_inside : TsOK targetSizeQ := by
  intro n hn
  unfold targetSizeQ
  simp only
  generalize hr : (min (3 / 5 : Rat) (1 / 5 + 100 / ((n : Rat) + 100))) = ratio
  have hr2 : ratio ≤ 3/5 := by grind
  have hn' : (2 : Rat) ≤ (n : Rat) := by exact_mod_cast hn
  have hx1 : (1 : Rat) ≤ max 1 ((n : Rat) * ratio) := by grind
  have hx2 : max 1 ((n : Rat) * ratio) < (n : Rat) := by
    have : (n : Rat) * ratio ≤ (n : Rat) * (3/5) := by
      apply Rat.mul_le_mul_of_nonneg_left hr2; grind
    grind
  have h1 : (1 : Int) ≤ (max 1 ((n : Rat) * ratio)).floor := Rat.le_floor_iff.mpr (by simpa using hx1)
  have h2 : (max 1 ((n : Rat) * ratio)).floor < ((n : Nat) : Int) :=
    Rat.floor_lt_iff.mpr (by exact_mod_cast hx2)
  omega


/-! ## the main facts about the two step functions (used by Props.lean and ProtoLemmas.lean) -/

/-- hold-out conserves the examples (any element type) -/
theorem holdoutInit_perm {α} (draw : Nat → Nat) (p run : Nat) (s : Sets α) :
    ((holdoutInit draw p run s).tr ++ (holdoutInit draw p run s).va).Perm (s.tr ++ s.va) := by
  unfold holdoutInit
  split
  · exact List.Perm.refl _
  · simp only
    have hsh := shuffleTail_perm draw (s.tr.length - skipOf s.tr.length p) (s.tr.length - 1) s.tr
    generalize shuffleTail draw _ _ s.tr = sh at *
    have : (sh.take (skipOf s.tr.length p) ++ (s.va ++ sh.drop (skipOf s.tr.length p))).Perm
        (s.va ++ (sh.take (skipOf s.tr.length p) ++ sh.drop (skipOf s.tr.length p))) := by
      rw [← List.append_assoc, ← List.append_assoc]
      exact List.Perm.append_right _ List.perm_append_comm
    refine this.trans ?_
    rw [List.take_append_drop]
    exact (List.Perm.append_left _ hsh).trans List.perm_append_comm

/-- … and therefore the payload ids -/
theorem holdoutInit_ids_perm (draw : Nat → Nat) (p run : Nat) (s : Sets Ex) :
    (ids ((holdoutInit draw p run s).tr ++ (holdoutInit draw p run s).va)).Perm (ids (s.tr ++ s.va)) :=
  (holdoutInit_perm draw p run s).map _

theorem holdoutInit_later {α} (draw : Nat → Nat) (p run : Nat) (s : Sets α) (h : 0 < run) :
    holdoutInit draw p run s = s := by
  simp [holdoutInit, h]

theorem holdoutInit_share {α} (draw : Nat → Nat) (p : Nat) (s : Sets α) (hn : 1 ≤ s.tr.length) :
    (holdoutInit draw p 0 s).tr.length = max (s.tr.length * (100 - p) / 100) 1 ∧
    (holdoutInit draw p 0 s).tr ≠ [] ∧
    (holdoutInit draw p 0 s).va.length = s.va.length + (s.tr.length - max (s.tr.length * (100 - p) / 100) 1) := by
  have hsh := shuffleTail_perm draw (s.tr.length - skipOf s.tr.length p) (s.tr.length - 1) s.tr
  have hle := skipOf_le s.tr.length p hn
  have hpos := skipOf_pos s.tr.length p
  have hlen := hsh.length_eq
  have h1 : (holdoutInit draw p 0 s).tr.length = skipOf s.tr.length p := by
    simp only [holdoutInit, Nat.lt_irrefl, ↓reduceIte, List.length_take]; omega
  refine ⟨h1, ?_, ?_⟩
  · intro h; rw [h] at h1; simp at h1; omega
  · simp only [holdoutInit, Nat.lt_irrefl, ↓reduceIte, List.length_append, List.length_drop]
    unfold skipOf at *; omega

/-- `shake_impl` satisfies the reshuffle relation -/
theorem shakeImpl_reshuffle (P : Partitioner) (ts : Nat → Nat) (hts : TsOK ts) (sel : Nat → Bool) (s : St)
    (hn : 2 ≤ s.tr.length + s.va.length) : ReshuffleStep s (shakeImpl P ts sel s) := by
  unfold shakeImpl moveToValidation
  simp only
  generalize htag : ((s.va ++ s.tr).zipIdx.map fun (e, i) => (e, sel i)) = tagged
  have hperm := P.perm (fun (x : Ex × Bool) => !x.2) tagged
  generalize P.run (fun (x : Ex × Bool) => !x.2) tagged = parted at *
  have hv : (parted.map (·.1)).Perm (s.va ++ s.tr) := by
    have := hperm.map (·.1)
    rw [← htag, tagged_fst] at this
    exact this
  have hlen : parted.length = s.va.length + s.tr.length := by
    have := hv.length_eq; simpa using this
  have hc : parted.countP (fun x => !x.2) ≤ parted.length := List.countP_le_length
  have hp := pivot_inside ts hts parted.length (parted.countP (fun x => !x.2)) (by omega) hc
  simp only at hp
  generalize (if parted.countP (fun x => !x.2) = 0 ∨ parted.countP (fun x => !x.2) = parted.length
      then ts parted.length else parted.countP (fun x => !x.2)) = pivot at *
  generalize parted.map (·.1) = v at *
  have hvl : v.length = parted.length := by have := hv.length_eq; simp at this; omega
  refine ⟨?_, ?_, ?_, ?_, ?_⟩
  · intro h
    have := congrArg List.length h
    simp [resetAD_length] at this; omega
  · intro h
    have : (v.take pivot).length = 0 := by
      have := congrArg List.length h
      exact this
    rw [List.length_take] at this; omega
  · intro e he; exact mem_resetAD he
  · intro e _
    calc (v.take pivot).count e ≤ v.count e := (List.take_sublist _ _).count_le _
      _ = (s.va ++ s.tr).count e := hv.count_eq e
  · rw [ids_append, ids_resetAD, ← ids_append]
    have h1 : (v.drop pivot ++ v.take pivot).Perm v := by
      have := List.take_append_drop pivot v
      exact List.perm_append_comm.trans (by rw [this])
    exact (h1.map _).trans (hv.map _)

end Vita.C16
