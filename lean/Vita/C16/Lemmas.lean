/-
  C16 helper lemmas (hold-out shuffle, partition bookkeeping, target size over ℚ).
-/
import Vita.C16.Model
namespace Vita.C16

theorem swapAt_perm {α} (l : List α) (i j : Nat) : (swapAt l i j).Perm l := by
  unfold swapAt
  split
  · rename_i a b ha hb
    obtain ⟨hi, rfl⟩ := List.getElem?_eq_some_iff.mp ha
    obtain ⟨hj, rfl⟩ := List.getElem?_eq_some_iff.mp hb
    exact List.set_set_perm hi hj
  · exact List.Perm.refl _

theorem swapAt_length {α} (l : List α) (i j : Nat) : (swapAt l i j).length = l.length :=
  (swapAt_perm l i j).length_eq

theorem shuffleTail_perm {α} (draw : Nat → Nat) (k i : Nat) (l : List α) :
    (shuffleTail draw k i l).Perm l := by
  induction k generalizing i l with
  | zero => exact List.Perm.refl _
  | succ k ih => exact (ih _ _).trans (swapAt_perm _ _ _)

theorem skipOf_pos (n p : Nat) : 1 ≤ skipOf n p := by unfold skipOf; omega

theorem skipOf_le (n p : Nat) (h : 1 ≤ n) : skipOf n p ≤ n := by
  unfold skipOf
  have : n * (100 - p) / 100 ≤ n := by
    apply Nat.div_le_of_le_mul
    have : 100 - p ≤ 100 := by omega
    calc n * (100 - p) ≤ n * 100 := Nat.mul_le_mul_left _ this
      _ = 100 * n := Nat.mul_comm _ _
  omega


/-! ## DSS -/

theorem ids_resetAD (l : List Ex) : ids (resetAD l) = ids l := by
  simp [ids, resetAD, Ex.reset, List.map_map, Function.comp_def]

theorem ids_incAge (l : List Ex) : ids (incAge l) = ids l := by
  simp [ids, incAge, Ex.older, List.map_map, Function.comp_def]

theorem ids_append (a b : List Ex) : ids (a ++ b) = ids a ++ ids b := by simp [ids]

theorem resetAD_length (l : List Ex) : (resetAD l).length = l.length := by simp [resetAD]

theorem mem_resetAD {e : Ex} {l : List Ex} (h : e ∈ resetAD l) : e.age = 1 ∧ e.diff = 0 := by
  simp only [resetAD, List.mem_map] at h
  obtain ⟨a, _, rfl⟩ := h
  simp [Ex.reset]

theorem tagged_fst {α} (l : List α) (sel : Nat → Bool) :
    (l.zipIdx.map fun (e, i) => (e, sel i)).map (·.1) = l := by
  rw [List.map_map]
  have : ((fun (x : α × Bool) => x.1) ∘ fun (x : α × Nat) => (x.1, sel x.2)) = Prod.fst := by
    funext x; rfl
  simp [this]

/-- the pivot finally used by `shake_impl` is strictly inside the range -/
theorem pivot_inside (ts : Nat → Nat) (hts : TsOK ts) (len c : Nat) (hlen : 2 ≤ len) (hc : c ≤ len) :
    let pivot := if c = 0 ∨ c = len then ts len else c
    1 ≤ pivot ∧ pivot < len := by
  intro pivot
  have := hts len hlen
  simp only [pivot]
  split <;> omega


/-- the ℚ version of `target_size` is strictly inside `[1, s)` for every `s ≥ 2` -/
theorem targetSizeQ_inside : TsOK targetSizeQ := by
  intro n hn
  unfold targetSizeQ
  simp only
  generalize hr : (min (3 / 5 : Rat) (1 / 5 + 100 / ((n : Rat) + 100))) = ratio
  have hr2 : ratio ≤ 3/5 := by grind
  have hn' : (2 : Rat) ≤ (n : Rat) := by exact_mod_cast hn
  have hx1 : (1 : Rat) ≤ max 1 ((n : Rat) * ratio) := by grind
  have hx2 : max 1 ((n : Rat) * ratio) < (n : Rat) := by
    have : (n : Rat) * ratio ≤ (n : Rat) * (3/5) := by
      apply Rat.mul_le_mul_of_nonneg_left hr2; grind
    grind
  have h1 : (1 : Int) ≤ (max 1 ((n : Rat) * ratio)).floor := Rat.le_floor_iff.mpr (by simpa using hx1)
  have h2 : (max 1 ((n : Rat) * ratio)).floor < ((n : Nat) : Int) :=
    Rat.floor_lt_iff.mpr (by exact_mod_cast hx2)
  omega

end Vita.C16
