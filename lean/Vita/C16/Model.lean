/-
  C16 — validation strategies only move examples between the two sets.

  Model of
    src/kernel/gp/src/holdout_validation.cc   holdout_validation::init
    src/kernel/gp/src/dss.cc                  dss::init / shake / shake_impl / close /
                                              move_to_validation / reset_age_difficulty / weight
  over lists of examples, every random choice an explicit argument (`draw`, `sel`).

  What is idealised (see design/C16.md):
  * `std::size_t` / `std::uintmax_t` arithmetic is `Nat` (no wrap-around: sizes·100 and age³ stay far
    below 2^64 for any data set that fits in memory / any run that terminates);
  * `std::partition` is modelled by its *specification* (`Partitioner`: a permutation; the predicate is
    applied exactly once per element, so a draw attached to the position is as general as a draw
    attached to the call);
  * the `double` computation of `target_size` is a parameter `ts : Nat → Nat` constrained by `TsOK`;
    `targetSizeQ` is the same formula over ℚ and is proved to satisfy `TsOK`.
-/
namespace Vita.C16

/-! ## hold-out (generic in the element type) -/

/-- `std::iter_swap(begin+i, begin+j)` -/
def swapAt {α} (l : List α) (i j : Nat) : List α :=
  match l[i]?, l[j]? with
  | some a, some b => (l.set i b).set j a
  | _, _ => l

/-- `for (i = start; <steps more iterations>; --i) iter_swap(begin+i, begin+draw(i))`
    – the partial Fisher–Yates loop of `holdout_validation::init`; `draw i` is the value returned by
    `random::sup(i + 1)` in the iteration with index `i`. -/
def shuffleTail {α} (draw : Nat → Nat) : (steps : Nat) → (i : Nat) → List α → List α
  | 0, _, l => l
  | k + 1, i, l => shuffleTail draw k (i - 1) (swapAt l i (draw i))

/-- `std::max<size_t>(available * (100 - perc) / 100, 1)` -/
def skipOf (n p : Nat) : Nat := max (n * (100 - p) / 100) 1

structure Sets (α : Type) where
  tr : List α
  va : List α
deriving DecidableEq, Repr

/-- `holdout_validation::init(run)` -/
def holdoutInit {α} (draw : Nat → Nat) (p run : Nat) (s : Sets α) : Sets α :=
  if run > 0 then s
  else
    let n := s.tr.length
    let skip := skipOf n p
    let sh := shuffleTail draw (n - skip) (n - 1) s.tr
    ⟨sh.take skip, s.va ++ sh.drop skip⟩

/-- result of `holdout_validation::init`: the sets and the number of `eva_t_->clear()` calls -/
structure HRes (α : Type) where
  st : Sets α
  clears : Nat

/-- `holdout_validation::init(run)` with the optional training evaluator (`hasEva` = the pointer is
    non-null): cached fitness values are dropped after the split (run 0 only). -/
def holdoutInitR {α} (draw : Nat → Nat) (p run : Nat) (hasEva : Bool) (s : Sets α) : HRes α :=
  ⟨holdoutInit draw p run s, if run = 0 ∧ hasEva = true then 1 else 0⟩

/-! ## dynamic subset selection -/

/-- A `dataframe::example`: `id` stands for the payload `(input, output)`. -/
structure Ex where
  id : Nat
  age : Nat
  diff : Nat
deriving DecidableEq, Repr

abbrev St := Sets Ex

def Ex.reset (e : Ex) : Ex := { e with age := 1, diff := 0 }
/-- `++e.age` on an `unsigned`: wraps at 2^32 -/
def Ex.older (e : Ex) : Ex := { e with age := (e.age + 1) % 2 ^ 32 }

/-- `dss::reset_age_difficulty` -/
def resetAD (l : List Ex) : List Ex := l.map Ex.reset
/-- `for_each(…, inc_age)` in `dss::shake` -/
def incAge (l : List Ex) : List Ex := l.map Ex.older

/-- `weight(example)` (unnamed namespace of dss.cc) over the naturals (no wrap) -/
def weight (e : Ex) : Nat := e.diff + e.age * e.age * e.age

/-- `weight(example)` as the machine computes it: every operation in `std::uintmax_t` (64 bits) -/
def weight64 (e : Ex) : Nat :=
  (e.diff % 2 ^ 64 + (e.age % 2 ^ 64 * (e.age % 2 ^ 64) % 2 ^ 64 * (e.age % 2 ^ 64)) % 2 ^ 64) % 2 ^ 64

/-- `std::accumulate(begin, end, std::uintmax_t(0), s + weight(e))` -/
def weightSum64 (l : List Ex) : Nat := l.foldl (fun s e => (s + weight64 e) % 2 ^ 64) 0

/-- `dss::move_to_validation` -/
def moveToValidation (s : St) : St := ⟨[], s.va ++ s.tr⟩

/-- `std::partition` by the part of its specification the property depends on: the result is a
    permutation of the input (that the elements satisfying the predicate come first only matters for
    *which* examples are selected, not for conservation). -/
structure Partitioner where
  run : {β : Type} → (β → Bool) → List β → List β
  perm : ∀ {β : Type} (p : β → Bool) (l : List β), (run p l).Perm l

/-- the stable partition, one instance of the specification (used by the compiled driver) -/
def stablePartition : Partitioner where
  run p l := l.filter p ++ l.filter (fun x => !p x)
  perm p l := by
    simpa using (List.filter_append_perm p l)

/-- `target_size` of `dss::shake_impl` over ℚ:
    `max 1 (s · min 0.6 (0.2 + 100 / (s + 100)))`, truncated. -/
def targetSizeQ (n : Nat) : Nat :=
  let s : Rat := n
  let ratio : Rat := min (3 / 5) (1 / 5 + 100 / (s + 100))
  (max 1 (s * ratio)).floor.toNat

/-- what the theorems need from the (floating-point) target size -/
def TsOK (ts : Nat → Nat) : Prop := ∀ n, 2 ≤ n → 1 ≤ ts n ∧ ts n < n

/-- `dss::shake_impl`.  `sel i = true` iff `random::boolean(prob)` returned `true` for the example at
    position `i` of the validation set after `move_to_validation` (the example is selected for
    training). -/
def shakeImpl (P : Partitioner) (ts : Nat → Nat) (sel : Nat → Bool) (s : St) : St :=
  let all := (moveToValidation s).va
  let tagged := all.zipIdx.map fun (e, i) => (e, sel i)
  let parted := P.run (fun (x : Ex × Bool) => !x.2) tagged
  let pivot0 := parted.countP (fun x => !x.2)
  let pivot := if pivot0 = 0 ∨ pivot0 = parted.length then ts parted.length else pivot0
  let v := parted.map (·.1)
  ⟨resetAD (v.drop pivot), v.take pivot⟩

/-- result of a strategy call: new sets, return value, number of `clear_evaluators()` calls -/
structure Res where
  st : St
  ret : Bool
  clears : Nat

/-- `dss::init(run)` -/
def dssInit (P : Partitioner) (ts : Nat → Nat) (sel : Nat → Bool) (s : St) : Res :=
  ⟨shakeImpl P ts sel ⟨resetAD s.tr, resetAD s.va⟩, false, 1⟩

/-- `dss::shake(generation)` with `gap = *env.dss` -/
def dssShake (P : Partitioner) (ts : Nat → Nat) (gap g : Nat) (sel : Nat → Bool) (s : St) : Res :=
  if g = 0 ∨ g % gap ≠ 0 then ⟨s, false, 0⟩
  else ⟨shakeImpl P ts sel ⟨incAge s.tr, incAge s.va⟩, true, 1⟩

/-- `dss::close(run)` -/
def dssClose (s : St) : Res := ⟨moveToValidation s, false, 1⟩

/-! ## step relations decided by the driver on observed executions -/

def ids (l : List Ex) : List Nat := l.map (·.id)

/-- hold-out, one call of `init(run)` with percentage `p` -/
def HoldoutStep {α} (p run : Nat) (pre post : Sets α) : Prop :=
  if run > 0 then post = pre
  else post.va.take pre.va.length = pre.va ∧
       (post.tr ++ post.va.drop pre.va.length).Perm pre.tr ∧
       post.tr.length = skipOf pre.tr.length p

/-- one reshuffle (`shake_impl` after the counters were updated to `pre`) -/
def ReshuffleStep (pre post : St) : Prop :=
  post.tr ≠ [] ∧ post.va ≠ [] ∧
  (∀ e ∈ post.tr, e.age = 1 ∧ e.diff = 0) ∧
  (∀ e ∈ post.va, post.va.count e ≤ (pre.va ++ pre.tr).count e) ∧
  (ids (post.tr ++ post.va)).Perm (ids (pre.va ++ pre.tr))

/-- hold-out with the evaluator: the step relation plus the number of clears -/
def HoldoutStepR {α} (p run : Nat) (hasEva : Bool) (pre post : Sets α) (clears : Nat) : Prop :=
  HoldoutStep p run pre post ∧ clears = if run = 0 ∧ hasEva = true then 1 else 0

/-- what an evaluator pass may change: only `difficulty` -/
def key (e : Ex) : Nat × Nat := (e.id, e.age)
def EvalRel (pre post : St) : Prop := pre.tr.map key = post.tr.map key ∧ pre.va.map key = post.va.map key

/-- a reshuffle followed by evaluations of the new training frame (what a callback sees) -/
def ReshuffleObs (pre post : St) : Prop :=
  post.tr ≠ [] ∧ post.va ≠ [] ∧
  (∀ e ∈ post.tr, e.age = 1) ∧
  (∀ e ∈ post.va, post.va.count e ≤ (pre.va ++ pre.tr).count e) ∧
  (ids (post.tr ++ post.va)).Perm (ids (pre.va ++ pre.tr))

/-- from one after_generation callback to the next one of the same run, DSS with period `gap`
    (`shake(g)`, re-evaluation, breeding) -/
def GenObs (gap g : Nat) (pre post : St) : Prop :=
  if g = 0 ∨ g % gap ≠ 0 then EvalRel pre post ∧ post.va = pre.va
  else ReshuffleObs ⟨incAge pre.tr, incAge pre.va⟩ post

/-- from the end of a run / the start of the search to the first callback of the next run, DSS
    (`close`, metrics, `init`, evaluations, `shake(0)`) -/
def FreshObs (pre post : St) : Prop :=
  post.tr ≠ [] ∧ post.va ≠ [] ∧ (∀ e ∈ post.tr, e.age = 1) ∧ (∀ e ∈ post.va, e.age = 1 ∧ e.diff = 0) ∧
  (ids (post.tr ++ post.va)).Perm (ids (pre.tr ++ pre.va))

/-- from the last callback to the return of `search::run`, DSS (`close`, metrics) -/
def EndObs (pre post : St) : Prop :=
  post.tr = [] ∧ post.va.map key = (pre.va ++ pre.tr).map key

inductive Call
  | init (run : Nat)
  | shake (gap g : Nat)
  | close (run : Nat)
deriving Repr

/-- the relation between the observable state before and after one call of the `dss` interface -/
def DssStep (c : Call) (pre : St) (r : Res) : Prop :=
  match c with
  | .init _ => ReshuffleStep ⟨resetAD pre.tr, resetAD pre.va⟩ r.st ∧ r.clears = 1
  | .shake gap g =>
      if g = 0 ∨ g % gap ≠ 0 then r.st = pre ∧ r.ret = false ∧ r.clears = 0
      else ReshuffleStep ⟨incAge pre.tr, incAge pre.va⟩ r.st ∧ r.ret = true ∧ r.clears = 1
  | .close _ => r.st.tr = [] ∧ r.st.va = pre.va ++ pre.tr ∧ r.clears = 1

/-- one call of the modelled interface -/
def applyCall (P : Partitioner) (ts : Nat → Nat) (c : Call) (sel : Nat → Bool) (s : St) : Res :=
  match c with
  | .init _ => dssInit P ts sel s
  | .shake gap g => dssShake P ts gap g sel s
  | .close _ => dssClose s


end Vita.C16
