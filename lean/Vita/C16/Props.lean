/-
  C16 — property theorems.  Statements in words: design/C16.md.
-/
import Vita.C16.Lemmas
import Vita.Common.RngLemmas
namespace Vita.C16

/-! ## hold-out -/

/-- The model function satisfies the step relation the driver decides on observed executions. -/
theorem holdout_step {α} (draw : Nat → Nat) (p run : Nat) (s : Sets α) (hn : 1 ≤ s.tr.length) :
    HoldoutStep p run s (holdoutInit draw p run s) := by
  unfold HoldoutStep holdoutInit
  split
  · rfl
  · simp only
    have hsh := shuffleTail_perm draw (s.tr.length - skipOf s.tr.length p) (s.tr.length - 1) s.tr
    generalize shuffleTail draw _ _ s.tr = sh at *
    refine ⟨by simp, ?_, ?_⟩
    · simp only [List.drop_left, List.take_append_drop]
      exact hsh
    · have := skipOf_le s.tr.length p hn
      have := hsh.length_eq
      simp only [List.length_take]; omega

/-- Any observed step that satisfies the relation conserves the examples (multiset of both sets). -/
theorem holdoutStep_perm {α} {p run : Nat} {pre post : Sets α} (h : HoldoutStep p run pre post) :
    (post.tr ++ post.va).Perm (pre.tr ++ pre.va) := by
  unfold HoldoutStep at h
  split at h
  · rw [h]
  · obtain ⟨h1, h2, _⟩ := h
    have hv : post.va = pre.va ++ post.va.drop pre.va.length := by
      conv => lhs; rw [← List.take_append_drop pre.va.length post.va, h1]
    rw [hv]
    refine List.Perm.trans ?_ (List.Perm.append_right _ h2)
    simp only [List.append_assoc]
    exact List.Perm.append_left _ List.perm_append_comm

/-- Nothing is lost, duplicated or altered: for ALL draws, percentages, run numbers and contents of
    both sets, training ++ validation after `init` is a permutation of training ++ validation before. -/
theorem holdout_perm {α} (draw : Nat → Nat) (p run : Nat) (s : Sets α) :
    ((holdoutInit draw p run s).tr ++ (holdoutInit draw p run s).va).Perm (s.tr ++ s.va) := by
  unfold holdoutInit
  split
  · exact List.Perm.refl _
  · simp only
    have hsh := shuffleTail_perm draw (s.tr.length - skipOf s.tr.length p) (s.tr.length - 1) s.tr
    generalize shuffleTail draw _ _ s.tr = sh at *
    have : (sh.take (skipOf s.tr.length p) ++ (s.va ++ sh.drop (skipOf s.tr.length p))).Perm
        (s.va ++ (sh.take (skipOf s.tr.length p) ++ sh.drop (skipOf s.tr.length p))) := by
      rw [← List.append_assoc, ← List.append_assoc]
      exact List.Perm.append_right _ List.perm_append_comm
    refine this.trans ?_
    rw [List.take_append_drop]
    exact (List.Perm.append_left _ hsh).trans List.perm_append_comm

/-- After the set-up (run 0) the training set has the computed share `max (n·(100−p)/100) 1`
    and is never empty; the validation set receives exactly the remaining `n − share` examples. -/
theorem holdout_share {α} (draw : Nat → Nat) (p : Nat) (s : Sets α) (hn : 1 ≤ s.tr.length) :
    (holdoutInit draw p 0 s).tr.length = max (s.tr.length * (100 - p) / 100) 1 ∧
    (holdoutInit draw p 0 s).tr ≠ [] ∧
    (holdoutInit draw p 0 s).va.length = s.va.length + (s.tr.length - max (s.tr.length * (100 - p) / 100) 1) := by
  have hsh := shuffleTail_perm draw (s.tr.length - skipOf s.tr.length p) (s.tr.length - 1) s.tr
  have hle := skipOf_le s.tr.length p hn
  have hpos := skipOf_pos s.tr.length p
  have hlen := hsh.length_eq
  have h1 : (holdoutInit draw p 0 s).tr.length = skipOf s.tr.length p := by
    simp only [holdoutInit, Nat.lt_irrefl, ↓reduceIte, List.length_take]; omega
  refine ⟨h1, ?_, ?_⟩
  · intro h; rw [h] at h1; simp at h1; omega
  · simp only [holdoutInit, Nat.lt_irrefl, ↓reduceIte, List.length_append, List.length_drop]
    unfold skipOf at *; omega

/-- Later runs leave the split alone. -/
theorem holdout_later_runs_id {α} (draw : Nat → Nat) (p run : Nat) (s : Sets α) (h : 0 < run) :
    holdoutInit draw p run s = s := by
  simp [holdoutInit, h]

/-- Whole histories: any sequence of `init(run)` calls (any run numbers, any draws) conserves the
    examples. -/
theorem holdout_history_perm {α} (p : Nat) (calls : List (Nat × (Nat → Nat))) (s : Sets α) :
    let s' := calls.foldl (fun st c => holdoutInit c.2 p c.1 st) s
    (s'.tr ++ s'.va).Perm (s.tr ++ s.va) := by
  induction calls generalizing s with
  | nil => exact List.Perm.refl _
  | cons c cs ih => exact (ih _).trans (holdout_perm c.2 p c.1 s)

/-- The index `random::sup(i + 1)` drawn in iteration `i` of the shuffle is at most `i`, for every
    engine state (libstdc++'s algorithm as modelled in Vita/Common/Rng.lean): `iter_swap` never leaves
    the array and the model's `swapAt` never takes its out-of-range branch on real draws. -/
theorem holdout_draw_in_bounds (i : Nat) (e : Vita.Rng.Xo) (hi : i + 1 ≤ 2 ^ 64) :
    (Vita.Rng.sup (i + 1) e).1 ≤ i := by
  have := Vita.Rng.sup_lt (i + 1) e (by omega) hi
  omega

/-! ## dynamic subset selection -/

/-- `shake_impl` satisfies the reshuffle relation: both sets non-empty, selected examples have their
    counters restarted, validation examples are unaltered members of the pool, payload conserved. -/
theorem shakeImpl_step (P : Partitioner) (ts : Nat → Nat) (hts : TsOK ts) (sel : Nat → Bool) (s : St)
    (hn : 2 ≤ s.tr.length + s.va.length) : ReshuffleStep s (shakeImpl P ts sel s) := by
  unfold shakeImpl moveToValidation
  simp only
  generalize htag : ((s.va ++ s.tr).zipIdx.map fun (e, i) => (e, sel i)) = tagged
  have hperm := P.perm (fun (x : Ex × Bool) => !x.2) tagged
  generalize P.run (fun (x : Ex × Bool) => !x.2) tagged = parted at *
  have hv : (parted.map (·.1)).Perm (s.va ++ s.tr) := by
    have := hperm.map (·.1)
    rw [← htag, tagged_fst] at this
    exact this
  have hlen : parted.length = s.va.length + s.tr.length := by
    have := hv.length_eq; simpa using this
  have hc : parted.countP (fun x => !x.2) ≤ parted.length := List.countP_le_length
  have hp := pivot_inside ts hts parted.length (parted.countP (fun x => !x.2)) (by omega) hc
  simp only at hp
  generalize (if parted.countP (fun x => !x.2) = 0 ∨ parted.countP (fun x => !x.2) = parted.length
      then ts parted.length else parted.countP (fun x => !x.2)) = pivot at *
  generalize parted.map (·.1) = v at *
  have hvl : v.length = parted.length := by have := hv.length_eq; simp at this; omega
  refine ⟨?_, ?_, ?_, ?_, ?_⟩
  · intro h
    have := congrArg List.length h
    simp [resetAD_length] at this; omega
  · intro h
    have : (v.take pivot).length = 0 := by
      have := congrArg List.length h
      exact this
    rw [List.length_take] at this; omega
  · intro e he; exact mem_resetAD he
  · intro e _
    calc (v.take pivot).count e ≤ v.count e := (List.take_sublist _ _).count_le _
      _ = (s.va ++ s.tr).count e := hv.count_eq e
  · rw [ids_append, ids_resetAD, ← ids_append]
    have h1 : (v.drop pivot ++ v.take pivot).Perm v := by
      have := List.take_append_drop pivot v
      exact List.perm_append_comm.trans (by rw [this])
    exact (h1.map _).trans (hv.map _)

/-- every call of the modelled `dss` interface satisfies the step relation decided by the driver -/
theorem dss_step_init (P ts) (hts : TsOK ts) (sel run) (s : St) (hn : 2 ≤ s.tr.length + s.va.length) :
    DssStep (.init run) s (dssInit P ts sel s) := by
  refine ⟨shakeImpl_step P ts hts sel _ ?_, rfl⟩
  simpa [resetAD_length] using hn

theorem dss_step_shake (P ts) (hts : TsOK ts) (gap g sel) (s : St) (hn : 2 ≤ s.tr.length + s.va.length) :
    DssStep (.shake gap g) s (dssShake P ts gap g sel s) := by
  unfold DssStep dssShake
  simp only
  split
  · exact ⟨rfl, rfl, rfl⟩
  · refine ⟨shakeImpl_step P ts hts sel _ ?_, rfl, rfl⟩
    simpa [incAge] using hn

theorem dss_step_close (run) (s : St) : DssStep (.close run) s (dssClose s) :=
  ⟨rfl, rfl, rfl⟩

/-- Conservation for the whole interface: after `init`, after every `shake` (reshuffling or not) and
    after `close`, the payloads of training ++ validation are a permutation of those before. -/
theorem dss_perm (c : Call) (pre : St) (r : Res) (h : DssStep c pre r) :
    (ids (r.st.tr ++ r.st.va)).Perm (ids (pre.tr ++ pre.va)) := by
  have comm : (ids (pre.va ++ pre.tr)).Perm (ids (pre.tr ++ pre.va)) := by
    rw [ids_append, ids_append]; exact List.perm_append_comm
  cases c with
  | init run =>
    obtain ⟨⟨_, _, _, _, h5⟩, _⟩ := h
    simp only [ids_append, ids_resetAD] at h5 ⊢
    exact h5.trans List.perm_append_comm
  | shake gap g =>
    unfold DssStep at h
    simp only at h
    split at h
    · rw [h.1]
    · obtain ⟨⟨_, _, _, _, h5⟩, _⟩ := h
      simp only [ids_append, ids_incAge] at h5 ⊢
      exact h5.trans List.perm_append_comm
  | close run =>
    obtain ⟨h1, h2, _⟩ := h
    rw [h1, h2]; simpa using comm

/-- Every reshuffle (init, or shake at a multiple of the period) leaves both sets non-empty. -/
theorem dss_nonempty (P ts) (hts : TsOK ts) (sel : Nat → Bool) (s : St)
    (hn : 2 ≤ s.tr.length + s.va.length) :
    (shakeImpl P ts sel s).tr ≠ [] ∧ (shakeImpl P ts sel s).va ≠ [] :=
  let h := shakeImpl_step P ts hts sel s hn
  ⟨h.1, h.2.1⟩

/-- Every reshuffle restarts the counters of the selected (training) examples. -/
theorem dss_resets_selected (P ts) (sel : Nat → Bool) (s : St) :
    ∀ e ∈ (shakeImpl P ts sel s).tr, e.age = 1 ∧ e.diff = 0 := by
  intro e he
  exact mem_resetAD he

/-- `shake g` reports a change (returns `true`) and clears the evaluators exactly when
    `g ≠ 0 ∧ gap ∣ g`; otherwise it returns `false`, clears nothing and leaves both sets untouched. -/
theorem dss_reports (P ts) (gap g : Nat) (_hgap : 0 < gap) (sel : Nat → Bool) (s : St) :
    ((dssShake P ts gap g sel s).ret = true ↔ g ≠ 0 ∧ gap ∣ g) ∧
    ((dssShake P ts gap g sel s).clears = 1 ↔ g ≠ 0 ∧ gap ∣ g) ∧
    (¬ (g ≠ 0 ∧ gap ∣ g) → (dssShake P ts gap g sel s).st = s ∧ (dssShake P ts gap g sel s).clears = 0) := by
  have hd : gap ∣ g ↔ g % gap = 0 := Nat.dvd_iff_mod_eq_zero
  unfold dssShake
  split
  · rename_i h
    refine ⟨?_, ?_, ?_⟩ <;> simp <;> omega
  · rename_i h
    refine ⟨?_, ?_, ?_⟩ <;> simp <;> omega

/-- Closing returns all examples to a single set (the validation set), clearing the evaluators. -/
theorem close_single_set (s : St) :
    (dssClose s).st.tr = [] ∧ (dssClose s).st.va = s.va ++ s.tr ∧ (dssClose s).clears = 1 :=
  ⟨rfl, rfl, rfl⟩

/-- The ℚ reading of `target_size` meets the bound the theorems assume of the floating-point value. -/
theorem targetSizeQ_ok : TsOK targetSizeQ := targetSizeQ_inside

/-! ### whole histories -/

theorem applyCall_step (P ts) (hts : TsOK ts) (c sel) (s : St) (hn : 2 ≤ s.tr.length + s.va.length) :
    DssStep c s (applyCall P ts c sel s) := by
  cases c with
  | init run => exact dss_step_init P ts hts sel run s hn
  | shake gap g => exact dss_step_shake P ts hts gap g sel s hn
  | close run => exact dss_step_close run s

/-- At every moment of any history of calls (any runs, generations, periods, draws) the two sets
    together hold exactly the payloads originally loaded. -/
theorem dss_history_perm (P ts) (hts : TsOK ts) (calls : List (Call × (Nat → Bool))) (s : St)
    (hn : 2 ≤ s.tr.length + s.va.length) :
    let s' := calls.foldl (fun st c => (applyCall P ts c.1 c.2 st).st) s
    (ids (s'.tr ++ s'.va)).Perm (ids (s.tr ++ s.va)) := by
  induction calls generalizing s with
  | nil => exact List.Perm.refl _
  | cons c cs ih =>
    have h1 := dss_perm c.1 s _ (applyCall_step P ts hts c.1 c.2 s hn)
    have hlen : 2 ≤ (applyCall P ts c.1 c.2 s).st.tr.length + (applyCall P ts c.1 c.2 s).st.va.length := by
      have := h1.length_eq
      simp [ids] at this; omega
    exact (ih _ hlen).trans h1

/-! ### non-vacuity -/

example : TsOK targetSizeQ := targetSizeQ_ok
example : TsOK (fun n => n / 2) := by intro n hn; simp only; omega
example : (holdoutInit (fun i => i / 2) 30 0 (⟨[1, 2, 3, 4, 5, 6, 7], []⟩ : Sets Nat)) =
    ⟨[1, 2, 5, 7], [6, 3, 4]⟩ := by decide

end Vita.C16
