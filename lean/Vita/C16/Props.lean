/-
  C16 — property theorems.  Statements in words: design/C16.md.
-/
import Vita.C16.Lemmas
import Vita.C16.Gen
import Vita.C16.Bridge
import Vita.C16.Weights
import Vita.C16.ProtoLemmas
import Vita.Common.RngLemmas
namespace Vita.C16

/-! ## hold-out -/

/-- The model function satisfies the step relation the driver decides on observed executions. -/
theorem holdout_step {α} (draw : Nat → Nat) (p run : Nat) (s : Sets α) (hn : 1 ≤ s.tr.length) :
    HoldoutStep p run s (holdoutInit draw p run s) := by
  unfold HoldoutStep holdoutInit
  split
  · rfl
  · simp only
    have hsh := shuffleTail_perm draw (s.tr.length - skipOf s.tr.length p) (s.tr.length - 1) s.tr
    generalize shuffleTail draw _ _ s.tr = sh at *
    refine ⟨by simp, ?_, ?_⟩
    · simp only [List.drop_left, List.take_append_drop]
      exact hsh
    · have := skipOf_le s.tr.length p hn
      have := hsh.length_eq
      simp only [List.length_take]; omega

/-- Any observed step that satisfies the relation conserves the examples (multiset of both sets). -/
theorem holdoutStep_perm {α} {p run : Nat} {pre post : Sets α} (h : HoldoutStep p run pre post) :
    (post.tr ++ post.va).Perm (pre.tr ++ pre.va) := by
  unfold HoldoutStep at h
  split at h
  · rw [h]
  · obtain ⟨h1, h2, _⟩ := h
    have hv : post.va = pre.va ++ post.va.drop pre.va.length := by
      conv => lhs; rw [← List.take_append_drop pre.va.length post.va, h1]
    rw [hv]
    refine List.Perm.trans ?_ (List.Perm.append_right _ h2)
    simp only [List.append_assoc]
    exact List.Perm.append_left _ List.perm_append_comm

/-- Nothing is lost, duplicated or altered: for ALL draws, percentages, run numbers and contents of
    both sets, training ++ validation after `init` is a permutation of training ++ validation before. -/
theorem holdout_perm {α} (draw : Nat → Nat) (p run : Nat) (s : Sets α) :
    ((holdoutInit draw p run s).tr ++ (holdoutInit draw p run s).va).Perm (s.tr ++ s.va) :=
  holdoutInit_perm draw p run s

/-- After the set-up (run 0) the training set has the computed share `max (n·(100−p)/100) 1`
    and is never empty; the validation set receives exactly the remaining `n − share` examples. -/
theorem holdout_share {α} (draw : Nat → Nat) (p : Nat) (s : Sets α) (hn : 1 ≤ s.tr.length) :
    (holdoutInit draw p 0 s).tr.length = max (s.tr.length * (100 - p) / 100) 1 ∧
    (holdoutInit draw p 0 s).tr ≠ [] ∧
    (holdoutInit draw p 0 s).va.length = s.va.length + (s.tr.length - max (s.tr.length * (100 - p) / 100) 1) :=
  holdoutInit_share draw p s hn

/-- Later runs leave the split alone. -/
theorem holdout_later_runs_id {α} (draw : Nat → Nat) (p run : Nat) (s : Sets α) (h : 0 < run) :
    holdoutInit draw p run s = s := by
  simp [holdoutInit, h]

/-- Whole histories: any sequence of `init(run)` calls (any run numbers, any draws) conserves the
    examples. -/
theorem holdout_history_perm {α} (p : Nat) (calls : List (Nat × (Nat → Nat))) (s : Sets α) :
    let s' := calls.foldl (fun st c => holdoutInit c.2 p c.1 st) s
    (s'.tr ++ s'.va).Perm (s.tr ++ s.va) := by
  induction calls generalizing s with
  | nil => exact List.Perm.refl _
  | cons c cs ih => exact (ih _).trans (holdout_perm c.2 p c.1 s)

/-- The index `random::sup(i + 1)` drawn in iteration `i` of the shuffle is at most `i`, for every
    engine state (libstdc++'s algorithm as modelled in Vita/Common/Rng.lean): `iter_swap` never leaves
    the array and the model's `swapAt` never takes its out-of-range branch on real draws. -/
theorem holdout_draw_in_bounds (i : Nat) (e : Vita.Rng.Xo) (hi : i + 1 ≤ 2 ^ 64) :
    (Vita.Rng.sup (i + 1) e).1 ≤ i := by
  have := Vita.Rng.sup_lt (i + 1) e (by omega) hi
  omega

/-! ## dynamic subset selection -/

/-- `shake_impl` satisfies the reshuffle relation: both sets non-empty, selected examples have their
    counters restarted, validation examples are unaltered members of the pool, payload conserved. -/
theorem shakeImpl_step (P : Partitioner) (ts : Nat → Nat) (hts : TsOK ts) (sel : Nat → Bool) (s : St)
    (hn : 2 ≤ s.tr.length + s.va.length) : ReshuffleStep s (shakeImpl P ts sel s) :=
  shakeImpl_reshuffle P ts hts sel s hn

/-- every call of the modelled `dss` interface satisfies the step relation decided by the driver -/
theorem dss_step_init (P ts) (hts : TsOK ts) (sel run) (s : St) (hn : 2 ≤ s.tr.length + s.va.length) :
    DssStep (.init run) s (dssInit P ts sel s) := by
  refine ⟨shakeImpl_step P ts hts sel _ ?_, rfl⟩
  simpa [resetAD_length] using hn

theorem dss_step_shake (P ts) (hts : TsOK ts) (gap g sel) (s : St) (hn : 2 ≤ s.tr.length + s.va.length) :
    DssStep (.shake gap g) s (dssShake P ts gap g sel s) := by
  unfold DssStep dssShake
  simp only
  split
  · exact ⟨rfl, rfl, rfl⟩
  · refine ⟨shakeImpl_step P ts hts sel _ ?_, rfl, rfl⟩
    simpa [incAge] using hn

theorem dss_step_close (run) (s : St) : DssStep (.close run) s (dssClose s) :=
  ⟨rfl, rfl, rfl⟩

/-- Conservation for the whole interface: after `init`, after every `shake` (reshuffling or not) and
    after `close`, the payloads of training ++ validation are a permutation of those before. -/
theorem dss_perm (c : Call) (pre : St) (r : Res) (h : DssStep c pre r) :
    (ids (r.st.tr ++ r.st.va)).Perm (ids (pre.tr ++ pre.va)) := by
  have comm : (ids (pre.va ++ pre.tr)).Perm (ids (pre.tr ++ pre.va)) := by
    rw [ids_append, ids_append]; exact List.perm_append_comm
  cases c with
  | init run =>
    obtain ⟨⟨_, _, _, _, h5⟩, _⟩ := h
    simp only [ids_append, ids_resetAD] at h5 ⊢
    exact h5.trans List.perm_append_comm
  | shake gap g =>
    unfold DssStep at h
    simp only at h
    split at h
    · rw [h.1]
    · obtain ⟨⟨_, _, _, _, h5⟩, _⟩ := h
      simp only [ids_append, ids_incAge] at h5 ⊢
      exact h5.trans List.perm_append_comm
  | close run =>
    obtain ⟨h1, h2, _⟩ := h
    rw [h1, h2]; simpa using comm

/-- Every reshuffle (init, or shake at a multiple of the period) leaves both sets non-empty. -/
theorem dss_nonempty (P ts) (hts : TsOK ts) (sel : Nat → Bool) (s : St)
    (hn : 2 ≤ s.tr.length + s.va.length) :
    (shakeImpl P ts sel s).tr ≠ [] ∧ (shakeImpl P ts sel s).va ≠ [] :=
  let h := shakeImpl_step P ts hts sel s hn
  ⟨h.1, h.2.1⟩

/-- Every reshuffle restarts the counters of the selected (training) examples. -/
theorem dss_resets_selected (P ts) (sel : Nat → Bool) (s : St) :
    ∀ e ∈ (shakeImpl P ts sel s).tr, e.age = 1 ∧ e.diff = 0 := by
  intro e he
  exact mem_resetAD he

/-- `shake g` reports a change (returns `true`) and clears the evaluators exactly when
    `g ≠ 0 ∧ gap ∣ g`; otherwise it returns `false`, clears nothing and leaves both sets untouched. -/
theorem dss_reports (P ts) (gap g : Nat) (_hgap : 0 < gap) (sel : Nat → Bool) (s : St) :
    ((dssShake P ts gap g sel s).ret = true ↔ g ≠ 0 ∧ gap ∣ g) ∧
    ((dssShake P ts gap g sel s).clears = 1 ↔ g ≠ 0 ∧ gap ∣ g) ∧
    (¬ (g ≠ 0 ∧ gap ∣ g) → (dssShake P ts gap g sel s).st = s ∧ (dssShake P ts gap g sel s).clears = 0) := by
  have hd : gap ∣ g ↔ g % gap = 0 := Nat.dvd_iff_mod_eq_zero
  unfold dssShake
  split
  · rename_i h
    refine ⟨?_, ?_, ?_⟩ <;> simp <;> omega
  · rename_i h
    refine ⟨?_, ?_, ?_⟩ <;> simp <;> omega

/-- Closing returns all examples to a single set (the validation set), clearing the evaluators. -/
theorem close_single_set (s : St) :
    (dssClose s).st.tr = [] ∧ (dssClose s).st.va = s.va ++ s.tr ∧ (dssClose s).clears = 1 :=
  ⟨rfl, rfl, rfl⟩

/-- The ℚ reading of `target_size` meets the bound the theorems assume of the floating-point value. -/
theorem targetSizeQ_ok : TsOK targetSizeQ := targetSizeQ_inside

/-! ### whole histories -/

theorem applyCall_step (P ts) (hts : TsOK ts) (c sel) (s : St) (hn : 2 ≤ s.tr.length + s.va.length) :
    DssStep c s (applyCall P ts c sel s) := by
  cases c with
  | init run => exact dss_step_init P ts hts sel run s hn
  | shake gap g => exact dss_step_shake P ts hts gap g sel s hn
  | close run => exact dss_step_close run s

/-- At every moment of any history of calls (any runs, generations, periods, draws) the two sets
    together hold exactly the payloads originally loaded. -/
theorem dss_history_perm (P ts) (hts : TsOK ts) (calls : List (Call × (Nat → Bool))) (s : St)
    (hn : 2 ≤ s.tr.length + s.va.length) :
    let s' := calls.foldl (fun st c => (applyCall P ts c.1 c.2 st).st) s
    (ids (s'.tr ++ s'.va)).Perm (ids (s.tr ++ s.va)) := by
  induction calls generalizing s with
  | nil => exact List.Perm.refl _
  | cons c cs ih =>
    have h1 := dss_perm c.1 s _ (applyCall_step P ts hts c.1 c.2 s hn)
    have hlen : 2 ≤ (applyCall P ts c.1 c.2 s).st.tr.length + (applyCall P ts c.1 c.2 s).st.va.length := by
      have := h1.length_eq
      simp [ids] at this; omega
    exact (ih _ hlen).trans h1


/-! ## hold-out reports the change (vita 6f58ae1) -/

/-- `init(0)` clears the training evaluator exactly when the strategy was constructed with one; later
    runs clear nothing. -/
theorem holdout_reports {α} (draw : Nat → Nat) (p run : Nat) (hasEva : Bool) (s : Sets α) :
    ((holdoutInitR draw p run hasEva s).clears = 1 ↔ run = 0 ∧ hasEva = true) ∧
    ((holdoutInitR draw p run hasEva s).clears = 0 ↔ ¬ (run = 0 ∧ hasEva = true)) ∧
    (holdoutInitR draw p run hasEva s).st = holdoutInit draw p run s := by
  unfold holdoutInitR
  simp only
  split <;> simp_all

/-- the model satisfies the relation (with the clear count) the driver decides on observed hold-out calls -/
theorem holdout_stepR {α} (draw : Nat → Nat) (p run : Nat) (hasEva : Bool) (s : Sets α) (hn : 1 ≤ s.tr.length) :
    HoldoutStepR p run hasEva s (holdoutInitR draw p run hasEva s).st (holdoutInitR draw p run hasEva s).clears :=
  ⟨holdout_step draw p run s hn, rfl⟩

/-! ## the model is the code: extracted tables (tools/translate_validation.py → Gen.lean) -/

/-- the container programs extracted from the CURRENT source are the ones the model stands for -/
theorem holdout_table_matches_source : Gen.holdoutInit = Tables.holdoutInit := by decide
theorem dss_tables_match_source :
    Gen.dssInit = Tables.dssInit ∧ Gen.dssShake = Tables.dssShake ∧ Gen.dssClose = Tables.dssClose ∧
    Gen.shakeImpl = Tables.shakeImpl ∧ Gen.moveToValidation = Tables.moveToValidation ∧
    Gen.resetAgeDifficulty = Tables.resetAgeDifficulty ∧ Gen.clearEvaluators = Tables.clearEvaluators := by
  decide
theorem weight_tables_match_source :
    Gen.targetSize = Tables.targetSize ∧ Gen.weight = Tables.weight ∧ Gen.weightSum = Tables.weightSum ∧
    Gen.selectPred = Tables.selectPred ∧ Gen.pushBackOverloads = Tables.pushBackOverloads ∧
    Gen.cloneSchemaSets = Tables.cloneSchemaSets := by decide
theorem protocol_tables_match_source :
    Gen.searchRun = Tables.searchRun ∧ Gen.evolutionRun = Tables.evolutionRun ∧
    Gen.installs = Tables.installs := by decide

/-- Running the extracted program of `holdout_validation::init` on the abstract machine (64/32-bit
    wrap-around arithmetic, faults on out-of-range iterators) IS `holdoutInit`: for every frame contents,
    stream of raw draws and percentage < 100, with at least one training example and `n·100 < 2^64`,
    run 0 ends without fault in the model's sets, consumes one draw per swap and clears the evaluator iff
    it was given one. -/
theorem holdout_program_is_model {α} (ops : ElemOps α) (env : Env) (s : Sets α) (rng clT clV : Nat)
    (sch : Nat × Nat) (hp : env.perc < 100) (hn : 1 ≤ s.tr.length) (hsz : s.tr.length * 100 < 2 ^ 64) :
    ∃ loc, runFn ops Tables.prog env 1 .holdoutInit [("run", 0)] none (M.enter s rng clT clV sch) =
      some ⟨(holdoutInitR (drawOf env rng s.tr.length) env.perc 0 env.hasEvaT s).st.tr,
            (holdoutInitR (drawOf env rng s.tr.length) env.perc 0 env.hasEvaT s).st.va, loc,
            rng + (s.tr.length - skipOf s.tr.length env.perc),
            clT + (holdoutInitR (drawOf env rng s.tr.length) env.perc 0 env.hasEvaT s).clears, clV, none,
            (sch.1, sch.1)⟩ := by
  obtain ⟨loc, h⟩ := holdout_bridge0 ops env s rng clT clV sch hp hn hsz
  refine ⟨loc, ?_⟩
  rw [h]
  cases env.hasEvaT <;> simp [holdoutInitR]

/-- … and for later runs it returns at once, touching nothing. -/
theorem holdout_program_later_runs {α} (ops : ElemOps α) (env : Env) (run : Nat) (s : Sets α)
    (rng clT clV : Nat) (sch : Nat × Nat) (hrun : 0 < run) :
    ∃ loc, runFn ops Tables.prog env 1 .holdoutInit [("run", run)] none (M.enter s rng clT clV sch) =
      some ⟨s.tr, s.va, loc, rng, clT, clV, some none, sch⟩ :=
  holdout_bridge_later ops env run s rng clT clV sch hrun

/-- The extracted programs of `dss::init`, `dss::shake`, `dss::close` (with `shake_impl`,
    `move_to_validation`, `reset_age_difficulty`, `clear_evaluators` as callees) run without fault and
    compute `dssInit`, `dssShake`, `dssClose`, for every partitioner, target size with `ts n ≤ n`, coin,
    contents and counters. -/
theorem dss_programs_are_model (env : Env) (s : St) (rng clT clV : Nat) (sch : Nat × Nat)
    (hts : env.ts (s.va.length + s.tr.length) ≤ s.va.length + s.tr.length) :
    (∀ run, ∃ loc sch', runFn exOps Tables.prog env 3 .dssInit [("run", run)] none (M.enter s rng clT clV sch) =
      some ⟨(dssInit env.P env.ts env.sel s).st.tr, (dssInit env.P env.ts env.sel s).st.va, loc, rng,
            clT + (dssInit env.P env.ts env.sel s).clears, clV + (dssInit env.P env.ts env.sel s).clears, none,
            sch'⟩) ∧
    (∀ run, ∃ loc sch', runFn exOps Tables.prog env 2 .dssClose [("run", run)] none (M.enter s rng clT clV sch) =
      some ⟨(dssClose s).st.tr, (dssClose s).st.va, loc, rng, clT + (dssClose s).clears,
            clV + (dssClose s).clears, none, sch'⟩) ∧
    (∀ g, 0 < env.gap → ∃ loc sch',
      runFn exOps Tables.prog env 3 .dssShake [("generation", g)] none (M.enter s rng clT clV sch) =
      some ⟨(dssShake env.P env.ts env.gap g env.sel s).st.tr, (dssShake env.P env.ts env.gap g env.sel s).st.va,
            loc, rng, clT + (dssShake env.P env.ts env.gap g env.sel s).clears,
            clV + (dssShake env.P env.ts env.gap g env.sel s).clears,
            some (some (dssShake env.P env.ts env.gap g env.sel s).ret), sch'⟩) := by
  refine ⟨fun run => dssInit_bridge env run s rng clT clV sch hts,
          fun run => dssClose_bridge env run s rng clT clV sch, ?_⟩
  intro g hgap
  by_cases hskip : g = 0 ∨ g % env.gap ≠ 0
  · obtain ⟨loc, h⟩ := dssShake_bridge_skip env g s rng clT clV sch
      (hskip.elim Or.inl (fun h => Or.inr ⟨hgap, h⟩))
    exact ⟨loc, sch, by rw [h]; simp [dssShake, hskip]⟩
  · have hg : g ≠ 0 := fun h => hskip (Or.inl h)
    have hd : g % env.gap = 0 := by
      rcases Nat.eq_zero_or_pos (g % env.gap) with h | h
      · exact h
      · exact (hskip (Or.inr (by omega))).elim
    obtain ⟨loc, sch', h⟩ := dssShake_bridge_reshuffle env g s rng clT clV sch hg hgap hd hts
    exact ⟨loc, sch', by rw [h]; simp [dssShake, hskip]⟩

/-- **`dataframe::clone_schema` moves no example.**  The statement `d.clone_schema(s)` of the extracted
    programs (whose body – `columns = other.columns; classes_map_ = other.classes_map_`, nothing else – is
    extracted and compared by `weight_tables_match_source`) leaves both example lists, hence the example
    multisets of both frames, and every counter untouched; `validation_.clone_schema(training_)` gives the
    validation frame the training frame's metadata. -/
theorem clone_schema_moves_nothing {α} (ops : ElemOps α) (cf : CallFn α) (env : Env) (arg : Option Cont)
    (d s : Cont) (m m' : M α) (h : exec0 ops cf env arg (.cloneSchema d s) m = some m') :
    m'.tr = m.tr ∧ m'.va = m.va ∧ (m'.tr ++ m'.va).Perm (m.tr ++ m.va) ∧ m'.clT = m.clT ∧ m'.clV = m.clV ∧
    m'.rng = m.rng := by
  obtain ⟨h1, h2, _, h4, h5, h6, _⟩ := cloneSchema_frames ops cf env arg d s m m' h
  exact ⟨h1, h2, by rw [h1, h2], h5, h6, h4⟩

theorem clone_schema_copies_training_schema {α} (ops : ElemOps α) (cf : CallFn α) (env : Env)
    (arg : Option Cont) (m : M α) :
    exec0 ops cf env arg (.cloneSchema .va .tr) m = some { m with sch := (m.sch.1, m.sch.1) } :=
  cloneSchema_va_tr ops cf env arg m

/-- `move_to_validation` gives an empty validation frame the training frame's schema before it receives
    the examples (and leaves the schema alone otherwise); the examples end up as in the model. -/
theorem move_to_validation_program (env : Env) (k : Nat) (m : M Ex) :
    runFn exOps Tables.prog env (k + 1) .moveToValidation [] none m =
      some { m with tr := (moveToValidation ⟨m.tr, m.va⟩).tr, va := (moveToValidation ⟨m.tr, m.va⟩).va,
                    loc := [], ret := none,
                    sch := if m.va.isEmpty && !m.tr.isEmpty then (m.sch.1, m.sch.1) else m.sch } :=
  run_move env k m

/-- the extracted `double` chain of `target_size`, read over ℚ and truncated, is `targetSizeQ` -/
theorem targetSize_table_is_model (n : Nat) :
    (Tables.targetSize.evalQ n).floor.toNat = targetSizeQ n := by
  have h1 : ∀ x : Rat, x / 1 = x := fun x => by grind
  simp [Tables.targetSize, FE.evalQ, targetSizeQ, h1]

/-! ## 64-bit weights: wrap-around, `weight_sum = 0`, and why it does not matter -/

/-- the extracted weight / accumulation mean the machine weight and the machine weight sum -/
theorem weight_tables_are_model (e : Ex) (l : List Ex) :
    Tables.weight.eval e = weight64 e ∧ Tables.weightSum.eval l = weightSum64 l :=
  ⟨weight_table_eval e, weightSum_table_eval l⟩

/-- as long as `difficulty + age³ < 2^64` the machine weight is the documented one … -/
theorem weight_no_wrap (e : Ex) (hd : e.diff + e.age * e.age * e.age < 2 ^ 64) : weight64 e = weight e :=
  weight64_of_small e hd

/-- … but it does wrap (age 2^22: age³ = 2^66), and the weight sum of a pool whose ages are all ≥ 1 can
    be 0 (`k = target_size / 0`). -/
theorem weight_wraps_and_sum_can_vanish :
    weight64 ⟨7, 2 ^ 22, 0⟩ = 0 ∧ weight ⟨7, 2 ^ 22, 0⟩ = 2 ^ 66 ∧
    weightSum64 [⟨1, 2 ^ 22, 0⟩, ⟨2, 2 ^ 63, 0⟩] = 0 ∧
    weightSum64 [⟨1, 1, 2 ^ 63 - 1⟩, ⟨2, 1, 2 ^ 63 - 1⟩] = 0 := by decide

/-- Whatever the coin does with the (possibly wrapped, possibly zero-sum) weights, a reshuffle satisfies
    the reshuffle relation: both sets non-empty, counters restarted, validation unaltered, payloads
    conserved. -/
theorem shakeImplW_step (P : Partitioner) (ts : Nat → Nat) (hts : TsOK ts) (coin : Nat → Nat → Nat → Bool)
    (s : St) (hn : 2 ≤ s.tr.length + s.va.length) : ReshuffleStep s (shakeImplW P ts coin s) :=
  shakeImpl_reshuffle P ts hts _ s hn

/-- **The permutation property does not depend on the weights at all**: two pools with the same payloads
    but arbitrary (different) counters, arbitrary coins, arbitrary target sizes and partitioners end with
    the same multiset of payloads. -/
theorem conservation_independent_of_weights (P P' : Partitioner) (ts ts' : Nat → Nat)
    (coin coin' : Nat → Nat → Nat → Bool) (s s' : St) (h : (ids (s.tr ++ s.va)).Perm (ids (s'.tr ++ s'.va))) :
    (ids ((shakeImplW P ts coin s).tr ++ (shakeImplW P ts coin s).va)).Perm
      (ids ((shakeImplW P' ts' coin' s').tr ++ (shakeImplW P' ts' coin' s').va)) :=
  ((shakeImpl_ids_perm P ts _ s).trans h).trans (shakeImpl_ids_perm P' ts' _ s').symm

/-- treating the selection as an arbitrary Boolean per position loses nothing -/
theorem selection_is_arbitrary (sel : Nat → Bool) (pool : List Ex) :
    ∃ coin, ∀ i, i < pool.length → selW coin pool i = sel i := selW_any sel pool

/-! ## the call protocol of `search::run` (Protocol.lean, driven by the extracted token tables) -/

/-- the schedule read off the token tables: per run `init(r)`, evaluation of the initial best, per
    generation `shake(g)` – re-evaluation – breeding – callback, then `close(r)` and the metrics -/
theorem search_schedule (plans : List RunPlan) :
    searchEvents Tables.searchRun Tables.evolutionRun plans =
      plans.zipIdx.flatMap fun (rp, r) =>
        [Ev.init r rp.initO, .evalT rp.best0] ++
        (rp.gens.zipIdx.flatMap fun (gp, g) => [Ev.shake g gp.shakeO, .evalT gp.reeval, .evalT gp.breed, .obs]) ++
        [.close r, .evalV rp.metricsV, .evalT rp.metricsT] :=
  searchEvents_eq plans

/-- **"At every moment of any run"**: for every installed strategy (as-is, hold-out with or without
    evaluator, DSS), every percentage, period, target size, partitioner, every session of `run(n)` calls,
    every number of runs and generations, all draws and all evaluator activity – every state visited
    holds exactly the payloads of the initial state, each once.  No precondition at all. -/
theorem search_conserves (c : Cfg) (calls : List (List RunPlan)) (x : PS) :
    ∀ y ∈ trace c (sessionEvents calls) x, (ids (y.s.tr ++ y.s.va)).Perm (ids (x.s.tr ++ x.s.va)) :=
  trace_conserves c (sessionEvents calls) x

/-- … and the same along ANY interleaving of strategy calls, evaluator passes and callbacks. -/
theorem any_history_conserves (c : Cfg) (evs : List Ev) (x : PS) :
    ∀ y ∈ trace c evs x, (ids (y.s.tr ++ y.s.va)).Perm (ids (x.s.tr ++ x.s.va)) :=
  trace_conserves c evs x

/-- **DSS inside `search::run`** (≥ 2 examples, `TsOK`): at every after_generation callback and every time
    `shake` is entered, in every run of every `run(n)` of a session, both frames are non-empty and every
    training example has age 1 (the assert of `dss::shake`); after the last `close` the training frame is
    empty – all examples are in one frame. -/
theorem dss_in_search (c : Cfg) (hd : c.strat = .dss) (hts : TsOK c.ts) (calls : List (List RunPlan)) (x : PS)
    (h2 : 2 ≤ x.s.tr.length + x.s.va.length) :
    (∀ y ∈ obsStates c (sessionEvents calls) x, y.s.tr ≠ [] ∧ y.s.va ≠ [] ∧ ∀ e ∈ y.s.tr, e.age = 1) ∧
    (∀ y ∈ shakePre c (sessionEvents calls) x, y.s.tr ≠ [] ∧ y.s.va ≠ [] ∧ ∀ e ∈ y.s.tr, e.age = 1) ∧
    ((calls.flatMap fun plans => plans.zipIdx) ≠ [] → (final c (sessionEvents calls) x).s.tr = []) := by
  rw [sessionEvents_eq]
  exact dss_runs c hd hts _ x h2

/-- **Hold-out inside one `search::run(n)`**: see `holdout_search`. -/
theorem holdout_in_search (c : Cfg) (b : Bool) (hs : c.strat = .holdout b) (rp : RunPlan) (rest : List RunPlan)
    (x : PS) (hn : 1 ≤ x.s.tr.length) :
    let x1 := step c (.init 0 rp.initO) x
    x1.s.tr.length = skipOf x.s.tr.length c.perc ∧ x1.s.tr ≠ [] ∧
    x1.clT = x.clT + (if b then 1 else 0) ∧
    ∀ y ∈ trace c (searchEvents Tables.searchRun Tables.evolutionRun (rp :: rest)) x,
      y = x ∨ (ids y.s.tr = ids x1.s.tr ∧ ids y.s.va = ids x1.s.va ∧ y.clT = x1.clT) :=
  holdout_search c b hs rp rest x hn

/-- With `validation_percentage = 0` hold-out moves nothing (the validation frame stays as it was). -/
theorem holdout_percentage_zero {α} (draw : Nat → Nat) (s : Sets α) (hn : 1 ≤ s.tr.length) :
    holdoutInit draw 0 0 s = s := by
  have hk : skipOf s.tr.length 0 = s.tr.length := by
    unfold skipOf; simp; omega
  simp [holdoutInit, hk, shuffleTail]

/-- **Every change is reported**: a strategy call that changes the training frame clears the training
    evaluator in the same call, for every strategy `src_search` can install. -/
theorem change_reported (c : Cfg) (hs : c.strat ≠ .holdout false) (e : Ev) (he : isCall e) (x : PS)
    (hch : ids (step c e x).s.tr ≠ ids x.s.tr) : (step c e x).clT = x.clT + 1 :=
  change_is_reported c hs e he x hch

/-- **What a monitor of a real DSS search sees** is what the driver decides: an evaluator pass changes
    only difficulties (`EvalRel`); from one callback to the next of the same run `GenObs`; from any earlier
    moment to the first callback of a run `FreshObs`; from the last callback to the end of the run `EndObs`. -/
theorem observations_are_model (c : Cfg) (hd : c.strat = .dss) (hts : TsOK c.ts) (x : PS) (h2 : 2 ≤ x.size) :
    (∀ f, EvalRel x.s (step c (.evalT f) x).s ∧ EvalRel x.s (step c (.evalV f) x).s) ∧
    (∀ g gp, GenObs c.gap g x.s (final c (genEv g gp) x).s) ∧
    (∀ pre r o f gp, FreshObs x.s (final c (pre ++ ([.init r o, .evalT f] ++ genEv 0 gp)) x).s) ∧
    (∀ r rp, EndObs x.s (final c (tailEv r rp) x).s) :=
  ⟨fun f => ⟨evalT_rel c f x, evalV_rel c f x⟩,
   fun g gp => dss_generation_obs c hd hts g gp x h2,
   fun pre r o f gp => dss_fresh_obs c hd hts pre r o f gp x h2,
   fun r rp => dss_end_obs c hd r rp x⟩

theorem installed_strategies_report :
    ∀ row ∈ Tables.installs, ∃ st, stratOf row = some st ∧ st ≠ .holdout false := installed_report

/-! ### non-vacuity -/

example : TsOK targetSizeQ := targetSizeQ_ok
example : TsOK (fun n => n / 2) := by intro n hn; simp only; omega
example : (holdoutInit (fun i => i / 2) 30 0 (⟨[1, 2, 3, 4, 5, 6, 7], []⟩ : Sets Nat)) =
    ⟨[1, 2, 5, 7], [6, 3, 4]⟩ := by decide

-- hold-out program: hypotheses of `holdout_program_is_model` are satisfiable, and the machine really runs
example : (7 : Nat) < 100 ∧ 1 ≤ [1, 2, 3].length ∧ [1, 2, 3].length * 100 < 2 ^ 64 := by decide
example : (runFn (idOps Nat) Tables.prog ⟨30, 1, true, fun i => i * 7 + 3, fun _ => false, fun n => n / 2, stablePartition⟩
    1 .holdoutInit [("run", 0)] none (M.enter ⟨[1, 2, 3, 4, 5, 6, 7], []⟩ 0 0 0 (5, 9))).map
      (fun m => (m.tr, m.va, m.rng, m.clT, m.sch)) = some ([1, 2, 6, 7], [3, 5, 4], 3, 1, (5, 5)) := by decide
-- DSS in search: a configuration meeting the hypotheses of `dss_in_search`
example : (⟨.dss, 0, 2, stablePartition, fun n => n / 2⟩ : Cfg).strat = .dss ∧ TsOK (fun n => n / 2) :=
  ⟨rfl, by intro n hn; simp only; omega⟩
-- a reported change exists: DSS close with a non-empty training frame
example : ids (step ⟨.dss, 0, 2, stablePartition, fun n => n / 2⟩ (.close 0) ⟨⟨[⟨1, 1, 0⟩], [⟨2, 1, 0⟩]⟩, 0, 0⟩).s.tr ≠
    ids (⟨⟨[⟨1, 1, 0⟩], [⟨2, 1, 0⟩]⟩, 0, 0⟩ : PS).s.tr := by decide
example : weight64 ⟨1, 3, 5⟩ = weight ⟨1, 3, 5⟩ := by decide

end Vita.C16
