/-
  C16 — lemmas about the call-protocol transition system (Protocol.lean): explicit schedule, conservation
  along arbitrary event sequences, the DSS run invariant, hold-out inside one `search::run`, reporting.
-/
import Vita.C16.Protocol
import Vita.C16.Lemmas
namespace Vita.C16

/-! ### events of the schedule, explicitly -/

/-- one generation of `evolution::run` -/
def genEv (g : Nat) (gp : GenPlan) : List Ev :=
  [.shake g gp.shakeO, .evalT gp.reeval, .evalT gp.breed, .obs]

/-- one run of `search::run` -/
def runEv (r : Nat) (rp : RunPlan) : List Ev :=
  [.init r rp.initO, .evalT rp.best0] ++ (rp.gens.zipIdx.flatMap fun (gp, g) => genEv g gp) ++
  [.close r, .evalV rp.metricsV, .evalT rp.metricsT]

theorem evolveEvents_eq (rp : RunPlan) :
    evolveEvents Tables.evolutionRun rp =
      [.evalT rp.best0] ++ rp.gens.zipIdx.flatMap fun (gp, g) => genEv g gp := by
  have hb : before .forGensBegin Tables.evolutionRun = [.evalBest] := by decide
  have hm : between .forGensBegin .forGensEnd Tables.evolutionRun = [.shake, .breed, .callback] := by decide
  simp [evolveEvents, hb, hm, preTok, genTok, genEv]

theorem searchEvents_eq (plans : List RunPlan) :
    searchEvents Tables.searchRun Tables.evolutionRun plans =
      plans.zipIdx.flatMap fun (rp, r) => runEv r rp := by
  have hm : between .forRunsBegin .forRunsEnd Tables.searchRun = [.vsInit, .evolve, .vsClose, .metrics] := by
    decide
  simp [searchEvents, hm, runTok, runEv, evolveEvents_eq]

/-! ### single steps -/

theorem ids_evalFrame (f : Nat → Nat) (l : List Ex) : ids (evalFrame f l) = ids l := by
  unfold ids evalFrame
  rw [List.map_map]
  have : ((fun (e : Ex) => e.id) ∘ fun (x : Ex × Nat) => { x.1 with diff := (x.1.diff + f x.2) % 2 ^ 64 }) =
      (fun e => e.id) ∘ Prod.fst := by funext x; rfl
  have h2 : (fun (x : Ex × Nat) => match x with | (e, i) => ({ e with diff := (e.diff + f i) % 2 ^ 64 } : Ex)) =
      fun x => { x.1 with diff := (x.1.diff + f x.2) % 2 ^ 64 } := by funext x; rfl
  rw [h2, this, ← List.map_map]
  simp

theorem evalFrame_length (f : Nat → Nat) (l : List Ex) : (evalFrame f l).length = l.length := by
  simp [evalFrame]

theorem evalFrame_age (f : Nat → Nat) (l : List Ex) : ∀ e ∈ evalFrame f l, ∃ e' ∈ l, e.age = e'.age ∧ e.id = e'.id := by
  intro e he
  simp only [evalFrame, List.mem_map] at he
  obtain ⟨⟨e', i⟩, hmem, rfl⟩ := he
  exact ⟨e', (List.mem_zipIdx hmem).2.2 ▸ by simp [List.getElem_mem], rfl, rfl⟩

/-- `shake_impl` conserves the payloads whatever the sizes, the target size and the draws -/
theorem shakeImpl_ids_perm (P : Partitioner) (ts : Nat → Nat) (sel : Nat → Bool) (s : St) :
    (ids ((shakeImpl P ts sel s).tr ++ (shakeImpl P ts sel s).va)).Perm (ids (s.tr ++ s.va)) := by
  unfold shakeImpl moveToValidation
  simp only
  generalize htag : ((s.va ++ s.tr).zipIdx.map fun (e, i) => (e, sel i)) = tagged
  have hperm := P.perm (fun (x : Ex × Bool) => !x.2) tagged
  generalize P.run (fun (x : Ex × Bool) => !x.2) tagged = parted at *
  have hv : (parted.map (·.1)).Perm (s.va ++ s.tr) := by
    have := hperm.map (·.1)
    rw [← htag, tagged_fst] at this
    exact this
  generalize (if parted.countP (fun x => !x.2) = 0 ∨ parted.countP (fun x => !x.2) = parted.length
      then ts parted.length else parted.countP (fun x => !x.2)) = pivot
  generalize parted.map (·.1) = v at *
  rw [ids_append, ids_resetAD, ← ids_append]
  have h1 : (v.drop pivot ++ v.take pivot).Perm v := by
    have := List.take_append_drop pivot v
    exact List.perm_append_comm.trans (by rw [this])
  refine ((h1.map _).trans (hv.map _)).trans ?_
  show (ids (s.va ++ s.tr)).Perm (ids (s.tr ++ s.va))
  rw [ids_append, ids_append]; exact List.perm_append_comm

def PS.pay (x : PS) : List Nat := ids (x.s.tr ++ x.s.va)

/-- every event – strategy call of any installed strategy, evaluator pass, callback – conserves the
    payloads of training ++ validation; no hypothesis on sizes, percentages, periods, target size -/
theorem step_conserves (c : Cfg) (e : Ev) (x : PS) : (step c e x).pay.Perm x.pay := by
  unfold PS.pay
  cases e with
  | init r o =>
    cases hs : c.strat with
    | asIs => simp [step, hs]
    | holdout he =>
      simp only [step, hs, holdoutInitR]
      exact (holdoutInit_ids_perm o.draw c.perc r x.s)
    | dss =>
      simp only [step, hs, dssInit]
      refine (shakeImpl_ids_perm _ _ _ _).trans ?_
      simp [ids_append, ids_resetAD]
  | shake g o =>
    cases hs : c.strat with
    | asIs => simp [step, hs]
    | holdout he => simp [step, hs]
    | dss =>
      simp only [step, hs, dssShake]
      split
      · exact List.Perm.refl _
      · refine (shakeImpl_ids_perm _ _ _ _).trans ?_
        simp [ids_append, ids_incAge]
  | close r =>
    cases hs : c.strat with
    | asIs => simp [step, hs]
    | holdout he => simp [step, hs]
    | dss =>
      simp only [step, hs, dssClose, moveToValidation, List.nil_append, ids_append]
      exact List.perm_append_comm
  | evalT f => simp [step, ids_append, ids_evalFrame]
  | evalV f => simp [step, ids_append, ids_evalFrame]
  | obs => simp [step]

/-! ### traces -/

theorem final_cons (c : Cfg) (e : Ev) (es : List Ev) (x : PS) :
    final c (e :: es) x = final c es (step c e x) := rfl

theorem final_append (c : Cfg) (a b : List Ev) (x : PS) :
    final c (a ++ b) x = final c b (final c a x) := by
  simp [final, List.foldl_append]

theorem mem_trace_append (c : Cfg) (a b : List Ev) (x y : PS) :
    y ∈ trace c (a ++ b) x ↔ y ∈ trace c a x ∨ y ∈ trace c b (final c a x) := by
  induction a generalizing x with
  | nil =>
    cases b with
    | nil => simp [trace, final]
    | cons e es => simp [trace, final]
  | cons e es ih =>
    simp only [List.cons_append, trace, List.mem_cons, final_cons, ih]
    exact or_assoc.symm

/-- an invariant of every event of a list holds in every visited state -/
theorem trace_inv (c : Cfg) (Inv : PS → Prop) (evs : List Ev)
    (h : ∀ e ∈ evs, ∀ x, Inv x → Inv (step c e x)) (x : PS) (hx : Inv x) :
    (∀ y ∈ trace c evs x, Inv y) ∧ Inv (final c evs x) := by
  induction evs generalizing x with
  | nil => simp [trace, final, hx]
  | cons e es ih =>
    have hs := h e (by simp) x hx
    obtain ⟨h1, h2⟩ := ih (fun e' he' => h e' (by simp [he'])) _ hs
    refine ⟨?_, by simpa [final_cons] using h2⟩
    intro y hy
    simp only [trace, List.mem_cons] at hy
    rcases hy with rfl | hy
    · exact hx
    · exact h1 y hy

theorem obsStates_sub (c : Cfg) (evs : List Ev) (x : PS) : ∀ y ∈ obsStates c evs x, y ∈ trace c evs x := by
  induction evs generalizing x with
  | nil => simp [obsStates]
  | cons e es ih =>
    intro y hy
    cases e <;> simp only [obsStates, trace, List.mem_cons] at hy ⊢
    all_goals first
      | exact Or.inr (ih _ y hy)
      | (rcases hy with rfl | hy
         · exact Or.inl rfl
         · exact Or.inr (ih _ y hy))

theorem shakePre_sub (c : Cfg) (evs : List Ev) (x : PS) : ∀ y ∈ shakePre c evs x, y ∈ trace c evs x := by
  induction evs generalizing x with
  | nil => simp [shakePre]
  | cons e es ih =>
    intro y hy
    cases e <;> simp only [shakePre, trace, List.mem_cons] at hy ⊢
    all_goals first
      | exact Or.inr (ih _ y hy)
      | (rcases hy with rfl | hy
         · exact Or.inl rfl
         · exact Or.inr (ih _ y hy))

/-- **conservation, composed system**: along ANY sequence of events (in particular every session of
    `search::run` calls) every visited state holds exactly the payloads of the initial one -/
theorem trace_conserves (c : Cfg) (evs : List Ev) (x : PS) : ∀ y ∈ trace c evs x, y.pay.Perm x.pay :=
  (trace_inv c (fun y => y.pay.Perm x.pay) evs
    (fun e _ y hy => (step_conserves c e y).trans hy) x (List.Perm.refl _)).1

/-! ### dynamic subset selection inside `search::run` -/

/-- what holds from `init(r)` to `close(r)`: both frames non-empty, every training example has age 1
    (the `assert(avg_t.first == 1)` of `dss::shake`) -/
def RunInv (x : PS) : Prop := x.s.tr ≠ [] ∧ x.s.va ≠ [] ∧ ∀ e ∈ x.s.tr, e.age = 1

def PS.size (x : PS) : Nat := x.s.tr.length + x.s.va.length

theorem size_step (c : Cfg) (e : Ev) (x : PS) : (step c e x).size = x.size := by
  have := (step_conserves c e x).length_eq
  simpa [PS.pay, ids, PS.size] using this

theorem size_final (c : Cfg) (evs : List Ev) (x : PS) : (final c evs x).size = x.size :=
  (trace_inv c (fun y => y.size = x.size) evs (fun e _ y hy => (size_step c e y).trans hy) x rfl).2

theorem dss_init_inv (c : Cfg) (hd : c.strat = .dss) (hts : TsOK c.ts) (r : Nat) (o : Orc) (x : PS)
    (h2 : 2 ≤ x.size) : RunInv (step c (.init r o) x) := by
  have h := shakeImpl_reshuffle c.P c.ts hts o.sel ⟨resetAD x.s.tr, resetAD x.s.va⟩
    (by simpa [resetAD_length, PS.size] using h2)
  simp only [step, hd, dssInit]
  exact ⟨h.1, h.2.1, fun e he => (h.2.2.1 e he).1⟩

def isMid : Ev → Prop
  | .shake _ _ => True
  | .evalT _ => True
  | .obs => True
  | _ => False

theorem dss_mid_inv (c : Cfg) (hd : c.strat = .dss) (hts : TsOK c.ts) (e : Ev) (he : isMid e) (x : PS)
    (h : RunInv x ∧ 2 ≤ x.size) : RunInv (step c e x) ∧ 2 ≤ (step c e x).size := by
  refine ⟨?_, by rw [size_step]; exact h.2⟩
  cases e with
  | shake g o =>
    simp only [step, hd, dssShake]
    split
    · exact h.1
    · have hh := shakeImpl_reshuffle c.P c.ts hts o.sel ⟨incAge x.s.tr, incAge x.s.va⟩
        (by simpa [incAge, PS.size] using h.2)
      exact ⟨hh.1, hh.2.1, fun e he => (hh.2.2.1 e he).1⟩
  | evalT f =>
    obtain ⟨h1, h2, h3⟩ := h.1
    refine ⟨?_, h2, ?_⟩
    · intro hn
      have := congrArg List.length hn
      simp [step, evalFrame_length] at this
      exact h1 this
    · intro e he
      obtain ⟨e', he', ha, _⟩ := evalFrame_age f x.s.tr e he
      rw [ha]; exact h3 e' he'
  | obs => exact h.1
  | init r o => exact he.elim
  | close r => exact he.elim
  | evalV f => exact he.elim

theorem obsStates_append (c : Cfg) (a b : List Ev) (x : PS) :
    obsStates c (a ++ b) x = obsStates c a x ++ obsStates c b (final c a x) := by
  induction a generalizing x with
  | nil => simp [obsStates, final]
  | cons e es ih => cases e <;> simp [obsStates, final_cons, ih, step]

theorem shakePre_append (c : Cfg) (a b : List Ev) (x : PS) :
    shakePre c (a ++ b) x = shakePre c a x ++ shakePre c b (final c a x) := by
  induction a generalizing x with
  | nil => simp [shakePre, final]
  | cons e es ih => cases e <;> simp [shakePre, final_cons, ih]

/-- the events between `init(r)` and `close(r)` -/
def midEv (rp : RunPlan) : List Ev :=
  [.evalT rp.best0] ++ rp.gens.zipIdx.flatMap fun (gp, g) => genEv g gp

def tailEv (r : Nat) (rp : RunPlan) : List Ev := [.close r, .evalV rp.metricsV, .evalT rp.metricsT]

theorem runEv_split (r : Nat) (rp : RunPlan) :
    runEv r rp = [.init r rp.initO] ++ (midEv rp ++ tailEv r rp) := by
  simp [runEv, midEv, tailEv]

theorem midEv_isMid (rp : RunPlan) : ∀ e ∈ midEv rp, isMid e := by
  intro e he
  simp only [midEv, List.mem_append, List.mem_singleton, List.mem_flatMap, genEv] at he
  rcases he with rfl | ⟨⟨gp, g⟩, _, hm⟩
  · trivial
  · simp only [List.mem_cons, List.not_mem_nil, or_false] at hm
    rcases hm with rfl | rfl | rfl | rfl <;> trivial

/-- several runs, the run number attached to each plan -/
def runsEvents (l : List (RunPlan × Nat)) : List Ev := l.flatMap fun (rp, r) => runEv r rp

/-- **DSS inside the call protocol**: in every run of every `search::run`, from `init(r)` until `close(r)`,
    at every callback and whenever `shake` is called, both frames are non-empty and every training
    example has age 1; after the run all examples are in one frame. -/
theorem dss_runs (c : Cfg) (hd : c.strat = .dss) (hts : TsOK c.ts) (l : List (RunPlan × Nat)) (x : PS)
    (h2 : 2 ≤ x.size) :
    (∀ y ∈ obsStates c (runsEvents l) x, RunInv y) ∧ (∀ y ∈ shakePre c (runsEvents l) x, RunInv y) ∧
    (l ≠ [] → (final c (runsEvents l) x).s.tr = []) := by
  induction l generalizing x with
  | nil => simp [runsEvents, obsStates, shakePre]
  | cons p l ih =>
    obtain ⟨rp, r⟩ := p
    have hrw : runsEvents ((rp, r) :: l) = runEv r rp ++ runsEvents l := by simp [runsEvents]
    -- the run itself
    have hi := dss_init_inv c hd hts r rp.initO x h2
    have hi2 : 2 ≤ (step c (.init r rp.initO) x).size := by rw [size_step]; exact h2
    obtain ⟨hmid, hmidF⟩ := trace_inv c (fun y => RunInv y ∧ 2 ≤ y.size) (midEv rp)
      (fun e he y hy => dss_mid_inv c hd hts e (midEv_isMid rp e he) y hy) _ ⟨hi, hi2⟩
    have hsz : 2 ≤ (final c (runEv r rp) x).size := by rw [size_final]; exact h2
    obtain ⟨ih1, ih2, ih3⟩ := ih (final c (runEv r rp) x) hsz
    have hobs : obsStates c (runEv r rp) x = obsStates c (midEv rp) (step c (.init r rp.initO) x) := by
      rw [runEv_split, obsStates_append, obsStates_append]
      simp [obsStates, tailEv, final]
    have hshk : shakePre c (runEv r rp) x = shakePre c (midEv rp) (step c (.init r rp.initO) x) := by
      rw [runEv_split, shakePre_append, shakePre_append]
      simp [shakePre, tailEv, final]
    have hfin : (final c (runEv r rp) x).s.tr = [] := by
      rw [runEv_split, final_append, final_append]
      simp [tailEv, final, step, hd, dssClose, moveToValidation, evalFrame]
    refine ⟨?_, ?_, ?_⟩
    · intro y hy
      rw [hrw, obsStates_append, List.mem_append, hobs] at hy
      rcases hy with hy | hy
      · exact (hmid y (obsStates_sub c _ _ y hy)).1
      · exact ih1 y hy
    · intro y hy
      rw [hrw, shakePre_append, List.mem_append, hshk] at hy
      rcases hy with hy | hy
      · exact (hmid y (shakePre_sub c _ _ y hy)).1
      · exact ih2 y hy
    · intro _
      rw [hrw, final_append]
      by_cases hl : l = []
      · subst hl; simpa [runsEvents, final] using hfin
      · exact ih3 hl

theorem sessionEvents_eq (calls : List (List RunPlan)) :
    sessionEvents calls = runsEvents (calls.flatMap fun plans => plans.zipIdx) := by
  induction calls with
  | nil => rfl
  | cons p ps ih =>
    simp only [sessionEvents, List.flatMap_cons] at ih ⊢
    rw [ih, searchEvents_eq]
    simp [runsEvents, List.flatMap_append]

/-! ### hold-out inside `search::run` -/

/-- events that cannot re-partition under hold-out: everything except `init(0)` -/
def NoSplit : Ev → Prop
  | .init r _ => 0 < r
  | _ => True

theorem holdout_nosplit (c : Cfg) (b : Bool) (hs : c.strat = .holdout b) (e : Ev) (hn : NoSplit e) (x : PS) :
    ids (step c e x).s.tr = ids x.s.tr ∧ ids (step c e x).s.va = ids x.s.va ∧ (step c e x).clT = x.clT := by
  cases e with
  | init r o =>
    have hr : ¬ r = 0 := by have : 0 < r := hn; omega
    simp [step, hs, holdoutInitR, holdoutInit_later o.draw c.perc r x.s hn, hr]
  | shake g o => simp [step, hs]
  | close r => simp [step, hs]
  | evalT f => simp [step, ids_evalFrame]
  | evalV f => simp [step, ids_evalFrame]
  | obs => simp [step]

theorem runEv_nosplit (r : Nat) (rp : RunPlan) (hr : 0 < r) : ∀ e ∈ runEv r rp, NoSplit e := by
  intro e he
  rw [runEv_split] at he
  simp only [List.mem_append, tailEv, List.mem_cons, List.not_mem_nil, or_false] at he
  rcases he with rfl | he | rfl | rfl | rfl
  · exact hr
  · have := midEv_isMid rp e he
    cases e <;> first | trivial | exact this.elim
  all_goals trivial

theorem runsEvents_nosplit (l : List (RunPlan × Nat)) (h : ∀ p ∈ l, 0 < p.2) :
    ∀ e ∈ runsEvents l, NoSplit e := by
  intro e he
  simp only [runsEvents, List.mem_flatMap] at he
  obtain ⟨⟨rp, r⟩, hp, he⟩ := he
  exact runEv_nosplit r rp (h _ hp) e he

/-- **hold-out inside one `search::run(n)`**: the first call `init(0)` gives the training frame its
    share (never empty) and clears the training evaluator iff the strategy was given one; every later
    moment of the same `run(n)` – later runs, every generation, `close`, metrics – sees the very same
    examples in the same order in both frames and no further clear. -/
theorem holdout_search (c : Cfg) (b : Bool) (hs : c.strat = .holdout b) (rp : RunPlan) (rest : List RunPlan)
    (x : PS) (hn : 1 ≤ x.s.tr.length) :
    let x1 := step c (.init 0 rp.initO) x
    x1.s.tr.length = skipOf x.s.tr.length c.perc ∧ x1.s.tr ≠ [] ∧
    x1.clT = x.clT + (if b then 1 else 0) ∧
    ∀ y ∈ trace c (searchEvents Tables.searchRun Tables.evolutionRun (rp :: rest)) x,
      y = x ∨ (ids y.s.tr = ids x1.s.tr ∧ ids y.s.va = ids x1.s.va ∧ y.clT = x1.clT) := by
  intro x1
  have hshare := holdoutInit_share rp.initO.draw c.perc x.s hn
  refine ⟨?_, ?_, ?_, ?_⟩
  · simpa [x1, step, hs, holdoutInitR, skipOf] using hshare.1
  · simpa [x1, step, hs, holdoutInitR] using hshare.2.1
  · simp [x1, step, hs, holdoutInitR]
  · have hev : searchEvents Tables.searchRun Tables.evolutionRun (rp :: rest) =
        [.init 0 rp.initO] ++ ((midEv rp ++ tailEv 0 rp) ++ runsEvents (rest.zipIdx 1)) := by
      rw [searchEvents_eq, List.zipIdx_cons, List.flatMap_cons]
      simp [runEv_split, runsEvents]
    have hns : ∀ e ∈ (midEv rp ++ tailEv 0 rp) ++ runsEvents (rest.zipIdx 1), NoSplit e := by
      intro e he
      rw [List.mem_append] at he
      rcases he with he | he
      · rw [List.mem_append] at he
        rcases he with he | he
        · have := midEv_isMid rp e he
          cases e <;> first | trivial | exact this.elim
        · simp only [tailEv, List.mem_cons, List.not_mem_nil, or_false] at he
          rcases he with rfl | rfl | rfl <;> trivial
      · refine runsEvents_nosplit _ ?_ e he
        intro p hp
        obtain ⟨a, i⟩ := p
        have := List.le_snd_of_mem_zipIdx hp
        show 0 < i
        simp at this; omega
    intro y hy
    rw [hev] at hy
    simp only [List.singleton_append, trace, List.mem_cons] at hy
    rcases hy with rfl | hy
    · exact Or.inl rfl
    · right
      exact (trace_inv c (fun y => ids y.s.tr = ids x1.s.tr ∧ ids y.s.va = ids x1.s.va ∧ y.clT = x1.clT) _
        (fun e he z hz => by
          obtain ⟨h1, h2, h3⟩ := holdout_nosplit c b hs e (hns e he) z
          exact ⟨h1.trans hz.1, h2.trans hz.2.1, h3.trans hz.2.2⟩) x1 ⟨rfl, rfl, rfl⟩).1 y hy

/-! ### every change of the training frame is reported -/

def isCall : Ev → Prop
  | .init _ _ => True
  | .shake _ _ => True
  | .close _ => True
  | _ => False

/-- a strategy call that changes which examples are in the training frame (or their order) clears the
    training evaluator in the same call – for `as_is`, `dss`, and hold-out constructed with the evaluator -/
theorem change_is_reported (c : Cfg) (hs : c.strat ≠ .holdout false) (e : Ev) (he : isCall e) (x : PS)
    (hch : ids (step c e x).s.tr ≠ ids x.s.tr) : (step c e x).clT = x.clT + 1 := by
  cases e with
  | init r o =>
    cases hst : c.strat with
    | asIs => simp [step, hst] at hch
    | holdout b =>
      cases b with
      | false => exact (hs hst).elim
      | true =>
        by_cases hr : r = 0
        · simp [step, hst, holdoutInitR, hr]
        · exfalso; apply hch
          simp [step, hst, holdoutInitR, holdoutInit_later o.draw c.perc r x.s (by omega)]
    | dss => simp [step, hst, dssInit]
  | shake g o =>
    cases hst : c.strat with
    | asIs => simp [step, hst] at hch
    | holdout b => simp [step, hst] at hch
    | dss =>
      simp only [step, hst, dssShake] at hch ⊢
      split
      · rename_i h; simp [h] at hch
      · rfl
  | close r =>
    cases hst : c.strat with
    | asIs => simp [step, hst] at hch
    | holdout b => simp [step, hst] at hch
    | dss => simp [step, hst, dssClose]
  | evalT f => exact he.elim
  | evalV f => exact he.elim
  | obs => exact he.elim

/-- every strategy `src_search::validation_strategy(id)` installs (extracted table) reports its changes -/
theorem installed_report : ∀ row ∈ Tables.installs, ∃ st, stratOf row = some st ∧ st ≠ .holdout false := by
  decide
/-! ### what consecutive observations of a real search look like (relations decided by the driver) -/

theorem evalFrame_key (f : Nat → Nat) (l : List Ex) : (evalFrame f l).map key = l.map key := by
  unfold evalFrame
  rw [List.map_map]
  have : (key ∘ fun (x : Ex × Nat) => match x with | (e, i) => ({ e with diff := (e.diff + f i) % 2 ^ 64 } : Ex)) =
      key ∘ Prod.fst := by funext x; rfl
  rw [this, ← List.map_map]
  simp

theorem EvalRel.refl (s : St) : EvalRel s s := ⟨rfl, rfl⟩
theorem EvalRel.trans {a b c : St} (h1 : EvalRel a b) (h2 : EvalRel b c) : EvalRel a c :=
  ⟨h1.1.trans h2.1, h1.2.trans h2.2⟩

theorem evalT_rel (c : Cfg) (f : Nat → Nat) (x : PS) : EvalRel x.s (step c (.evalT f) x).s :=
  ⟨(evalFrame_key f x.s.tr).symm, rfl⟩
theorem evalV_rel (c : Cfg) (f : Nat → Nat) (x : PS) : EvalRel x.s (step c (.evalV f) x).s :=
  ⟨rfl, (evalFrame_key f x.s.va).symm⟩

theorem reshuffleObs_of_step {pre mid : St} (h : ReshuffleStep pre mid) : ReshuffleObs pre mid :=
  ⟨h.1, h.2.1, fun e he => (h.2.2.1 e he).1, h.2.2.2.1, h.2.2.2.2⟩

theorem reshuffleObs_evalT {pre mid : St} (f : Nat → Nat) (h : ReshuffleObs pre mid) :
    ReshuffleObs pre ⟨evalFrame f mid.tr, mid.va⟩ := by
  obtain ⟨h1, h2, h3, h4, h5⟩ := h
  refine ⟨?_, h2, ?_, h4, ?_⟩
  · intro hn
    have := congrArg List.length hn
    simp [evalFrame_length] at this
    exact h1 this
  · intro e he
    obtain ⟨e', he', ha, _⟩ := evalFrame_age f mid.tr e he
    rw [ha]; exact h3 e' he'
  · simpa [ids_append, ids_evalFrame] using h5

/-- from one callback to the next (same run): what the model predicts is the relation the driver decides -/
theorem dss_generation_obs (c : Cfg) (hd : c.strat = .dss) (hts : TsOK c.ts) (g : Nat) (gp : GenPlan) (x : PS)
    (h2 : 2 ≤ x.size) : GenObs c.gap g x.s (final c (genEv g gp) x).s := by
  unfold GenObs
  simp only [genEv, final, List.foldl, step, hd, dssShake]
  split
  · rename_i h
    exact ⟨⟨((evalFrame_key _ _).trans (evalFrame_key _ _)).symm, rfl⟩, rfl⟩
  · rename_i h
    have hh := shakeImpl_reshuffle c.P c.ts hts gp.shakeO.sel ⟨incAge x.s.tr, incAge x.s.va⟩
      (by simpa [incAge, PS.size] using h2)
    exact reshuffleObs_evalT _ (reshuffleObs_evalT _ (reshuffleObs_of_step hh))

/-- from the last callback of a run to the return / the next `init`: `close` and the metrics -/
theorem dss_end_obs (c : Cfg) (hd : c.strat = .dss) (r : Nat) (rp : RunPlan) (x : PS) :
    EndObs x.s (final c (tailEv r rp) x).s := by
  simp only [tailEv, final, List.foldl, step, hd, dssClose, moveToValidation, EndObs]
  refine ⟨?_, ?_⟩
  · simp [evalFrame]
  · exact evalFrame_key _ _

/-- from any earlier moment to the first callback of a run -/
theorem dss_fresh_obs (c : Cfg) (hd : c.strat = .dss) (hts : TsOK c.ts) (pre : List Ev) (r : Nat) (o : Orc)
    (f : Nat → Nat) (gp : GenPlan) (x : PS) (h2 : 2 ≤ x.size) :
    FreshObs x.s (final c (pre ++ ([.init r o, .evalT f] ++ genEv 0 gp)) x).s := by
  rw [final_append]
  have hpay := (trace_inv c (fun y => y.pay.Perm x.pay) pre
    (fun e _ y hy => (step_conserves c e y).trans hy) x (List.Perm.refl _)).2
  have hsz : 2 ≤ (final c pre x).size := by rw [size_final]; exact h2
  generalize final c pre x = y at hpay hsz
  have hh := shakeImpl_reshuffle c.P c.ts hts o.sel ⟨resetAD y.s.tr, resetAD y.s.va⟩
    (by simpa [resetAD_length, PS.size] using hsz)
  simp only [List.cons_append, List.nil_append, genEv, final, List.foldl, step, hd, dssInit, dssShake, true_or,
    ↓reduceIte]
  obtain ⟨h1, h2', h3, h4, h5⟩ := reshuffleObs_evalT gp.breed (reshuffleObs_evalT gp.reeval
    (reshuffleObs_evalT f (reshuffleObs_of_step hh)))
  refine ⟨h1, h2', h3, ?_, ?_⟩
  · intro e he
    have hc := h4 e he
    simp only at hc he
    have hpos : 0 < (resetAD y.s.va ++ resetAD y.s.tr).count e := by
      have : 0 < List.count e (shakeImpl c.P c.ts o.sel { tr := resetAD y.s.tr, va := resetAD y.s.va }).va :=
        List.count_pos_iff.mpr he
      omega
    have hmem := List.count_pos_iff.mp hpos
    rw [List.mem_append] at hmem
    rcases hmem with hm | hm <;> exact mem_resetAD hm
  · refine h5.trans ?_
    simp only [ids_append, ids_resetAD]
    refine List.perm_append_comm.trans ?_
    simpa [PS.pay, ids_append] using hpay
end Vita.C16
