/-
  C16 — the call protocol of `search<T, ES>::run` / `evolution<T, ES>::run` as a transition system over
  the two frames, DRIVEN by the token tables extracted from the source (Tables.searchRun,
  Tables.evolutionRun = Gen.… by `decide`).

  One `search::run(n)`:   init(); for r < n { vs->init(r); evolution(…).run(r, shake); vs->close(r);
                                              calculate_metrics; … } close();
  one `evolution::run`:   evaluate best; for gen = 0, 1, … { if (shake(gen)) re-evaluate best; breed;
                                              after_generation callback }
  Between two strategy calls the evaluators run over the frames: they only increment `difficulty`
  (`++example.difficulty`, wraps at 2^64) – `evalFrame` with an arbitrary increment per position.
  A session is any number of `run(n)` calls on the same search object / problem.
-/
import Vita.C16.Model
import Vita.C16.Tables
namespace Vita.C16

/-- the strategy object installed in the search -/
inductive Strat
  | asIs
  | holdout (hasEva : Bool)       -- `hasEva`: constructed with the training evaluator
  | dss
deriving DecidableEq, Repr

structure Cfg where
  strat : Strat
  perc : Nat
  gap : Nat
  P : Partitioner
  ts : Nat → Nat

/-- observable state: the two frames and the number of `clear()` calls each evaluator has received -/
structure PS where
  s : St
  clT : Nat
  clV : Nat

/-- the random choices of one strategy call -/
structure Orc where
  draw : Nat → Nat
  sel : Nat → Bool

/-- an evaluator pass over a frame: `difficulty` of the example at position `i` grows by `f i` (mod 2^64) -/
def evalFrame (f : Nat → Nat) (l : List Ex) : List Ex :=
  l.zipIdx.map fun (e, i) => { e with diff := (e.diff + f i) % 2 ^ 64 }

inductive Ev
  | init (r : Nat) (o : Orc)
  | shake (g : Nat) (o : Orc)
  | close (r : Nat)
  | evalT (f : Nat → Nat)
  | evalV (f : Nat → Nat)
  | obs                                   -- after_generation callback (observation point)

/-- one event; the strategy calls dispatch on the installed strategy (`validation_strategy`'s defaults:
    `shake` returns false and `close` does nothing; `as_is_validation::init` does nothing) -/
def step (c : Cfg) : Ev → PS → PS
  | .init r o, x =>
    match c.strat with
    | .asIs => x
    | .holdout he => let q := holdoutInitR o.draw c.perc r he x.s; ⟨q.st, x.clT + q.clears, x.clV⟩
    | .dss => let q := dssInit c.P c.ts o.sel x.s; ⟨q.st, x.clT + q.clears, x.clV + q.clears⟩
  | .shake g o, x =>
    match c.strat with
    | .dss => let q := dssShake c.P c.ts c.gap g o.sel x.s; ⟨q.st, x.clT + q.clears, x.clV + q.clears⟩
    | _ => x
  | .close _, x =>
    match c.strat with
    | .dss => let q := dssClose x.s; ⟨q.st, x.clT + q.clears, x.clV + q.clears⟩
    | _ => x
  | .evalT f, x => ⟨⟨evalFrame f x.s.tr, x.s.va⟩, x.clT, x.clV⟩
  | .evalV f, x => ⟨⟨x.s.tr, evalFrame f x.s.va⟩, x.clT, x.clV⟩
  | .obs, x => x

/-- every state visited: before the first event, after each event -/
def trace (c : Cfg) : List Ev → PS → List PS
  | [], x => [x]
  | e :: es, x => x :: trace c es (step c e x)

/-- the state after all events -/
def final (c : Cfg) (evs : List Ev) (x : PS) : PS := evs.foldl (fun x e => step c e x) x

/-- the states seen by the after_generation callback -/
def obsStates (c : Cfg) : List Ev → PS → List PS
  | [], _ => []
  | .obs :: es, x => x :: obsStates c es x
  | e :: es, x => obsStates c es (step c e x)

/-- the states in which `shake` is called -/
def shakePre (c : Cfg) : List Ev → PS → List PS
  | [], _ => []
  | .shake g o :: es, x => x :: shakePre c es (step c (.shake g o) x)
  | e :: es, x => shakePre c es (step c e x)

/-! ### the schedule, from the token tables -/

/-- what happens in one generation -/
structure GenPlan where
  shakeO : Orc
  reeval : Nat → Nat              -- re-evaluation of the best individual when `shake` returned true
  breed : Nat → Nat               -- evaluations of the offspring

structure RunPlan where
  initO : Orc
  best0 : Nat → Nat               -- evaluation of the initial best individual
  gens : List GenPlan             -- as many generations as the stop conditions allow
  metricsV : Nat → Nat            -- calculate_metrics on the validation frame (when it can validate)
  metricsT : Nat → Nat            -- … or on the training frame

/-- tokens strictly between two bracket tokens -/
def between (b e : PTok) (toks : List PTok) : List PTok :=
  ((toks.dropWhile (· != b)).drop 1).takeWhile (· != e)

def before (b : PTok) (toks : List PTok) : List PTok := toks.takeWhile (· != b)

def genTok (g : Nat) (gp : GenPlan) : PTok → List Ev
  | .shake => [.shake g gp.shakeO, .evalT gp.reeval]
  | .breed => [.evalT gp.breed]
  | .callback => [.obs]
  | _ => []

def preTok (rp : RunPlan) : PTok → List Ev
  | .evalBest => [.evalT rp.best0]
  | _ => []

/-- `evolution::run(r, shake)` -/
def evolveEvents (evo : List PTok) (rp : RunPlan) : List Ev :=
  (before .forGensBegin evo).flatMap (preTok rp) ++
  rp.gens.zipIdx.flatMap fun (gp, g) => (between .forGensBegin .forGensEnd evo).flatMap (genTok g gp)

def runTok (evo : List PTok) (r : Nat) (rp : RunPlan) : PTok → List Ev
  | .vsInit => [.init r rp.initO]
  | .evolve => evolveEvents evo rp
  | .vsClose => [.close r]
  | .metrics => [.evalV rp.metricsV, .evalT rp.metricsT]
  | _ => []

/-- `search::run(n)` with `n = plans.length` -/
def searchEvents (srch evo : List PTok) (plans : List RunPlan) : List Ev :=
  plans.zipIdx.flatMap fun (rp, r) => (between .forRunsBegin .forRunsEnd srch).flatMap (runTok evo r rp)

/-- any number of `run(n)` calls on the same search object -/
def sessionEvents (calls : List (List RunPlan)) : List Ev :=
  calls.flatMap (searchEvents Tables.searchRun Tables.evolutionRun)

/-! ### the shape of a schedule, compared by the driver with the calls observed in real searches -/

inductive Tag
  | init (r : Nat) | shake (g : Nat) | cb (g : Nat) | close (r : Nat)
deriving DecidableEq, Repr

/-- strategy calls and callbacks of an event list (`cb g` = the callback of the generation whose `shake`
    was called with `g`) -/
def shape : List Ev → Nat → List Tag
  | [], _ => []
  | .init r _ :: es, _ => .init r :: shape es 0
  | .shake g _ :: es, _ => .shake g :: shape es g
  | .close r :: es, g => .close r :: shape es g
  | .obs :: es, g => .cb g :: shape es g
  | _ :: es, g => shape es g

def Orc.dflt : Orc := ⟨fun _ => 0, fun _ => false⟩
def GenPlan.dflt : GenPlan := ⟨Orc.dflt, fun _ => 0, fun _ => 0⟩
/-- a run of `n` generations -/
def RunPlan.ofGens (n : Nat) : RunPlan := ⟨Orc.dflt, fun _ => 0, List.replicate n GenPlan.dflt, fun _ => 0, fun _ => 0⟩

/-- the calls the model predicts for one `run(k)` whose runs last `gens` generations -/
def predictedShape (gens : List Nat) : List Tag :=
  shape (searchEvents Tables.searchRun Tables.evolutionRun (gens.map RunPlan.ofGens)) 0

/-- what `src_search::validation_strategy(id)` installs, read off the extracted table -/
def stratOf (row : String × String × List String) : Option Strat :=
  match row with
  | (_, "as_is_validation", []) => some .asIs
  | (_, "dss", ["prob()", "*eva1_", "*eva2_"]) => some .dss
  | (_, "holdout_validation", ["prob()"]) => some (.holdout false)
  | (_, "holdout_validation", ["prob()", "eva1_.get()"]) => some (.holdout true)
  | _ => none

end Vita.C16
