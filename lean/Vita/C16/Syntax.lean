/-
  C16 — syntax of the container programs extracted from the validation strategies
  (tools/translate_validation.py → Vita/C16/Gen.lean).  Types only; the meaning is in Interp.lean.

  One `List Op` per C++ member function: the sequence of operations on the two dataframes
  (`training_`, `validation_`) with their index expressions, in source order.
-/
namespace Vita.C16

/-- the two dataframes of `src_problem`; `arg` = the `dataframe &` parameter of a helper -/
inductive Cont
  | tr | va | arg
deriving DecidableEq, Repr

/-- integer expressions (`std::size_t`, `unsigned`, iterator positions as offsets from `begin()`).
    `w` is the width in bits of the C++ type the operation is carried out in. -/
inductive IxE
  | lit (n : Nat)
  | var (x : String)              -- local variable / parameter (`run`, `generation`, `skip`, `pivot`, …)
  | size (c : Cont)               -- `c.size()`, also the position of `c.end()`
  | perc                          -- `*env_.validation_percentage`
  | gap                           -- `*env_.dss`
  | add (w : Nat) (a b : IxE)
  | sub (w : Nat) (a b : IxE)
  | mul (w : Nat) (a b : IxE)
  | div (a b : IxE)
  | mod (a b : IxE)
  | max (a b : IxE)
  | sup (a : IxE)                 -- `random::sup(a)`
  | target                        -- `static_cast<std::ptrdiff_t>(target_size)` (float chain: `Gen.targetSize`)
deriving DecidableEq, Repr

/-- conditions (`||` / `&&` evaluate lazily) -/
inductive BE
  | lt (a b : IxE) | le (a b : IxE) | gt (a b : IxE) | ge (a b : IxE) | eq (a b : IxE) | ne (a b : IxE)
  | nz (a : IxE)                  -- an integer used as a condition
  | or (a b : BE) | and (a b : BE) | not (a : BE)
  | hasEvaT                       -- `eva_t_` (a pointer) tested for non-null
  | empty (c : Cont)              -- `c.empty()`
deriving DecidableEq, Repr

/-- recognised per-example functions -/
inductive ElemFn
  | resetAgeDiff                  -- `{ example.difficulty = 0; example.age = 1; }`
  | incAge                        -- `{ ++e.age; }`
deriving DecidableEq, Repr

inductive Eva
  | t | v
deriving DecidableEq, Repr

/-- the member functions that are translated -/
inductive Fn
  | holdoutInit | dssInit | dssShake | dssClose
  | shakeImpl | moveToValidation | resetAgeDifficulty | clearEvaluators
deriving DecidableEq, Repr

/-- simple statements -/
inductive Op0
  | set (x : String) (e : IxE)                     -- declaration / assignment of an integer or iterator local
  | note (x : String) (what : String)              -- local bound to a value that only READS the frames
                                                   -- (averages, weight sum, the float chain): no effect
  | swap (c : Cont) (i j : IxE)                    -- `std::iter_swap(next(c.begin(), i), next(c.begin(), j))`
  | copyBack (s : Cont) (f l : IxE) (d : Cont)     -- `std::copy(s.begin()+f, s.begin()+l, back_inserter(d))`
  | moveBack (s : Cont) (f l : IxE) (d : Cont)     -- `std::move(…, back_inserter(d))`
  | erase (c : Cont) (f l : IxE)                   -- `c.erase(c.begin()+f, c.begin()+l)`
  | clear (c : Cont)
  | cloneSchema (d s : Cont)                       -- `d.clone_schema(s)`: metadata only (columns, class labels)
  | partition (c : Cont) (x : String)              -- `x = std::partition(c.begin(), c.end(), <not selected>)`
  | forEach (c : Cont) (f : ElemFn)                -- `std::for_each(c.begin(), c.end(), f)`
  | clearEva (e : Eva)                             -- `eva_x_.clear()` / `eva_t_->clear()`
  | call (f : Fn) (arg : Option Cont)
  | ret (v : Option Bool)                          -- `return;` / `return false;` / `return true;`
deriving DecidableEq, Repr

/-- statements: one level of `if` / `for` around simple statements (anything deeper is refused by the
    translator) -/
inductive Op
  | s (o : Op0)
  | ifThen (c : BE) (body : List Op0)
  | forDown (i : String) (start : IxE) (cond : BE) (body : List Op0)
      -- `for (std::size_t i(start); cond; --i) body`
deriving DecidableEq, Repr

/-- the `double` chain that yields `target_size`, literals as exact rationals `num/den` of the source
    text (`0.6` = 3/5: IEEE division of 3.0 by 5.0 is the same double as the literal) -/
inductive FE
  | sizeD (c : Cont)              -- `static_cast<double>(c.size())`
  | lit (num den : Nat)
  | add (a b : FE) | mul (a b : FE) | div (a b : FE)
  | min (a b : FE) | max (a b : FE)
deriving DecidableEq, Repr

/-- the integer expression of `weight(example)`; every node is evaluated in `std::uintmax_t` -/
inductive WE
  | diff | age                    -- `v.difficulty` (uintmax_t), `v.age` (unsigned)
  | cast64 (a : WE)
  | add64 (a b : WE)
  | mul64 (a b : WE)
deriving DecidableEq, Repr

/-- `std::accumulate(c.begin(), c.end(), std::uintmax_t(init), s + term)` -/
structure AccE where
  cont : Cont
  width : Nat
  init : Nat
  term : WE
deriving DecidableEq, Repr

/-- tokens of the call protocol (`search::run`, `evolution::run`), loops bracketed -/
inductive PTok
  | searchInit                    -- `init()` (tune_parameters + load)
  | forRunsBegin | forRunsEnd     -- `for (unsigned r(0); r < n; ++r) { … }`
  | vsInit | vsClose              -- `vs_->init(r)`, `vs_->close(r)`
  | evolve                        -- `evolution<T, ES>(prob_, *eva1_).after_generation(cb).run(r, shake)`
  | metrics                       -- `calculate_metrics(&run_summary)`
  | searchClose                   -- `close()` (save)
  | evalBest                      -- `stats_.best.score.fitness = eva_(…)` before the generation loop
  | forGensBegin | forGensEnd     -- `for (stats_.gen = 0; !stop_condition(…) && !stop; ++stats_.gen) { … }`
  | shake                         -- `if (shake(stats_.gen)) { re-evaluate best }`
  | breed                         -- the selection / recombination / replacement loop
  | callback                      -- `after_generation_callback_(pop_, stats_)`
deriving DecidableEq, Repr

end Vita.C16
