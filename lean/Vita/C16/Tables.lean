/-
  C16 — the container programs the model stands for (hand-written; Props.lean proves by `decide`
  that the tables extracted from the current source, Gen.lean, are exactly these, and Bridge.lean
  proves that their meaning under Interp.lean is the list model of Model.lean).
-/
import Vita.C16.Syntax
namespace Vita.C16
namespace Tables
open IxE BE Op0 Op

/-- `holdout_validation::init(unsigned run)` -/
def holdoutInit : List Op :=
  [ ifThen (gt (var "run") (lit 0)) [ret none],
    s (set "perc" perc),
    s (set "available" (size .tr)),
    s (set "skip" (max (div (mul 64 (var "available") (sub 32 (lit 100) (var "perc"))) (lit 100)) (lit 1))),
    forDown "i" (sub 64 (var "available") (lit 1)) (ge (var "i") (var "skip"))
      [set "curr" (var "i"), set "rand" (sup (add 64 (var "i") (lit 1))), swap .tr (var "curr") (var "rand")],
    s (cloneSchema .va .tr),
    s (set "from" (var "skip")),
    s (copyBack .tr (var "from") (size .tr) .va),
    s (erase .tr (var "from") (size .tr)),
    ifThen hasEvaT [clearEva .t] ]

/-- `dss::reset_age_difficulty(dataframe &d)` -/
def resetAgeDifficulty : List Op := [ s (forEach .arg .resetAgeDiff) ]

/-- `dss::clear_evaluators()` -/
def clearEvaluators : List Op := [ s (clearEva .t), s (clearEva .v) ]

/-- `dss::move_to_validation()` -/
def moveToValidation : List Op :=
  [ ifThen (and (empty .va) (not (empty .tr))) [cloneSchema .va .tr],
    s (moveBack .tr (lit 0) (size .tr) .va), s (clear .tr) ]

/-- `dss::init(unsigned)` -/
def dssInit : List Op :=
  [ s (call .resetAgeDifficulty (some .tr)), s (call .resetAgeDifficulty (some .va)),
    s (call .shakeImpl none), s (call .clearEvaluators none) ]

/-- `dss::shake_impl()` -/
def shakeImpl : List Op :=
  [ s (call .moveToValidation none),
    s (note "avg_v" "average_age_difficulty(validation_)"),
    s (note "weight_sum" "accumulate(validation_, weight)"),
    s (note "s" "double"),
    s (note "ratio" "double"),
    s (note "target_size" "double"),
    s (note "k" "double"),
    s (partition .va "pivot"),
    ifThen (or (eq (var "pivot") (lit 0)) (eq (var "pivot") (size .va))) [set "pivot" target],
    s (moveBack .va (var "pivot") (size .va) .tr),
    s (erase .va (var "pivot") (size .va)),
    s (call .resetAgeDifficulty (some .tr)) ]

/-- `dss::shake(unsigned generation)` -/
def dssShake : List Op :=
  [ s (set "gap" gap),
    ifThen (or (eq (var "generation") (lit 0)) (nz (mod (var "generation") (var "gap")))) [ret (some false)],
    s (note "avg_t" "average_age_difficulty(training_)"),
    s (forEach .tr .incAge),
    s (forEach .va .incAge),
    s (call .shakeImpl none),
    s (call .clearEvaluators none),
    s (ret (some true)) ]

/-- `dss::close(unsigned)` -/
def dssClose : List Op :=
  [ s (call .moveToValidation none), s (call .clearEvaluators none) ]

def prog : Fn → List Op
  | .holdoutInit => holdoutInit
  | .dssInit => dssInit
  | .dssShake => dssShake
  | .dssClose => dssClose
  | .shakeImpl => shakeImpl
  | .moveToValidation => moveToValidation
  | .resetAgeDifficulty => resetAgeDifficulty
  | .clearEvaluators => clearEvaluators

/-- `target_size = std::max(1.0, s * std::min(0.6, 0.2 + 100.0 / (s + 100.0)))`, `s = double(validation_.size())` -/
def targetSize : FE :=
  .max (.lit 1 1) (.mul (.sizeD .va)
    (.min (.lit 3 5) (.add (.lit 1 5) (.div (.lit 100 1) (.add (.sizeD .va) (.lit 100 1))))))

/-- `static_cast<uintmax_t>(v.difficulty) + static_cast<uintmax_t>(v.age) * v.age * v.age` -/
def weight : WE :=
  .add64 .diff (.mul64 (.mul64 (.cast64 .age) (.cast64 .age)) (.cast64 .age))

/-- `weight_sum` -/
def weightSum : AccE := ⟨.va, 64, 0, weight⟩

/-- the predicate handed to `std::partition` (true = NOT selected), canonical text -/
def selectPred : String := "p1=(double(weight(e)) * k); prob=min(p1, 1.0); return (boolean(prob) == false)"

/-- what `dataframe::clone_schema(other)` assigns: (member, source) – metadata members only -/
def cloneSchemaSets : List (String × String) := [("columns", "other.columns"), ("classes_map_", "other.classes_map_")]

/-- the overloads of `dataframe::push_back` taking an example (parameter types) -/
def pushBackOverloads : List String := ["const vita::dataframe::example &"]

/-- `search<T, ES>::run(unsigned n)` -/
def searchRun : List PTok :=
  [.searchInit, .forRunsBegin, .vsInit, .evolve, .vsClose, .metrics, .forRunsEnd, .searchClose]

/-- `evolution<T, ES>::run(unsigned, S shake)` -/
def evolutionRun : List PTok :=
  [.evalBest, .forGensBegin, .shake, .breed, .callback, .forGensEnd]

/-- what `src_search::validation_strategy(validator_id)` installs: (id, class, constructor arguments) -/
def installs : List (String × String × List String) :=
  [ ("as_is", "as_is_validation", []),
    ("dss", "dss", ["prob()", "*eva1_", "*eva2_"]),
    ("holdout", "holdout_validation", ["prob()", "eva1_.get()"]) ]

end Tables
end Vita.C16
