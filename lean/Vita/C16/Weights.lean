/-
  C16 — the weights of `dss::shake_impl` in machine arithmetic.

  `weight(e) = uintmax_t(difficulty) + uintmax_t(age)·age·age` and `weight_sum = Σ weight` are computed
  in `std::uintmax_t`: they wrap at 2^64 (age ≥ 2^22 already gives age³ ≥ 2^66), and `weight_sum` can be
  0 although every age is ≥ 1, in which case `k = target_size / 0.0` is +∞ and the probabilities are
  +∞ / NaN.  The coin `random::boolean(min(double(w)·k, 1.0))` is therefore modelled as an ARBITRARY
  function of the position, the machine weight and the machine weight sum: nothing the property states
  may depend on it.
-/
import Vita.C16.Interp
import Vita.C16.Tables
import Vita.C16.Lemmas
namespace Vita.C16

/-- the extracted weight expression means `weight64` -/
theorem weight_table_eval (e : Ex) : Tables.weight.eval e = weight64 e := by
  simp [Tables.weight, WE.eval, weight64]

/-- the extracted accumulation means `weightSum64` -/
theorem weightSum_table_eval (l : List Ex) : Tables.weightSum.eval l = weightSum64 l := by
  simp only [AccE.eval, Tables.weightSum, weightSum64]
  have : (fun s e => (s + Tables.weight.eval e) % 2 ^ 64) = fun s e => (s + weight64 e) % 2 ^ 64 := by
    funext s e; rw [weight_table_eval]
  rw [this]

/-- without wrap-around the machine weight is the ideal one -/
theorem weight64_of_small (e : Ex) (hd : e.diff + e.age * e.age * e.age < 2 ^ 64) : weight64 e = weight e := by
  have h3 : e.age * e.age * e.age < 2 ^ 64 := by omega
  have h1 : e.age < 2 ^ 64 := by
    rcases Nat.eq_zero_or_pos e.age with h | h
    · omega
    · calc e.age = e.age * 1 * 1 := by simp
        _ ≤ e.age * e.age * e.age := Nat.mul_le_mul (Nat.mul_le_mul (Nat.le_refl _) h) h
        _ < 2 ^ 64 := h3
  have h2 : e.age * e.age < 2 ^ 64 := by
    rcases Nat.eq_zero_or_pos e.age with h | h
    · rw [h]; decide
    · calc e.age * e.age = e.age * e.age * 1 := by simp
        _ ≤ e.age * e.age * e.age := Nat.mul_le_mul (Nat.le_refl _) h
        _ < 2 ^ 64 := h3
  unfold weight64 weight
  rw [Nat.mod_eq_of_lt h1, Nat.mod_eq_of_lt h2, Nat.mod_eq_of_lt h3, Nat.mod_eq_of_lt (show e.diff < 2 ^ 64 by omega),
    Nat.mod_eq_of_lt hd]

/-- the coin per position from an arbitrary `coin position weight weight_sum` -/
def selW (coin : Nat → Nat → Nat → Bool) (pool : List Ex) : Nat → Bool :=
  fun i => match pool[i]? with
    | some e => coin i (weight64 e) (weightSum64 pool)
    | none => false

/-- `dss::shake_impl` with the selection driven by machine weights -/
def shakeImplW (P : Partitioner) (ts : Nat → Nat) (coin : Nat → Nat → Nat → Bool) (s : St) : St :=
  shakeImpl P ts (selW coin (s.va ++ s.tr)) s

/-- nothing is lost by treating the selection as an arbitrary Boolean per position: every such
    selection is produced by some coin -/
theorem selW_any (sel : Nat → Bool) (pool : List Ex) :
    ∃ coin, ∀ i, i < pool.length → selW coin pool i = sel i := by
  refine ⟨fun i _ _ => sel i, ?_⟩
  intro i hi
  simp [selW, List.getElem?_eq_getElem hi]

end Vita.C16
