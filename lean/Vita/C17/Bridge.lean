/-
  C17 — the extracted code (Gen.lean, interpreted by Model.lean §B at the machine types) refines the
  specification functions (Model.lean §A).  Every lemma here is about the GENERATED values: when the C++ source
  changes, Gen.lean changes and these proofs are re-checked against the new terms.
-/
import Vita.C17.Lemmas
import Vita.C17.Gen
namespace Vita.C17
open Vita.C17.M Vita.C17.Code

/-- discharges `safe ρ e` for a concrete generated expression under range hypotheses in the context -/
macro "safe_tac" : tactic =>
  `(tactic| (simp only [safe, evalZ, binZ, In, Ty.lo, Ty.hi, envOf, List.getD_cons_zero, List.getD_cons_succ,
               List.getD_nil, and_true, true_and] <;> omega))

/-! ## ages -/

theorem gen_age_read (s : Int) (h0 : 0 ≤ s) (h1 : s < 4294967296) : Gen.age.read s = s := by
  unfold AgeCode.read
  rw [safe_sound _ _ (by simp only [Gen.age]; safe_tac)]
  simp [Gen.age, evalZ, envOf]

theorem gen_age_incr (s : Int) (h0 : 0 ≤ s) (h1 : s + 1 < 4294967296) : Gen.age.incr s = s + 1 := by
  unfold AgeCode.incr
  rw [safe_sound _ _ (by simp only [Gen.age]; safe_tac)]
  simp [Gen.age, evalZ, binZ, envOf]

theorem gen_age_older (s r : Int) (h0 : 0 ≤ s) (h1 : s < 4294967296) (h2 : 0 ≤ r) (h3 : r < 4294967296) :
    Gen.age.older s r = max s r := by
  unfold AgeCode.older
  have hp : Gen.age.paramTy.wrap r = r := wrap_of_in _ _ (by simp only [Gen.age, In, Ty.lo, Ty.hi]; omega)
  simp only [hp]
  rw [safe_sound _ Gen.age.olderCond (by simp only [Gen.age]; safe_tac),
      safe_sound _ Gen.age.olderNew (by simp only [Gen.age]; safe_tac)]
  simp only [Gen.age, evalZ, cmpZ, b2i, envOf, List.getD_cons_zero, List.getD_cons_succ]
  by_cases h : s < r <;> simp [h] <;> omega

theorem gen_age_load (v : Int) (h0 : 0 ≤ v) (h1 : v < 4294967296) : Gen.age.load v = some v := by
  unfold AgeCode.load
  have hin : In Gen.age.tmpTy v := by simp only [Gen.age, In, Ty.lo, Ty.hi]; omega
  rw [if_pos hin, safe_sound _ _ (by simp only [Gen.age]; safe_tac)]
  simp [Gen.age, evalZ, envOf]

/-! ## random.h at `int` (gene values) and at the type of the cut points -/

theorem gen_between_int (lo hi : Int) (u : Nat) (h1 : In .i32 lo) (h2 : In .i32 hi) (h : lo < hi) :
    Gen.randInt.between lo hi u = lo + (u : Int) % (hi - lo) := by
  unfold In at h1 h2
  simp only [Ty.lo, Ty.hi] at h1 h2
  unfold RandInt.between uniformInt
  rw [safe_sound _ Gen.randInt.betA (by simp only [Gen.randInt]; safe_tac),
      safe_sound _ Gen.randInt.betB (by simp only [Gen.randInt]; safe_tac)]
  simp only [Gen.randInt, evalZ, binZ, envOf, List.getD_cons_zero, List.getD_cons_succ]
  have : hi - 1 - lo + 1 = hi - lo := by omega
  rw [this]

theorem gen_in_int (lo hi : Int) (u : Nat) (h1 : In .i32 lo) (h2 : In .i32 hi) (h : lo < hi) :
    Gen.randInt.in_ lo hi u = lo + (u : Int) % (hi - lo) := by
  unfold RandInt.in_
  simp only [Gen.randInt, evalM, envOf, List.getD_cons_zero, List.getD_cons_succ]
  exact gen_between_int lo hi u h1 h2 h

/-- `number<int>::init()` as written = the specification's draw -/
theorem gen_drawInt (r : Iv) (u : Nat) (h1 : In .i32 r.lo) (h2 : In .i32 r.hi) (h : r.lo < r.hi) :
    Gen.initInt.drawInt Gen.randInt r u = pick r u := by
  simp only [InitCode.drawInt, Gen.initInt, pick]
  exact gen_in_int r.lo r.hi u h1 h2 h

theorem gen_drawGene (s : Slot) (k u : Nat) (hd : ∀ r ∈ s, r.lo < r.hi ∧ In .i32 r.lo ∧ In .i32 r.hi) :
    drawGene Gen.initInt Gen.randInt s k u = pickS s k u := by
  unfold drawGene pickS
  cases hs : s[k % s.length]? with
  | none => rfl
  | some r =>
    have hm : r ∈ s := List.mem_of_getElem? hs
    obtain ⟨a, b, c⟩ := hd r hm
    exact gen_drawInt r u b c a

theorem gen_between_idx (a b : Int) (u : Nat) (h0 : 0 ≤ a) (h : a < b) (h2 : b < 18446744073709551616) :
    Gen.randIdx.between a b u = a + (u : Int) % (b - a) := by
  unfold RandInt.between uniformInt
  rw [safe_sound _ Gen.randIdx.betA (by simp only [Gen.randIdx]; safe_tac),
      safe_sound _ Gen.randIdx.betB (by simp only [Gen.randIdx]; safe_tac)]
  simp only [Gen.randIdx, evalZ, binZ, envOf, List.getD_cons_zero, List.getD_cons_succ]
  have : b - 1 - a + 1 = b - a := by omega
  rw [this]

theorem gen_sup_idx (x : Int) (u : Nat) (h : 0 < x) (h2 : x < 18446744073709551616) :
    Gen.randIdx.sup x u = (u : Int) % x := by
  unfold RandInt.sup
  simp only [Gen.randIdx, evalM, envOf, List.getD_cons_zero]
  have := gen_between_idx 0 x u (by omega) h h2
  simp only [Gen.randIdx] at this
  rw [this]; simp

/-! ## constructors: gene `k` is initialised by a terminal of category `k` -/

theorem gen_gaCtor_counter (k : Nat) (h : k < 2147483648) : Gen.gaCtor.counter k = k := by
  induction k with
  | zero => simp [CtorCode.counter, Gen.gaCtor, evalM]
  | succ k ih =>
    unfold CtorCode.counter
    rw [ih (by omega), safe_sound _ _ (by simp only [Gen.gaCtor]; safe_tac)]
    simp only [Gen.gaCtor, evalZ, binZ, envOf, List.getD_cons_zero]
    omega

theorem gen_gaCtor_term (k : Nat) (h : k < 2147483648) : Gen.gaCtor.term k = k := by
  unfold CtorCode.term
  rw [gen_gaCtor_counter k h, safe_sound _ _ (by simp only [Gen.gaCtor]; safe_tac)]
  simp [Gen.gaCtor, evalZ, envOf]

theorem gen_deCtor_term (k : Nat) (h : k < 2147483648) : Gen.deCtor.term k = k := by
  have hc : ∀ k : Nat, k < 2147483648 → Gen.deCtor.counter k = k := by
    intro k
    induction k with
    | zero => intro _; simp [CtorCode.counter, Gen.deCtor, evalM]
    | succ k ih =>
      intro h
      unfold CtorCode.counter
      rw [ih (by omega), safe_sound _ _ (by simp only [Gen.deCtor]; safe_tac)]
      simp only [Gen.deCtor, evalZ, binZ, envOf, List.getD_cons_zero]
      omega
  unfold CtorCode.term
  rw [hc k h, safe_sound _ _ (by simp only [Gen.deCtor]; safe_tac)]
  simp [Gen.deCtor, evalZ, envOf]

/-- `i_ga::i_ga(const problem &)` as written = the specification -/
theorem gen_gaCtor_run (ss : List Slot) (hd : Declared ss) (hn : ss.length < 2147483648) (ch u : Nat → Nat) :
    Gen.gaCtor.run Gen.initInt Gen.randInt ss ch u = gaCreate ss ch u := by
  unfold CtorCode.run gaCreate
  congr 1
  apply List.ext_getElem?
  intro i
  simp only [List.getElem?_map, List.getElem?_mapIdx]
  by_cases hi : i < ss.length
  · rw [List.getElem?_range hi, List.getElem?_eq_getElem hi]
    simp only [Option.map_some]
    rw [gen_gaCtor_term i (by omega)]
    have : slotAt ss (i : Int) = ss[i] := by
      unfold slotAt
      rw [if_pos (Int.natCast_nonneg _), Int.toNat_natCast, List.getD_eq_getElem?_getD,
        List.getElem?_eq_getElem hi]; rfl
    rw [this, gen_drawGene _ _ _ (hd _ (List.getElem_mem hi)).2]
  · have h1 : (List.range ss.length)[i]? = none := List.getElem?_eq_none (by simp; omega)
    have h2 : ss[i]? = none := List.getElem?_eq_none (by omega)
    simp [h1, h2]

/-! ## crossover(lhs, rhs) -/

/-- evaluates generated integer expressions at their machine types: unfolds `evalM`, then removes every `wrap` whose
    argument is in range (robust against re-association / operand order of the source expression) -/
macro "meval" : tactic =>
  `(tactic| (simp only [evalM, binZ, envOf, List.getD_cons_zero, List.getD_cons_succ, List.getD_nil]
             repeat (rw [wrap_of_in _ _ (by simp only [In, Ty.lo, Ty.hi]; omega)])))

theorem gen_cut1 (n u1 u2 : Nat) (hn : 2 ≤ n) (hN : n < 9223372036854775808) :
    Gen.gaXo.cut1.eval Gen.randIdx [(n : Int)] u1 = ((cuts n u1 u2).1 : Int) := by
  simp only [Gen.gaXo, Draw.eval]
  meval
  rw [gen_sup_idx _ _ (by omega) (by omega)]
  simp only [cuts]
  have key : ∀ A : Int, A = (n : Int) - 1 → (u1 : Int) % A = ((u1 % (n - 1) : Nat) : Int) := by
    intro A hA
    subst hA
    rw [Int.natCast_emod]
    have : ((n - 1 : Nat) : Int) = (n : Int) - 1 := by omega
    rw [this]
  exact key _ (by omega)

theorem gen_cut2 (n u1 u2 : Nat) (hn : 2 ≤ n) (hN : n < 9223372036854775808) :
    Gen.gaXo.cut2.eval Gen.randIdx [(n : Int), ((cuts n u1 u2).1 : Int)] u2 = ((cuts n u1 u2).2 : Int) := by
  have hs := cuts_spec n u1 u2 hn
  simp only [Gen.gaXo, Draw.eval]
  simp only [cuts] at hs ⊢
  generalize u1 % (n - 1) = c1 at hs ⊢
  meval
  rw [gen_between_idx _ _ _ (by omega) (by omega) (by omega)]
  have key : ∀ A : Int, A = (c1 : Int) + 1 →
      A + (u2 : Int) % ((n : Int) - A) = ((c1 + 1 + u2 % (n - (c1 + 1)) : Nat) : Int) := by
    intro A hA
    subst hA
    rw [Int.natCast_add, Int.natCast_add, Int.natCast_emod]
    have : ((n - (c1 + 1) : Nat) : Int) = (n : Int) - ((c1 : Int) + 1) := by omega
    rw [this]
    simp
  exact key _ (by omega)

theorem age_older_nat (a b : Nat) (ha : a < 4294967296) (hb : b < 4294967296) :
    (Gen.age.older (a : Int) (Gen.age.read (b : Int))).toNat = olderAge a b := by
  rw [gen_age_read _ (by omega) (by omega), gen_age_older _ _ (by omega) (by omega) (by omega) (by omega)]
  unfold olderAge
  split <;> omega

/-- `crossover(const i_ga &, const i_ga &)` as written = the specification -/
theorem gen_gaXo_run (u1 u2 : Nat) (l r : Ga) (hlen : l.genome.length = r.genome.length)
    (hn : 2 ≤ r.genome.length) (hN : r.genome.length < 9223372036854775808)
    (hal : l.age < 4294967296) (har : r.age < 4294967296) :
    Gen.gaXo.run Gen.age Gen.randIdx u1 u2 l r = gaCrossover u1 u2 l r := by
  have hs := cuts_spec r.genome.length u1 u2 hn
  have h1 := gen_cut1 r.genome.length u1 u2 hn hN
  have h2 := gen_cut2 r.genome.length u1 u2 hn hN
  unfold XoCode.run gaCrossover
  simp only [Gen.gaXo] at h1 h2 ⊢
  rw [hlen, h1, h2]
  simp only [evalM, envOf, List.getD_cons_zero, List.getD_cons_succ, List.cons_append, List.nil_append]
  congr 1
  · rw [forRange_congr _ _ _ (fun i st => setI st i ((fun j _ => l.genome.getD j 0) i.toNat (getI st i)))
      _ (by intro i _ _ st; simp [getI])]
    rw [forRange_pointSet (fun j _ => l.genome.getD j 0) (cuts r.genome.length u1 u2).1
      (cuts r.genome.length u1 u2).2 r.genome (by omega) (by omega)]
    unfold splice
    apply List.ext_getElem?
    intro i
    simp only [List.getElem?_mapIdx]
    by_cases hi : i < r.genome.length
    · have hi' : i < l.genome.length := by omega
      simp only [List.getElem?_eq_getElem hi, List.getElem?_eq_getElem hi', Option.map_some,
        List.getD_eq_getElem?_getD, Option.getD_some]
    · simp [List.getElem?_eq_none (Nat.le_of_not_lt hi)]
  · exact age_older_nat r.age l.age har hal

/-! ## i_ga::mutation -/

/-- the rewrite `i_ga::mutation` performs at position `j` (specification side) -/
def mutPoint (ss : List Slot) (flip : Nat → Bool) (ch u : Nat → Nat) (j : Nat) (old : Int) : Option Int :=
  if flip j then
    (if pickS (ss.getD j []) (ch j) (u j) ≠ old then some (pickS (ss.getD j []) (ch j) (u j)) else none)
  else none

theorem hits_le {α} [Inhabited α] (f : Nat → α → Option α) (l : List α) (lo n : Nat) : hits f l lo n ≤ n := by
  unfold hits
  exact Nat.le_trans (List.length_filter_le _ _) (by simp)

theorem mutPoint_map (ss : List Slot) (flip : Nat → Bool) (ch u : Nat → Nat) (g : List Int)
    (hl : g.length = ss.length) :
    g.mapIdx (fun j x => if 0 ≤ j ∧ j < g.length then (mutPoint ss flip ch u j x).getD x else x) =
      mutGenome ss flip ch u g := by
  unfold mutGenome
  apply List.ext_getElem?
  intro i
  simp only [List.getElem?_mapIdx]
  by_cases hi : i < g.length
  · have hi' : i < ss.length := by omega
    simp only [List.getElem?_eq_getElem hi, List.getElem?_eq_getElem hi', Option.map_some,
      List.getD_eq_getElem?_getD, Option.getD_some, mutPoint]
    have : (0 ≤ i ∧ i < g.length) := ⟨by omega, hi⟩
    simp only [this, and_self, if_true]
    by_cases hf : flip i = true
    · simp only [hf, if_true]
      by_cases hg : pickS ss[i] (ch i) (u i) = g[i]
      · simp [hg]
      · simp [hg]
    · simp [hf]
  · simp [List.getElem?_eq_none (Nat.le_of_not_lt hi)]

theorem mutPoint_hits (ss : List Slot) (flip : Nat → Bool) (ch u : Nat → Nat) (g : List Int)
    (hl : g.length = ss.length) :
    hits (mutPoint ss flip ch u) g 0 g.length = countDiff g (mutGenome ss flip ch u g) := by
  rw [countDiff_eq_filter _ _ (by simp [mutGenome])]
  unfold hits
  rw [← List.range_eq_range']
  congr 1
  apply List.filter_congr
  intro j hj
  have hj' : j < g.length := List.mem_range.mp hj
  have hj2 : j < ss.length := by omega
  have hm : (mutGenome ss flip ch u g).getD j 0 =
      (if flip j then pickS ss[j] (ch j) (u j) else g[j]) := by
    unfold mutGenome
    rw [List.getD_eq_getElem?_getD, List.getElem?_mapIdx, List.getElem?_eq_getElem hj',
      List.getElem?_eq_getElem hj2]
    simp
  rw [hm]
  have hg : g.getD j default = g[j] := by
    rw [List.getD_eq_getElem?_getD, List.getElem?_eq_getElem hj']; rfl
  have hg0 : g.getD j 0 = g[j] := by
    rw [List.getD_eq_getElem?_getD, List.getElem?_eq_getElem hj']; rfl
  have hs : ss.getD j [] = ss[j] := by
    rw [List.getD_eq_getElem?_getD, List.getElem?_eq_getElem hj2]; rfl
  rw [hg, hg0]
  unfold mutPoint
  rw [hs]
  by_cases hf : flip j = true
  · simp only [hf, if_true]
    by_cases hp : pickS ss[j] (ch j) (u j) = g[j]
    · simp [hp]
    · simp [hp]; exact fun h => hp h.symm
  · simp [hf]

/-- `i_ga::mutation` as written = the specification (returned count included) -/
theorem gen_gaMut_run (ss : List Slot) (hd : Declared ss) (flip : Nat → Bool) (ch u : Nat → Nat) (x : Ga)
    (hl : x.genome.length = ss.length) (hN : ss.length < 4294967296) :
    Gen.gaMut.run Gen.initInt Gen.randInt ss flip ch u x = gaMutate ss flip ch u x := by
  unfold MutCode.run gaMutate
  simp only [Gen.gaMut, evalM, envOf, List.getD_cons_zero]
  have hb : ∀ i : Nat, (0 : Int).toNat ≤ i → i < ((x.genome.length : Nat) : Int).toNat → ∀ st,
      MutCode.step Gen.gaMut Gen.initInt Gen.randInt ss flip ch u (x.genome.length : Int) (i : Int) st =
        pointStep (mutPoint ss flip ch u) (i : Int) st := by
    intro i _ hi st
    have hi' : i < ss.length := by simp at hi; omega
    have hs : slotAt ss (i : Int) = ss[i] := by
      unfold slotAt
      rw [if_pos (Int.natCast_nonneg _), Int.toNat_natCast, List.getD_eq_getElem?_getD,
        List.getElem?_eq_getElem hi']; rfl
    have hs2 : ss.getD i [] = ss[i] := by
      rw [List.getD_eq_getElem?_getD, List.getElem?_eq_getElem hi']; rfl
    unfold MutCode.step pointStep mutPoint
    simp only [Gen.gaMut, evalM, envOf, List.getD_cons_zero, List.getD_cons_succ, Int.toNat_natCast, hs, hs2,
      gen_drawGene _ _ _ (hd _ (List.getElem_mem hi')).2]
    by_cases hf : flip i = true
    · simp only [hf, if_true]
      by_cases hg : pickS ss[i] (ch i) (u i) = getI st.1 (i : Int)
      · simp [hg]
      · simp [hg]
    · simp [hf]
  have hgm : Code.MutCode.step
      { psOf := Who.self, loopTy := Ty.u64, from_ := E.lit 0, to_ := E.var 0, guardIsBooleanOfPgm := true,
        termIdx := E.var 1, cmpIdx := E.var 1, dstIdx := E.var 1, cmpIsNe := true, counterTy := Ty.u32,
        returnsCounter := true, touchesAge := false } = Code.MutCode.step Gen.gaMut := rfl
  rw [hgm, forRange_congr _ _ _ _ _ hb]
  have := forRange_pointStep (mutPoint ss flip ch u) 0 x.genome.length x.genome 0 (by omega) (by omega)
  simp only [Int.natCast_zero] at this
  rw [this]
  simp only [Nat.zero_add, Nat.sub_zero]
  rw [mutPoint_map ss flip ch u x.genome hl, mutPoint_hits ss flip ch u x.genome hl]
  congr 1
  have hle : countDiff x.genome (mutGenome ss flip ch u x.genome) ≤ x.genome.length := by
    rw [← mutPoint_hits ss flip ch u x.genome hl]; exact hits_le _ _ _ _
  rw [wrap_of_in _ _ (by simp only [In, Ty.lo, Ty.hi]; omega)]
  simp

/-! ## i_de::crossover -/

theorem getI_nat {α} [Inhabited α] (l : List α) (i : Nat) (h : i < l.length) : getI l (i : Int) = l[i] := by
  unfold getI
  rw [if_pos (Int.natCast_nonneg _), Int.toNat_natCast, List.getD_eq_getElem?_getD, List.getElem?_eq_getElem h]
  rfl

theorem getI_nat' {α} [Inhabited α] (l : List α) (i : Nat) : getI l (i : Int) = l.getD i default := by
  unfold getI
  rw [if_pos (Int.natCast_nonneg _), Int.toNat_natCast]

/-- `i_de::crossover` as written = the specification, for every number type and arithmetic -/
theorem gen_deXo_run {F} [Inhabited F] (A : Arith F) (rf : F) (flip : Nat → Bool) (t a b c : De F)
    (ha : a.genome.length = t.genome.length) (hb : b.genome.length = t.genome.length)
    (hc : c.genome.length = t.genome.length) (hn : 1 ≤ t.genome.length)
    (hN : t.genome.length < 9223372036854775808)
    (hat : t.age < 4294967296) (haa : a.age < 4294967296) (hab : b.age < 4294967296) (hac : c.age < 4294967296) :
    Gen.deXo.run Gen.age A rf flip t a b c = deCrossover A rf flip t a b c := by
  unfold DeXoCode.run deCrossover
  simp only [Gen.deXo]
  rw [De.mk.injEq]
  constructor
  · -- genome
    rw [safe_sound _ (.bin .sub .u64 (.var 0) (.lit 1)) (by safe_tac)]
    simp only [evalZ, evalM, binZ, envOf, List.getD_cons_zero, List.getD_cons_succ]
    rw [forRange_congr _ _ _ (fun i st => setI st i ((fun j x =>
        if flip j then A.add x (A.mul rf (A.sub (a.genome.getD j default) (b.genome.getD j default)))
        else t.genome.getD j default) i.toNat (getI st i))) _
      (by
        intro i _ _ st
        simp only [Assign.exec, RE.eval, evalM, envOf, List.getD_cons_zero, List.getD_cons_succ,
          Int.toNat_natCast, getI_nat']
        split <;> rfl)]
    have e0 : (0 : Int) = ((0 : Nat) : Int) := rfl
    have e1 : (t.genome.length : Int) - 1 = ((t.genome.length - 1 : Nat) : Int) := by omega
    rw [e0, e1, forRange_pointSet (fun j x =>
        if flip j then A.add x (A.mul rf (A.sub (a.genome.getD j default) (b.genome.getD j default)))
        else t.genome.getD j default) 0 (t.genome.length - 1) c.genome (by omega) (by omega)]
    simp only [Assign.exec, RE.eval]
    rw [safe_sound _ (.bin .sub .u64 (.var 0) (.lit 1)) (by safe_tac)]
    simp only [evalZ, binZ, envOf, List.getD_cons_zero]
    rw [e1]
    apply List.ext_getElem?
    intro i
    by_cases hi : i < t.genome.length
    · rw [trial_get A rf flip _ _ _ _ ha hb hc i hi]
      unfold setI
      rw [if_pos (Int.natCast_nonneg _), Int.toNat_natCast, List.getElem?_set]
      simp only [List.length_mapIdx, getI_nat']
      have hic : i < c.genome.length := by omega
      have hia : i < a.genome.length := by omega
      have hib : i < b.genome.length := by omega
      by_cases he : t.genome.length - 1 = i
      · subst he
        have hlt : t.genome.length - 1 < c.genome.length := by omega
        simp only [if_true, hlt, true_or]
        simp only [List.getD_eq_getElem?_getD, List.getElem?_mapIdx, List.getElem?_eq_getElem hic,
          List.getElem?_eq_getElem hia, List.getElem?_eq_getElem hib, Option.map_some, Option.getD_some, mutant]
        have : ¬ (0 ≤ t.genome.length - 1 ∧ t.genome.length - 1 < t.genome.length - 1) := by omega
        simp only [this, if_false]
      · have hne : ¬ (i = t.genome.length - 1) := fun h => he h.symm
        simp only [he, if_false, hne, false_or]
        simp only [List.getElem?_mapIdx, List.getElem?_eq_getElem hic, Option.map_some,
          List.getD_eq_getElem?_getD, List.getElem?_eq_getElem hia, List.getElem?_eq_getElem hib,
          List.getElem?_eq_getElem hi, Option.getD_some, mutant]
        have : (0 ≤ i ∧ i < t.genome.length - 1) := by omega
        simp only [this, and_self, if_true]
    · have h1 : (trial A rf flip t.genome a.genome b.genome c.genome)[i]? = none :=
        List.getElem?_eq_none (by rw [trial_length A rf flip _ _ _ _ ha hb hc]; omega)
      rw [h1]
      apply List.getElem?_eq_none
      unfold setI
      rw [if_pos (Int.natCast_nonneg _)]
      simp only [List.length_set, List.length_mapIdx]
      omega
  · -- age
    simp only [List.map_cons, List.map_nil, List.foldl_cons, List.foldl_nil]
    rw [gen_age_read _ (by omega) (by omega), gen_age_read _ (by omega) (by omega),
      gen_age_read _ (by omega) (by omega),
      gen_age_older _ _ (by omega) (by omega) (by omega) (by omega)]
    unfold olderAge
    split <;> omega

end Vita.C17
