/-
  C17 — the SYNTAX the translator `tools/translate_gade.py` extracts from the clang AST of
    src/kernel/individual.h(.tcc)            age book-keeping (member type, age(), inc_age, set_older_age, load)
    src/kernel/random.h                      between<integral> / between<floating> / sup / in
    src/kernel/ga/primitive.h                number<T>::init
    src/kernel/ga/i_ga.cc                    i_ga(problem), mutation, crossover
    src/kernel/ga/i_de.cc                    i_de(problem), crossover
    src/kernel/evolution_recombination.tcc   recombination::base<T>::run, recombination::de<T>::run
  Only data types live here; `lean/Vita/C17/Gen.lean` (generated, one `def` per function) contains values of
  these types, `Model.lean` gives them a meaning and `Props.lean` proves the property from the generated values.

  The translator checks the statement SKELETON of every function syntactically (and refuses anything else);
  everything that is an expression – index, bound, draw argument, formula, which individual – is extracted.
-/
import Vita.C17.MExpr
namespace Vita.C17.Code
open Vita.C17.M

/-- the individuals an operator body can name -/
inductive Who | self | lhs | rhs | a | b | c | ret
  deriving DecidableEq, Repr

/-! ## `vita::range(m, u)` – the helper with which users write intervals -/
inductive TyRef
  | tparam (i : Nat)            -- the i-th template parameter (the deduced type of the i-th argument)
  | other (txt : String)
  deriving Repr, DecidableEq

/-- the type of each component of the returned pair and the parameter it is built from -/
structure RangeCode where
  firstTy : TyRef
  secondTy : TyRef
  firstFrom : Nat
  secondFrom : Nat
  deriving Repr, DecidableEq

/-! ## ages (individual<Derived>)   variables: 0 = the stored member `age_`, 1 = the parameter / temporary -/
structure AgeCode where
  field    : Ty          -- declared type of the data member `age_`
  getTy    : Ty          -- return type of `age()`
  get      : E           -- value returned by `age()`                       (var 0 = age_)
  inc      : E           -- new value of `age_` after `inc_age()`           (var 0 = age_)
  paramTy  : Ty          -- parameter type of `set_older_age`
  olderCond : E          -- condition of the `if` in `set_older_age`        (var 0 = age_, var 1 = parameter)
  olderNew : E           -- value assigned to `age_` when the condition holds
  tmpTy    : Ty          -- type of the temporary `load` extracts the age into
  loadNew  : E           -- value assigned to `age_` by `load`              (var 1 = temporary)
  deriving Repr

/-! ## random.h, integral instantiation   variables: 0 = first parameter, 1 = second parameter -/
structure RandInt where
  ty    : Ty
  betA  : E              -- `uniform_int_distribution<T> d(betA, betB)` in `between(min, sup)`   (0 = min, 1 = sup)
  betB  : E
  supA  : E              -- `between(supA, supB)` in `sup(x)`                                      (0 = x)
  supB  : E
  inA   : E              -- `between(inA, inB)` in `in(r)`                                         (0 = r.first, 1 = r.second)
  inB   : E
  deriving Repr

/-- real expressions (doubles): the DE formula and the floating `between` -/
inductive RE
  | rf                                  -- the weight drawn for this trial
  | gene (w : Who) (idx : E)            -- w[idx]
  | cur                                 -- the element being updated (`x += e` is `x = cur + e`)
  | par (i : Nat)                       -- i-th parameter of the function
  | draw                                -- the value returned by the standard distribution object
  | add (x y : RE)
  | sub (x y : RE)
  | mul (x y : RE)
  | nextafter (x y : RE)
  | iteLt (x y t e : RE)                -- x < y ? t : e
  deriving Repr

/-- random.h, floating instantiation: `uniform_real_distribution<T> d(ctorA, ctorB)`; the returned expression -/
structure RandReal where
  halvesWhenWide : Bool  -- `if (!isfinite(sup − min)) return 2 * between(min / 2, sup / 2);` precedes the draw
  ctorA : RE
  ctorB : RE
  ret   : RE
  inA   : RE             -- `between(inA, inB)` in `in(r)`   (par 0 = r.first, par 1 = r.second)
  inB   : RE
  deriving Repr

/-- `number<T>::init()`: which helper is called on which member, and the conversions applied to the result -/
inductive InitSrc | inRange           -- `random::in(range_)`
  deriving DecidableEq, Repr

structure InitCode where
  src   : InitSrc
  elemTy : Option Ty     -- `some t` for an integral `T`, `none` for a floating one
  viaDouble : Bool       -- the result travels through `terminal_param_t` (double)
  deriving Repr

/-! ## i_ga -/

/-- a draw of an index: which helper with which arguments -/
inductive Draw
  | sup (e : E)
  | between (lo hi : E)
  deriving Repr

/-- `i_ga::i_ga(const problem &)` / `i_de::i_de(const problem &)`:
    `genome_(p.sset.categories())`, `std::generate(begin, end, [&, n = n0]() mutable { return conv(p.sset.roulette_terminal(idx).init()); })`
    variables: 0 = the captured counter `n` BEFORE the call -/
structure CtorCode where
  sizeIsCategories : Bool
  wholeGenome : Bool     -- generate over [genome_.begin(), genome_.end())
  counterTy : Ty
  counterInit : E
  termIdx  : E           -- argument of roulette_terminal as evaluated (post-increment: the old value)
  counterNext : E        -- value of the counter after the call
  toInt    : Bool        -- result converted double -> int (i_ga) or kept (i_de)
  deriving Repr

/-- `i_ga::mutation(pgm, prb)`: `for (c = from; c < to; ++c) if (boolean(pgm)) if (g = conv(roulette_terminal(termIdx).init()); g != genome_[cmpIdx]) { ++n; genome_[dstIdx] = g; }  …  return n;`
    variables: 0 = ps (= parameters()), 1 = loop variable -/
structure MutCode where
  psOf     : Who
  loopTy   : Ty
  from_    : E
  to_      : E
  guardIsBooleanOfPgm : Bool
  termIdx  : E
  cmpIdx   : E
  dstIdx   : E
  cmpIsNe  : Bool
  counterTy : Ty
  returnsCounter : Bool
  touchesAge : Bool
  deriving Repr

/-- `crossover(lhs, rhs)`   variables: 0 = ps, 1 = cut1, 2 = cut2, 3 = loop variable -/
structure XoCode where
  psOf     : Who
  cut1     : Draw
  cut2     : Draw
  copyOf   : Who         -- `i_ga ret(copyOf)`
  loopTy   : Ty
  from_    : E
  to_      : E           -- `for (i = from_; i < to_; ++i)`
  dstIdx   : E           -- `ret.genome_[dstIdx] = src[srcIdx]`
  src      : Who
  srcIdx   : E
  ageRecv  : Who         -- `ageRecv.set_older_age(ageOf.age())`
  ageOf    : Who
  returns  : Who
  deriving Repr

/-! ## i_de -/

/-- one assignment to an element of the trial vector: `ret[idx] = val` (`+=` is expressed with `RE.cur`) -/
structure Assign where
  idx : E
  val : RE
  deriving Repr

/-- `i_de::crossover(p, f, a, b, c)`   variables: 0 = ps, 1 = loop variable -/
structure DeXoCode where
  psOf     : Who
  ditherIsInOfF : Bool   -- `rf = random::in(f)` with `f` the second parameter
  copyOf   : Who         -- `i_de ret(copyOf)`
  loopTy   : Ty
  from_    : E
  to_      : E
  guardIsBooleanOfP : Bool
  thenA    : Assign      -- taken when `random::boolean(p)`
  elseA    : Assign
  lastA    : Assign      -- the statement after the loop
  ageRecv  : Who
  ageOf    : List Who    -- `ret.set_older_age(std::max({x.age()…}))`
  returns  : Who
  deriving Repr

/-! ## recombination strategies (call sites) -/

/-- coordinates of an individual in the population, as the strategy computes them -/
inductive Coord
  | parent (k : Nat)                      -- parent[k]
  | pickup (near : Coord)                 -- pickup(pop, near): a random individual of the mating zone
  | ifParents (gt : Nat) (t e : Coord)    -- parent.size() > gt ? t : e
  | flip (t e : Coord)                    -- random::boolean() ? t : e
  deriving Repr, DecidableEq

/-- where a scalar argument of the operator comes from -/
inductive Conf
  | pCross | pMutation | deWeight | brood
  | other (txt : String)
  deriving Repr, DecidableEq

/-- `recombination::de<T>::run`: `return {pop[target].crossover(p, f, pop[a], pop[b], pop[c])}` -/
structure DeRunCode where
  target : Coord
  p : Conf
  f : Conf
  a : Coord
  b : Coord
  c : Coord
  deriving Repr, DecidableEq

/-- `recombination::base<T>::run` -/
structure GaRunCode where
  r1 : Coord
  r2 : Coord
  crossGuard : Conf                -- `if (random::boolean(<conf>))`
  lhs : Coord                      -- crossover(pop[lhs], pop[rhs])
  rhs : Coord
  mutGuardPositive : Conf          -- `if (<conf> > 0.0)` around the signature-repulsion loop
  mutP : Conf                      -- `ret.mutation(<conf>, prob)`
  broodCount : Conf                -- number of cross_and_mutate calls when the crossover branch is taken
  elseCopy : Coord                 -- `T off(pop[elseCopy])`
  elseMutP : Conf                  -- `off.mutation(<conf>, prob)`
  deriving Repr, DecidableEq

end Vita.C17.Code
