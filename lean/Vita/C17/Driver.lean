/-
  C17 line-protocol driver: one observed operator execution per line, fields separated by " | ",
  integers in decimal, doubles as u64 bit patterns.

    GC <lo hi>… | genome                                      -> ok | bad <why>        i_ga(problem)
    GM <lo hi>… | pre | post | ret agePre agePost             -> ok | bad              i_ga::mutation
    GX <lo hi>… | lhs | rhs | child | ageL ageR ageC          -> ok | bad              crossover(lhs, rhs)
    DC <lo hi>… | genome                                      -> ok <#genes == hi> | bad   i_de(problem)
    DX p wlo whi | target | a | b | c | trial | aT aA aB aC aTrial
                                                              -> ok <Fmin> <Fmax> | bad <why> | nan
  DX decides: is there ONE double F in [wlo, whi] with, for every position i, trial[i] = target[i] or
  trial[i] = c[i] + F*(a[i] − b[i]) (IEEE double, evaluated like the code), the last position being
  the mutant?  `F ↦ c + F·d` is monotone, so the admissible F of one position form an interval of
  doubles found by bisection on the bit patterns; the intervals are intersected.
-/
import Vita.C17.Model
open Vita.C17

instance (rs : List Iv) (g : List Int) : Decidable (InRange rs g) := by
  unfold InRange; exact inferInstance

instance (rs : List Iv) (pre post : Ga) (ret : Nat) : Decidable (MutStep rs pre post ret) := by
  unfold MutStep; exact inferInstance

instance (l r child : Ga) : Decidable (XoStep l r child) := by
  unfold XoStep; exact inferInstance

def words (s : String) : List String := (s.trimAscii.toString.splitOn " ").filter (· ≠ "")

def ints (s : String) : Option (List Int) := (words s).mapM String.toInt?
def nats (s : String) : Option (List Nat) := (words s).mapM String.toNat?

def ranges : List Int → Option (List Iv)
  | [] => some []
  | lo :: hi :: r => (ranges r).map (⟨lo, hi⟩ :: ·)
  | _ => none

def floats (s : String) : Option (List Float) :=
  (nats s).map fun l => l.map fun n => Float.ofBits n.toUInt64

/-- order-preserving key of a non-NaN double (−0 and +0 share key 0) -/
def key (x : Float) : Int :=
  let b := x.toBits.toNat
  if b < 2 ^ 63 then (b : Int) else - ((b - 2 ^ 63 : Nat) : Int)

def unkey (k : Int) : Float :=
  if k ≥ 0 then Float.ofBits k.toNat.toUInt64 else Float.ofBits (2 ^ 63 + (-k).toNat).toUInt64

def feq (x y : Float) : Bool := x == y || (x.isNaN && y.isNaN)

/-- smallest `k ∈ [lo, hi]` with `p k` for a monotone (false…true) predicate; `hi + 1` if none -/
def firstTrue (p : Int → Bool) (lo hi : Int) : Int := Id.run do
  let mut l := lo
  let mut h := hi + 1
  for _ in [0:70] do
    if l < h then
      let m := l + (h - l) / 2
      if p m then h := m else l := m + 1
  return l

/-- the doubles `F` (as a key interval inside `[lo, hi]`) with `c + F*d = t` -/
def admissible (c d t : Float) (lo hi : Int) : Int × Int :=
  let h (k : Int) : Float := c + unkey k * d
  if d > 0 then
    -- h nondecreasing: first k with h ≥ t … last k with h ≤ t
    let a := firstTrue (fun k => h k ≥ t) lo hi
    let b := firstTrue (fun k => h k > t) lo hi - 1
    (a, b)
  else if d < 0 then
    let a := firstTrue (fun k => h k ≤ t) lo hi
    let b := firstTrue (fun k => h k < t) lo hi - 1
    (a, b)
  else if feq (h lo) t then (lo, hi) else (1, 0)

def deAnswer (wlo whi : Float) (tg a b c tr : List Float) (ages : List Nat) : String := Id.run do
  let n := tg.length
  if n = 0 ∨ a.length ≠ n ∨ b.length ≠ n ∨ c.length ≠ n then return "bad-op"
  if tr.length ≠ n then return "bad length"
  match ages with
  | [aT, aA, aB, aC, aTr] =>
    if aTr ≠ max (max aT aC) (max aA aB) then return "bad age"
  | _ => return "bad-op"
  if (tg ++ a ++ b ++ c ++ tr).any (fun x => x.isNaN || x.isInf) then return "nan"
  if ¬ (wlo ≤ whi) then return "bad-op"
  let mut lo := key wlo
  let mut hi := key whi
  for i in [0:n] do
    let t := tr[i]!
    let forced := (i == n - 1) || !(feq t tg[i]!)
    if forced then
      let d := a[i]! - b[i]!
      if d.isNaN || d.isInf then return "nan"
      let (x, y) := admissible c[i]! d t lo hi
      lo := x
      hi := y
      if lo > hi then return s!"bad no-single-F position {i}"
  return s!"ok {(unkey lo).toBits} {(unkey hi).toBits}"

def answer (line : String) : String :=
  match line.splitOn " | " with
  | [hd, g] =>
    match words hd with
    | "GC" :: rest =>
      match (rest.mapM String.toInt?).bind ranges, ints g with
      | some rs, some g => if decide (InRange rs g) then "ok" else "bad InRange"
      | _, _ => "bad-op"
    | "DC" :: rest =>
      match rest.mapM String.toNat?, floats g with
      | some bs, some g =>
        let fs := bs.map fun n => Float.ofBits n.toUInt64
        if fs.length ≠ 2 * g.length then "bad length" else Id.run do
          let mut athi := 0
          for i in [0:g.length] do
            let lo := fs[2 * i]!
            let hi := fs[2 * i + 1]!
            let x := g[i]!
            if ¬ (lo ≤ x ∧ x ≤ hi) then return s!"bad box position {i}"
            if x == hi then athi := athi + 1
          return s!"ok {athi}"
      | _, _ => "bad-op"
    | _ => "bad-op"
  | [hd, pre, post, e] =>
    match words hd with
    | "GM" :: rest =>
      match (rest.mapM String.toInt?).bind ranges, ints pre, ints post, nats e with
      | some rs, some pre, some post, some [ret, a0, a1] =>
        if ¬ decide (InRange rs pre) then "bad pre-not-in-range"
        else if decide (MutStep rs ⟨pre, a0⟩ ⟨post, a1⟩ ret) then "ok" else "bad MutStep"
      | _, _, _, _ => "bad-op"
    | _ => "bad-op"
  | [hd, l, r, ch, e] =>
    match words hd with
    | "GX" :: rest =>
      match (rest.mapM String.toInt?).bind ranges, ints l, ints r, ints ch, nats e with
      | some rs, some l, some r, some ch, some [al, ar, ac] =>
        if ¬ (decide (InRange rs l) ∧ decide (InRange rs r)) then "bad parents-not-in-range"
        else if ¬ decide (XoStep ⟨l, al⟩ ⟨r, ar⟩ ⟨ch, ac⟩) then "bad XoStep"
        else if ¬ decide (InRange rs ch) then "bad InRange"
        else "ok"
      | _, _, _, _, _ => "bad-op"
    | _ => "bad-op"
  | [hd, tg, a, b, c, tr, e] =>
    match words hd with
    | ["DX", _p, wlo, whi] =>
      match wlo.toNat?, whi.toNat?, floats tg, floats a, floats b, floats c, floats tr, nats e with
      | some wlo, some whi, some tg, some a, some b, some c, some tr, some ages =>
        deAnswer (Float.ofBits wlo.toUInt64) (Float.ofBits whi.toUInt64) tg a b c tr ages
      | _, _, _, _, _, _, _, _ => "bad-op"
    | _ => "bad-op"
  | _ => "bad-op"

partial def loop (h : IO.FS.Stream) (out : IO.FS.Stream) : IO Unit := do
  let line ← h.getLine
  if line.isEmpty then return ()
  out.putStrLn (answer line)
  loop h out

def main : IO Unit := do
  loop (← IO.getStdin) (← IO.getStdout)
