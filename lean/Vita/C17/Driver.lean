/-
  C17 line-protocol driver: one observed operator execution per line, fields separated by " | ",
  integers in decimal, doubles as u64 bit patterns.  The interval lists / boxes / weight intervals in the
  headers are the ones the REQUEST wrote (composed by the checker), never what the library recorded.

    <slots> = positions separated by "/", each position `lo hi [lo hi]…` (the terminals of that category)

    GC <slots> | genome | age                                   -> ok | bad <why>     i_ga(problem)
    GM <slots> | pre | post | ret agePre agePost | livedPre     -> ok | bad           i_ga::mutation
    GX <slots> | lhs | rhs | child | ageL ageR ageC | livedL livedR -> ok | bad       crossover(lhs, rhs)
    GS <slots> | pcbits pmbits brood | p1 | cand ; cand… | off | livedP1 | livedCands | ageOff | dcross dmut
                                                                -> ok | bad           recombination::base::run
    AG inc|load base incs lived observed                        -> ok | bad           age through inc_age / load,
                       replayed through the EXTRACTED age code (Gen.age) at its machine types
    DC <box slots> | genome | age                               -> ok | bad           i_de(problem): lo ≤ x < hi
    DX p wlo whi | target | a | b | c | trial | aT aA aB aC aTrial | lT lA lB lC
                                                                -> ok <Fmin> <Fmax> | bad <why> | nan
    DS p wlo whi | target | aCand ; … | pop ; … | off | livedT | livedACands | livedPop | ageOff
                                                                -> ok <a> <b> <c> | bad | nan   recombination::de::run
    LW lo hi | w | u y x | …                                    -> ok <#x==hi> | bad  IEEE law instances
  DX decides: is there ONE double F in the weight interval (`[wlo, whi)`, or `{wlo}` when wlo = whi) with, for every
  position i, trial[i] = target[i] or trial[i] = c[i] + F*(a[i] − b[i]) (IEEE double, evaluated like the code), the
  last position being the mutant?  `F ↦ c + F·d` is monotone, so the admissible F of one position form an
  interval of doubles found by bisection on the bit patterns; the intervals are intersected.
-/
import Vita.C17.Model
import Vita.C17.Gen
open Vita.C17 Vita.C17.M Vita.C17.Code

instance (ss : List Slot) (g : List Int) : Decidable (InRange ss g) := by
  unfold InRange; exact inferInstance

instance (ss : List Slot) (pre post : Ga) (ret : Nat) : Decidable (MutStep ss pre post ret) := by
  unfold MutStep; exact inferInstance

instance (l r child : Ga) : Decidable (XoStep l r child) := by
  unfold XoStep; exact inferInstance

instance (ss : List Slot) (brood : Nat) (p1 : Ga) (cands : List Ga) (off : Ga) (dc dm : Nat) :
    Decidable (GsStep ss brood p1 cands off dc dm) := by
  unfold GsStep; exact inferInstance

def words (s : String) : List String := (s.trimAscii.toString.splitOn " ").filter (· ≠ "")

def ints (s : String) : Option (List Int) := (words s).mapM String.toInt?
def nats (s : String) : Option (List Nat) := (words s).mapM String.toNat?

def pairs : List Int → Option (List Iv)
  | [] => some []
  | lo :: hi :: r => (pairs r).map (⟨lo, hi⟩ :: ·)
  | _ => none

/-- `lo hi lo hi / lo hi / …` -/
def slotsOf (ws : List String) : Option (List Slot) :=
  let groups := (" ".intercalate ws).splitOn "/"
  groups.mapM fun g => ((words g).mapM String.toInt?).bind pairs

def floats (s : String) : Option (List Float) :=
  (nats s).map fun l => l.map fun n => Float.ofBits n.toUInt64

def fpairs : List Float → Option (List (Float × Float))
  | [] => some []
  | lo :: hi :: r => (fpairs r).map ((lo, hi) :: ·)
  | _ => none

def boxOf (ws : List String) : Option (List (List (Float × Float))) :=
  let groups := (" ".intercalate ws).splitOn "/"
  groups.mapM fun g => (floats g).bind fpairs

/-- genomes separated by ";" -/
def intGenomes (s : String) : Option (List (List Int)) := (s.splitOn ";").mapM ints
def floatGenomes (s : String) : Option (List (List Float)) := (s.splitOn ";").mapM floats

/-- order-preserving key of a non-NaN double (−0 and +0 share key 0) -/
def key (x : Float) : Int :=
  let b := x.toBits.toNat
  if b < 2 ^ 63 then (b : Int) else - ((b - 2 ^ 63 : Nat) : Int)

def unkey (k : Int) : Float :=
  if k ≥ 0 then Float.ofBits k.toNat.toUInt64 else Float.ofBits (2 ^ 63 + (-k).toNat).toUInt64

def feq (x y : Float) : Bool := x == y || (x.isNaN && y.isNaN)

/-- smallest `k ∈ [lo, hi]` with `p k` for a monotone (false…true) predicate; `hi + 1` if none -/
def firstTrue (p : Int → Bool) (lo hi : Int) : Int := Id.run do
  let mut l := lo
  let mut h := hi + 1
  for _ in [0:70] do
    if l < h then
      let m := l + (h - l) / 2
      if p m then h := m else l := m + 1
  return l

/-- the doubles `F` (as a key interval inside `[lo, hi]`) with `c + F*d = t` -/
def admissible (c d t : Float) (lo hi : Int) : Int × Int :=
  let h (k : Int) : Float := c + unkey k * d
  if d > 0 then
    let a := firstTrue (fun k => h k ≥ t) lo hi
    let b := firstTrue (fun k => h k > t) lo hi - 1
    (a, b)
  else if d < 0 then
    let a := firstTrue (fun k => h k ≤ t) lo hi
    let b := firstTrue (fun k => h k < t) lo hi - 1
    (a, b)
  else if feq (h lo) t then (lo, hi) else (1, 0)

/-- the weight interval as keys: `[wlo, whi)`, or `{wlo}` for the degenerate configuration wlo = whi -/
def weightKeys (wlo whi : Float) : Option (Int × Int) :=
  if wlo < whi then some (key wlo, key whi - 1)
  else if wlo == whi then some (key wlo, key wlo)
  else none

def deForm (wlo whi : Float) (tg a b c tr : List Float) : String := Id.run do
  let n := tg.length
  if n = 0 ∨ a.length ≠ n ∨ b.length ≠ n ∨ c.length ≠ n then return "bad-op"
  if tr.length ≠ n then return "bad length"
  if (tg ++ a ++ b ++ c ++ tr).any (fun x => x.isNaN || x.isInf) then return "nan"
  match weightKeys wlo whi with
  | none => return "bad-op"
  | some (l0, h0) =>
    let mut lo := l0
    let mut hi := h0
    for i in [0:n] do
      let t := tr[i]!
      let forced := (i == n - 1) || !(feq t tg[i]!)
      if forced then
        let d := a[i]! - b[i]!
        if d.isNaN || d.isInf then return "nan"
        let (x, y) := admissible c[i]! d t lo hi
        lo := x
        hi := y
        if lo > hi then return s!"bad no-single-F position {i}"
    return s!"ok {(unkey lo).toBits} {(unkey hi).toBits}"

def max4 (a b c d : Nat) : Nat := max (max a b) (max c d)

def deAnswer (wlo whi : Float) (tg a b c tr : List Float) (ages lived : List Nat) : String :=
  match ages, lived with
  | [aT, aA, aB, aC, aTr], [lT, lA, lB, lC] =>
    if aT ≠ lT ∨ aA ≠ lA ∨ aB ≠ lB ∨ aC ≠ lC then "bad age-not-generations-lived"
    else if aTr ≠ max4 lT lA lB lC then "bad age"
    else deForm wlo whi tg a b c tr
  | _, _ => "bad-op"

/-- recombination::de::run: is there an `a` among the candidates and `b`, `c` in the population explaining the offspring? -/
def dsAnswer (wlo whi : Float) (tg : List Float) (aC : List (List Float)) (pop : List (List Float)) (off : List Float)
    (lT : Nat) (lA : List Nat) (lP : List Nat) (ageOff : Nat) : String := Id.run do
  if aC.length ≠ lA.length ∨ pop.length ≠ lP.length then return "bad-op"
  let mut sawNan := false
  let mut why := "bad no-candidates"
  for ia in [0:aC.length] do
    for ib in [0:pop.length] do
      for ic in [0:pop.length] do
        if ageOff = max4 lT lA[ia]! lP[ib]! lP[ic]! then
          let r := deForm wlo whi tg aC[ia]! pop[ib]! pop[ic]! off
          if r.startsWith "ok" then return s!"ok {ia} {ib} {ic}"
          if r == "nan" then sawNan := true
          if r.startsWith "bad-op" then return r
          why := "bad no-(a,b,c)-and-F-explain-the-offspring"
        else if why == "bad no-candidates" then why := "bad age"
  return if sawNan then "nan" else why

/-- the age an individual has after `load base` (or starting at 0) and `incs` calls of `inc_age()`, through the
    extracted code at its machine types -/
def ageReplay (how : String) (base incs : Nat) : Option Int := Id.run do
  let mut s : Int := 0
  if how == "load" then
    match Gen.age.load base with
    | some v => s := v
    | none => return none
  for _ in [0:incs] do
    s := Gen.age.incr s
  return some (Gen.age.read s)

def lawAnswer (lo hi w : Float) (rows : List (List Float)) : String := Id.run do
  if ¬ (w == hi - lo) ∨ (hi - lo).isNaN then return "bad w"
  let mut athi := 0
  let mut prevy : Float := 0.0
  let mut first := true
  for r in rows do
    match r with
    | [u, y, x] =>
      if ¬ feq y (u * w) then return "bad y differs from the driver's product"
      if ¬ feq x (lo + y) then return "bad x differs from the driver's sum"
      if w.isInf then continue
      if ¬ (0.0 ≤ y ∧ y ≤ w) then return "bad law: 0 ≤ fl(u·w) ≤ w"
      if ¬ first ∧ ¬ (prevy ≤ y) then return "bad law: monotone"
      if ¬ (lo ≤ x ∧ x ≤ hi) then return "bad law: closed box"
      if y == w ∧ u < 1.0 ∧ ¬ (lo + w == hi ∧ hi - w == lo) then return "bad law: absorbed product with inexact width"
      if x == hi then athi := athi + 1
      prevy := y
      first := false
    | _ => return "bad-op"
  return s!"ok {athi}"

def mkGa (g : List Int) (a : Nat) : Ga := ⟨g, a⟩

def answer (line : String) : String :=
  match line.splitOn " | " with
  | [hd] =>
    match words hd with
    | ["AG", how, base, incs, lived, obs] =>
      match base.toNat?, incs.toNat?, lived.toNat?, obs.toNat? with
      | some base, some incs, some lived, some obs =>
        if how ≠ "inc" ∧ how ≠ "load" then "bad-op"
        else if lived ≥ 4294967296 then "bad-op"
        else if (how == "load" ∧ lived ≠ base + incs) ∨ (how == "inc" ∧ lived ≠ incs) then "bad-op"
        else if obs ≠ lived then "bad age-not-generations-lived"
        else match ageReplay how base incs with
          | some v => if v = (obs : Int) then "ok" else s!"bad extracted-age-code-gives {v}"
          | none => "bad extracted-load-fails"
      | _, _, _, _ => "bad-op"
    | _ => "bad-op"
  | [hd, g, e] =>
    match words hd with
    | "GC" :: rest =>
      match slotsOf rest, ints g, nats e with
      | some ss, some g, some [age] =>
        if age ≠ 0 then "bad age" else if decide (InRange ss g) then "ok" else "bad InRange"
      | _, _, _ => "bad-op"
    | "DC" :: rest =>
      match boxOf rest, floats g, nats e with
      | some box, some g, some [age] =>
        if age ≠ 0 then "bad age"
        else if box.length ≠ g.length then "bad length" else Id.run do
          for i in [0:g.length] do
            let x := g[i]!
            if ¬ (box[i]!.any fun (lo, hi) => lo ≤ x ∧ x < hi) then return s!"bad box position {i}"
          return "ok"
      | _, _, _ => "bad-op"
    | ["LW", lo, hi] =>
      match lo.toNat?, hi.toNat?, floats g, (e.splitOn " ; ").mapM floats with
      | some lo, some hi, some [w], some rows =>
        lawAnswer (Float.ofBits lo.toUInt64) (Float.ofBits hi.toUInt64) w rows
      | _, _, _, _ => "bad-op"
    | _ => "bad-op"
  | [hd, pre, post, e, lv] =>
    match words hd with
    | "GM" :: rest =>
      match slotsOf rest, ints pre, ints post, nats e, nats lv with
      | some ss, some pre, some post, some [ret, a0, a1], some [l0] =>
        if ¬ decide (InRange ss pre) then "bad pre-not-in-range"
        else if a0 ≠ l0 then "bad age-not-generations-lived"
        else if decide (MutStep ss ⟨pre, l0⟩ ⟨post, a1⟩ ret) then "ok" else "bad MutStep"
      | _, _, _, _, _ => "bad-op"
    | _ => "bad-op"
  | [hd, l, r, ch, e, lv] =>
    match words hd with
    | "GX" :: rest =>
      match slotsOf rest, ints l, ints r, ints ch, nats e, nats lv with
      | some ss, some l, some r, some ch, some [al, ar, ac], some [ll, lr] =>
        if ¬ (decide (InRange ss l) ∧ decide (InRange ss r)) then "bad parents-not-in-range"
        else if al ≠ ll ∨ ar ≠ lr then "bad age-not-generations-lived"
        else if ¬ decide (XoStep ⟨l, ll⟩ ⟨r, lr⟩ ⟨ch, ac⟩) then "bad XoStep"
        else if ¬ decide (InRange ss ch) then "bad InRange"
        else "ok"
      | _, _, _, _, _, _ => "bad-op"
    | _ => "bad-op"
  | [hd, tg, a, b, c, tr, e, lv] =>
    match words hd with
    | ["DX", _p, wlo, whi] =>
      match wlo.toNat?, whi.toNat?, floats tg, floats a, floats b, floats c, floats tr, nats e, nats lv with
      | some wlo, some whi, some tg, some a, some b, some c, some tr, some ages, some lived =>
        deAnswer (Float.ofBits wlo.toUInt64) (Float.ofBits whi.toUInt64) tg a b c tr ages lived
      | _, _, _, _, _, _, _, _, _ => "bad-op"
    | _ => "bad-op"
  | [hd, cfg, p1, cands, off, l1, lc, ao, d] =>
    match words hd with
    | "GS" :: rest =>
      match slotsOf rest, nats cfg, ints p1, intGenomes cands, ints off, nats l1, nats lc, nats ao, nats d with
      | some ss, some [pcb, pmb, brood], some p1, some cands, some off, some [l1], some lc, some [ao],
          some [dc, dm] =>
        if cands.length ≠ lc.length then "bad-op"
        else
          let pc := Float.ofBits pcb.toUInt64
          let pm := Float.ofBits pmb.toUInt64
          let cs := (cands.zip lc).map fun (g, a) => mkGa g a
          if pc == 1.0 ∧ dc = 0 then "bad p_cross=1-without-crossover"
          else if pc == 0.0 ∧ dc ≠ 0 then "bad p_cross=0-with-crossover"
          else if pm == 0.0 ∧ dm ≠ 0 then "bad p_mutation=0-with-mutations"
          else if decide (GsStep ss brood ⟨p1, l1⟩ cs ⟨off, ao⟩ dc dm) then "ok" else "bad GsStep"
      | _, _, _, _, _, _, _, _, _ => "bad-op"
    | ["DS", _p, wlo, whi] =>
      -- DS p wlo whi | target | aCands | pop | off | livedT | livedACands | livedPop | ageOff
      match wlo.toNat?, whi.toNat?, floats cfg, floatGenomes p1, floatGenomes cands, floats off, nats l1, nats lc,
            nats ao, nats d with
      | some wlo, some whi, some tg, some aC, some pop, some off, some [lT], some lA, some lP, some [ageOff] =>
        dsAnswer (Float.ofBits wlo.toUInt64) (Float.ofBits whi.toUInt64) tg aC pop off lT lA lP ageOff
      | _, _, _, _, _, _, _, _, _, _ => "bad-op"
    | _ => "bad-op"
  | _ => "bad-op"

partial def loop (h : IO.FS.Stream) (out : IO.FS.Stream) : IO Unit := do
  let line ← h.getLine
  if line.isEmpty then return ()
  out.putStrLn (answer line)
  loop h out

def main : IO Unit := do
  loop (← IO.getStdin) (← IO.getStdout)
