/-
  C17 — real genes under IEEE-754 rounding.

  Finite doubles are rationals; an arithmetic operation of the machine is the exact operation followed by the
  rounding `rnd`.  What the proofs need from IEEE-754 binary64 (round to nearest, ties to even) is collected in
  the law structure `Rounding` – hypotheses, never axioms; each law is spot-checked on hardware doubles by the
  run (`laws` requests of the harness):

  * `mono`, `idem`, `zero`   rounding is monotone, maps into the representable numbers (fixed points), 0 is one
  * `umax_lt`                the canonical uniform value is at most `umax < 1` (libstdc++: `u ≤ 1 − 2^-53`)
  * `absorb`                 if multiplying the rounded width `w = fl(b − a)` by `u ≤ umax` is absorbed
                             (`fl(u·w) = w`) then the subtraction was exact (`w = b − a`).
      Why it holds for binary64: for a normal `w = m·2^e` (2^52 ≤ m < 2^53), `w·2^-53 ≥ ulp(w)/2`, with equality
      only for `m = 2^52` where the spacing below `w` is `ulp/2`: `fl(u·w) ≤ pred(w) < w` except at the smallest
      normal number (tie, rounds to even = `w`); so absorption needs `w ≤ 2^-1022`, and every difference of two
      doubles of that size is a multiple of 2^-1074 below 2^-1021, hence representable.
  * `next_lt`, `next_ge`     `nextafter(b, a)` for representable `a < b` is a representable value of `[a, b)`
-/
import Vita.C17.Code
namespace Vita.C17
open Vita.C17.Code

structure Rounding where
  rnd : Rat → Rat
  umax : Rat
  next : Rat → Rat → Rat            -- nextafter
  mono : ∀ x y, x ≤ y → rnd x ≤ rnd y
  idem : ∀ x, rnd (rnd x) = rnd x
  zero : rnd 0 = 0
  umax_lt : umax < 1
  absorb : ∀ u a b, 0 ≤ u → u ≤ umax → rnd a = a → rnd b = b → a < b →
    rnd (u * rnd (b - a)) = rnd (b - a) → rnd (b - a) = b - a
  next_lt : ∀ a b, rnd a = a → rnd b = b → a < b → next b a < b
  next_ge : ∀ a b, rnd a = a → rnd b = b → a < b → a ≤ next b a

/-- `std::uniform_real_distribution<double>(a, b)(g)` as libstdc++ evaluates it for the canonical value `u`:
    `u * (b − a) + a`, every operation rounded -/
def Rounding.uniformReal (R : Rounding) (a b u : Rat) : Rat :=
  R.rnd (R.rnd (u * R.rnd (b - a)) + a)

/-- value of an extracted real expression of `random::between<double>`: `par 0` = min, `par 1` = sup, `draw` =
    what the distribution object returned.  Comparisons and `nextafter` are exact operations on doubles. -/
def Code.RE.evalQ (R : Rounding) (mn sp d : Rat) : RE → Rat
  | .par 0 => mn
  | .par 1 => sp
  | .draw => d
  | .nextafter x y => R.next (x.evalQ R mn sp d) (y.evalQ R mn sp d)
  | .iteLt x y t e => if x.evalQ R mn sp d < y.evalQ R mn sp d then t.evalQ R mn sp d else e.evalQ R mn sp d
  | .add x y => R.rnd (x.evalQ R mn sp d + y.evalQ R mn sp d)
  | .sub x y => R.rnd (x.evalQ R mn sp d - y.evalQ R mn sp d)
  | .mul x y => R.rnd (x.evalQ R mn sp d * y.evalQ R mn sp d)
  | _ => 0

/-- `random::between<double>(min, sup)` as written, for the canonical draw `u` (finite width) -/
def Code.RandReal.between (rr : RandReal) (R : Rounding) (mn sp u : Rat) : Rat :=
  let a := rr.ctorA.evalQ R mn sp 0
  let b := rr.ctorB.evalQ R mn sp 0
  rr.ret.evalQ R mn sp (R.uniformReal a b u)

/-- `random::in(range)` for a floating range -/
def Code.RandReal.in_ (rr : RandReal) (R : Rounding) (first second u : Rat) : Rat :=
  rr.between R (rr.inA.evalQ R first second 0) (rr.inB.evalQ R first second 0) u

/-- exact arithmetic satisfies every law (with any `umax < 1` and the midpoint as `nextafter`) -/
def Rounding.exact : Rounding where
  rnd := id
  umax := 1 / 2
  next := fun b a => (a + b) / 2
  mono := fun _ _ h => h
  idem := fun _ => rfl
  zero := rfl
  umax_lt := by grind
  absorb := by
    intro u a b h0 h1 _ _ hab h
    simp only [id] at h
    have hw : 0 < b - a := by grind
    have : u * (b - a) < 1 * (b - a) := Rat.mul_lt_mul_of_pos_right (by grind) hw
    grind
  next_lt := by intro a b _ _ h; grind
  next_ge := by intro a b _ _ h; grind

end Vita.C17
