/-
  C17 helper lemmas: draws inside the interval, splice indexing, cut points, trial indexing, and the generic
  facts about the loops of the extracted code (`forRange`).
-/
import Vita.C17.Model
namespace Vita.C17
open Vita.C17.M

/-- a draw lands inside the half-open interval, whatever the raw draw -/
theorem pick_in (r : Iv) (u : Nat) (h : r.lo < r.hi) : r.lo ≤ pick r u ∧ pick r u < r.hi := by
  unfold pick
  have h1 := Int.emod_nonneg (u : Int) (show r.hi - r.lo ≠ 0 by omega)
  have h2 := Int.emod_lt_of_pos (u : Int) (show 0 < r.hi - r.lo by omega)
  omega

/-- … and every value of the interval is a possible draw (the model does not shrink the interval) -/
theorem pick_onto (r : Iv) (v : Int) (h1 : r.lo ≤ v) (h2 : v < r.hi) : ∃ u, pick r u = v := by
  refine ⟨(v - r.lo).toNat, ?_⟩
  unfold pick
  have : ((v - r.lo).toNat : Int) = v - r.lo := Int.toNat_of_nonneg (by omega)
  rw [this, Int.emod_eq_of_lt (by omega) (by omega)]
  omega

/-- a gene drawn for a category lies in one of the category's intervals -/
theorem pickS_in (s : Slot) (k u : Nat) (hne : s ≠ []) (hd : ∀ r ∈ s, r.lo < r.hi) : InSlot s (pickS s k u) := by
  have hl : 0 < s.length := List.length_pos_iff.mpr hne
  have hk : k % s.length < s.length := Nat.mod_lt _ hl
  unfold pickS
  rw [List.getElem?_eq_getElem hk]
  exact ⟨s[k % s.length], List.getElem_mem hk, pick_in _ _ (hd _ (List.getElem_mem hk))⟩

theorem splice_length (l r : List Int) (c1 c2 : Nat) : (splice l r c1 c2).length = r.length := by
  simp [splice]

theorem splice_getElem? (l r : List Int) (c1 c2 i : Nat) (hl : l.length = r.length) :
    (splice l r c1 c2)[i]? = if c1 ≤ i ∧ i < c2 then l[i]? else r[i]? := by
  simp only [splice, List.getElem?_mapIdx]
  by_cases hi : i < r.length
  · have hi' : i < l.length := by omega
    simp only [List.getElem?_eq_getElem hi, List.getElem?_eq_getElem hi', Option.map_some]
    split <;> rfl
  · have h1 : r[i]? = none := List.getElem?_eq_none (by omega)
    have h2 : l[i]? = none := List.getElem?_eq_none (by omega)
    simp [h1, h2]

/-- the cut points the code draws: `0 ≤ c1 < n−1`, `c1 < c2 ≤ n−1` (so the segment is non-empty and
    never contains the last position) -/
theorem cuts_spec (n u1 u2 : Nat) (hn : 2 ≤ n) :
    (cuts n u1 u2).1 < n - 1 ∧ (cuts n u1 u2).1 < (cuts n u1 u2).2 ∧ (cuts n u1 u2).2 ≤ n - 1 := by
  simp only [cuts]
  have h1 : u1 % (n - 1) < n - 1 := Nat.mod_lt _ (by omega)
  have h2 : u2 % (n - (u1 % (n - 1) + 1)) < n - (u1 % (n - 1) + 1) := Nat.mod_lt _ (by omega)
  omega

theorem trial_length {F} (A : Arith F) (f : F) (flip : Nat → Bool) (t a b c : List F)
    (ha : a.length = t.length) (hb : b.length = t.length) (hc : c.length = t.length) :
    (trial A f flip t a b c).length = t.length := by
  induction t generalizing a b c flip with
  | nil => cases a <;> cases b <;> cases c <;> simp_all [trial]
  | cons x ts ih =>
    match a, b, c, ha, hb, hc with
    | a :: as, b :: bs, c :: cs, ha, hb, hc =>
      cases ts with
      | nil =>
        have : as = [] := List.eq_nil_of_length_eq_zero (by simpa using ha)
        have : bs = [] := List.eq_nil_of_length_eq_zero (by simpa using hb)
        have : cs = [] := List.eq_nil_of_length_eq_zero (by simpa using hc)
        subst_vars
        simp [trial]
      | cons y ys =>
        have := ih (fun i => flip (i + 1)) as bs cs (by simpa using ha) (by simpa using hb) (by simpa using hc)
        match as, bs, cs, ha, hb, hc with
        | _ :: _, _ :: _, _ :: _, _, _, _ => simp [trial, this]

/-- the trial vector position by position -/
theorem trial_get {F} (A : Arith F) (f : F) (flip : Nat → Bool) (t a b c : List F)
    (ha : a.length = t.length) (hb : b.length = t.length) (hc : c.length = t.length) :
    ∀ i (hi : i < t.length),
      (trial A f flip t a b c)[i]? =
        some (if i = t.length - 1 ∨ flip i = true
              then mutant A f (c[i]'(by omega)) (a[i]'(by omega)) (b[i]'(by omega)) else t[i]) := by
  induction t generalizing a b c flip with
  | nil => intro i hi; simp at hi
  | cons x ts ih =>
    match a, b, c, ha, hb, hc with
    | a :: as, b :: bs, c :: cs, ha, hb, hc =>
      cases ts with
      | nil =>
        have : as = [] := List.eq_nil_of_length_eq_zero (by simpa using ha)
        have : bs = [] := List.eq_nil_of_length_eq_zero (by simpa using hb)
        have : cs = [] := List.eq_nil_of_length_eq_zero (by simpa using hc)
        subst_vars
        intro i hi
        have : i = 0 := by simpa using hi
        subst this
        simp [trial]
      | cons y ys =>
        match as, bs, cs, ha, hb, hc with
        | a2 :: as, b2 :: bs, c2 :: cs, ha, hb, hc =>
          intro i hi
          cases i with
          | zero =>
            simp only [trial, List.getElem?_cons_zero, List.getElem_cons_zero, List.length_cons]
            have : ¬ (0 = ys.length + 1 + 1 - 1) := by omega
            simp only [this, false_or]
          | succ j =>
            have := ih (fun i => flip (i + 1)) (a2 :: as) (b2 :: bs) (c2 :: cs)
              (by simpa using ha) (by simpa using hb) (by simpa using hc) j (by simpa using hi)
            simp only [trial, List.getElem?_cons_succ, List.getElem_cons_succ, List.length_cons] at this ⊢
            rw [this]
            have e : (j + 1 = ys.length + 1 + 1 - 1) = (j = ys.length + 1 - 1) := by
              apply propext; omega
            simp only [e]

/-! ## loops of the extracted code -/

theorem foldl_congr_mem {α β} (f g : β → α → β) (l : List α) (b : β)
    (h : ∀ b, ∀ a ∈ l, f b a = g b a) : l.foldl f b = l.foldl g b := by
  induction l generalizing b with
  | nil => rfl
  | cons x xs ih =>
    simp only [List.foldl_cons]
    rw [h b x (by simp)]
    exact ih _ (fun b a ha => h b a (by simp [ha]))

theorem forRange_congr {σ} (lo hi : Int) (body body' : Int → σ → σ) (s : σ)
    (h : ∀ i : Nat, lo.toNat ≤ i → i < hi.toNat → ∀ st, body i st = body' i st) :
    forRange lo hi body s = forRange lo hi body' s := by
  unfold forRange
  apply foldl_congr_mem
  intro st i hi
  have := List.mem_range'_1.mp hi
  exact h i this.1 (by omega) st

theorem forRange_empty {σ} (lo hi : Int) (body : Int → σ → σ) (s : σ) (h : hi.toNat ≤ lo.toNat) :
    forRange lo hi body s = s := by
  unfold forRange
  have : hi.toNat - lo.toNat = 0 := by omega
  simp [this]

/-- a loop step that rewrites position `i` from its current value only, counting the rewrites -/
def pointStep {α} [Inhabited α] (f : Nat → α → Option α) (i : Int) (st : List α × Nat) : List α × Nat :=
  match f i.toNat (getI st.1 i) with
  | some v => (setI st.1 i v, st.2 + 1)
  | none => st

/-- the positions of `[lo, lo+n)` at which the step rewrites -/
def hits {α} [Inhabited α] (f : Nat → α → Option α) (l : List α) (lo n : Nat) : Nat :=
  ((List.range' lo n).filter fun j => (f j (l.getD j default)).isSome).length

theorem hits_succ {α} [Inhabited α] (f : Nat → α → Option α) (l : List α) (lo n : Nat) :
    hits f l lo (n + 1) = hits f l lo n + (if (f (lo + n) (l.getD (lo + n) default)).isSome then 1 else 0) := by
  unfold hits
  rw [List.range'_concat, List.filter_append, List.length_append]
  simp only [Nat.one_mul, List.filter_cons, List.filter_nil]
  split <;> simp

private theorem foldl_point {α} [Inhabited α] (f : Nat → α → Option α) (lo : Nat) (l : List α) (c0 : Nat) :
    ∀ n, lo + n ≤ l.length →
      (List.range' lo n).foldl (fun st (i : Nat) => pointStep f (i : Int) st) (l, c0) =
        (l.mapIdx (fun j x => if lo ≤ j ∧ j < lo + n then (f j x).getD x else x), c0 + hits f l lo n) := by
  intro n
  induction n with
  | zero =>
    intro _
    have : l.mapIdx (fun j x => if lo ≤ j ∧ j < lo + 0 then (f j x).getD x else x) = l := by
      apply List.ext_getElem?; intro i
      simp only [List.getElem?_mapIdx]
      cases l[i]? <;> simp
      intro h1 h2; omega
    simp only [Nat.add_zero] at this
    simp [this, hits]
  | succ n ih =>
    intro hn
    rw [List.range'_concat, List.foldl_append, ih (by omega)]
    simp only [Nat.one_mul, List.foldl_cons, List.foldl_nil]
    have hk : lo + n < l.length := by omega
    have hget : getI (l.mapIdx (fun j x => if lo ≤ j ∧ j < lo + n then (f j x).getD x else x))
        ((lo + n : Nat) : Int) = l[lo + n] := by
      unfold getI
      have : (0 : Int) ≤ ((lo + n : Nat) : Int) := Int.natCast_nonneg _
      rw [if_pos this, Int.toNat_natCast]
      rw [List.getD_eq_getElem?_getD, List.getElem?_mapIdx, List.getElem?_eq_getElem hk]
      have : ¬ (lo ≤ lo + n ∧ lo + n < lo + n) := by omega
      simp [this]
    have hgd : l.getD (lo + n) default = l[lo + n] := by
      rw [List.getD_eq_getElem?_getD, List.getElem?_eq_getElem hk]; rfl
    rw [hits_succ, hgd]
    unfold pointStep
    simp only [hget, Int.toNat_natCast]
    cases hf : f (lo + n) l[lo + n] with
    | none =>
      simp only [Option.isSome_none, Bool.false_eq_true, if_false, Nat.add_zero]
      congr 1
      apply List.ext_getElem?; intro i
      simp only [List.getElem?_mapIdx]
      by_cases hi : i < l.length
      · simp only [List.getElem?_eq_getElem hi, Option.map_some]
        by_cases he : i = lo + n
        · subst he
          have h1 : ¬ (lo ≤ lo + n ∧ lo + n < lo + n) := by omega
          have h2 : (lo ≤ lo + n ∧ lo + n < lo + (n + 1)) := by omega
          simp [h1, h2, hf]
        · have : (lo ≤ i ∧ i < lo + n) ↔ (lo ≤ i ∧ i < lo + (n + 1)) := by omega
          simp only [this]
      · simp [List.getElem?_eq_none (Nat.le_of_not_lt hi)]
    | some v =>
      simp only [Option.isSome_some, if_true]
      refine Prod.ext ?_ (by simp; omega)
      simp only
      unfold setI
      have : (0 : Int) ≤ ((lo + n : Nat) : Int) := Int.natCast_nonneg _
      rw [if_pos this, Int.toNat_natCast]
      apply List.ext_getElem?; intro i
      rw [List.getElem?_set]
      simp only [List.getElem?_mapIdx, List.length_mapIdx]
      by_cases he : lo + n = i
      · subst he
        have h2 : (lo ≤ lo + n ∧ lo + n < lo + (n + 1)) := by omega
        simp [hk, h2, hf, List.getElem?_eq_getElem hk]
      · simp only [he, if_false]
        by_cases hi : i < l.length
        · simp only [List.getElem?_eq_getElem hi, Option.map_some]
          have : (lo ≤ i ∧ i < lo + n) ↔ (lo ≤ i ∧ i < lo + (n + 1)) := by omega
          simp only [this]
        · simp [List.getElem?_eq_none (Nat.le_of_not_lt hi)]

/-- **the loops of the operators**: `for (i = lo; i < hi; ++i)` whose step rewrites position `i` from its
    current value only computes the position-wise map on `[lo, hi)` and counts the rewrites -/
theorem forRange_pointStep {α} [Inhabited α] (f : Nat → α → Option α) (lo hi : Nat) (l : List α) (c0 : Nat)
    (h : lo ≤ hi) (hhi : hi ≤ l.length) :
    forRange (lo : Int) (hi : Int) (pointStep f) (l, c0) =
      (l.mapIdx (fun j x => if lo ≤ j ∧ j < hi then (f j x).getD x else x), c0 + hits f l lo (hi - lo)) := by
  unfold forRange
  simp only [Int.toNat_natCast]
  have := foldl_point f lo l c0 (hi - lo) (by omega)
  have e : lo + (hi - lo) = hi := by omega
  rw [e] at this
  exact this

theorem forRange_fst {α σ} (lo hi : Int) (b : Int → α → α) (b2 : Int → α × σ → α × σ)
    (h : ∀ i st, (b2 i st).1 = b i st.1) (s : α × σ) :
    (forRange lo hi b2 s).1 = forRange lo hi b s.1 := by
  unfold forRange
  generalize List.range' lo.toNat (hi.toNat - lo.toNat) = rg
  induction rg generalizing s with
  | nil => rfl
  | cons x xs ih =>
    simp only [List.foldl_cons]
    rw [ih, h]

/-- plain-state version: `for (i = lo; i < hi; ++i) st[i] = f(i, st[i])` -/
theorem forRange_pointSet {α} [Inhabited α] (f : Nat → α → α) (lo hi : Nat) (l : List α)
    (h : lo ≤ hi) (hhi : hi ≤ l.length) :
    forRange (lo : Int) (hi : Int) (fun i st => setI st i (f i.toNat (getI st i))) l =
      l.mapIdx (fun j x => if lo ≤ j ∧ j < hi then f j x else x) := by
  have h1 := forRange_fst (lo : Int) (hi : Int) (fun i st => setI st i (f i.toNat (getI st i)))
    (pointStep (fun j x => some (f j x))) (by intro i st; simp [pointStep]) (l, 0)
  rw [← h1, forRange_pointStep _ lo hi l 0 h hhi]
  simp

/-- `countDiff` of equal-length genomes counts the positions that differ -/
theorem countDiff_eq_filter : ∀ (l l' : List Int), l.length = l'.length →
    countDiff l l' = ((List.range l.length).filter (fun j => l.getD j 0 != l'.getD j 0)).length := by
  intro l
  induction l with
  | nil => intro l' _; cases l' <;> simp [countDiff]
  | cons x xs ih =>
    intro l' hl
    cases l' with
    | nil => simp at hl
    | cons y ys =>
      simp only [countDiff, List.length_cons]
      rw [ih ys (by simpa using hl), List.range_succ_eq_map, List.filter_cons, List.filter_map]
      have e : ((fun j => (x :: xs).getD j 0 != (y :: ys).getD j 0) ∘ Nat.succ) =
          (fun j => xs.getD j 0 != ys.getD j 0) := by
        funext j; simp [Function.comp]
      rw [e]
      simp only [List.getD_cons_zero]
      by_cases hxy : x = y
      · simp [hxy]
      · simp [hxy]; omega

theorem countDiff_zero : ∀ (l l' : List Int), l.length = l'.length → countDiff l l' = 0 → l = l' := by
  intro l
  induction l with
  | nil => intro l' h _; cases l' with | nil => rfl | cons _ _ => simp at h
  | cons x xs ih =>
    intro l' hl h0
    cases l' with
    | nil => simp at hl
    | cons y ys =>
      simp only [countDiff] at h0
      have hxy : x = y := by
        apply Classical.byContradiction
        intro hne; simp [hne] at h0
      have h2 : countDiff xs ys = 0 := by omega
      rw [hxy, ih ys (by simpa using hl) h2]

theorem sum_zero_mem (l : List Nat) (h : l.sum = 0) : ∀ x ∈ l, x = 0 := by
  induction l with
  | nil => intro x hx; simp at hx
  | cons y ys ih =>
    intro x hx
    simp only [List.sum_cons] at h
    rcases List.mem_cons.mp hx with rfl | hx
    · omega
    · exact ih (by omega) x hx

end Vita.C17
