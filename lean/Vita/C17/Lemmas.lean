/-
  C17 helper lemmas (draws inside the interval, splice indexing, cut points, trial length).
-/
import Vita.C17.Model
namespace Vita.C17

/-- a draw lands inside the half-open interval, whatever the raw draw -/
theorem pick_in (r : Iv) (u : Nat) (h : r.lo < r.hi) : r.lo ≤ pick r u ∧ pick r u < r.hi := by
  unfold pick
  have h1 := Int.emod_nonneg (u : Int) (show r.hi - r.lo ≠ 0 by omega)
  have h2 := Int.emod_lt_of_pos (u : Int) (show 0 < r.hi - r.lo by omega)
  omega

/-- … and every value of the interval is a possible draw (the model does not shrink the interval) -/
theorem pick_onto (r : Iv) (v : Int) (h1 : r.lo ≤ v) (h2 : v < r.hi) : ∃ u, pick r u = v := by
  refine ⟨(v - r.lo).toNat, ?_⟩
  unfold pick
  have : ((v - r.lo).toNat : Int) = v - r.lo := Int.toNat_of_nonneg (by omega)
  rw [this, Int.emod_eq_of_lt (by omega) (by omega)]
  omega

theorem splice_length (l r : List Int) (c1 c2 : Nat) : (splice l r c1 c2).length = r.length := by
  simp [splice]

theorem splice_getElem? (l r : List Int) (c1 c2 i : Nat) (hl : l.length = r.length) :
    (splice l r c1 c2)[i]? = if c1 ≤ i ∧ i < c2 then l[i]? else r[i]? := by
  simp only [splice, List.getElem?_mapIdx]
  by_cases hi : i < r.length
  · have hi' : i < l.length := by omega
    simp only [List.getElem?_eq_getElem hi, List.getElem?_eq_getElem hi', Option.map_some]
    split <;> rfl
  · have h1 : r[i]? = none := List.getElem?_eq_none (by omega)
    have h2 : l[i]? = none := List.getElem?_eq_none (by omega)
    simp [h1, h2]

/-- the cut points the code draws: `0 ≤ c1 < n−1`, `c1 < c2 ≤ n−1` (so the segment is non-empty and
    never contains the last position) -/
theorem cuts_spec (n u1 u2 : Nat) (hn : 2 ≤ n) :
    (cuts n u1 u2).1 < n - 1 ∧ (cuts n u1 u2).1 < (cuts n u1 u2).2 ∧ (cuts n u1 u2).2 ≤ n - 1 := by
  simp only [cuts]
  have h1 : u1 % (n - 1) < n - 1 := Nat.mod_lt _ (by omega)
  have h2 : u2 % (n - (u1 % (n - 1) + 1)) < n - (u1 % (n - 1) + 1) := Nat.mod_lt _ (by omega)
  omega

theorem trial_length {F} (A : Arith F) (f : F) (flip : Nat → Bool) (t a b c : List F)
    (ha : a.length = t.length) (hb : b.length = t.length) (hc : c.length = t.length) :
    (trial A f flip t a b c).length = t.length := by
  induction t generalizing a b c flip with
  | nil => cases a <;> cases b <;> cases c <;> simp_all [trial]
  | cons x ts ih =>
    match a, b, c, ha, hb, hc with
    | a :: as, b :: bs, c :: cs, ha, hb, hc =>
      cases ts with
      | nil =>
        have : as = [] := List.eq_nil_of_length_eq_zero (by simpa using ha)
        have : bs = [] := List.eq_nil_of_length_eq_zero (by simpa using hb)
        have : cs = [] := List.eq_nil_of_length_eq_zero (by simpa using hc)
        subst_vars
        simp [trial]
      | cons y ys =>
        have := ih (fun i => flip (i + 1)) as bs cs (by simpa using ha) (by simpa using hb) (by simpa using hc)
        match as, bs, cs, ha, hb, hc with
        | _ :: _, _ :: _, _ :: _, _, _, _ => simp [trial, this]


end Vita.C17
