/-
  C17 — integer and real vector individuals (GA / DE) follow their operator definitions.

  Model of
    src/kernel/ga/primitive.h   ga::integer / ga::real  `init() = random::in(range)`
    src/kernel/ga/i_ga.cc       i_ga(problem), i_ga::mutation, crossover(lhs, rhs)
    src/kernel/ga/i_de.cc       i_de(problem), i_de::crossover(p, f, a, b, c)
    src/kernel/individual.tcc   set_older_age
  with every random choice an explicit argument:
    * an integer draw is a raw natural `u`; `pick r u = r.lo + u % (r.hi − r.lo)` ranges over exactly
      the values of `[r.lo, r.hi)` – this is the *contract* of `std::uniform_int_distribution`
      (`random::between(lo, hi) ∈ [lo, hi)`), not its algorithm;
    * a Bernoulli draw (`random::boolean(p)`) is a Boolean;
    * the DE weight `F` and the canonical uniform `u ∈ [0,1)` of a real draw are explicit values.
  One interval per position (what `ga_problem` / `de_problem` build: one terminal per category).
-/
namespace Vita.C17

/-! ## integer vectors (i_ga) -/

/-- half-open interval `[lo, hi)` of a position (`ga::detail::number<int>::range_`) -/
structure Iv where
  lo : Int
  hi : Int
deriving DecidableEq, Repr

/-- `Expects(r.first < r.second)` of every declared interval -/
def Declared (rs : List Iv) : Prop := ∀ r ∈ rs, r.lo < r.hi

/-- `ga::integer::init()` for a raw draw `u` -/
def pick (r : Iv) (u : Nat) : Int := r.lo + (u : Int) % (r.hi - r.lo)

/-- every gene inside the half-open interval of its position -/
def InRange (rs : List Iv) (g : List Int) : Prop :=
  g.length = rs.length ∧ ∀ i (h : i < g.length) (h' : i < rs.length), rs[i].lo ≤ g[i] ∧ g[i] < rs[i].hi

structure Ga where
  genome : List Int
  age : Nat
deriving DecidableEq, Repr

/-- `i_ga::i_ga(const problem &)`: position `i` gets `roulette_terminal(i).init()`; age 0 -/
def gaCreate (rs : List Iv) (u : Nat → Nat) : Ga :=
  ⟨rs.mapIdx fun i r => pick r (u i), 0⟩

/-- genome after `i_ga::mutation(pgm, prb)`: position `i` is redrawn iff `random::boolean(pgm)` (`flip i`) -/
def mutGenome (rs : List Iv) (flip : Nat → Bool) (u : Nat → Nat) (g : List Int) : List Int :=
  g.mapIdx fun i x => if flip i then (match rs[i]? with | some r => pick r (u i) | none => x) else x

/-- number of positions in which two genomes differ (`i_ga::distance`) -/
def countDiff : List Int → List Int → Nat
  | x :: xs, y :: ys => (if x ≠ y then 1 else 0) + countDiff xs ys
  | _, _ => 0

/-- `i_ga::mutation`: (individual, returned number of changed genes) -/
def gaMutate (rs : List Iv) (flip : Nat → Bool) (u : Nat → Nat) (x : Ga) : Ga × Nat :=
  let g := mutGenome rs flip u x.genome
  (⟨g, x.age⟩, countDiff x.genome g)

/-- `cut1 = random::sup(ps − 1)`, `cut2 = random::between(cut1 + 1, ps)` for raw draws `u1 u2` -/
def cuts (n u1 u2 : Nat) : Nat × Nat :=
  let c1 := u1 % (n - 1)
  (c1, c1 + 1 + u2 % (n - (c1 + 1)))

/-- child genome: `rhs` with the positions `[c1, c2)` taken from `lhs` -/
def splice (l r : List Int) (c1 c2 : Nat) : List Int :=
  r.mapIdx fun i y => if c1 ≤ i ∧ i < c2 then (match l[i]? with | some x => x | none => y) else y

/-- `individual::set_older_age` -/
def olderAge (age rhs : Nat) : Nat := if age < rhs then rhs else age

/-- `crossover(const i_ga &lhs, const i_ga &rhs)` -/
def gaCrossover (u1 u2 : Nat) (l r : Ga) : Ga :=
  let (c1, c2) := cuts r.genome.length u1 u2
  ⟨splice l.genome r.genome c1 c2, olderAge r.age l.age⟩

/-! ## real vectors (i_de), generic in the number type and its (rounded) arithmetic -/

structure Arith (F : Type) where
  add : F → F → F
  sub : F → F → F
  mul : F → F → F

structure De (F : Type) where
  genome : List F
  age : Nat

/-- the mutant value of one position: `c + F·(a − b)` evaluated as the code does
    (`ret[i] += rf * (a[i] - b[i])`) -/
def mutant {F} (A : Arith F) (f c a b : F) : F := A.add c (A.mul f (A.sub a b))

/-- trial genome of `i_de::crossover`: positions `< n−1` take the mutant iff `random::boolean(p)`
    (`flip i`), else the target's value; the last position always takes the mutant. -/
def trial {F} (A : Arith F) (f : F) (flip : Nat → Bool) : (target a b c : List F) → List F
  | [_], [a], [b], [c] => [mutant A f c a b]
  | t :: ts, a :: as, b :: bs, c :: cs =>
      (if flip 0 then mutant A f c a b else t) :: trial A f (fun i => flip (i + 1)) ts as bs cs
  | _, _, _, _ => []

/-- `i_de::crossover(p, f, a, b, c)` called on `target`; `rf` is the weight drawn by `random::in(f)` -/
def deCrossover {F} (A : Arith F) (rf : F) (flip : Nat → Bool) (target a b c : De F) : De F :=
  ⟨trial A rf flip target.genome a.genome b.genome c.genome,
   olderAge c.age (max target.age (max a.age b.age))⟩

/-- `ga::real::init()` = `std::uniform_real_distribution(lo, hi)`: `lo + (hi − lo)·u`, exact
    arithmetic (ℚ) – the idealised reading used by `de_in_box`. -/
def realInit (lo hi u : Rat) : Rat := lo + (hi - lo) * u


/-! ## everything reachable by the integer operators -/
inductive Reach (rs : List Iv) : Ga → Prop
  | create (u) : Reach rs (gaCreate rs u)
  | mutate (flip u x) : Reach rs x → Reach rs (gaMutate rs flip u x).1
  | cross (u1 u2 l r) : Reach rs l → Reach rs r → Reach rs (gaCrossover u1 u2 l r)

/-! ## step relations decided by the driver on observed executions (integer side) -/

/-- observed `i_ga::mutation`: length and age kept, genes in range, returned count = changed genes -/
def MutStep (rs : List Iv) (pre post : Ga) (ret : Nat) : Prop :=
  post.genome.length = pre.genome.length ∧ post.age = pre.age ∧ InRange rs post.genome ∧
  ret = countDiff pre.genome post.genome

/-- observed `crossover(lhs, rhs)`: the cut points the code can draw explain the child -/
def XoStep (l r child : Ga) : Prop :=
  child.genome.length = r.genome.length ∧ child.age = max l.age r.age ∧
  ∃ c1, c1 < r.genome.length - 1 ∧ ∃ c2, c2 < r.genome.length ∧ c1 < c2 ∧
    ∀ i, i < r.genome.length →
      child.genome[i]? = if c1 ≤ i ∧ i < c2 then l.genome[i]? else r.genome[i]?

end Vita.C17
