/-
  C17 — integer and real vector individuals (GA / DE) follow their operator definitions.

  Two layers.

  A. SPECIFICATION functions, hand-written, with every random choice an explicit argument (the property's own
     reading of the operators): `pick`, `gaCreate`, `gaMutate`, `cuts`/`splice`/`gaCrossover`, `trial`/`deCrossover`,
     `olderAge`, `realInit`.

  B. The MEANING of the syntax extracted from the clang AST (`Code.lean`, values in the generated `Gen.lean`):
     `AgeCode.*` (machine-typed ages), `RandInt.between/sup/in_`, `InitCode.drawInt`, `CtorCode.term`,
     `MutCode.run`, `XoCode.run`, `DeXoCode.run`, `Coord.denote`, `DeRunCode.run`, `GaRunCode.*`.
     Integer parts are evaluated with `M.evalM` (what the machine computes at the extracted types).

  Props.lean proves that B applied to the generated values refines A (no wrap, no lost conversion, same indices,
  same individuals) and proves the property for A – hence for the code the values were extracted from.

  A draw is a raw natural `u`; `uniformInt a b u = a + u % (b − a + 1)` ranges over exactly `[a, b]` – the
  *contract* of `std::uniform_int_distribution`, not its algorithm (the algorithm: `int_draw_in_range`).
  A Bernoulli draw (`random::boolean(p)`) is a Boolean; the DE weight `F` is an explicit value.
-/
import Vita.C17.Code
namespace Vita.C17
open Vita.C17.M Vita.C17.Code

/-! ## A. specification -/

/-- half-open interval `[lo, hi)` of one terminal (`ga::detail::number<int>::range_`) -/
structure Iv where
  lo : Int
  hi : Int
deriving DecidableEq, Repr

/-- the terminals of one category: a gene of that position is drawn from one of them -/
abbrev Slot := List Iv

/-- `Expects(r.first < r.second)` of every declared interval, endpoints are `int`s, every category has a terminal -/
def Declared (ss : List Slot) : Prop :=
  ∀ s ∈ ss, s ≠ [] ∧ ∀ r ∈ s, r.lo < r.hi ∧ In .i32 r.lo ∧ In .i32 r.hi

/-- `ga::integer::init()` for a raw draw `u` -/
def pick (r : Iv) (u : Nat) : Int := r.lo + (u : Int) % (r.hi - r.lo)

/-- `roulette_terminal(c).init()`: terminal `k` of the category (roulette draw), then its `init()` -/
def pickS (s : Slot) (k u : Nat) : Int :=
  match s[k % s.length]? with
  | some r => pick r u
  | none => 0

def InSlot (s : Slot) (v : Int) : Prop := ∃ r ∈ s, r.lo ≤ v ∧ v < r.hi

instance (s : Slot) (v : Int) : Decidable (InSlot s v) := by unfold InSlot; exact inferInstance

/-- every gene inside (one of) the half-open interval(s) of its position -/
def InRange (ss : List Slot) (g : List Int) : Prop :=
  g.length = ss.length ∧ ∀ i (h : i < g.length) (h' : i < ss.length), InSlot ss[i] g[i]

structure Ga where
  genome : List Int
  age : Nat
deriving DecidableEq, Repr

/-- `i_ga::i_ga(const problem &)`: position `i` gets `roulette_terminal(i).init()`; age 0 -/
def gaCreate (ss : List Slot) (ch u : Nat → Nat) : Ga :=
  ⟨ss.mapIdx fun i s => pickS s (ch i) (u i), 0⟩

/-- genome after `i_ga::mutation(pgm, prb)`: position `i` is redrawn iff `random::boolean(pgm)` (`flip i`) -/
def mutGenome (ss : List Slot) (flip : Nat → Bool) (ch u : Nat → Nat) (g : List Int) : List Int :=
  g.mapIdx fun i x => if flip i then (match ss[i]? with | some s => pickS s (ch i) (u i) | none => x) else x

/-- number of positions in which two genomes differ (`i_ga::distance`) -/
def countDiff : List Int → List Int → Nat
  | x :: xs, y :: ys => (if x ≠ y then 1 else 0) + countDiff xs ys
  | _, _ => 0

/-- `i_ga::mutation`: (individual, returned number of changed genes) -/
def gaMutate (ss : List Slot) (flip : Nat → Bool) (ch u : Nat → Nat) (x : Ga) : Ga × Nat :=
  let g := mutGenome ss flip ch u x.genome
  (⟨g, x.age⟩, countDiff x.genome g)

/-- `cut1 = random::sup(ps − 1)`, `cut2 = random::between(cut1 + 1, ps)` for raw draws `u1 u2` -/
def cuts (n u1 u2 : Nat) : Nat × Nat :=
  let c1 := u1 % (n - 1)
  (c1, c1 + 1 + u2 % (n - (c1 + 1)))

/-- child genome: `rhs` with the positions `[c1, c2)` taken from `lhs` -/
def splice (l r : List Int) (c1 c2 : Nat) : List Int :=
  r.mapIdx fun i y => if c1 ≤ i ∧ i < c2 then (match l[i]? with | some x => x | none => y) else y

/-- `individual::set_older_age` on ideal (unbounded) ages -/
def olderAge (age rhs : Nat) : Nat := if age < rhs then rhs else age

/-- `crossover(const i_ga &lhs, const i_ga &rhs)` -/
def gaCrossover (u1 u2 : Nat) (l r : Ga) : Ga :=
  let (c1, c2) := cuts r.genome.length u1 u2
  ⟨splice l.genome r.genome c1 c2, olderAge r.age l.age⟩

/-! ### real vectors (i_de), generic in the number type and its (rounded) arithmetic -/

structure Arith (F : Type) where
  add : F → F → F
  sub : F → F → F
  mul : F → F → F

structure De (F : Type) where
  genome : List F
  age : Nat

/-- the mutant value of one position: `c + F·(a − b)` evaluated as the code does
    (`ret[i] += rf * (a[i] - b[i])`) -/
def mutant {F} (A : Arith F) (f c a b : F) : F := A.add c (A.mul f (A.sub a b))

/-- trial genome of `i_de::crossover`: positions `< n−1` take the mutant iff `random::boolean(p)`
    (`flip i`), else the target's value; the last position always takes the mutant. -/
def trial {F} (A : Arith F) (f : F) (flip : Nat → Bool) : (target a b c : List F) → List F
  | [_], [a], [b], [c] => [mutant A f c a b]
  | t :: ts, a :: as, b :: bs, c :: cs =>
      (if flip 0 then mutant A f c a b else t) :: trial A f (fun i => flip (i + 1)) ts as bs cs
  | _, _, _, _ => []

/-- `i_de::crossover(p, f, a, b, c)` called on `target`; `rf` is the weight drawn by `random::in(f)` -/
def deCrossover {F} (A : Arith F) (rf : F) (flip : Nat → Bool) (target a b c : De F) : De F :=
  ⟨trial A rf flip target.genome a.genome b.genome c.genome,
   olderAge c.age (max target.age (max a.age b.age))⟩

/-- `ga::real::init()` = `std::uniform_real_distribution(lo, hi)`: `lo + (hi − lo)·u`, exact
    arithmetic (ℚ) – the idealised reading used by `de_in_box`. -/
def realInit (lo hi u : Rat) : Rat := lo + (hi - lo) * u

/-! ### everything reachable by the integer operators -/
inductive Reach (ss : List Slot) : Ga → Prop
  | create (ch u) : Reach ss (gaCreate ss ch u)
  | mutate (flip ch u x) : Reach ss x → Reach ss (gaMutate ss flip ch u x).1
  | cross (u1 u2 l r) : Reach ss l → Reach ss r → Reach ss (gaCrossover u1 u2 l r)

/-! ### step relations decided by the driver on observed executions (integer side) -/

/-- observed `i_ga::mutation`: length and age kept, genes in range, returned count = changed genes -/
def MutStep (ss : List Slot) (pre post : Ga) (ret : Nat) : Prop :=
  post.genome.length = pre.genome.length ∧ post.age = pre.age ∧ InRange ss post.genome ∧
  ret = countDiff pre.genome post.genome

/-- observed `crossover(lhs, rhs)`: the cut points the code can draw explain the child -/
def XoStep (l r child : Ga) : Prop :=
  child.genome.length = r.genome.length ∧ child.age = max l.age r.age ∧
  ∃ c1, c1 < r.genome.length - 1 ∧ ∃ c2, c2 < r.genome.length ∧ c1 < c2 ∧
    ∀ i, i < r.genome.length →
      child.genome[i]? = if c1 ≤ i ∧ i < c2 then l.genome[i]? else r.genome[i]?

/-- observed `recombination::base<i_ga>::run`: `p1` = pop[parent[0]], `cands` = the individuals the second parent can
    be (pop[parent[1]], or the whole layer when the tournament has size 1), `dcross` / `dmut` = what the call added
    to `summary::crossovers` / `summary::mutations` -/
def GsStep (ss : List Slot) (brood : Nat) (p1 : Ga) (cands : List Ga) (off : Ga) (dcross dmut : Nat) : Prop :=
  InRange ss off.genome ∧
  if dcross = 0 then
    ∃ p ∈ p1 :: cands, off.age = p.age ∧ off.genome.length = p.genome.length ∧
      countDiff p.genome off.genome = dmut
  else
    dcross = brood ∧ ∃ p2 ∈ cands, off.age = max p1.age p2.age ∧ off.genome.length = p2.genome.length ∧
      (dmut = 0 → XoStep p1 p2 off)

/-! ## B. meaning of the extracted syntax -/

/-! ### ages at the machine types of the code -/

/-- what `age()` returns for the stored value `s` -/
def Code.AgeCode.read (c : AgeCode) (s : Int) : Int := evalM (envOf [s]) c.get
/-- the stored value after `inc_age()` -/
def Code.AgeCode.incr (c : AgeCode) (s : Int) : Int := evalM (envOf [s]) c.inc
/-- the stored value after `set_older_age(r)`; the argument is first converted to the parameter's type -/
def Code.AgeCode.older (c : AgeCode) (s r : Int) : Int :=
  let p := c.paramTy.wrap r
  if evalM (envOf [s, p]) c.olderCond ≠ 0 then evalM (envOf [s, p]) c.olderNew else s
/-- the stored value after a successful `load` of the number `v` (`in >> tmp` fails when `v` does not fit `tmp`) -/
def Code.AgeCode.load (c : AgeCode) (v : Int) : Option Int :=
  if In c.tmpTy v then some (evalM (envOf [0, v]) c.loadNew) else none

/-- the history of one individual's age -/
inductive AgeOp
  | inc                 -- inc_age()
  | load (v : Nat)      -- load() of a stream that starts with v
  | older (r : Nat)     -- set_older_age(r), r = age() of another individual
  deriving Repr

/-- the number of generations the individual has lived (ideal) -/
def AgeOp.ideal : Nat → AgeOp → Nat
  | a, .inc => a + 1
  | _, .load v => v
  | a, .older r => max a r

/-- what the code stores -/
def AgeOp.machine (c : AgeCode) : Int → AgeOp → Int
  | s, .inc => c.incr s
  | s, .load v => (c.load v).getD s
  | s, .older r => c.older s r

/-! ### random.h -/

/-- `std::uniform_int_distribution<T>(a, b)(engine)` by contract: a value of `[a, b]` -/
def uniformInt (a b : Int) (u : Nat) : Int := a + (u : Int) % (b - a + 1)

def Code.RandInt.between (rc : RandInt) (min sup : Int) (u : Nat) : Int :=
  uniformInt (evalM (envOf [min, sup]) rc.betA) (evalM (envOf [min, sup]) rc.betB) u

def Code.RandInt.sup (rc : RandInt) (x : Int) (u : Nat) : Int :=
  rc.between (evalM (envOf [x]) rc.supA) (evalM (envOf [x]) rc.supB) u

def Code.RandInt.in_ (rc : RandInt) (first second : Int) (u : Nat) : Int :=
  rc.between (evalM (envOf [first, second]) rc.inA) (evalM (envOf [first, second]) rc.inB) u

def Code.Draw.eval (rc : RandInt) (env : List Int) (u : Nat) : Draw → Int
  | .sup e => rc.sup (evalM (envOf env) e) u
  | .between a b => rc.between (evalM (envOf env) a) (evalM (envOf env) b) u

/-- `number<int>::init()` (the detour through `terminal_param_t` = double and back is value preserving for
    32-bit integers: trusted, observed by the tie) -/
def Code.InitCode.drawInt (ic : InitCode) (rc : RandInt) (r : Iv) (u : Nat) : Int :=
  match ic.src with
  | .inRange => rc.in_ r.lo r.hi u

/-! ### lists indexed by machine integers -/
def getI {α} [Inhabited α] (l : List α) (i : Int) : α := if 0 ≤ i then l.getD i.toNat default else default
def setI {α} (l : List α) (i : Int) (v : α) : List α := if 0 ≤ i then l.set i.toNat v else l

/-- `for (i = lo; i < hi; ++i) body(i)` -/
def forRange {σ} (lo hi : Int) (body : Int → σ → σ) (s : σ) : σ :=
  (List.range' lo.toNat (hi.toNat - lo.toNat)).foldl (fun st (i : Nat) => body (i : Int) st) s

/-! ### constructors -/

/-- value of the captured counter before the `k`-th call of the generator -/
def Code.CtorCode.counter (c : CtorCode) : Nat → Int
  | 0 => evalM (envOf []) c.counterInit
  | k + 1 => evalM (envOf [c.counter k]) c.counterNext

/-- category whose terminal initialises gene `k` -/
def Code.CtorCode.term (c : CtorCode) (k : Nat) : Int := evalM (envOf [c.counter k]) c.termIdx

def slotAt (ss : List Slot) (i : Int) : Slot := if 0 ≤ i then ss.getD i.toNat [] else []

/-- draw of `roulette_terminal(cat).init()` as extracted: `number<int>::init` through random.h -/
def drawGene (ic : InitCode) (rc : RandInt) (s : Slot) (k u : Nat) : Int :=
  match s[k % s.length]? with
  | some r => ic.drawInt rc r u
  | none => 0

def Code.CtorCode.run (c : CtorCode) (ic : InitCode) (rc : RandInt) (ss : List Slot) (ch u : Nat → Nat) : Ga :=
  ⟨(List.range ss.length).map fun k => drawGene ic rc (slotAt ss (c.term k)) (ch k) (u k), 0⟩

/-! ### i_ga::mutation -/
def Code.MutCode.step (c : MutCode) (ic : InitCode) (rc : RandInt) (ss : List Slot) (flip : Nat → Bool)
    (ch u : Nat → Nat) (ps : Int) (i : Int) (st : List Int × Nat) : List Int × Nat :=
  if flip i.toNat then
    let env := envOf [ps, i]
    let g := drawGene ic rc (slotAt ss (evalM env c.termIdx)) (ch i.toNat) (u i.toNat)
    let old := getI st.1 (evalM env c.cmpIdx)
    if (g != old) == c.cmpIsNe then (setI st.1 (evalM env c.dstIdx) g, st.2 + 1) else st
  else st

def Code.MutCode.run (c : MutCode) (ic : InitCode) (rc : RandInt) (ss : List Slot) (flip : Nat → Bool)
    (ch u : Nat → Nat) (x : Ga) : Ga × Nat :=
  let ps : Int := x.genome.length
  let r := forRange (evalM (envOf [ps]) c.from_) (evalM (envOf [ps]) c.to_)
    (c.step ic rc ss flip ch u ps) (x.genome, 0)
  (⟨r.1, x.age⟩, (c.counterTy.wrap r.2).toNat)

/-! ### crossover(lhs, rhs) -/
def Code.XoCode.run (c : XoCode) (T : AgeCode) (rc : RandInt) (u1 u2 : Nat) (l r : Ga) : Ga :=
  let who : Who → Ga := fun w => match w with | .lhs => l | .rhs => r | _ => ⟨[], 0⟩
  let ps : Int := (who c.psOf).genome.length
  let cut1 := c.cut1.eval rc [ps] u1
  let cut2 := c.cut2.eval rc [ps, cut1] u2
  let base := who c.copyOf
  let env := [ps, cut1, cut2]
  let g := forRange (evalM (envOf env) c.from_) (evalM (envOf env) c.to_)
    (fun i st => setI st (evalM (envOf (env ++ [i])) c.dstIdx)
                   (getI (who c.src).genome (evalM (envOf (env ++ [i])) c.srcIdx))) base.genome
  ⟨g, (T.older base.age (T.read (who c.ageOf).age)).toNat⟩

/-! ### i_de::crossover -/
def Code.RE.eval {F} [Inhabited F] (A : Arith F) (rf : F) (who : Who → List F) (cur : F) (env : Env) : RE → F
  | .rf => rf
  | .gene w idx => getI (who w) (evalM env idx)
  | .cur => cur
  | .add x y => A.add (x.eval A rf who cur env) (y.eval A rf who cur env)
  | .sub x y => A.sub (x.eval A rf who cur env) (y.eval A rf who cur env)
  | .mul x y => A.mul (x.eval A rf who cur env) (y.eval A rf who cur env)
  | .par _ | .draw | .nextafter _ _ | .iteLt _ _ _ _ => default

def Code.Assign.exec {F} [Inhabited F] (a : Assign) (A : Arith F) (rf : F) (who : Who → List F) (env : List Int)
    (st : List F) : List F :=
  let i := evalM (envOf env) a.idx
  setI st i (a.val.eval A rf who (getI st i) (envOf env))

def Code.DeXoCode.run {F} [Inhabited F] (c : DeXoCode) (T : AgeCode) (A : Arith F) (rf : F) (flip : Nat → Bool)
    (t a b cc : De F) : De F :=
  let ind : Who → De F := fun w => match w with | .self => t | .a => a | .b => b | .c => cc | _ => ⟨[], 0⟩
  let who : Who → List F := fun w => (ind w).genome
  let ps : Int := (ind c.psOf).genome.length
  let base := ind c.copyOf
  let g := forRange (evalM (envOf [ps]) c.from_) (evalM (envOf [ps]) c.to_)
    (fun i st => if flip i.toNat then c.thenA.exec A rf who [ps, i] st else c.elseA.exec A rf who [ps, i] st)
    base.genome
  let g := c.lastA.exec A rf who [ps] g
  let oldest := (c.ageOf.map fun w => T.read (ind w).age).foldl max 0
  ⟨g, (T.older base.age oldest).toNat⟩

/-! ### recombination strategies: which individuals, which configuration -/

/-- the population coordinates a strategy expression can denote, given the selected parents (`sel`), the
    population size `n` and the mating zone predicate -/
inductive Code.Coord.Denotes (sel : List Nat) (n : Nat) : Coord → Nat → Prop
  | parent (k i) : sel[k]? = some i → Denotes sel n (.parent k) i
  | pickup (near j i) : Denotes sel n near j → i < n → Denotes sel n (.pickup near) i
  | ifT (gt t e i) : sel.length > gt → Denotes sel n t i → Denotes sel n (.ifParents gt t e) i
  | ifE (gt t e i) : ¬ sel.length > gt → Denotes sel n e i → Denotes sel n (.ifParents gt t e) i
  | flipT (t e i) : Denotes sel n t i → Denotes sel n (.flip t e) i
  | flipE (t e i) : Denotes sel n e i → Denotes sel n (.flip t e) i

/-- the configuration of a run (`environment`) -/
structure RunEnv where
  pMutationPositive : Bool      -- env.p_mutation > 0
  brood : Nat                   -- env.brood_recombination

/-- zero or more `mutation` calls on an individual; `n` = sum of the returned counts
    (the signature-repulsion loop of `recombination::base::run`) -/
inductive MutStar (ss : List Slot) : Ga → Nat → Ga → Prop
  | refl (x) : MutStar ss x 0 x
  | step (x y n flip ch u) : MutStar ss x n y →
      MutStar ss x (n + (gaMutate ss flip ch u y).2) (gaMutate ss flip ch u y).1

/-- what a configuration member named by the call site contributes -/
def Code.Conf.isPMutation : Conf → Bool
  | .pMutation => true
  | _ => false

/-- `recombination::base<i_ga>::run(parent)` following the EXTRACTED call site `code`: which individuals are crossed,
    how often (`brood_recombination`), when the repulsion mutations may run, what is copied otherwise.
    `Run code ss env pop sel off dcross dmut`: the call may return `off` after adding `dcross` / `dmut` to the
    summary counters. -/
inductive Code.GaRunCode.Run (code : GaRunCode) (ss : List Slot) (env : RunEnv) (pop : List Ga) (sel : List Nat) :
    Ga → Nat → Nat → Prop
  | cross (i1 i2 : Nat) (p1 p2 : Ga) (cs : List (Ga × Nat)) (off : Ga × Nat) :
      code.lhs.Denotes sel pop.length i1 → code.rhs.Denotes sel pop.length i2 →
      pop[i1]? = some p1 → pop[i2]? = some p2 →
      code.broodCount = .brood → cs.length = max 1 env.brood →
      (∀ c ∈ cs, ∃ u1 u2, MutStar ss (gaCrossover u1 u2 p1 p2) c.2 c.1 ∧
        ((code.mutGuardPositive.isPMutation && env.pMutationPositive) = false → c.2 = 0)) →
      off ∈ cs →
      Run code ss env pop sel off.1 cs.length (cs.map (·.2)).sum
  | copy (i : Nat) (p : Ga) (flip : Nat → Bool) (ch u : Nat → Nat) :
      code.elseCopy.Denotes sel pop.length i → pop[i]? = some p →
      Run code ss env pop sel (gaMutate ss flip ch u p).1 0 (gaMutate ss flip ch u p).2

/-- `recombination::de<i_de>::run(parent)` following the extracted call site: the offspring is the trial vector of
    the target `pop[target]` with donors `pop[a]`, `pop[b]`, base `pop[c]`, a weight satisfying `inW` when – and only
    when – the call passes the configured `env.de.weight` -/
inductive Code.DeRunCode.Run {F} (code : DeRunCode) (A : Arith F) (inW : F → Prop) (pop : List (De F))
    (sel : List Nat) : De F → Prop
  | mk (it ia ib ic : Nat) (t a b c : De F) (rf : F) (flip : Nat → Bool) :
      code.target.Denotes sel pop.length it → code.a.Denotes sel pop.length ia →
      code.b.Denotes sel pop.length ib → code.c.Denotes sel pop.length ic →
      pop[it]? = some t → pop[ia]? = some a → pop[ib]? = some b → pop[ic]? = some c →
      code.f = .deWeight → code.p = .pCross → inW rf →
      Run code A inW pop sel (deCrossover A rf flip t a b c)

end Vita.C17
