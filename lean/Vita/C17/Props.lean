/-
  C17 — property theorems.  Statements in words: design/C17.md.
-/
import Vita.C17.Lemmas
import Vita.Common.RngLemmas
namespace Vita.C17

/-! ## integer vectors -/

/-- The contract assumed of an integer draw is met by the algorithm that produces it: libstdc++'s
    `uniform_int_distribution` on the xoshiro engine (as modelled in Vita/Common/Rng.lean and compared
    bit-for-bit with the compiled code by C07's tie) returns a value of `[lo, hi)` for EVERY engine state. -/
theorem int_draw_in_range (r : Iv) (e : Vita.Rng.Xo) (h : r.lo < r.hi) (hw : r.hi - r.lo ≤ 2 ^ 64) :
    r.lo ≤ (Vita.Rng.between r.lo r.hi e).1 ∧ (Vita.Rng.between r.lo r.hi e).1 < r.hi :=
  Vita.Rng.between_in_range r.lo r.hi e h hw

/-- creation: every gene of a new individual is inside the interval of its position -/
theorem ga_create_in_range (rs : List Iv) (hd : Declared rs) (u : Nat → Nat) :
    InRange rs (gaCreate rs u).genome := by
  refine ⟨by simp [gaCreate], ?_⟩
  intro i h h'
  simp only [gaCreate, List.getElem_mapIdx]
  exact pick_in _ _ (hd _ (List.getElem_mem h'))

/-- mutation (any probability, any draws) keeps every gene inside its interval and the length -/
theorem ga_mutation_in_range (rs : List Iv) (hd : Declared rs) (flip : Nat → Bool) (u : Nat → Nat)
    (x : Ga) (hx : InRange rs x.genome) : InRange rs (gaMutate rs flip u x).1.genome := by
  obtain ⟨hl, hx⟩ := hx
  refine ⟨by simp [gaMutate, mutGenome, hl], ?_⟩
  intro i h h'
  have hi : i < x.genome.length := by simpa [gaMutate, mutGenome] using h
  simp only [gaMutate, mutGenome, List.getElem_mapIdx]
  split
  · simp only [List.getElem?_eq_getElem h']
    exact pick_in _ _ (hd _ (List.getElem_mem h'))
  · exact hx i hi h'

/-- crossover keeps every gene inside its interval -/
theorem ga_crossover_in_range (rs : List Iv) (u1 u2 : Nat) (l r : Ga)
    (hl : InRange rs l.genome) (hr : InRange rs r.genome) :
    InRange rs (gaCrossover u1 u2 l r).genome := by
  obtain ⟨hll, hl⟩ := hl
  obtain ⟨hrl, hr⟩ := hr
  simp only [gaCrossover]
  refine ⟨by simp [splice_length, hrl], ?_⟩
  intro i h h'
  have hir : i < r.genome.length := by simpa [splice_length] using h
  have hil : i < l.genome.length := by omega
  have key := splice_getElem? l.genome r.genome (cuts r.genome.length u1 u2).1
    (cuts r.genome.length u1 u2).2 i (by omega)
  rw [List.getElem?_eq_getElem h, List.getElem?_eq_getElem hir, List.getElem?_eq_getElem hil] at key
  split at key
  · rw [Option.some.inj key]; exact hl i hil h'
  · rw [Option.some.inj key]; exact hr i hir h'

/-- **ga_in_range**: everything reachable by creation, mutation and crossover (any operator
    sequence, any draws, any probabilities) has every gene inside the half-open interval declared for
    its position. -/
theorem ga_in_range (rs : List Iv) (hd : Declared rs) (x : Ga) (h : Reach rs x) :
    InRange rs x.genome := by
  induction h with
  | create u => exact ga_create_in_range rs hd u
  | mutate flip u x _ ih => exact ga_mutation_in_range rs hd flip u x ih
  | cross u1 u2 l r _ _ ihl ihr => exact ga_crossover_in_range rs u1 u2 l r ihl ihr

/-- a crossover child has the parents' length -/
theorem ga_child_len (u1 u2 : Nat) (l r : Ga) (_h : l.genome.length = r.genome.length) :
    (gaCrossover u1 u2 l r).genome.length = r.genome.length := by
  simp [gaCrossover, splice_length]

/-- **ga_segment**: for parents of equal length `n ≥ 2` there are cut points `c1 < c2 ≤ n−1` such that
    the child equals `lhs` on the contiguous, non-empty segment `[c1, c2)` and `rhs` everywhere else. -/
theorem ga_segment (u1 u2 : Nat) (l r : Ga) (hlen : l.genome.length = r.genome.length)
    (hn : 2 ≤ r.genome.length) :
    ∃ c1 c2, c1 < c2 ∧ c2 ≤ r.genome.length - 1 ∧
      ∀ i, (gaCrossover u1 u2 l r).genome[i]? =
        if c1 ≤ i ∧ i < c2 then l.genome[i]? else r.genome[i]? := by
  refine ⟨(cuts r.genome.length u1 u2).1, (cuts r.genome.length u1 u2).2, ?_, ?_, ?_⟩
  · exact (cuts_spec _ u1 u2 hn).2.1
  · exact (cuts_spec _ u1 u2 hn).2.2
  · intro i
    simp only [gaCrossover]
    exact splice_getElem? _ _ _ _ i hlen

/-- **age_max**: the child inherits the older parent's age -/
theorem age_max (u1 u2 : Nat) (l r : Ga) : (gaCrossover u1 u2 l r).age = max l.age r.age := by
  simp only [gaCrossover, olderAge]
  split <;> omega

/-- mutation returns the number of genes it changed and leaves the age alone; with probability 0
    (no position selected) it is the identity -/
theorem ga_mutation_count (rs flip u) (x : Ga) :
    (gaMutate rs flip u x).2 = countDiff x.genome (gaMutate rs flip u x).1.genome ∧
    (gaMutate rs flip u x).1.age = x.age := ⟨rfl, rfl⟩

theorem ga_mutation_zero (rs u) (x : Ga) : (gaMutate rs (fun _ => false) u x).1 = x := by
  have : ∀ (l : List Int), l.mapIdx (fun _ y => y) = l := by
    intro l; apply List.ext_getElem?; intro i; simp [List.getElem?_mapIdx]
  simp [gaMutate, mutGenome, this]

/-- the modelled operators satisfy the step relations the driver decides on observed executions -/
theorem ga_mutation_step (rs : List Iv) (hd : Declared rs) (flip u) (x : Ga) (hx : InRange rs x.genome) :
    MutStep rs x (gaMutate rs flip u x).1 (gaMutate rs flip u x).2 :=
  ⟨by simp [gaMutate, mutGenome], rfl, ga_mutation_in_range rs hd flip u x hx, rfl⟩

theorem ga_crossover_step (u1 u2 : Nat) (l r : Ga) (hlen : l.genome.length = r.genome.length)
    (hn : 2 ≤ r.genome.length) : XoStep l r (gaCrossover u1 u2 l r) := by
  have hc := cuts_spec r.genome.length u1 u2 hn
  refine ⟨ga_child_len u1 u2 l r hlen, age_max u1 u2 l r, (cuts r.genome.length u1 u2).1, hc.1,
    (cuts r.genome.length u1 u2).2, by omega, hc.2.1, ?_⟩
  intro i _
  simp only [gaCrossover]
  exact splice_getElem? _ _ _ _ i hlen

/-- an observed crossover accepted by the relation has the property: parents' length, one contiguous
    non-empty segment from `lhs`, the rest from `rhs`, the older parent's age; and stays in range -/
theorem xoStep_sound (rs : List Iv) (l r child : Ga) (h : XoStep l r child)
    (hl : InRange rs l.genome) (hr : InRange rs r.genome) :
    InRange rs child.genome ∧ child.age = max l.age r.age := by
  obtain ⟨hlen, hage, c1, _, c2, _, _, hform⟩ := h
  refine ⟨⟨by rw [hlen, hr.1], ?_⟩, hage⟩
  intro i h h'
  have hir : i < r.genome.length := by omega
  have hil : i < l.genome.length := by rw [hl.1]; exact h'
  have key := hform i hir
  rw [List.getElem?_eq_getElem h, List.getElem?_eq_getElem hir, List.getElem?_eq_getElem hil] at key
  split at key
  · rw [Option.some.inj key]; exact hl.2 i hil h'
  · rw [Option.some.inj key]; exact hr.2 i hir h'

/-! ## real vectors -/

/-- **de_trial_form**: with ONE weight `f` for the whole trial, every position of the trial holds
    either the target's value or `c + f·(a − b)`; the last position always holds the mutant value. -/
theorem de_trial_form {F} (A : Arith F) (f : F) (flip : Nat → Bool) (t a b c : List F)
    (ha : a.length = t.length) (hb : b.length = t.length) (hc : c.length = t.length) :
    ∀ i (hi : i < t.length),
      let m := mutant A f (c[i]'(by omega)) (a[i]'(by omega)) (b[i]'(by omega))
      ((trial A f flip t a b c)[i]? = some t[i] ∨ (trial A f flip t a b c)[i]? = some m) ∧
      (i = t.length - 1 → (trial A f flip t a b c)[i]? = some m) := by
  induction t generalizing a b c flip with
  | nil => intro i hi; simp at hi
  | cons x ts ih =>
    match a, b, c, ha, hb, hc with
    | a :: as, b :: bs, c :: cs, ha, hb, hc =>
      cases ts with
      | nil =>
        have : as = [] := List.eq_nil_of_length_eq_zero (by simpa using ha)
        have : bs = [] := List.eq_nil_of_length_eq_zero (by simpa using hb)
        have : cs = [] := List.eq_nil_of_length_eq_zero (by simpa using hc)
        subst_vars
        intro i hi
        have : i = 0 := by simpa using hi
        subst this
        simp [trial]
      | cons y ys =>
        match as, bs, cs, ha, hb, hc with
        | a2 :: as, b2 :: bs, c2 :: cs, ha, hb, hc =>
          intro i hi
          cases i with
          | zero =>
            simp only [trial, List.getElem?_cons_zero, List.getElem_cons_zero, List.length_cons]
            refine ⟨?_, by omega⟩
            split <;> simp
          | succ j =>
            have := ih (fun i => flip (i + 1)) (a2 :: as) (b2 :: bs) (c2 :: cs)
              (by simpa using ha) (by simpa using hb) (by simpa using hc) j (by simpa using hi)
            simp only [trial, List.getElem?_cons_succ, List.getElem_cons_succ, List.length_cons] at this ⊢
            refine ⟨this.1, fun h => this.2 (by omega)⟩

/-- **de_age**: the trial's age is the maximum of the ages of the target and the three donors -/
theorem de_age {F} (A : Arith F) (rf : F) (flip) (t a b c : De F) :
    (deCrossover A rf flip t a b c).age = max (max t.age c.age) (max a.age b.age) := by
  simp only [deCrossover, olderAge]
  split <;> omega

/-- **de_in_box** (exact arithmetic): a real gene created as `lo + (hi − lo)·u`, `u ∈ [0, 1)`, lies in
    `[lo, hi)`.  Under IEEE rounding the upper bound becomes `≤ hi` – checked bit-exactly by the tie. -/
theorem de_in_box (lo hi u : Rat) (h : lo < hi) (hu0 : 0 ≤ u) (hu1 : u < 1) :
    lo ≤ realInit lo hi u ∧ realInit lo hi u < hi := by
  unfold realInit
  have hw : 0 < hi - lo := by grind
  have h1 : 0 ≤ (hi - lo) * u := Rat.mul_nonneg (by grind) hu0
  have h2 : (hi - lo) * u < (hi - lo) * 1 := Rat.mul_lt_mul_of_pos_left hu1 hw
  constructor <;> grind

/-! ### non-vacuity -/
example : Declared [⟨-3, 4⟩, ⟨0, 1⟩, ⟨-2147483648, 2147483647⟩] := by
  intro r hr; simp at hr; rcases hr with rfl | rfl | rfl <;> decide
example : (gaCrossover 7 5 ⟨[1, 2, 3, 4, 5], 3⟩ ⟨[10, 20, 30, 40, 50], 9⟩) = ⟨[10, 20, 30, 4, 50], 9⟩ := by
  decide
example : (gaCreate [⟨-3, 4⟩, ⟨0, 1⟩] (fun i => 10 + i)).genome = [0, 0] := by decide

end Vita.C17
