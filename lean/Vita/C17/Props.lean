/-
  C17 — property theorems.  Statements in words: design/C17.md.

  Part 1: the property for the specification functions (all interval lists, lengths, draws, operator sequences).
  Part 2: the code as extracted from the clang AST (Gen.lean, interpreted at the machine types) IS the
          specification – every `code_*` theorem is about the generated terms – hence has the property.
  Part 3: ages at the machine type of the code: no wrap below 2^32.
  Part 4: the strategy-level call sites (recombination::de::run / recombination::base::run).
  Part 5: real genes inside the declared box under IEEE rounding (law structure).
-/
import Vita.C17.Bridge
import Vita.C17.Ieee
import Vita.Common.RngLemmas
namespace Vita.C17
open Vita.C17.M Vita.C17.Code

/-! ## Part 1 — specification -/

/-- The contract assumed of an integer draw is met by the algorithm that produces it: libstdc++'s
    `uniform_int_distribution` on the xoshiro engine (as modelled in Vita/Common/Rng.lean and compared
    bit-for-bit with the compiled code by C07's tie) returns a value of `[lo, hi)` for EVERY engine state. -/
theorem int_draw_in_range (r : Iv) (e : Vita.Rng.Xo) (h : r.lo < r.hi) (hw : r.hi - r.lo ≤ 2 ^ 64) :
    r.lo ≤ (Vita.Rng.between r.lo r.hi e).1 ∧ (Vita.Rng.between r.lo r.hi e).1 < r.hi :=
  Vita.Rng.between_in_range r.lo r.hi e h hw

/-- creation: every gene of a new individual is inside (one of) the interval(s) of its position -/
theorem ga_create_in_range (ss : List Slot) (hd : Declared ss) (ch u : Nat → Nat) :
    InRange ss (gaCreate ss ch u).genome := by
  refine ⟨by simp [gaCreate], ?_⟩
  intro i h h'
  simp only [gaCreate, List.getElem_mapIdx]
  have := hd _ (List.getElem_mem h')
  exact pickS_in _ _ _ this.1 (fun r hr => (this.2 r hr).1)

/-- mutation (any probability, any draws) keeps every gene inside its interval and the length -/
theorem ga_mutation_in_range (ss : List Slot) (hd : Declared ss) (flip : Nat → Bool) (ch u : Nat → Nat)
    (x : Ga) (hx : InRange ss x.genome) : InRange ss (gaMutate ss flip ch u x).1.genome := by
  obtain ⟨hl, hx⟩ := hx
  refine ⟨by simp [gaMutate, mutGenome, hl], ?_⟩
  intro i h h'
  have hi : i < x.genome.length := by simpa [gaMutate, mutGenome] using h
  simp only [gaMutate, mutGenome, List.getElem_mapIdx]
  split
  · simp only [List.getElem?_eq_getElem h']
    have := hd _ (List.getElem_mem h')
    exact pickS_in _ _ _ this.1 (fun r hr => (this.2 r hr).1)
  · exact hx i hi h'

/-- crossover keeps every gene inside its interval -/
theorem ga_crossover_in_range (ss : List Slot) (u1 u2 : Nat) (l r : Ga)
    (hl : InRange ss l.genome) (hr : InRange ss r.genome) :
    InRange ss (gaCrossover u1 u2 l r).genome := by
  obtain ⟨hll, hl⟩ := hl
  obtain ⟨hrl, hr⟩ := hr
  simp only [gaCrossover]
  refine ⟨by simp [splice_length, hrl], ?_⟩
  intro i h h'
  have hir : i < r.genome.length := by simpa [splice_length] using h
  have hil : i < l.genome.length := by omega
  have key := splice_getElem? l.genome r.genome (cuts r.genome.length u1 u2).1
    (cuts r.genome.length u1 u2).2 i (by omega)
  rw [List.getElem?_eq_getElem h, List.getElem?_eq_getElem hir, List.getElem?_eq_getElem hil] at key
  split at key
  · rw [Option.some.inj key]; exact hl i hil h'
  · rw [Option.some.inj key]; exact hr i hir h'

/-- **ga_in_range**: everything reachable by creation, mutation and crossover (any operator
    sequence, any draws, any probabilities) has every gene inside the half-open interval declared for
    its position (one of them when a category has several terminals). -/
theorem ga_in_range (ss : List Slot) (hd : Declared ss) (x : Ga) (h : Reach ss x) :
    InRange ss x.genome := by
  induction h with
  | create ch u => exact ga_create_in_range ss hd ch u
  | mutate flip ch u x _ ih => exact ga_mutation_in_range ss hd flip ch u x ih
  | cross u1 u2 l r _ _ ihl ihr => exact ga_crossover_in_range ss u1 u2 l r ihl ihr

/-- a crossover child has the parents' length -/
theorem ga_child_len (u1 u2 : Nat) (l r : Ga) (_h : l.genome.length = r.genome.length) :
    (gaCrossover u1 u2 l r).genome.length = r.genome.length := by
  simp [gaCrossover, splice_length]

/-- **ga_segment**: for parents of equal length `n ≥ 2` there are cut points `c1 < c2 ≤ n−1` such that
    the child equals `lhs` on the contiguous, non-empty segment `[c1, c2)` and `rhs` everywhere else. -/
theorem ga_segment (u1 u2 : Nat) (l r : Ga) (hlen : l.genome.length = r.genome.length)
    (hn : 2 ≤ r.genome.length) :
    ∃ c1 c2, c1 < c2 ∧ c2 ≤ r.genome.length - 1 ∧
      ∀ i, (gaCrossover u1 u2 l r).genome[i]? =
        if c1 ≤ i ∧ i < c2 then l.genome[i]? else r.genome[i]? := by
  refine ⟨(cuts r.genome.length u1 u2).1, (cuts r.genome.length u1 u2).2, ?_, ?_, ?_⟩
  · exact (cuts_spec _ u1 u2 hn).2.1
  · exact (cuts_spec _ u1 u2 hn).2.2
  · intro i
    simp only [gaCrossover]
    exact splice_getElem? _ _ _ _ i hlen

/-- **age_max**: the child inherits the older parent's age -/
theorem age_max (u1 u2 : Nat) (l r : Ga) : (gaCrossover u1 u2 l r).age = max l.age r.age := by
  simp only [gaCrossover, olderAge]
  split <;> omega

/-- mutation returns the number of genes it changed and leaves the age alone; with probability 0
    (no position selected) it is the identity -/
theorem ga_mutation_count (ss flip ch u) (x : Ga) :
    (gaMutate ss flip ch u x).2 = countDiff x.genome (gaMutate ss flip ch u x).1.genome ∧
    (gaMutate ss flip ch u x).1.age = x.age := ⟨rfl, rfl⟩

theorem ga_mutation_zero (ss ch u) (x : Ga) : (gaMutate ss (fun _ => false) ch u x).1 = x := by
  have : ∀ (l : List Int), l.mapIdx (fun _ y => y) = l := by
    intro l; apply List.ext_getElem?; intro i; simp [List.getElem?_mapIdx]
  simp [gaMutate, mutGenome, this]

/-- with probability 1 (every position selected) every gene is a fresh draw from its position's terminals -/
theorem ga_mutation_one (ss : List Slot) (ch u) (x : Ga) (hl : x.genome.length = ss.length) :
    (gaMutate ss (fun _ => true) ch u x).1.genome = (gaCreate ss ch u).genome := by
  simp only [gaMutate, mutGenome, gaCreate]
  apply List.ext_getElem?
  intro i
  simp only [List.getElem?_mapIdx, if_true]
  by_cases hi : i < ss.length
  · have hi' : i < x.genome.length := by omega
    simp [List.getElem?_eq_getElem hi, List.getElem?_eq_getElem hi']
  · simp [List.getElem?_eq_none (Nat.le_of_not_lt hi),
      List.getElem?_eq_none (show x.genome.length ≤ i by omega)]

/-- the modelled operators satisfy the step relations the driver decides on observed executions -/
theorem ga_mutation_step (ss : List Slot) (hd : Declared ss) (flip ch u) (x : Ga) (hx : InRange ss x.genome) :
    MutStep ss x (gaMutate ss flip ch u x).1 (gaMutate ss flip ch u x).2 :=
  ⟨by simp [gaMutate, mutGenome], rfl, ga_mutation_in_range ss hd flip ch u x hx, rfl⟩

theorem ga_crossover_step (u1 u2 : Nat) (l r : Ga) (hlen : l.genome.length = r.genome.length)
    (hn : 2 ≤ r.genome.length) : XoStep l r (gaCrossover u1 u2 l r) := by
  have hc := cuts_spec r.genome.length u1 u2 hn
  refine ⟨ga_child_len u1 u2 l r hlen, age_max u1 u2 l r, (cuts r.genome.length u1 u2).1, hc.1,
    (cuts r.genome.length u1 u2).2, by omega, hc.2.1, ?_⟩
  intro i _
  simp only [gaCrossover]
  exact splice_getElem? _ _ _ _ i hlen

/-- an observed crossover accepted by the relation has the property: parents' length, one contiguous
    non-empty segment from `lhs`, the rest from `rhs`, the older parent's age; and stays in range -/
theorem xoStep_sound (ss : List Slot) (l r child : Ga) (h : XoStep l r child)
    (hl : InRange ss l.genome) (hr : InRange ss r.genome) :
    InRange ss child.genome ∧ child.age = max l.age r.age := by
  obtain ⟨hlen, hage, c1, _, c2, _, _, hform⟩ := h
  refine ⟨⟨by rw [hlen, hr.1], ?_⟩, hage⟩
  intro i h h'
  have hir : i < r.genome.length := by omega
  have hil : i < l.genome.length := by rw [hl.1]; exact h'
  have key := hform i hir
  rw [List.getElem?_eq_getElem h, List.getElem?_eq_getElem hir, List.getElem?_eq_getElem hil] at key
  split at key
  · rw [Option.some.inj key]; exact hl.2 i hil h'
  · rw [Option.some.inj key]; exact hr.2 i hir h'

/-- **de_trial_form**: with ONE weight `f` for the whole trial, every position of the trial holds
    either the target's value or `c + f·(a − b)`; the last position always holds the mutant value;
    a position whose Bernoulli draw is false (and is not the last) holds the target's value. -/
theorem de_trial_form {F} (A : Arith F) (f : F) (flip : Nat → Bool) (t a b c : List F)
    (ha : a.length = t.length) (hb : b.length = t.length) (hc : c.length = t.length) :
    ∀ i (hi : i < t.length),
      let m := mutant A f (c[i]'(by omega)) (a[i]'(by omega)) (b[i]'(by omega))
      ((trial A f flip t a b c)[i]? = some t[i] ∨ (trial A f flip t a b c)[i]? = some m) ∧
      (i = t.length - 1 → (trial A f flip t a b c)[i]? = some m) ∧
      (i ≠ t.length - 1 → flip i = false → (trial A f flip t a b c)[i]? = some t[i]) ∧
      (flip i = true → (trial A f flip t a b c)[i]? = some m) := by
  intro i hi
  have key := trial_get A f flip t a b c ha hb hc i hi
  refine ⟨?_, ?_, ?_, ?_⟩
  · rw [key]; split
    · exact Or.inr rfl
    · exact Or.inl rfl
  · intro h; rw [key, if_pos (Or.inl h)]
  · intro h1 h2; rw [key, if_neg (by simp [h1, h2])]
  · intro h; rw [key, if_pos (Or.inr h)]

/-- **de_age**: the trial's age is the maximum of the ages of the target and the three donors -/
theorem de_age {F} (A : Arith F) (rf : F) (flip) (t a b c : De F) :
    (deCrossover A rf flip t a b c).age = max (max t.age c.age) (max a.age b.age) := by
  simp only [deCrossover, olderAge]
  split <;> omega

/-- **de_in_box** (exact arithmetic): a real gene created as `lo + (hi − lo)·u`, `u ∈ [0, 1)`, lies in
    `[lo, hi)`.  The IEEE reading: `de_in_box_ieee`, `de_in_box_halfopen` below. -/
theorem de_in_box (lo hi u : Rat) (h : lo < hi) (hu0 : 0 ≤ u) (hu1 : u < 1) :
    lo ≤ realInit lo hi u ∧ realInit lo hi u < hi := by
  unfold realInit
  have hw : 0 < hi - lo := by grind
  have h1 : 0 ≤ (hi - lo) * u := Rat.mul_nonneg (by grind) hu0
  have h2 : (hi - lo) * u < (hi - lo) * 1 := Rat.mul_lt_mul_of_pos_left hu1 hw
  constructor <;> grind

/-! ## Part 2 — the extracted code is the specification -/

/-- `number<int>::init()` through `random::in` / `between<int>` / `uniform_int_distribution(min, sup − 1)`:
    no `int` operation overflows for any declared interval (even `[INT_MIN, INT_MAX)`), and the value is the
    specification's draw – inside `[lo, hi)` -/
theorem code_gene_draw (r : Iv) (u : Nat) (h1 : In .i32 r.lo) (h2 : In .i32 r.hi) (h : r.lo < r.hi) :
    Gen.initInt.drawInt Gen.randInt r u = pick r u ∧
    r.lo ≤ Gen.initInt.drawInt Gen.randInt r u ∧ Gen.initInt.drawInt Gen.randInt r u < r.hi := by
  rw [gen_drawInt r u h1 h2 h]
  exact ⟨rfl, pick_in r u h⟩

/-- `vita::range(m, u)` keeps each endpoint at the type the user wrote it in (the i-th component has the deduced type of
    the i-th argument and is built from it): no endpoint is converted before the problem / the environment receives
    it, so the recorded interval is the declared one -/
theorem code_range_helper :
    Gen.range = { firstTy := .tparam 0, secondTy := .tparam 1, firstFrom := 0, secondFrom := 1 } := by decide

/-- the generated `init` goes through `random::in(range_)` and the value travels through a double -/
theorem code_init_shape : Gen.initInt.src = .inRange ∧ Gen.initReal.src = .inRange ∧
    Gen.initInt.elemTy = some .i32 ∧ Gen.initReal.elemTy = none := by decide

/-- `i_ga(problem)`: gene `k` comes from a terminal of category `k` (the captured `int` counter does not
    overflow below 2^31 genes) and the constructor is the specification's `gaCreate` -/
theorem code_create (ss : List Slot) (hd : Declared ss) (hn : ss.length < 2147483648) (ch u : Nat → Nat) :
    Gen.gaCtor.run Gen.initInt Gen.randInt ss ch u = gaCreate ss ch u ∧
    (∀ k < 2147483648, Gen.gaCtor.term k = k ∧ Gen.deCtor.term k = k) ∧
    Gen.gaCtor.sizeIsCategories = true ∧ Gen.gaCtor.wholeGenome = true ∧
    Gen.deCtor.sizeIsCategories = true ∧ Gen.deCtor.wholeGenome = true :=
  ⟨gen_gaCtor_run ss hd hn ch u, fun k hk => ⟨gen_gaCtor_term k hk, gen_deCtor_term k hk⟩,
   by decide, by decide, by decide, by decide⟩

/-- `i_ga::mutation` as written is the specification's `gaMutate`, returned count included -/
theorem code_mutation (ss : List Slot) (hd : Declared ss) (flip : Nat → Bool) (ch u : Nat → Nat) (x : Ga)
    (hl : x.genome.length = ss.length) (hN : ss.length < 4294967296) :
    Gen.gaMut.run Gen.initInt Gen.randInt ss flip ch u x = gaMutate ss flip ch u x ∧
    Gen.gaMut.guardIsBooleanOfPgm = true ∧ Gen.gaMut.returnsCounter = true ∧ Gen.gaMut.touchesAge = false :=
  ⟨gen_gaMut_run ss hd flip ch u x hl hN, by decide, by decide, by decide⟩

/-- `crossover(lhs, rhs)` as written (cut points in `unsigned long`, ages in the member's type) is the
    specification's `gaCrossover` -/
theorem code_crossover (u1 u2 : Nat) (l r : Ga) (hlen : l.genome.length = r.genome.length)
    (hn : 2 ≤ r.genome.length) (hN : r.genome.length < 9223372036854775808)
    (hal : l.age < 4294967296) (har : r.age < 4294967296) :
    Gen.gaXo.run Gen.age Gen.randIdx u1 u2 l r = gaCrossover u1 u2 l r :=
  gen_gaXo_run u1 u2 l r hlen hn hN hal har

/-- everything the extracted operators can build -/
inductive ReachC (ss : List Slot) : Ga → Prop
  | create (ch u) : ReachC ss (Gen.gaCtor.run Gen.initInt Gen.randInt ss ch u)
  | mutate (flip ch u x) : ReachC ss x → ReachC ss (Gen.gaMut.run Gen.initInt Gen.randInt ss flip ch u x).1
  | cross (u1 u2 l r) : ReachC ss l → ReachC ss r → ReachC ss (Gen.gaXo.run Gen.age Gen.randIdx u1 u2 l r)

/-- **code_ga_in_range**: every individual the EXTRACTED constructor / mutation / crossover can build – any
    operator sequence, draws, probabilities; chromosomes of 2 … 2^31−1 genes – has every gene inside the interval
    declared for its position, has the declared length and an age the member can hold. -/
theorem code_ga_in_range (ss : List Slot) (hd : Declared ss) (hn : 2 ≤ ss.length) (hN : ss.length < 2147483648)
    (x : Ga) (h : ReachC ss x) : InRange ss x.genome ∧ Reach ss x ∧ x.age < 4294967296 := by
  induction h with
  | create ch u =>
    rw [gen_gaCtor_run ss hd hN ch u]
    exact ⟨ga_create_in_range ss hd ch u, Reach.create ch u, by simp [gaCreate]⟩
  | mutate flip ch u x _ ih =>
    rw [gen_gaMut_run ss hd flip ch u x ih.1.1 (by omega)]
    exact ⟨ga_mutation_in_range ss hd flip ch u x ih.1, Reach.mutate flip ch u x ih.2.1, ih.2.2⟩
  | cross u1 u2 l r _ _ ihl ihr =>
    rw [gen_gaXo_run u1 u2 l r (by rw [ihl.1.1, ihr.1.1]) (by rw [ihr.1.1]; omega) (by rw [ihr.1.1]; omega)
      ihl.2.2 ihr.2.2]
    refine ⟨ga_crossover_in_range ss u1 u2 l r ihl.1 ihr.1, Reach.cross u1 u2 l r ihl.2.1 ihr.2.1, ?_⟩
    rw [age_max]; have := ihl.2.2; have := ihr.2.2; omega

/-- **code_segment**: the child the extracted crossover builds has the parents' length, equals `lhs` on one
    contiguous non-empty segment `[c1, c2)`, `c2 ≤ n − 1`, and `rhs` elsewhere, and carries the older age -/
theorem code_segment (u1 u2 : Nat) (l r : Ga) (hlen : l.genome.length = r.genome.length)
    (hn : 2 ≤ r.genome.length) (hN : r.genome.length < 9223372036854775808)
    (hal : l.age < 4294967296) (har : r.age < 4294967296) :
    (Gen.gaXo.run Gen.age Gen.randIdx u1 u2 l r).genome.length = r.genome.length ∧
    (Gen.gaXo.run Gen.age Gen.randIdx u1 u2 l r).age = max l.age r.age ∧
    ∃ c1 c2, c1 < c2 ∧ c2 ≤ r.genome.length - 1 ∧
      ∀ i, (Gen.gaXo.run Gen.age Gen.randIdx u1 u2 l r).genome[i]? =
        if c1 ≤ i ∧ i < c2 then l.genome[i]? else r.genome[i]? := by
  rw [gen_gaXo_run u1 u2 l r hlen hn hN hal har]
  exact ⟨ga_child_len u1 u2 l r hlen, age_max u1 u2 l r, ga_segment u1 u2 l r hlen hn⟩

/-- **code_de_crossover**: `i_de::crossover` as written (loop bounds in `unsigned long`, the formula
    `ret[i] += rf * (a[i] − b[i])`, the forced last position, `set_older_age(max{…})`) is the specification's
    trial vector, for every number type and arithmetic; hence `de_trial_form` and `de_age` hold for it -/
theorem code_de_crossover {F} [Inhabited F] (A : Arith F) (rf : F) (flip : Nat → Bool) (t a b c : De F)
    (ha : a.genome.length = t.genome.length) (hb : b.genome.length = t.genome.length)
    (hc : c.genome.length = t.genome.length) (hn : 1 ≤ t.genome.length)
    (hN : t.genome.length < 9223372036854775808)
    (hat : t.age < 4294967296) (haa : a.age < 4294967296) (hab : b.age < 4294967296) (hac : c.age < 4294967296) :
    Gen.deXo.run Gen.age A rf flip t a b c = deCrossover A rf flip t a b c ∧
    (Gen.deXo.run Gen.age A rf flip t a b c).age = max (max t.age c.age) (max a.age b.age) ∧
    Gen.deXo.ditherIsInOfF = true ∧ Gen.deXo.guardIsBooleanOfP = true := by
  rw [gen_deXo_run A rf flip t a b c ha hb hc hn hN hat haa hab hac]
  exact ⟨rfl, de_age A rf flip t a b c, by decide, by decide⟩

/-! ## Part 3 — ages at the machine type of the code -/

/-- the four age primitives as written compute the ideal values below 2^32: `age()` returns what is stored,
    `inc_age()` adds one, `set_older_age(r)` stores the maximum, `load` stores the number read -/
theorem code_age_exact (s r : Int) (h0 : 0 ≤ s) (h1 : s < 4294967296) (h2 : 0 ≤ r) (h3 : r < 4294967296) :
    Gen.age.read s = s ∧ (s + 1 < 4294967296 → Gen.age.incr s = s + 1) ∧
    Gen.age.older s r = max s r ∧ Gen.age.load r = some r :=
  ⟨gen_age_read s h0 h1, fun h => gen_age_incr s h0 h, gen_age_older s r h0 h1 h2 h3, gen_age_load r h2 h3⟩

/-- **age_no_wrap**: along ANY history of `inc_age` / `load` / `set_older_age` whose ideal ages stay below 2^32,
    the stored age is the number of generations lived – no wrap, no truncation.  (Narrowing the member or a
    parameter makes the generated `Gen.age` fail this theorem.) -/
theorem age_no_wrap (ops : List AgeOp) (a0 : Nat) (h0 : a0 < 4294967296)
    (hb : ∀ k ≤ ops.length, (ops.take k).foldl AgeOp.ideal a0 < 4294967296)
    (hr : ∀ op ∈ ops, match op with | .load v => v < 4294967296 | .older r => r < 4294967296 | .inc => True) :
    ops.foldl (AgeOp.machine Gen.age) (a0 : Int) = ((ops.foldl AgeOp.ideal a0 : Nat) : Int) := by
  induction ops generalizing a0 with
  | nil => rfl
  | cons op rest ih =>
    simp only [List.foldl_cons]
    have h1 := hb 1 (by simp)
    simp only [List.take_succ_cons, List.take_zero, List.foldl_cons, List.foldl_nil] at h1
    have hop := hr op (by simp)
    have hstep : AgeOp.machine Gen.age (a0 : Int) op = ((AgeOp.ideal a0 op : Nat) : Int) := by
      cases op with
      | inc =>
        simp only [AgeOp.machine, AgeOp.ideal] at h1 ⊢
        rw [gen_age_incr _ (by omega) (by omega)]; omega
      | load v =>
        simp only [AgeOp.machine, AgeOp.ideal] at hop ⊢
        rw [gen_age_load _ (by omega) (by omega)]; rfl
      | older r =>
        simp only [AgeOp.machine, AgeOp.ideal] at hop ⊢
        rw [gen_age_older _ _ (by omega) (by omega) (by omega) (by omega)]; omega
    rw [hstep]
    apply ih _ h1
    · intro k hk
      have := hb (k + 1) (by simp; omega)
      simpa [List.take_succ_cons] using this
    · intro op' hop'
      exact hr op' (by simp [hop'])

/-! ## Part 4 — strategy-level call sites -/

/-- `recombination::de<T>::run` as written: the target is `parent[0]`, the crossover probability and the weight
    interval are the CONFIGURED ones (`env.p_cross`, `env.de.weight`, passed through unchanged), `a` is `parent[1]`
    (a random neighbour when the tournament has size 1), `b` and the base vector `c` are random neighbours -/
theorem code_de_run_site :
    Gen.deRun = { target := .parent 0, p := .pCross, f := .deWeight,
                  a := .ifParents 1 (.parent 1) (.pickup (.parent 0)),
                  b := .pickup (.parent 0), c := .pickup (.parent 0) } := by decide

/-- `recombination::base<T>::run` as written: crossover of `pop[parent[0]]` (lhs) with `pop[parent[1]]` (rhs; a random
    neighbour when the tournament has size 1) with probability `env.p_cross`, followed by signature-repulsion
    mutations with `env.p_mutation` only when `env.p_mutation > 0`, `brood_recombination` candidates; otherwise a
    copy of one of the two parents mutated with `env.p_mutation` -/
theorem code_ga_run_site :
    Gen.gaRun = { r1 := .parent 0, r2 := .ifParents 1 (.parent 1) (.pickup (.parent 0)),
                  crossGuard := .pCross, lhs := .parent 0,
                  rhs := .ifParents 1 (.parent 1) (.pickup (.parent 0)),
                  mutGuardPositive := .pMutation, mutP := .pMutation, broodCount := .brood,
                  elseCopy := .flip (.parent 0) (.ifParents 1 (.parent 1) (.pickup (.parent 0))),
                  elseMutP := .pMutation } := by decide

/-- whatever the selection returned (1 or more parents), every coordinate the DE strategy uses denotes an
    individual of the population, and the target is the first selected parent -/
theorem code_de_run_coords (sel : List Nat) (n : Nat) (hs : sel ≠ []) (hsel : ∀ i ∈ sel, i < n) :
    (∀ i, Gen.deRun.target.Denotes sel n i → sel[0]? = some i) ∧
    (∀ i, Gen.deRun.a.Denotes sel n i → i < n ∧ (1 < sel.length → sel[1]? = some i)) ∧
    (∀ i, Gen.deRun.b.Denotes sel n i → i < n) ∧ (∀ i, Gen.deRun.c.Denotes sel n i → i < n) := by
  have hp : ∀ k i, Coord.Denotes sel n (.parent k) i → sel[k]? = some i ∧ i < n := by
    intro k i h; cases h with
    | parent _ _ h => exact ⟨h, hsel i (List.mem_of_getElem? h)⟩
  have hk : ∀ c i, Coord.Denotes sel n (.pickup c) i → i < n := by
    intro c i h; cases h with
    | pickup _ _ _ _ h => exact h
  simp only [Gen.deRun]
  refine ⟨fun i h => (hp 0 i h).1, ?_, fun i h => hk _ i h, fun i h => hk _ i h⟩
  intro i h
  cases h with
  | ifT _ _ _ _ hl ht => exact ⟨(hp 1 i ht).2, fun _ => (hp 1 i ht).1⟩
  | ifE _ _ _ _ hl he => exact ⟨hk _ i he, fun h1 => absurd h1 hl⟩

/-- the signature-repulsion loop (`while the child equals a parent: mutate`) keeps every gene in range, the age and
    the length; when its mutations changed nothing in total the individual is unchanged -/
theorem mutation_loop_inv (ss : List Slot) (hd : Declared ss) (x y : Ga) (n : Nat) (h : MutStar ss x n y)
    (hx : InRange ss x.genome) :
    InRange ss y.genome ∧ y.age = x.age ∧ (n = 0 → y = x) := by
  induction h with
  | refl => exact ⟨hx, rfl, fun _ => rfl⟩
  | step y' n' flip ch u _ ih =>
    obtain ⟨h1, h2, h3⟩ := ih
    refine ⟨ga_mutation_in_range ss hd flip ch u y' h1, by simp [gaMutate, h2], ?_⟩
    intro h0
    have hn : n' = 0 := by omega
    have hc : (gaMutate ss flip ch u y').2 = 0 := by omega
    have hy := h3 hn
    have hg : (gaMutate ss flip ch u y').1.genome = y'.genome := by
      have := countDiff_zero y'.genome (gaMutate ss flip ch u y').1.genome (by simp [gaMutate, mutGenome])
        (by simpa [gaMutate] using hc)
      exact this.symm
    rw [← hy]
    cases y' with
    | mk g a => simp only [gaMutate] at hg ⊢; simp [hg]

/-- the second parent `recombination::base::run` can use: `parent[1]`, or any individual when only one was selected -/
def secondParents (pop : List Ga) : List Nat → List Ga
  | _ :: j :: _ => (pop[j]?).toList
  | _ => pop

/-- **ga_run_sound**: whatever `recombination::base<i_ga>::run` returns along the EXTRACTED call site – crossover of
    `pop[parent[0]]` with the second parent (+ repulsion mutations, `brood_recombination` candidates) or a mutated
    copy of one parent – satisfies the relation the driver decides on observed calls: genes in range; after a
    crossover the older parent's age and, when no mutation changed anything, the two-point segment shape; after a
    copy the copied parent's age and exactly `mutations` changed genes. -/
theorem ga_run_sound (ss : List Slot) (hd : Declared ss) (hn : 2 ≤ ss.length) (env : RunEnv) (pop : List Ga)
    (sel : List Nat) (off : Ga) (dc dm : Nat) (hpop : ∀ p ∈ pop, InRange ss p.genome)
    (hsel : ∀ i ∈ sel, i < pop.length) (h : Gen.gaRun.Run ss env pop sel off dc dm) :
    ∃ i1 p1, sel[0]? = some i1 ∧ pop[i1]? = some p1 ∧
      GsStep ss (max 1 env.brood) p1 (secondParents pop sel) off dc dm := by
  have hp0 : ∀ i, Coord.Denotes sel pop.length (.parent 0) i → sel[0]? = some i := by
    intro i h; cases h with | parent _ _ h => exact h
  have hp1 : ∀ i, Coord.Denotes sel pop.length (.parent 1) i → sel[1]? = some i := by
    intro i h; cases h with | parent _ _ h => exact h
  -- the second parent is one of `secondParents`
  have hsec : ∀ i p, Coord.Denotes sel pop.length (.ifParents 1 (.parent 1) (.pickup (.parent 0))) i →
      pop[i]? = some p → p ∈ secondParents pop sel := by
    intro i p h hp
    cases h with
    | ifT _ _ _ _ hl ht =>
      have := hp1 i ht
      match sel, this, hl with
      | _ :: j :: _, this, _ =>
        simp only [List.getElem?_cons_succ, List.getElem?_cons_zero, Option.some.injEq] at this
        subst this
        simp [secondParents, hp]
    | ifE _ _ _ _ hl he =>
      match sel, hl with
      | [], _ => simp [secondParents]; exact List.mem_of_getElem? hp
      | [_], _ => simp [secondParents]; exact List.mem_of_getElem? hp
      | _ :: _ :: _, hl => simp at hl
  cases h with
  | cross i1 i2 p1 p2 cs off h1 h2 hp1' hp2' hb hlen hc hoff =>
    simp only [Gen.gaRun] at h1 h2
    refine ⟨i1, p1, hp0 i1 h1, hp1', ?_⟩
    have hin1 := hpop p1 (List.mem_of_getElem? hp1')
    have hin2 := hpop p2 (List.mem_of_getElem? hp2')
    obtain ⟨u1, u2, hms, _⟩ := hc off hoff
    have hx := ga_crossover_in_range ss u1 u2 p1 p2 hin1 hin2
    obtain ⟨hr, ha, hz⟩ := mutation_loop_inv ss hd _ _ _ hms hx
    refine ⟨hr, ?_⟩
    have hne : cs.length ≠ 0 := by omega
    rw [if_neg hne]
    refine ⟨hlen, p2, hsec i2 p2 h2 hp2', ?_, ?_, ?_⟩
    · rw [ha, age_max]
    · rw [hr.1, hin2.1]
    · intro hdm
      have h0 : off.2 = 0 := sum_zero_mem _ hdm off.2 (List.mem_map.mpr ⟨off, hoff, rfl⟩)
      rw [hz h0]
      exact ga_crossover_step u1 u2 p1 p2 (by rw [hin1.1, hin2.1]) (by rw [hin2.1]; exact hn)
  | copy i p flip ch u hi hp =>
    simp only [Gen.gaRun] at hi
    have hin := hpop p (List.mem_of_getElem? hp)
    have hmem : ∃ i1 p1, sel[0]? = some i1 ∧ pop[i1]? = some p1 ∧ p ∈ p1 :: secondParents pop sel := by
      cases hi with
      | flipT _ _ _ ht => exact ⟨i, p, hp0 i ht, hp, by simp⟩
      | flipE _ _ _ he =>
        have hps := hsec i p he hp
        -- the first selected parent exists
        cases he with
        | ifT _ _ _ _ hl _ =>
          match sel, hl, hsel with
          | i0 :: _ :: _, _, hsel =>
            have hlt : i0 < pop.length := hsel i0 (by simp)
            exact ⟨i0, pop[i0], by simp, List.getElem?_eq_getElem hlt, List.mem_cons_of_mem _ hps⟩
        | ifE _ _ _ _ hl hk =>
          cases hk with
          | pickup _ j _ hj _ =>
            have hj0 := hp0 j hj
            have hlt : j < pop.length := hsel j (List.mem_of_getElem? hj0)
            exact ⟨j, pop[j], hj0, List.getElem?_eq_getElem hlt, List.mem_cons_of_mem _ hps⟩
    obtain ⟨i1, p1, hs0, hp1', hmem⟩ := hmem
    refine ⟨i1, p1, hs0, hp1', ga_mutation_in_range ss hd flip ch u p hin, ?_⟩
    rw [if_pos rfl]
    exact ⟨p, hmem, rfl, by simp [gaMutate, mutGenome], rfl⟩

/-- **de_run_sound**: whatever `recombination::de<i_de>::run` returns along the extracted call site is the trial
    vector of the FIRST selected parent, with `parent[1]` (when the tournament returned two) as first donor,
    population members as second donor and base, and ONE weight from the configured interval `env.de.weight`
    (`inW`) – `de_trial_form` and `de_age` apply to it. -/
theorem de_run_sound {F} (A : Arith F) (inW : F → Prop) (pop : List (De F)) (sel : List Nat) (off : De F)
    (hs : sel ≠ []) (hsel : ∀ i ∈ sel, i < pop.length) (h : Gen.deRun.Run A inW pop sel off) :
    ∃ (it ia ib ic : Nat) (t a b c : De F) (rf : F) (flip : Nat → Bool),
      sel[0]? = some it ∧ (1 < sel.length → sel[1]? = some ia) ∧
      pop[it]? = some t ∧ pop[ia]? = some a ∧ pop[ib]? = some b ∧ pop[ic]? = some c ∧ inW rf ∧
      off = deCrossover A rf flip t a b c := by
  have hc := code_de_run_coords sel pop.length hs hsel
  cases h with
  | mk it ia ib ic t a b c rf flip h1 h2 h3 h4 g1 g2 g3 g4 _ _ hw =>
    exact ⟨it, ia, ib, ic, t, a, b, c, rf, flip, hc.1 it h1, (hc.2.1 ia h2).2, g1, g2, g3, g4, hw, rfl⟩

/-! ## Part 5 — real genes under IEEE rounding -/

/-- **de_in_box_ieee**: `std::uniform_real_distribution(lo, hi)` evaluated as `fl(fl(u·fl(hi − lo)) + lo)` for a
    canonical value `0 ≤ u ≤ umax < 1` and representable `lo < hi` (finite width) lies in the CLOSED box
    `[lo, hi]` – it never exceeds `hi`, but `hi` itself is not excluded (see `de_hits_hi`). -/
theorem de_in_box_ieee (R : Rounding) (lo hi u : Rat) (hlo : R.rnd lo = lo) (hhi : R.rnd hi = hi)
    (h : lo < hi) (hu0 : 0 ≤ u) (hu1 : u ≤ R.umax) :
    lo ≤ R.uniformReal lo hi u ∧ R.uniformReal lo hi u ≤ hi := by
  unfold Rounding.uniformReal
  have hw0 : 0 ≤ R.rnd (hi - lo) := by
    have := R.mono 0 (hi - lo) (by grind); rw [R.zero] at this; exact this
  have hy0 : 0 ≤ R.rnd (u * R.rnd (hi - lo)) := by
    have := R.mono 0 (u * R.rnd (hi - lo)) (Rat.mul_nonneg hu0 hw0); rw [R.zero] at this; exact this
  have hyw : R.rnd (u * R.rnd (hi - lo)) ≤ R.rnd (hi - lo) := by
    have h1 : u * R.rnd (hi - lo) ≤ 1 * R.rnd (hi - lo) :=
      Rat.mul_le_mul_of_nonneg_right (by have := R.umax_lt; grind) hw0
    have := R.mono _ _ h1
    rw [Rat.one_mul, R.idem] at this
    exact this
  constructor
  · have := R.mono lo (R.rnd (u * R.rnd (hi - lo)) + lo) (by grind)
    rw [hlo] at this; exact this
  · by_cases he : R.rnd (u * R.rnd (hi - lo)) = R.rnd (hi - lo)
    · have hex := R.absorb u lo hi hu0 hu1 hlo hhi h he
      rw [he, hex]
      have : hi - lo + lo = hi := by grind
      rw [this, hhi]; exact Rat.le_refl
    · have hlt : R.rnd (u * R.rnd (hi - lo)) < R.rnd (hi - lo) := by grind
      have hle : R.rnd (u * R.rnd (hi - lo)) ≤ hi - lo := by
        apply Classical.byContradiction
        intro hc
        have h2 := R.mono (hi - lo) (R.rnd (u * R.rnd (hi - lo))) (by grind)
        rw [R.idem] at h2
        grind
      have := R.mono (R.rnd (u * R.rnd (hi - lo)) + lo) hi (by grind)
      rw [hhi] at this; exact this

/-- **de_hits_hi** – when the upper bound is reached: only if NO representable number lies between the exact sum
    `fl(u·w) + lo` and `hi`, i.e. the sum is in the last half-ulp below `hi` (boxes a few ulps wide, or the largest
    `u`): any representable `z` with `fl(u·w) + lo ≤ z < hi` keeps the result `≤ z < hi`. -/
theorem de_hits_hi (R : Rounding) (lo hi u z : Rat) (hz : R.rnd z = z)
    (hle : R.rnd (u * R.rnd (hi - lo)) + lo ≤ z) (hzh : z < hi) : R.uniformReal lo hi u < hi := by
  unfold Rounding.uniformReal
  have := R.mono _ _ hle
  rw [hz] at this
  grind

/-- **code_real_in_box**: `random::in(range)` → `random::between<double>(min, sup)` AS WRITTEN (the extracted
    return expression `ret < sup ? ret : nextafter(sup, min)`) yields a value of the HALF-OPEN box `[lo, hi)` for
    every canonical draw – "randomly created real vectors lie inside the declared box". -/
theorem code_real_in_box (R : Rounding) (lo hi u : Rat) (hlo : R.rnd lo = lo) (hhi : R.rnd hi = hi)
    (h : lo < hi) (hu0 : 0 ≤ u) (hu1 : u ≤ R.umax) :
    lo ≤ Gen.randReal.in_ R lo hi u ∧ Gen.randReal.in_ R lo hi u < hi := by
  have hb := de_in_box_ieee R lo hi u hlo hhi h hu0 hu1
  simp only [RandReal.in_, RandReal.between, Gen.randReal, RE.evalQ]
  split
  · exact ⟨hb.1, by assumption⟩
  · exact ⟨R.next_ge lo hi hlo hhi h, R.next_lt lo hi hlo hhi h⟩

/-- the width guard of `between<double>` is present in the extracted code (an interval whose width is not
    representable is drawn at half scale; outside the rational model, checked by the tie) -/
theorem code_real_wide_guard : Gen.randReal.halvesWhenWide = true := by decide

/-! ### non-vacuity -/
example : ∃ R : Rounding, R.rnd (1 / 3) = 1 / 3 := ⟨Rounding.exact, rfl⟩
example : Declared [[⟨-3, 4⟩], [⟨0, 1⟩, ⟨5, 9⟩], [⟨-2147483648, 2147483647⟩]] := by
  intro s hs
  simp at hs
  rcases hs with rfl | rfl | rfl <;> refine ⟨by simp, ?_⟩ <;> intro r hr <;> simp at hr
  · subst hr; decide
  · rcases hr with rfl | rfl <;> decide
  · subst hr; decide
example : (gaCrossover 7 5 ⟨[1, 2, 3, 4, 5], 3⟩ ⟨[10, 20, 30, 40, 50], 9⟩) = ⟨[10, 20, 30, 4, 50], 9⟩ := by
  decide
example : (gaCreate [[⟨-3, 4⟩], [⟨0, 1⟩, ⟨5, 9⟩]] (fun i => i) (fun i => 10 + i)).genome = [0, 8] := by decide
example : (Gen.gaXo.run Gen.age Gen.randIdx 7 5 ⟨[1, 2, 3, 4, 5], 70000⟩ ⟨[10, 20, 30, 40, 50], 4294967295⟩)
    = ⟨[10, 20, 30, 4, 50], 4294967295⟩ := by decide
example : [AgeOp.load 65535, .inc, .older 70000, .inc].foldl (AgeOp.machine Gen.age) 0 = 70001 := by decide
example : ([AgeOp.load 65535, .inc, .older 70000, .inc].take 4).foldl AgeOp.ideal 0 < 4294967296 := by decide
example : Gen.gaRun.Run [[⟨0, 9⟩], [⟨0, 9⟩]] ⟨false, 1⟩ [⟨[1, 2], 3⟩, ⟨[4, 5], 70000⟩] [0, 1]
    (gaCrossover 0 0 ⟨[1, 2], 3⟩ ⟨[4, 5], 70000⟩) 1 0 :=
  .cross 0 1 ⟨[1, 2], 3⟩ ⟨[4, 5], 70000⟩ [(gaCrossover 0 0 ⟨[1, 2], 3⟩ ⟨[4, 5], 70000⟩, 0)]
    (gaCrossover 0 0 ⟨[1, 2], 3⟩ ⟨[4, 5], 70000⟩, 0)
    (.parent _ _ rfl) (.ifT _ _ _ _ (by decide) (.parent _ _ rfl)) rfl rfl rfl rfl
    (by intro c hc; simp at hc; subst hc; exact ⟨0, 0, .refl _, fun _ => rfl⟩) (by simp)
example : Gen.deRun.a.Denotes [3, 5] 8 5 := .ifT _ _ _ _ (by decide) (.parent _ _ rfl)
example : Gen.deRun.a.Denotes [3] 8 6 := .ifE _ _ _ _ (by decide) (.pickup _ 3 _ (.parent _ _ rfl) (by decide))

end Vita.C17
