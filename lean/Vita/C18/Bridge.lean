/-
  C18 — lemmas that connect the generated bodies (`GenOps.lean`, terms of the loop language of
  `Loop.lean`) with the hand-written specification functions of `Model.lean`.
  The proof scripts never mention the text of a generated body: they unfold it and run the loop
  rules, so that a harmless rewrite of the C++ regenerates a term the same script still proves.
-/
import Vita.C18.Lemmas
import Vita.C18.Ops

set_option linter.unusedSimpArgs false
set_option linter.unusedVariables false

namespace Vita.C18

section
variable {α : Type} (key : α → Int) (same : α → α → Bool)

/-! ### the library algorithms over `keyCmp` are the algorithms of `Model.lean` -/

@[simp] theorem keyCmp_lt : (keyCmp key same).lt = slt key := rfl
@[simp] theorem keyCmp_le : (keyCmp key same).le = sle key := rfl
@[simp] theorem keyCmp_eq : (keyCmp key same).eq = seq key := rfl
@[simp] theorem keyCmp_gt (a b : α) : (keyCmp key same).gt a b = sgt key a b := rfl
@[simp] theorem keyCmp_ge (a b : α) : (keyCmp key same).ge a b = sge key a b := rfl
@[simp] theorem keyCmp_ne (a b : α) : (keyCmp key same).ne a b = sne key a b := by
  simp [Cmp.ne, keyCmp, seq, sne]

theorem lexLtC_key (a b : List α) : lexLtC (keyCmp key same) a b = lexLt key a b := by
  induction a generalizing b with
  | nil => cases b <;> rfl
  | cons x xs ih => cases b with
    | nil => rfl
    | cons y ys => simp only [lexLtC, lexLt, keyCmp_lt, ih]

theorem equal3C_key (a b : List α) (h : a.length ≤ b.length) :
    equal3C (keyCmp key same) a b = some (equal3 key a b) := by
  induction a generalizing b with
  | nil => rfl
  | cons x xs ih => cases b with
    | nil => simp at h
    | cons y ys =>
      have : xs.length ≤ ys.length := by simpa using h
      simp only [equal3C, equal3, keyCmp_eq, ih ys this]
      cases seq key x y <;> simp

theorem equal3C_short (c : Cmp α) (a b : List α) (h : b.length < a.length) :
    equal3C c a b = none ∨ equal3C c a b = some false := by
  induction a generalizing b with
  | nil => simp at h
  | cons x xs ih => cases b with
    | nil => left; rfl
    | cons y ys =>
      have : ys.length < xs.length := by simpa using h
      simp only [equal3C]
      split
      · exact ih ys this
      · right; rfl

theorem equal4C_key (a b : List α) : equal4C (keyCmp key same) a b = equal4 key a b := by
  unfold equal4C equal4
  by_cases h : a.length = b.length
  · rw [equal3C_key key same a b (by omega)]; rfl
  · have : (a.length == b.length) = false := by simp [h]
    simp [this]

/-! ### `dominating` -/

theorem dominating_bridge (o : FOps α) (a b : List α) :
    Gen.dominating (keyCmp key same) o a b = some (dominating key a b) := by
  unfold Gen.dominating dominating
  have hinit : (decide (a.length ≠ 0) && !decide (b.length ≠ 0)) = (!a.isEmpty && b.isEmpty) := by
    cases a <;> cases b <;> simp
  simp only [hinit, keyCmp_gt, keyCmp_lt, keyCmp_ge, keyCmp_le, keyCmp_ne, keyCmp_eq]
  clear hinit
  generalize (!a.isEmpty && b.isEmpty) = ob
  induction a generalizing b ob with
  | nil => simp [domLoop]
  | cons x xs ih =>
    cases b with
    | nil => simp [domLoop]
    | cons y ys =>
      simp only [List.length_cons, Nat.succ_min_succ, forIdx_succ, rd_cons_zero, rd_cons_succ, domLoop]
      by_cases h1 : sgt key x y = true <;> by_cases h2 : slt key x y = true <;>
        simp only [h1, h2, if_true, if_false, andThen_ret, andThen_fault, Bool.false_eq_true] <;>
        first | exact ih _ _ | rfl

end

/-! ### element-wise compound assignments (`+= -= *=`) -/

section
variable {F : Type}

/-- the body of `for (i < n) (*this)[i] op= f[i];` (C++17: the right operand of a compound
    assignment is evaluated first) -/
def zipBody {ρ : Type} (op : F → F → F) (b : List F) : Nat → List F → Step (List F) ρ :=
  fun i self => rd b i fun r0 => rd self i fun r1 => wr self i (op r1 r0) fun self => .next self

def vzipStep {ρ : Type} (op : F → F → F) (a b : List F) : Step (List F) ρ :=
  match vzip op a b with
  | some r => .next r
  | none => .fault

theorem zipLoop_eq {ρ : Type} (op : F → F → F) (a b : List F) :
    forIdx a.length (zipBody (ρ := ρ) op b) a = vzipStep op a b := by
  induction a generalizing b with
  | nil => simp [vzipStep, vzip]
  | cons x xs ih =>
    cases b with
    | nil => simp [forIdx_succ, zipBody, vzipStep, vzip]
    | cons y ys =>
      rw [List.length_cons, forIdx_succ]
      simp only [zipBody, rd_cons_zero, wr_cons_zero]
      have h := forIdx_mapS (ρ := ρ) (fun s => op x y :: s) (zipBody op ys)
        (fun j => zipBody op (y :: ys) (j + 1))
        (by intro i s; simp only [zipBody, rd_cons_succ, wr_cons_succ, mapS_rd, mapS_wr, mapS_next]) xs.length xs
      rw [h, ih ys]
      simp only [vzipStep, vzip]
      cases vzip op xs ys <;> rfl

theorem addAssign_bridge (c : Cmp F) (o : FOps F) (a b : List F) :
    Gen.addAssign c o a b = vadd o a b := by
  unfold Gen.addAssign vadd
  show (forIdx a.length (zipBody o.add b) a).andThen _ = _
  rw [zipLoop_eq]; unfold vzipStep; cases vzip o.add a b <;> rfl

theorem subAssign_bridge (c : Cmp F) (o : FOps F) (a b : List F) :
    Gen.subAssign c o a b = vsub o a b := by
  unfold Gen.subAssign vsub
  show (forIdx a.length (zipBody o.sub b) a).andThen _ = _
  rw [zipLoop_eq]; unfold vzipStep; cases vzip o.sub a b <;> rfl

theorem mulAssign_bridge (c : Cmp F) (o : FOps F) (a b : List F) :
    Gen.mulAssign c o a b = vmul o a b := by
  unfold Gen.mulAssign vmul
  show (forIdx a.length (zipBody o.mul b) a).andThen _ = _
  rw [zipLoop_eq]; unfold vzipStep; cases vzip o.mul a b <;> rfl

theorem opAdd_bridge (c : Cmp F) (o : FOps F) (a b : List F) : Gen.opAdd c o a b = vadd o a b := by
  unfold Gen.opAdd; rw [addAssign_bridge]; cases vadd o a b <;> rfl
theorem opSub_bridge (c : Cmp F) (o : FOps F) (a b : List F) : Gen.opSub c o a b = vsub o a b := by
  unfold Gen.opSub; rw [subAssign_bridge]; cases vsub o a b <;> rfl
theorem opMul_bridge (c : Cmp F) (o : FOps F) (a b : List F) : Gen.opMul c o a b = vmul o a b := by
  unfold Gen.opMul; rw [mulAssign_bridge]; cases vmul o a b <;> rfl

/-! ### scalar helpers of utility.h -/

theorem roundToS_bridge (c : Cmp F) (o : FOps F) (x : F) : Gen.roundToS c o x = some (roundTo o x) := rfl

theorem issmallS_bridge (c : Cmp F) (o : FOps F) (x : F) : Gen.issmallS c o x = some (issmallSpec c o x) := rfl

theorem isnonnegativeS_bridge (c : Cmp F) (o : FOps F) (x : F) :
    Gen.isnonnegativeS c o x = some (nonnegSpec c o x) := rfl

theorem almostEqualS_bridge (c : Cmp F) (o : FOps F) (x y e : F) :
    Gen.almostEqualS c o x y e = some (aeqSpec c o x y e) := by
  unfold Gen.almostEqualS aeqSpec
  simp only [issmallS_bridge, call_some]
  cases issmallSpec c o (o.abs (o.sub x y)) <;> simp

/-! ### element-wise maps, predicates, distance, joining, printing -/

theorem opDivS_bridge (c : Cmp F) (o : FOps F) (a : List F) (v : F) : Gen.opDivS c o a v = some (vdivS o a v) := by
  simp only [Gen.opDivS, mapO_some, call_some, vdivS]
theorem opMulS_bridge (c : Cmp F) (o : FOps F) (a : List F) (v : F) : Gen.opMulS c o a v = some (vmulS o a v) := by
  simp only [Gen.opMulS, mapO_some, call_some, vmulS]
theorem abs_bridge (c : Cmp F) (o : FOps F) (a : List F) : Gen.abs c o a = some (vabs o a) := by
  simp only [Gen.abs, mapO_some, call_some, vabs]
theorem sqrt_bridge (c : Cmp F) (o : FOps F) (a : List F) : Gen.sqrt c o a = some (vsqrt o a) := by
  simp only [Gen.sqrt, mapO_some, call_some, vsqrt]
theorem roundTo_bridge (c : Cmp F) (o : FOps F) (a : List F) : Gen.roundTo c o a = some (vround o a) := by
  simp only [Gen.roundTo, roundToS_bridge, mapO_some, call_some, vround]

theorem isfinite_bridge (c : Cmp F) (o : FOps F) (a : List F) : Gen.isfinite c o a = some (vfinite o a) := by
  simp only [Gen.isfinite, allOfO_some, anyOfO_some, call_some, vfinite]
theorem isnan_bridge (c : Cmp F) (o : FOps F) (a : List F) : Gen.isnan c o a = some (vnan o a) := by
  simp only [Gen.isnan, allOfO_some, anyOfO_some, call_some, vnan]
theorem issmall_bridge (c : Cmp F) (o : FOps F) (a : List F) : Gen.issmall c o a = some (vsmall c o a) := by
  simp only [Gen.issmall, issmallS_bridge, allOfO_some, anyOfO_some, call_some, vsmall]
theorem isnonnegative_bridge (c : Cmp F) (o : FOps F) (a : List F) :
    Gen.isnonnegative c o a = some (vnonneg c o a) := by
  simp only [Gen.isnonnegative, isnonnegativeS_bridge, allOfO_some, anyOfO_some, call_some, vnonneg]

theorem innerProductO_dist (o : FOps F) (acc : F) (a b : List F) :
    innerProductO o.add (fun x y => some (o.abs (o.sub x y))) acc a b = distLoop o acc a b := by
  induction a generalizing b acc with
  | nil => rfl
  | cons x xs ih => cases b with
    | nil => rfl
    | cons y ys => simp only [innerProductO, distLoop, ih]

theorem distance_bridge (c : Cmp F) (o : FOps F) (a b : List F) : Gen.distance c o a b = distance o a b := by
  simp only [Gen.distance, innerProductO_dist, distance, bitsZero]
  cases distLoop o (o.lit 0) a b <;> rfl

theorem combine_bridge (c : Cmp F) (o : FOps F) (a b : List F) : Gen.combine c o a b = some (combine a b) := by
  simp only [Gen.combine, combine]

theorem almostEqual_bridge (c : Cmp F) (o : FOps F) (a b : List F) (e : F) :
    Gen.almostEqual c o a b e = vaeq c o e a b := by
  unfold Gen.almostEqual
  simp only [almostEqualS_bridge, call_some]
  induction a generalizing b with
  | nil => simp [vaeq]
  | cons x xs ih =>
    cases b with
    | nil => simp [vaeq, forIdx_succ]
    | cons y ys =>
      simp only [List.length_cons, forIdx_succ, rd_cons_zero, rd_cons_succ, vaeq]
      cases aeqSpec c o x y e <;>
        simp only [Bool.not_true, Bool.not_false, if_true, if_false, andThen_ret, Bool.false_eq_true] <;>
        first | exact ih _ | rfl

theorem copyInfix_go_false (fmt : F → String) (sep out : String) (x : F) (xs : List F) :
    copyInfix.go fmt sep false (out ++ fmt x) xs = out ++ joinSep sep ((x :: xs).map fmt) := by
  induction xs generalizing out x with
  | nil => simp [copyInfix.go, joinSep]
  | cons y ys ih =>
    simp only [copyInfix.go, Bool.false_eq_true, if_false, List.map_cons, joinSep]
    have := ih (out ++ fmt x ++ sep) y
    simp only [List.map_cons] at this
    rw [this]
    simp only [String.append_assoc]

/-! ### the hand-written specifications, component-wise -/

theorem vzip_get (op : F → F → F) (a b : List F) (h : a.length ≤ b.length) :
    ∃ r, vzip op a b = some r ∧ r.length = a.length ∧
      ∀ i (hi : i < a.length), r[i]? = some (op a[i] (b[i]'(by omega))) := by
  refine ⟨List.zipWith op a b, vzip_eq op a b h, by simp; omega, ?_⟩
  intro i hi
  rw [List.getElem?_eq_getElem (by simp; omega)]
  simp

theorem vaeq_eq (c : Cmp F) (o : FOps F) (e : F) (a b : List F) (h : a.length ≤ b.length) :
    vaeq c o e a b = some ((List.zipWith (fun x y => aeqSpec c o x y e) a b).all id) := by
  induction a generalizing b with
  | nil => simp [vaeq]
  | cons x xs ih =>
    cases b with
    | nil => simp at h
    | cons y ys =>
      have : xs.length ≤ ys.length := by simpa using h
      simp only [vaeq, List.zipWith_cons_cons, List.all_cons, ih ys this, id]
      cases aeqSpec c o x y e <;> simp

theorem vaeq_short (c : Cmp F) (o : FOps F) (e : F) (a b : List F) (h : b.length < a.length) :
    vaeq c o e a b = none ∨ vaeq c o e a b = some false := by
  induction a generalizing b with
  | nil => simp at h
  | cons x xs ih =>
    cases b with
    | nil => left; rfl
    | cons y ys =>
      have : ys.length < xs.length := by simpa using h
      simp only [vaeq]
      split
      · exact ih ys this
      · right; rfl

theorem distLoop_none (o : FOps F) (acc : F) (a b : List F) (h : b.length < a.length) :
    distLoop o acc a b = none := by
  induction a generalizing b acc with
  | nil => simp at h
  | cons x xs ih =>
    cases b with
    | nil => rfl
    | cons y ys =>
      have : ys.length < xs.length := by simpa using h
      simp [distLoop, ih _ ys this]

theorem showFit_bridge (c : Cmp F) (o : FOps F) (fmt : F → String) (f : List F) :
    Gen.showFit c o fmt f = some (showSpec fmt f) := by
  simp only [Gen.showFit, showSpec, copyInfix]
  cases f with
  | nil => simp [copyInfix.go, joinSep]
  | cons x xs =>
    simp only [copyInfix.go, if_true]
    rw [copyInfix_go_false]
    simp

end
end Vita.C18
