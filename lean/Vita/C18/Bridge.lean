/-
  C18 — lemmas that connect the generated bodies (`GenOps.lean`, terms of the loop language of
  `Loop.lean`) with the hand-written specification functions of `Model.lean`.
  The proof scripts never mention the text of a generated body: they unfold it and run the loop
  rules, so that a harmless rewrite of the C++ regenerates a term the same script still proves.
-/
import Vita.C18.Lemmas
import Vita.C18.Ops

set_option linter.unusedSimpArgs false
set_option linter.unusedVariables false

namespace Vita.C18

section
variable {α : Type} (key : α → Int) (same : α → α → Bool)

/-! ### the library algorithms over `keyCmp` are the algorithms of `Model.lean` -/

@[simp] theorem keyCmp_lt : (keyCmp key same).lt = slt key := rfl
@[simp] theorem keyCmp_le : (keyCmp key same).le = sle key := rfl
@[simp] theorem keyCmp_eq : (keyCmp key same).eq = seq key := rfl
@[simp] theorem keyCmp_gt (a b : α) : (keyCmp key same).gt a b = sgt key a b := rfl
@[simp] theorem keyCmp_ge (a b : α) : (keyCmp key same).ge a b = sge key a b := rfl
@[simp] theorem keyCmp_ne (a b : α) : (keyCmp key same).ne a b = sne key a b := by
  simp [Cmp.ne, keyCmp, seq, sne]

theorem lexLtC_key (a b : List α) : lexLtC (keyCmp key same) a b = lexLt key a b := by
  induction a generalizing b with
  | nil => cases b <;> rfl
  | cons x xs ih => cases b with
    | nil => rfl
    | cons y ys => simp only [lexLtC, lexLt, keyCmp_lt, ih]

theorem equal3C_key (a b : List α) (h : a.length ≤ b.length) :
    equal3C (keyCmp key same) a b = some (equal3 key a b) := by
  induction a generalizing b with
  | nil => rfl
  | cons x xs ih => cases b with
    | nil => simp at h
    | cons y ys =>
      have : xs.length ≤ ys.length := by simpa using h
      simp only [equal3C, equal3, keyCmp_eq, ih ys this]
      cases seq key x y <;> simp

theorem equal3C_short (c : Cmp α) (a b : List α) (h : b.length < a.length) :
    equal3C c a b = none ∨ equal3C c a b = some false := by
  induction a generalizing b with
  | nil => simp at h
  | cons x xs ih => cases b with
    | nil => left; rfl
    | cons y ys =>
      have : ys.length < xs.length := by simpa using h
      simp only [equal3C]
      split
      · exact ih ys this
      · right; rfl

/-- the `size() == size() && std::equal(b, e, b2)` idiom: the size test makes the three-iterator
    `std::equal` safe -/
theorem call_equal3C_guard {τ : Type} [Faulty τ] (a b : List α) (k : Bool → τ) (e : τ) :
    (if decide (a.length = b.length) = true then call (equal3C (keyCmp key same) a b) k else e) =
      (if decide (a.length = b.length) = true then k (equal3 key a b) else e) := by
  by_cases h : a.length = b.length
  · simp only [h, decide_true, if_true]
    rw [equal3C_key key same a b (by omega)]; rfl
  · simp [h]

theorem call_equal3C_guard' {τ : Type} [Faulty τ] (a b : List α) (k : Bool → τ) (e : τ) :
    (if decide (b.length = a.length) = true then call (equal3C (keyCmp key same) a b) k else e) =
      (if decide (a.length = b.length) = true then k (equal3 key a b) else e) := by
  have : decide (b.length = a.length) = decide (a.length = b.length) := by
    by_cases h : a.length = b.length
    · simp [h]
    · have : ¬ b.length = a.length := fun h' => h h'.symm
      simp [h, this]
  rw [this]; exact call_equal3C_guard key same a b k e

theorem ite_some_and (g x : Bool) : (if g = true then some x else some false) = some (g && x) := by
  cases g <;> rfl
theorem ite_some_or (g x : Bool) : (if g = true then some true else some x) = some (g || x) := by
  cases g <;> rfl
theorem ite_some_not_and (g x : Bool) : (if g = true then some false else some x) = some (!g && x) := by
  cases g <;> rfl
theorem ite_some_not_or (g x : Bool) : (if g = true then some x else some true) = some (!g || x) := by
  cases g <;> rfl

theorem equal4C_key (a b : List α) : equal4C (keyCmp key same) a b = equal4 key a b := by
  unfold equal4C equal4
  by_cases h : a.length = b.length
  · rw [equal3C_key key same a b (by omega)]; rfl
  · have : (a.length == b.length) = false := by simp [h]
    simp [this]

/-! ### `dominating`

  The generated loop body is compared with a canonical step function ITERATION BY ITERATION
  (`hb` below, a case analysis that never mentions the text of the body), so that rewrites of the
  body that do the same thing at every index (branches in another order, `<`/`>` exchanged with
  swapped operands, the bound written differently) still prove. -/

/-- one iteration of the scan of `dominating`: `>` sets the flag, `<` leaves with `false` -/
def domStep (a b : List α) (i : Nat) (ob : Bool) : Step Bool Bool :=
  rd a i fun x => rd b i fun y =>
    if sgt key x y then .next true else if slt key x y then .ret false else .next ob

theorem domLoop_canon (a b : List α) (ob : Bool) :
    (forIdx (min a.length b.length) (domStep key a b) ob).andThen (fun ob => some ob) =
      some (domLoop key a b ob) := by
  induction a generalizing b ob with
  | nil => simp [domLoop]
  | cons x xs ih =>
    cases b with
    | nil => simp [domLoop]
    | cons y ys =>
      simp only [List.length_cons, Nat.succ_min_succ, forIdx_succ, domStep, rd_cons_zero, rd_cons_succ, domLoop]
      by_cases h1 : sgt key x y = true <;> by_cases h2 : slt key x y = true <;>
        simp only [h1, h2, if_true, if_false, andThen_ret, andThen_fault, Bool.false_eq_true] <;>
        first | exact ih _ _ | rfl

theorem domLoop_of_body (a b : List α) (n : Nat) (body : Nat → Bool → Step Bool Bool)
    (k : Bool → Option Bool) (hn : n = min a.length b.length)
    (hb : ∀ i ob, body i ob = domStep key a b i ob) (hk : ∀ ob, k ob = some ob) (ob : Bool) :
    (forIdx n body ob).andThen k = some (domLoop key a b ob) := by
  have e1 : body = domStep key a b := by funext i ob; exact hb i ob
  have e2 : k = fun ob => some ob := by funext ob; exact hk ob
  subst hn; rw [e1, e2]; exact domLoop_canon key a b ob

theorem sgt_slt_excl (x y : α) : ¬ (sgt key x y = true ∧ slt key x y = true) := by
  simp only [sgt, slt, decide_eq_true_eq]; omega

theorem dominating_bridge (o : FOps α) (a b : List α) :
    Gen.dominating (keyCmp key same) o a b = some (dominating key a b) := by
  unfold Gen.dominating dominating
  simp only [keyCmp_gt, keyCmp_lt, keyCmp_ge, keyCmp_le, keyCmp_ne, keyCmp_eq]
  refine (domLoop_of_body key a b _ _ _ ?hn ?hb ?hk _).trans ?init
  case hn => first | rfl | omega
  case hk => intro ob; rfl
  case hb =>
    intro i ob
    simp only [domStep, rd] <;>
      cases a[i]? <;> cases b[i]? <;> simp only [] <;> (try rfl) <;>
      (rename_i x y
       have hx := sgt_slt_excl key x y
       have hy := sgt_slt_excl key y x
       simp only [sgt, slt, sge, sle, seq, sne, decide_eq_true_eq] at *
       repeat' split
       all_goals first | rfl | omega)
  case init =>
    congr 2
    cases a <;> cases b <;> simp

end

/-! ### element-wise compound assignments (`+= -= *=`) -/

section
variable {F : Type}

/-- the body of `for (i < n) (*this)[i] op= f[i];` (C++17: the right operand of a compound
    assignment is evaluated first) -/
def zipBody {ρ : Type} (op : F → F → F) (b : List F) : Nat → List F → Step (List F) ρ :=
  fun i self => rd b i fun r0 => rd self i fun r1 => wr self i (op r1 r0) fun self => .next self

def vzipStep {ρ : Type} (op : F → F → F) (a b : List F) : Step (List F) ρ :=
  match vzip op a b with
  | some r => .next r
  | none => .fault

theorem zipLoop_eq {ρ : Type} (op : F → F → F) (a b : List F) :
    forIdx a.length (zipBody (ρ := ρ) op b) a = vzipStep op a b := by
  induction a generalizing b with
  | nil => simp [vzipStep, vzip]
  | cons x xs ih =>
    cases b with
    | nil => simp [forIdx_succ, zipBody, vzipStep, vzip]
    | cons y ys =>
      rw [List.length_cons, forIdx_succ]
      simp only [zipBody, rd_cons_zero, wr_cons_zero]
      have h := forIdx_mapS (ρ := ρ) (fun s => op x y :: s) (zipBody op ys)
        (fun j => zipBody op (y :: ys) (j + 1))
        (by intro i s; simp only [zipBody, rd_cons_succ, wr_cons_succ, mapS_rd, mapS_wr, mapS_next]) xs.length xs
      rw [h, ih ys]
      simp only [vzipStep, vzip]
      cases vzip op xs ys <;> rfl

theorem zipLoop_of_body (op : F → F → F) (a b : List F) (n : Nat)
    (body : Nat → List F → Step (List F) (List F)) (k : List F → Option (List F))
    (hn : n = a.length) (hb : ∀ i s, body i s = zipBody op b i s) (hk : ∀ s, k s = some s) :
    (forIdx n body a).andThen k = vzip op a b := by
  have e1 : body = zipBody op b := by funext i s; exact hb i s
  have e2 : k = fun s => some s := by funext s; exact hk s
  subst hn; rw [e1, e2, zipLoop_eq]; unfold vzipStep; cases vzip op a b <;> rfl

/-- per-iteration equivalence with `zipBody` (reads in either order, then the write) -/
syntax "c18_zip_step" ident : tactic
macro_rules
  | `(tactic| c18_zip_step $b:ident) => `(tactic| (
      intro i s
      first
        | rfl
        | (simp only [zipBody, rd, wr]
           cases hb : ($b)[i]? <;> cases hs : s[i]? <;> simp_all)))

theorem addAssign_bridge (c : Cmp F) (o : FOps F) (a b : List F) :
    Gen.addAssign c o a b = vadd o a b := by
  unfold Gen.addAssign vadd
  try simp only []
  refine zipLoop_of_body o.add a b _ _ _ ?hn ?hb ?hk
  case hn => first | rfl | omega
  case hk => intro s; rfl
  case hb => c18_zip_step b

theorem subAssign_bridge (c : Cmp F) (o : FOps F) (a b : List F) :
    Gen.subAssign c o a b = vsub o a b := by
  unfold Gen.subAssign vsub
  try simp only []
  refine zipLoop_of_body o.sub a b _ _ _ ?hn ?hb ?hk
  case hn => first | rfl | omega
  case hk => intro s; rfl
  case hb => c18_zip_step b

theorem mulAssign_bridge (c : Cmp F) (o : FOps F) (a b : List F) :
    Gen.mulAssign c o a b = vmul o a b := by
  unfold Gen.mulAssign vmul
  try simp only []
  refine zipLoop_of_body o.mul a b _ _ _ ?hn ?hb ?hk
  case hn => first | rfl | omega
  case hk => intro s; rfl
  case hb => c18_zip_step b

theorem opAdd_bridge (c : Cmp F) (o : FOps F) (a b : List F) : Gen.opAdd c o a b = vadd o a b := by
  unfold Gen.opAdd; rw [addAssign_bridge]; cases vadd o a b <;> rfl
theorem opSub_bridge (c : Cmp F) (o : FOps F) (a b : List F) : Gen.opSub c o a b = vsub o a b := by
  unfold Gen.opSub; rw [subAssign_bridge]; cases vsub o a b <;> rfl
theorem opMul_bridge (c : Cmp F) (o : FOps F) (a b : List F) : Gen.opMul c o a b = vmul o a b := by
  unfold Gen.opMul; rw [mulAssign_bridge]; cases vmul o a b <;> rfl

/-! ### scalar helpers of utility.h -/

theorem roundToS_bridge (c : Cmp F) (o : FOps F) (x : F) : Gen.roundToS c o x = some (roundTo o x) := rfl

theorem issmallS_bridge (c : Cmp F) (o : FOps F) (x : F) : Gen.issmallS c o x = some (issmallSpec c o x) := rfl

theorem isnonnegativeS_bridge (c : Cmp F) (o : FOps F) (x : F) :
    Gen.isnonnegativeS c o x = some (nonnegSpec c o x) := rfl

theorem almostEqualS_bridge (c : Cmp F) (o : FOps F) (x y e : F) :
    Gen.almostEqualS c o x y e = some (aeqSpec c o x y e) := by
  unfold Gen.almostEqualS aeqSpec
  simp only [issmallS_bridge, call_some]
  cases issmallSpec c o (o.abs (o.sub x y)) <;> simp

/-! ### element-wise maps, predicates, distance, joining, printing -/

theorem opDivS_bridge (c : Cmp F) (o : FOps F) (a : List F) (v : F) : Gen.opDivS c o a v = some (vdivS o a v) := by
  simp only [Gen.opDivS, mapO_some, call_some, vdivS]
theorem opMulS_bridge (c : Cmp F) (o : FOps F) (a : List F) (v : F) : Gen.opMulS c o a v = some (vmulS o a v) := by
  simp only [Gen.opMulS, mapO_some, call_some, vmulS]
theorem abs_bridge (c : Cmp F) (o : FOps F) (a : List F) : Gen.abs c o a = some (vabs o a) := by
  simp only [Gen.abs, mapO_some, call_some, vabs]
theorem sqrt_bridge (c : Cmp F) (o : FOps F) (a : List F) : Gen.sqrt c o a = some (vsqrt o a) := by
  simp only [Gen.sqrt, mapO_some, call_some, vsqrt]
theorem roundTo_bridge (c : Cmp F) (o : FOps F) (a : List F) : Gen.roundTo c o a = some (vround o a) := by
  simp only [Gen.roundTo, roundToS_bridge, mapO_some, call_some, vround]

theorem isfinite_bridge (c : Cmp F) (o : FOps F) (a : List F) : Gen.isfinite c o a = some (vfinite o a) := by
  simp only [Gen.isfinite, allOfO_some, anyOfO_some, call_some, vfinite]
theorem isnan_bridge (c : Cmp F) (o : FOps F) (a : List F) : Gen.isnan c o a = some (vnan o a) := by
  simp only [Gen.isnan, allOfO_some, anyOfO_some, call_some, vnan]
theorem issmall_bridge (c : Cmp F) (o : FOps F) (a : List F) : Gen.issmall c o a = some (vsmall c o a) := by
  simp only [Gen.issmall, issmallS_bridge, allOfO_some, anyOfO_some, call_some, vsmall]
theorem isnonnegative_bridge (c : Cmp F) (o : FOps F) (a : List F) :
    Gen.isnonnegative c o a = some (vnonneg c o a) := by
  simp only [Gen.isnonnegative, isnonnegativeS_bridge, allOfO_some, anyOfO_some, call_some, vnonneg]

theorem innerProductO_dist (o : FOps F) (acc : F) (a b : List F) :
    innerProductO o.add (fun x y => some (o.abs (o.sub x y))) acc a b = distLoop o acc a b := by
  induction a generalizing b acc with
  | nil => rfl
  | cons x xs ih => cases b with
    | nil => rfl
    | cons y ys => simp only [innerProductO, distLoop, ih]

/-- one iteration of a hand-written taxicab loop `d += std::fabs(f1[i] - f2[i])` -/
def distStep (o : FOps F) (a b : List F) (i : Nat) (d : F) : Step F F :=
  rd a i fun x => rd b i fun y => .next (o.add d (o.abs (o.sub x y)))

theorem distLoop_canon (o : FOps F) (a b : List F) (acc : F) :
    (forIdx a.length (distStep o a b) acc).andThen (fun d => some d) = distLoop o acc a b := by
  induction a generalizing b acc with
  | nil => simp [distLoop]
  | cons x xs ih =>
    cases b with
    | nil => simp [distLoop, forIdx_succ, distStep]
    | cons y ys =>
      simp only [List.length_cons, forIdx_succ, distStep, rd_cons_zero, rd_cons_succ, distLoop]
      exact ih _ _

theorem distLoop_of_body (o : FOps F) (a b : List F) (n : Nat) (body : Nat → F → Step F F)
    (k : F → Option F) (hn : n = a.length) (hb : ∀ i d, body i d = distStep o a b i d)
    (hk : ∀ d, k d = some d) (acc : F) :
    (forIdx n body acc).andThen k = distLoop o acc a b := by
  have e1 : body = distStep o a b := by funext i d; exact hb i d
  have e2 : k = fun d => some d := by funext d; exact hk d
  subst hn; rw [e1, e2]; exact distLoop_canon o a b acc

theorem distance_bridge (c : Cmp F) (o : FOps F) (a b : List F) : Gen.distance c o a b = distance o a b := by
  first
    | (simp only [Gen.distance, innerProductO_dist, distance, bitsZero]
       cases distLoop o (o.lit 0) a b <;> rfl)
    | (unfold Gen.distance distance
       simp only [bitsZero]
       refine distLoop_of_body o a b _ _ _ ?hn ?hb ?hk _
       case hn => first | rfl | omega
       case hk => intro d; rfl
       case hb =>
         intro i d
         first
           | rfl
           | (simp only [distStep, rd]
              cases a[i]? <;> cases b[i]? <;> rfl))

theorem combine_bridge (c : Cmp F) (o : FOps F) (a b : List F) : Gen.combine c o a b = some (combine a b) := by
  simp only [Gen.combine, combine]

/-- one iteration of `almost_equal` on vectors -/
def aeqStep (c : Cmp F) (o : FOps F) (e : F) (a b : List F) (i : Nat) (_u : Unit) : Step Unit Bool :=
  rd a i fun x => rd b i fun y => if aeqSpec c o x y e then .next () else .ret false

theorem aeqLoop_canon (c : Cmp F) (o : FOps F) (e : F) (a b : List F) :
    (forIdx a.length (aeqStep c o e a b) ()).andThen (fun _ => some true) = vaeq c o e a b := by
  induction a generalizing b with
  | nil => simp [vaeq]
  | cons x xs ih =>
    cases b with
    | nil => simp [vaeq, forIdx_succ, aeqStep]
    | cons y ys =>
      simp only [List.length_cons, forIdx_succ, aeqStep, rd_cons_zero, rd_cons_succ, vaeq]
      cases aeqSpec c o x y e <;>
        simp only [if_true, if_false, andThen_ret, Bool.false_eq_true] <;>
        first | exact ih _ | rfl

theorem aeqLoop_of_body (c : Cmp F) (o : FOps F) (e : F) (a b : List F) (n : Nat)
    (body : Nat → Unit → Step Unit Bool) (k : Unit → Option Bool)
    (hn : n = a.length) (hb : ∀ i u, body i u = aeqStep c o e a b i u) (hk : ∀ u, k u = some true) :
    (forIdx n body ()).andThen k = vaeq c o e a b := by
  have e1 : body = aeqStep c o e a b := by funext i u; exact hb i u
  have e2 : k = fun _ => some true := by funext u; exact hk u
  subst hn; rw [e1, e2]; exact aeqLoop_canon c o e a b

theorem almostEqual_bridge (c : Cmp F) (o : FOps F) (a b : List F) (e : F) :
    Gen.almostEqual c o a b e = vaeq c o e a b := by
  unfold Gen.almostEqual
  simp only [almostEqualS_bridge, call_some]
  refine aeqLoop_of_body c o e a b _ _ _ ?hn ?hb ?hk
  case hn => first | rfl | omega
  case hk => intro u; rfl
  case hb =>
    intro i u
    simp only [aeqStep, rd] <;>
      cases a[i]? <;> cases b[i]? <;> simp only [] <;> (try rfl) <;>
      (rename_i x y; cases aeqSpec c o x y e <;> rfl)

theorem copyInfix_go_false (fmt : F → String) (sep out : String) (x : F) (xs : List F) :
    copyInfix.go fmt sep false (out ++ fmt x) xs = out ++ joinSep sep ((x :: xs).map fmt) := by
  induction xs generalizing out x with
  | nil => simp [copyInfix.go, joinSep]
  | cons y ys ih =>
    simp only [copyInfix.go, Bool.false_eq_true, if_false, List.map_cons, joinSep]
    have := ih (out ++ fmt x ++ sep) y
    simp only [List.map_cons] at this
    rw [this]
    simp only [String.append_assoc]

/-! ### the hand-written specifications, component-wise -/

theorem vzip_get (op : F → F → F) (a b : List F) (h : a.length ≤ b.length) :
    ∃ r, vzip op a b = some r ∧ r.length = a.length ∧
      ∀ i (hi : i < a.length), r[i]? = some (op a[i] (b[i]'(by omega))) := by
  refine ⟨List.zipWith op a b, vzip_eq op a b h, by simp; omega, ?_⟩
  intro i hi
  rw [List.getElem?_eq_getElem (by simp; omega)]
  simp

theorem vaeq_eq (c : Cmp F) (o : FOps F) (e : F) (a b : List F) (h : a.length ≤ b.length) :
    vaeq c o e a b = some ((List.zipWith (fun x y => aeqSpec c o x y e) a b).all id) := by
  induction a generalizing b with
  | nil => simp [vaeq]
  | cons x xs ih =>
    cases b with
    | nil => simp at h
    | cons y ys =>
      have : xs.length ≤ ys.length := by simpa using h
      simp only [vaeq, List.zipWith_cons_cons, List.all_cons, ih ys this, id]
      cases aeqSpec c o x y e <;> simp

theorem vaeq_short (c : Cmp F) (o : FOps F) (e : F) (a b : List F) (h : b.length < a.length) :
    vaeq c o e a b = none ∨ vaeq c o e a b = some false := by
  induction a generalizing b with
  | nil => simp at h
  | cons x xs ih =>
    cases b with
    | nil => left; rfl
    | cons y ys =>
      have : ys.length < xs.length := by simpa using h
      simp only [vaeq]
      split
      · exact ih ys this
      · right; rfl

theorem distLoop_none (o : FOps F) (acc : F) (a b : List F) (h : b.length < a.length) :
    distLoop o acc a b = none := by
  induction a generalizing b acc with
  | nil => simp at h
  | cons x xs ih =>
    cases b with
    | nil => rfl
    | cons y ys =>
      have : ys.length < xs.length := by simpa using h
      simp [distLoop, ih _ ys this]

theorem showFit_bridge (c : Cmp F) (o : FOps F) (fmt : F → String) (f : List F) :
    Gen.showFit c o fmt f = some (showSpec fmt f) := by
  simp only [Gen.showFit, showSpec, copyInfix]
  cases f with
  | nil => simp [copyInfix.go, joinSep]
  | cons x xs =>
    simp only [copyInfix.go, if_true]
    rw [copyInfix_go_false]
    simp

end
end Vita.C18
