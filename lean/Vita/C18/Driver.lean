/-
  C18 line-protocol driver.  Doubles travel as decimal 64-bit patterns.
    rel <n> a… <m> b…            -> r <lt><eq><gt><ge><le><ne><dom a b><dom b a>   | nan | fault
    mm <n> a… accA <m> b… accB   -> r <0|1>                                        | nan | fault
    add|sub|mul <n> a… <m> b…    -> v <k> bits…                                    | fault
    divs|muls <n> a… v           -> v <k> bits…
    abs|sqrt|round <n> a…        -> v <k> bits…
    combine <n> a… <m> b…        -> v <k> bits…
    dist <n> a… <m> b…           -> s bits                                         | fault
    aeq <n> a… <m> b… e          -> r <0|1>                                        | fault
    isfinite|isnan|issmall|isnonneg <n> a…   -> r <0|1>
    show <n> a…                  -> t (#bits, #bits, …)     (`#bits` stands for `os << double`)
    table                        -> the translated functions
  Every answer is computed by the GENERATED bodies (GenOps.lean): comparisons with
  `keyCmp dkey` (vectors that contain a NaN are outside the property: `nan`), everything else
  with the hardware comparisons / arithmetic.  Every NaN result is printed as `nan`.
-/
import Vita.C18.Model
import Vita.C18.GenOps
open Vita.C18

def takeVec : List UInt64 → Option (List UInt64 × List UInt64)
  | [] => none
  | n :: rest =>
    let k := n.toNat
    if rest.length < k then none else some (rest.take k, rest.drop k)

def b2c (b : Bool) : String := if b then "1" else "0"

def showF (x : Float) : String := if x.isNaN then "nan" else toString x.toBits.toNat

def showVec (v : List Float) : String :=
  "v " ++ toString v.length ++ (v.foldl (fun s x => s ++ " " ++ showF x) "")

def fl (v : List UInt64) : List Float := v.map Float.ofBits

def kc : Cmp UInt64 := keyCmp dkey (fun a b => a == b)
/-- the arithmetic is irrelevant for the comparison code (and must be: the laws hold for every `FOps`) -/
def ko : FOps UInt64 :=
  { add := fun a _ => a, sub := fun a _ => a, mul := fun a _ => a, div := fun a _ => a, abs := id, sqrt := id,
    round := id, isfinite := fun _ => true, isnan := isNaNBits, lit := id }

def showB : Option Bool → String
  | some b => b2c b
  | none => "f"

def showOV : Option (List Float) → String
  | some r => showVec r
  | none => "fault"

def answer (line : String) : String :=
  match line.trimAscii.toString.splitOn " " with
  | "table" :: _ => "; ".intercalate (Gen.functions.map (fun p => p.1 ++ " := " ++ p.2))
  | cmd :: rest =>
    match rest.mapM (fun t => t.toNat?.bind (fun n => if n < 18446744073709551616 then some (UInt64.ofNat n) else none)) with
    | none => "bad-op"
    | some xs =>
      match cmd with
      | "rel" =>
        match takeVec xs with
        | some (a, r1) =>
          match takeVec r1 with
          | some (b, []) =>
            if (a ++ b).any isNaNBits then "nan" else
            let r := showB (Gen.opLt kc ko a b) ++ showB (Gen.opEq kc ko a b) ++ showB (Gen.opGt kc ko a b)
              ++ showB (Gen.opGe kc ko a b) ++ showB (Gen.opLe kc ko a b) ++ showB (Gen.opNe kc ko a b)
              ++ showB (Gen.dominating kc ko a b) ++ showB (Gen.dominating kc ko b a)
            if r.contains 'f' then "fault " ++ r else "r " ++ r
          | _ => "bad-op"
        | none => "bad-op"
      | "mm" =>
        match takeVec xs with
        | some (a, accA :: r1) =>
          match takeVec r1 with
          | some (b, [accB]) =>
            if (accA :: accB :: a ++ b).any isNaNBits then "nan" else
            match Gen.mmGe kc ko ⟨a, accA⟩ ⟨b, accB⟩ with
            | some r => "r " ++ b2c r
            | none => "fault"
          | _ => "bad-op"
        | _ => "bad-op"
      | "add" | "sub" | "mul" | "combine" | "dist" =>
        match takeVec xs with
        | some (a, r1) =>
          match takeVec r1 with
          | some (b, []) =>
            let fa := fl a
            let fb := fl b
            match cmd with
            | "add" => showOV (Gen.opAdd floatCmp floatOps fa fb)
            | "sub" => showOV (Gen.opSub floatCmp floatOps fa fb)
            | "mul" => showOV (Gen.opMul floatCmp floatOps fa fb)
            | "combine" => showOV (Gen.combine floatCmp floatOps fa fb)
            | _ => match Gen.distance floatCmp floatOps fa fb with | some r => "s " ++ showF r | none => "fault"
          | _ => "bad-op"
        | none => "bad-op"
      | "divs" | "muls" =>
        match takeVec xs with
        | some (a, [v]) =>
          if cmd == "divs" then showOV (Gen.opDivS floatCmp floatOps (fl a) (Float.ofBits v))
          else showOV (Gen.opMulS floatCmp floatOps (fl a) (Float.ofBits v))
        | _ => "bad-op"
      | "abs" | "sqrt" | "round" =>
        match takeVec xs with
        | some (a, []) =>
          if cmd == "abs" then showOV (Gen.abs floatCmp floatOps (fl a))
          else if cmd == "sqrt" then showOV (Gen.sqrt floatCmp floatOps (fl a))
          else showOV (Gen.roundTo floatCmp floatOps (fl a))
        | _ => "bad-op"
      | "aeq" =>
        match takeVec xs with
        | some (a, r1) =>
          match takeVec r1 with
          | some (b, [e]) =>
            match Gen.almostEqual floatCmp floatOps (fl a) (fl b) (Float.ofBits e) with
            | some r => "r " ++ b2c r
            | none => "fault"
          | _ => "bad-op"
        | none => "bad-op"
      | "isfinite" | "isnan" | "issmall" | "isnonneg" =>
        match takeVec xs with
        | some (a, []) =>
          let r := if cmd == "isfinite" then Gen.isfinite floatCmp floatOps (fl a)
            else if cmd == "isnan" then Gen.isnan floatCmp floatOps (fl a)
            else if cmd == "issmall" then Gen.issmall floatCmp floatOps (fl a)
            else Gen.isnonnegative floatCmp floatOps (fl a)
          match r with
          | some r => "r " ++ b2c r
          | none => "fault"
        | _ => "bad-op"
      | "show" =>
        match takeVec xs with
        | some (a, []) =>
          -- on the patterns themselves (`Float.toBits` would canonicalise the sign of a NaN)
          match Gen.showFit kc ko (fun x => "#" ++ toString x.toNat) a with
          | some r => "t " ++ r
          | none => "fault"
        | _ => "bad-op"
      | _ => "bad-op"
  | _ => "bad-op"

partial def loop (h : IO.FS.Stream) (out : IO.FS.Stream) : IO Unit := do
  let line ← h.getLine
  if line.isEmpty then return ()
  out.putStrLn (answer line)
  loop h out

def main : IO Unit := do
  loop (← IO.getStdin) (← IO.getStdout)
