/-
  C18 line-protocol driver.  Doubles travel as decimal 64-bit patterns.
    rel <n> a… <m> b…            -> r <lt><eq><gt><ge><le><ne><dom a b><dom b a>   | nan
    mm <n> a… accA <m> b… accB   -> r <0|1>                                        | nan
    add|sub|mul <n> a… <m> b…    -> v <k> bits…                                    | fault
    divs|muls <n> a… v           -> v <k> bits…
    abs|sqrt|round <n> a…        -> v <k> bits…
    combine <n> a… <m> b…        -> v <k> bits…
    dist <n> a… <m> b…           -> s bits                                         | fault
    table                        -> the derivation table extracted from the AST
  Comparisons use the GENERATED operator definitions with `key := dkey`; vectors that
  contain a NaN are outside the property (`nan`).  Every NaN result is printed as `nan`.
-/
import Vita.C18.Model
import Vita.C18.GenOps
open Vita.C18

def takeVec : List UInt64 → Option (List UInt64 × List UInt64)
  | [] => none
  | n :: rest =>
    let k := n.toNat
    if rest.length < k then none else some (rest.take k, rest.drop k)

def b2c (b : Bool) : String := if b then "1" else "0"

def showF (x : Float) : String := if x.isNaN then "nan" else toString x.toBits.toNat

def showVec (v : List Float) : String :=
  "v " ++ toString v.length ++ (v.foldl (fun s x => s ++ " " ++ showF x) "")

def fl (v : List UInt64) : List Float := v.map Float.ofBits

def answer (line : String) : String :=
  match line.trimAscii.toString.splitOn " " with
  | "table" :: _ => "; ".intercalate (Gen.table.map (fun p => p.1 ++ " := " ++ p.2))
  | cmd :: rest =>
    match rest.mapM (fun t => t.toNat?.bind (fun n => if n < 18446744073709551616 then some (UInt64.ofNat n) else none)) with
    | none => "bad-op"
    | some xs =>
      match cmd with
      | "rel" =>
        match takeVec xs with
        | some (a, r1) =>
          match takeVec r1 with
          | some (b, []) =>
            if (a ++ b).any isNaNBits then "nan" else
            "r " ++ b2c (Gen.opLt dkey a b) ++ b2c (Gen.opEq dkey a b) ++ b2c (Gen.opGt dkey a b)
              ++ b2c (Gen.opGe dkey a b) ++ b2c (Gen.opLe dkey a b) ++ b2c (Gen.opNe dkey a b)
              ++ b2c (dominating dkey a b) ++ b2c (dominating dkey b a)
          | _ => "bad-op"
        | none => "bad-op"
      | "mm" =>
        match takeVec xs with
        | some (a, accA :: r1) =>
          match takeVec r1 with
          | some (b, [accB]) =>
            if (accA :: accB :: a ++ b).any isNaNBits then "nan" else
            "r " ++ b2c (Gen.mmGe dkey ⟨a, accA⟩ ⟨b, accB⟩)
          | _ => "bad-op"
        | _ => "bad-op"
      | "add" | "sub" | "mul" | "combine" | "dist" =>
        match takeVec xs with
        | some (a, r1) =>
          match takeVec r1 with
          | some (b, []) =>
            let fa := fl a
            let fb := fl b
            match cmd with
            | "add" => match vadd floatOps fa fb with | some r => showVec r | none => "fault"
            | "sub" => match vsub floatOps fa fb with | some r => showVec r | none => "fault"
            | "mul" => match vmul floatOps fa fb with | some r => showVec r | none => "fault"
            | "combine" => showVec (combine fa fb)
            | _ => match distance floatOps fa fb with | some r => "s " ++ showF r | none => "fault"
          | _ => "bad-op"
        | none => "bad-op"
      | "divs" | "muls" =>
        match takeVec xs with
        | some (a, [v]) =>
          if cmd == "divs" then showVec (vdivS floatOps (fl a) (Float.ofBits v))
          else showVec (vmulS floatOps (fl a) (Float.ofBits v))
        | _ => "bad-op"
      | "abs" | "sqrt" | "round" =>
        match takeVec xs with
        | some (a, []) =>
          if cmd == "abs" then showVec (vabs floatOps (fl a))
          else if cmd == "sqrt" then showVec (vsqrt floatOps (fl a))
          else showVec (vround floatOps (fl a))
        | _ => "bad-op"
      | _ => "bad-op"
  | _ => "bad-op"

partial def loop (h : IO.FS.Stream) (out : IO.FS.Stream) : IO Unit := do
  let line ← h.getLine
  if line.isEmpty then return ()
  out.putStrLn (answer line)
  loop h out

def main : IO Unit := do
  loop (← IO.getStdin) (← IO.getStdout)
