/-
  C18 — helper lemmas about the hand-written model (independent of the generated
  derivation table): the library algorithms against the three-way specification
  `lexCmp`, order properties of `lexCmp`, characterisation of `dominating`.
-/
import Vita.C18.Model
namespace Vita.C18

section
variable {α : Type} (key : α → Int)

/-! ### the algorithms against `lexCmp` -/

theorem lexLt_eq_cmp (a b : List α) : lexLt key a b = (lexCmp key a b == .lt) := by
  induction a generalizing b with
  | nil => cases b <;> rfl
  | cons x xs ih =>
    cases b with
    | nil => rfl
    | cons y ys =>
      simp only [lexLt, lexCmp, slt]
      by_cases h1 : key x < key y
      · simp [h1]
      · by_cases h2 : key y < key x
        · simp [h1, h2]
        · simp [h1, h2, ih]

theorem lexCmp_swap (a b : List α) : lexCmp key b a = (lexCmp key a b).swap := by
  induction a generalizing b with
  | nil => cases b <;> rfl
  | cons x xs ih =>
    cases b with
    | nil => rfl
    | cons y ys =>
      simp only [lexCmp]
      by_cases h1 : key x < key y
      · have : ¬ key y < key x := by omega
        simp [h1, this]
      · by_cases h2 : key y < key x
        · simp [h1, h2]
        · simp [h1, h2, ih]

theorem lexCmp_eq_iff (a b : List α) : lexCmp key a b = .eq ↔ a.map key = b.map key := by
  induction a generalizing b with
  | nil => cases b <;> simp [lexCmp]
  | cons x xs ih =>
    cases b with
    | nil => simp [lexCmp]
    | cons y ys =>
      simp only [lexCmp, List.map_cons, List.cons.injEq]
      by_cases h1 : key x < key y
      · simp [h1]; omega
      · by_cases h2 : key y < key x
        · simp [h1, h2]; omega
        · simp only [h1, h2, if_false, ih]
          constructor
          · intro h; exact ⟨by omega, h⟩
          · intro h; exact h.2

theorem equal3_eq_cmp (a b : List α) (h : a.length = b.length) :
    equal3 key a b = (lexCmp key a b == .eq) := by
  induction a generalizing b with
  | nil => cases b with
    | nil => rfl
    | cons y ys => simp at h
  | cons x xs ih =>
    cases b with
    | nil => simp at h
    | cons y ys =>
      have hl : xs.length = ys.length := by simpa using h
      simp only [equal3, lexCmp, seq]
      by_cases h1 : key x < key y
      · have : ¬ key x = key y := by omega
        simp [h1, this]
      · by_cases h2 : key y < key x
        · have : ¬ key x = key y := by omega
          simp [h1, h2, this]
        · have : key x = key y := by omega
          simp [this, ih ys hl]

theorem lexCmp_eq_length (a b : List α) (h : lexCmp key a b = .eq) : a.length = b.length := by
  have := (lexCmp_eq_iff key a b).1 h
  have h2 := congrArg List.length this
  simpa using h2

theorem equal4_eq_cmp (a b : List α) : equal4 key a b = (lexCmp key a b == .eq) := by
  unfold equal4
  by_cases h : a.length = b.length
  · simp [h, equal3_eq_cmp key a b h]
  · have : lexCmp key a b ≠ .eq := fun he => h (lexCmp_eq_length key a b he)
    have h' : (a.length == b.length) = false := by simp [h]
    rw [h', Bool.false_and]
    cases hc : lexCmp key a b <;> simp_all

/-- the `size() == size() && std::equal(b, e, b2)` idiom -/
theorem equal3_guarded (a b : List α) :
    (decide (a.length = b.length) && equal3 key a b) = (lexCmp key a b == .eq) := by
  have := equal4_eq_cmp key a b
  unfold equal4 at this
  rw [← this]
  by_cases h : a.length = b.length <;> simp [h]

/-! ### `lexCmp` is a total preorder comparison -/

theorem lexCmp_refl (a : List α) : lexCmp key a a = .eq :=
  (lexCmp_eq_iff key a a).2 rfl

theorem lexCmp_lt_trans (a b c : List α) :
    lexCmp key a b = .lt → lexCmp key b c = .lt → lexCmp key a c = .lt := by
  induction a generalizing b c with
  | nil =>
    cases b with
    | nil => simp [lexCmp]
    | cons y ys => cases c <;> simp [lexCmp]
  | cons x xs ih =>
    cases b with
    | nil => simp [lexCmp]
    | cons y ys =>
      cases c with
      | nil =>
        simp only [lexCmp]
        intro _ h2
        simp at h2
      | cons z zs =>
        simp only [lexCmp]
        intro h1 h2
        by_cases a1 : key x < key y
        · by_cases b1 : key y < key z
          · have : key x < key z := by omega
            simp [this]
          · by_cases b2 : key z < key y
            · simp [b1, b2] at h2
            · have : key x < key z := by omega
              simp [this]
        · by_cases a2 : key y < key x
          · simp [a1, a2] at h1
          · simp only [a1, a2, if_false] at h1
            by_cases b1 : key y < key z
            · have : key x < key z := by omega
              simp [this]
            · by_cases b2 : key z < key y
              · simp [b1, b2] at h2
              · simp only [b1, b2, if_false] at h2
                have c1 : ¬ key x < key z := by omega
                have c2 : ¬ key z < key x := by omega
                simp only [c1, c2, if_false]
                exact ih ys zs h1 h2

/-- `==` is a congruence for the order (left operand). -/
theorem lexCmp_congr_left (a a' b : List α) (h : lexCmp key a a' = .eq) :
    lexCmp key a b = lexCmp key a' b := by
  have hk := (lexCmp_eq_iff key a a').1 h
  clear h
  induction a generalizing a' b with
  | nil =>
    cases a' with
    | nil => rfl
    | cons _ _ => simp at hk
  | cons x xs ih =>
    cases a' with
    | nil => simp at hk
    | cons x' xs' =>
      simp only [List.map_cons, List.cons.injEq] at hk
      cases b with
      | nil => rfl
      | cons y ys =>
        simp only [lexCmp, hk.1]
        rw [ih xs' ys hk.2]

theorem lexCmp_congr_right (a b b' : List α) (h : lexCmp key b b' = .eq) :
    lexCmp key a b = lexCmp key a b' := by
  have := lexCmp_congr_left key b b' a h
  rw [lexCmp_swap key a b, lexCmp_swap key a b'] at this
  -- swap is injective
  revert this
  cases lexCmp key a b <;> cases lexCmp key a b' <;> simp [Ordering.swap]

theorem lexCmp_eq_trans (a b c : List α) :
    lexCmp key a b = .eq → lexCmp key b c = .eq → lexCmp key a c = .eq := by
  intro h1 h2
  rw [lexCmp_congr_left key a b c h1]; exact h2

/-- negative transitivity: `a < c` implies `a < b` or `b < c`. -/
theorem lexCmp_lt_cases (a b c : List α) (h : lexCmp key a c = .lt) :
    lexCmp key a b = .lt ∨ lexCmp key b c = .lt := by
  cases hab : lexCmp key a b with
  | lt => exact Or.inl rfl
  | eq => right; rw [← lexCmp_congr_left key a b c hab]; exact h
  | gt =>
    right
    have hba : lexCmp key b a = .lt := by rw [lexCmp_swap key a b, hab]; rfl
    exact lexCmp_lt_trans key b a c hba h

/-! ### selection by repeated comparison -/

/-- the fold of `winner` returns a member that no member beats. -/
theorem foldl_best (xs : List (List α)) (x : List α) :
    let r := xs.foldl (fun best y => if lexCmp key y best == .gt then y else best) x
    r ∈ x :: xs ∧ ∀ y ∈ x :: xs, lexCmp key y r ≠ .gt := by
  induction xs generalizing x with
  | nil =>
    simp only [List.foldl_nil, List.mem_singleton, true_and]
    intro y hy; subst hy; rw [lexCmp_refl]; simp
  | cons z zs ih =>
    simp only [List.foldl_cons]
    by_cases hz : lexCmp key z x = .gt
    · simp only [hz, beq_self_eq_true, if_true]
      have := ih z
      refine ⟨?_, ?_⟩
      · have h1 := this.1
        simp only [List.mem_cons] at h1 ⊢
        rcases h1 with h | h
        · exact Or.inr (Or.inl h)
        · exact Or.inr (Or.inr h)
      · intro y hy
        simp only [List.mem_cons] at hy
        rcases hy with h | h | h
        · -- y = x, x < z ≤ r
          subst h
          intro hgt
          have hzr := this.2 z (by simp)
          -- r < y and y < z  ⇒ r < z ⇒ z > r, contradiction
          generalize List.foldl _ z zs = r at *
          have h1 : lexCmp key r y = .lt := by rw [lexCmp_swap key y r, hgt]; rfl
          have h2 : lexCmp key y z = .lt := by rw [lexCmp_swap key z y, hz]; rfl
          have h3 := lexCmp_lt_trans key r y z h1 h2
          apply hzr
          rw [lexCmp_swap key r z, h3]; rfl
        · exact this.2 y (by simp [h])
        · exact this.2 y (by simp [h])
    · have hz' : (lexCmp key z x == Ordering.gt) = false := by
        cases h : lexCmp key z x <;> simp_all
      simp only [hz', Bool.false_eq_true, if_false]
      have := ih x
      refine ⟨?_, ?_⟩
      · have h1 := this.1
        simp only [List.mem_cons] at h1 ⊢
        rcases h1 with h | h
        · exact Or.inl h
        · exact Or.inr (Or.inr h)
      · intro y hy
        simp only [List.mem_cons] at hy
        rcases hy with h | h | h
        · exact this.2 y (by simp [h])
        · -- y = z, z ≤ x ≤ r
          subst h
          intro hgt
          have hxr := this.2 x (by simp)
          generalize List.foldl _ x zs = r at *
          have h1 : lexCmp key r y = .lt := by rw [lexCmp_swap key y r, hgt]; rfl
          rcases lexCmp_lt_cases key r x y h1 with h | h
          · apply hxr; rw [lexCmp_swap key r x, h]; rfl
          · apply hz; rw [lexCmp_swap key x y, h]; rfl
        · exact this.2 y (by simp [h])

/-! ### dominance -/

/-- every component of `a` is at least the corresponding component of `b` -/
def allGe : List α → List α → Prop
  | a :: as, b :: bs => key b ≤ key a ∧ allGe as bs
  | _, _ => True

/-- some component of `a` is strictly greater than the corresponding component of `b` -/
def exGt : List α → List α → Prop
  | a :: as, b :: bs => key b < key a ∨ exGt as bs
  | _, _ => False

theorem domLoop_iff (a b : List α) (ob : Bool) :
    domLoop key a b ob = true ↔ allGe key a b ∧ (ob = true ∨ exGt key a b) := by
  induction a generalizing b ob with
  | nil => simp [domLoop, allGe, exGt]
  | cons x xs ih =>
    cases b with
    | nil => simp [domLoop, allGe, exGt]
    | cons y ys =>
      simp only [domLoop, sgt, slt, allGe, exGt]
      by_cases h1 : key y < key x
      · simp only [h1, decide_true, if_true, ih]
        constructor
        · intro h; exact ⟨⟨by omega, h.1⟩, Or.inr (Or.inl trivial)⟩
        · intro h; exact ⟨h.1.2, Or.inl trivial⟩
      · by_cases h2 : key x < key y
        · simp [h1, h2]; omega
        · simp only [h1, h2, decide_false, Bool.false_eq_true, if_false, ih, false_or]
          constructor
          · intro h; exact ⟨⟨by omega, h.1⟩, h.2⟩
          · intro h; exact ⟨h.1.2, h.2⟩

theorem allGe_refl_not_exGt (a : List α) : ¬ exGt key a a := by
  induction a with
  | nil => simp [exGt]
  | cons x xs ih => simp [exGt, ih]

theorem allGe_trans (a b c : List α) (h1 : a.length = b.length) (h2 : b.length = c.length) :
    allGe key a b → allGe key b c → allGe key a c := by
  induction a generalizing b c with
  | nil => simp [allGe]
  | cons x xs ih =>
    cases b with
    | nil => simp at h1
    | cons y ys =>
      cases c with
      | nil => simp at h2
      | cons z zs =>
        simp only [allGe]
        intro ⟨p, q⟩ ⟨r, s⟩
        exact ⟨by omega, ih ys zs (by simpa using h1) (by simpa using h2) q s⟩

theorem exGt_trans_left (a b c : List α) (h1 : a.length = b.length) (h2 : b.length = c.length) :
    exGt key a b → allGe key a b → allGe key b c → exGt key a c := by
  induction a generalizing b c with
  | nil => simp [exGt]
  | cons x xs ih =>
    cases b with
    | nil => simp at h1
    | cons y ys =>
      cases c with
      | nil => simp at h2
      | cons z zs =>
        simp only [allGe, exGt]
        intro e ⟨p, q⟩ ⟨r, s⟩
        rcases e with e | e
        · left; omega
        · right; exact ih ys zs (by simpa using h1) (by simpa using h2) e q s

theorem exGt_trans_right (a b c : List α) (h1 : a.length = b.length) (h2 : b.length = c.length) :
    allGe key a b → exGt key b c → allGe key b c → exGt key a c := by
  induction a generalizing b c with
  | nil =>
    cases b with
    | nil => simp [exGt]
    | cons _ _ => simp at h1
  | cons x xs ih =>
    cases b with
    | nil => simp at h1
    | cons y ys =>
      cases c with
      | nil => simp at h2
      | cons z zs =>
        simp only [allGe, exGt]
        intro ⟨p, q⟩ e ⟨r, s⟩
        rcases e with e | e
        · left; omega
        · right; exact ih ys zs (by simpa using h1) (by simpa using h2) q e s

theorem allGe_antisymm_no_exGt (a b : List α) (h : a.length = b.length) :
    allGe key a b → allGe key b a → ¬ exGt key a b := by
  induction a generalizing b with
  | nil => simp [exGt]
  | cons x xs ih =>
    cases b with
    | nil => simp at h
    | cons y ys =>
      simp only [allGe, exGt]
      intro ⟨p, q⟩ ⟨r, s⟩ e
      rcases e with e | e
      · omega
      · exact ih ys (by simpa using h) q s e

theorem dom_lexCmp (a b : List α) (h : a.length = b.length) :
    allGe key a b → exGt key a b → lexCmp key a b = .gt := by
  induction a generalizing b with
  | nil => simp [exGt]
  | cons x xs ih =>
    cases b with
    | nil => simp at h
    | cons y ys =>
      simp only [allGe, exGt, lexCmp]
      intro ⟨p, q⟩ e
      by_cases h2 : key y < key x
      · have : ¬ key x < key y := by omega
        simp [this, h2]
      · have h1 : ¬ key x < key y := by omega
        simp only [h1, h2, if_false]
        rcases e with e | e
        · omega
        · exact ih ys (by simpa using h) q e

/-! ### element-wise operations -/

variable {F : Type}

theorem vzip_eq (op : F → F → F) (a b : List F) (h : a.length ≤ b.length) :
    vzip op a b = some (List.zipWith op a b) := by
  induction a generalizing b with
  | nil => simp [vzip]
  | cons x xs ih =>
    cases b with
    | nil => simp at h
    | cons y ys =>
      have : xs.length ≤ ys.length := by simpa using h
      simp [vzip, ih ys this]

theorem vzip_none (op : F → F → F) (a b : List F) (h : b.length < a.length) :
    vzip op a b = none := by
  induction a generalizing b with
  | nil => simp at h
  | cons x xs ih =>
    cases b with
    | nil => simp [vzip]
    | cons y ys =>
      have : ys.length < xs.length := by simpa using h
      simp [vzip, ih ys this]

theorem distLoop_eq (o : FOps F) (acc : F) (a b : List F) (h : a.length ≤ b.length) :
    distLoop o acc a b =
      some ((List.zipWith (fun x y => o.abs (o.sub x y)) a b).foldl o.add acc) := by
  induction a generalizing b acc with
  | nil => simp [distLoop]
  | cons x xs ih =>
    cases b with
    | nil => simp at h
    | cons y ys =>
      have : xs.length ≤ ys.length := by simpa using h
      simp [distLoop, ih _ ys this]

end
end Vita.C18
