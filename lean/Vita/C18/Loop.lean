/-
  C18 — the tiny loop language of the generated bodies (`GenOps.lean`).

  `tools/translate_fitness_ops.py` turns the clang AST of every function of fitness.tcc
  (and of the scalar helpers of utility.h, and of `model_measurements::operator>=`) into
  a Lean term built from the combinators below and from nothing else; their meaning is
  defined HERE, once:

  * a function body denotes an `Option ρ`: `some r` = `return r;`, `none` = a contract of
    the code was violated on the way (`Expects(i < size())` of `operator[]`, a library
    algorithm reading past the end of its second range) — undefined behaviour in the
    shipped (NDEBUG) configuration;
  * `rd v i k`      the read `v[i]` of a fitness vector (contract `i < size()`);
  * `wr v i x k`    the write `v[i] = x` through `T &operator[](i)`;
  * `call r k`      a call of another translated function;
  * `forIdx n body s`   `for (std::size_t i(0); i < n; ++i) body` where `s` are the locals the
                    body assigns; an iteration either falls through with new locals
                    (`Step.next`), leaves the function (`Step.ret`) or faults;
  * `Step.andThen`  the statements after the loop;
  * the library algorithms the code calls, as specified by the C++ standard / written in
    libstdc++: `lexLtC` (`std::lexicographical_compare`), `equal4C`/`equal3C` (`std::equal`),
    `allOfO`/`anyOfO`, `mapO` (range-`for` over `auto &`), `innerProductO`, `stdMax`,
    `memEqO` (`std::memcmp(…) == 0`), `copyInfix` (`std::copy` into vita's `infix_iterator`).
-/
import Vita.C18.Model
namespace Vita.C18

/-- what one iteration of a loop body does -/
inductive Step (σ ρ : Type) where
  | fault
  | ret (r : ρ)
  | next (s : σ)

class Faulty (τ : Type) where
  fault : τ

instance {ρ : Type} : Faulty (Option ρ) := ⟨none⟩
instance {σ ρ : Type} : Faulty (Step σ ρ) := ⟨.fault⟩

section
variable {F τ : Type} [Faulty τ]

/-- `v[i]` (`T basic_fitness_t::operator[](std::size_t) const`, contract `i < size()`) -/
def rd (v : List F) (i : Nat) (k : F → τ) : τ :=
  match v[i]? with
  | some x => k x
  | none => Faulty.fault

/-- `v[i] = x` through `T &basic_fitness_t::operator[](std::size_t)` (same contract) -/
def wr (v : List F) (i : Nat) (x : F) (k : List F → τ) : τ :=
  if i < v.length then k (v.set i x) else Faulty.fault

/-- a call of another translated function: its fault is ours -/
def call {ρ' : Type} (r : Option ρ') (k : ρ' → τ) : τ :=
  match r with
  | some x => k x
  | none => Faulty.fault

end

section
variable {σ ρ : Type}

def forIdx.go (body : Nat → σ → Step σ ρ) : Nat → Nat → σ → Step σ ρ
  | 0, _, s => .next s
  | k + 1, i, s =>
    match body i s with
    | .next s' => forIdx.go body k (i + 1) s'
    | .ret r => .ret r
    | .fault => .fault

/-- `for (std::size_t i(0); i < n; ++i) body` (the bound does not change while the loop runs:
    the only mutation of a vector is `wr`, which keeps its length) -/
def forIdx (n : Nat) (body : Nat → σ → Step σ ρ) (s : σ) : Step σ ρ := forIdx.go body n 0 s

/-- the statements after a loop -/
def Step.andThen (st : Step σ ρ) (k : σ → Option ρ) : Option ρ :=
  match st with
  | .fault => none
  | .ret r => some r
  | .next s => k s

/-- renaming of the locals (used by the lemmas only) -/
def Step.mapS {σ' : Type} (g : σ → σ') : Step σ ρ → Step σ' ρ
  | .fault => .fault
  | .ret r => .ret r
  | .next s => .next (g s)

end

/-! ### library algorithms -/

section
variable {F : Type}

/-- `std::lexicographical_compare(f1, l1, f2, l2)` (libstdc++: walk both ranges while
    neither is exhausted; `*f1 < *f2` → true, `*f2 < *f1` → false; at the end
    `f1 == l1 && f2 != l2`). -/
def lexLtC (c : Cmp F) : List F → List F → Bool
  | [], [] => false
  | [], _ :: _ => true
  | _ :: _, [] => false
  | a :: as, b :: bs =>
    if c.lt a b then true else if c.lt b a then false else lexLtC c as bs

/-- three-iterator `std::equal(f1, l1, f2)`: element-wise `==` over the first range; the
    second range must not be shorter. -/
def equal3C (c : Cmp F) : List F → List F → Option Bool
  | [], _ => some true
  | _ :: _, [] => none
  | a :: as, b :: bs => if c.eq a b then equal3C c as bs else some false

/-- four-iterator `std::equal` on random-access iterators: distances first. -/
def equal4C (c : Cmp F) (a b : List F) : Bool :=
  a.length == b.length && (equal3C c a b).getD false

/-- `std::all_of(first, last, p)`: stops at the first element that fails `p` -/
def allOfO (p : F → Option Bool) : List F → Option Bool
  | [] => some true
  | x :: xs =>
    match p x with
    | none => none
    | some false => some false
    | some true => allOfO p xs

/-- `std::any_of(first, last, p)`: stops at the first element that satisfies `p` -/
def anyOfO (p : F → Option Bool) : List F → Option Bool
  | [] => some false
  | x :: xs =>
    match p x with
    | none => none
    | some true => some true
    | some false => anyOfO p xs

/-- `for (auto &x : v) x = g(x);` — the body reads and assigns only the element -/
def mapO (g : F → Option F) : List F → Option (List F)
  | [] => some []
  | x :: xs =>
    match g x with
    | none => none
    | some y => (mapO g xs).map (y :: ·)

/-- `std::inner_product(f1, l1, f2, init, plus, prod)`:
    `for (; f1 != l1; ++f1, ++f2) init = plus(init, prod(*f1, *f2));` — the second range must
    not be shorter than the first. -/
def innerProductO (plus : F → F → F) (prod : F → F → Option F) (init : F) : List F → List F → Option F
  | [], _ => some init
  | _ :: _, [] => none
  | x :: xs, y :: ys =>
    match prod x y with
    | none => none
    | some p => innerProductO plus prod (plus init p) xs ys

/-- `std::memcmp(std::begin(a), std::begin(b), n * sizeof(T)) == 0`: the first `n` objects have
    the same representation; both arrays must hold `n` objects. -/
def memEqO (c : Cmp F) (a b : List F) (n : Nat) : Option Bool :=
  if n ≤ a.length ∧ n ≤ b.length then
    some ((List.zipWith c.same (a.take n) (b.take n)).all id)
  else none

/-- `std::copy(first, last, infix_iterator<T>(o, sep))` of utility.h: every element is written
    with `o << item`, preceded by the separator unless it is the first one. -/
def copyInfix.go (fmt : F → String) (sep : String) : Bool → String → List F → String
  | _, out, [] => out
  | first, out, x :: xs =>
    copyInfix.go fmt sep false ((if first then out else out ++ sep) ++ fmt x) xs

def copyInfix (fmt : F → String) (out : String) (v : List F) (sep : String) : String :=
  copyInfix.go fmt sep true out v

end

/-! ### lemmas about the combinators (used by `Bridge.lean`) -/

section
variable {F τ : Type} [Faulty τ]

@[simp] theorem rd_nil (i : Nat) (k : F → τ) : rd ([] : List F) i k = Faulty.fault := by
  simp [rd]
@[simp] theorem rd_cons_zero (x : F) (xs : List F) (k : F → τ) : rd (x :: xs) 0 k = k x := by
  simp [rd]
@[simp] theorem rd_cons_succ (x : F) (xs : List F) (j : Nat) (k : F → τ) :
    rd (x :: xs) (j + 1) k = rd xs j k := by
  simp [rd]

@[simp] theorem wr_nil (i : Nat) (y : F) (k : List F → τ) : wr ([] : List F) i y k = Faulty.fault := by
  simp [wr]
@[simp] theorem wr_cons_zero (x y : F) (xs : List F) (k : List F → τ) :
    wr (x :: xs) 0 y k = k (y :: xs) := by
  simp [wr]
@[simp] theorem wr_cons_succ (x y : F) (xs : List F) (j : Nat) (k : List F → τ) :
    wr (x :: xs) (j + 1) y k = wr xs j y (fun v => k (x :: v)) := by
  simp [wr]

@[simp] theorem call_some {ρ' : Type} (x : ρ') (k : ρ' → τ) : call (some x) k = k x := rfl
@[simp] theorem call_none {ρ' : Type} (k : ρ' → τ) : call (none : Option ρ') k = Faulty.fault := rfl

end

section
variable {σ ρ : Type}

@[simp] theorem fault_option : (Faulty.fault : Option ρ) = none := rfl
@[simp] theorem fault_step : (Faulty.fault : Step σ ρ) = .fault := rfl

@[simp] theorem andThen_fault (k : σ → Option ρ) : (Step.fault : Step σ ρ).andThen k = none := rfl
@[simp] theorem andThen_ret (r : ρ) (k : σ → Option ρ) : (Step.ret r : Step σ ρ).andThen k = some r := rfl
@[simp] theorem andThen_next (s : σ) (k : σ → Option ρ) : (Step.next s : Step σ ρ).andThen k = k s := rfl

theorem forIdx.go_shift (body : Nat → σ → Step σ ρ) (k i : Nat) (s : σ) :
    forIdx.go body k i s = forIdx.go (fun j => body (j + i)) k 0 s := by
  induction k generalizing i s body with
  | zero => rfl
  | succ k ih =>
    simp only [forIdx.go, Nat.zero_add]
    cases body i s with
    | fault => rfl
    | ret r => rfl
    | next s' =>
      simp only
      rw [ih body (i + 1) s', ih (fun j => body (j + i)) 1 s']
      congr 1
      funext j
      congr 1
      omega

@[simp] theorem forIdx_zero (body : Nat → σ → Step σ ρ) (s : σ) : forIdx 0 body s = .next s := rfl

theorem forIdx_succ (n : Nat) (body : Nat → σ → Step σ ρ) (s : σ) :
    forIdx (n + 1) body s =
      match body 0 s with
      | .next s' => forIdx n (fun j => body (j + 1)) s'
      | .ret r => .ret r
      | .fault => .fault := by
  simp only [forIdx, forIdx.go]
  cases body 0 s with
  | fault => rfl
  | ret r => rfl
  | next s' => simp only; rw [forIdx.go_shift]

/-- a loop whose locals are renamed by `g` -/
theorem forIdx_mapS {σ' : Type} (g : σ → σ') (body : Nat → σ → Step σ ρ) (body' : Nat → σ' → Step σ' ρ)
    (h : ∀ i s, body' i (g s) = (body i s).mapS g) (n : Nat) (s : σ) :
    forIdx n body' (g s) = (forIdx n body s).mapS g := by
  induction n generalizing s body body' with
  | zero => rfl
  | succ n ih =>
    rw [forIdx_succ, forIdx_succ, h 0 s]
    cases body 0 s with
    | fault => rfl
    | ret r => rfl
    | next s' =>
      simp only [Step.mapS]
      exact ih (fun j => body (j + 1)) (fun j => body' (j + 1)) (fun i s => h (i + 1) s) s'

@[simp] theorem mapS_next {σ' : Type} (g : σ → σ') (s : σ) : (Step.next s : Step σ ρ).mapS g = .next (g s) := rfl
@[simp] theorem mapS_ret {σ' : Type} (g : σ → σ') (r : ρ) : (Step.ret r : Step σ ρ).mapS g = .ret r := rfl
@[simp] theorem mapS_fault {σ' : Type} (g : σ → σ') : (Step.fault : Step σ ρ).mapS g = .fault := rfl

theorem mapS_rd {F σ' : Type} (g : σ → σ') (v : List F) (i : Nat) (k : F → Step σ ρ) :
    (rd v i k).mapS g = rd v i (fun x => (k x).mapS g) := by
  unfold rd; cases v[i]? <;> rfl

theorem mapS_wr {F σ' : Type} (g : σ → σ') (v : List F) (i : Nat) (y : F) (k : List F → Step σ ρ) :
    (wr v i y k).mapS g = wr v i y (fun x => (k x).mapS g) := by
  unfold wr; split <;> rfl

end

section
variable {F : Type}

theorem allOfO_some (p : F → Bool) (l : List F) : allOfO (fun x => some (p x)) l = some (l.all p) := by
  induction l with
  | nil => rfl
  | cons x xs ih => simp only [allOfO, List.all_cons]; cases p x <;> simp [ih]

theorem anyOfO_some (p : F → Bool) (l : List F) : anyOfO (fun x => some (p x)) l = some (l.any p) := by
  induction l with
  | nil => rfl
  | cons x xs ih => simp only [anyOfO, List.any_cons]; cases p x <;> simp [ih]

theorem mapO_some (g : F → F) (l : List F) : mapO (fun x => some (g x)) l = some (l.map g) := by
  induction l with
  | nil => rfl
  | cons x xs ih => simp [mapO, ih]

theorem copyInfix_go_eq (fmt : F → String) (sep : String) (out : String) (xs : List F) :
    copyInfix.go fmt sep false out xs = out ++ String.join (xs.map (fun y => sep ++ fmt y)) := by
  induction xs generalizing out with
  | nil => simp [copyInfix.go]
  | cons y ys ih => simp [copyInfix.go, ih, String.append_assoc]

end

end Vita.C18
