/-
  C18 — model of the comparison / dominance / element-wise code of
  src/kernel/fitness.{h,tcc}, src/kernel/model_measurements.h, src/utility/utility.h.

  A fitness vector is a `List α`.  The element type `α` carries `key : α → Int`:
  two non-NaN doubles `x`, `y` satisfy `x < y ⇔ key x < key y` and `x == y ⇔ key x = key y`
  (for the executable instance `dkey` on 64-bit patterns this is the law `key_mono`,
  spot-checked against the compiled code on every run; NaN is excluded by hypothesis).

  The library algorithms the operators are implemented with are modelled here
  (`lexLt` = std::lexicographical_compare, `equal4` = four-iterator std::equal);
  *which* operator is implemented by which algorithm and how the others are derived
  is NOT written here: it is extracted from the clang AST into `GenOps.lean`.
-/
namespace Vita.C18

section Order
variable {α : Type} (key : α → Int)

/-! ### scalar comparisons of non-NaN doubles through their key -/
def slt (a b : α) : Bool := decide (key a < key b)
def sgt (a b : α) : Bool := decide (key b < key a)
def sle (a b : α) : Bool := decide (key a ≤ key b)
def sge (a b : α) : Bool := decide (key b ≤ key a)
def seq (a b : α) : Bool := decide (key a = key b)
def sne (a b : α) : Bool := decide (key a ≠ key b)

/-- `std::lexicographical_compare(f1, l1, f2, l2)` (libstdc++: walk both ranges while
    neither is exhausted; `*f1 < *f2` → true, `*f2 < *f1` → false; at the end
    `f1 == l1 && f2 != l2`). -/
def lexLt : List α → List α → Bool
  | [], [] => false
  | [], _ :: _ => true
  | _ :: _, [] => false
  | a :: as, b :: bs =>
    if slt key a b then true else if slt key b a then false else lexLt as bs

/-- three-iterator `std::equal(f1, l1, f2)`: element-wise `==` over the first range. -/
def equal3 : List α → List α → Bool
  | [], _ => true
  | _ :: _, [] => false
  | a :: as, b :: bs => seq key a b && equal3 as bs

/-- four-iterator `std::equal` on random-access iterators: distances first, then `equal3`. -/
def equal4 (a b : List α) : Bool := a.length == b.length && equal3 key a b

/-- the loop of `dominating()`: `ob` is `one_better`. -/
def domLoop : List α → List α → Bool → Bool
  | a :: as, b :: bs, ob =>
    if sgt key a b then domLoop as bs true
    else if slt key a b then false
    else domLoop as bs ob
  | _, _, ob => ob

/-- `dominating(lhs, rhs)` of fitness.tcc as written (`one_better(lhs.size() && !rhs.size())`,
    scan over `min(lhs.size(), rhs.size())` components). -/
def dominating (a b : List α) : Bool := domLoop key a b (!a.isEmpty && b.isEmpty)

/-- `model_measurements` (fitness + accuracy; `is_solution` plays no role in comparisons). -/
structure MM (α : Type) where
  fitness : List α
  accuracy : α

/-! ### specification side: three-way lexicographic comparison -/
def lexCmp : List α → List α → Ordering
  | [], [] => .eq
  | [], _ :: _ => .lt
  | _ :: _, [] => .gt
  | a :: as, b :: bs =>
    if key a < key b then .lt else if key b < key a then .gt else lexCmp as bs

/-- a selection that keeps the incumbent unless the challenger is strictly better
    (`better x best` is the code's `x > best`). -/
def winner (better : List α → List α → Bool) : List (List α) → Option (List α)
  | [] => none
  | x :: xs => some (xs.foldl (fun best y => if better y best then y else best) x)

end Order

/-! ### the scalar comparisons of C++ `double` as an interface

  The generated bodies (`GenOps.lean`) compare components through a `Cmp F`:
  `lt le eq` are the built-in `< <= ==`; the other three are *defined* from them
  (`a > b` is `b < a`, `a >= b` is `b <= a`, `a != b` is `!(a == b)`: true of IEEE-754
  comparisons for every operand, NaN included).  `same` is equality of the object
  representation (what `memcmp` of the eight bytes sees). -/
structure Cmp (F : Type) where
  lt : F → F → Bool
  le : F → F → Bool
  eq : F → F → Bool
  same : F → F → Bool

namespace Cmp
variable {F : Type} (c : Cmp F)
def gt (a b : F) : Bool := c.lt b a
def ge (a b : F) : Bool := c.le b a
def ne (a b : F) : Bool := !c.eq a b
end Cmp

/-- NaN-free doubles ordered through their key; `same` is left arbitrary (for the bit-pattern
    instance it is equality of patterns). -/
def keyCmp {α : Type} (key : α → Int) (same : α → α → Bool) : Cmp α :=
  { lt := slt key, le := sle key, eq := seq key, same := same }

/-! ### the executable instance: doubles as 64-bit patterns -/

/-- sign-magnitude pattern → ordered integer; both zeros ↦ 0, ±∞ included. -/
def dkey (b : UInt64) : Int :=
  if b.toNat < 9223372036854775808 then (b.toNat : Int) else -((b.toNat : Int) - 9223372036854775808)

/-- NaN: exponent all ones and a non-zero mantissa. -/
def isNaNBits (b : UInt64) : Bool :=
  decide (b.toNat % 9223372036854775808 > 9218868437227405312)

/-! ### element-wise arithmetic, generic in the scalar operations -/

structure FOps (F : Type) where
  add : F → F → F
  sub : F → F → F
  mul : F → F → F
  div : F → F → F
  abs : F → F
  sqrt : F → F
  round : F → F
  /-- `std::isfinite`, `std::isnan` -/
  isfinite : F → Bool
  isnan : F → Bool
  /-- a floating literal of the source, given by its 64-bit pattern -/
  lit : UInt64 → F

/-- bit patterns of the literals the sources use -/
def bitsZero : UInt64 := 0
def bitsRoundEps : UInt64 := 0x3F1A36E2EB1C432D     -- `constexpr T float_epsilon(0.0001)` of `round_to`
def bitsTwo : UInt64 := 0x4000000000000000          -- `2.0`
def bitsMachEps : UInt64 := 0x3CB0000000000000      -- `std::numeric_limits<double>::epsilon()`

section Arith
variable {F : Type} (o : FOps F)

/-- scalar `round_to` of utility.h: `val /= eps; val = std::round(val); val *= eps`. -/
def roundTo (x : F) : F := o.mul (o.round (o.div x (o.lit bitsRoundEps))) (o.lit bitsRoundEps)

/-- `for (i < size()) operator[](i) op= f[i]` — reading `f[i]` past `f.size()` is a
    contract violation (`Expects(i < size())`), modelled as `none`. -/
def vzip (op : F → F → F) : List F → List F → Option (List F)
  | [], _ => some []
  | _ :: _, [] => none
  | x :: xs, y :: ys => (vzip op xs ys).map (op x y :: ·)

def vadd (a b : List F) := vzip o.add a b
def vsub (a b : List F) := vzip o.sub a b
def vmul (a b : List F) := vzip o.mul a b
def vdivS (a : List F) (v : F) : List F := a.map (o.div · v)
def vmulS (a : List F) (v : F) : List F := a.map (o.mul · v)
def vabs (a : List F) : List F := a.map o.abs
def vsqrt (a : List F) : List F := a.map o.sqrt
def vround (a : List F) : List F := a.map (roundTo o)

/-- `std::inner_product(f1.begin(), f1.end(), f2.begin(), 0.0, plus, |a-b|)`:
    `acc = acc + fabs(a - b)` left to right; the second range must be long enough. -/
def distLoop (acc : F) : List F → List F → Option F
  | [], _ => some acc
  | _ :: _, [] => none
  | x :: xs, y :: ys => distLoop (o.add acc (o.abs (o.sub x y))) xs ys

def distance (a b : List F) : Option F := distLoop o (o.lit bitsZero) a b

/-- `combine`: `ret.reserve(n1+n2); ret.insert(end, f1…); ret.insert(end, f2…)`
    (insert at `end()` is `append`; the container itself is the subject of C20). -/
def combine (a b : List F) : List F := ([] ++ a) ++ b

end Arith

/-! ### scalar helpers of utility.h and the predicates on vectors: the documented meaning -/

section Helpers
variable {F : Type} (c : Cmp F) (o : FOps F)

/-- `std::max(a, b)` (libstdc++: `if (a < b) return b; return a;`) -/
def stdMax (a b : F) : F := if c.lt a b then b else a

/-- `issmall(v)`: `|v| < 2ε`, `ε` the machine epsilon -/
def issmallSpec (v : F) : Bool := c.lt (o.abs v) (o.mul (o.lit bitsTwo) (o.lit bitsMachEps))

/-- `isnonnegative(v)`: `v >= 0` -/
def nonnegSpec (v : F) : Bool := c.le (o.lit bitsZero) v

/-- `almost_equal(v1, v2, e)`: the difference is small, or at most `e` times the larger magnitude -/
def aeqSpec (v1 v2 e : F) : Bool :=
  issmallSpec c o (o.abs (o.sub v1 v2)) ||
    c.le (o.abs (o.sub v1 v2)) (o.mul (stdMax c (o.abs v1) (o.abs v2)) e)

/-- `almost_equal` on vectors: components are compared left to right until one pair fails;
    reading `f2[i]` past `f2.size()` is the contract violation `Expects(i < size())` -/
def vaeq (e : F) : List F → List F → Option Bool
  | [], _ => some true
  | _ :: _, [] => none
  | x :: xs, y :: ys => if aeqSpec c o x y e then vaeq e xs ys else some false

def vfinite (f : List F) : Bool := f.all o.isfinite
def vnan (f : List F) : Bool := f.any o.isnan
def vsmall (f : List F) : Bool := f.all (issmallSpec c o)
def vnonneg (f : List F) : Bool := f.all (nonnegSpec c o)

/-- `operator<<`: the components, each printed with `fmt` (= `std::ostream << double`), separated by
    `", "` and enclosed in parentheses -/
def joinSep (sep : String) : List String → String
  | [] => ""
  | [a] => a
  | a :: b :: r => a ++ sep ++ joinSep sep (b :: r)

def showSpec (fmt : F → String) (f : List F) : String :=
  "(" ++ joinSep ", " (f.map fmt) ++ ")"

end Helpers

/-- hardware comparisons (used only by the compiled driver; opaque to the kernel). -/
def floatCmp : Cmp Float where
  lt a b := decide (a < b)
  le a b := decide (a ≤ b)
  eq a b := a == b
  same a b := a.toBits == b.toBits

/-- hardware doubles (used only by the compiled driver; opaque to the kernel). -/
def floatOps : FOps Float where
  add := (· + ·)
  sub := (· - ·)
  mul := (· * ·)
  div := (· / ·)
  abs := Float.abs
  sqrt := Float.sqrt
  round := Float.round
  isfinite := Float.isFinite
  isnan := Float.isNaN
  lit := Float.ofBits

end Vita.C18
