/-
  C18 — Bool-valued views of the generated comparison code, for stating the laws.

  The generated functions (`Gen.opLt …`, `GenOps.lean`) return `Option Bool` (`none` = a
  contract of the code is violated on the way).  `Props.lean` proves that on every input the
  six operators, `dominating` and `model_measurements::operator>=` return `some _`
  (`*_code` theorems); the views below name that value.
-/
import Vita.C18.GenOps
namespace Vita.C18

/-- the setting of the order laws: NaN-free doubles ordered through `key`; the representation
    equality and the arithmetic are arbitrary (the comparison code must not depend on them). -/
structure Ctx (α : Type) where
  key : α → Int
  same : α → α → Bool
  ops : FOps α

namespace Ctx
variable {α : Type} (K : Ctx α)
def cmp : Cmp α := keyCmp K.key K.same
end Ctx

section
variable {α : Type} (K : Ctx α)
def opLt (a b : List α) : Bool := (Gen.opLt K.cmp K.ops a b).getD false
def opEq (a b : List α) : Bool := (Gen.opEq K.cmp K.ops a b).getD false
def opGt (a b : List α) : Bool := (Gen.opGt K.cmp K.ops a b).getD false
def opGe (a b : List α) : Bool := (Gen.opGe K.cmp K.ops a b).getD false
def opLe (a b : List α) : Bool := (Gen.opLe K.cmp K.ops a b).getD false
def opNe (a b : List α) : Bool := (Gen.opNe K.cmp K.ops a b).getD false
/-- `dominating(a, b)` as the code computes it -/
def opDom (a b : List α) : Bool := (Gen.dominating K.cmp K.ops a b).getD false
/-- `operator>=(model_measurements, model_measurements)` as the code computes it -/
def opMmGe (x y : MM α) : Bool := (Gen.mmGe K.cmp K.ops x y).getD false
end

/-- integers ordered by themselves (for the non-vacuity examples) -/
def intCtx : Ctx Int where
  key := fun x => x
  same := fun a b => decide (a = b)
  ops := { add := (· + ·), sub := (· - ·), mul := (· * ·), div := (· / ·), abs := fun x => Int.natAbs x,
           sqrt := id, round := id, isfinite := fun _ => true, isnan := fun _ => false,
           lit := fun b => b.toNat }

/-- 64-bit patterns ordered by `dkey` -/
def bitsCtx : Ctx UInt64 where
  key := dkey
  same := fun a b => a == b
  ops := { add := (· + ·), sub := (· - ·), mul := (· * ·), div := (· / ·), abs := id,
           sqrt := id, round := id, isfinite := fun _ => true, isnan := isNaNBits, lit := id }

end Vita.C18
