/-
  C18 — fitness comparison is a coherent order; dominance is a strict partial order.

  `Gen.opLt … Gen.opNe`, `Gen.mmGe` are regenerated from the clang AST of fitness.tcc /
  model_measurements.h on every run (tools/translate_fitness_ops.py): they say which
  operator calls which algorithm / which other operator.  Everything below is proved
  about those generated definitions, for every carrier `α` and every `key : α → Int`
  (for doubles: every NaN-free vector of any length over finite values, both zeros, ±∞).
-/
import Vita.C18.Lemmas
import Vita.C18.GenOps

set_option linter.unusedSimpArgs false
set_option linter.unusedVariables false

namespace Vita.C18
open Vita.C18.Gen

section
variable {α : Type} (key : α → Int)

/-! ### the six operators are the lexicographic order (`lexCmp` is the specification) -/

theorem lt_is_lex (a b : List α) : opLt key a b = (lexCmp key a b == .lt) := by
  simp only [opLt, opEq, opGt, opGe, opLe, opNe, lexLt_eq_cmp, equal4_eq_cmp, equal3_guarded]
  try simp only [lexCmp_swap key a b]
  try (cases lexCmp key a b <;> rfl)

theorem eq_is_lex (a b : List α) : opEq key a b = (lexCmp key a b == .eq) := by
  simp only [opLt, opEq, opGt, opGe, opLe, opNe, lexLt_eq_cmp, equal4_eq_cmp, equal3_guarded]
  try simp only [lexCmp_swap key a b]
  try (cases lexCmp key a b <;> rfl)

theorem gt_is_lex (a b : List α) : opGt key a b = (lexCmp key a b == .gt) := by
  simp only [opLt, opEq, opGt, opGe, opLe, opNe, lexLt_eq_cmp, equal4_eq_cmp, equal3_guarded]
  try simp only [lexCmp_swap key a b]
  try (cases lexCmp key a b <;> rfl)

theorem ge_is_lex (a b : List α) : opGe key a b = (lexCmp key a b != .lt) := by
  simp only [opLt, opEq, opGt, opGe, opLe, opNe, lexLt_eq_cmp, equal4_eq_cmp, equal3_guarded]
  try simp only [lexCmp_swap key a b]
  try (cases lexCmp key a b <;> rfl)

theorem le_is_lex (a b : List α) : opLe key a b = (lexCmp key a b != .gt) := by
  simp only [opLt, opEq, opGt, opGe, opLe, opNe, lexLt_eq_cmp, equal4_eq_cmp, equal3_guarded]
  try simp only [lexCmp_swap key a b]
  try (cases lexCmp key a b <;> rfl)

theorem ne_is_lex (a b : List α) : opNe key a b = (lexCmp key a b != .eq) := by
  simp only [opLt, opEq, opGt, opGe, opLe, opNe, lexLt_eq_cmp, equal4_eq_cmp, equal3_guarded]
  try simp only [lexCmp_swap key a b]
  try (cases lexCmp key a b <;> rfl)

/-- `==` means: same length and component-wise equal keys (for doubles: equal values,
    the two zeros being equal). -/
theorem eq_iff_keys (a b : List α) : opEq key a b = true ↔ a.map key = b.map key := by
  rw [eq_is_lex, ← lexCmp_eq_iff]; simp

/-! ### mutual consistency of the six operators -/

/-- for any two vectors (any lengths) exactly one of `a<b`, `a==b`, `a>b` holds -/
theorem lex_trichotomy (a b : List α) :
    (opLt key a b = true ∧ opEq key a b = false ∧ opGt key a b = false) ∨
    (opLt key a b = false ∧ opEq key a b = true ∧ opGt key a b = false) ∨
    (opLt key a b = false ∧ opEq key a b = false ∧ opGt key a b = true) := by
  rw [lt_is_lex, eq_is_lex, gt_is_lex]
  cases lexCmp key a b <;> simp

theorem ge_iff_not_lt (a b : List α) : opGe key a b = !opLt key a b := by
  rw [ge_is_lex, lt_is_lex]; cases lexCmp key a b <;> rfl

theorem le_iff_not_gt (a b : List α) : opLe key a b = !opGt key a b := by
  rw [le_is_lex, gt_is_lex]; cases lexCmp key a b <;> rfl

theorem gt_iff_lt_swap (a b : List α) : opGt key a b = opLt key b a := by
  rw [gt_is_lex, lt_is_lex, lexCmp_swap key a b]; cases lexCmp key a b <;> rfl

theorem ne_iff_not_eq (a b : List α) : opNe key a b = !opEq key a b := by
  rw [ne_is_lex, eq_is_lex]; cases lexCmp key a b <;> rfl

theorem ge_iff_gt_or_eq (a b : List α) : opGe key a b = (opGt key a b || opEq key a b) := by
  rw [ge_is_lex, gt_is_lex, eq_is_lex]; cases lexCmp key a b <;> rfl

theorem le_iff_ge_swap (a b : List α) : opLe key a b = opGe key b a := by
  rw [le_is_lex, ge_is_lex, lexCmp_swap key a b]; cases lexCmp key a b <;> rfl

/-! ### order laws -/

theorem lt_irrefl (a : List α) : opLt key a a = false := by
  rw [lt_is_lex, lexCmp_refl]; rfl

theorem lt_trans (a b c : List α) :
    opLt key a b = true → opLt key b c = true → opLt key a c = true := by
  rw [lt_is_lex, lt_is_lex, lt_is_lex]
  intro h1 h2
  have := lexCmp_lt_trans key a b c (by simpa using h1) (by simpa using h2)
  simp [this]

/-- better-than is transitive -/
theorem gt_trans (a b c : List α) :
    opGt key a b = true → opGt key b c = true → opGt key a c = true := by
  rw [gt_iff_lt_swap, gt_iff_lt_swap, gt_iff_lt_swap]
  intro h1 h2; exact lt_trans key c b a h2 h1

theorem lt_asymm (a b : List α) : opLt key a b = true → opLt key b a = false := by
  rw [lt_is_lex, lt_is_lex, lexCmp_swap key a b]; cases lexCmp key a b <;> simp

theorem eq_refl (a : List α) : opEq key a a = true := by
  rw [eq_is_lex, lexCmp_refl]; rfl

theorem eq_symm (a b : List α) : opEq key a b = opEq key b a := by
  rw [eq_is_lex, eq_is_lex, lexCmp_swap key a b]; cases lexCmp key a b <;> rfl

theorem eq_trans (a b c : List α) :
    opEq key a b = true → opEq key b c = true → opEq key a c = true := by
  rw [eq_is_lex, eq_is_lex, eq_is_lex]
  intro h1 h2
  have := lexCmp_eq_trans key a b c (by simpa using h1) (by simpa using h2)
  simp [this]

/-- `==`-equal vectors are interchangeable in every comparison -/
theorem lt_congr (a a' b b' : List α) (h1 : opEq key a a' = true) (h2 : opEq key b b' = true) :
    opLt key a b = opLt key a' b' := by
  rw [eq_is_lex] at h1 h2
  rw [lt_is_lex, lt_is_lex, lexCmp_congr_left key a a' b (by simpa using h1),
    lexCmp_congr_right key a' b b' (by simpa using h2)]

/-- `¬(a < b)` and `¬(b < c)` give `¬(a < c)`: `>=` is transitive, the order is a total preorder -/
theorem ge_trans (a b c : List α) :
    opGe key a b = true → opGe key b c = true → opGe key a c = true := by
  rw [ge_iff_not_lt, ge_iff_not_lt, ge_iff_not_lt, lt_is_lex, lt_is_lex, lt_is_lex]
  intro h1 h2
  cases h : lexCmp key a c with
  | lt =>
    rcases lexCmp_lt_cases key a b c h with h' | h' <;> simp [h'] at h1 h2
  | eq => rfl
  | gt => rfl

/-! ### the winner of a selection does not depend on the order of comparison -/

/-- the winner is a member that no member beats -/
theorem winner_is_max (l : List (List α)) (w : List α) (h : winner (opGt key) l = some w) :
    w ∈ l ∧ ∀ y ∈ l, opGt key y w = false := by
  cases l with
  | nil => simp [winner] at h
  | cons x xs =>
    simp only [winner, Option.some.injEq] at h
    have hf : (fun best y => if opGt key y best = true then y else best) =
        (fun best y => if lexCmp key y best == .gt then y else best) := by
      funext best y; rw [gt_is_lex]
    rw [hf] at h
    have := foldl_best key xs x
    simp only at this
    rw [h] at this
    refine ⟨this.1, fun y hy => ?_⟩
    have := this.2 y hy
    rw [gt_is_lex]; simpa using this

/-- permuting the candidates changes the winner at most within its `==` class -/
theorem winner_order_indep (l l' : List (List α)) (hp : l.Perm l') :
    match winner (opGt key) l, winner (opGt key) l' with
    | some w, some w' => opEq key w w' = true
    | none, none => True
    | _, _ => False := by
  cases h1 : winner (opGt key) l with
  | none =>
    cases l with
    | nil => have := hp.symm.eq_nil; subst this; simp [winner]
    | cons _ _ => simp [winner] at h1
  | some w =>
    cases h2 : winner (opGt key) l' with
    | none =>
      cases l' with
      | nil => have := hp.eq_nil; subst this; simp [winner] at h1
      | cons _ _ => simp [winner] at h2
    | some w' =>
      simp only
      have m1 := winner_is_max key l w h1
      have m2 := winner_is_max key l' w' h2
      have a1 : opGt key w' w = false := m1.2 w' (hp.symm.subset m2.1)
      have a2 : opGt key w w' = false := m2.2 w (hp.subset m1.1)
      rw [gt_iff_lt_swap] at a1
      rcases lex_trichotomy key w w' with h | h | h
      · rw [h.1] at a1; simp at a1
      · exact h.2.1
      · rw [h.2.2] at a2; simp at a2

/-! ### Pareto dominance on vectors of one dimension plus the empty vector -/

/-- equal lengths, or one of the two is the empty fitness of a failed evaluation -/
def SameDim (a b : List α) : Prop := a.length = b.length ∨ a = [] ∨ b = []

/-- what `dominating` computes on equal lengths: nowhere worse, somewhere better -/
theorem dom_iff (a b : List α) (h : a.length = b.length) :
    dominating key a b = true ↔ allGe key a b ∧ exGt key a b := by
  unfold dominating
  rw [domLoop_iff]
  cases a with
  | nil => simp [exGt]
  | cons x xs =>
    cases b with
    | nil => simp at h
    | cons y ys => simp

theorem nonempty_dom_empty (a : List α) (h : a ≠ []) :
    dominating key a [] = true ∧ dominating key [] a = false := by
  cases a with
  | nil => exact absurd rfl h
  | cons x xs => simp [dominating, domLoop]

theorem dom_irrefl (a : List α) : dominating key a a = false := by
  cases h : dominating key a a with
  | false => rfl
  | true =>
    have := (dom_iff key a a rfl).1 h
    exact absurd this.2 (allGe_refl_not_exGt key a)

theorem empty_dom_nothing (b : List α) : dominating key [] b = false := by
  simp [dominating, domLoop]

theorem dom_asymm (a b : List α) (hd : SameDim a b) :
    dominating key a b = true → dominating key b a = false := by
  intro h
  rcases hd with hl | he | he
  · cases h' : dominating key b a with
    | false => rfl
    | true =>
      have p := (dom_iff key a b hl).1 h
      have q := (dom_iff key b a hl.symm).1 h'
      exact absurd p.2 (allGe_antisymm_no_exGt key a b hl p.1 q.1)
  · subst he; rw [empty_dom_nothing] at h; simp at h
  · subst he; exact empty_dom_nothing key a

theorem dom_trans (a b c : List α) (h1 : SameDim a b) (h2 : SameDim b c) :
    dominating key a b = true → dominating key b c = true → dominating key a c = true := by
  intro p q
  by_cases ha : a = []
  · subst ha; rw [empty_dom_nothing] at p; simp at p
  by_cases hb : b = []
  · subst hb; rw [empty_dom_nothing] at q; simp at q
  by_cases hc : c = []
  · subst hc; exact (nonempty_dom_empty key a ha).1
  have l1 : a.length = b.length := by
    rcases h1 with h | h | h
    · exact h
    · exact absurd h ha
    · exact absurd h hb
  have l2 : b.length = c.length := by
    rcases h2 with h | h | h
    · exact h
    · exact absurd h hb
    · exact absurd h hc
  have p' := (dom_iff key a b l1).1 p
  have q' := (dom_iff key b c l2).1 q
  exact (dom_iff key a c (l1.trans l2)).2
    ⟨allGe_trans key a b c l1 l2 p'.1 q'.1, exGt_trans_left key a b c l1 l2 p'.2 p'.1 q'.1⟩

/-- dominance implies lexicographic superiority -/
theorem dom_imp_lex_gt (a b : List α) (hd : SameDim a b) :
    dominating key a b = true → opGt key a b = true := by
  intro h
  rw [gt_is_lex]
  rcases hd with hl | he | he
  · have p := (dom_iff key a b hl).1 h
    simp [dom_lexCmp key a b hl p.1 p.2]
  · subst he; rw [empty_dom_nothing] at h; simp at h
  · subst he
    cases a with
    | nil => simp [dominating, domLoop] at h
    | cons x xs => simp [lexCmp]

/-! ### `model_measurements::operator>=` (dominance ∧ accuracy not worse) -/

theorem mmGe_spec (x y : MM α) :
    mmGe key x y = (dominating key x.fitness y.fitness && decide (key y.accuracy ≤ key x.accuracy)) := by
  simp only [mmGe, sge, sle, sgt, slt]
  try rfl

theorem mmGe_irrefl (x : MM α) : mmGe key x x = false := by
  rw [mmGe_spec, dom_irrefl]; rfl

theorem mmGe_asymm (x y : MM α) (hd : SameDim x.fitness y.fitness) :
    mmGe key x y = true → mmGe key y x = false := by
  rw [mmGe_spec, mmGe_spec]
  intro h
  simp only [Bool.and_eq_true] at h
  rw [dom_asymm key _ _ hd h.1]; rfl

theorem mmGe_trans (x y z : MM α) (h1 : SameDim x.fitness y.fitness) (h2 : SameDim y.fitness z.fitness) :
    mmGe key x y = true → mmGe key y z = true → mmGe key x z = true := by
  rw [mmGe_spec, mmGe_spec, mmGe_spec]
  simp only [Bool.and_eq_true, decide_eq_true_eq]
  intro ⟨p, q⟩ ⟨r, s⟩
  exact ⟨dom_trans key _ _ _ h1 h2 p r, by omega⟩

end

/-! ### the bit-pattern instance -/

/-- both zeros have key 0 -/
theorem dkey_zeros : dkey 0 = 0 ∧ dkey 0x8000000000000000 = 0 := by decide

/-- distinct patterns with the same key are the two zeros: `==` on non-NaN doubles is
    equality of patterns up to the sign of zero -/
theorem dkey_inj (a b : UInt64) (h : dkey a = dkey b) :
    a = b ∨ (dkey a = 0 ∧ dkey b = 0) := by
  have ha := a.toNat_lt
  have hb := b.toNat_lt
  unfold dkey at *
  by_cases h0 : a.toNat = b.toNat
  · left; exact UInt64.toNat_inj.1 h0
  · right; split at h <;> split at h <;> constructor <;> split <;> omega

/-- positive patterns are ordered by magnitude, negative ones in reverse, negative below positive -/
theorem dkey_order (a b : UInt64) :
    (a.toNat < 9223372036854775808 → b.toNat < 9223372036854775808 →
      (dkey a < dkey b ↔ a.toNat < b.toNat)) ∧
    (9223372036854775808 ≤ a.toNat → 9223372036854775808 ≤ b.toNat →
      (dkey a < dkey b ↔ b.toNat < a.toNat)) ∧
    (9223372036854775808 < a.toNat → b.toNat < 9223372036854775808 → dkey a < dkey b) := by
  unfold dkey
  refine ⟨?_, ?_, ?_⟩ <;> intros <;> repeat' split
  all_goals omega

/-- The law tying the instance to the hardware: on non-NaN patterns the C++ built-in
    `<` / `==` of `double` are `dkey`-comparison.  It is a hypothesis about IEEE-754
    (never an axiom); the harness checks it on every pair of the boundary table and on
    random patterns in every run. -/
def KeyMono (hwLt hwEq : UInt64 → UInt64 → Bool) : Prop :=
  ∀ a b, isNaNBits a = false → isNaNBits b = false →
    hwLt a b = decide (dkey a < dkey b) ∧ hwEq a b = decide (dkey a = dkey b)

/-! ### element-wise arithmetic, joining, distance and rounding against the scalar definitions -/

section
variable {F : Type} (o : FOps F)

/-- `+= −= *=` (hence `+ − *`): component `i` of the result is the scalar operation on components `i` -/
theorem vzip_get (op : F → F → F) (a b : List F) (h : a.length ≤ b.length) :
    ∃ r, vzip op a b = some r ∧ r.length = a.length ∧
      ∀ i (hi : i < a.length), r[i]? = some (op a[i] (b[i]'(by omega))) := by
  refine ⟨List.zipWith op a b, vzip_eq op a b h, by simp; omega, ?_⟩
  intro i hi
  rw [List.getElem?_eq_getElem (by simp; omega)]
  simp

theorem vadd_get (a b : List F) (h : a.length ≤ b.length) :
    ∃ r, vadd o a b = some r ∧ r.length = a.length ∧
      ∀ i (hi : i < a.length), r[i]? = some (o.add a[i] (b[i]'(by omega))) := vzip_get o.add a b h
theorem vsub_get (a b : List F) (h : a.length ≤ b.length) :
    ∃ r, vsub o a b = some r ∧ r.length = a.length ∧
      ∀ i (hi : i < a.length), r[i]? = some (o.sub a[i] (b[i]'(by omega))) := vzip_get o.sub a b h
theorem vmul_get (a b : List F) (h : a.length ≤ b.length) :
    ∃ r, vmul o a b = some r ∧ r.length = a.length ∧
      ∀ i (hi : i < a.length), r[i]? = some (o.mul a[i] (b[i]'(by omega))) := vzip_get o.mul a b h

/-- the right operand must not be shorter (the code's `Expects(i < size())`) -/
theorem vzip_short (op : F → F → F) (a b : List F) (h : b.length < a.length) : vzip op a b = none :=
  vzip_none op a b h

theorem vdivS_get (a : List F) (v : F) (i : Nat) : (vdivS o a v)[i]? = a[i]?.map (o.div · v) := by
  simp [vdivS]
theorem vmulS_get (a : List F) (v : F) (i : Nat) : (vmulS o a v)[i]? = a[i]?.map (o.mul · v) := by
  simp [vmulS]
theorem vabs_get (a : List F) (i : Nat) : (vabs o a)[i]? = a[i]?.map o.abs := by simp [vabs]
theorem vsqrt_get (a : List F) (i : Nat) : (vsqrt o a)[i]? = a[i]?.map o.sqrt := by simp [vsqrt]
theorem vround_get (a : List F) (i : Nat) :
    (vround o a)[i]? = a[i]?.map (fun x => o.mul (o.round (o.div x o.eps)) o.eps) := by
  simp only [vround, List.getElem?_map]; rfl

/-- joining: the components of `f1` followed by those of `f2` -/
theorem combine_get (a b : List F) (i : Nat) :
    (combine a b)[i]? = if i < a.length then a[i]? else b[i - a.length]? := by
  simp only [combine, List.nil_append]
  split
  · rw [List.getElem?_append_left (by assumption)]
  · rw [List.getElem?_append_right (by omega)]

theorem combine_length (a b : List F) : (combine a b).length = a.length + b.length := by
  simp [combine]

/-- taxicab distance: the left-to-right sum, from 0, of `|a_i − b_i|` -/
theorem distance_sum (a b : List F) (h : a.length ≤ b.length) :
    distance o a b = some ((List.zipWith (fun x y => o.abs (o.sub x y)) a b).foldl o.add o.zero) :=
  distLoop_eq o o.zero a b h

end

/-! ### the statements are not vacuous -/

example : opLt (fun x : Int => x) [1, 5] [2] = true := by decide
example : opLt (fun x : Int => x) [1] [1, 0] = true := by decide
example : opGe (fun x : Int => x) [] [] = true := by decide
example : dominating (fun x : Int => x) [1, 5] [1, 4] = true := by decide
example : dominating (fun x : Int => x) [2, 3] [1, 4] = false ∧ dominating (fun x : Int => x) [1, 4] [2, 3] = false := by decide
example : SameDim [1, 5] ([] : List Int) ∧ SameDim [1, 5] [1, 4] := ⟨Or.inr (Or.inr rfl), Or.inl rfl⟩
example : winner (opGt (fun x : Int => x)) [[1], [3], [2]] = some [3] := by decide
example : mmGe (fun x : Int => x) ⟨[1, 5], 3⟩ ⟨[1, 4], 3⟩ = true := by decide
-- -0.0 == +0.0, -inf < -0.0, 1.0 < +inf on bit patterns
example : opEq dkey [0x8000000000000000] [0] = true := by decide
example : opLt dkey [0xFFF0000000000000] [0x8000000000000000] = true := by decide
example : opLt dkey [0x3FF0000000000000] [0x7FF0000000000000] = true := by decide
example : isNaNBits 0x7FF0000000000000 = false ∧ isNaNBits 0x7FF8000000000000 = true ∧
    isNaNBits 0xFFF0000000000001 = true := by decide

end Vita.C18
