/-
  C18 — fitness comparison is a coherent order; dominance is a strict partial order.

  `Gen.opLt … Gen.opNe`, `Gen.dominating`, `Gen.mmGe`, the element-wise arithmetic, the
  predicates, `Gen.distance`, `Gen.combine`, `Gen.showFit` and the scalar helpers of utility.h
  are regenerated from the clang AST of fitness.tcc / utility.h / model_measurements.h on every
  run (tools/translate_fitness_ops.py) as terms of the loop language of `Loop.lean`: BODIES, not
  a derivation table.  Every theorem below is about those generated terms, for every carrier,
  every `key : α → Int` (for doubles: every NaN-free vector of any length over finite values,
  both zeros, ±∞), every representation equality and every arithmetic (`Ctx`).
  `opLt K a b` etc. (`Ops.lean`) name the value the generated code returns.
-/
import Vita.C18.Bridge
import Vita.C18.GenOps
import Vita.C18.Users

set_option linter.unusedSimpArgs false
set_option linter.unusedVariables false

namespace Vita.C18

section
variable {α : Type} (K : Ctx α)

/-! ### the generated code of the six operators never faults and is the lexicographic order
    (`lexCmp` is the specification).  One proof script for all six: unfold the generated bodies,
    rewrite the library algorithms to `lexCmp`, split on its value. -/

theorem lt_code (a b : List α) : Gen.opLt K.cmp K.ops a b = some (lexCmp K.key a b == .lt) := by
  simp only [Gen.opLt, Gen.opEq, Gen.opGt, Gen.opGe, Gen.opLe, Gen.opNe, Ctx.cmp, call_some, call_none,
    call_equal3C_guard, call_equal3C_guard', ite_some_and, ite_some_or, ite_some_not_and, ite_some_not_or,
    lexLtC_key, equal4C_key, lexLt_eq_cmp, equal4_eq_cmp, equal3_guarded, apply_ite, ite_self]
  try simp only [lexCmp_swap K.key a b]
  try (cases lexCmp K.key a b <;> rfl)
theorem eq_code (a b : List α) : Gen.opEq K.cmp K.ops a b = some (lexCmp K.key a b == .eq) := by
  simp only [Gen.opLt, Gen.opEq, Gen.opGt, Gen.opGe, Gen.opLe, Gen.opNe, Ctx.cmp, call_some, call_none,
    call_equal3C_guard, call_equal3C_guard', ite_some_and, ite_some_or, ite_some_not_and, ite_some_not_or,
    lexLtC_key, equal4C_key, lexLt_eq_cmp, equal4_eq_cmp, equal3_guarded, apply_ite, ite_self]
  try simp only [lexCmp_swap K.key a b]
  try (cases lexCmp K.key a b <;> rfl)
theorem gt_code (a b : List α) : Gen.opGt K.cmp K.ops a b = some (lexCmp K.key a b == .gt) := by
  simp only [Gen.opLt, Gen.opEq, Gen.opGt, Gen.opGe, Gen.opLe, Gen.opNe, Ctx.cmp, call_some, call_none,
    call_equal3C_guard, call_equal3C_guard', ite_some_and, ite_some_or, ite_some_not_and, ite_some_not_or,
    lexLtC_key, equal4C_key, lexLt_eq_cmp, equal4_eq_cmp, equal3_guarded, apply_ite, ite_self]
  try simp only [lexCmp_swap K.key a b]
  try (cases lexCmp K.key a b <;> rfl)
theorem ge_code (a b : List α) : Gen.opGe K.cmp K.ops a b = some (lexCmp K.key a b != .lt) := by
  simp only [Gen.opLt, Gen.opEq, Gen.opGt, Gen.opGe, Gen.opLe, Gen.opNe, Ctx.cmp, call_some, call_none,
    call_equal3C_guard, call_equal3C_guard', ite_some_and, ite_some_or, ite_some_not_and, ite_some_not_or,
    lexLtC_key, equal4C_key, lexLt_eq_cmp, equal4_eq_cmp, equal3_guarded, apply_ite, ite_self]
  try simp only [lexCmp_swap K.key a b]
  try (cases lexCmp K.key a b <;> rfl)
theorem le_code (a b : List α) : Gen.opLe K.cmp K.ops a b = some (lexCmp K.key a b != .gt) := by
  simp only [Gen.opLt, Gen.opEq, Gen.opGt, Gen.opGe, Gen.opLe, Gen.opNe, Ctx.cmp, call_some, call_none,
    call_equal3C_guard, call_equal3C_guard', ite_some_and, ite_some_or, ite_some_not_and, ite_some_not_or,
    lexLtC_key, equal4C_key, lexLt_eq_cmp, equal4_eq_cmp, equal3_guarded, apply_ite, ite_self]
  try simp only [lexCmp_swap K.key a b]
  try (cases lexCmp K.key a b <;> rfl)
theorem ne_code (a b : List α) : Gen.opNe K.cmp K.ops a b = some (lexCmp K.key a b != .eq) := by
  simp only [Gen.opLt, Gen.opEq, Gen.opGt, Gen.opGe, Gen.opLe, Gen.opNe, Ctx.cmp, call_some, call_none,
    call_equal3C_guard, call_equal3C_guard', ite_some_and, ite_some_or, ite_some_not_and, ite_some_not_or,
    lexLtC_key, equal4C_key, lexLt_eq_cmp, equal4_eq_cmp, equal3_guarded, apply_ite, ite_self]
  try simp only [lexCmp_swap K.key a b]
  try (cases lexCmp K.key a b <;> rfl)
theorem lt_is_lex (a b : List α) : opLt K a b = (lexCmp K.key a b == .lt) := by
  unfold opLt; rw [lt_code]; rfl
theorem eq_is_lex (a b : List α) : opEq K a b = (lexCmp K.key a b == .eq) := by
  unfold opEq; rw [eq_code]; rfl
theorem gt_is_lex (a b : List α) : opGt K a b = (lexCmp K.key a b == .gt) := by
  unfold opGt; rw [gt_code]; rfl
theorem ge_is_lex (a b : List α) : opGe K a b = (lexCmp K.key a b != .lt) := by
  unfold opGe; rw [ge_code]; rfl
theorem le_is_lex (a b : List α) : opLe K a b = (lexCmp K.key a b != .gt) := by
  unfold opLe; rw [le_code]; rfl
theorem ne_is_lex (a b : List α) : opNe K a b = (lexCmp K.key a b != .eq) := by
  unfold opNe; rw [ne_code]; rfl

/-- `==` means: same length and component-wise equal keys (for doubles: equal values,
    the two zeros being equal). -/
theorem eq_iff_keys (a b : List α) : opEq K a b = true ↔ a.map K.key = b.map K.key := by
  rw [eq_is_lex, ← lexCmp_eq_iff]; simp

/-! ### mutual consistency of the six operators -/

/-- for any two vectors (any lengths) exactly one of `a<b`, `a==b`, `a>b` holds -/
theorem lex_trichotomy (a b : List α) :
    (opLt K a b = true ∧ opEq K a b = false ∧ opGt K a b = false) ∨
    (opLt K a b = false ∧ opEq K a b = true ∧ opGt K a b = false) ∨
    (opLt K a b = false ∧ opEq K a b = false ∧ opGt K a b = true) := by
  rw [lt_is_lex, eq_is_lex, gt_is_lex]
  cases lexCmp K.key a b <;> simp

theorem ge_iff_not_lt (a b : List α) : opGe K a b = !opLt K a b := by
  rw [ge_is_lex, lt_is_lex]; cases lexCmp K.key a b <;> rfl

theorem le_iff_not_gt (a b : List α) : opLe K a b = !opGt K a b := by
  rw [le_is_lex, gt_is_lex]; cases lexCmp K.key a b <;> rfl

theorem gt_iff_lt_swap (a b : List α) : opGt K a b = opLt K b a := by
  rw [gt_is_lex, lt_is_lex, lexCmp_swap K.key a b]; cases lexCmp K.key a b <;> rfl

theorem ne_iff_not_eq (a b : List α) : opNe K a b = !opEq K a b := by
  rw [ne_is_lex, eq_is_lex]; cases lexCmp K.key a b <;> rfl

theorem ge_iff_gt_or_eq (a b : List α) : opGe K a b = (opGt K a b || opEq K a b) := by
  rw [ge_is_lex, gt_is_lex, eq_is_lex]; cases lexCmp K.key a b <;> rfl

theorem le_iff_ge_swap (a b : List α) : opLe K a b = opGe K b a := by
  rw [le_is_lex, ge_is_lex, lexCmp_swap K.key a b]; cases lexCmp K.key a b <;> rfl

/-! ### order laws -/

theorem lt_irrefl (a : List α) : opLt K a a = false := by
  rw [lt_is_lex, lexCmp_refl]; rfl

theorem lt_trans (a b c : List α) :
    opLt K a b = true → opLt K b c = true → opLt K a c = true := by
  rw [lt_is_lex, lt_is_lex, lt_is_lex]
  intro h1 h2
  have := lexCmp_lt_trans K.key a b c (by simpa using h1) (by simpa using h2)
  simp [this]

/-- better-than is transitive -/
theorem gt_trans (a b c : List α) :
    opGt K a b = true → opGt K b c = true → opGt K a c = true := by
  rw [gt_iff_lt_swap, gt_iff_lt_swap, gt_iff_lt_swap]
  intro h1 h2; exact lt_trans K c b a h2 h1

theorem lt_asymm (a b : List α) : opLt K a b = true → opLt K b a = false := by
  rw [lt_is_lex, lt_is_lex, lexCmp_swap K.key a b]; cases lexCmp K.key a b <;> simp

theorem eq_refl (a : List α) : opEq K a a = true := by
  rw [eq_is_lex, lexCmp_refl]; rfl

theorem eq_symm (a b : List α) : opEq K a b = opEq K b a := by
  rw [eq_is_lex, eq_is_lex, lexCmp_swap K.key a b]; cases lexCmp K.key a b <;> rfl

theorem eq_trans (a b c : List α) :
    opEq K a b = true → opEq K b c = true → opEq K a c = true := by
  rw [eq_is_lex, eq_is_lex, eq_is_lex]
  intro h1 h2
  have := lexCmp_eq_trans K.key a b c (by simpa using h1) (by simpa using h2)
  simp [this]

/-- `==`-equal vectors are interchangeable in every comparison -/
theorem lt_congr (a a' b b' : List α) (h1 : opEq K a a' = true) (h2 : opEq K b b' = true) :
    opLt K a b = opLt K a' b' := by
  rw [eq_is_lex] at h1 h2
  rw [lt_is_lex, lt_is_lex, lexCmp_congr_left K.key a a' b (by simpa using h1),
    lexCmp_congr_right K.key a' b b' (by simpa using h2)]

/-- `¬(a < b)` and `¬(b < c)` give `¬(a < c)`: `>=` is transitive, the order is a total preorder -/
theorem ge_trans (a b c : List α) :
    opGe K a b = true → opGe K b c = true → opGe K a c = true := by
  rw [ge_iff_not_lt, ge_iff_not_lt, ge_iff_not_lt, lt_is_lex, lt_is_lex, lt_is_lex]
  intro h1 h2
  cases h : lexCmp K.key a c with
  | lt =>
    rcases lexCmp_lt_cases K.key a b c h with h' | h' <;> simp [h'] at h1 h2
  | eq => rfl
  | gt => rfl

/-! ### the `<=` side and the mixed laws (session 4) -/

/-- `<=` is transitive -/
theorem le_trans (a b c : List α) :
    opLe K a b = true → opLe K b c = true → opLe K a c = true := by
  rw [le_iff_ge_swap, le_iff_ge_swap, le_iff_ge_swap]
  intro h1 h2; exact ge_trans K c b a h2 h1

/-- `<=` is total -/
theorem le_total (a b : List α) : opLe K a b = true ∨ opLe K b a = true := by
  rw [le_is_lex, le_is_lex, lexCmp_swap K.key a b]; cases lexCmp K.key a b <;> simp

/-- antisymmetry up to `==`: `a >= b` and `b >= a` together are exactly `a == b` -/
theorem ge_antisymm (a b : List α) : (opGe K a b && opGe K b a) = opEq K a b := by
  rw [ge_is_lex, ge_is_lex, eq_is_lex, lexCmp_swap K.key a b]; cases lexCmp K.key a b <;> rfl

/-- the same for `<=` -/
theorem le_antisymm (a b : List α) : (opLe K a b && opLe K b a) = opEq K a b := by
  rw [le_is_lex, le_is_lex, eq_is_lex, lexCmp_swap K.key a b]; cases lexCmp K.key a b <;> rfl

/-- `a > b >= c` gives `a > c` (a strictly better value stays strictly better than anything the other
    one is at least as good as) -/
theorem gt_of_gt_of_ge (a b c : List α) :
    opGt K a b = true → opGe K b c = true → opGt K a c = true := by
  intro h1 h2
  rw [gt_iff_lt_swap] at h1 ⊢
  rw [ge_iff_not_lt] at h2
  -- c < a, else a <= c, and with b < a: b < c … via ge_trans on the negations
  cases h : opLt K c a with
  | true => rfl
  | false =>
    have h3 : opGe K c a = true := by rw [ge_iff_not_lt, h]; rfl
    have h4 : opGe K b c = true := by rw [ge_iff_not_lt]; exact h2
    have h5 := ge_trans K b c a h4 h3
    rw [ge_iff_not_lt, h1] at h5; cases h5

/-- `a >= b > c` gives `a > c` -/
theorem gt_of_ge_of_gt (a b c : List α) :
    opGe K a b = true → opGt K b c = true → opGt K a c = true := by
  intro h1 h2
  rw [gt_iff_lt_swap] at h2 ⊢
  cases h : opLt K c a with
  | true => rfl
  | false =>
    have h3 : opGe K c a = true := by rw [ge_iff_not_lt, h]; rfl
    have h5 := ge_trans K c a b h3 h1
    rw [ge_iff_not_lt, h2] at h5; cases h5

/-- `>=` is reflexive (a value never loses against itself in `f >= f_worst`) -/
theorem ge_refl (a : List α) : opGe K a a = true := by
  rw [ge_iff_not_lt, lt_irrefl]; rfl

/-- `==`-equal vectors are interchangeable in `>` too -/
theorem gt_congr (a a' b b' : List α) (h1 : opEq K a a' = true) (h2 : opEq K b b' = true) :
    opGt K a b = opGt K a' b' := by
  rw [gt_iff_lt_swap, gt_iff_lt_swap]; exact lt_congr K b b' a a' h2 h1

/-! ### the winner of a selection does not depend on the order of comparison -/

/-- the winner is a member that no member beats -/
theorem winner_is_max (l : List (List α)) (w : List α) (h : winner (opGt K) l = some w) :
    w ∈ l ∧ ∀ y ∈ l, opGt K y w = false := by
  cases l with
  | nil => simp [winner] at h
  | cons x xs =>
    simp only [winner, Option.some.injEq] at h
    have hf : (fun best y => if opGt K y best = true then y else best) =
        (fun best y => if lexCmp K.key y best == .gt then y else best) := by
      funext best y; rw [gt_is_lex]
    rw [hf] at h
    have := foldl_best K.key xs x
    simp only at this
    rw [h] at this
    refine ⟨this.1, fun y hy => ?_⟩
    have := this.2 y hy
    rw [gt_is_lex]; simpa using this

/-- permuting the candidates changes the winner at most within its `==` class -/
theorem winner_order_indep (l l' : List (List α)) (hp : l.Perm l') :
    match winner (opGt K) l, winner (opGt K) l' with
    | some w, some w' => opEq K w w' = true
    | none, none => True
    | _, _ => False := by
  cases h1 : winner (opGt K) l with
  | none =>
    cases l with
    | nil => have := hp.symm.eq_nil; subst this; simp [winner]
    | cons _ _ => simp [winner] at h1
  | some w =>
    cases h2 : winner (opGt K) l' with
    | none =>
      cases l' with
      | nil => have := hp.eq_nil; subst this; simp [winner] at h1
      | cons _ _ => simp [winner] at h2
    | some w' =>
      simp only
      have m1 := winner_is_max K l w h1
      have m2 := winner_is_max K l' w' h2
      have a1 : opGt K w' w = false := m1.2 w' (hp.symm.subset m2.1)
      have a2 : opGt K w w' = false := m2.2 w (hp.subset m1.1)
      rw [gt_iff_lt_swap] at a1
      rcases lex_trichotomy K w w' with h | h | h
      · rw [h.1] at a1; simp at a1
      · exact h.2.1
      · rw [h.2.2] at a2; simp at a2

/-! ### Pareto dominance on vectors of one dimension plus the empty vector -/

/-- the generated body of `dominating()` (a loop over `min(size, size)` components with an early
    exit) never faults — no component is read out of range, whatever the two lengths — and
    computes the scan `dominating` of `Model.lean` -/
theorem dom_code (a b : List α) :
    Gen.dominating K.cmp K.ops a b = some (dominating K.key a b) :=
  dominating_bridge K.key K.same K.ops a b

theorem opDom_eq (a b : List α) : opDom K a b = dominating K.key a b := by
  unfold opDom; rw [dom_code]; rfl

/-- equal lengths, or one of the two is the empty fitness of a failed evaluation -/
def SameDim (a b : List α) : Prop := a.length = b.length ∨ a = [] ∨ b = []

/-- what `dominating` computes on equal lengths: nowhere worse, somewhere better -/
theorem dom_iff (a b : List α) (h : a.length = b.length) :
    opDom K a b = true ↔ allGe K.key a b ∧ exGt K.key a b := by
  rw [opDom_eq]
  unfold dominating
  rw [domLoop_iff]
  cases a with
  | nil => simp [exGt]
  | cons x xs =>
    cases b with
    | nil => simp at h
    | cons y ys => simp

theorem nonempty_dom_empty (a : List α) (h : a ≠ []) :
    opDom K a [] = true ∧ opDom K [] a = false := by
  rw [opDom_eq, opDom_eq]
  cases a with
  | nil => exact absurd rfl h
  | cons x xs => simp [dominating, domLoop]

theorem dom_irrefl (a : List α) : opDom K a a = false := by
  cases h : opDom K a a with
  | false => rfl
  | true =>
    have := (dom_iff K a a rfl).1 h
    exact absurd this.2 (allGe_refl_not_exGt K.key a)

theorem empty_dom_nothing (b : List α) : opDom K [] b = false := by
  rw [opDom_eq]; simp [dominating, domLoop]

theorem dom_asymm (a b : List α) (hd : SameDim a b) :
    opDom K a b = true → opDom K b a = false := by
  intro h
  rcases hd with hl | he | he
  · cases h' : opDom K b a with
    | false => rfl
    | true =>
      have p := (dom_iff K a b hl).1 h
      have q := (dom_iff K b a hl.symm).1 h'
      exact absurd p.2 (allGe_antisymm_no_exGt K.key a b hl p.1 q.1)
  · subst he; rw [empty_dom_nothing] at h; simp at h
  · subst he; exact empty_dom_nothing K a

theorem dom_trans (a b c : List α) (h1 : SameDim a b) (h2 : SameDim b c) :
    opDom K a b = true → opDom K b c = true → opDom K a c = true := by
  intro p q
  by_cases ha : a = []
  · subst ha; rw [empty_dom_nothing] at p; simp at p
  by_cases hb : b = []
  · subst hb; rw [empty_dom_nothing] at q; simp at q
  by_cases hc : c = []
  · subst hc; exact (nonempty_dom_empty K a ha).1
  have l1 : a.length = b.length := by
    rcases h1 with h | h | h
    · exact h
    · exact absurd h ha
    · exact absurd h hb
  have l2 : b.length = c.length := by
    rcases h2 with h | h | h
    · exact h
    · exact absurd h hb
    · exact absurd h hc
  have p' := (dom_iff K a b l1).1 p
  have q' := (dom_iff K b c l2).1 q
  exact (dom_iff K a c (l1.trans l2)).2
    ⟨allGe_trans K.key a b c l1 l2 p'.1 q'.1, exGt_trans_left K.key a b c l1 l2 p'.2 p'.1 q'.1⟩

/-- dominance implies lexicographic superiority -/
theorem dom_imp_lex_gt (a b : List α) (hd : SameDim a b) :
    opDom K a b = true → opGt K a b = true := by
  intro h
  rw [gt_is_lex]
  rcases hd with hl | he | he
  · have p := (dom_iff K a b hl).1 h
    simp [dom_lexCmp K.key a b hl p.1 p.2]
  · subst he; rw [empty_dom_nothing] at h; simp at h
  · subst he
    cases a with
    | nil => rw [empty_dom_nothing] at h; simp at h
    | cons x xs => simp [lexCmp]

/-! ### `model_measurements::operator>=` (dominance ∧ accuracy not worse), as the code combines them -/

theorem mmGe_code (x y : MM α) :
    Gen.mmGe K.cmp K.ops x y =
      some (opDom K x.fitness y.fitness && decide (K.key y.accuracy ≤ K.key x.accuracy)) := by
  simp only [Gen.mmGe, dom_code, dominating_bridge, opDom_eq, call_some, Ctx.cmp, keyCmp_ge, keyCmp_le, keyCmp_lt, keyCmp_gt,
    sge, sle, sgt, slt, ite_some_and, ite_some_or, ite_some_not_and, ite_some_not_or, apply_ite, ite_self]
  try (cases dominating K.key x.fitness y.fitness <;> cases decide (K.key y.accuracy ≤ K.key x.accuracy) <;> rfl)

theorem mmGe_spec (x y : MM α) :
    opMmGe K x y = (opDom K x.fitness y.fitness && decide (K.key y.accuracy ≤ K.key x.accuracy)) := by
  unfold opMmGe; rw [mmGe_code]; rfl

theorem mmGe_irrefl (x : MM α) : opMmGe K x x = false := by
  rw [mmGe_spec, dom_irrefl]; rfl

theorem mmGe_asymm (x y : MM α) (hd : SameDim x.fitness y.fitness) :
    opMmGe K x y = true → opMmGe K y x = false := by
  rw [mmGe_spec, mmGe_spec]
  intro h
  simp only [Bool.and_eq_true] at h
  rw [dom_asymm K _ _ hd h.1]; rfl

theorem mmGe_trans (x y z : MM α) (h1 : SameDim x.fitness y.fitness) (h2 : SameDim y.fitness z.fitness) :
    opMmGe K x y = true → opMmGe K y z = true → opMmGe K x z = true := by
  rw [mmGe_spec, mmGe_spec, mmGe_spec]
  simp only [Bool.and_eq_true, decide_eq_true_eq]
  intro ⟨p, q⟩ ⟨r, s⟩
  exact ⟨dom_trans K _ _ _ h1 h2 p r, by omega⟩

end

/-! ### users of the order (`GenUsers.lean`: the call sites found in the library by the AST matchers)

  Each use is well defined for NaN-free values: what the standard library requires of a comparison
  (`std::map<fitness_t, …>` in `distribution`, `std::less`, and any algorithm of <algorithm> a
  future change instantiates over fitness values) and what the hand-written selection / replacement
  loops rely on. -/

section
variable {α : Type} (K : Ctx α)

/-- `<` is a strict weak ordering (the *Compare* requirements of std::sort / std::max_element /
    std::map): irreflexive, asymmetric, transitive, and incomparability is transitive (stated as
    negative transitivity: `a < c` implies `a < b` or `b < c`) -/
theorem lt_strict_weak :
    (∀ a, opLt K a a = false) ∧ (∀ a b, opLt K a b = true → opLt K b a = false) ∧
    (∀ a b c, opLt K a b = true → opLt K b c = true → opLt K a c = true) ∧
    (∀ a b c, opLt K a c = true → opLt K a b = true ∨ opLt K b c = true) := by
  refine ⟨lt_irrefl K, lt_asymm K, lt_trans K, ?_⟩
  intro a b c h
  rw [lt_is_lex] at h
  rcases lexCmp_lt_cases K.key a b c (by simpa using h) with h' | h'
  · left; rw [lt_is_lex, h']; rfl
  · right; rw [lt_is_lex, h']; rfl

/-- the equivalence a `std::map<fitness_t, …>` / `std::sort` sees (neither `a < b` nor `b < a`) is `==` -/
theorem incomp_is_eq (a b : List α) : (!opLt K a b && !opLt K b a) = opEq K a b := by
  rw [lt_is_lex, lt_is_lex, eq_is_lex, lexCmp_swap K.key a b]; cases lexCmp K.key a b <;> rfl

/-- `>` (the comparison of the descending insertion sort and of every "better than" test) is a strict
    weak ordering too -/
theorem gt_strict_weak :
    (∀ a, opGt K a a = false) ∧ (∀ a b, opGt K a b = true → opGt K b a = false) ∧
    (∀ a b c, opGt K a b = true → opGt K b c = true → opGt K a c = true) ∧
    (∀ a b c, opGt K a c = true → opGt K a b = true ∨ opGt K b c = true) := by
  have L := lt_strict_weak K
  refine ⟨fun a => by rw [gt_iff_lt_swap]; exact L.1 a,
    fun a b h => by rw [gt_iff_lt_swap] at h ⊢; exact L.2.1 b a h, gt_trans K, ?_⟩
  intro a b c h
  rw [gt_iff_lt_swap] at h
  rw [gt_iff_lt_swap K a b, gt_iff_lt_swap K b c]
  exact (L.2.2.2 c b a h).symm

/-- `>=` is total: of two values one is at least the other (`this->eva_(incoming) >= f_worst`) -/
theorem ge_total (a b : List α) : opGe K a b = true ∨ opGe K b a = true := by
  rw [ge_is_lex, ge_is_lex, lexCmp_swap K.key a b]; cases lexCmp K.key a b <;> simp

/-- best-so-far update `if (f > best) best = f` (replacement strategies, brood recombination,
    `search_stats::update`, `distribution::add`'s maximum): over any sequence of candidates the kept
    value is one of them and none is better -/
theorem keep_best_is_max (x : List α) (xs : List (List α)) :
    keepBest (opGt K) x xs ∈ x :: xs ∧ ∀ y ∈ x :: xs, opGt K y (keepBest (opGt K) x xs) = false :=
  keepBest_max (opGt K) (gt_strict_weak K).2.1 (gt_strict_weak K).2.2.2 xs x

/-- one update never makes the best worse, and the candidate is not better than the result -/
theorem best_update_ge (best f : List α) :
    opGe K (keepBest (opGt K) best [f]) best = true ∧ opGe K (keepBest (opGt K) best [f]) f = true := by
  simp only [keepBest, List.foldl_cons, List.foldl_nil]
  cases h : opGt K f best with
  | true =>
    simp only [if_true]
    refine ⟨?_, ?_⟩
    · rw [ge_iff_gt_or_eq, h]; rfl
    · rw [ge_is_lex, lexCmp_refl]; rfl
  | false =>
    simp only [Bool.false_eq_true, if_false]
    refine ⟨by rw [ge_is_lex, lexCmp_refl]; rfl, ?_⟩
    rw [ge_iff_not_lt, ← gt_iff_lt_swap, h]; rfl

/-- tracking a worst value with `<` (kill tournament of ALPS, `distribution::add`'s minimum): the kept
    value is a member that no member is below -/
theorem loser_is_min (x : List α) (xs : List (List α)) :
    keepBest (opLt K) x xs ∈ x :: xs ∧ ∀ y ∈ x :: xs, opLt K y (keepBest (opLt K) x xs) = false :=
  keepBest_max (opLt K) (lt_strict_weak K).2.1 (lt_strict_weak K).2.2.2 xs x

/-- `id_worst = fit_parent[0] < fit_parent[1] ? 0 : 1` picks a parent that is `<=` the other one -/
theorem worst_of_two (f0 f1 : List α) :
    (opLt K f0 f1 = true → opLe K f0 f1 = true) ∧ (opLt K f0 f1 = false → opLe K f1 f0 = true) := by
  rw [lt_is_lex, le_is_lex, le_is_lex, lexCmp_swap K.key f0 f1]
  cases lexCmp K.key f0 f1 <;> simp

/-- the insertion loop of `selection::tournament::run` keeps `ret` sorted in descending order
    (its debug assertion `eva(ret[i-1]) >= eva(ret[i])`) … -/
theorem tour_insert_sorted (x : List α) (ret : List (List α)) (h : DescSorted (opGe K) ret) :
    DescSorted (opGe K) (tourInsert (opGt K) x ret) := by
  unfold DescSorted tourInsert
  rw [List.reverse_reverse]
  refine insAsc_chain (opGt K) (opGe K) ?_ ?_ x _ h
  · intro a b hab; rw [ge_iff_gt_or_eq, hab]; rfl
  · intro a b hab; rw [ge_iff_not_lt, ← gt_iff_lt_swap, hab]; rfl

/-- … and only inserts: the result is a permutation of the old vector plus the new element -/
theorem tour_insert_perm (x : List α) (ret : List (List α)) :
    (tourInsert (opGt K) x ret).Perm (x :: ret) := by
  unfold tourInsert
  refine (List.reverse_perm _).trans ((insAsc_perm (opGt K) x ret.reverse).trans ?_)
  exact List.Perm.cons x (List.reverse_perm ret)

/-- the comparison of `std::pair<bool, fitness_t>` used by `selection::alps::run` is a strict weak
    ordering -/
theorem pairLt_strict_weak :
    (∀ p, pairLt (opLt K) p p = false) ∧
    (∀ p q, pairLt (opLt K) p q = true → pairLt (opLt K) q p = false) ∧
    (∀ p q r, pairLt (opLt K) p q = true → pairLt (opLt K) q r = true → pairLt (opLt K) p r = true) ∧
    (∀ p q r, pairLt (opLt K) p r = true → pairLt (opLt K) p q = true ∨ pairLt (opLt K) q r = true) := by
  have L := lt_strict_weak K
  refine ⟨?_, ?_, ?_, ?_⟩
  · intro ⟨pb, pf⟩; cases pb <;> simp [pairLt, L.1]
  · intro ⟨pb, pf⟩ ⟨qb, qf⟩
    cases pb <;> cases qb <;> simp only [pairLt] <;> simp
    all_goals exact L.2.1 pf qf
  · intro ⟨pb, pf⟩ ⟨qb, qf⟩ ⟨rb, rf⟩
    cases pb <;> cases qb <;> cases rb <;> simp only [pairLt] <;> simp
    all_goals exact L.2.2.1 pf qf rf
  · intro ⟨pb, pf⟩ ⟨qb, qf⟩ ⟨rb, rf⟩
    cases pb <;> cases qb <;> cases rb <;> simp only [pairLt] <;> simp
    all_goals exact L.2.2.2 pf qf rf

/-- `selection::alps::run` keeps `age_fit0 >= age_fit1` (its assertion; `>=` on pairs is `!(<)`) -/
theorem alps_top2_inv (s : (Bool × List α) × (Bool × List α)) (t : Bool × List α)
    (h : pairLt (opLt K) s.1 s.2 = false) :
    pairLt (opLt K) (top2Step (opLt K) s t).1 (top2Step (opLt K) s t).2 = false := by
  unfold top2Step
  cases h1 : pairLt (opLt K) s.1 t with
  | true => simp only [if_true]; exact (pairLt_strict_weak K).2.1 _ _ h1
  | false =>
    simp only [Bool.false_eq_true, if_false]
    cases h2 : pairLt (opLt K) s.2 t with
    | true => simp only [if_true]; exact h1
    | false => simp only [Bool.false_eq_true, if_false]; exact h

end

/-- every call site of a comparison on fitness values found in the library (`Gen.users`, extracted
    from the AST) uses an operator on a kind of operand whose well-definedness is proved above -/
theorem users_covered : ∀ u ∈ Gen.users, justifiedUse u = true := by decide

/-- the call sites that sort / rank (inside libstdc++ and in the selection strategies) compare with a
    strict weak ordering: `<` or `>` on fitness values or on `std::pair<bool, fitness_t>`, never with
    `>=`, `<=` or the partial order `dominating` -/
theorem ranking_users_strict_weak :
    ∀ u ∈ Gen.users, needsStrictWeakOrder u = true → (u.2.2.1, u.2.2.2) ∈ strictWeakOrders := by decide

/-! ### the bit-pattern instance -/

/-- both zeros have key 0 -/
theorem dkey_zeros : dkey 0 = 0 ∧ dkey 0x8000000000000000 = 0 := by decide

/-- distinct patterns with the same key are the two zeros: `==` on non-NaN doubles is
    equality of patterns up to the sign of zero -/
theorem dkey_inj (a b : UInt64) (h : dkey a = dkey b) :
    a = b ∨ (dkey a = 0 ∧ dkey b = 0) := by
  have ha := a.toNat_lt
  have hb := b.toNat_lt
  unfold dkey at *
  by_cases h0 : a.toNat = b.toNat
  · left; exact UInt64.toNat_inj.1 h0
  · right; split at h <;> split at h <;> constructor <;> split <;> omega

/-- positive patterns are ordered by magnitude, negative ones in reverse, negative below positive -/
theorem dkey_order (a b : UInt64) :
    (a.toNat < 9223372036854775808 → b.toNat < 9223372036854775808 →
      (dkey a < dkey b ↔ a.toNat < b.toNat)) ∧
    (9223372036854775808 ≤ a.toNat → 9223372036854775808 ≤ b.toNat →
      (dkey a < dkey b ↔ b.toNat < a.toNat)) ∧
    (9223372036854775808 < a.toNat → b.toNat < 9223372036854775808 → dkey a < dkey b) := by
  unfold dkey
  refine ⟨?_, ?_, ?_⟩ <;> intros <;> repeat' split
  all_goals omega

/-- The law tying the instance to the hardware: on non-NaN patterns the C++ built-in
    `<` / `==` of `double` are `dkey`-comparison.  It is a hypothesis about IEEE-754
    (never an axiom); the harness checks it on every pair of the boundary table and on
    random patterns in every run. -/
def KeyMono (hwLt hwEq : UInt64 → UInt64 → Bool) : Prop :=
  ∀ a b, isNaNBits a = false → isNaNBits b = false →
    hwLt a b = decide (dkey a < dkey b) ∧ hwEq a b = decide (dkey a = dkey b)

/-! ### element-wise arithmetic, predicates, joining, distance, rounding and printing: the generated
    bodies against the scalar definitions (for EVERY comparison interface and EVERY arithmetic:
    NaN, infinities and all lengths included) -/

section
variable {F : Type} (c : Cmp F) (o : FOps F)

/-- `a + b`: defined exactly when `b` is not shorter than `a`; the result has the length of `a` and
    component `i` is the scalar sum of components `i` (components of `b` beyond `a.size()` are ignored) -/
theorem add_get (a b : List F) (h : a.length ≤ b.length) :
    ∃ r, Gen.opAdd c o a b = some r ∧ r.length = a.length ∧
      ∀ i (hi : i < a.length), r[i]? = some (o.add a[i] (b[i]'(by omega))) := by
  rw [opAdd_bridge]; exact vzip_get o.add a b h
theorem sub_get (a b : List F) (h : a.length ≤ b.length) :
    ∃ r, Gen.opSub c o a b = some r ∧ r.length = a.length ∧
      ∀ i (hi : i < a.length), r[i]? = some (o.sub a[i] (b[i]'(by omega))) := by
  rw [opSub_bridge]; exact vzip_get o.sub a b h
theorem mul_get (a b : List F) (h : a.length ≤ b.length) :
    ∃ r, Gen.opMul c o a b = some r ∧ r.length = a.length ∧
      ∀ i (hi : i < a.length), r[i]? = some (o.mul a[i] (b[i]'(by omega))) := by
  rw [opMul_bridge]; exact vzip_get o.mul a b h

/-- a shorter right operand is read past its end (the code's `Expects(i < size())`) -/
theorem add_short (a b : List F) (h : b.length < a.length) : Gen.opAdd c o a b = none := by
  rw [opAdd_bridge]; exact vzip_none o.add a b h
theorem sub_short (a b : List F) (h : b.length < a.length) : Gen.opSub c o a b = none := by
  rw [opSub_bridge]; exact vzip_none o.sub a b h
theorem mul_short (a b : List F) (h : b.length < a.length) : Gen.opMul c o a b = none := by
  rw [opMul_bridge]; exact vzip_none o.mul a b h

/-- the binary operators are their compound assignments (`return lhs += rhs;`) -/
theorem op_eq_assign (a b : List F) :
    Gen.opAdd c o a b = Gen.addAssign c o a b ∧ Gen.opSub c o a b = Gen.subAssign c o a b ∧
      Gen.opMul c o a b = Gen.mulAssign c o a b := by
  rw [opAdd_bridge, opSub_bridge, opMul_bridge, addAssign_bridge, subAssign_bridge, mulAssign_bridge]
  exact ⟨rfl, rfl, rfl⟩

/-- the scalar helpers of utility.h -/
theorem roundToS_def (x : F) :
    Gen.roundToS c o x = some (o.mul (o.round (o.div x (o.lit bitsRoundEps))) (o.lit bitsRoundEps)) := by
  rw [roundToS_bridge]; rfl
theorem issmallS_def (x : F) :
    Gen.issmallS c o x = some (c.lt (o.abs x) (o.mul (o.lit bitsTwo) (o.lit bitsMachEps))) := by
  rw [issmallS_bridge]; rfl
theorem isnonnegativeS_def (x : F) : Gen.isnonnegativeS c o x = some (c.le (o.lit bitsZero) x) := by
  rw [isnonnegativeS_bridge]; rfl
theorem almostEqualS_def (x y e : F) :
    Gen.almostEqualS c o x y e =
      some (c.lt (o.abs (o.abs (o.sub x y))) (o.mul (o.lit bitsTwo) (o.lit bitsMachEps)) ||
        c.le (o.abs (o.sub x y)) (o.mul (if c.lt (o.abs x) (o.abs y) then o.abs y else o.abs x) e)) := by
  rw [almostEqualS_bridge]; rfl

/-- `f / v`, `f * v`, `abs`, `sqrt`, `round_to`: never fault, keep the length, component `i` of the
    result is the scalar function of component `i` -/
theorem divS_get (a : List F) (v : F) :
    ∃ r, Gen.opDivS c o a v = some r ∧ r.length = a.length ∧ ∀ i : Nat, r[i]? = a[i]?.map (o.div · v) := by
  rw [opDivS_bridge]; exact ⟨_, rfl, by simp [vdivS], fun i => by simp [vdivS]⟩
theorem mulS_get (a : List F) (v : F) :
    ∃ r, Gen.opMulS c o a v = some r ∧ r.length = a.length ∧ ∀ i : Nat, r[i]? = a[i]?.map (o.mul · v) := by
  rw [opMulS_bridge]; exact ⟨_, rfl, by simp [vmulS], fun i => by simp [vmulS]⟩
theorem abs_get (a : List F) :
    ∃ r, Gen.abs c o a = some r ∧ r.length = a.length ∧ ∀ i : Nat, r[i]? = a[i]?.map o.abs := by
  rw [abs_bridge]; exact ⟨_, rfl, by simp [vabs], fun i => by simp [vabs]⟩
theorem sqrt_get (a : List F) :
    ∃ r, Gen.sqrt c o a = some r ∧ r.length = a.length ∧ ∀ i : Nat, r[i]? = a[i]?.map o.sqrt := by
  rw [sqrt_bridge]; exact ⟨_, rfl, by simp [vsqrt], fun i => by simp [vsqrt]⟩
theorem round_get (a : List F) :
    ∃ r, Gen.roundTo c o a = some r ∧ r.length = a.length ∧
      ∀ i : Nat, r[i]? = a[i]?.map (fun x => o.mul (o.round (o.div x (o.lit bitsRoundEps))) (o.lit bitsRoundEps)) := by
  rw [roundTo_bridge]
  exact ⟨_, rfl, by simp [vround], fun i => by simp only [vround, List.getElem?_map]; rfl⟩

/-- the predicates: `isfinite` / `issmall` / `isnonnegative` hold of every component, `isnan` of some -/
theorem isfinite_all (a : List F) : Gen.isfinite c o a = some (a.all o.isfinite) := by
  rw [isfinite_bridge]; rfl
theorem isnan_any (a : List F) : Gen.isnan c o a = some (a.any o.isnan) := by
  rw [isnan_bridge]; rfl
theorem issmall_all (a : List F) :
    Gen.issmall c o a = some (a.all fun x => c.lt (o.abs x) (o.mul (o.lit bitsTwo) (o.lit bitsMachEps))) := by
  rw [issmall_bridge]; rfl
theorem isnonnegative_all (a : List F) :
    Gen.isnonnegative c o a = some (a.all fun x => c.le (o.lit bitsZero) x) := by
  rw [isnonnegative_bridge]; rfl

/-- `almost_equal(f1, f2, e)`: when `f2` is not shorter, every pair of components is almost equal -/
theorem almostEqual_all (a b : List F) (e : F) (h : a.length ≤ b.length) :
    Gen.almostEqual c o a b e = some ((List.zipWith (fun x y => aeqSpec c o x y e) a b).all id) := by
  rw [almostEqual_bridge]; exact vaeq_eq c o e a b h
/-- a shorter `f2` is read past its end unless an earlier pair already differs -/
theorem almostEqual_short (a b : List F) (e : F) (h : b.length < a.length) :
    Gen.almostEqual c o a b e = none ∨ Gen.almostEqual c o a b e = some false := by
  rw [almostEqual_bridge]; exact vaeq_short c o e a b h

/-- joining: the components of `f1` followed by those of `f2` -/
theorem combine_get (a b : List F) :
    ∃ r, Gen.combine c o a b = some r ∧ r.length = a.length + b.length ∧
      ∀ i : Nat, r[i]? = if i < a.length then a[i]? else b[i - a.length]? := by
  rw [combine_bridge]
  refine ⟨_, rfl, by simp [combine], fun i => ?_⟩
  simp only [combine, List.nil_append]
  split
  · rw [List.getElem?_append_left (by assumption)]
  · rw [List.getElem?_append_right (by omega)]

/-- taxicab distance: the left-to-right sum, from 0, of `|a_i − b_i|` -/
theorem distance_sum (a b : List F) (h : a.length ≤ b.length) :
    Gen.distance c o a b =
      some ((List.zipWith (fun x y => o.abs (o.sub x y)) a b).foldl o.add (o.lit bitsZero)) := by
  rw [distance_bridge]; exact distLoop_eq o _ a b h
theorem distance_short (a b : List F) (h : b.length < a.length) : Gen.distance c o a b = none := by
  rw [distance_bridge]; exact distLoop_none o _ a b h

/-- `operator<<`: `(` the components printed by `fmt`, separated by `", "` `)` -/
theorem show_spec (fmt : F → String) (a : List F) :
    Gen.showFit c o fmt a = some ("(" ++ joinSep ", " (a.map fmt) ++ ")") := by
  rw [showFit_bridge]; rfl

end

/-! ### the statements are not vacuous -/

example : opLt intCtx [1, 5] [2] = true := by decide
example : opLt intCtx [1] [1, 0] = true := by decide
example : opGe intCtx [] [] = true := by decide
example : opDom intCtx [1, 5] [1, 4] = true := by decide
example : opDom intCtx [2, 3] [1, 4] = false ∧ opDom intCtx [1, 4] [2, 3] = false := by decide
example : SameDim [1, 5] ([] : List Int) ∧ SameDim [1, 5] [1, 4] := ⟨Or.inr (Or.inr rfl), Or.inl rfl⟩
example : winner (opGt intCtx) [[1], [3], [2]] = some [3] := by decide
example : opMmGe intCtx ⟨[1, 5], 3⟩ ⟨[1, 4], 3⟩ = true := by decide
-- -0.0 == +0.0, -inf < -0.0, 1.0 < +inf on bit patterns
example : opEq bitsCtx [0x8000000000000000] [0] = true := by decide
example : opLt bitsCtx [0xFFF0000000000000] [0x8000000000000000] = true := by decide
example : opLt bitsCtx [0x3FF0000000000000] [0x7FF0000000000000] = true := by decide
example : isNaNBits 0x7FF0000000000000 = false ∧ isNaNBits 0x7FF8000000000000 = true ∧
    isNaNBits 0xFFF0000000000001 = true := by decide
-- element-wise code on integers: lengths 2 ≤ 3, the extra component of the right operand is ignored
example : Gen.opAdd intCtx.cmp intCtx.ops [1, 2] [10, 20, 30] = some [11, 22] := by decide
example : Gen.opAdd intCtx.cmp intCtx.ops [1, 2] [10] = none := by decide
example : Gen.almostEqual intCtx.cmp intCtx.ops [1, 2] [1] 0 = none := by decide
example : Gen.combine intCtx.cmp intCtx.ops [1] [2, 3] = some [1, 2, 3] := by decide
example : Gen.showFit intCtx.cmp intCtx.ops (fun x => toString x) [1, 2] = some "(1, 2)" := by decide
-- users: a descending vector stays descending, the ALPS pair order prefers "not aged"
example : DescSorted (opGe intCtx) [[3], [2], [2]] ∧ tourInsert (opGt intCtx) [2] [[3], [2], [1]] = [[3], [2], [2], [1]] := by
  refine ⟨?_, by decide⟩
  show AscChain (opGe intCtx) [[2], [2], [3]]
  exact ⟨by decide, by decide, trivial⟩
example : pairLt (opLt intCtx) (false, [9]) (true, [1]) = true ∧ pairLt (opLt intCtx) (true, [1]) (true, [2]) = true := by
  decide
example : Gen.users ≠ [] := by decide

end Vita.C18
