/-
  C19 line-protocol driver (model side of the correspondence).

    tables
        -> `F|key|arity|c-hex|cpp-hex|mql-hex|py-hex ... T|key|d0,d1,d2,d3 ...` the extracted table
    chk <fmt 0..3> <hex text printed by vita> <tree>
        -> `render=b sim=b lex=b parse=b ok=b term=b regular.. [model-hex]`
           render : the model of language() (sequential replace_all + strip) prints the same text
           sim    : sequential replace_all = simultaneous substitution on this tree
           lex    : scanning vita's text gives the substituted token list (outer pair stripped)
           parse  : the executable parser on vita's text returns the program's tree
                    (template trees with holes replaced by complete argument trees)
           ok     : that tree is precedence-consistent
           term   : every terminal of the tree satisfies `termSyn` (a self-contained operand)
           clean  : every terminal of the tree satisfies `clean` (hypothesis of seq_replace_ok)
           adm    : the program satisfies `Admissible`, the hypothesis of the theorems
           exact  : every numeric constant of the program prints exactly (`exact6` / `intExact`)
    gchk <fmt 0..3> <hex text printed by vita> <nrows> <ncats> <gene>*(nrows*ncats) <tree>
        -> the flags of `chk` computed on the program UNFOLDED by the model from locus [0,0] of the
           genome (row-major matrix), `render` being `exportG` (language() reading genes by locus), plus
           unf    : the unfolded program equals <tree> (the generator's own unfolding)
           wf     : the matrix satisfies `wfRows` (= i_mep::is_valid's argument-row conditions)
        gene ::= T <terminal index> <hex text> <bits> | F <symbol index> <n> (<arg category> <arg row>)*n
    team <fmt> <hex text printed for the team> <k> <member text hex>*k
        -> `team=b lines=b` : the team loop (extracted body, flag language_f + fmt) run on the members'
           texts gives the team's text / splitLines gives the members' texts back
    stream <op>*     ops as in the harness: c cpp mql py list dump inline tree graphviz long short pf<n> print fresh
        -> one `flag:long:L<k>` (language(symbol::format(k))) or `flag:long:F<callee>` per print
    repl <s hex> <from hex> <to hex>
        -> `<hex of replaceAll s from to> <hex of the EXTRACTED body of vita::replace_all run on (s, from, to) | fault> lit=b`
           lit : the result is the segmentation `occSplit from s` (which ignores `to`) joined with `to` verbatim
    term <fmt> <k> <hex text> <bits>   -> hex of the terminal's display
    parse <fmt> <hex>                  -> `some`/`none` and the token count
  tree ::= F <symbol index> <n> tree*n | T <terminal index> <hex text> <bits>
-/
import Vita.C19.Model
import Vita.C19.Genome
import Vita.C19.GenExport
import Vita.C19.Exact
import Vita.C19.Replace
import Vita.C19.GenReplace
open Vita.C19

def hexVal (c : Char) : Nat :=
  if '0' ≤ c ∧ c ≤ '9' then c.toNat - 48 else if 'a' ≤ c ∧ c ≤ 'f' then c.toNat - 87 else 0

def unhexGo : List Char → List Ch
  | a :: b :: r => (hexVal a * 16 + hexVal b) :: unhexGo r
  | _ => []

def unhex (s : String) : List Ch := if s == "-" then [] else unhexGo s.toList

def hexDigit (n : Nat) : Char := if n < 10 then Char.ofNat (48 + n) else Char.ofNat (87 + n)

def hex (s : List Ch) : String :=
  if s.isEmpty then "-" else String.ofList (s.flatMap fun b => [hexDigit (b / 16 % 16), hexDigit (b % 16)])

def forestOf : List Tree → Forest
  | [] => .nil
  | t :: r => .cons t (forestOf r)

/-- prefix-notation tree reader -/
def readTree : Nat → List String → Option (Tree × List String)
  | 0, _ => none
  | fuel + 1, "T" :: k :: h :: b :: r =>
      match k.toNat?, b.toNat? with
      | some k, some b => some (.tm k (unhex h) b, r)
      | _, _ => none
  | fuel + 1, "F" :: s :: n :: r =>
      match s.toNat?, n.toNat? with
      | some s, some n =>
          let rec kidsGo (m : Nat) (acc : List Tree) (r : List String) : Option (List Tree × List String) :=
            match m with
            | 0 => some (acc.reverse, r)
            | m + 1 => match readTree fuel r with
                       | some (t, r') => kidsGo m (t :: acc) r'
                       | none => none
          match kidsGo n [] r with
          | some (ks, r') => some (.fn s (forestOf ks), r')
          | none => none
      | _, _ => none
  | _, _ => none

mutual
  def termsOk (p : List Ch → Bool) (f : Fmt) : Tree → Bool
    | .tm k text bits => p (termStr Gen.terminals f k text bits)
    | .fn _ kids => termsOkF p f kids
  def termsOkF (p : List Ch → Bool) (f : Fmt) : Forest → Bool
    | .nil => true
    | .cons t r => termsOk p f t && termsOkF p f r
end

def stripToks (ts : List Tok) : List Tok :=
  if ts.length > 1 ∧ ts.head? = some Tok.lp ∧ ts.getLast? = some Tok.rp then (ts.drop 1).dropLast else ts

def b01 (b : Bool) : String := if b then "1" else "0"

def dispName (ps : List TPart) : String :=
  "+".intercalate (ps.map fun
    | .lit s => "lit:" ++ hex s
    | .toStrD => "toStrD"
    | .toStrI => "toStrI"
    | .name => "name"
    | .quote => "quote")


mutual
  def treeEq : Tree → Tree → Bool
    | .tm k1 t1 b1, .tm k2 t2 b2 => k1 == k2 && t1 == t2 && b1 == b2
    | .fn s1 k1, .fn s2 k2 => s1 == s2 && forestEq k1 k2
    | _, _ => false
  def forestEq : Forest → Forest → Bool
    | .nil, .nil => true
    | .cons a r, .cons b q => treeEq a b && forestEq r q
    | _, _ => false
end

/-- one gene of the matrix -/
def readGene : List String → Option (Gene × List String)
  | "T" :: k :: h :: b :: r =>
      match k.toNat?, b.toNat? with
      | some k, some b => some (.tm k (unhex h) b, r)
      | _, _ => none
  | "F" :: s :: n :: r =>
      match s.toNat?, n.toNat? with
      | some s, some n =>
          let rec go (m : Nat) (ac ar : List Nat) (r : List String) : Option (Gene × List String) :=
            match m, r with
            | 0, r => some (.fn s ac.reverse ar.reverse, r)
            | m + 1, c :: a :: r' =>
                match c.toNat?, a.toNat? with
                | some c, some a => go m (c :: ac) (a :: ar) r'
                | _, _ => none
            | _, _ => none
          go n [] [] r
      | _, _ => none
  | _ => none

def readRow : Nat → List String → Option (List Gene × List String)
  | 0, r => some ([], r)
  | n + 1, r => match readGene r with
                | some (g, r') => match readRow n r' with
                                  | some (gs, r'') => some (g :: gs, r'')
                                  | none => none
                | none => none

def readRows : Nat → Nat → List String → Option (List (List Gene) × List String)
  | 0, _, r => some ([], r)
  | n + 1, c, r => match readRow c r with
                   | some (row, r') => match readRows n c r' with
                                       | some (rows, r'') => some (row :: rows, r'')
                                       | none => none
                   | none => none

/-- the flags of `chk` for the tree `t`, `model` being the text the model prints -/
def flags (f : Fmt) (text model : List Ch) (t : Tree) : String :=
  let fns := Gen.functions
  let tms := Gen.terminals
  let sim := stripOuter (simT fns tms f t)
  let toks := lexS f text
  let a := astT fns tms f t
  let want := stripAst a
  let fl := firstList fns tms f
  s!"render={b01 (model == text)} sim={b01 (sim == model)} lex={b01 (toks == stripToks (toksT fns tms f t))} " ++
  s!"parse={b01 (parse f toks == some want)} ok={b01 (ok f hl a && flat want == toks)} " ++
  s!"term={b01 (termsOk (termSyn f fl) f t)} clean={b01 (termsOk clean f t)} " ++
  s!"adm={b01 (wfT fns t && termsT (termOk f fl) tms f t && termsT (rendOk f fl) tms f t)} " ++
  s!"exact={b01 (exactT tms f t)}"

def answer (line : String) : String :=
  match line.trimAscii.toString.splitOn " " with
  | ["tables"] =>
      let fs := Gen.functions.map fun s =>
        "F|" ++ s.key ++ "|" ++ toString s.arity ++ "|" ++ hex s.name ++ "|" ++
          "|".intercalate (Fmt.all.map fun f => hex (s.tplOf f))
      let ts := Gen.terminals.map fun t =>
        "T|" ++ t.key ++ "|" ++ hex t.name ++ "|" ++ "|".intercalate (t.disp.map dispName)
      " ".intercalate (fs ++ ts)
  | "chk" :: fm :: h :: rest =>
      match fm.toNat?, readTree 100000 rest with
      | some fi, some (t, []) =>
          let f := Fmt.ofIdx fi
          let text := unhex h
          let model := language Gen.functions Gen.terminals f t
          flags f text model t ++ (if model == text then "" else " " ++ hex model)
      | _, _ => "bad-op"
  | "gchk" :: fm :: h :: nr :: nc :: rest =>
      match fm.toNat?, nr.toNat?, nc.toNat? with
      | some fi, some nr, some nc =>
          match readRows nr nc rest with
          | some (rows, rest') =>
              match readTree 100000 rest' with
              | some (t, []) =>
                  let f := Fmt.ofIdx fi
                  let text := unhex h
                  let g := Genome.ofRows rows
                  let model := exportG Gen.functions Gen.terminals f g nr ⟨0, 0⟩
                  let t' := unfoldG Gen.functions g nr ⟨0, 0⟩
                  flags f text model t' ++ s!" unf={b01 (treeEq t t')} wf={b01 (wfRows Gen.functions rows)}" ++
                    (if model == text then "" else " " ++ hex model)
              | _ => "bad-op"
          | none => "bad-op"
      | _, _, _ => "bad-op"
  | "team" :: fm :: h :: k :: rest =>
      match k.toNat?, fm.toNat? with
      | some k, some fi =>
          if rest.length != k then "bad-op" else
          let ms := rest.map unhex
          let text := unhex h
          s!"team={b01 (teamExec Gen.teamBody (Gen.dispatchBase + fi) ms == text)} lines={b01 (splitLines text == ms)}"
      | _, _ => "bad-op"
  | "stream" :: ops =>
      let toOp (t : String) : Option Op :=
        match t with
        | "c" => some (.manip "c_language" 0) | "cpp" => some (.manip "cpp_language" 0)
        | "mql" => some (.manip "mql_language" 0) | "py" => some (.manip "python_language" 0)
        | "list" => some (.manip "list" 0) | "dump" => some (.manip "dump" 0)
        | "inline" => some (.manip "in_line" 0) | "tree" => some (.manip "tree" 0)
        | "graphviz" => some (.manip "graphviz" 0) | "long" => some (.manip "long_form" 0)
        | "short" => some (.manip "short_form" 0) | "print" => some .print | "fresh" => some .fresh
        | _ => if t.startsWith "pf" then (t.drop 2).toNat?.map (.manip "print_format" ·) else none
      match ops.mapM toOp with
      | some os =>
          let out := runOps Gen.manipulators Gen.dispatchCases Gen.dispatchBase Gen.formatSlot Gen.longSlot
                       StreamSt.fresh os
          if out.isEmpty then "-" else
          " ".intercalate (out.map fun (pf, lf, sh) =>
            s!"{pf}:{lf}:" ++ (match sh with | .lang k => s!"L{k}" | .fn c => "F" ++ c))
      | none => "bad-op"
  | ["repl", hs, hf, ht] =>
      let s := unhex hs
      let frm := unhex hf
      let to := unhex ht
      let m := replaceAll s frm to
      let code := match runBody Gen.replaceAllBody s frm to with
                  | some r => hex r
                  | none => "fault"
      s!"{hex m} {code} lit={b01 (frm.isEmpty || joinWith to (occSplit frm s) == m)}"
  | ["term", fm, k, h, b] =>
      match fm.toNat?, k.toNat?, b.toNat? with
      | some fi, some k, some b => hex (termStr Gen.terminals (Fmt.ofIdx fi) k (unhex h) b)
      | _, _, _ => "bad-op"
  | ["parse", fm, h] =>
      match fm.toNat? with
      | some fi =>
          let toks := lexS (Fmt.ofIdx fi) (unhex h)
          (if (parse (Fmt.ofIdx fi) toks).isSome then "some " else "none ") ++ toString toks.length
      | none => "bad-op"
  | _ => "bad-op"

partial def loop (h : IO.FS.Stream) (out : IO.FS.Stream) : IO Unit := do
  let line ← h.getLine
  if line.isEmpty then return ()
  out.putStrLn (answer line)
  loop h out

def main : IO Unit := do
  loop (← IO.getStdin) (← IO.getStdout)
