/-
  C19 — "programs whose constants print exactly": reading a printed numeric constant back.

  `std::to_string(double)` prints 6 decimals (`fmtF64`, Render.lean).  The compiled C text and
  the interpreter compute with the same number only when those 6 decimals ARE the constant:
    * `readSigned6`  the value (sign, millionths) denoted by a text `[-]digits.dddddd`
    * `scaled6`      the number of millionths `fmtF64` prints
    * `exact6`       the constant is a multiple of 10⁻⁶ in binary: nothing is rounded away
    * `intExact`     the constant is an integer that fits an `int` (the `to_string(int)` classes)
-/
import Vita.C19.Render
namespace Vita.C19

def digitVal (c : Nat) : Nat := c - 48

def readNatGo (acc : Nat) (s : List Nat) : Nat := s.foldl (fun a c => a * 10 + digitVal c) acc

/-- the number denoted by a string of decimal digits -/
def readNat (s : List Nat) : Nat := readNatGo 0 s

/-- split at the first '.' -/
def splitDot : List Nat → List Nat → Option (List Nat × List Nat)
  | _, [] => none
  | acc, c :: s => if c = 46 then some (acc.reverse, s) else splitDot (c :: acc) s

/-- millionths denoted by `digits.dddddd` -/
def readDec6 (s : List Nat) : Option Nat :=
  match splitDot [] s with
  | some (ip, fp) => if fp.length = 6 then some (readNat ip * 1000000 + readNat fp) else none
  | none => none

/-- (negative?, millionths) denoted by `[-]digits.dddddd` -/
def readSigned6 : List Nat → Option (Bool × Nat)
  | 45 :: s => (readDec6 s).map fun n => (true, n)
  | s => (readDec6 s).map fun n => (false, n)

def f64Mant (bits : Nat) : Nat := if bits / 2 ^ 52 % 2048 = 0 then bits % 2 ^ 52 else 2 ^ 52 + bits % 2 ^ 52
def f64Exp (bits : Nat) : Int := (if bits / 2 ^ 52 % 2048 = 0 then 1 else ((bits / 2 ^ 52 % 2048 : Nat) : Int)) - 1075

/-- the number of millionths `std::to_string(double)` prints for a finite double -/
def scaled6 (bits : Nat) : Nat :=
  if 0 ≤ f64Exp bits then f64Mant bits * 2 ^ (f64Exp bits).toNat * 1000000
  else roundDiv (f64Mant bits * 1000000) (2 ^ (-(f64Exp bits)).toNat)

/-- the double is finite and a whole number of millionths -/
def exact6 (bits : Nat) : Bool :=
  decide (bits / 2 ^ 52 % 2048 ≠ 2047) &&
  (decide (0 ≤ f64Exp bits) || decide (f64Mant bits * 1000000 % 2 ^ (-(f64Exp bits)).toNat = 0))

/-- the double is finite, a whole number, and `static_cast<int>` of it is defined -/
def intExact (bits : Nat) : Bool :=
  decide (bits / 2 ^ 52 % 2048 ≠ 2047) &&
  (decide (0 ≤ f64Exp bits) || decide (f64Mant bits % 2 ^ (-(f64Exp bits)).toNat = 0)) &&
  decide ((truncF64 bits).natAbs ≤ 2147483647)

/-- does the terminal (class `k`, parameter `bits`) print its value exactly in format `f`? -/
def termExact (tms : List TmSym) (f : Fmt) (k : Nat) (bits : Nat) : Bool :=
  match tms[k]? with
  | none => true
  | some t =>
      let d := t.disp.getD f.idx []
      (!d.contains .toStrD || exact6 bits) && (!d.contains .toStrI || intExact bits)

mutual
  def exactT (tms : List TmSym) (f : Fmt) : Tree → Bool
    | .tm k _ bits => termExact tms f k bits
    | .fn _ kids => exactF tms f kids
  def exactF (tms : List TmSym) (f : Fmt) : Forest → Bool
    | .nil => true
    | .cons t r => exactT tms f t && exactF tms f r
end

end Vita.C19
