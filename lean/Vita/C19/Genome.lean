/-
  C19 — the genome level of `language()` (src/kernel/gp/mep/i_mep.cc), as written.

  A MEP individual is a matrix `genome_(row, category)` of genes; a gene holds a symbol and, for a
  function, the ROW of every argument (`args[i]`); the CATEGORY of argument i belongs to the
  symbol instance (`function::arg_category(i)`), so
      g.locus_of_argument(i) = {g.args[i], function::cast(g.sym)->arg_category(i)}
  and the recursive lambda of language() is `language_(mep[g.locus_of_argument(i)])`: the text of
  an argument is a function of the LOCUS (row AND category) it is read from.  Two active genes of
  one row (same index, different category) are different genes with different texts.

  * `Gene`, `Locus`, `Genome`   the data, `Genome.ofRows` for a concrete matrix
  * `argLoci`                   `g.locus_of_argument(i)`, i < arity
  * `langG`                     the `language_` lambda on the genome (recursion through the
                                genome: fuel = number of rows is enough because an argument's row
                                is larger than the gene's – `i_mep::is_valid`, here `WfG`)
  * `exportG`                   `out::X_language << individual`
  * `unfoldG`                   the program as a tree, unfolded from a locus (a shared gene – the
                                genome is a DAG – is unfolded once per reference, as the code
                                renders it once per reference)
  * `Active`                    the loci reachable from a locus (the active genes)
  * `teamG`                     `operator<<(team)`: every member's text followed by '\n'
-/
import Vita.C19.Render
namespace Vita.C19

structure Locus where
  row : Nat
  cat : Nat
  deriving DecidableEq, Repr, Inhabited

/-- a gene.  `tm`: terminal class index, the text a name/quote display prints, the bits of the
    parameter; `fn`: function class index, `arg_category(i)` of this symbol instance, `args[i]` -/
inductive Gene where
  | tm (k : Nat) (text : List Ch) (bits : Nat)
  | fn (s : Nat) (acat : List Nat) (args : List Nat)
  deriving DecidableEq, Repr, Inhabited

/-- `mep[l]` -/
abbrev Genome := Locus → Gene

/-- the genome held in a concrete `matrix<gene>` (rows × categories) -/
def Genome.ofRows (rows : List (List Gene)) : Genome :=
  fun l => (rows.getD l.row []).getD l.cat (.tm 0 [] 0)

/-- `g.locus_of_argument(i)` for i = 0 .. arity-1 -/
def argLoci (arity : Nat) (acat args : List Nat) : List Locus :=
  (List.range arity).map fun i => ⟨args.getD i 0, acat.getD i 0⟩

/-- the `language_` lambda, reading genes through `mep[locus]` -/
def langG (fns : List FnSym) (tms : List TmSym) (f : Fmt) (g : Genome) : Nat → Locus → List Ch
  | 0, _ => []
  | fuel + 1, l =>
      match g l with
      | .tm k text bits => termStr tms f k text bits
      | .fn s acat args =>
          match fns[s]? with
          | none => []
          | some sym =>
              seqRepl 1 ((argLoci sym.arity acat args).map (langG fns tms f g fuel)) (sym.tplOf f)

/-- what `out::X_language << individual` prints for a genome of `n` rows whose best locus is
    `best` -/
def exportG (fns : List FnSym) (tms : List TmSym) (f : Fmt) (g : Genome) (n : Nat) (best : Locus) :
    List Ch :=
  stripOuter (langG fns tms f g n best)

def forestOfList : List Tree → Forest
  | [] => .nil
  | t :: r => .cons t (forestOfList r)

/-- the program unfolded from a locus.  Out of fuel (impossible on a well-formed genome, see
    `unfold_fuel_irrelevant`) it yields a node with an index outside the table, which prints
    nothing – exactly what `langG` prints out of fuel. -/
def unfoldG (fns : List FnSym) (g : Genome) : Nat → Locus → Tree
  | 0, _ => .fn fns.length .nil
  | fuel + 1, l =>
      match g l with
      | .tm k text bits => .tm k text bits
      | .fn s acat args =>
          match fns[s]? with
          | none => .fn s .nil
          | some sym => .fn s (forestOfList ((argLoci sym.arity acat args).map (unfoldG fns g fuel)))

/-- `i_mep::is_valid`: the arguments of a function gene in row i live in rows i+1 .. n-1 -/
def WfG (fns : List FnSym) (g : Genome) (n : Nat) : Prop :=
  ∀ l s acat args sym, l.row < n → g l = .fn s acat args → fns[s]? = some sym →
    ∀ i, i < sym.arity → l.row < args.getD i 0 ∧ args.getD i 0 < n

/-- the same, decidable, for a concrete matrix -/
def wfGene (fns : List FnSym) (n row : Nat) : Gene → Bool
  | .tm _ _ _ => true
  | .fn s _ args =>
      match fns[s]? with
      | none => true
      | some sym => (List.range sym.arity).all fun i => decide (row < args.getD i 0) && decide (args.getD i 0 < n)

def wfRowsGo (fns : List FnSym) (n : Nat) : Nat → List (List Gene) → Bool
  | _, [] => true
  | row, r :: rs => r.all (wfGene fns n row) && wfRowsGo fns n (row + 1) rs

def wfRows (fns : List FnSym) (rows : List (List Gene)) : Bool := wfRowsGo fns rows.length 0 rows

/-- `Active fns g l m`: the gene at `m` is reached when the program is read from `l` (the active
    genes of the individual are `Active fns g best`) -/
inductive Active (fns : List FnSym) (g : Genome) : Locus → Locus → Prop where
  | root (l : Locus) : Active fns g l l
  | arg {l m : Locus} {s : Nat} {acat args : List Nat} {sym : FnSym} {i : Nat} :
      Active fns g l m → g m = .fn s acat args → fns[s]? = some sym → i < sym.arity →
      Active fns g l ⟨args.getD i 0, acat.getD i 0⟩

/-- `operator<<(std::ostream &, const team<T> &)` in a language format: every member, each
    followed by a newline -/
def teamG (members : List (List Ch)) : List Ch := members.flatMap (· ++ [10])

/-- the lines of a text that ends every line with '\n' -/
def splitLinesGo : List Ch → List Ch → List (List Ch)
  | [], _ => []
  | c :: s, acc => if c = 10 then acc.reverse :: splitLinesGo s [] else splitLinesGo s (c :: acc)

def splitLines (s : List Ch) : List (List Ch) := splitLinesGo s []

end Vita.C19
