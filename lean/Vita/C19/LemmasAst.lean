/-
  C19 — lemmas at the token / tree level: substitution commutes with `flat`, preserves `ok`
  and the level; induction on programs (`good_tree`).
-/
import Vita.C19.Model
namespace Vita.C19

theorem substToks_append (σ : Nat → List Tok) (x y : List Tok) :
    substToks σ (x ++ y) = substToks σ x ++ substToks σ y := by
  induction x with
  | nil => rfl
  | cons t r ih =>
    cases t <;> simp [substToks, ih, List.append_assoc]

/-- token lists without holes are not changed -/
def noHole : List Tok → Bool
  | [] => true
  | .hole _ :: _ => false
  | _ :: r => noHole r

theorem substToks_noHole (σ : Nat → List Tok) (ts : List Tok) (h : noHole ts = true) :
    substToks σ ts = ts := by
  induction ts with
  | nil => rfl
  | cons t r ih =>
    cases t <;> simp_all [substToks, noHole]

theorem qualTail_noHole : ∀ (n : Nat) (ts : List Tok), ts.length ≤ n → qualTail ts = true → noHole ts = true := by
  intro n
  induction n with
  | zero =>
    intro ts hl _
    cases ts with
    | nil => rfl
    | cons _ _ => simp at hl
  | succ n ih =>
    intro ts hl h
    unfold qualTail at h
    split at h
    · rfl
    · rename_i r
      simp [noHole]
      apply ih r _ h
      simp at hl; omega
    · rename_i r
      simp [noHole]
      apply ih r _ h
      simp at hl; omega
    · simp at h

theorem leafOk_noHole (f : Fmt) (ts : List Tok) (h : leafOk f ts = true) : noHole ts = true := by
  unfold leafOk at h
  split at h
  · rfl
  · rfl
  · rename_i s r
    simp at h
    simp [noHole]
    rcases h.2 with h2 | h2
    · simp_all [noHole]
    · exact qualTail_noHole r.length r (Nat.le_refl _) h2.2
  · simp at h

theorem preLevel_notHole (f : Fmt) (op : Tok) (p : Nat) (h : preLevel f op = some p) :
    ∀ i, op ≠ .hole i := by
  intro i hi
  subst hi
  simp [preLevel] at h

theorem binLevel_notHole (f : Fmt) (op : Tok) (p : Nat) (h : binLevel f op = some p) :
    ∀ i, op ≠ .hole i := by
  intro i hi
  subst hi
  simp [binLevel] at h

theorem substToks_cons_notHole (σ : Nat → List Tok) (t : Tok) (r : List Tok)
    (h : ∀ i, t ≠ .hole i) : substToks σ (t :: r) = t :: substToks σ r := by
  cases t <;> simp_all [substToks]

/-- `flat` commutes with substitution (for precedence-consistent trees) -/
theorem flat_subst (f : Fmt) (hl : Nat) (σ : Nat → Ast) :
    ∀ a : Ast, ok f hl a = true →
      flat (subst σ a) = substToks (fun i => flat (σ i)) (flat a) := by
  intro a
  induction a with
  | leaf ts =>
    intro h
    simp only [ok] at h
    simp [subst, flat, substToks_noHole _ ts (leafOk_noHole f ts h)]
  | hole i => intro _; simp [subst, flat, substToks]
  | paren e ih =>
    intro h
    simp only [ok, Bool.and_eq_true] at h
    simp [subst, flat, substToks, substToks_append, ih h.1]
  | call g a ihg iha =>
    intro h
    simp only [ok, Bool.and_eq_true] at h
    simp [subst, flat, substToks, substToks_append, ihg h.1.1.1, iha h.1.2]
  | call0 g ih =>
    intro h
    simp only [ok, Bool.and_eq_true] at h
    simp [subst, flat, substToks, substToks_append, ih h.1]
  | member e n ih =>
    intro h
    simp only [ok, Bool.and_eq_true] at h
    simp [subst, flat, substToks, substToks_append, ih h.1, tDot]
  | un op e ih =>
    intro h
    simp only [ok] at h
    split at h
    · rename_i p hp
      simp only [Bool.and_eq_true] at h
      simp [subst, flat, substToks_cons_notHole _ op _ (preLevel_notHole f op p hp), ih h.1]
    · simp at h
  | cast ty e ih =>
    intro h
    simp only [ok, Bool.and_eq_true] at h
    simp [subst, flat, substToks, ih h.1.2]
  | bin op l r ihl ihr =>
    intro h
    simp only [ok] at h
    split at h
    · rename_i p hp
      simp only [Bool.and_eq_true] at h
      simp [subst, flat, substToks_append,
        substToks_cons_notHole _ op _ (binLevel_notHole f op p hp), ihl h.1.1.1, ihr h.1.1.2]
    · simp at h
  | tern c a b ihc iha ihb =>
    intro h
    simp only [ok, Bool.and_eq_true] at h
    simp [subst, flat, substToks, substToks_append, tQ, tColon, ihc h.1.1.1.1.1.2, iha h.1.1.1.1.2,
      ihb h.1.1.1.2]
  | pyif a c b iha ihc ihb =>
    intro h
    simp only [ok, Bool.and_eq_true] at h
    simp [subst, flat, substToks, substToks_append, kIf, kElse, iha h.1.1.1.1.1.2, ihc h.1.1.1.1.2,
      ihb h.1.1.1.2]

/-- substitution can only raise the level (holes are assumed to have level `hl`) -/
theorem lvl_subst_ge (f : Fmt) (hl n : Nat) (σ : Nat → Ast)
    (hσ : ∀ i, 1 ≤ i → i ≤ n → hl ≤ lvl f hl (σ i)) :
    ∀ a : Ast, holesIn n a = true → lvl f hl a ≤ lvl f hl (subst σ a) := by
  intro a h
  cases a <;> simp_all [subst, lvl, holesIn]

/-- substitution of consistent trees of level ≥ `hl` into a consistent tree is consistent -/
theorem ok_subst (f : Fmt) (hl n : Nat) (σ : Nat → Ast)
    (hσ : ∀ i, 1 ≤ i → i ≤ n → ok f hl (σ i) = true ∧ hl ≤ lvl f hl (σ i)) :
    ∀ a : Ast, holesIn n a = true → ok f hl a = true → ok f hl (subst σ a) = true := by
  have hge := lvl_subst_ge f hl n σ (fun i h1 h2 => (hσ i h1 h2).2)
  intro a
  induction a with
  | leaf ts => intro _ h; simpa [subst] using h
  | hole i =>
    intro hh _
    simp only [holesIn, Bool.and_eq_true, decide_eq_true_eq] at hh
    simpa [subst] using (hσ i hh.1 hh.2).1
  | paren e ih =>
    intro hh h
    simp only [holesIn] at hh
    simp only [ok, Bool.and_eq_true, decide_eq_true_eq] at h
    have := hge e hh
    simp only [subst, ok, Bool.and_eq_true, decide_eq_true_eq]
    exact ⟨ih hh h.1, by omega⟩
  | call g a ihg iha =>
    intro hh h
    simp only [holesIn, Bool.and_eq_true] at hh
    simp only [ok, Bool.and_eq_true, decide_eq_true_eq] at h
    have h1 := hge g hh.1
    have h2 := hge a hh.2
    simp only [subst, ok, Bool.and_eq_true, decide_eq_true_eq]
    exact ⟨⟨⟨ihg hh.1 h.1.1.1, by omega⟩, iha hh.2 h.1.2⟩, by omega⟩
  | call0 g ih =>
    intro hh h
    simp only [holesIn] at hh
    simp only [ok, Bool.and_eq_true, decide_eq_true_eq] at h
    have := hge g hh
    simp only [subst, ok, Bool.and_eq_true, decide_eq_true_eq]
    exact ⟨ih hh h.1, by omega⟩
  | member e nm ih =>
    intro hh h
    simp only [holesIn] at hh
    simp only [ok, Bool.and_eq_true, decide_eq_true_eq] at h
    have := hge e hh
    simp only [subst, ok, Bool.and_eq_true, decide_eq_true_eq]
    exact ⟨ih hh h.1, by omega⟩
  | un op e ih =>
    intro hh h
    simp only [holesIn] at hh
    simp only [ok] at h
    simp only [subst, ok]
    split at h
    · rename_i p hp
      simp only [Bool.and_eq_true, decide_eq_true_eq] at h
      have := hge e hh
      simp only [Bool.and_eq_true, decide_eq_true_eq]
      exact ⟨ih hh h.1, by omega⟩
    · simp at h
  | cast ty e ih =>
    intro hh h
    simp only [holesIn] at hh
    simp only [ok, Bool.and_eq_true, decide_eq_true_eq] at h
    have := hge e hh
    simp only [subst, ok, Bool.and_eq_true, decide_eq_true_eq]
    exact ⟨⟨⟨h.1.1.1, h.1.1.2⟩, ih hh h.1.2⟩, by omega⟩
  | bin op l r ihl ihr =>
    intro hh h
    simp only [holesIn, Bool.and_eq_true] at hh
    simp only [ok] at h
    simp only [subst, ok]
    split at h
    · rename_i p hp
      simp only [Bool.and_eq_true, decide_eq_true_eq] at h
      have h1 := hge l hh.1
      have h2 := hge r hh.2
      simp only [Bool.and_eq_true, decide_eq_true_eq]
      exact ⟨⟨⟨ihl hh.1 h.1.1.1, ihr hh.2 h.1.1.2⟩, by omega⟩, by omega⟩
    · simp at h
  | tern c a b ihc iha ihb =>
    intro hh h
    simp only [holesIn, Bool.and_eq_true] at hh
    simp only [ok, Bool.and_eq_true, decide_eq_true_eq] at h
    have h1 := hge c hh.1.1
    have h2 := hge a hh.1.2
    have h3 := hge b hh.2
    simp only [subst, ok, Bool.and_eq_true, decide_eq_true_eq]
    refine ⟨⟨⟨⟨⟨⟨h.1.1.1.1.1.1, ihc hh.1.1 h.1.1.1.1.1.2⟩, iha hh.1.2 h.1.1.1.1.2⟩,
      ihb hh.2 h.1.1.1.2⟩, by omega⟩, by omega⟩, by omega⟩
  | pyif a c b iha ihc ihb =>
    intro hh h
    simp only [holesIn, Bool.and_eq_true] at hh
    simp only [ok, Bool.and_eq_true, decide_eq_true_eq] at h
    have h1 := hge a hh.1.1
    have h2 := hge c hh.1.2
    have h3 := hge b hh.2
    simp only [subst, ok, Bool.and_eq_true, decide_eq_true_eq]
    refine ⟨⟨⟨⟨⟨⟨h.1.1.1.1.1.1, iha hh.1.1 h.1.1.1.1.1.2⟩, ihc hh.1.2 h.1.1.1.1.2⟩,
      ihb hh.2 h.1.1.1.2⟩, by omega⟩, by omega⟩, by omega⟩

end Vita.C19

namespace Vita.C19

/-- `a` is a precedence-consistent tree of level ≥ `hl` whose token list is `ts` -/
def Good (f : Fmt) (a : Ast) (ts : List Tok) : Prop :=
  flat a = ts ∧ ok f hl a = true ∧ hl ≤ lvl f hl a

theorem fmt_mem_all (f : Fmt) : f ∈ Fmt.all := by
  cases f <;> simp [Fmt.all]

theorem safe_of_all {fns : List FnSym} (hs : allSafe fns = true) {s : Nat} {sym : FnSym}
    (h : fns[s]? = some sym) (f : Fmt) : safeTpl f sym = true := by
  unfold allSafe at hs
  rw [List.all_eq_true] at hs
  have hm : sym ∈ fns := List.mem_of_getElem? h
  have := hs sym hm
  rw [List.all_eq_true] at this
  exact this f (fmt_mem_all f)

/-- what `safeTpl` gives about the parse of a template -/
theorem safeTpl_spec {f : Fmt} {sym : FnSym} (h : safeTpl f sym = true) :
    flat (tplAst f sym) = lexT f sym.arity (sym.tplOf f) ∧ ok f hl (tplAst f sym) = true ∧
    hl ≤ lvl f hl (tplAst f sym) ∧ holesIn sym.arity (tplAst f sym) = true ∧
    stripOk (lexT f sym.arity (sym.tplOf f)) (tplAst f sym) = true := by
  unfold tplAst
  cases hp : parse f (lexT f sym.arity (sym.tplOf f)) with
  | none => simp [safeTpl, hp] at h
  | some a =>
    simp only [safeTpl, hp, safeAst, Bool.and_eq_true, decide_eq_true_eq] at h
    simp only [Option.getD_some]
    exact ⟨h.1.1.1.1, h.1.1.1.2, h.1.1.2, h.1.2, h.2⟩

theorem termSyn_spec {f : Fmt} {fl : List Ch} {s : List Ch} (h : termSyn f fl s = true) :
    Good f ((parse f (lexS f s)).getD (.leaf [])) (lexS f s) := by
  cases hp : parse f (lexS f s) with
  | none => simp [termSyn, hp] at h
  | some a =>
    simp only [termSyn, hp, Bool.and_eq_true, decide_eq_true_eq] at h
    simp only [Option.getD_some]
    exact ⟨h.2.1.1.1.1, h.2.1.1.1.2, h.2.1.1.2⟩

theorem getD_map_flat (l : List Ast) (j : Nat) :
    flat (l.getD j (.leaf [])) = (l.map flat).getD j [] := by
  induction l generalizing j with
  | nil => simp [flat]
  | cons a r ih =>
    cases j with
    | zero => simp
    | succ j => simpa using ih j

mutual
  /-- induction on programs: the tree the program denotes is precedence-consistent, has level
      ≥ `hl`, and prints to the substituted token list -/
  theorem good_tree (fns : List FnSym) (tms : List TmSym) (f : Fmt) (fl : List Ch)
      (hs : allSafe fns = true) :
      ∀ t : Tree, wfT fns t = true → termsT (termSyn f fl) tms f t = true →
        Good f (astT fns tms f t) (toksT fns tms f t)
    | .tm k text bits, _, ht => by
        simp only [termsT] at ht
        simpa [astT, toksT, termAst] using termSyn_spec ht
    | .fn s kids, hw, ht => by
        simp only [wfT] at hw
        simp only [termsT] at ht
        split at hw
        · simp at hw
        · rename_i sym hsym
          simp only [Bool.and_eq_true, decide_eq_true_eq] at hw
          have ⟨hmap, hall, hlen⟩ := good_forest fns tms f fl hs kids hw.2 ht
          have ⟨hflat, hok, hlv, hholes, _⟩ := safeTpl_spec (safe_of_all hs hsym f)
          have hσ : ∀ i, 1 ≤ i → i ≤ sym.arity →
              ok f hl ((astF fns tms f kids).getD (i - 1) (.leaf [])) = true ∧
              hl ≤ lvl f hl ((astF fns tms f kids).getD (i - 1) (.leaf [])) := by
            intro i h1 h2
            have hi : i - 1 < (astF fns tms f kids).length := by omega
            have : (astF fns tms f kids).getD (i - 1) (.leaf []) = (astF fns tms f kids)[i - 1] := by
              simp [List.getD, List.getElem?_eq_getElem hi]
            rw [this]
            exact hall _ (List.getElem_mem hi)
          simp only [astT, toksT, hsym]
          refine ⟨?_, ok_subst f hl sym.arity _ hσ _ hholes hok, ?_⟩
          · rw [flat_subst f hl _ _ hok, hflat]
            congr 1
            funext i
            rw [getD_map_flat, hmap]
          · exact Nat.le_trans hlv (lvl_subst_ge f hl sym.arity _ (fun i h1 h2 => (hσ i h1 h2).2) _ hholes)
  theorem good_forest (fns : List FnSym) (tms : List TmSym) (f : Fmt) (fl : List Ch)
      (hs : allSafe fns = true) :
      ∀ k : Forest, wfF fns k = true → termsF (termSyn f fl) tms f k = true →
        (astF fns tms f k).map flat = toksF fns tms f k ∧
        (∀ a ∈ astF fns tms f k, ok f hl a = true ∧ hl ≤ lvl f hl a) ∧
        (astF fns tms f k).length = k.length
    | .nil, _, _ => by simp [astF, toksF, Forest.length]
    | .cons t r, hw, ht => by
        simp only [wfF, Bool.and_eq_true] at hw
        simp only [termsF, Bool.and_eq_true] at ht
        have ⟨h1, h2, h3⟩ := good_tree fns tms f fl hs t hw.1 ht.1
        have ⟨g1, g2, g3⟩ := good_forest fns tms f fl hs r hw.2 ht.2
        simp only [astF, toksF, Forest.length, List.map_cons, List.length_cons, h1, g1, g3, true_and]
        refine ⟨?_, trivial⟩
        intro a ha
        rcases List.mem_cons.mp ha with rfl | ha
        · exact ⟨h2, h3⟩
        · exact g2 a ha
end

end Vita.C19
