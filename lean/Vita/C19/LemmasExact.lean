/-
  C19 — reading `std::to_string(double)` back (`Exact.lean`).
-/
import Vita.C19.Exact
import Vita.C19.LemmasNum
namespace Vita.C19

theorem readNatGo_append (a b : List Nat) (acc : Nat) :
    readNatGo acc (a ++ b) = readNatGo (readNatGo acc a) b := by
  simp [readNatGo, List.foldl_append]

theorem readNat_snoc (a : List Nat) (d : Nat) : readNat (a ++ [d]) = readNat a * 10 + (d - 48) := by
  simp [readNat, readNatGo, List.foldl_append, digitVal]

theorem digitVal_48_add (x : Nat) : digitVal (48 + x) = x := by
  simp [digitVal]

/-- `digitsGo` prepends the decimal digits of `n` -/
theorem digitsGo_spec : ∀ (fuel n : Nat) (acc : List Nat), n < fuel →
    ∃ ds, digitsGo fuel n acc = ds ++ acc ∧ readNat ds = n
  | 0, n, acc, h => by omega
  | fuel + 1, n, acc, h => by
      simp only [digitsGo]
      split
      · rename_i hn
        exact ⟨[48 + n], rfl, by simp [readNat, readNatGo, digitVal]⟩
      · rename_i hn
        obtain ⟨ds, h1, h2⟩ := digitsGo_spec fuel (n / 10) ((48 + n % 10) :: acc) (by omega)
        refine ⟨ds ++ [48 + n % 10], by rw [h1]; simp, ?_⟩
        rw [readNat_snoc, h2]
        omega

theorem readNat_natDigits (n : Nat) : readNat (natDigits n) = n := by
  obtain ⟨ds, h1, h2⟩ := digitsGo_spec (n + 1) n [] (by omega)
  simp only [List.append_nil] at h1
  rw [natDigits, h1, h2]

theorem readNat_pad6 (r : Nat) (h : r < 1000000) : readNat (pad6 r) = r := by
  unfold readNat pad6 readNatGo
  simp only [List.foldl_cons, List.foldl_nil, digitVal_48_add]
  omega

theorem splitDot_spec (a b : List Nat) (h : ∀ x ∈ a, x ≠ 46) :
    ∀ acc, splitDot acc (a ++ 46 :: b) = some (acc.reverse ++ a, b) := by
  induction a with
  | nil => intro acc; simp [splitDot]
  | cons c a ih =>
    intro acc
    have hc : c ≠ 46 := h c (by simp)
    simp only [List.cons_append, splitDot, hc, if_false]
    rw [ih (fun x hx => h x (by simp [hx]))]
    simp

theorem allDig_no46 (a : List Nat) (h : allDig a = true) : ∀ x ∈ a, x ≠ 46 := by
  intro x hx
  simp only [allDig, List.all_eq_true] at h
  have := h x hx
  simp only [isDigit, Bool.and_eq_true, decide_eq_true_eq] at this
  have h1 : (48 : Nat) ≤ x := this.1
  omega

theorem readDec6_fmt (q r : Nat) (hr : r < 1000000) :
    readDec6 (natDigits q ++ 46 :: pad6 r) = some (q * 1000000 + r) := by
  simp only [readDec6, splitDot_spec _ _ (allDig_no46 _ (natDigits_all q)), List.reverse_nil, List.nil_append]
  have : (pad6 r).length = 6 := rfl
  simp [this, readNat_natDigits, readNat_pad6 r hr]

theorem natDigits_head_ne45 (q : Nat) (rest : List Nat) :
    ∃ c t, natDigits q ++ rest = c :: t ∧ c ≠ 45 := by
  have hne := natDigits_ne q
  have hall := natDigits_all q
  cases hq : natDigits q with
  | nil => exact absurd hq hne
  | cons c t =>
    refine ⟨c, t ++ rest, rfl, ?_⟩
    rw [hq] at hall
    simp only [allDig, List.all_cons, Bool.and_eq_true] at hall
    have h1 := hall.1
    simp only [isDigit, Bool.and_eq_true, decide_eq_true_eq] at h1
    have h2 : (48 : Nat) ≤ c := h1.1
    intro hc45
    have h3 : (45 : Nat) = c := hc45.symm
    omega

/-- what `fmtF64` prints reads back as (sign bit, `scaled6`) -/
theorem fmtF64_reads_back (bits : Nat) (hfin : bits / 2 ^ 52 % 2048 ≠ 2047) :
    readSigned6 (fmtF64 bits) = some (decide (bits / 2 ^ 63 % 2 = 1), scaled6 bits) := by
  have hshape : fmtF64 bits = (if bits / 2 ^ 63 % 2 = 1 then [45] else []) ++
      natDigits (scaled6 bits / 1000000) ++ 46 :: pad6 (scaled6 bits % 1000000) := by
    simp only [fmtF64, hfin, if_false, scaled6, f64Mant, f64Exp]
    rfl
  rw [hshape]
  have hr : scaled6 bits % 1000000 < 1000000 := Nat.mod_lt _ (by omega)
  have hval : scaled6 bits / 1000000 * 1000000 + scaled6 bits % 1000000 = scaled6 bits := by omega
  by_cases hs : bits / 2 ^ 63 % 2 = 1
  · simp only [hs, if_true, List.cons_append, List.nil_append, readSigned6, readDec6_fmt _ _ hr, hval,
      Option.map_some, decide_true]
  · simp only [hs, if_false, List.nil_append, decide_false]
    obtain ⟨c, t, hct, hc⟩ := natDigits_head_ne45 (scaled6 bits / 1000000) (46 :: pad6 (scaled6 bits % 1000000))
    have : readSigned6 (natDigits (scaled6 bits / 1000000) ++ 46 :: pad6 (scaled6 bits % 1000000)) =
        (readDec6 (natDigits (scaled6 bits / 1000000) ++ 46 :: pad6 (scaled6 bits % 1000000))).map
          fun n => (false, n) := by
      rw [hct]
      unfold readSigned6
      split
      · rename_i s heq; simp only [List.cons.injEq] at heq; exact absurd heq.1 hc
      · rfl
    rw [this, readDec6_fmt _ _ hr, hval]
    rfl

theorem roundDiv_exact (num den : Nat) (hd : 0 < den) (h : num % den = 0) : roundDiv num den * den = num := by
  have : roundDiv num den = num / den := by
    unfold roundDiv
    simp only [h]
    rw [if_neg]
    omega
  rw [this]
  exact Nat.div_mul_cancel (Nat.dvd_of_mod_eq_zero h)

/-- for an `exact6` double the printed millionths are the double: nothing was rounded -/
theorem exact6_value (bits : Nat) (h : exact6 bits = true) :
    (0 ≤ f64Exp bits → scaled6 bits = f64Mant bits * 2 ^ (f64Exp bits).toNat * 1000000) ∧
    (f64Exp bits < 0 → scaled6 bits * 2 ^ (-(f64Exp bits)).toNat = f64Mant bits * 1000000) := by
  simp only [exact6, Bool.and_eq_true, Bool.or_eq_true, decide_eq_true_eq] at h
  constructor
  · intro hp; simp [scaled6, hp]
  · intro hn
    have hnot : ¬ (0 ≤ f64Exp bits) := by omega
    rcases h.2 with h2 | h2
    · exact absurd h2 hnot
    · simp only [scaled6, hnot, if_false]
      exact roundDiv_exact _ _ (Nat.pow_pos (by omega)) h2

end Vita.C19
