/-
  C19 — lemmas about the genome level (`Genome.lean`): the text printed from a locus is the text
  of the tree unfolded from that locus; fuel; active loci; team lines.
-/
import Vita.C19.Genome
namespace Vita.C19

theorem langF_forestOfList (fns : List FnSym) (tms : List TmSym) (f : Fmt) (ts : List Tree) :
    langF fns tms f (forestOfList ts) = ts.map (langT fns tms f) := by
  induction ts with
  | nil => simp [forestOfList, langF]
  | cons t r ih => simp [forestOfList, langF, ih]

theorem argLoci_length (n : Nat) (acat args : List Nat) : (argLoci n acat args).length = n := by
  simp [argLoci]

theorem mem_argLoci {n : Nat} {acat args : List Nat} {l : Locus} (h : l ∈ argLoci n acat args) :
    ∃ i, i < n ∧ l = ⟨args.getD i 0, acat.getD i 0⟩ := by
  simp only [argLoci, List.mem_map, List.mem_range] at h
  obtain ⟨i, hi, rfl⟩ := h
  exact ⟨i, hi, rfl⟩

/-- the `language_` lambda on the genome prints the text of the unfolded tree (any fuel) -/
theorem langG_eq_langT (fns : List FnSym) (tms : List TmSym) (f : Fmt) (g : Genome) :
    ∀ fuel l, langG fns tms f g fuel l = langT fns tms f (unfoldG fns g fuel l)
  | 0, l => by simp [langG, unfoldG, langT]
  | fuel + 1, l => by
      simp only [langG, unfoldG]
      split
      · simp [langT]
      · split
        · rename_i hs; simp [langT, hs]
        · rename_i sym hs
          simp only [langT, hs, langF_forestOfList, List.map_map]
          rw [List.take_of_length_le (by simp [argLoci])]
          congr 1
          apply List.map_congr_left
          intro l' _
          exact langG_eq_langT fns tms f g fuel l'

/-- on a well-formed genome any fuel ≥ (rows − row of the locus) unfolds the same tree -/
theorem unfoldG_stable (fns : List FnSym) (g : Genome) (n : Nat) (hw : WfG fns g n) :
    ∀ f1 f2 l, l.row < n → n - l.row ≤ f1 → n - l.row ≤ f2 → unfoldG fns g f1 l = unfoldG fns g f2 l
  | 0, _, l, hr, h1, _ => by omega
  | _ + 1, 0, l, hr, _, h2 => by omega
  | f1 + 1, f2 + 1, l, hr, h1, h2 => by
      simp only [unfoldG]
      split
      · rfl
      · rename_i s acat args hg
        split
        · rfl
        · rename_i sym hs
          congr 2
          apply List.map_congr_left
          intro l' hl'
          obtain ⟨i, hi, rfl⟩ := mem_argLoci hl'
          have := hw l s acat args sym hr hg hs i hi
          exact unfoldG_stable fns g n hw f1 f2 _ this.2 (by simp only; omega) (by simp only; omega)

theorem Active.trans {fns : List FnSym} {g : Genome} {a b c : Locus} (h1 : Active fns g a b)
    (h2 : Active fns g b c) : Active fns g a c := by
  induction h2 with
  | root => exact h1
  | arg _ hg hs hi ih => exact Active.arg ih hg hs hi

/-- two genomes that agree on the loci active from `l` unfold the same tree from `l` -/
theorem unfoldG_congr (fns : List FnSym) (g1 g2 : Genome) :
    ∀ fuel l, (∀ m, Active fns g1 l m → g1 m = g2 m) → unfoldG fns g1 fuel l = unfoldG fns g2 fuel l
  | 0, _, _ => rfl
  | fuel + 1, l, h => by
      have hl := h l (Active.root l)
      simp only [unfoldG, ← hl]
      split
      · rfl
      · rename_i s acat args hg
        split
        · rfl
        · rename_i sym hs
          congr 2
          apply List.map_congr_left
          intro l' hl'
          obtain ⟨i, hi, rfl⟩ := mem_argLoci hl'
          apply unfoldG_congr fns g1 g2 fuel
          intro m hm
          exact h m (Active.trans (Active.arg (Active.root l) hg hs hi) hm)

/-! ### the decidable well-formedness of a concrete matrix -/

theorem wfRowsGo_sound (fns : List FnSym) (n : Nat) :
    ∀ (rows : List (List Gene)) (r0 : Nat), wfRowsGo fns n r0 rows = true →
      ∀ k row, rows[k]? = some row → ∀ gene ∈ row, wfGene fns n (r0 + k) gene = true
  | [], _, _, k, row, hk, _, _ => by simp at hk
  | r :: rs, r0, h, k, row, hk, gene, hgene => by
      simp only [wfRowsGo, Bool.and_eq_true, List.all_eq_true] at h
      cases k with
      | zero =>
        simp only [List.getElem?_cons_zero, Option.some.injEq] at hk
        subst hk
        simpa using h.1 gene hgene
      | succ k =>
        simp only [List.getElem?_cons_succ] at hk
        have := wfRowsGo_sound fns n rs (r0 + 1) h.2 k row hk gene hgene
        rwa [show r0 + (k + 1) = r0 + 1 + k by omega]

theorem getD_mem_or_default {α : Type} (l : List α) (i : Nat) (d : α) : l.getD i d ∈ l ∨ l.getD i d = d := by
  rw [List.getD_eq_getElem?_getD]
  cases h : l[i]? with
  | none => right; rfl
  | some x => left; simpa using List.mem_of_getElem? h

/-- a matrix accepted by `wfRows` is a well-formed genome -/
theorem wfRows_sound (fns : List FnSym) (rows : List (List Gene)) (h : wfRows fns rows = true) :
    WfG fns (Genome.ofRows rows) rows.length := by
  intro l s acat args sym hr hg hs i hi
  simp only [Genome.ofRows] at hg
  have hrow : rows[l.row]? = some (rows.getD l.row []) := by
    rw [List.getD_eq_getElem?_getD, List.getElem?_eq_getElem hr]; rfl
  rcases getD_mem_or_default (rows.getD l.row []) l.cat (.tm 0 [] 0) with hm | hd
  · have := wfRowsGo_sound fns rows.length rows 0 h l.row _ hrow _ hm
    rw [hg] at this
    simp only [wfGene, hs, List.all_eq_true, List.mem_range, Bool.and_eq_true, decide_eq_true_eq,
      Nat.zero_add] at this
    exact this i hi
  · rw [hd] at hg; cases hg

/-! ### team lines -/

theorem splitLinesGo_append (s : List Ch) (hs : 10 ∉ s) (rest acc : List Ch) :
    splitLinesGo (s ++ 10 :: rest) acc = (acc.reverse ++ s) :: splitLinesGo rest [] := by
  induction s generalizing acc with
  | nil => simp [splitLinesGo]
  | cons c s ih =>
    have hc : c ≠ 10 := by intro h; apply hs; simp [h]
    have hs' : 10 ∉ s := by intro h; apply hs; simp [h]
    simp only [List.cons_append, splitLinesGo, hc, if_false]
    rw [ih hs']
    simp

/-- a team's text splits back into the members' texts (none of which contains a newline) -/
theorem splitLines_teamG (ms : List (List Ch)) (h : ∀ m ∈ ms, 10 ∉ m) : splitLines (teamG ms) = ms := by
  induction ms with
  | nil => simp [teamG, splitLines, splitLinesGo]
  | cons m r ih =>
    have hm : 10 ∉ m := h m (by simp)
    have hr : ∀ x ∈ r, 10 ∉ x := fun x hx => h x (by simp [hx])
    have : teamG (m :: r) = m ++ 10 :: teamG r := by simp [teamG]
    rw [splitLines, this, splitLinesGo_append m hm]
    simp only [List.reverse_nil, List.nil_append, List.cons.injEq, true_and]
    exact ih hr

end Vita.C19
