/-
  C19 — lemmas at the character level: scanning the substituted text gives the substituted
  token list (`lex_subst`), provided the scanner is at a token boundary on both sides of
  every hole (NoGlue), and the induction on programs (`lex_tree`).
-/
import Vita.C19.LemmasAst
namespace Vita.C19

theorem run_append (f : Fmt) : ∀ (x y : List LCh) (st : LS),
    run f st (x ++ y) =
      ((run f st x).1 ++ (run f (run f st x).2 y).1, (run f (run f st x).2 y).2) := by
  intro x
  induction x with
  | nil => intro y st; simp [run]
  | cons a x ih => intro y st; simp [run, ih, List.append_assoc]

/-- all tokens from state `st`, including the pending one -/
def out (f : Fmt) (st : LS) (xs : List LCh) : List Tok := (run f st xs).1 ++ fin (run f st xs).2

theorem out_append (f : Fmt) (x y : List LCh) (st : LS) :
    out f st (x ++ y) = (run f st x).1 ++ out f (run f st x).2 y := by
  simp [out, run_append, List.append_assoc]

theorem lexL_eq_out (f : Fmt) (xs : List LCh) : lexL f xs = out f .idle xs := rfl

/-! ### no hole token comes out of characters -/

theorem noHole_append (a b : List Tok) : noHole (a ++ b) = (noHole a && noHole b) := by
  induction a with
  | nil => simp [noHole]
  | cons t r ih => cases t <;> simp [noHole, ih]

theorem start_noHole (x : Ch) : noHole (start x).1 = true := by
  unfold start
  repeat' split
  all_goals simp [noHole]

theorem fin_noHole (st : LS) : noHole (fin st) = true := by
  cases st <;> simp [fin, noHole]

theorem twoOp_noHole (f : Fmt) (a b : Ch) (t : Tok) (h : twoOp f a b = some t) : noHole [t] = true := by
  unfold twoOp at h
  repeat' split at h
  all_goals first
    | (simp at h; subst h; simp [noHole])
    | simp at h

theorem step_noHole (f : Fmt) (st : LS) (x : Ch) : noHole (step f st x).1 = true := by
  cases st with
  | idle => exact start_noHole x
  | inId a =>
    simp only [step]; split
    · simp [noHole]
    · simpa [noHole] using start_noHole x
  | inNum a =>
    simp only [step]; split
    · simp [noHole]
    · simpa [noHole] using start_noHole x
  | inStr a e =>
    simp only [step]
    repeat' split
    all_goals simp [noHole]
  | inOp c =>
    simp only [step]
    split
    · split
      · rename_i t ht; exact twoOp_noHole f c x t ht
      · simp [noHole]
    · simpa [noHole] using start_noHole x

theorem runS_noHole (f : Fmt) : ∀ (s : List Ch) (st : LS), noHole (run f st (s.map LCh.c)).1 = true := by
  intro s
  induction s with
  | nil => intro st; simp [run, noHole]
  | cons c s ih =>
    intro st
    simp only [List.map_cons, run, stepL, noHole_append, Bool.and_eq_true]
    exact ⟨step_noHole f st c, ih _⟩

/-! ### token boundaries -/

/-- `c`, read in state `st`, closes the pending token and starts a fresh one -/
def Sep (f : Fmt) (st : LS) (c : Ch) : Prop :=
  step f st c = (fin st ++ (start c).1, (start c).2)

theorem isOpCh_not_alnum (c : Nat) (h : isOpCh c = true) :
    isLetter c = false ∧ isDigit c = false ∧ isSpace c = false ∧ c ≠ 34 ∧ c ≠ 40 ∧ c ≠ 41 ∧ c ≠ 44 := by
  simp only [isOpCh, Bool.or_eq_true, beq_iff_eq] at h
  rcases h with ((((((((((((((h | h) | h) | h) | h) | h) | h) | h) | h) | h) | h) | h) | h) | h) | h) | h <;>
    subst h <;> decide

theorem start_op (c : Ch) (h : isOpCh c = true) : start c = ([], .inOp c) := by
  have ⟨h1, h2, h3, h4, h5, h6, h7⟩ := isOpCh_not_alnum c h
  simp [start, h1, h2, h3, h4, h5, h6, h7, h]

theorem sep_before_spec (f : Fmt) (fl : List Ch) (st : LS) (c : Ch)
    (hs : sepBefore f fl st = true) (hc : firstOk fl c = true) : Sep f st c := by
  cases st with
  | idle => simp [Sep, step, fin]
  | inOp c0 =>
    simp only [sepBefore, List.all_eq_true, Bool.or_eq_true, Bool.not_eq_true'] at hs
    by_cases hop : isOpCh c = true
    · have ⟨h1, h2, _, h4, _⟩ := isOpCh_not_alnum c hop
      have hmem : c ∈ fl := by
        simp only [firstOk, h1, h2, Bool.false_or, Bool.or_eq_true, beq_iff_eq] at hc
        rcases hc with hc | hc
        · exact absurd hc h4
        · simpa using hc
      have hnone : twoOp f c0 c = none := by
        rcases hs c hmem with h | h
        · rw [hop] at h; simp at h
        · simpa using h
      simp [Sep, step, hop, hnone, start_op c hop, fin]
    · simp [Sep, step, hop, fin]
  | inId a => simp [sepBefore] at hs
  | inNum a => simp [sepBefore] at hs
  | inStr a e => simp [sepBefore] at hs

theorem sep_after_spec (f : Fmt) (st : LS) (d : Ch) (he : endOk st = true) (hd : sepAfter d = true) :
    Sep f st d := by
  simp only [sepAfter, Bool.and_eq_true, Bool.not_eq_true', bne_iff_ne, ne_eq] at hd
  obtain ⟨⟨⟨h1, h2⟩, h3⟩, _⟩ := hd
  cases st with
  | idle => simp [Sep, step, fin]
  | inId a => simp [Sep, step, h1, h2, fin]
  | inNum a =>
    simp only [endOk, Bool.not_eq_true'] at he
    simp [Sep, step, h1, h2, h3, he, fin]
  | inStr a e => simp [endOk] at he
  | inOp c => simp [endOk] at he

theorem run_sep (f : Fmt) (st : LS) (c : Ch) (xs : List LCh) (h : Sep f st c) :
    run f st (LCh.c c :: xs) =
      (fin st ++ (run f .idle (LCh.c c :: xs)).1, (run f .idle (LCh.c c :: xs)).2) := by
  unfold Sep at h
  simp only [run, stepL]
  rw [h]
  simp [step, List.append_assoc]

theorem out_sep (f : Fmt) (st : LS) (c : Ch) (xs : List LCh) (h : Sep f st c) :
    out f st (LCh.c c :: xs) = fin st ++ out f .idle (LCh.c c :: xs) := by
  simp only [out, run_sep f st c xs h, List.append_assoc]

/-! ### scanning a substituted template -/

theorem piecesL_cons (p : Piece) (ps : List Piece) : piecesL (p :: ps) = p.toL ++ piecesL ps := by
  simp [piecesL]

theorem getD_mem_or_nil (rs : List (List Ch)) (j : Nat) (hj : j < rs.length) :
    rs.getD j [] = rs[j] := by
  simp [List.getD, List.getElem?_eq_getElem hj]

theorem noGlue_weaken (f : Fmt) (fl : List Ch) (l : List Ch) (ps : List Piece)
    (h : noGlueGo f fl .idle true (.lit l :: ps) = true) :
    noGlueGo f fl .idle false (.lit l :: ps) = true := by
  simp only [noGlueGo, Bool.and_eq_true] at h
  simpa [noGlueGo] using h.2

/-- scanning the text with the arguments substituted = substituting the arguments' token lists
    into the scanned template; and the scanner ends in an admissible state -/
theorem lex_subst (f : Fmt) (fl : List Ch) (n : Nat) (rs : List (List Ch))
    (hrs : ∀ r ∈ rs, rendOk f fl r = true) (hlen : rs.length = n) :
    ∀ (ps : List Piece) (st : LS) (b : Bool), regularGo n b ps = true →
      noGlueGo f fl st false ps = true →
      out f st ((substPieces rs ps).map LCh.c) =
        substToks (fun i => lexS f (rs.getD (i - 1) [])) (out f st (piecesL ps)) ∧
      endOk (run f st ((substPieces rs ps).map LCh.c)).2 = true := by
  intro ps
  induction ps with
  | nil =>
    intro st b _ hg
    simp only [noGlueGo] at hg
    simp [substPieces, piecesL, out, run, substToks_noHole _ _ (fin_noHole st), hg]
  | cons p ps ih =>
    intro st b hr hg
    cases p with
    | lit l =>
      simp only [regularGo, Bool.and_eq_true] at hr
      simp only [noGlueGo, Bool.not_false, Bool.true_or, Bool.true_and, Bool.false_eq_true,
        if_false] at hg
      have ⟨ih1, ih2⟩ := ih (run f st (l.map LCh.c)).2 false hr.2 hg
      constructor
      · simp only [substPieces, List.map_append, piecesL_cons, Piece.toL, out_append,
          substToks_append, substToks_noHole _ _ (runS_noHole f l st), ih1]
      · simp only [substPieces, List.map_append, run_append]
        exact ih2
    | hole i =>
      simp only [regularGo, Bool.and_eq_true, decide_eq_true_eq] at hr
      simp only [noGlueGo, Bool.and_eq_true] at hg
      have hi : i - 1 < rs.length := by omega
      have hget := getD_mem_or_nil rs (i - 1) hi
      have hrend := hrs _ (List.getElem_mem hi)
      rw [← hget] at hrend
      have hsp : substPieces rs (.hole i :: ps) = rs.getD (i - 1) [] ++ substPieces rs ps := rfl
      rw [hsp]
      -- the argument text `r` is non-empty, starts admissibly and ends admissibly
      cases hr' : rs.getD (i - 1) [] with
      | nil => rw [hr'] at hrend; simp [rendOk] at hrend
      | cons c0 r' =>
        rw [hr'] at hrend
        simp only [rendOk, Bool.and_eq_true] at hrend
        have hsep := sep_before_spec f fl st c0 hg.1 hrend.1
        have hend := hrend.2
        -- template side
        have hT : out f st (piecesL (.hole i :: ps)) = fin st ++ Tok.hole i :: out f .idle (piecesL ps) := by
          simp [piecesL_cons, Piece.toL, out, run, stepL, List.append_assoc]
        rw [hT, substToks_append, substToks_noHole _ _ (fin_noHole st)]
        simp only [substToks, List.map_append, List.map_cons, List.cons_append, hr']
        -- text side: `c0` closes the pending token of `st`
        rw [out_sep f st c0 _ hsep, run_sep f st c0 _ hsep]
        have hcons : (LCh.c c0 :: (r'.map LCh.c ++ (substPieces rs ps).map LCh.c)) =
            ((c0 :: r').map LCh.c) ++ (substPieces rs ps).map LCh.c := by simp
        rw [hcons, out_append, run_append]
        cases ps with
        | nil =>
          simp only [substPieces, List.map_nil, piecesL, List.flatMap_nil, out, run,
            List.append_nil, substToks]
          have hfin : fin LS.idle = [] := rfl
          simp only [hfin, List.append_nil]
          refine ⟨?_, hend⟩
          simp [lexS, lexL, substToks]
        | cons q ps' =>
          cases q with
          | hole j => simp at hg
          | lit l =>
            have hg2 := hg.2
            simp only at hg2
            have hweak := noGlue_weaken f fl l ps' hg2
            have ⟨ih1, ih2⟩ := ih .idle true hr.2 hweak
            cases l with
            | nil => simp [noGlueGo] at hg2
            | cons d l' =>
              simp only [noGlueGo, Bool.not_true, Bool.false_or, Bool.and_eq_true] at hg2
              have hsep2 := sep_after_spec f (run f .idle ((c0 :: r').map LCh.c)).2 d hend hg2.1
              have hX : (substPieces rs (.lit (d :: l') :: ps')).map LCh.c =
                  LCh.c d :: ((l' ++ substPieces rs ps').map LCh.c) := by
                simp [substPieces]
              rw [hX] at ih1 ih2 ⊢
              rw [out_sep f _ d _ hsep2, run_sep f _ d _ hsep2]
              refine ⟨?_, ih2⟩
              rw [ih1]
              simp [lexS, lexL, List.append_assoc]


theorem noglue_of_all {fns : List FnSym} {tms : List TmSym} (hs : allNoGlue fns tms = true) {s : Nat}
    {sym : FnSym} (h : fns[s]? = some sym) (f : Fmt) :
    noGlueTpl f (firstList fns tms f) sym = true := by
  unfold allNoGlue at hs
  rw [List.all_eq_true] at hs
  have := hs sym (List.mem_of_getElem? h)
  rw [List.all_eq_true] at this
  exact this f (fmt_mem_all f)

theorem regular_of_all' {fns : List FnSym} (hs : allRegular fns = true) {s : Nat} {sym : FnSym}
    (h : fns[s]? = some sym) (f : Fmt) : regularTpl f sym = true := by
  unfold allRegular at hs
  rw [List.all_eq_true] at hs
  have := hs sym (List.mem_of_getElem? h)
  rw [List.all_eq_true] at this
  exact this f (fmt_mem_all f)

theorem simF_length' (fns : List FnSym) (tms : List TmSym) (f : Fmt) :
    ∀ k : Forest, (simF fns tms f k).length = k.length
  | .nil => rfl
  | .cons _ r => by simp [simF, Forest.length, simF_length' fns tms f r]

theorem lexS_nil (f : Fmt) : lexS f [] = [] := rfl

theorem getD_map_lexS (f : Fmt) (l : List (List Ch)) (j : Nat) :
    (l.map (lexS f)).getD j [] = lexS f (l.getD j []) := by
  induction l generalizing j with
  | nil => simp [lexS_nil]
  | cons a r ih =>
    cases j with
    | zero => simp
    | succ j => simpa using ih j

/-- first character of a substituted template -/
theorem first_subst (f : Fmt) (fl : List Ch) (n : Nat) (rs : List (List Ch))
    (hrs : ∀ r ∈ rs, rendOk f fl r = true) (hlen : rs.length = n) (ps : List Piece) (b : Bool)
    (hreg : regularGo n b ps = true)
    (hfirst : firstPieceOk fl ps = true) :
    (match substPieces rs ps with
     | c :: _ => firstOk fl c
     | [] => false) = true := by
  cases ps with
  | nil => simp [firstPieceOk] at hfirst
  | cons p ps =>
    cases p with
    | lit l =>
      cases l with
      | nil => simp [firstPieceOk] at hfirst
      | cons c l' => simpa [substPieces, firstPieceOk] using hfirst
    | hole i =>
      simp only [regularGo, Bool.and_eq_true, decide_eq_true_eq] at hreg
      have hi : i - 1 < rs.length := by omega
      have hrend := hrs _ (List.getElem_mem hi)
      rw [← getD_mem_or_nil rs (i - 1) hi] at hrend
      simp only [substPieces]
      cases hr' : rs.getD (i - 1) [] with
      | nil => rw [hr'] at hrend; simp [rendOk] at hrend
      | cons c0 r' =>
        rw [hr'] at hrend
        simp only [rendOk, Bool.and_eq_true] at hrend
        simpa using hrend.1

mutual
  /-- on every program: scanning the (simultaneously substituted) text gives the substituted
      token list, and the text is an admissible rendering itself -/
  theorem lex_tree (fns : List FnSym) (tms : List TmSym) (f : Fmt)
      (hr : allRegular fns = true) (hg : allNoGlue fns tms = true) :
      ∀ t : Tree, wfT fns t = true → termsT (rendOk f (firstList fns tms f)) tms f t = true →
        lexS f (simT fns tms f t) = toksT fns tms f t ∧
        rendOk f (firstList fns tms f) (simT fns tms f t) = true
    | .tm k text bits, _, ht => by
        simp only [termsT] at ht
        simp [simT, toksT, ht]
    | .fn s kids, hw, ht => by
        simp only [wfT] at hw
        simp only [termsT] at ht
        split at hw
        · simp at hw
        · rename_i sym hsym
          simp only [Bool.and_eq_true, decide_eq_true_eq] at hw
          have ⟨hEq, hRend⟩ := lex_forest fns tms f hr hg kids hw.2 ht
          have hreg := regular_of_all' hr hsym f
          have hng := noglue_of_all hg hsym f
          have hlen : (simF fns tms f kids).length = sym.arity := by
            rw [simF_length']; exact hw.1
          simp only [regularTpl, Bool.and_eq_true, decide_eq_true_eq] at hreg
          simp only [noGlueTpl, Bool.and_eq_true] at hng
          have ⟨h1, h2⟩ := lex_subst f (firstList fns tms f) sym.arity (simF fns tms f kids) hRend hlen
            _ .idle false hreg.2 hng.2
          simp only [simT, toksT, hsym]
          constructor
          · have : lexS f (substPieces (simF fns tms f kids) (splitMarkers sym.arity (sym.tplOf f))) =
                out f .idle ((substPieces (simF fns tms f kids)
                  (splitMarkers sym.arity (sym.tplOf f))).map LCh.c) := rfl
            rw [this, h1]
            have hT : out f .idle (piecesL (splitMarkers sym.arity (sym.tplOf f))) =
                lexT f sym.arity (sym.tplOf f) := rfl
            rw [hT]
            congr 1
            funext i
            rw [← hEq, getD_map_lexS]
          · simp only [rendOk, Bool.and_eq_true]
            exact ⟨first_subst f _ sym.arity _ hRend hlen _ false hreg.2 hng.1, h2⟩
  theorem lex_forest (fns : List FnSym) (tms : List TmSym) (f : Fmt)
      (hr : allRegular fns = true) (hg : allNoGlue fns tms = true) :
      ∀ k : Forest, wfF fns k = true → termsF (rendOk f (firstList fns tms f)) tms f k = true →
        (simF fns tms f k).map (lexS f) = toksF fns tms f k ∧
        ∀ r ∈ simF fns tms f k, rendOk f (firstList fns tms f) r = true
    | .nil, _, _ => by simp [simF, toksF]
    | .cons t r, hw, ht => by
        simp only [wfF, Bool.and_eq_true] at hw
        simp only [termsF, Bool.and_eq_true] at ht
        have ⟨h1, h2⟩ := lex_tree fns tms f hr hg t hw.1 ht.1
        have ⟨g1, g2⟩ := lex_forest fns tms f hr hg r hw.2 ht.2
        simp only [simF, toksF, List.map_cons, h1, g1, true_and]
        intro x hx
        rcases List.mem_cons.mp hx with rfl | hx
        · exact h2
        · exact g2 x hx
end

end Vita.C19
