/-
  C19 — the numeric terminals satisfy the hypotheses of the theorems: what `std::to_string`
  prints for a finite double / an int (a plain decimal, in parentheses when negative) is a
  clean, self-contained operand.
-/
import Vita.C19.LemmasStr
import Vita.C19.LemmasStrip
namespace Vita.C19

/-- digits and dots, first and last a digit -/
def plainDec (s : List Ch) : Bool :=
  (match s.head? with
   | some c => isDigit c
   | none => false) &&
  s.all (fun x => isDigit x || x == 46) &&
  (match s.getLast? with
   | some c => isDigit c
   | none => false)

/-! ### scanning a plain decimal -/

theorem run_inNum (f : Fmt) : ∀ (s a : List Ch), s.all (fun x => isDigit x || x == 46) = true →
    run f (.inNum a) (s.map LCh.c) = ([], .inNum (a ++ s)) := by
  intro s
  induction s with
  | nil => intro a _; simp [run]
  | cons c s ih =>
    intro a h
    simp only [List.all_cons, Bool.and_eq_true] at h
    have hc : (isDigit c || c == 46 || isLetter c || (c == 43 || c == 45) && lastIsE a) = true := by
      rcases Bool.or_eq_true _ _ |>.mp h.1 with h1 | h1 <;> simp [h1]
    simp only [List.map_cons, run, stepL, step, hc, if_true, List.nil_append]
    rw [ih (a ++ [c]) h.2]
    simp

theorem lastIsE_of_digit : ∀ (s : List Ch), (match s.getLast? with
    | some c => isDigit c
    | none => false) = true → lastIsE s = false := by
  intro s
  induction s with
  | nil => intro h; simp at h
  | cons c r ih =>
    intro h
    cases r with
    | nil =>
      simp only [List.getLast?_singleton] at h
      simp only [lastIsE]
      simp only [isDigit, Bool.and_eq_true, decide_eq_true_eq] at h
      have h1 : (48 : Nat) ≤ c := h.1
      have h2 : (57 : Nat) ≥ c := h.2
      have e1 : (c == 101) = false := by
        apply beq_false_of_ne; intro he; have he' : (101 : Nat) = c := he.symm; omega
      have e2 : (c == 69) = false := by
        apply beq_false_of_ne; intro he; have he' : (69 : Nat) = c := he.symm; omega
      simp [e1, e2]
    | cons d r' =>
      rw [List.getLast?_cons_cons] at h
      simp only [lastIsE]
      exact ih h

theorem digit_facts (c : Nat) (h : isDigit c = true) :
    isLetter c = false ∧ isSpace c = false ∧ isOpCh c = false ∧ c ≠ 34 ∧ c ≠ 40 ∧ c ≠ 41 ∧ c ≠ 44 ∧
    c ≠ 37 := by
  simp only [isDigit, Bool.and_eq_true, decide_eq_true_eq] at h
  have h1 : (48 : Nat) ≤ c := h.1
  have h2 : c ≤ (57 : Nat) := h.2
  have : c = 48 ∨ c = 49 ∨ c = 50 ∨ c = 51 ∨ c = 52 ∨ c = 53 ∨ c = 54 ∨ c = 55 ∨ c = 56 ∨ c = 57 := by
    omega
  rcases this with h | h | h | h | h | h | h | h | h | h <;> subst h <;> decide

theorem start_digit (c : Nat) (h : isDigit c = true) : start c = ([], .inNum [c]) := by
  have ⟨h1, _⟩ := digit_facts c h
  simp [start, h1, h]

/-- shape of a plain decimal: first digit, then digits and dots -/
theorem plainDec_shape (s : List Ch) (h : plainDec s = true) :
    ∃ c r, s = c :: r ∧ isDigit c = true ∧ r.all (fun x => isDigit x || x == 46) = true := by
  cases s with
  | nil => simp [plainDec] at h
  | cons c r =>
    simp only [plainDec, List.head?_cons, List.all_cons, Bool.and_eq_true] at h
    exact ⟨c, r, rfl, h.1.1, h.1.2.2⟩

theorem run_plain (f : Fmt) (s : List Ch) (h : plainDec s = true) :
    run f .idle (s.map LCh.c) = ([], .inNum s) := by
  obtain ⟨c, r, rfl, hc, hr⟩ := plainDec_shape s h
  simp only [List.map_cons, run, stepL, step, start_digit c hc, List.nil_append]
  rw [run_inNum f r [c] hr]
  simp

theorem lexS_plain (f : Fmt) (s : List Ch) (h : plainDec s = true) : lexS f s = [Tok.num s] := by
  simp [lexS, lexL, run_plain f s h, fin]

/-! ### cleanliness -/

theorem noPP_of_no37 : ∀ (s : List Ch), (∀ x ∈ s, x ≠ 37) → noPP s = true := by
  intro s
  induction s with
  | nil => intro _; rfl
  | cons c r ih =>
    intro h
    rw [noPP_cons]
    have hc : c ≠ 37 := h c (by simp)
    simp [hc, ih (fun x hx => h x (by simp [hx]))]

theorem clean_of_no37 (s : List Ch) (h : ∀ x ∈ s, x ≠ 37) : clean s = true := by
  simp only [clean, Bool.and_eq_true, bne_iff_ne, ne_eq]
  refine ⟨noPP_of_no37 s h, ?_⟩
  intro hl
  have := List.mem_of_getLast? hl
  exact h 37 this rfl

theorem plain_no37 (s : List Ch) (h : plainDec s = true) : ∀ x ∈ s, x ≠ 37 := by
  simp only [plainDec, Bool.and_eq_true] at h
  have hall := h.1.2
  rw [List.all_eq_true] at hall
  intro x hx
  have := hall x hx
  rcases Bool.or_eq_true _ _ |>.mp this with h1 | h1
  · exact (digit_facts x h1).2.2.2.2.2.2.2
  · intro he; subst he; simp at h1

/-! ### a plain decimal is an admissible terminal -/

theorem parse_num (f : Fmt) (s : List Ch) : parse f [Tok.num s] = some (.leaf [Tok.num s]) := by
  cases f <;> rfl

theorem lexS_unfold (f : Fmt) (s : List Ch) :
    lexS f s = (run f .idle (s.map LCh.c)).1 ++ fin (run f .idle (s.map LCh.c)).2 := rfl

theorem plain_termOk (f : Fmt) (fl : List Ch) (s : List Ch) (h : plainDec s = true) :
    termOk f fl s = true ∧ rendOk f fl s = true := by
  have hlex := lexS_plain f s h
  have hrun := run_plain f s h
  have hE : lastIsE s = false := by
    apply lastIsE_of_digit
    simp only [plainDec, Bool.and_eq_true] at h
    exact h.2
  have hclean := clean_of_no37 s (plain_no37 s h)
  obtain ⟨c, r, rfl, hc, hr⟩ := plainDec_shape s h
  constructor
  · simp only [termOk, termSyn, Bool.and_eq_true]
    refine ⟨hclean, ⟨by simp [firstOk, hc], ?_⟩, ?_⟩
    · rw [hrun]; simp [endOk, hE]
    · rw [hlex, parse_num]
      simp [flat, ok, leafOk, lvl, hl, holesIn, stripOk, isOpen]
  · simp only [rendOk, Bool.and_eq_true]
    refine ⟨by simp [firstOk, hc], ?_⟩
    rw [hrun]; simp [endOk, hE]

/-! ### ... and so is `(-` plain decimal `)` -/

theorem run_neg (f : Fmt) (s : List Ch) (h : plainDec s = true) :
    run f .idle ((40 :: 45 :: (s ++ [41])).map LCh.c) =
      ([Tok.lp, Tok.op [45], Tok.num s, Tok.rp], .idle) := by
  obtain ⟨c, r, rfl, hc, hr⟩ := plainDec_shape s h
  have ⟨h1, h2, h3, h4, h5, h6, h7, _⟩ := digit_facts c hc
  have hstep : step f (.inOp 45) c = ([Tok.op [45]], .inNum [c]) := by
    simp [step, h3, start_digit c hc]
  have hclose : ∀ a : List Ch, lastIsE a = false →
      step f (.inNum a) 41 = ([Tok.num a, Tok.rp], .idle) := by
    intro a _
    simp [step, start, isDigit, isLetter, isSpace]
  have hE : lastIsE (c :: r) = false := by
    apply lastIsE_of_digit
    simp only [plainDec, Bool.and_eq_true] at h
    exact h.2
  simp only [List.map_cons, List.map_append, List.map_nil, List.cons_append]
  simp only [run, stepL]
  have s0 : step f .idle 40 = ([Tok.lp], .idle) := by
    simp [step, start, isDigit, isLetter, isSpace]
  have s1 : step f .idle 45 = ([], .inOp 45) := by
    simp [step, start, isDigit, isLetter, isSpace, isOpCh]
  rw [s0, s1, hstep]
  simp only [run_append, run_inNum f r [c] hr, run, stepL, List.cons_append, List.nil_append,
    hclose (c :: r) hE, List.append_nil]

theorem parse_neg (f : Fmt) (s : List Ch) :
    parse f [Tok.lp, Tok.op [45], Tok.num s, Tok.rp] =
      some (.paren (.un (Tok.op [45]) (.leaf [Tok.num s]))) := by
  cases f <;> rfl

theorem neg_termOk (f : Fmt) (fl : List Ch) (s : List Ch) (h : plainDec s = true) (hfl : 40 ∈ fl) :
    termOk f fl (40 :: 45 :: (s ++ [41])) = true ∧ rendOk f fl (40 :: 45 :: (s ++ [41])) = true := by
  have hrun := run_neg f s h
  have hlex : lexS f (40 :: 45 :: (s ++ [41])) = [Tok.lp, Tok.op [45], Tok.num s, Tok.rp] := by
    rw [lexS_unfold, hrun]; rfl
  have hfirst : firstOk fl 40 = true := by
    simp [firstOk, hfl]
  have hclean : clean (40 :: 45 :: (s ++ [41])) = true := by
    apply clean_of_no37
    intro x hx
    simp only [List.mem_cons, List.mem_append, List.mem_nil_iff, or_false] at hx
    rcases hx with rfl | rfl | hx | rfl
    · decide
    · decide
    · exact plain_no37 s h x hx
    · decide
  constructor
  · simp only [termOk, termSyn, Bool.and_eq_true]
    refine ⟨hclean, ⟨hfirst, ?_⟩, ?_⟩
    · rw [hrun]; rfl
    · rw [hlex, parse_neg]
      cases f <;> simp [flat, ok, leafOk, lvl, hl, holesIn, stripOk, isOpen, isClose, isParen, preLevel]
  · simp only [rendOk, Bool.and_eq_true]
    refine ⟨hfirst, ?_⟩
    rw [hrun]; rfl


/-! ### `std::to_string` prints plain decimals -/

def allDig (s : List Ch) : Bool := s.all isDigit

theorem isDigit_48_add (x : Nat) (h : x < 10) : isDigit (48 + x) = true := by
  simp only [isDigit, Bool.and_eq_true, decide_eq_true_eq]
  exact ⟨by show (48 : Nat) ≤ 48 + x; omega, by show (48 : Nat) + x ≤ 57; omega⟩

theorem digitsGo_all : ∀ (fuel n : Nat) (acc : List Ch), allDig acc = true →
    allDig (digitsGo fuel n acc) = true := by
  intro fuel
  induction fuel with
  | zero => intro n acc h; simpa [digitsGo] using h
  | succ k ih =>
    intro n acc h
    simp only [digitsGo]
    split
    · rename_i hlt
      simp only [allDig, List.all_cons, Bool.and_eq_true]
      exact ⟨isDigit_48_add n hlt, h⟩
    · apply ih
      simp only [allDig, List.all_cons, Bool.and_eq_true]
      exact ⟨isDigit_48_add (n % 10) (Nat.mod_lt _ (by decide)), h⟩

theorem digitsGo_ne : ∀ (fuel n : Nat) (acc : List Ch), 0 < fuel → digitsGo fuel n acc ≠ [] := by
  intro fuel
  induction fuel with
  | zero => intro n acc h; exact absurd h (Nat.lt_irrefl 0)
  | succ k ih =>
    intro n acc _
    simp only [digitsGo]
    split
    · simp
    · cases k with
      | zero => simp [digitsGo]
      | succ k' => exact ih _ _ (Nat.succ_pos _)

theorem natDigits_all (n : Nat) : allDig (natDigits n) = true :=
  digitsGo_all (n + 1) n [] rfl

theorem natDigits_ne (n : Nat) : natDigits n ≠ [] :=
  digitsGo_ne (n + 1) n [] (Nat.succ_pos _)

theorem pad6_all (n : Nat) : allDig (pad6 n) = true := by
  simp only [allDig, pad6, List.all_cons, List.all_nil, Bool.and_true, Bool.and_eq_true]
  refine ⟨?_, ?_, ?_, ?_, ?_, ?_⟩ <;> exact isDigit_48_add _ (Nat.mod_lt _ (by decide))

theorem allDig_head (a : List Ch) (ha : allDig a = true) (hne : a ≠ []) :
    (match a.head? with
     | some c => isDigit c
     | none => false) = true := by
  cases a with
  | nil => exact absurd rfl hne
  | cons c r =>
    simp only [allDig, List.all_cons, Bool.and_eq_true] at ha
    simpa using ha.1

theorem allDig_last (a : List Ch) (ha : allDig a = true) (hne : a ≠ []) :
    (match a.getLast? with
     | some c => isDigit c
     | none => false) = true := by
  have hmem : ∀ c, a.getLast? = some c → isDigit c = true := by
    intro c hc
    simp only [allDig, List.all_eq_true] at ha
    exact ha c (List.mem_of_getLast? hc)
  cases hl : a.getLast? with
  | none => simp [List.getLast?_eq_none_iff] at hl; exact absurd hl hne
  | some c => simpa using hmem c hl

theorem plain_digits (a : List Ch) (ha : allDig a = true) (hne : a ≠ []) : plainDec a = true := by
  simp only [plainDec, Bool.and_eq_true]
  refine ⟨⟨allDig_head a ha hne, ?_⟩, allDig_last a ha hne⟩
  simp only [allDig, List.all_eq_true] at ha ⊢
  intro x hx
  simp [ha x hx]

theorem plain_parts (a b : List Ch) (ha : allDig a = true) (hna : a ≠ []) (hb : allDig b = true)
    (hnb : b ≠ []) : plainDec (a ++ 46 :: b) = true := by
  simp only [plainDec, Bool.and_eq_true]
  refine ⟨⟨?_, ?_⟩, ?_⟩
  · cases a with
    | nil => exact absurd rfl hna
    | cons c r =>
      simp only [allDig, List.all_cons, Bool.and_eq_true] at ha
      simpa using ha.1
  · simp only [allDig, List.all_eq_true] at ha hb
    simp only [List.all_append, List.all_cons, Bool.and_eq_true, List.all_eq_true]
    refine ⟨fun x hx => by simp [ha x hx], by simp, fun x hx => by simp [hb x hx]⟩
  · have : (a ++ 46 :: b).getLast? = b.getLast? := by
      have : a ++ 46 :: b = (a ++ [46]) ++ b := by simp
      rw [this, getLast?_append_ne _ _ hnb]
    rw [this]
    exact allDig_last b hb hnb

theorem wrapNeg_plain (D : List Ch) (h : plainDec D = true) : wrapNeg D = D := by
  obtain ⟨c, r, rfl, hc, _⟩ := plainDec_shape D h
  have : c ≠ 45 := by
    intro he; subst he; simp [isDigit] at hc
  unfold wrapNeg
  split
  · rename_i s heq
    simp at heq
    exact absurd heq.1 this
  · rfl

theorem wrapNeg_neg (D : List Ch) : wrapNeg (45 :: D) = 40 :: 45 :: (D ++ [41]) := by
  simp [wrapNeg]

/-- a text is an admissible terminal (hypothesis of the theorems) -/
def TermGood (f : Fmt) (fl : List Ch) (s : List Ch) : Prop :=
  termOk f fl s = true ∧ rendOk f fl s = true

theorem signed_plain_good (f : Fmt) (fl : List Ch) (hfl : 40 ∈ fl) (D : List Ch) (h : plainDec D = true) :
    TermGood f fl (wrapNeg D) ∧ TermGood f fl (wrapNeg (45 :: D)) := by
  rw [wrapNeg_plain D h, wrapNeg_neg]
  exact ⟨plain_termOk f fl D h, neg_termOk f fl D h hfl⟩

/-- `std::to_string(double)` of a finite value, as language() prints it -/
theorem fmtF64_good (f : Fmt) (fl : List Ch) (hfl : 40 ∈ fl) (bits : Nat)
    (hfin : bits / 2 ^ 52 % 2048 ≠ 2047) : TermGood f fl (wrapNeg (fmtF64 bits)) := by
  have key : ∃ D, plainDec D = true ∧ (fmtF64 bits = D ∨ fmtF64 bits = 45 :: D) := by
    unfold fmtF64
    simp only [hfin, if_false]
    generalize (if 0 ≤ ((if bits / 2 ^ 52 % 2048 = 0 then 1 else ((bits / 2 ^ 52 % 2048 : Nat) : Int)) - 1075)
      then (if bits / 2 ^ 52 % 2048 = 0 then bits % 2 ^ 52 else 2 ^ 52 + bits % 2 ^ 52) *
        2 ^ (((if bits / 2 ^ 52 % 2048 = 0 then 1 else ((bits / 2 ^ 52 % 2048 : Nat) : Int)) - 1075).toNat) * 1000000
      else roundDiv ((if bits / 2 ^ 52 % 2048 = 0 then bits % 2 ^ 52 else 2 ^ 52 + bits % 2 ^ 52) * 1000000)
        (2 ^ (-((if bits / 2 ^ 52 % 2048 = 0 then 1 else ((bits / 2 ^ 52 % 2048 : Nat) : Int)) - 1075)).toNat)) = n
    refine ⟨natDigits (n / 1000000) ++ 46 :: pad6 (n % 1000000),
      plain_parts _ _ (natDigits_all _) (natDigits_ne _) (pad6_all _) (by simp [pad6]), ?_⟩
    by_cases hs : bits / 2 ^ 63 % 2 = 1
    · right; simp [hs]
    · left; simp [hs]
  obtain ⟨D, hD, h | h⟩ := key
  · rw [h]; exact (signed_plain_good f fl hfl D hD).1
  · rw [h]; exact (signed_plain_good f fl hfl D hD).2

/-- `std::to_string(int)` -/
theorem fmtInt_good (f : Fmt) (fl : List Ch) (hfl : 40 ∈ fl) (z : Int) :
    TermGood f fl (wrapNeg (fmtInt z)) := by
  have hD := plain_digits _ (natDigits_all z.natAbs) (natDigits_ne z.natAbs)
  unfold fmtInt
  split
  · exact (signed_plain_good f fl hfl _ hD).2
  · exact (signed_plain_good f fl hfl _ hD).1

/-- `std::to_string(int) + ".0"` (real::integer) -/
theorem fmtInt0_good (f : Fmt) (fl : List Ch) (hfl : 40 ∈ fl) (z : Int) :
    TermGood f fl (wrapNeg (fmtInt z ++ [46, 48])) := by
  have hD : plainDec (natDigits z.natAbs ++ 46 :: [48]) = true :=
    plain_parts _ _ (natDigits_all _) (natDigits_ne _) (by decide) (by simp)
  unfold fmtInt
  split
  · exact (signed_plain_good f fl hfl _ hD).2
  · exact (signed_plain_good f fl hfl _ hD).1

end Vita.C19
