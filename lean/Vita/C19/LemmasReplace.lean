/-
  C19 — lemmas about `replace_all`:

  * the substitution is LITERAL: `replaceAll s frm to` is the fixed segmentation `occSplit frm s`
    (which does not mention `to`) joined with `to` copied verbatim; joined with `frm` it is `s`
  * the two equations that determine replace_all: no occurrence -> unchanged; leftmost occurrence
    `a ++ frm ++ rest` -> `a ++ to ++ replace_all rest` (the inserted text is never rescanned)
  * the CODE of replace_all (statement language of Replace.lean, `canonReplaceAll`) computes
    `replaceAll` – loop invariant: `s = done ++ rest`, `start = |done|`, result so far
    `done ++ replGo frm to 0 rest`
-/
import Vita.C19.Replace
import Vita.C19.LemmasStr
namespace Vita.C19

/-! ### literal substitution -/

theorem occGo_ne_nil (frm : List Ch) : ∀ (s : List Ch) (skip : Nat) (acc : List Ch),
    occGo frm skip acc s ≠ [] := by
  intro s
  induction s with
  | nil => intro skip acc; simp [occGo]
  | cons c s ih =>
    intro skip acc
    cases skip with
    | succ k => simp only [occGo]; exact ih k acc
    | zero =>
      simp only [occGo]
      split
      · simp
      · exact ih 0 _

theorem joinWith_cons (sep x : List Ch) {l : List (List Ch)} (h : l ≠ []) :
    joinWith sep (x :: l) = x ++ sep ++ joinWith sep l := by
  cases l with
  | nil => exact absurd rfl h
  | cons y r => rfl

/-- the scan of replace_all = the segments joined with `to` -/
theorem replGo_occGo (frm to : List Ch) : ∀ (s : List Ch) (skip : Nat) (acc : List Ch),
    acc ++ replGo frm to skip s = joinWith to (occGo frm skip acc s) := by
  intro s
  induction s with
  | nil => intro skip acc; simp [occGo, replGo, joinWith]
  | cons c s ih =>
    intro skip acc
    cases skip with
    | succ k => simp only [occGo, replGo]; exact ih k acc
    | zero =>
      simp only [occGo, replGo]
      split
      · rw [joinWith_cons _ _ (occGo_ne_nil frm s _ _), ← ih (frm.length - 1) []]
        simp
      · rw [← ih 0 (acc ++ [c])]
        simp

theorem isPrefix_split : ∀ (p t : List Ch), isPrefix p t = true → ∃ rest, t = p ++ rest := by
  intro p
  induction p with
  | nil => intro t _; exact ⟨t, rfl⟩
  | cons a p ih =>
    intro t h
    cases t with
    | nil => simp [isPrefix] at h
    | cons b t =>
      simp only [isPrefix, Bool.and_eq_true, beq_iff_eq] at h
      obtain ⟨rest, hr⟩ := ih t h.2
      exact ⟨rest, by rw [h.1, hr]; rfl⟩

theorem isPrefix_nil_false {frm : List Ch} (hne : frm ≠ []) : isPrefix frm [] = false := by
  cases frm with
  | nil => exact absurd rfl hne
  | cons a p => rfl

/-- replacing every occurrence of `frm` by `frm` itself changes nothing -/
theorem replGo_self (frm : List Ch) (hne : frm ≠ []) : ∀ (n : Nat) (s : List Ch), s.length ≤ n →
    replGo frm frm 0 s = s := by
  intro n
  induction n with
  | zero =>
    intro s h
    have : s = [] := List.eq_nil_of_length_eq_zero (by omega)
    subst this; simp [replGo]
  | succ n ih =>
    intro s h
    cases s with
    | nil => simp [replGo]
    | cons c s =>
      cases hp : isPrefix frm (c :: s) with
      | true =>
        obtain ⟨rest, hr⟩ := isPrefix_split _ _ hp
        rw [hr, replGo_hit frm frm rest hne]
        have hl : (c :: s).length = frm.length + rest.length := by rw [hr]; simp
        have hf : 0 < frm.length := List.length_pos_iff.mpr hne
        rw [ih rest (by simp at hl; simp at h; omega)]
      | false =>
        rw [replGo_miss frm frm c s hp, ih s (by simp at h; omega)]

theorem replaceAll_nonempty (s frm to : List Ch) (hne : frm ≠ []) :
    replaceAll s frm to = replGo frm to 0 s := by
  cases frm with
  | nil => exact absurd rfl hne
  | cons a p => simp [replaceAll]

/-- no occurrence: nothing changes -/
theorem replGo_no_occurrence (frm to : List Ch) : ∀ s, occursIn frm s = false →
    replGo frm to 0 s = s := by
  intro s
  induction s with
  | nil => intro _; simp [replGo]
  | cons c s ih =>
    intro h
    simp only [occursIn, Bool.or_eq_false_iff] at h
    rw [replGo_miss frm to c s h.1, ih h.2]

/-- leftmost occurrence `a ++ frm ++ rest`: copy `a`, put `to`, go on with `rest` only -/
theorem replGo_first (frm to rest : List Ch) (hne : frm ≠ []) : ∀ (a : List Ch),
    (∀ a1 a2, a = a1 ++ a2 → a2 ≠ [] → isPrefix frm (a2 ++ frm ++ rest) = false) →
    replGo frm to 0 (a ++ frm ++ rest) = a ++ to ++ replGo frm to 0 rest := by
  intro a
  induction a with
  | nil => intro _; simpa using replGo_hit frm to rest hne
  | cons c a ih =>
    intro h
    have h0 := h [] (c :: a) rfl (by simp)
    have : c :: a ++ frm ++ rest = c :: (a ++ frm ++ rest) := by simp
    rw [this] at h0 ⊢
    rw [replGo_miss frm to c _ h0, ih (fun a1 a2 e ne => h (c :: a1) a2 (by rw [e]; rfl) ne)]
    simp

/-! ### the code of replace_all -/

theorem find0_none (frm to : List Ch) : ∀ t, find0 frm t = none → replGo frm to 0 t = t := by
  intro t
  induction t with
  | nil => intro _; simp [replGo]
  | cons c t ih =>
    intro h
    simp only [find0] at h
    split at h
    · cases h
    · rename_i hp
      rw [Option.map_eq_none_iff] at h
      rw [replGo_miss frm to c t (by simpa using hp), ih h]

theorem find0_some (frm to : List Ch) (hne : frm ≠ []) : ∀ (t : List Ch) (k : Nat),
    find0 frm t = some k →
    ∃ a rest, t = a ++ frm ++ rest ∧ a.length = k ∧
      replGo frm to 0 t = a ++ to ++ replGo frm to 0 rest := by
  intro t
  induction t with
  | nil =>
    intro k h
    simp [find0, isPrefix_nil_false hne] at h
  | cons c t ih =>
    intro k h
    simp only [find0] at h
    split at h
    · rename_i hp
      cases h
      obtain ⟨rest, hr⟩ := isPrefix_split _ _ hp
      refine ⟨[], rest, by simpa using hr, rfl, ?_⟩
      rw [hr]; simpa using replGo_hit frm to rest hne
    · rename_i hp
      rw [Option.map_eq_some_iff] at h
      obtain ⟨k', hk', hk⟩ := h
      obtain ⟨a, rest, e, hl, hr⟩ := ih k' hk'
      refine ⟨c :: a, rest, by rw [e]; simp, by simp [hl, hk], ?_⟩
      rw [replGo_miss frm to c t (by simpa using hp), hr]
      simp

theorem cond_eval (done rest frm to : List Ch) :
    loopCond.eval ⟨done ++ rest, frm, to, [some done.length]⟩ =
      match find0 frm rest with
      | none => some (some 0, ⟨done ++ rest, frm, to, [none]⟩)
      | some k => some (some 1, ⟨done ++ rest, frm, to, [some (done.length + k)]⟩) := by
  simp only [loopCond, RExp.eval, RSt.getV, List.getD, RSt.str, findFrom, List.getElem?_cons_zero,
    Option.getD_some, List.length_append, Nat.le_add_right, if_true, List.drop_left]
  cases find0 frm rest <;> simp [RSt.setV, setNth, b2n]

theorem body_exec (F : Nat) (done a frm rest to : List Ch) :
    loopBody.exec F ⟨done ++ (a ++ frm ++ rest), frm, to, [some (done.length + a.length)]⟩ =
      .run ⟨(done ++ a ++ to) ++ rest, frm, to, [some (done ++ a ++ to).length]⟩ := by
  have e1 : done ++ (a ++ frm ++ rest) = (done ++ a) ++ (frm ++ rest) := by simp
  have hl : done.length + a.length = (done ++ a).length := by simp
  have ht : List.take (done ++ a).length ((done ++ a) ++ (frm ++ rest)) = done ++ a := List.take_left
  have hd : List.drop ((done ++ a).length + frm.length) ((done ++ a) ++ (frm ++ rest)) = rest := by
    rw [← List.drop_drop, List.drop_left, List.drop_left]
  simp only [loopBody, RStm.exec, RExp.eval, RSt.getV, List.getD, RSt.str, List.getElem?_cons_zero,
    Option.getD_some, bne_self_eq_false, Bool.false_eq_true, if_false, replaceAt]
  rw [e1, hl]
  simp only [List.length_append, Nat.le_add_right, if_true]
  rw [← List.length_append, ht, hd]
  simp [RSt.setV, setNth, Nat.add_assoc]

/-- the loop of replace_all: `s = done ++ rest`, `start = |done|` -/
theorem loop_inv (frm to : List Ch) (hne : frm ≠ []) (F : Nat) : ∀ (fuel : Nat) (done rest : List Ch),
    rest.length < fuel →
    loopW loopCond.eval (loopBody.exec F) fuel ⟨done ++ rest, frm, to, [some done.length]⟩ =
      .run ⟨done ++ replGo frm to 0 rest, frm, to, [none]⟩ := by
  intro fuel
  induction fuel with
  | zero => intro done rest h; omega
  | succ fuel ih =>
    intro done rest h
    simp only [loopW, cond_eval]
    cases hf : find0 frm rest with
    | none =>
      simp only [beq_self_eq_true, if_true]
      rw [find0_none frm to rest hf]
    | some k =>
      obtain ⟨a, rest', e, hl, hr⟩ := find0_some frm to hne rest k hf
      have hpos : 0 < frm.length := List.length_pos_iff.mpr hne
      have hlen : rest'.length < fuel := by
        have : rest.length = a.length + frm.length + rest'.length := by rw [e]; simp [Nat.add_assoc]
        omega
      have : (some 1 == some 0) = false := by decide
      simp only [this, Bool.false_eq_true, if_false]
      subst hl
      rw [e, body_exec F done a frm rest' to]
      simp only []
      rw [ih (done ++ a ++ to) rest' hlen, ← e, hr]
      simp

theorem canon_runs (s frm to : List Ch) :
    runBody canonReplaceAll s frm to = some (replaceAll s frm to) := by
  cases frm with
  | nil =>
    simp [runBody, canonReplaceAll, RStm.exec, RExp.eval, RSt.str, b2n, replaceAll]
  | cons c p =>
    have hne : c :: p ≠ [] := by simp
    have hloop := loop_inv (c :: p) to hne (s.length + 1) (s.length + 1) [] s (by omega)
    simp only [List.nil_append, List.length_nil] at hloop
    simp only [runBody, canonReplaceAll, RStm.exec, RExp.eval, RSt.str, b2n, List.isEmpty_cons,
      Bool.false_eq_true, if_false, RSt.setV, setNth]
    simp only [show ((some 0 : Option Nat) == some 0) = true from rfl, if_true,
      show ((some 1 : Option Nat) == some 0) = false from by decide, Bool.false_eq_true, if_false]
    rw [hloop]
    simp [replaceAll]

theorem canon2_runs (s frm to : List Ch) :
    runBody canonReplaceAll2 s frm to = some (replaceAll s frm to) := by
  cases frm with
  | nil =>
    simp [runBody, canonReplaceAll2, RStm.exec, RExp.eval, RSt.str, b2n, replaceAll]
  | cons c p =>
    have hne : c :: p ≠ [] := by simp
    have hloop := loop_inv (c :: p) to hne (s.length + 1) (s.length + 1) [] s (by omega)
    simp only [List.nil_append, List.length_nil] at hloop
    simp only [runBody, canonReplaceAll2, RStm.exec, RExp.eval, RSt.str, b2n, List.isEmpty_cons,
      Bool.false_eq_true, if_false, RSt.setV]
    simp only [show ((some 0 : Option Nat) == some 0) = true from rfl, if_true,
      show setNth [] 0 (some 0) = [some 0] from rfl]
    rw [hloop]
    simp [replaceAll]

end Vita.C19
