/-
  C19 — lemmas at the string level: the sequential `replace_all` loop of language() computes
  the simultaneous substitution into the template's pieces (`seq_eq_sim`), for regular
  templates and clean argument texts.
-/
import Vita.C19.Model
namespace Vita.C19

/-! ### clean texts -/

theorem noPP_cons (c : Ch) (r : List Ch) :
    noPP (c :: r) = (!(c == 37 && r.head? == some 37) && noPP r) := by
  cases r with
  | nil => by_cases h : c = 37 <;> simp [noPP, h]
  | cons d r' => by_cases h1 : c = 37 <;> by_cases h2 : d = 37 <;> simp [noPP, h1, h2]

theorem noPP_tail {c : Ch} {x : List Ch} (h : noPP (c :: x) = true) : noPP x = true := by
  rw [noPP_cons] at h
  simp only [Bool.and_eq_true] at h
  exact h.2

theorem clean_nil : clean [] = true := by simp [clean, noPP]

theorem noPP_append {x y : List Ch} (hx : noPP x = true) (hy : noPP y = true)
    (hl : x.getLast? ≠ some 37) : noPP (x ++ y) = true := by
  induction x with
  | nil => simpa using hy
  | cons c r ih =>
    have hr := noPP_tail hx
    cases r with
    | nil =>
      have hc : c ≠ 37 := by simpa using hl
      show noPP (c :: y) = true
      rw [noPP_cons]
      simp [hc, hy]
    | cons d r' =>
      have hl' : (d :: r').getLast? ≠ some 37 := by simpa [List.getLast?_cons_cons] using hl
      have := ih hr hl'
      rw [noPP_cons] at hx
      show noPP (c :: (d :: (r' ++ y))) = true
      rw [noPP_cons]
      simp only [List.head?_cons, Bool.and_eq_true] at hx ⊢
      exact ⟨hx.1, by simpa using this⟩

theorem clean_append {x y : List Ch} (hx : clean x = true) (hy : clean y = true) :
    clean (x ++ y) = true := by
  simp only [clean, Bool.and_eq_true, bne_iff_ne, ne_eq] at *
  refine ⟨noPP_append hx.1 hy.1 hx.2, ?_⟩
  cases y with
  | nil => simpa using hx.2
  | cons d y' => simpa [List.getLast?_append] using hy.2

/-! ### the scan of replace_all -/

theorem replGo_skip (frm to : List Ch) : ∀ (x rest : List Ch),
    replGo frm to x.length (x ++ rest) = replGo frm to 0 rest := by
  intro x
  induction x with
  | nil => intro rest; rfl
  | cons c x ih =>
    intro rest
    show replGo frm to (x.length + 1) (c :: (x ++ rest)) = _
    simp only [replGo]
    exact ih rest

theorem isPrefix_self_append (p rest : List Ch) : isPrefix p (p ++ rest) = true := by
  induction p with
  | nil => rfl
  | cons a p ih => simp [isPrefix, ih]

/-- at an occurrence of the pattern: output `to`, resume after it -/
theorem replGo_hit (frm to rest : List Ch) (hne : frm ≠ []) :
    replGo frm to 0 (frm ++ rest) = to ++ replGo frm to 0 rest := by
  cases frm with
  | nil => exact absurd rfl hne
  | cons a p =>
    show replGo (a :: p) to 0 (a :: (p ++ rest)) = _
    simp only [replGo]
    have : isPrefix (a :: p) (a :: (p ++ rest)) = true := isPrefix_self_append (a :: p) rest
    simp only [this, if_true, List.length_cons, Nat.add_sub_cancel]
    rw [replGo_skip]

theorem replGo_miss (frm to : List Ch) (c : Ch) (s : List Ch)
    (h : isPrefix frm (c :: s) = false) :
    replGo frm to 0 (c :: s) = c :: replGo frm to 0 s := by
  simp [replGo, h]

/-- markers of the holes 1..9 -/
theorem marker_small (i : Nat) (h1 : 1 ≤ i) (h9 : i ≤ 9) : marker i = [37, 37, 48 + i, 37, 37] := by
  have : i = 1 ∨ i = 2 ∨ i = 3 ∨ i = 4 ∨ i = 5 ∨ i = 6 ∨ i = 7 ∨ i = 8 ∨ i = 9 := by omega
  rcases this with h | h | h | h | h | h | h | h | h <;> subst h <;> rfl

/-- scanning a clean text never finds a marker in it, whatever follows -/
theorem scan_clean (d : Ch) (to : List Ch) : ∀ (x y : List Ch), clean x = true →
    replGo [37, 37, d, 37, 37] to 0 (x ++ y) = x ++ replGo [37, 37, d, 37, 37] to 0 y := by
  intro x
  induction x with
  | nil => intro y _; rfl
  | cons c r ih =>
    intro y hc
    have hc' : clean r = true := by
      simp only [clean, Bool.and_eq_true, bne_iff_ne, ne_eq] at *
      refine ⟨noPP_tail hc.1, ?_⟩
      cases r with
      | nil => simp
      | cons e r' => simpa [List.getLast?_cons_cons] using hc.2
    have hmiss : isPrefix [37, 37, d, 37, 37] (c :: (r ++ y)) = false := by
      simp only [clean, Bool.and_eq_true, bne_iff_ne, ne_eq] at hc
      cases r with
      | nil =>
        have : c ≠ 37 := by simpa using hc.2
        simp [isPrefix]
        intro h; exact absurd h.symm this
      | cons e r' =>
        by_cases h1 : c = 37
        · by_cases h2 : e = 37
          · subst h1; subst h2; simp [noPP] at hc
          · simp [isPrefix]
            intro _ h; exact absurd h.symm h2
        · simp [isPrefix]
          intro h; exact absurd h.symm h1
    show replGo _ to 0 (c :: (r ++ y)) = c :: (r ++ replGo _ to 0 y)
    rw [replGo_miss _ _ _ _ hmiss, ih y hc']

/-- another marker (hole `e ≠ d`) is skipped, provided the text after it starts neither with
    `%` nor with a digit (or is empty) -/
theorem scan_other_marker (d e : Ch) (to rest : List Ch) (hde : d ≠ e) (he : e ≠ 37)
    (hd : isDigit d = true)
    (hrest : match rest with
             | [] => True
             | c :: _ => c ≠ 37 ∧ isDigit c = false) :
    replGo [37, 37, d, 37, 37] to 0 ([37, 37, e, 37, 37] ++ rest) =
      [37, 37, e, 37, 37] ++ replGo [37, 37, d, 37, 37] to 0 rest := by
  have hd37 : d ≠ 37 := by
    intro h; subst h; simp [isDigit] at hd
  show replGo _ to 0 (37 :: 37 :: e :: 37 :: 37 :: rest) = _
  have m0 : isPrefix [37, 37, d, 37, 37] (37 :: 37 :: e :: 37 :: 37 :: rest) = false := by
    simp [isPrefix, hde]
  have m1 : isPrefix [37, 37, d, 37, 37] (37 :: e :: 37 :: 37 :: rest) = false := by
    simp [isPrefix]; intro h; exact absurd h.symm he
  have m2 : isPrefix [37, 37, d, 37, 37] (e :: 37 :: 37 :: rest) = false := by
    simp [isPrefix]; intro h; exact absurd h.symm he
  have m3 : isPrefix [37, 37, d, 37, 37] (37 :: 37 :: rest) = false := by
    cases rest with
    | nil => simp [isPrefix]
    | cons c r =>
      simp [isPrefix]
      intro h; subst h; simp [hd] at hrest
  have m4 : isPrefix [37, 37, d, 37, 37] (37 :: rest) = false := by
    cases rest with
    | nil => simp [isPrefix]
    | cons c r =>
      simp [isPrefix]
      intro h; exact absurd h.symm hrest.1
  rw [replGo_miss _ _ _ _ m0, replGo_miss _ _ _ _ m1, replGo_miss _ _ _ _ m2,
    replGo_miss _ _ _ _ m3, replGo_miss _ _ _ _ m4]
  rfl

/-! ### passes of the loop -/

/-- text of a piece after the passes 1..k -/
def pieceStr (k : Nat) (rs : List (List Ch)) : Piece → List Ch
  | .lit l => l
  | .hole i => if i ≤ k then rs.getD (i - 1) [] else marker i

/-- the template after the passes 1..k -/
def substUpTo (k : Nat) (rs : List (List Ch)) : List Piece → List Ch
  | [] => []
  | p :: ps => pieceStr k rs p ++ substUpTo k rs ps

theorem substUpTo_zero (rs : List (List Ch)) : ∀ ps, regularGo n b ps = true →
    substUpTo 0 rs ps = joinPieces ps := by
  intro ps
  induction ps generalizing b with
  | nil => intro _; rfl
  | cons p ps ih =>
    intro h
    cases p with
    | lit l =>
      simp only [regularGo, Bool.and_eq_true] at h
      simp [substUpTo, pieceStr, joinPieces, ih h.2]
    | hole i =>
      simp only [regularGo, Bool.and_eq_true, decide_eq_true_eq] at h
      have : ¬ i ≤ 0 := by omega
      simp [substUpTo, pieceStr, joinPieces, this, ih h.2]

theorem substUpTo_all (rs : List (List Ch)) : ∀ ps, regularGo n b ps = true → n ≤ k →
    substUpTo k rs ps = substPieces rs ps := by
  intro ps
  induction ps generalizing b with
  | nil => intro _ _; rfl
  | cons p ps ih =>
    intro h hk
    cases p with
    | lit l =>
      simp only [regularGo, Bool.and_eq_true] at h
      simp [substUpTo, pieceStr, substPieces, ih h.2 hk]
    | hole i =>
      simp only [regularGo, Bool.and_eq_true, decide_eq_true_eq] at h
      have : i ≤ k := by omega
      simp [substUpTo, pieceStr, substPieces, this, ih h.2 hk]

/-- first character of the text after a hole, as `regularGo` constrains it -/
theorem after_hole_head (k : Nat) (rs : List (List Ch)) : ∀ ps, regularGo n true ps = true →
    match substUpTo k rs ps with
    | [] => True
    | c :: _ => c ≠ 37 ∧ isDigit c = false := by
  intro ps h
  cases ps with
  | nil => simp [substUpTo]
  | cons p ps =>
    cases p with
    | hole i => simp [regularGo] at h
    | lit l =>
      cases l with
      | nil => simp [regularGo] at h
      | cons c l' =>
        simp only [regularGo, Bool.and_eq_true, Bool.not_true, Bool.false_or, bne_iff_ne, ne_eq,
          Bool.not_eq_true'] at h
        simp only [substUpTo, pieceStr, List.cons_append]
        exact ⟨h.1.2.1, h.1.2.2⟩

/-- one pass of the loop: replace_all of marker `k` by `rs[k-1]` -/
theorem pass_step (n k : Nat) (rs : List (List Ch)) (hk1 : 1 ≤ k) (hkn : k ≤ n) (hn9 : n ≤ 9)
    (hrs : ∀ r ∈ rs, clean r = true) :
    ∀ (ps : List Piece) (b : Bool), regularGo n b ps = true →
      replGo (marker k) (rs.getD (k - 1) []) 0 (substUpTo (k - 1) rs ps) = substUpTo k rs ps := by
  intro ps
  induction ps with
  | nil => intro _ _; rfl
  | cons p ps ih =>
    intro b h
    have hk9 : k ≤ 9 := by omega
    rw [marker_small k hk1 hk9]
    cases p with
    | lit l =>
      simp only [regularGo, Bool.and_eq_true] at h
      have := ih false h.2
      rw [marker_small k hk1 hk9] at this
      simp only [substUpTo, pieceStr]
      rw [scan_clean _ _ _ _ h.1.1, this]
    | hole i =>
      simp only [regularGo, Bool.and_eq_true, decide_eq_true_eq] at h
      have ih' := ih true h.2
      rw [marker_small k hk1 hk9] at ih'
      have hclean : clean (rs.getD (i - 1) []) = true := by
        by_cases hi : i - 1 < rs.length
        · have : rs.getD (i - 1) [] = rs[i - 1] := by simp [List.getD, List.getElem?_eq_getElem hi]
          rw [this]; exact hrs _ (List.getElem_mem hi)
        · have : rs.getD (i - 1) [] = [] := by
            simp [List.getD, List.getElem?_eq_none (Nat.le_of_not_lt hi)]
          rw [this]; exact clean_nil
      simp only [substUpTo, pieceStr]
      by_cases hlt : i ≤ k - 1
      · have hik : i ≤ k := by omega
        simp only [hlt, hik, if_true]
        rw [scan_clean _ _ _ _ hclean, ih']
      · by_cases heq : i = k
        · subst heq
          simp only [hlt, if_false, Nat.le_refl, if_true]
          rw [marker_small i hk1 hk9]
          have := replGo_hit [37, 37, 48 + i, 37, 37] (rs.getD (i - 1) []) (substUpTo (i - 1) rs ps)
            (by simp)
          rw [this, ih']
        · have hik : ¬ i ≤ k := by omega
          simp only [hlt, hik, if_false]
          rw [marker_small i h.1.1.2 (by omega)]
          have hhead := after_hole_head (k - 1) rs ps h.2
          have := scan_other_marker (48 + k) (48 + i) (rs.getD (k - 1) []) (substUpTo (k - 1) rs ps)
            (by show (48 + k : Nat) ≠ 48 + i; omega) (by show (48 + i : Nat) ≠ 37; omega)
            (by simp only [isDigit, Bool.and_eq_true, decide_eq_true_eq]
                exact ⟨by show (48 : Nat) ≤ 48 + k; omega, by show (48 + k : Nat) ≤ 57; omega⟩) hhead
          rw [this, ih']


theorem marker_ne_nil (k : Nat) : marker k ≠ [] := by simp [marker]

/-- the remaining passes k+1 .. n of the loop -/
theorem seq_passes (n : Nat) (rs : List (List Ch)) (hlen : rs.length = n) (hn9 : n ≤ 9)
    (hrs : ∀ r ∈ rs, clean r = true) (ps : List Piece) (b : Bool) (hreg : regularGo n b ps = true) :
    ∀ (m k : Nat), k + m = n →
      seqRepl (k + 1) (rs.drop k) (substUpTo k rs ps) = substUpTo n rs ps := by
  intro m
  induction m with
  | zero =>
    intro k hk
    have : rs.drop k = [] := by apply List.drop_eq_nil_of_le; omega
    simp only [this, seqRepl]
    have : k = n := by omega
    rw [this]
  | succ m ih =>
    intro k hk
    have hlt : k < rs.length := by omega
    have hd : rs.drop k = rs[k] :: rs.drop (k + 1) := by
      rw [List.drop_eq_getElem_cons hlt]
    rw [hd]
    simp only [seqRepl]
    have hstep := pass_step n (k + 1) rs (by omega) (by omega) hn9 hrs ps b hreg
    simp only [Nat.add_sub_cancel] at hstep
    have hget : rs.getD k [] = rs[k] := by simp [List.getD, List.getElem?_eq_getElem hlt]
    rw [hget] at hstep
    have hra : replaceAll (substUpTo k rs ps) (marker (k + 1)) rs[k] = substUpTo (k + 1) rs ps := by
      unfold replaceAll
      have : (marker (k + 1)).isEmpty = false := by simp [marker]
      simp only [this]
      exact hstep
    rw [hra]
    exact ih (k + 1) (by omega)

/-- sequential replace_all = simultaneous substitution, for one template -/
theorem seq_eq_sim (f : Fmt) (sym : FnSym) (hreg : regularTpl f sym = true)
    (rs : List (List Ch)) (hlen : rs.length = sym.arity) (hrs : ∀ r ∈ rs, clean r = true) :
    seqRepl 1 rs (sym.tplOf f) = substPieces rs (splitMarkers sym.arity (sym.tplOf f)) := by
  simp only [regularTpl, Bool.and_eq_true, decide_eq_true_eq] at hreg
  have h0 := substUpTo_zero rs _ hreg.2
  have hall := substUpTo_all (k := sym.arity) rs _ hreg.2 (Nat.le_refl _)
  have := seq_passes sym.arity rs hlen hreg.1.2 hrs _ false hreg.2 sym.arity 0 (by omega)
  simp only [List.drop_zero, Nat.zero_add] at this
  rw [h0, hreg.1.1] at this
  rw [this, hall]

/-- the substituted text is clean again -/
theorem substPieces_clean (n : Nat) (rs : List (List Ch)) (hrs : ∀ r ∈ rs, clean r = true) :
    ∀ (ps : List Piece) (b : Bool), regularGo n b ps = true → clean (substPieces rs ps) = true := by
  intro ps
  induction ps with
  | nil => intro _ _; exact clean_nil
  | cons p ps ih =>
    intro b h
    cases p with
    | lit l =>
      simp only [regularGo, Bool.and_eq_true] at h
      simp only [substPieces]
      exact clean_append h.1.1 (ih false h.2)
    | hole i =>
      simp only [regularGo, Bool.and_eq_true] at h
      simp only [substPieces]
      refine clean_append ?_ (ih true h.2)
      by_cases hi : i - 1 < rs.length
      · have : rs.getD (i - 1) [] = rs[i - 1] := by simp [List.getD, List.getElem?_eq_getElem hi]
        rw [this]; exact hrs _ (List.getElem_mem hi)
      · have : rs.getD (i - 1) [] = [] := by
          simp [List.getD, List.getElem?_eq_none (Nat.le_of_not_lt hi)]
        rw [this]; exact clean_nil

theorem regular_of_all {fns : List FnSym} (hs : allRegular fns = true) {s : Nat} {sym : FnSym}
    (h : fns[s]? = some sym) (f : Fmt) : regularTpl f sym = true := by
  unfold allRegular at hs
  rw [List.all_eq_true] at hs
  have := hs sym (List.mem_of_getElem? h)
  rw [List.all_eq_true] at this
  exact this f (by cases f <;> simp [Fmt.all])

theorem simF_length (fns : List FnSym) (tms : List TmSym) (f : Fmt) :
    ∀ k : Forest, (simF fns tms f k).length = k.length
  | .nil => rfl
  | .cons _ r => by simp [simF, Forest.length, simF_length fns tms f r]

mutual
  /-- on every program the printing loop computes the simultaneous substitution, and the
      result is clean -/
  theorem lang_eq_sim (fns : List FnSym) (tms : List TmSym) (f : Fmt) (hr : allRegular fns = true) :
      ∀ t : Tree, wfT fns t = true → termsT clean tms f t = true →
        langT fns tms f t = simT fns tms f t ∧ clean (simT fns tms f t) = true
    | .tm k text bits, _, ht => by
        simp only [termsT] at ht
        simp [langT, simT, ht]
    | .fn s kids, hw, ht => by
        simp only [wfT] at hw
        simp only [termsT] at ht
        split at hw
        · simp at hw
        · rename_i sym hsym
          simp only [Bool.and_eq_true, decide_eq_true_eq] at hw
          have ⟨hEq, hClean⟩ := lang_eq_simF fns tms f hr kids hw.2 ht
          have hreg := regular_of_all hr hsym f
          have hlen : (simF fns tms f kids).length = sym.arity := by
            rw [simF_length]; exact hw.1
          simp only [langT, simT, hsym, hEq]
          have htake : (simF fns tms f kids).take sym.arity = simF fns tms f kids := by
            rw [← hlen]; exact List.take_length
          rw [htake, seq_eq_sim f sym hreg _ hlen hClean]
          refine ⟨rfl, ?_⟩
          simp only [regularTpl, Bool.and_eq_true] at hreg
          exact substPieces_clean sym.arity _ hClean _ false hreg.2
  theorem lang_eq_simF (fns : List FnSym) (tms : List TmSym) (f : Fmt) (hr : allRegular fns = true) :
      ∀ k : Forest, wfF fns k = true → termsF clean tms f k = true →
        langF fns tms f k = simF fns tms f k ∧ ∀ r ∈ simF fns tms f k, clean r = true
    | .nil, _, _ => by simp [langF, simF]
    | .cons t r, hw, ht => by
        simp only [wfF, Bool.and_eq_true] at hw
        simp only [termsF, Bool.and_eq_true] at ht
        have ⟨h1, h2⟩ := lang_eq_sim fns tms f hr t hw.1 ht.1
        have ⟨g1, g2⟩ := lang_eq_simF fns tms f hr r hw.2 ht.2
        simp only [langF, simF, h1, g1, true_and]
        intro x hx
        rcases List.mem_cons.mp hx with rfl | hx
        · exact h2
        · exact g2 x hx
end

end Vita.C19
