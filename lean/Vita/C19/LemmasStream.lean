/-
  C19 — lemmas about the stream-state model (`Stream.lean`).
-/
import Vita.C19.Stream
namespace Vita.C19

theorem StreamSt.get_set_same (s : StreamSt) (slot : String) (v : Nat) : (s.set slot v).get slot = v := by
  simp [StreamSt.get, StreamSt.set, List.find?]

theorem StreamSt.get_set_other (s : StreamSt) (a b : String) (v : Nat) (h : a ≠ b) :
    (s.set a v).get b = s.get b := by
  have hab : (a == b) = false := by simpa using h
  simp only [StreamSt.get, StreamSt.set, List.find?, hab, List.find?_filter]
  have : (fun p : String × Nat => decide ((p.1 != a) = true ∧ (p.1 == b) = true)) = (fun p => p.1 == b) := by
    funext p
    by_cases hp : p.1 = b
    · subst hp; simp [Ne.symm h]
    · simp [hp]
  rw [this]

theorem stAfter_append (ms : ManipTable) (s : StreamSt) (a b : List Op) :
    stAfter ms s (a ++ b) = stAfter ms (stAfter ms s a) b := by
  simp [stAfter, List.foldl_append]

theorem stAfter_cons (ms : ManipTable) (s : StreamSt) (o : Op) (r : List Op) :
    stAfter ms s (o :: r) = stAfter ms (stStep ms s o) r := rfl

/-- operations that leave a slot alone leave it alone -/
theorem quiet_keeps (ms : ManipTable) (slot : String) :
    ∀ (mid : List Op) (s : StreamSt), (∀ o ∈ mid, quiet ms slot o = true) →
      (stAfter ms s mid).get slot = s.get slot
  | [], _, _ => rfl
  | o :: r, s, h => by
      rw [stAfter_cons, quiet_keeps ms slot r _ (fun o' ho' => h o' (by simp [ho']))]
      have ho := h o (by simp)
      cases o with
      | print => rfl
      | fresh => simp [quiet] at ho
      | manip n a =>
        simp only [quiet] at ho
        simp only [stStep, applyManip]
        split
        · rename_i x nm sl v hfind
          rw [hfind] at ho
          simp only [bne_iff_ne, ne_eq] at ho
          exact StreamSt.get_set_other s sl slot _ ho
        · rfl

/-- the print after a history reports the state after that history -/
theorem runOps_snoc_print (ms : ManipTable) (cases : List (Nat × String)) (base : Nat) (fslot lslot : String) :
    ∀ (ops : List Op) (s : StreamSt),
      runOps ms cases base fslot lslot s (ops ++ [.print]) =
        runOps ms cases base fslot lslot s ops ++
          [((stAfter ms s ops).get fslot, (stAfter ms s ops).get lslot,
            shown cases base ((stAfter ms s ops).get fslot))]
  | [], s => by simp [runOps, stAfter]
  | o :: r, s => by
      cases o with
      | print =>
        simp only [List.cons_append, runOps, stAfter_cons, stStep]
        rw [runOps_snoc_print ms cases base fslot lslot r s]
      | fresh =>
        simp only [List.cons_append, runOps, stAfter_cons]
        rw [runOps_snoc_print ms cases base fslot lslot r _]
      | manip n a =>
        simp only [List.cons_append, runOps, stAfter_cons]
        rw [runOps_snoc_print ms cases base fslot lslot r _]

/-- a flag that is not a case label reaches the default branch -/
theorem shown_default (cases : List (Nat × String)) (base pf : Nat)
    (h : cases.all (fun c => decide (c.1 < base)) = true) (hp : base ≤ pf) :
    shown cases base pf = .lang (pf - base) := by
  have : cases.find? (fun c => c.1 == pf) = none := by
    rw [List.find?_eq_none]
    intro c hc
    have := List.all_eq_true.mp h c hc
    simp only [decide_eq_true_eq] at this
    simp only [beq_iff_eq]
    omega
  simp [shown, this]

/-- the conditions of the team loop only test flags below `base` -/
def flagsBelow (base : Nat) (body : List TeamStmt) : Bool :=
  body.all fun
    | .prim _ => true
    | .ifFmt fl _ _ => decide (fl < base)

/-- what the team loop executes when no condition holds -/
def elseBody (body : List TeamStmt) : List TeamPrim :=
  body.flatMap fun
    | .prim p => [p]
    | .ifFmt _ _ els => els

theorem exec_elseBody (base pf : Nat) (m : List Ch) (hp : base ≤ pf) :
    ∀ body : List TeamStmt, flagsBelow base body = true →
      body.flatMap (execStmt pf m) = (elseBody body).flatMap (execPrim m)
  | [], _ => rfl
  | st :: r, h => by
      simp only [flagsBelow, List.all_cons, Bool.and_eq_true] at h
      have ih := exec_elseBody base pf m hp r (by simpa [flagsBelow] using h.2)
      cases st with
      | prim p => simp [elseBody, execStmt, ih]
      | ifFmt fl thn els =>
        have hfl : ¬ pf = fl := by
          have := h.1; simp only [decide_eq_true_eq] at this; omega
        simp [elseBody, execStmt, hfl, ih]

end Vita.C19
