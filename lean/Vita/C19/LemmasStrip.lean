/-
  C19 — the final `stripOuter` of language(): when the text starts with `(` and ends with `)`
  the program's tree is a parenthesised expression and the stripped text scans to its inside.
-/
import Vita.C19.LemmasLex
namespace Vita.C19

theorem dropLast_concat {α : Type} (x : α) : ∀ (r : List α), r.getLast? = some x → r = r.dropLast ++ [x] := by
  intro r
  induction r with
  | nil => intro h; simp at h
  | cons a r ih =>
    intro h
    cases r with
    | nil => simp at h; simp [h]
    | cons b r' =>
      rw [List.getLast?_cons_cons] at h
      have := ih h
      simp only [List.dropLast_cons₂, List.cons_append]
      rw [← this]

theorem getLast?_append_ne {α : Type} (a b : List α) (hb : b ≠ []) : (a ++ b).getLast? = b.getLast? := by
  induction a with
  | nil => rfl
  | cons x a ih =>
    cases hab : a ++ b with
    | nil => simp at hab; exact absurd hab.2 hb
    | cons y l => simp only [List.cons_append, hab, List.getLast?_cons_cons]; rw [← hab]; exact ih

/-- shape of a text the code strips -/
theorem strip_shape (s : List Ch) (h : s.length > 2 ∧ s.head? = some 40 ∧ s.getLast? = some 41) :
    s = 40 :: ((s.drop 1).dropLast ++ [41]) := by
  obtain ⟨hlen, hh, hl⟩ := h
  cases s with
  | nil => simp at hlen
  | cons c r =>
    simp only [List.head?_cons, Option.some.injEq] at hh
    subst hh
    simp only [List.drop_one, List.tail_cons]
    congr 1
    have hr : r ≠ [] := by intro h; subst h; simp at hlen
    have hl' : r.getLast? = some 41 := by
      cases r with
      | nil => exact absurd rfl hr
      | cons d r' => simpa [List.getLast?_cons_cons] using hl
    exact dropLast_concat 41 r hl'

/-- scanning `( mid )` -/
theorem lexS_wrap (f : Fmt) (mid : List Ch)
    (hend : endOk (run f .idle ((40 :: (mid ++ [41])).map LCh.c)).2 = true) :
    lexS f (40 :: (mid ++ [41])) = Tok.lp :: (lexS f mid ++ [Tok.rp]) := by
  have h0 : run f .idle ((40 :: (mid ++ [41])).map LCh.c) =
      (Tok.lp :: (run f .idle ((mid ++ [41]).map LCh.c)).1, (run f .idle ((mid ++ [41]).map LCh.c)).2) := by
    simp [run, stepL, step, start, isLetter, isDigit, isSpace]
  rw [h0] at hend
  simp only [lexS, lexL, h0]
  simp only [List.map_append, run_append] at hend ⊢
  generalize (run f .idle (mid.map LCh.c)).2 = st at hend ⊢
  generalize (run f .idle (mid.map LCh.c)).1 = tk
  cases st with
  | inStr a e =>
    simp only [List.map_cons, List.map_nil, run, stepL, step] at hend
    by_cases he : e = true
    · simp [he, endOk] at hend
    · simp [he, endOk] at hend
  | idle => simp [run, stepL, step, start, isLetter, isDigit, isSpace, fin]
  | inId a => simp [run, stepL, step, start, isLetter, isDigit, isSpace, fin]
  | inNum a => simp [run, stepL, step, start, isLetter, isDigit, isSpace, fin]
  | inOp c => simp [run, stepL, step, start, isLetter, isDigit, isSpace, isOpCh, fin]

theorem substToks_head_notOpen (σ : Nat → List Tok) (ts : List Tok) (h : isOpen ts.head? = false) :
    (substToks σ ts).head? ≠ some Tok.lp := by
  cases ts with
  | nil => simp [substToks]
  | cons t r =>
    cases t <;> simp_all [substToks, isOpen]

theorem substToks_last_notClose (σ : Nat → List Tok) : ∀ (ts : List Tok), isClose ts.getLast? = false →
    (substToks σ ts).getLast? ≠ some Tok.rp := by
  intro ts
  induction ts with
  | nil => intro _; simp [substToks]
  | cons t r ih =>
    intro h
    cases r with
    | nil =>
      cases t <;> simp_all [substToks, isClose]
    | cons u r' =>
      have h' : isClose (u :: r').getLast? = false := by simpa [List.getLast?_cons_cons] using h
      have := ih h'
      have hne : substToks σ (u :: r') ≠ [] ∨ substToks σ (u :: r') = [] := by
        by_cases hh : substToks σ (u :: r') = [] <;> simp [hh]
      rcases hne with hne | hemp
      · cases t with
        | hole i =>
          simp only [substToks]
          rw [getLast?_append_ne _ _ hne]
          exact this
        | _ =>
          simp only [substToks]
          cases hs : substToks σ (u :: r') with
          | nil => exact absurd hs hne
          | cons v w => rw [List.getLast?_cons_cons, ← hs]; exact this
      · -- the rest substitutes to nothing: impossible unless it consists of holes only,
        -- whose last element is a hole = close
        exfalso
        have : ∀ (l : List Tok), substToks σ l = [] → l ≠ [] → isClose l.getLast? = true := by
          intro l
          induction l with
          | nil => intro _ h; exact absurd rfl h
          | cons a l' ihl =>
            intro hs _
            cases a with
            | hole i =>
              cases l' with
              | nil => simp [isClose]
              | cons b l'' =>
                simp only [substToks, List.append_eq_nil_iff] at hs
                simpa [List.getLast?_cons_cons] using ihl hs.2 (by simp)
            | _ => simp [substToks] at hs
        have := this (u :: r') hemp (by simp)
        rw [h'] at this
        exact absurd this (by simp)

end Vita.C19

namespace Vita.C19

mutual
  theorem termsT_mono (p q : List Ch → Bool) (hpq : ∀ s, p s = true → q s = true) (tms : List TmSym)
      (f : Fmt) : ∀ t : Tree, termsT p tms f t = true → termsT q tms f t = true
    | .tm k text bits, h => by simp only [termsT] at h ⊢; exact hpq _ h
    | .fn s kids, h => by simp only [termsT] at h ⊢; exact termsF_mono p q hpq tms f kids h
  theorem termsF_mono (p q : List Ch → Bool) (hpq : ∀ s, p s = true → q s = true) (tms : List TmSym)
      (f : Fmt) : ∀ k : Forest, termsF p tms f k = true → termsF q tms f k = true
    | .nil, _ => by simp [termsF]
    | .cons t r, h => by
        simp only [termsF, Bool.and_eq_true] at h ⊢
        exact ⟨termsT_mono p q hpq tms f t h.1, termsF_mono p q hpq tms f r h.2⟩
end

/-- if the program's token list starts with `(` and ends with `)`, the program's tree is a
    parenthesised expression (this is what makes `stripOuter` sound) -/
theorem astT_paren (fns : List FnSym) (tms : List TmSym) (f : Fmt) (fl : List Ch)
    (hs : allSafe fns = true) (t : Tree) (hw : wfT fns t = true)
    (ht : termsT (termSyn f fl) tms f t = true)
    (hhead : (toksT fns tms f t).head? = some Tok.lp)
    (hlast : (toksT fns tms f t).getLast? = some Tok.rp) :
    isParen (astT fns tms f t) = true := by
  cases t with
  | tm k text bits =>
    simp only [termsT] at ht
    simp only [toksT] at hhead hlast
    simp only [astT, termAst]
    cases hp : parse f (lexS f (termStr tms f k text bits)) with
    | none => simp [termSyn, hp] at ht
    | some a =>
      simp only [termSyn, hp, Bool.and_eq_true, decide_eq_true_eq] at ht
      have hso := ht.2.2
      simp only [stripOk, hhead, hlast, isOpen, isClose, Bool.and_self, Bool.not_true,
        Bool.false_or] at hso
      simpa using hso
  | fn s kids =>
    simp only [wfT] at hw
    split at hw
    · simp at hw
    · rename_i sym hsym
      have ⟨hflat, hok, _, _, hso⟩ := safeTpl_spec (safe_of_all hs hsym f)
      simp only [toksT, hsym] at hhead hlast
      simp only [astT, hsym]
      simp only [stripOk, Bool.or_eq_true, Bool.not_eq_true', Bool.and_eq_false_iff] at hso
      rcases hso with (ho | hc) | hp
      · exact absurd hhead (substToks_head_notOpen _ _ ho)
      · exact absurd hlast (substToks_last_notClose _ _ hc)
      · cases hA : tplAst f sym with
        | paren e => simp [subst, isParen]
        | _ => rw [hA] at hp; simp [isParen] at hp

end Vita.C19
