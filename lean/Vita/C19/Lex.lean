/-
  C19 — lexical level of the exported-source model.

  Characters are bytes (`Nat`), strings are `List Ch`: everything here is structurally
  recursive so that the kernel can evaluate it (`decide` over the extracted template table).

  * `splitMarkers` : template string -> pieces (literal text / hole `%%i%%`, 1 ≤ i ≤ arity ≤ 9)
  * `step` / `run` / `lexL` : a small maximal-munch scanner written as a state machine
    (identifiers, pp-numbers, string literals, one- and two-character operators, brackets);
    a hole is a separator that produces the token `hole i`.
-/
namespace Vita.C19

abbrev Ch := Nat

inductive Fmt where
  | c | cpp | mql | py
  deriving DecidableEq, Repr, Inhabited

def Fmt.ofIdx : Nat → Fmt
  | 0 => .c | 1 => .cpp | 2 => .mql | _ => .py

def Fmt.idx : Fmt → Nat
  | .c => 0 | .cpp => 1 | .mql => 2 | .py => 3

def Fmt.all : List Fmt := [.c, .cpp, .mql, .py]

inductive Tok where
  | id (s : List Ch)
  | num (s : List Ch)
  | str (s : List Ch)
  | op (s : List Ch)
  | lp | rp | comma
  | hole (i : Nat)
  | bad
  deriving DecidableEq, Repr, Inhabited

/-- a character of a template after marker recognition -/
inductive LCh where
  | c (x : Ch)
  | h (i : Nat)
  deriving DecidableEq, Repr

/-- a piece of a template: literal text or the hole `%%i%%` (`i` is 1-based as in the code) -/
inductive Piece where
  | lit (s : List Ch)
  | hole (i : Nat)
  deriving DecidableEq, Repr

def PCT : Ch := 37   -- '%'

def isDigit (x : Ch) : Bool := decide (48 ≤ x) && decide (x ≤ 57)
def isLetter (x : Ch) : Bool :=
  (decide (65 ≤ x) && decide (x ≤ 90)) || (decide (97 ≤ x) && decide (x ≤ 122)) || x == 95
def isSpace (x : Ch) : Bool := x == 32 || x == 9 || x == 10 || x == 13
/-- `+ - * / % < > = ! & | ? : . ~ ^` -/
def isOpCh (x : Ch) : Bool :=
  x == 43 || x == 45 || x == 42 || x == 47 || x == 37 || x == 60 || x == 62 || x == 61 ||
  x == 33 || x == 38 || x == 124 || x == 63 || x == 58 || x == 46 || x == 126 || x == 94

/-- marker `%%d%%` with `1 ≤ d ≤ arity` at the head of the text? -/
def markerAt (arity : Nat) : List Ch → Option (Nat × List Ch)
  | 37 :: 37 :: d :: 37 :: 37 :: rest =>
      if 49 ≤ d ∧ d ≤ 57 ∧ d - 48 ≤ arity then some (d - 48, rest) else none
  | _ => none

/-- pieces of a template, scanning left to right (`skip` = characters of a recognised marker
    still to be dropped; `acc` = literal text collected so far). -/
def splitGo (arity : Nat) : Nat → List Ch → List Ch → List Piece
  | _, acc, [] => if acc.isEmpty then [] else [.lit acc]
  | skip + 1, acc, _ :: s => splitGo arity skip acc s
  | 0, acc, x :: s =>
      match markerAt arity (x :: s) with
      | some (i, _) =>
          (if acc.isEmpty then [] else [Piece.lit acc]) ++ Piece.hole i :: splitGo arity 4 [] s
      | none => splitGo arity 0 (acc ++ [x]) s

def splitMarkers (arity : Nat) (s : List Ch) : List Piece := splitGo arity 0 [] s

def Piece.toL : Piece → List LCh
  | .lit s => s.map LCh.c
  | .hole i => [LCh.h i]

def piecesL (ps : List Piece) : List LCh := ps.flatMap Piece.toL

/-! ### scanner -/

inductive LS where
  | idle
  | inId (acc : List Ch)
  | inNum (acc : List Ch)
  | inStr (acc : List Ch) (esc : Bool)
  | inOp (c : Ch)
  deriving DecidableEq, Repr

/-- two-character operators.  `//` and `/*` start a comment in the C family: `bad`. -/
def twoOp (f : Fmt) (a b : Ch) : Option Tok :=
  let t := Tok.op [a, b]
  if (a == 38 && b == 38) || (a == 124 && b == 124) || (a == 61 && b == 61) ||
     (a == 33 && b == 61) || (a == 60 && b == 61) || (a == 62 && b == 61) ||
     (a == 60 && b == 60) || (a == 62 && b == 62) || (a == 45 && b == 62) ||
     (a == 58 && b == 58) || (a == 43 && b == 61) || (a == 45 && b == 61) ||
     (a == 42 && b == 61) || (a == 47 && b == 61) then some t
  else if (a == 45 && b == 45) || (a == 43 && b == 43) then
    (if f = .py then none else some t)          -- `--x` is two unary minus signs in Python
  else if (a == 47 && b == 47) || (a == 42 && b == 42) then
    (if f = .py then some t else (if a == 47 then some Tok.bad else none))
  else if a == 47 && b == 42 then
    (if f = .py then none else some Tok.bad)
  else none

def lastIsE : List Ch → Bool
  | [] => false
  | [x] => x == 101 || x == 69
  | _ :: y :: r => lastIsE (y :: r)

/-- first character of a token, coming from `idle` -/
def start (x : Ch) : List Tok × LS :=
  if isLetter x then ([], .inId [x])
  else if isDigit x then ([], .inNum [x])
  else if isSpace x then ([], .idle)
  else if x == 34 then ([], .inStr [] false)
  else if x == 40 then ([.lp], .idle)
  else if x == 41 then ([.rp], .idle)
  else if x == 44 then ([.comma], .idle)
  else if isOpCh x then ([], .inOp x)
  else ([.bad], .idle)

/-- tokens still pending in a state (end of text or forced separation) -/
def fin : LS → List Tok
  | .idle => []
  | .inId a => [.id a]
  | .inNum a => [.num a]
  | .inStr _ _ => [.bad]
  | .inOp c => [.op [c]]

def step (f : Fmt) (st : LS) (x : Ch) : List Tok × LS :=
  match st with
  | .idle => start x
  | .inId a =>
      if isLetter x || isDigit x then ([], .inId (a ++ [x]))
      else (Tok.id a :: (start x).1, (start x).2)
  | .inNum a =>
      if isDigit x || x == 46 || isLetter x || ((x == 43 || x == 45) && lastIsE a)
      then ([], .inNum (a ++ [x]))
      else (Tok.num a :: (start x).1, (start x).2)
  | .inStr a esc =>
      if esc then ([], .inStr (a ++ [x]) false)
      else if x == 92 then ([], .inStr (a ++ [x]) true)
      else if x == 34 then ([.str a], .idle)
      else ([], .inStr (a ++ [x]) false)
  | .inOp c =>
      if isOpCh x then
        match twoOp f c x with
        | some t => ([t], .idle)
        | none => ([.op [c]], .inOp x)
      else (Tok.op [c] :: (start x).1, (start x).2)

def stepL (f : Fmt) (st : LS) : LCh → List Tok × LS
  | .c x => step f st x
  | .h i => (fin st ++ [Tok.hole i], .idle)

def run (f : Fmt) : LS → List LCh → List Tok × LS
  | st, [] => ([], st)
  | st, x :: xs =>
      let r := stepL f st x
      let r2 := run f r.2 xs
      (r.1 ++ r2.1, r2.2)

def lexL (f : Fmt) (xs : List LCh) : List Tok :=
  let r := run f .idle xs
  r.1 ++ fin r.2

/-- scanner on plain text -/
def lexS (f : Fmt) (s : List Ch) : List Tok := lexL f (s.map LCh.c)

/-- scanner on a template (markers of holes 1..arity recognised first) -/
def lexT (f : Fmt) (arity : Nat) (s : List Ch) : List Tok := lexL f (piecesL (splitMarkers arity s))

end Vita.C19
