/-
  C19 — table-level checks (all decidable, evaluated by the kernel over the EXTRACTED table).

  * `hl`            the level every rendering is guaranteed to have and every hole may rely on:
                    13 = "prefix-operator expression" (a negative literal `-3.5`, `!x`)
  * `safeTpl`       Safe: the template (holes as opaque operands) parses, the parse tree prints
                    back to exactly the scanned template, it is precedence-consistent when every
                    hole is only known to have level `hl`, it has itself level ≥ `hl`, its holes
                    are 1..arity, and stripping an outer `( )` pair removes a matching pair
  * `regularTpl`    the marker structure of the template is such that the sequential
                    replace_all cannot see a marker that is not one of the template's own
  * `noGlueTpl`     NoGlue: around every hole the scanner is at a token boundary whatever the
                    argument starts / ends with
-/
import Vita.C19.Render
import Vita.C19.GenTemplates
namespace Vita.C19

def hl : Nat := 13

/-- stripping is only sound if a leading `(` and a trailing `)` are the two ends of one
    parenthesised expression -/
def isOpen : Option Tok → Bool
  | some .lp => true
  | some (.hole _) => true
  | _ => false

def isClose : Option Tok → Bool
  | some .rp => true
  | some (.hole _) => true
  | _ => false

def isParen : Ast → Bool
  | .paren _ => true
  | _ => false

/-- if the text can start with `(` and end with `)` (a hole can be anything), the two must be
    the two ends of one parenthesised expression -/
def stripOk (toks : List Tok) (a : Ast) : Bool :=
  !(isOpen toks.head? && isClose toks.getLast?) || isParen a

def safeAst (f : Fmt) (arity : Nat) (toks : List Tok) (a : Ast) : Bool :=
  decide (flat a = toks) && ok f hl a && decide (hl ≤ lvl f hl a) && holesIn arity a && stripOk toks a

def safeTpl (f : Fmt) (sym : FnSym) : Bool :=
  let toks := lexT f sym.arity (sym.tplOf f)
  match parse f toks with
  | some a => safeAst f sym.arity toks a
  | none => false

def allSafe (fns : List FnSym) : Bool :=
  fns.all fun sym => Fmt.all.all fun f => safeTpl f sym


/-! ### marker structure (for `seq_replace_ok`) -/

/-- no two consecutive `%` -/
def noPP : List Ch → Bool
  | 37 :: 37 :: _ => false
  | _ :: r => noPP r
  | [] => true

/-- text that can be inserted anywhere without creating or hiding a marker -/
def clean (s : List Ch) : Bool := noPP s && s.getLast? != some 37

/-- literal pieces are clean and non-empty, holes are 1..n, no two holes are adjacent, and the
    text after a hole starts neither with `%` nor with a digit -/
def regularGo (n : Nat) : Bool → List Piece → Bool
  | _, [] => true
  | afterHole, .lit s :: ps =>
      clean s &&
      (match s with
       | c :: _ => !afterHole || (c != 37 && !isDigit c)
       | [] => false) && regularGo n false ps
  | afterHole, .hole i :: ps => !afterHole && decide (1 ≤ i) && decide (i ≤ n) && regularGo n true ps

/-- the text the pieces stand for -/
def joinPieces : List Piece → List Ch
  | [] => []
  | .lit s :: ps => s ++ joinPieces ps
  | .hole i :: ps => marker i ++ joinPieces ps

def regularTpl (f : Fmt) (sym : FnSym) : Bool :=
  let ps := splitMarkers sym.arity (sym.tplOf f)
  decide (joinPieces ps = sym.tplOf f) && decide (sym.arity ≤ 9) && regularGo sym.arity false ps

/-! ### token boundaries around holes (NoGlue) -/

def litHead (s : List Ch) : List Ch := s.take 1

/-- non-alphanumeric characters a rendering may start with (from the table) -/
def firstList (fns : List FnSym) (tms : List TmSym) (f : Fmt) : List Ch :=
  (fns.flatMap fun sym => match splitMarkers sym.arity (sym.tplOf f) with
                          | .lit s :: _ => litHead s
                          | _ => []) ++
  40 :: (tms.flatMap fun t => match t.disp.getD f.idx [] with
                              | .lit s :: _ => litHead (wrapNeg s)
                              | _ => [])

/-- may a rendering start with `c`? -/
def firstOk (fl : List Ch) (c : Ch) : Bool :=
  isLetter c || isDigit c || c == 34 || fl.contains c

/-- in state `st`, does every admissible first character start a fresh token? -/
def sepBefore (f : Fmt) (fl : List Ch) : LS → Bool
  | .idle => true
  | .inOp c0 => fl.all fun c => !isOpCh c || (twoOp f c0 c).isNone
  | _ => false

/-- states a rendering may leave the scanner in -/
def endOk : LS → Bool
  | .idle => true
  | .inId _ => true
  | .inNum a => !lastIsE a
  | _ => false

/-- after a rendering (state `endOk`), does `d` start a fresh token? -/
def sepAfter (d : Ch) : Bool := !isLetter d && !isDigit d && d != 46 && d != 34

def noGlueGo (f : Fmt) (fl : List Ch) : LS → Bool → List Piece → Bool
  | st, _, [] => endOk st
  | st, afterHole, .lit s :: ps =>
      (!afterHole || match s with
                     | d :: _ => sepAfter d
                     | [] => false) &&
      noGlueGo f fl (run f (if afterHole then .idle else st) (s.map LCh.c)).2 false ps
  | st, _, .hole _ :: ps =>
      sepBefore f fl st &&
      (match ps with
       | [] => true
       | .lit _ :: _ => noGlueGo f fl .idle true ps
       | .hole _ :: _ => false)

/-- NoGlue for one template: token boundaries at both sides of every hole, a first character
    that is admissible itself, and an admissible final scanner state -/
def firstPieceOk (fl : List Ch) : List Piece → Bool
  | .lit (c :: _) :: _ => firstOk fl c
  | .hole _ :: _ => true
  | _ => false

def noGlueTpl (f : Fmt) (fl : List Ch) (sym : FnSym) : Bool :=
  let ps := splitMarkers sym.arity (sym.tplOf f)
  firstPieceOk fl ps && noGlueGo f fl .idle false ps

def allRegular (fns : List FnSym) : Bool :=
  fns.all fun sym => Fmt.all.all fun f => regularTpl f sym

def allNoGlue (fns : List FnSym) (tms : List TmSym) : Bool :=
  fns.all fun sym => Fmt.all.all fun f => noGlueTpl f (firstList fns tms f) sym

/-- what a terminal's text must satisfy to take part in the theorems -/
def termSyn (f : Fmt) (fl : List Ch) (s : List Ch) : Bool :=
  (match s with
   | c :: _ => firstOk fl c
   | [] => false) &&
  endOk (run f .idle (s.map LCh.c)).2 &&
  (match parse f (lexS f s) with
   | some a => decide (flat a = lexS f s) && ok f hl a && decide (hl ≤ lvl f hl a) && holesIn 0 a &&
               stripOk (lexS f s) a
   | none => false)

mutual
  /-- symbol indices are in the table and every function node has `arity` arguments -/
  def wfT (fns : List FnSym) : Tree → Bool
    | .tm _ _ _ => true
    | .fn s kids =>
        match fns[s]? with
        | none => false
        | some sym => decide (kids.length = sym.arity) && wfF fns kids
  def wfF (fns : List FnSym) : Forest → Bool
    | .nil => true
    | .cons t r => wfT fns t && wfF fns r
end

mutual
  /-- every terminal's printed text satisfies `p` -/
  def termsT (p : List Ch → Bool) (tms : List TmSym) (f : Fmt) : Tree → Bool
    | .tm k text bits => p (termStr tms f k text bits)
    | .fn _ kids => termsF p tms f kids
  def termsF (p : List Ch → Bool) (tms : List TmSym) (f : Fmt) : Forest → Bool
    | .nil => true
    | .cons t r => termsT p tms f t && termsF p tms f r
end

/-- a rendering is non-empty, starts with an admissible character and leaves the scanner in an
    admissible state -/
def rendOk (f : Fmt) (fl : List Ch) (s : List Ch) : Bool :=
  (match s with
   | c :: _ => firstOk fl c
   | [] => false) &&
  endOk (run f .idle (s.map LCh.c)).2

def termOk (f : Fmt) (fl : List Ch) (s : List Ch) : Bool := clean s && termSyn f fl s

end Vita.C19
