/-
  C19 — table-level checks (all decidable, evaluated by the kernel over the EXTRACTED table).

  * `hl`            the level every rendering is guaranteed to have and every hole may rely on:
                    13 = "prefix-operator expression" (a negative literal `-3.5`, `!x`)
  * `safeTpl`       Safe: the template (holes as opaque operands) parses, the parse tree prints
                    back to exactly the scanned template, it is precedence-consistent when every
                    hole is only known to have level `hl`, it has itself level ≥ `hl`, its holes
                    are 1..arity, and stripping an outer `( )` pair removes a matching pair
  * `regularTpl`    the marker structure of the template is such that the sequential
                    replace_all cannot see a marker that is not one of the template's own
  * `noGlueTpl`     NoGlue: around every hole the scanner is at a token boundary whatever the
                    argument starts / ends with
-/
import Vita.C19.Render
import Vita.C19.GenTemplates
namespace Vita.C19

def hl : Nat := 13

/-- stripping is only sound if a leading `(` and a trailing `)` are the two ends of one
    parenthesised expression -/
def stripOk (toks : List Tok) (a : Ast) : Bool :=
  if toks.head? = some Tok.lp ∧ toks.getLast? = some Tok.rp then
    match a with
    | .paren _ => true
    | _ => false
  else true

def safeAst (f : Fmt) (arity : Nat) (toks : List Tok) (a : Ast) : Bool :=
  flat a == toks && ok f hl a && decide (hl ≤ lvl f hl a) && holesIn arity a && stripOk toks a

def safeTpl (f : Fmt) (sym : FnSym) : Bool :=
  let toks := lexT f sym.arity (sym.tplOf f)
  match parse f toks with
  | some a => safeAst f sym.arity toks a
  | none => false

def allSafe (fns : List FnSym) : Bool :=
  fns.all fun sym => Fmt.all.all fun f => safeTpl f sym

end Vita.C19
