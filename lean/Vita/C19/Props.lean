import Vita.C19.Model
namespace Vita.C19

set_option maxRecDepth 100000 in
/-- Safe, for every extracted template and format -/
theorem all_templates_safe : allSafe Gen.functions = true := by decide

set_option maxRecDepth 100000 in
theorem all_templates_regular : allRegular Gen.functions = true := by decide

set_option maxRecDepth 100000 in
/-- NoGlue, for every extracted template and format -/
theorem all_templates_noglue : allNoGlue Gen.functions Gen.terminals = true := by decide

end Vita.C19
