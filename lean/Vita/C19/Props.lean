/-
  C19 — exported source code denotes the same expression as the program.

  Table obligations (kernel evaluation over the table EXTRACTED from the sources):
    all_templates_safe, all_templates_regular, all_templates_noglue
  For every program (induction on trees), for any table meeting the obligations:
    render_atom      the program's tree (template trees with holes replaced by complete
                     argument trees) is precedence-consistent, of operand level, and prints
                     to the substituted token list
    seq_replace_ok   the sequential replace_all loop of language() = simultaneous substitution
    scan_render      scanning the substituted text = substituting the scanned arguments
    export_denotes   what `out::X_language << individual` prints scans to the token list of
                     the program's tree (outer parentheses possibly removed)
  and the instance for the shipped symbols: export_denotes_shipped.
  replace_all (round 3b): replace_all_is_literal, replace_all_leftmost_occurrence,
    replace_all_without_occurrence, replace_all_empty_pattern (the substitution copies `to` verbatim,
    whatever characters it holds) and replace_all_code_is_model (the EXTRACTED body of
    vita::replace_all computes the model's replaceAll for all arguments).
-/
import Vita.C19.LemmasStr
import Vita.C19.LemmasStrip
import Vita.C19.LemmasNum
import Vita.C19.LemmasGenome
import Vita.C19.LemmasStream
import Vita.C19.LemmasExact
import Vita.C19.GenExport
import Vita.C19.LemmasReplace
import Vita.C19.GenReplace
namespace Vita.C19

set_option maxRecDepth 100000 in
/-- Safe: every extracted template, in every format, parses (holes as opaque operands) to a
    tree that prints back to the template, is precedence-consistent assuming only that an
    argument has level ≥ 13 (a prefix-operator expression), has level ≥ 13 itself, uses the
    holes 1..arity only, and is a parenthesised expression if it can start with `(` and end
    with `)`. -/
theorem all_templates_safe : allSafe Gen.functions = true := by decide

set_option maxRecDepth 100000 in
/-- every extracted template is the concatenation of its pieces, has at most 9 holes, its
    literal pieces contain no `%%`, do not end with `%`, holes are not adjacent and the text
    after a hole starts neither with `%` nor with a digit. -/
theorem all_templates_regular : allRegular Gen.functions = true := by decide

set_option maxRecDepth 100000 in
/-- NoGlue: in every extracted template the scanner is at a token boundary before every hole
    (for every character a rendering can start with) and after it (for every state a rendering
    can leave the scanner in); the template starts with an admissible character and ends in
    an admissible state. -/
theorem all_templates_noglue : allNoGlue Gen.functions Gen.terminals = true := by decide

/-- the hypotheses on a program: symbol indices in the table, `arity` arguments per function
    node, and every terminal prints a clean, self-contained operand -/
def Admissible (fns : List FnSym) (tms : List TmSym) (f : Fmt) (t : Tree) : Prop :=
  wfT fns t = true ∧
  termsT (termOk f (firstList fns tms f)) tms f t = true ∧
  termsT (rendOk f (firstList fns tms f)) tms f t = true

/-- `render_atom`: for EVERY program the expression it denotes – for each function node the
    parse tree of that function's template with each hole replaced by the complete tree of
    the corresponding argument – is precedence-consistent (`ok`: reading its token list with
    the precedence rules gives this tree back), is an operand (level ≥ 13), and its token
    list is the template's token list with each hole replaced by the argument's. -/
theorem render_atom (fns : List FnSym) (tms : List TmSym) (f : Fmt) (hs : allSafe fns = true)
    (t : Tree) (h : Admissible fns tms f t) :
    flat (astT fns tms f t) = toksT fns tms f t ∧ ok f hl (astT fns tms f t) = true ∧
    hl ≤ lvl f hl (astT fns tms f t) := by
  obtain ⟨hw, ht, _⟩ := h
  have ht' := termsT_mono _ (termSyn f (firstList fns tms f)) (fun s h => by
    simp only [termOk, Bool.and_eq_true] at h; exact h.2) tms f t ht
  exact good_tree fns tms f _ hs t hw ht'

/-- `seq_replace_ok`: the loop `for i in 1..arity: ret = replace_all(ret, "%%i%%", text of
    argument i)` computes the simultaneous substitution, on every program whose terminal texts
    are clean (no `%%`, no trailing `%`). -/
theorem seq_replace_ok (fns : List FnSym) (tms : List TmSym) (f : Fmt) (hr : allRegular fns = true)
    (t : Tree) (h : Admissible fns tms f t) :
    langT fns tms f t = simT fns tms f t := by
  obtain ⟨hw, ht, _⟩ := h
  have ht' := termsT_mono _ clean (fun s h => by
    simp only [termOk, Bool.and_eq_true] at h; exact h.1) tms f t ht
  exact (lang_eq_sim fns tms f hr t hw ht').1

/-- `scan_render`: no token is glued across a hole boundary: scanning the substituted text
    gives the substituted token list. -/
theorem scan_render (fns : List FnSym) (tms : List TmSym) (f : Fmt) (hr : allRegular fns = true)
    (hg : allNoGlue fns tms = true) (t : Tree) (h : Admissible fns tms f t) :
    lexS f (simT fns tms f t) = toksT fns tms f t :=
  (lex_tree fns tms f hr hg t h.1 h.2.2).1

/-- `strip_only_matching` (the outer-parentheses rule of language(): `length > 2 && front == '('
    && back == ')'`): the text printed for a program scans to the token list of a
    precedence-consistent tree `A`; either nothing was stripped and `A` is the program's expression
    tree, or the program's expression tree is `( A )` – the two characters removed are the two
    ends of ONE parenthesised expression, never the `(` of a first and the `)` of a last operand
    (`(a)+(b)` is not turned into `a)+(b`). -/
theorem strip_only_matching (fns : List FnSym) (tms : List TmSym) (f : Fmt)
    (hs : allSafe fns = true) (hr : allRegular fns = true) (hg : allNoGlue fns tms = true)
    (t : Tree) (h : Admissible fns tms f t) :
    ∃ A : Ast, lexS f (language fns tms f t) = flat A ∧ ok f hl A = true ∧
      ((A = astT fns tms f t ∧ language fns tms f t = langT fns tms f t) ∨
       astT fns tms f t = .paren A) := by
  have ⟨hflat, hok, _⟩ := render_atom fns tms f hs t h
  have hseq := seq_replace_ok fns tms f hr t h
  have ⟨hlex, hrend⟩ := lex_tree fns tms f hr hg t h.1 h.2.2
  have ht' := termsT_mono _ (termSyn f (firstList fns tms f)) (fun s h => by
    simp only [termOk, Bool.and_eq_true] at h; exact h.2) tms f t h.2.1
  simp only [language, hseq]
  generalize hS : simT fns tms f t = s at hlex hrend
  by_cases hc : s.length > 2 ∧ s.head? = some 40 ∧ s.getLast? = some 41
  · have hshape := strip_shape s hc
    have hstrip : stripOuter s = (s.drop 1).dropLast := by simp [stripOuter, hc]
    generalize (s.drop 1).dropLast = mid at hshape hstrip
    rw [hstrip]
    simp only [rendOk, Bool.and_eq_true] at hrend
    have hend := hrend.2
    rw [hshape] at hend hlex
    have hwrap := lexS_wrap f mid hend
    rw [hwrap] at hlex
    have hpar := astT_paren fns tms f _ hs t h.1 ht' (by rw [← hlex]; rfl) (by
      rw [← hlex]
      show ((Tok.lp :: lexS f mid) ++ [Tok.rp]).getLast? = some Tok.rp
      rw [getLast?_append_ne _ _ (by simp)]
      rfl)
    cases hA : astT fns tms f t with
    | paren e =>
      rw [hA] at hflat hok
      refine ⟨e, ?_, ?_, Or.inr rfl⟩
      · simp only [flat, List.cons_append, ← hlex, List.cons.injEq, true_and] at hflat
        exact (List.append_cancel_right hflat).symm
      · simp only [ok, Bool.and_eq_true] at hok
        exact hok.1
    | _ => rw [hA] at hpar; simp [isParen] at hpar
  · have hstrip : stripOuter s = s := by simp [stripOuter, hc]
    rw [hstrip]
    exact ⟨astT fns tms f t, by rw [hlex, hflat], hok, Or.inl ⟨rfl, rfl⟩⟩

/-- `export_denotes`: the text printed for a program scans to the token list of a
    precedence-consistent tree `A` which is the program's expression tree, or that tree without
    its outer pair of parentheses. -/
theorem export_denotes (fns : List FnSym) (tms : List TmSym) (f : Fmt)
    (hs : allSafe fns = true) (hr : allRegular fns = true) (hg : allNoGlue fns tms = true)
    (t : Tree) (h : Admissible fns tms f t) :
    ∃ A : Ast, lexS f (language fns tms f t) = flat A ∧ ok f hl A = true ∧
      (A = astT fns tms f t ∨ astT fns tms f t = .paren A) := by
  obtain ⟨A, h1, h2, h3⟩ := strip_only_matching fns tms f hs hr hg t h
  exact ⟨A, h1, h2, h3.elim (fun x => Or.inl x.1) Or.inr⟩

/-- the shipped table meets the obligations: for every program over the shipped primitives and
    each of the four formats, the exported text denotes the program's expression. -/
theorem export_denotes_shipped (f : Fmt) (t : Tree) (h : Admissible Gen.functions Gen.terminals f t) :
    ∃ A : Ast, lexS f (language Gen.functions Gen.terminals f t) = flat A ∧ ok f hl A = true ∧
      (A = astT Gen.functions Gen.terminals f t ∨ astT Gen.functions Gen.terminals f t = .paren A) :=
  export_denotes _ _ f all_templates_safe all_templates_regular all_templates_noglue t h


/-- the terminal hypothesis of `Admissible` holds for EVERY numeric terminal: a class whose
    display is `std::to_string(double)` (finite parameter: ephemeral reals, integer::number,
    constant<double>), `std::to_string(int)` (constant<int>) or `std::to_string(int) + ".0"`
    (real::integer) prints – after language() has put a negative text in parentheses – a clean,
    self-contained operand: negative and fractional constants included. -/
theorem numeric_terminal_admissible (fns : List FnSym) (tms : List TmSym) (f : Fmt) (k : Nat)
    (t : TmSym) (text : List Ch) (bits : Nat) (hk : tms[k]? = some t)
    (hd : (t.disp.getD f.idx [] = [.toStrD] ∧ bits / 2 ^ 52 % 2048 ≠ 2047) ∨
          t.disp.getD f.idx [] = [.toStrI] ∨ t.disp.getD f.idx [] = [.toStrI, .lit [46, 48]]) :
    termOk f (firstList fns tms f) (termStr tms f k text bits) = true ∧
    rendOk f (firstList fns tms f) (termStr tms f k text bits) = true := by
  have hfl : 40 ∈ firstList fns tms f := by simp [firstList]
  rcases hd with ⟨hd, hfin⟩ | hd | hd
  · have : termStr tms f k text bits = wrapNeg (fmtF64 bits) := by
      simp only [termStr, dispStr, hk]
      rw [hd]
      simp [partStr]
    rw [this]; exact fmtF64_good f _ hfl bits hfin
  · have : termStr tms f k text bits = wrapNeg (fmtInt (truncF64 bits)) := by
      simp only [termStr, dispStr, hk]
      rw [hd]
      simp [partStr]
    rw [this]; exact fmtInt_good f _ hfl _
  · have : termStr tms f k text bits = wrapNeg (fmtInt (truncF64 bits) ++ [46, 48]) := by
      simp only [termStr, dispStr, hk]
      rw [hd]
      simp [partStr]
    rw [this]; exact fmtInt0_good f _ hfl _

/-! ### the genome level: the exported text is a function of the unfolded program only -/

/-- `export_of_unfolded`: what `out::X_language << individual` prints – the recursive lambda
    reading its arguments through `mep[{args[i], arg_category(i)}]`, i.e. by LOCUS (row and
    category) – is the text of the tree unfolded from the best locus.  For every genome, every
    best locus, every format. -/
theorem export_of_unfolded (fns : List FnSym) (tms : List TmSym) (f : Fmt) (g : Genome) (n : Nat)
    (best : Locus) :
    exportG fns tms f g n best = language fns tms f (unfoldG fns g n best) := by
  simp only [exportG, language, langG_eq_langT]

/-- `export_layout_independent`: equal trees ⇒ equal text.  Two individuals (different numbers
    of rows and categories, genes placed in different rows, several active genes in one row or one
    per row, a sub-expression shared as a DAG node or repeated) whose unfolded programs are equal
    are printed identically. -/
theorem export_layout_independent (fns : List FnSym) (tms : List TmSym) (f : Fmt) (g1 g2 : Genome)
    (n1 n2 : Nat) (b1 b2 : Locus) (h : unfoldG fns g1 n1 b1 = unfoldG fns g2 n2 b2) :
    exportG fns tms f g1 n1 b1 = exportG fns tms f g2 n2 b2 := by
  simp only [export_of_unfolded, h]

/-- `export_ignores_inactive`: the text depends on the ACTIVE genes only: two genomes that hold
    the same gene at every locus reachable from the best locus are printed identically, whatever
    the other loci hold (introns, the other categories of an active row, ...). -/
theorem export_ignores_inactive (fns : List FnSym) (tms : List TmSym) (f : Fmt) (g1 g2 : Genome)
    (n : Nat) (best : Locus) (h : ∀ m, Active fns g1 best m → g1 m = g2 m) :
    exportG fns tms f g1 n best = exportG fns tms f g2 n best :=
  export_layout_independent fns tms f g1 g2 n n best best (unfoldG_congr fns g1 g2 n best h)

/-- `unfold_fuel_irrelevant`: on a well-formed genome (`i_mep::is_valid`: the arguments of a gene
    in row i are in rows i+1 .. n-1) the recursion of language() needs no more than `n` levels:
    any larger bound unfolds the same program and prints the same text. -/
theorem unfold_fuel_irrelevant (fns : List FnSym) (tms : List TmSym) (f : Fmt) (g : Genome) (n : Nat)
    (hw : WfG fns g n) (best : Locus) (hb : best.row < n) (fuel : Nat) (hf : n ≤ fuel) :
    unfoldG fns g fuel best = unfoldG fns g n best ∧
    exportG fns tms f g fuel best = exportG fns tms f g n best := by
  have h := unfoldG_stable fns g n hw fuel n best hb (by omega) (by omega)
  exact ⟨h, export_layout_independent fns tms f g g fuel n best best h⟩

/-- `export_genome_denotes`: `export_denotes` at the genome level: the text printed for an
    individual scans to the token list of a precedence-consistent tree which is the expression
    tree of the unfolded program, or that tree without its one outer pair of parentheses. -/
theorem export_genome_denotes (fns : List FnSym) (tms : List TmSym) (f : Fmt)
    (hs : allSafe fns = true) (hr : allRegular fns = true) (hg : allNoGlue fns tms = true)
    (g : Genome) (n : Nat) (best : Locus) (h : Admissible fns tms f (unfoldG fns g n best)) :
    ∃ A : Ast, lexS f (exportG fns tms f g n best) = flat A ∧ ok f hl A = true ∧
      (A = astT fns tms f (unfoldG fns g n best) ∨ astT fns tms f (unfoldG fns g n best) = .paren A) := by
  rw [export_of_unfolded]
  exact export_denotes fns tms f hs hr hg _ h

/-- `team_export_lines`: a team is printed as its members' texts, each followed by a newline;
    when no member's text contains a newline the lines of the team's text are exactly the
    members' texts (so each line denotes its member's expression by `export_genome_denotes`). -/
theorem team_export_lines (ms : List (List Ch)) (h : ∀ m ∈ ms, 10 ∉ m) :
    splitLines (teamG ms) = ms :=
  splitLines_teamG ms h

/-! ### replace_all: the substitution is literal (round 3b) -/

/-- `replace_all_is_literal`: for every text `s` and non-empty pattern `frm` there is ONE segmentation of `s`
    – `occSplit frm s`, computed without looking at the replacement – such that joining the segments with
    `frm` gives `s` back and, for EVERY replacement text `to`, `replace_all(s, frm, to)` is the segments
    joined with `to` copied verbatim: no character of `to` (`$`, `&`, `\`, `%`, a placeholder, …) is
    interpreted, and where the occurrences are does not depend on `to` (the inserted text is never
    rescanned). -/
theorem replace_all_is_literal (s frm : List Ch) (hne : frm ≠ []) :
    joinWith frm (occSplit frm s) = s ∧
    ∀ to, replaceAll s frm to = joinWith to (occSplit frm s) := by
  have h : ∀ to, replaceAll s frm to = joinWith to (occSplit frm s) := by
    intro to
    rw [replaceAll_nonempty s frm to hne]
    simpa [occSplit] using replGo_occGo frm to s 0 []
  refine ⟨?_, h⟩
  rw [← h frm, replaceAll_nonempty s frm frm hne]
  exact replGo_self frm hne s.length s (Nat.le_refl _)

/-- `replace_all_leftmost_occurrence`: if `frm` occurs in `a ++ frm ++ rest` first at the end of `a`
    (it is a prefix of no earlier suffix), the result is `a`, then `to` verbatim, then replace_all of
    `rest` ALONE – the scan resumes after the inserted text.  Together with
    `replace_all_without_occurrence` this determines replace_all (induction on the length of `s`). -/
theorem replace_all_leftmost_occurrence (a frm rest to : List Ch) (hne : frm ≠ [])
    (hfirst : ∀ a1 a2, a = a1 ++ a2 → a2 ≠ [] → isPrefix frm (a2 ++ frm ++ rest) = false) :
    replaceAll (a ++ frm ++ rest) frm to = a ++ to ++ replaceAll rest frm to := by
  rw [replaceAll_nonempty _ frm to hne, replaceAll_nonempty _ frm to hne]
  exact replGo_first frm to rest hne a hfirst

/-- hypothesis of `replace_all_leftmost_occurrence`: in `%(%%1%%)` the marker occurs first after `%(` -/
example : ∀ a1 a2 : List Ch, [37, 40] = a1 ++ a2 → a2 ≠ [] →
    isPrefix (marker 1) (a2 ++ marker 1 ++ [41]) = false := by
  intro a1 a2 h hne
  cases a1 with
  | nil => simp at h; subst h; decide
  | cons x t =>
    cases t with
    | nil => simp at h; obtain ⟨_, rfl⟩ := h; decide
    | cons y u =>
      cases u with
      | nil => simp at h; exact absurd h.2.2 hne
      | cons z v => simp at h

/-- `replace_all_without_occurrence`: a text in which `frm` does not occur is returned unchanged. -/
theorem replace_all_without_occurrence (s frm to : List Ch) (h : occursIn frm s = false) :
    replaceAll s frm to = s := by
  unfold replaceAll
  split
  · rfl
  · exact replGo_no_occurrence frm to s h

/-- hypothesis of `replace_all_without_occurrence`: `%%2%%` does not contain `%%1%%` -/
example : occursIn (marker 1) (marker 2) = false := by decide

/-- `replace_all_empty_pattern`: `if (!from.empty())` – an empty pattern replaces nothing. -/
theorem replace_all_empty_pattern (s to : List Ch) : replaceAll s [] to = s := rfl

/-- the replacement `$&$1$$\1%%` is copied as it is (twice), `%%2%%` stays -/
example : replaceAll ([40] ++ marker 1 ++ [43] ++ marker 2 ++ [42] ++ marker 1 ++ [41]) (marker 1)
      [36, 38, 36, 49, 36, 36, 92, 49, 37, 37] =
    [40, 36, 38, 36, 49, 36, 36, 92, 49, 37, 37, 43] ++ marker 2 ++
      [42, 36, 38, 36, 49, 36, 36, 92, 49, 37, 37, 41] := by decide

/-- `replace_all_code_is_model`: the body of `vita::replace_all` EXTRACTED from the clang AST of
    utility.cc (`Gen.replaceAllBody`, a term of the statement language of `Vita.C19.Replace`: find /
    replace / length / empty / npos / `=` / `+=` / `!=` / `if` / `while` / `return`), run on ANY three
    strings with the semantics of std::string (size_t idealised: strings shorter than npos), returns
    exactly the model's `replaceAll s frm to` – by the loop invariant `s = done ++ rest`,
    `start = |done|`, `done` final.  The extracted term must be the loop as shipped (`canonReplaceAll`) or
    the same loop after an early `if (from.empty()) return s;` (`canonReplaceAll2`), up to the names of the
    variables and `size()` / `length()`. -/
theorem replace_all_code_is_model (s frm to : List Ch) :
    runBody Gen.replaceAllBody s frm to = some (replaceAll s frm to) := by
  have h : Gen.replaceAllBody = canonReplaceAll ∨ Gen.replaceAllBody = canonReplaceAll2 := by decide
  rcases h with h | h <;> rw [h]
  · exact canon_runs s frm to
  · exact canon2_runs s frm to

/-! ### numeric constants: what `std::to_string(double)` prints, read back -/

/-- `to_string_double_reads_back`: for EVERY finite double the text `std::to_string` prints is
    `[-]digits.dddddd` and denotes (sign bit, `scaled6 bits` millionths) – the value rounded
    half-even to 6 decimals. -/
theorem to_string_double_reads_back (bits : Nat) (hfin : bits / 2 ^ 52 % 2048 ≠ 2047) :
    readSigned6 (fmtF64 bits) = some (decide (bits / 2 ^ 63 % 2 = 1), scaled6 bits) :=
  fmtF64_reads_back bits hfin

/-- `constants_print_exactly`: the class "constants print exactly" (`exact6`: finite, and
    mantissa·10⁶ divisible by 2^(-exponent) when the exponent is negative) is exactly right: for
    such a constant the printed text denotes the constant itself – the millionths read back are
    mantissa·2^exponent·10⁶, nothing was rounded away. -/
theorem constants_print_exactly (bits : Nat) (h : exact6 bits = true) :
    readSigned6 (fmtF64 bits) = some (decide (bits / 2 ^ 63 % 2 = 1), scaled6 bits) ∧
    (0 ≤ f64Exp bits → scaled6 bits = f64Mant bits * 2 ^ (f64Exp bits).toNat * 1000000) ∧
    (f64Exp bits < 0 → scaled6 bits * 2 ^ (-(f64Exp bits)).toNat = f64Mant bits * 1000000) := by
  have hfin : bits / 2 ^ 52 % 2048 ≠ 2047 := by
    simp only [exact6, Bool.and_eq_true, decide_eq_true_eq] at h
    exact h.1
  exact ⟨fmtF64_reads_back bits hfin, exact6_value bits h⟩

/-- 2.5 and -0.015625 (= -1/64) print exactly, 0.1 does not (0.100000 ≠ 0.1000000000000000055…) -/
example : exact6 0x4004000000000000 = true ∧ exact6 0xBF90000000000000 = true ∧
    exact6 0x3FB999999999999A = false := by decide

example : readSigned6 (fmtF64 0xBF90000000000000) = some (true, 15625) := by decide

/-! ### format selection: manipulator -> iword slot -> operator<< -> language(format) -/

/-- the four language manipulators and the column of the template table each must select -/
def langManips : List (String × Fmt) :=
  [("c_language", .c), ("cpp_language", .cpp), ("mql_language", .mql), ("python_language", .py)]

/-- `language_selection_persists` (over the EXTRACTED enumerators, manipulator bodies and switch):
    for every history of a stream – any operations `pre`, then `s << out::X_language`, then any
    operations `mid` that neither replace the stream nor write the format slot (prints, long/short
    form, …) – the next `s << individual` takes the default branch of the switch and calls
    `language(s, symbol::format(k), ind)` with `k` = the column of format X. -/
theorem language_selection_persists (pre mid : List Op) (s : StreamSt) (name : String) (f : Fmt) (arg : Nat)
    (hm : (name, f) ∈ langManips)
    (hq : ∀ o ∈ mid, quiet Gen.manipulators Gen.formatSlot o = true) :
    shown Gen.dispatchCases Gen.dispatchBase
      ((stAfter Gen.manipulators s (pre ++ .manip name arg :: mid)).get Gen.formatSlot) = .lang f.idx := by
  rw [stAfter_append, stAfter_cons, quiet_keeps _ _ mid _ hq]
  generalize stAfter Gen.manipulators s pre = s'
  simp only [langManips, List.mem_cons, Prod.mk.injEq, List.not_mem_nil, or_false] at hm
  rcases hm with ⟨rfl, rfl⟩ | ⟨rfl, rfl⟩ | ⟨rfl, rfl⟩ | ⟨rfl, rfl⟩
  all_goals
    simp only [stStep, applyManip, Gen.manipulators, List.find?, Gen.formatSlot, Option.getD]
    first
      | (rw [StreamSt.get_set_same]; decide)
      | (simp only [String.reduceBEq, StreamSt.get_set_same]; decide)

/-- `print_format_selects`: `out::print_format(language_f + k)` stores its argument in the format
    slot, and a flag `language_f + k` reaches `language(s, symbol::format(k), ind)` – no case
    label of the switch is ≥ language_f. -/
theorem print_format_selects (pre mid : List Op) (s : StreamSt) (k : Nat)
    (hq : ∀ o ∈ mid, quiet Gen.manipulators Gen.formatSlot o = true) :
    shown Gen.dispatchCases Gen.dispatchBase
      ((stAfter Gen.manipulators s (pre ++ .manip "print_format" (Gen.dispatchBase + k) :: mid)).get
        Gen.formatSlot) = .lang k := by
  rw [stAfter_append, stAfter_cons, quiet_keeps _ _ mid _ hq]
  generalize stAfter Gen.manipulators s pre = s'
  have h1 : (stStep Gen.manipulators s' (.manip "print_format" (Gen.dispatchBase + k))).get Gen.formatSlot =
      Gen.dispatchBase + k := by
    simp only [stStep, applyManip, Gen.manipulators, List.find?, Gen.formatSlot, Option.getD]
    first
      | exact StreamSt.get_set_same _ _ _
      | (simp only [String.reduceBEq]; exact StreamSt.get_set_same _ _ _)
  rw [h1, shown_default _ _ _ (by decide) (by omega)]
  congr 1; omega

/-- a stream nobody configured prints the `list` format, never a language -/
theorem fresh_stream_is_not_language :
    shown Gen.dispatchCases Gen.dispatchBase (StreamSt.fresh.get Gen.formatSlot) = .fn "list" := by decide

/-- `team_language_format`: in every language format (flag ≥ language_f) a team is printed as
    every member's text followed by a newline (`teamG`, whose lines are the members' texts by
    `team_export_lines`). -/
theorem team_language_format (pf : Nat) (h : Gen.dispatchBase ≤ pf) (ms : List (List Ch)) :
    teamExec Gen.teamBody pf ms = teamG ms := by
  have hb : elseBody Gen.teamBody = [.member, .put 10] := by decide
  simp only [teamExec, teamG]
  congr 1
  funext m
  rw [exec_elseBody Gen.dispatchBase pf m h Gen.teamBody (by decide), hb]
  simp [execPrim]

/-! ### the hypotheses are satisfiable: a concrete non-trivial program -/

/-- index of the function named `name` in the extracted table -/
def fnIdx (name : List Ch) : Nat := (Gen.functions.findIdx? (fun s => s.name == name)).getD 0

/-- index of the first terminal class printed by `std::to_string(double)` / by its name -/
def tmIdx (p : List TPart) : Nat := (Gen.terminals.findIdx? (fun t => t.disp.getD 0 [] == p)).getD 0

/-- FSUB(2.0, FMUL(FSIGMOID(X1), -3.5)) : 2.0 = 0x4000000000000000, -3.5 = 0xC00C000000000000 -/
def sampleTree : Tree :=
  .fn (fnIdx [70, 83, 85, 66])
    (.cons (.tm (tmIdx [.toStrD]) [] 0x4000000000000000)
    (.cons (.fn (fnIdx [70, 77, 85, 76])
        (.cons (.fn (fnIdx [70, 83, 73, 71, 77, 79, 73, 68]) (.cons (.tm (tmIdx [.name]) [88, 49] 0) .nil))
        (.cons (.tm (tmIdx [.toStrD]) [] 0xC00C000000000000) .nil)))
     .nil))

set_option maxRecDepth 100000 in
example : ∀ f ∈ Fmt.all, wfT Gen.functions sampleTree = true ∧
    termsT (termOk f (firstList Gen.functions Gen.terminals f)) Gen.terminals f sampleTree = true ∧
    termsT (rendOk f (firstList Gen.functions Gen.terminals f)) Gen.terminals f sampleTree = true := by
  decide

set_option maxRecDepth 100000 in
/-- the model prints it in C as `2.000000-((1 / (1 + exp(-X1)))*(-3.500000))` (not pinned here: a
    harmless change of a template must not break the build); the executable parser reads the
    printed text back as the program's tree without its outer parentheses -/
example : ∀ f ∈ Fmt.all,
    parse f (lexS f (language Gen.functions Gen.terminals f sampleTree)) =
      some (stripAst (astT Gen.functions Gen.terminals f sampleTree)) := by
  decide

/-! ### genome-level examples -/

/-- index of the first terminal class whose C display is `p` -/
def tmIdxQ : Nat := tmIdx [.quote]

/-- FADD(FLENGTH("hello"), 3.0), categories 0 = reals, 1 = strings, packed: `3.0` at [2,0] and
    `"hello"` at [2,1] are two ACTIVE genes of the same row; [0,1] and [1,1] are inactive -/
def demoPacked : List (List Gene) :=
  [[.fn (fnIdx [70, 65, 68, 68]) [0, 0] [1, 2], .tm tmIdxQ [120] 0],
   [.fn (fnIdx [70, 76, 69, 78, 71, 84, 72]) [1] [2], .tm tmIdxQ [121] 0],
   [.tm (tmIdx [.toStrD]) [] 0x4008000000000000, .tm tmIdxQ [104, 101, 108, 108, 111] 0]]

/-- the same program, one active gene per row, other inactive genes -/
def demoChain : List (List Gene) :=
  [[.fn (fnIdx [70, 65, 68, 68]) [0, 0] [1, 3], .tm tmIdxQ [] 0],
   [.fn (fnIdx [70, 76, 69, 78, 71, 84, 72]) [1] [2], .tm tmIdxQ [122] 0],
   [.tm (tmIdx [.toStrD]) [] 0x4000000000000000, .tm tmIdxQ [104, 101, 108, 108, 111] 0],
   [.tm (tmIdx [.toStrD]) [] 0x4008000000000000, .tm tmIdxQ [97] 0],
   [.tm (tmIdx [.toStrD]) [] 0, .tm tmIdxQ [98] 0]]

example : wfRows Gen.functions demoPacked = true ∧ wfRows Gen.functions demoChain = true := by decide

/-- both same-row genes of `demoPacked` are active -/
example : Active Gen.functions (Genome.ofRows demoPacked) ⟨0, 0⟩ ⟨2, 0⟩ ∧
    Active Gen.functions (Genome.ofRows demoPacked) ⟨0, 0⟩ ⟨2, 1⟩ := by
  have h0 : Genome.ofRows demoPacked ⟨0, 0⟩ = .fn (fnIdx [70, 65, 68, 68]) [0, 0] [1, 2] := rfl
  have h1 : Genome.ofRows demoPacked ⟨1, 0⟩ = .fn (fnIdx [70, 76, 69, 78, 71, 84, 72]) [1] [2] := rfl
  obtain ⟨sa, hsa, haa⟩ : ∃ sym, Gen.functions[fnIdx [70, 65, 68, 68]]? = some sym ∧ sym.arity = 2 := by
    refine ⟨_, rfl, ?_⟩; decide
  obtain ⟨sl, hsl, hal⟩ : ∃ sym, Gen.functions[fnIdx [70, 76, 69, 78, 71, 84, 72]]? = some sym ∧ sym.arity = 1 := by
    refine ⟨_, rfl, ?_⟩; decide
  have a1 : Active Gen.functions (Genome.ofRows demoPacked) ⟨0, 0⟩ ⟨1, 0⟩ :=
    Active.arg (i := 0) (Active.root _) h0 hsa (by omega)
  exact ⟨Active.arg (i := 1) (Active.root _) h0 hsa (by omega),
         Active.arg (i := 0) a1 h1 hsl (by omega)⟩

set_option maxRecDepth 100000 in
/-- the two layouts unfold the same program (hypothesis of `export_layout_independent`), which
    is within the hypotheses of `export_genome_denotes` in all four formats -/
example : unfoldG Gen.functions (Genome.ofRows demoPacked) 3 ⟨0, 0⟩ =
    unfoldG Gen.functions (Genome.ofRows demoChain) 5 ⟨0, 0⟩ := by rfl

set_option maxRecDepth 100000 in
example : ∀ f ∈ Fmt.all,
    wfT Gen.functions (unfoldG Gen.functions (Genome.ofRows demoPacked) 3 ⟨0, 0⟩) = true ∧
    termsT (termOk f (firstList Gen.functions Gen.terminals f)) Gen.terminals f
      (unfoldG Gen.functions (Genome.ofRows demoPacked) 3 ⟨0, 0⟩) = true ∧
    termsT (rendOk f (firstList Gen.functions Gen.terminals f)) Gen.terminals f
      (unfoldG Gen.functions (Genome.ofRows demoPacked) 3 ⟨0, 0⟩) = true := by
  decide

set_option maxRecDepth 100000 in
/-- the two genes of row 2 print different texts: a rendering cached per ROW cannot be right -/
example : langG Gen.functions Gen.terminals .c (Genome.ofRows demoPacked) 1 ⟨2, 0⟩ ≠
    langG Gen.functions Gen.terminals .c (Genome.ofRows demoPacked) 1 ⟨2, 1⟩ := by decide

/-- the stripping rule by itself is NOT sound: `(a)+(b)` would become `a)+(b`.  It is sound for
    vita's programs because of `Safe` (`stripOk`): a template that can start with `(` and end with
    `)` must be one parenthesised expression – `%%1%%+%%2%%` is rejected. -/
example : stripOuter [40, 97, 41, 43, 40, 98, 41] = [97, 41, 43, 40, 98] := by decide

set_option maxRecDepth 100000 in
example : safeTpl .c { key := "x", name := [], arity := 2,
                       tpl := [[37, 37, 49, 37, 37, 43, 37, 37, 50, 37, 37]] } = false := by decide

/-- a team of two members, no newline in a member's text -/
example : splitLines (teamG [[97, 43, 98], [99]]) = [[97, 43, 98], [99]] := by decide

/-- `demoPacked` with other genes at the two INACTIVE loci [0,1] and [1,1] -/
def demoPacked2 : List (List Gene) :=
  [[.fn (fnIdx [70, 65, 68, 68]) [0, 0] [1, 2], .tm tmIdxQ [113, 113] 0],
   [.fn (fnIdx [70, 76, 69, 78, 71, 84, 72]) [1] [2], .fn (fnIdx [70, 65, 68, 68]) [0, 0] [2, 2]],
   [.tm (tmIdx [.toStrD]) [] 0x4008000000000000, .tm tmIdxQ [104, 101, 108, 108, 111] 0]]

/-- hypothesis of `export_ignores_inactive`: the two genomes differ (at [0,1] and [1,1]) but hold
    the same gene at every locus active from [0,0] (these are [0,0], [1,0], [2,0], [2,1]) -/
example : (∀ m, Active Gen.functions (Genome.ofRows demoPacked) ⟨0, 0⟩ m →
      Genome.ofRows demoPacked m = Genome.ofRows demoPacked2 m) ∧
    Genome.ofRows demoPacked ⟨1, 1⟩ ≠ Genome.ofRows demoPacked2 ⟨1, 1⟩ := by
  have ha : (Gen.functions[fnIdx [70, 65, 68, 68]]?).map (·.arity) = some 2 := by decide
  have hl : (Gen.functions[fnIdx [70, 76, 69, 78, 71, 84, 72]]?).map (·.arity) = some 1 := by decide
  have key : ∀ m, Active Gen.functions (Genome.ofRows demoPacked) ⟨0, 0⟩ m →
      m = ⟨0, 0⟩ ∨ m = ⟨1, 0⟩ ∨ m = ⟨2, 0⟩ ∨ m = ⟨2, 1⟩ := by
    intro m h
    induction h with
    | root => exact Or.inl rfl
    | @arg m' s acat args sym i _ hg hs hi ih =>
      rcases ih with rfl | rfl | rfl | rfl
      · have e : Genome.ofRows demoPacked ⟨0, 0⟩ = .fn (fnIdx [70, 65, 68, 68]) [0, 0] [1, 2] := rfl
        rw [e] at hg
        injection hg with h1 h2 h3
        subst h1 h2 h3
        rw [hs] at ha
        simp only [Option.map_some, Option.some.injEq] at ha
        have : i = 0 ∨ i = 1 := by omega
        rcases this with rfl | rfl
        · exact Or.inr (Or.inl rfl)
        · exact Or.inr (Or.inr (Or.inl rfl))
      · have e : Genome.ofRows demoPacked ⟨1, 0⟩ = .fn (fnIdx [70, 76, 69, 78, 71, 84, 72]) [1] [2] := rfl
        rw [e] at hg
        injection hg with h1 h2 h3
        subst h1 h2 h3
        rw [hs] at hl
        simp only [Option.map_some, Option.some.injEq] at hl
        have : i = 0 := by omega
        subst this
        exact Or.inr (Or.inr (Or.inr rfl))
      · have e : Genome.ofRows demoPacked ⟨2, 0⟩ = .tm (tmIdx [.toStrD]) [] 0x4008000000000000 := rfl
        rw [e] at hg; cases hg
      · have e : Genome.ofRows demoPacked ⟨2, 1⟩ = .tm tmIdxQ [104, 101, 108, 108, 111] 0 := rfl
        rw [e] at hg; cases hg
  refine ⟨fun m h => ?_, by decide⟩
  rcases key m h with rfl | rfl | rfl | rfl <;> rfl

/-- hypothesis of `unfold_fuel_irrelevant` -/
example : WfG Gen.functions (Genome.ofRows demoPacked) 3 :=
  wfRows_sound Gen.functions demoPacked (by decide)

/-- hypotheses of `language_selection_persists` / `print_format_selects`: a print, `long_form` and
    `short_form` leave the format slot alone; `python_language` does not -/
example : (∀ o ∈ [Op.print, .manip "long_form" 0, .print, .manip "short_form" 0],
      quiet Gen.manipulators Gen.formatSlot o = true) ∧
    quiet Gen.manipulators Gen.formatSlot (.manip "python_language" 0) = false ∧
    ("python_language", Fmt.py) ∈ langManips := by decide

/-- hypothesis of `to_string_double_reads_back`: 2.5 is finite -/
example : 0x4004000000000000 / 2 ^ 52 % 2048 ≠ 2047 := by decide

end Vita.C19
