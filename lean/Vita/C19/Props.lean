/-
  C19 — exported source code denotes the same expression as the program.

  Table obligations (kernel evaluation over the table EXTRACTED from the sources):
    all_templates_safe, all_templates_regular, all_templates_noglue
  For every program (induction on trees), for any table meeting the obligations:
    render_atom      the program's tree (template trees with holes replaced by complete
                     argument trees) is precedence-consistent, of operand level, and prints
                     to the substituted token list
    seq_replace_ok   the sequential replace_all loop of language() = simultaneous substitution
    scan_render      scanning the substituted text = substituting the scanned arguments
    export_denotes   what `out::X_language << individual` prints scans to the token list of
                     the program's tree (outer parentheses possibly removed)
  and the instance for the shipped symbols: export_denotes_shipped.
-/
import Vita.C19.LemmasStr
import Vita.C19.LemmasStrip
import Vita.C19.LemmasNum
namespace Vita.C19

set_option maxRecDepth 100000 in
/-- Safe: every extracted template, in every format, parses (holes as opaque operands) to a
    tree that prints back to the template, is precedence-consistent assuming only that an
    argument has level ≥ 13 (a prefix-operator expression), has level ≥ 13 itself, uses the
    holes 1..arity only, and is a parenthesised expression if it can start with `(` and end
    with `)`. -/
theorem all_templates_safe : allSafe Gen.functions = true := by decide

set_option maxRecDepth 100000 in
/-- every extracted template is the concatenation of its pieces, has at most 9 holes, its
    literal pieces contain no `%%`, do not end with `%`, holes are not adjacent and the text
    after a hole starts neither with `%` nor with a digit. -/
theorem all_templates_regular : allRegular Gen.functions = true := by decide

set_option maxRecDepth 100000 in
/-- NoGlue: in every extracted template the scanner is at a token boundary before every hole
    (for every character a rendering can start with) and after it (for every state a rendering
    can leave the scanner in); the template starts with an admissible character and ends in
    an admissible state. -/
theorem all_templates_noglue : allNoGlue Gen.functions Gen.terminals = true := by decide

/-- the hypotheses on a program: symbol indices in the table, `arity` arguments per function
    node, and every terminal prints a clean, self-contained operand -/
def Admissible (fns : List FnSym) (tms : List TmSym) (f : Fmt) (t : Tree) : Prop :=
  wfT fns t = true ∧
  termsT (termOk f (firstList fns tms f)) tms f t = true ∧
  termsT (rendOk f (firstList fns tms f)) tms f t = true

/-- `render_atom`: for EVERY program the expression it denotes – for each function node the
    parse tree of that function's template with each hole replaced by the complete tree of
    the corresponding argument – is precedence-consistent (`ok`: reading its token list with
    the precedence rules gives this tree back), is an operand (level ≥ 13), and its token
    list is the template's token list with each hole replaced by the argument's. -/
theorem render_atom (fns : List FnSym) (tms : List TmSym) (f : Fmt) (hs : allSafe fns = true)
    (t : Tree) (h : Admissible fns tms f t) :
    flat (astT fns tms f t) = toksT fns tms f t ∧ ok f hl (astT fns tms f t) = true ∧
    hl ≤ lvl f hl (astT fns tms f t) := by
  obtain ⟨hw, ht, _⟩ := h
  have ht' := termsT_mono _ (termSyn f (firstList fns tms f)) (fun s h => by
    simp only [termOk, Bool.and_eq_true] at h; exact h.2) tms f t ht
  exact good_tree fns tms f _ hs t hw ht'

/-- `seq_replace_ok`: the loop `for i in 1..arity: ret = replace_all(ret, "%%i%%", text of
    argument i)` computes the simultaneous substitution, on every program whose terminal texts
    are clean (no `%%`, no trailing `%`). -/
theorem seq_replace_ok (fns : List FnSym) (tms : List TmSym) (f : Fmt) (hr : allRegular fns = true)
    (t : Tree) (h : Admissible fns tms f t) :
    langT fns tms f t = simT fns tms f t := by
  obtain ⟨hw, ht, _⟩ := h
  have ht' := termsT_mono _ clean (fun s h => by
    simp only [termOk, Bool.and_eq_true] at h; exact h.1) tms f t ht
  exact (lang_eq_sim fns tms f hr t hw ht').1

/-- `scan_render`: no token is glued across a hole boundary: scanning the substituted text
    gives the substituted token list. -/
theorem scan_render (fns : List FnSym) (tms : List TmSym) (f : Fmt) (hr : allRegular fns = true)
    (hg : allNoGlue fns tms = true) (t : Tree) (h : Admissible fns tms f t) :
    lexS f (simT fns tms f t) = toksT fns tms f t :=
  (lex_tree fns tms f hr hg t h.1 h.2.2).1

/-- `export_denotes`: the text printed for a program scans to the token list of a
    precedence-consistent tree `A` which is the program's expression tree, or that tree without
    its outer pair of parentheses. -/
theorem export_denotes (fns : List FnSym) (tms : List TmSym) (f : Fmt)
    (hs : allSafe fns = true) (hr : allRegular fns = true) (hg : allNoGlue fns tms = true)
    (t : Tree) (h : Admissible fns tms f t) :
    ∃ A : Ast, lexS f (language fns tms f t) = flat A ∧ ok f hl A = true ∧
      (A = astT fns tms f t ∨ astT fns tms f t = .paren A) := by
  have ⟨hflat, hok, _⟩ := render_atom fns tms f hs t h
  have hseq := seq_replace_ok fns tms f hr t h
  have ⟨hlex, hrend⟩ := lex_tree fns tms f hr hg t h.1 h.2.2
  have ht' := termsT_mono _ (termSyn f (firstList fns tms f)) (fun s h => by
    simp only [termOk, Bool.and_eq_true] at h; exact h.2) tms f t h.2.1
  simp only [language, hseq]
  generalize hS : simT fns tms f t = s at hlex hrend
  by_cases hc : s.length > 2 ∧ s.head? = some 40 ∧ s.getLast? = some 41
  · have hshape := strip_shape s hc
    have hstrip : stripOuter s = (s.drop 1).dropLast := by simp [stripOuter, hc]
    generalize (s.drop 1).dropLast = mid at hshape hstrip
    rw [hstrip]
    simp only [rendOk, Bool.and_eq_true] at hrend
    have hend := hrend.2
    rw [hshape] at hend hlex
    have hwrap := lexS_wrap f mid hend
    rw [hwrap] at hlex
    have hpar := astT_paren fns tms f _ hs t h.1 ht' (by rw [← hlex]; rfl) (by
      rw [← hlex]
      show ((Tok.lp :: lexS f mid) ++ [Tok.rp]).getLast? = some Tok.rp
      rw [getLast?_append_ne _ _ (by simp)]
      rfl)
    cases hA : astT fns tms f t with
    | paren e =>
      rw [hA] at hflat hok
      refine ⟨e, ?_, ?_, Or.inr rfl⟩
      · simp only [flat, List.cons_append, ← hlex, List.cons.injEq, true_and] at hflat
        exact (List.append_cancel_right hflat).symm
      · simp only [ok, Bool.and_eq_true] at hok
        exact hok.1
    | _ => rw [hA] at hpar; simp [isParen] at hpar
  · have hstrip : stripOuter s = s := by simp [stripOuter, hc]
    rw [hstrip]
    exact ⟨astT fns tms f t, by rw [hlex, hflat], hok, Or.inl rfl⟩

/-- the shipped table meets the obligations: for every program over the shipped primitives and
    each of the four formats, the exported text denotes the program's expression. -/
theorem export_denotes_shipped (f : Fmt) (t : Tree) (h : Admissible Gen.functions Gen.terminals f t) :
    ∃ A : Ast, lexS f (language Gen.functions Gen.terminals f t) = flat A ∧ ok f hl A = true ∧
      (A = astT Gen.functions Gen.terminals f t ∨ astT Gen.functions Gen.terminals f t = .paren A) :=
  export_denotes _ _ f all_templates_safe all_templates_regular all_templates_noglue t h


/-- the terminal hypothesis of `Admissible` holds for EVERY numeric terminal: a class whose
    display is `std::to_string(double)` (finite parameter: ephemeral reals, integer::number,
    constant<double>), `std::to_string(int)` (constant<int>) or `std::to_string(int) + ".0"`
    (real::integer) prints – after language() has put a negative text in parentheses – a clean,
    self-contained operand: negative and fractional constants included. -/
theorem numeric_terminal_admissible (fns : List FnSym) (tms : List TmSym) (f : Fmt) (k : Nat)
    (t : TmSym) (text : List Ch) (bits : Nat) (hk : tms[k]? = some t)
    (hd : (t.disp.getD f.idx [] = [.toStrD] ∧ bits / 2 ^ 52 % 2048 ≠ 2047) ∨
          t.disp.getD f.idx [] = [.toStrI] ∨ t.disp.getD f.idx [] = [.toStrI, .lit [46, 48]]) :
    termOk f (firstList fns tms f) (termStr tms f k text bits) = true ∧
    rendOk f (firstList fns tms f) (termStr tms f k text bits) = true := by
  have hfl : 40 ∈ firstList fns tms f := by simp [firstList]
  rcases hd with ⟨hd, hfin⟩ | hd | hd
  · have : termStr tms f k text bits = wrapNeg (fmtF64 bits) := by
      simp only [termStr, dispStr, hk]
      rw [hd]
      simp [partStr]
    rw [this]; exact fmtF64_good f _ hfl bits hfin
  · have : termStr tms f k text bits = wrapNeg (fmtInt (truncF64 bits)) := by
      simp only [termStr, dispStr, hk]
      rw [hd]
      simp [partStr]
    rw [this]; exact fmtInt_good f _ hfl _
  · have : termStr tms f k text bits = wrapNeg (fmtInt (truncF64 bits) ++ [46, 48]) := by
      simp only [termStr, dispStr, hk]
      rw [hd]
      simp [partStr]
    rw [this]; exact fmtInt0_good f _ hfl _

/-! ### the hypotheses are satisfiable: a concrete non-trivial program -/

/-- index of the function named `name` in the extracted table -/
def fnIdx (name : List Ch) : Nat := (Gen.functions.findIdx? (fun s => s.name == name)).getD 0

/-- index of the first terminal class printed by `std::to_string(double)` / by its name -/
def tmIdx (p : List TPart) : Nat := (Gen.terminals.findIdx? (fun t => t.disp.getD 0 [] == p)).getD 0

/-- FSUB(2.0, FMUL(FSIGMOID(X1), -3.5)) : 2.0 = 0x4000000000000000, -3.5 = 0xC00C000000000000 -/
def sampleTree : Tree :=
  .fn (fnIdx [70, 83, 85, 66])
    (.cons (.tm (tmIdx [.toStrD]) [] 0x4000000000000000)
    (.cons (.fn (fnIdx [70, 77, 85, 76])
        (.cons (.fn (fnIdx [70, 83, 73, 71, 77, 79, 73, 68]) (.cons (.tm (tmIdx [.name]) [88, 49] 0) .nil))
        (.cons (.tm (tmIdx [.toStrD]) [] 0xC00C000000000000) .nil)))
     .nil))

set_option maxRecDepth 100000 in
example : ∀ f ∈ Fmt.all, wfT Gen.functions sampleTree = true ∧
    termsT (termOk f (firstList Gen.functions Gen.terminals f)) Gen.terminals f sampleTree = true ∧
    termsT (rendOk f (firstList Gen.functions Gen.terminals f)) Gen.terminals f sampleTree = true := by
  decide

set_option maxRecDepth 100000 in
/-- the model prints it in C as `2.000000-((1 / (1 + exp(-X1)))*(-3.500000))` (not pinned here: a
    harmless change of a template must not break the build); the executable parser reads the
    printed text back as the program's tree without its outer parentheses -/
example : ∀ f ∈ Fmt.all,
    parse f (lexS f (language Gen.functions Gen.terminals f sampleTree)) =
      some (stripAst (astT Gen.functions Gen.terminals f sampleTree)) := by
  decide

end Vita.C19
