/-
  C19 — the printing code, as written (src/kernel/gp/mep/i_mep.cc `language()`,
  src/utility/utility.cc `replace_all`, `std::to_string` of the numeric terminals).

  * `replaceAll`      std::string find/replace loop of utility.cc (left to right, the scan
                      resumes *after* the inserted text)
  * `langT`           `language_` lambda: display(), then SEQUENTIAL replace_all of `%%i%%`,
                      i = 1..arity, by the rendering of argument i
  * `stripOuter`      the final `if (out.length() > 2 && front == '(' && back == ')')`
  * `fmtF64`          `std::to_string(double)` (= printf("%f"), round-half-even on the exact
                      binary value), `fmtInt` = `std::to_string(int)`
  plus the three "ideal" renderings the theorems relate it to:
  * `simT`            simultaneous substitution into the template's pieces
  * `toksT`           substitution of token lists into the scanned template
  * `astT`            substitution of trees into the parsed template
-/
import Vita.C19.Syntax
namespace Vita.C19

structure FnSym where
  key : String
  name : List Ch
  arity : Nat
  tpl : List (List Ch)          -- index = format (c, cpp, mql, python)

/-- one operand of the string concatenation a terminal's display() returns -/
inductive TPart where
  | lit (s : List Ch)           -- "..."
  | toStrD                      -- std::to_string(double)
  | toStrI                      -- std::to_string(int) (of static_cast<int>(v) or of an int member)
  | name                        -- name()
  | quote                       -- quote_str(val_) = "\"" + val_ + "\""
  deriving DecidableEq, Repr

structure TmSym where
  key : String
  name : List Ch
  disp : List (List TPart)      -- index = format

def FnSym.tplOf (s : FnSym) (f : Fmt) : List Ch := s.tpl.getD f.idx []

mutual
  /-- a program unfolded from its best locus: terminals carry (terminal class index, the text
      a name/quote display prints, the bits of the double a to_string display prints) -/
  inductive Tree where
    | tm (k : Nat) (text : List Ch) (bits : Nat)
    | fn (s : Nat) (kids : Forest)
  inductive Forest where
    | nil
    | cons (t : Tree) (r : Forest)
end

/-! ### std::to_string -/

def digitsGo : Nat → Nat → List Ch → List Ch
  | 0, _, acc => acc
  | fuel + 1, n, acc =>
      if n < 10 then (48 + n) :: acc else digitsGo fuel (n / 10) ((48 + n % 10) :: acc)

/-- decimal digits of a natural number (`std::to_string(unsigned)`) -/
def natDigits (n : Nat) : List Ch := digitsGo (n + 1) n []

def pad6 (n : Nat) : List Ch :=
  [48 + n / 100000 % 10, 48 + n / 10000 % 10, 48 + n / 1000 % 10, 48 + n / 100 % 10,
   48 + n / 10 % 10, 48 + n % 10]

/-- round-half-even of `num / den` -/
def roundDiv (num den : Nat) : Nat :=
  let q := num / den
  let r := num % den
  if 2 * r > den ∨ (2 * r = den ∧ q % 2 = 1) then q + 1 else q

/-- `std::to_string(double)` on the IEEE-754 bit pattern -/
def fmtF64 (bits : Nat) : List Ch :=
  let sign : Nat := bits / 2 ^ 63 % 2
  let e : Nat := bits / 2 ^ 52 % 2048
  let m : Nat := bits % 2 ^ 52
  let sg : List Ch := if sign = 1 then [45] else []
  if e = 2047 then sg ++ (if m = 0 then [105, 110, 102] else [110, 97, 110])
  else
    let mant : Nat := if e = 0 then m else 2 ^ 52 + m
    let ex : Int := (if e = 0 then 1 else (e : Int)) - 1075
    let n := if 0 ≤ ex then mant * 2 ^ ex.toNat * 1000000
             else roundDiv (mant * 1000000) (2 ^ (-ex).toNat)
    sg ++ natDigits (n / 1000000) ++ 46 :: pad6 (n % 1000000)

def fmtInt (z : Int) : List Ch :=
  if z < 0 then 45 :: natDigits z.natAbs else natDigits z.natAbs

/-- `static_cast<int>(double)`: truncation toward zero (the value must fit, else C++ leaves it
    undefined; the model then prints the truncated integer) -/
def truncF64 (bits : Nat) : Int :=
  let sign : Nat := bits / 2 ^ 63 % 2
  let e : Nat := bits / 2 ^ 52 % 2048
  let m : Nat := bits % 2 ^ 52
  let mant : Nat := if e = 0 then m else 2 ^ 52 + m
  let ex : Int := (if e = 0 then 1 else (e : Int)) - 1075
  let a : Nat := if 0 ≤ ex then mant * 2 ^ ex.toNat else mant / 2 ^ (-ex).toNat
  if sign = 1 then - (a : Int) else a

def partStr (text : List Ch) (bits : Nat) : TPart → List Ch
  | .lit s => s
  | .toStrD => fmtF64 bits
  | .toStrI => fmtInt (truncF64 bits)
  | .name => text
  | .quote => 34 :: text ++ [34]

/-- `terminal::cast(g.sym)->display(g.par, f)` -/
def dispStr (tms : List TmSym) (f : Fmt) (k : Nat) (text : List Ch) (bits : Nat) : List Ch :=
  match tms[k]? with
  | none => []
  | some t => (t.disp.getD f.idx []).flatMap (partStr text bits)

/-- `if (terminal && !ret.empty() && ret.front() == '-') ret = "(" + ret + ")"` -/
def wrapNeg : List Ch → List Ch
  | 45 :: s => 40 :: 45 :: s ++ [41]
  | s => s

/-- what language_() prints for a terminal gene -/
def termStr (tms : List TmSym) (f : Fmt) (k : Nat) (text : List Ch) (bits : Nat) : List Ch :=
  wrapNeg (dispStr tms f k text bits)

/-! ### replace_all and language() -/

def isPrefix : List Ch → List Ch → Bool
  | [], _ => true
  | _ :: _, [] => false
  | a :: p, b :: s => a == b && isPrefix p s

/-- `replace_all(s, from, to)`; `skip` = characters of a matched `from` still to be dropped -/
def replGo (frm to : List Ch) : Nat → List Ch → List Ch
  | _, [] => []
  | skip + 1, _ :: s => replGo frm to skip s
  | 0, c :: s =>
      if isPrefix frm (c :: s) then to ++ replGo frm to (frm.length - 1) s
      else c :: replGo frm to 0 s

def replaceAll (s frm to : List Ch) : List Ch :=
  if frm.isEmpty then s else replGo frm to 0 s

/-- `"%%" + std::to_string(i) + "%%"` -/
def marker (i : Nat) : List Ch := 37 :: 37 :: natDigits i ++ [37, 37]

/-- the `for (i = 0; i < arity; ++i) ret = replace_all(ret, "%%i+1%%", language_(arg i))` loop -/
def seqRepl : Nat → List (List Ch) → List Ch → List Ch
  | _, [], s => s
  | i, r :: rs, s => seqRepl (i + 1) rs (replaceAll s (marker i) r)

def stripOuter (s : List Ch) : List Ch :=
  if s.length > 2 ∧ s.head? = some 40 ∧ s.getLast? = some 41 then (s.drop 1).dropLast else s

mutual
  def langT (fns : List FnSym) (tms : List TmSym) (f : Fmt) : Tree → List Ch
    | .tm k text bits => termStr tms f k text bits
    | .fn s kids =>
        match fns[s]? with
        | none => []
        | some sym => seqRepl 1 ((langF fns tms f kids).take sym.arity) (sym.tplOf f)
  def langF (fns : List FnSym) (tms : List TmSym) (f : Fmt) : Forest → List (List Ch)
    | .nil => []
    | .cons t r => langT fns tms f t :: langF fns tms f r
end

/-- what `out::X_language << individual` prints -/
def language (fns : List FnSym) (tms : List TmSym) (f : Fmt) (t : Tree) : List Ch :=
  stripOuter (langT fns tms f t)

/-! ### ideal renderings -/

/-- simultaneous substitution into pieces (holes are 1-based) -/
def substPieces (rs : List (List Ch)) : List Piece → List Ch
  | [] => []
  | .lit s :: ps => s ++ substPieces rs ps
  | .hole i :: ps => rs.getD (i - 1) [] ++ substPieces rs ps

mutual
  def simT (fns : List FnSym) (tms : List TmSym) (f : Fmt) : Tree → List Ch
    | .tm k text bits => termStr tms f k text bits
    | .fn s kids =>
        match fns[s]? with
        | none => []
        | some sym => substPieces (simF fns tms f kids) (splitMarkers sym.arity (sym.tplOf f))
  def simF (fns : List FnSym) (tms : List TmSym) (f : Fmt) : Forest → List (List Ch)
    | .nil => []
    | .cons t r => simT fns tms f t :: simF fns tms f r
end

mutual
  def toksT (fns : List FnSym) (tms : List TmSym) (f : Fmt) : Tree → List Tok
    | .tm k text bits => lexS f (termStr tms f k text bits)
    | .fn s kids =>
        match fns[s]? with
        | none => []
        | some sym =>
            let ks := toksF fns tms f kids
            substToks (fun i => ks.getD (i - 1) []) (lexT f sym.arity (sym.tplOf f))
  def toksF (fns : List FnSym) (tms : List TmSym) (f : Fmt) : Forest → List (List Tok)
    | .nil => []
    | .cons t r => toksT fns tms f t :: toksF fns tms f r
end

/-- the parse of a template (holes as operands); `leaf []` if it does not parse -/
def tplAst (f : Fmt) (sym : FnSym) : Ast :=
  (parse f (lexT f sym.arity (sym.tplOf f))).getD (.leaf [])

def termAst (tms : List TmSym) (f : Fmt) (k : Nat) (text : List Ch) (bits : Nat) : Ast :=
  (parse f (lexS f (termStr tms f k text bits))).getD (.leaf [])

mutual
  /-- the expression the program denotes in format `f`: for every function node its template's
      tree with hole i replaced by the complete tree of argument i -/
  def astT (fns : List FnSym) (tms : List TmSym) (f : Fmt) : Tree → Ast
    | .tm k text bits => termAst tms f k text bits
    | .fn s kids =>
        match fns[s]? with
        | none => .leaf []
        | some sym =>
            let ks := astF fns tms f kids
            subst (fun i => ks.getD (i - 1) (.leaf [])) (tplAst f sym)
  def astF (fns : List FnSym) (tms : List TmSym) (f : Fmt) : Forest → List Ast
    | .nil => []
    | .cons t r => astT fns tms f t :: astF fns tms f r
end

def Forest.length : Forest → Nat
  | .nil => 0
  | .cons _ r => r.length + 1

/-- the outer pair of parentheses removed, as `stripOuter` does on the text -/
def stripAst : Ast → Ast
  | .paren e => e
  | a => a

end Vita.C19
