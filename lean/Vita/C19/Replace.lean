/-
  C19 — `vita::replace_all` (src/utility/utility.cc) as CODE.

  The body of replace_all is extracted from the clang AST on every run into the small statement
  language below (`Vita/C19/GenReplace.lean`, generated): three `std::string` parameters
  (0 = `s` by value, 1 = `from`, 2 = `to`, const references) and local `std::size_t` variables.
  `exec` is its semantics: `std::string::find(str, pos)`, `std::string::replace(pos, n, str)`,
  `length()`, `empty()`, `std::string::npos`, `=`, `+=`, `!=`, `!`, `if`, `while`, `return`.

  `std::size_t` is idealised: a value is a natural number or the distinguished `npos`
  (`none`); strings are assumed shorter than 2^64 - 1 bytes, so that a position never equals npos.

  Also here: the pieces the "substitution is literal" theorems are stated with
  (`occSplit` = the text between the occurrences replace_all replaces, `joinWith`).
-/
import Vita.C19.Render
namespace Vita.C19

/-! ### std::string primitives -/

/-- `t.find(frm)`: index of the first occurrence of `frm` in `t` (`frm` empty: 0) -/
def find0 (frm : List Ch) : List Ch → Option Nat
  | [] => if isPrefix frm [] then some 0 else none
  | c :: t => if isPrefix frm (c :: t) then some 0 else (find0 frm t).map (· + 1)

/-- `s.find(frm, start)`; `none` = npos (also when `start > s.size()`) -/
def findFrom (s frm : List Ch) (start : Nat) : Option Nat :=
  if start ≤ s.length then (find0 frm (s.drop start)).map (start + ·) else none

/-- `s.replace(pos, n, to)`; `none` = std::out_of_range (`pos > s.size()`); `n` is clipped -/
def replaceAt (s : List Ch) (pos n : Nat) (to : List Ch) : Option (List Ch) :=
  if pos ≤ s.length then some (s.take pos ++ to ++ s.drop (pos + n)) else none

/-! ### the statement language -/

/-- expressions of type std::size_t / bool (bool: 0 / 1) -/
inductive RExp where
  | lit (n : Nat)
  | npos
  | var (v : Nat)
  | len (p : Nat)                      -- p.length() / p.size()
  | empty (p : Nat)                    -- p.empty()
  | find (p q : Nat) (e : RExp)        -- p.find(q, e)
  | assign (v : Nat) (e : RExp)        -- (v = e)
  | ne (a b : RExp)                    -- a != b
  | eq (a b : RExp)                    -- a == b
  | not (a : RExp)                     -- !a
  | add (a b : RExp)                   -- a + b
  deriving DecidableEq, Repr

inductive RStm where
  | skip
  | seq (a b : RStm)
  | decl (v : Nat) (e : RExp)                    -- std::size_t v(e);
  | expr (e : RExp)                              -- e;
  | addAssign (v : Nat) (e : RExp)               -- v += e;
  | replace (p : Nat) (pos n : RExp) (q : Nat)   -- p.replace(pos, n, q);
  | ite (c : RExp) (t e : RStm)                  -- if (c) t else e
  | while (c : RExp) (b : RStm)                  -- while (c) b
  | ret (p : Nat)                                -- return p;
  deriving DecidableEq, Repr

/-- the three strings and the local variables (`none` = npos) -/
structure RSt where
  s0 : List Ch
  s1 : List Ch
  s2 : List Ch
  vars : List (Option Nat)
  deriving DecidableEq, Repr

def RSt.str (σ : RSt) : Nat → List Ch
  | 0 => σ.s0
  | 1 => σ.s1
  | _ => σ.s2

def RSt.getV (σ : RSt) (v : Nat) : Option Nat := (σ.vars.getD v (some 0))

def setNth : List (Option Nat) → Nat → Option Nat → List (Option Nat)
  | [], 0, x => [x]
  | [], v + 1, x => some 0 :: setNth [] v x
  | _ :: r, 0, x => x :: r
  | a :: r, v + 1, x => a :: setNth r v x

def RSt.setV (σ : RSt) (v : Nat) (x : Option Nat) : RSt := { σ with vars := setNth σ.vars v x }

def b2n (b : Bool) : Option Nat := some (if b then 1 else 0)

/-- value (`none` = npos) and the state after the side effects of `e`; the outer `Option` is a
    fault (arithmetic on npos) -/
def RExp.eval : RExp → RSt → Option (Option Nat × RSt)
  | .lit n, σ => some (some n, σ)
  | .npos, σ => some (none, σ)
  | .var v, σ => some (σ.getV v, σ)
  | .len p, σ => some (some (σ.str p).length, σ)
  | .empty p, σ => some (b2n (σ.str p).isEmpty, σ)
  | .find p q e, σ =>
      match e.eval σ with
      | some (some k, σ') => some (findFrom (σ'.str p) (σ'.str q) k, σ')
      | some (none, σ') => some (none, σ')            -- start = npos > size(): npos
      | none => none
  | .assign v e, σ =>
      match e.eval σ with
      | some (x, σ') => some (x, σ'.setV v x)
      | none => none
  | .ne a b, σ =>
      match a.eval σ with
      | some (x, σ') => match b.eval σ' with
                        | some (y, σ'') => some (b2n (x != y), σ'')
                        | none => none
      | none => none
  | .eq a b, σ =>
      match a.eval σ with
      | some (x, σ') => match b.eval σ' with
                        | some (y, σ'') => some (b2n (x == y), σ'')
                        | none => none
      | none => none
  | .not a, σ =>
      match a.eval σ with
      | some (x, σ') => some (b2n (x == some 0), σ')
      | none => none
  | .add a b, σ =>
      match a.eval σ with
      | some (some x, σ') => match b.eval σ' with
                             | some (some y, σ'') => some (some (x + y), σ'')
                             | _ => none
      | _ => none

inductive RRes where
  | run (σ : RSt)
  | ret (s : List Ch)
  | fault
  deriving DecidableEq, Repr

/-- `while`: at most `fuel` iterations (`fault` when the fuel runs out) -/
def loopW (cond : RSt → Option (Option Nat × RSt)) (body : RSt → RRes) : Nat → RSt → RRes
  | 0, _ => .fault
  | fuel + 1, σ =>
      match cond σ with
      | none => .fault
      | some (x, σ') =>
          if x == some 0 then .run σ'
          else match body σ' with
               | .run σ'' => loopW cond body fuel σ''
               | r => r

def RStm.exec (fuel : Nat) : RStm → RSt → RRes
  | .skip, σ => .run σ
  | .seq a b, σ =>
      match a.exec fuel σ with
      | .run σ' => b.exec fuel σ'
      | r => r
  | .decl v e, σ =>
      match e.eval σ with
      | some (x, σ') => .run (σ'.setV v x)
      | none => .fault
  | .expr e, σ =>
      match e.eval σ with
      | some (_, σ') => .run σ'
      | none => .fault
  | .addAssign v e, σ =>
      match e.eval σ with
      | some (some y, σ') =>
          match σ'.getV v with
          | some x => .run (σ'.setV v (some (x + y)))
          | none => .fault
      | _ => .fault
  | .replace p pos n q, σ =>
      if p != 0 then .fault else                    -- parameters 1 and 2 are const
      match pos.eval σ with
      | some (some i, σ') =>
          match n.eval σ' with
          | some (some k, σ'') =>
              match replaceAt σ''.s0 i k (σ''.str q) with
              | some s => .run { σ'' with s0 := s }
              | none => .fault
          | some (none, σ'') =>                         -- npos: up to the end
              match replaceAt σ''.s0 i σ''.s0.length (σ''.str q) with
              | some s => .run { σ'' with s0 := s }
              | none => .fault
          | none => .fault
      | _ => .fault
  | .ite c t e, σ =>
      match c.eval σ with
      | some (x, σ') => if x == some 0 then e.exec fuel σ' else t.exec fuel σ'
      | none => .fault
  | .while c b, σ => loopW c.eval (b.exec fuel) fuel σ
  | .ret p, σ => .ret (σ.str p)

/-- the value the function returns for the arguments `(s, frm, to)`; the loop of replace_all makes
    at most one iteration per character of `s` plus the failing test -/
def runBody (body : RStm) (s frm to : List Ch) : Option (List Ch) :=
  match body.exec (s.length + 1) ⟨s, frm, to, []⟩ with
  | .ret r => some r
  | _ => none

/-- replace_all as it is written in utility.cc:

        if (!from.empty())
        {
          std::size_t start(0);
          while ((start = s.find(from, start)) != std::string::npos)
          {
            s.replace(start, from.length(), to);
            start += to.length();
          }
        }
        return s;                                                                          -/
def loopCond : RExp := .ne (.assign 0 (.find 0 1 (.var 0))) .npos
def loopBody : RStm := .seq (.replace 0 (.var 0) (.len 1) 2) (.addAssign 0 (.len 2))

def canonReplaceAll : RStm :=
  .seq (.ite (.not (.empty 1)) (.seq (.decl 0 (.lit 0)) (.while loopCond loopBody)) .skip) (.ret 0)

/-- the same loop after an early return (a harmless rewrite the proofs accept as well):

        if (from.empty()) return s;
        std::size_t start(0);
        while ((start = s.find(from, start)) != std::string::npos) { … }
        return s;                                                                          -/
def canonReplaceAll2 : RStm :=
  .seq (.ite (.empty 1) (.ret 0) .skip) (.seq (.decl 0 (.lit 0)) (.seq (.while loopCond loopBody) (.ret 0)))

/-! ### the text between the replaced occurrences -/

/-- the segments of `s` between the occurrences of `frm` that replace_all replaces (leftmost
    first, not overlapping); `skip` = characters of a matched `frm` still to be dropped, `acc` =
    the segment collected so far.  `to` does not appear: the segmentation cannot depend on it. -/
def occGo (frm : List Ch) : Nat → List Ch → List Ch → List (List Ch)
  | _, acc, [] => [acc]
  | skip + 1, acc, _ :: s => occGo frm skip acc s
  | 0, acc, c :: s =>
      if isPrefix frm (c :: s) then acc :: occGo frm (frm.length - 1) [] s
      else occGo frm 0 (acc ++ [c]) s

def occSplit (frm s : List Ch) : List (List Ch) := occGo frm 0 [] s

/-- `x₀ ++ sep ++ x₁ ++ sep ++ … ++ xₙ` : `sep` copied verbatim between the segments -/
def joinWith (sep : List Ch) : List (List Ch) → List Ch
  | [] => []
  | [x] => x
  | x :: y :: r => x ++ sep ++ joinWith sep (y :: r)

/-- does `frm` occur in `t`? -/
def occursIn (frm : List Ch) : List Ch → Bool
  | [] => isPrefix frm []
  | c :: t => isPrefix frm (c :: t) || occursIn frm t

end Vita.C19
