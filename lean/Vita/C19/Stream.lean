/-
  C19 — how a language format is selected (src/kernel/individual.cc, environment.h, i_mep.cc,
  team.tcc), as written:

    * a manipulator (`out::c_language`, …, `out::print_format(x)`, `out::long_form`) stores a
      value in an `iword` slot of the stream (`print_format_index` / `long_form_index`); a fresh
      stream holds 0 in every slot
    * `operator<<(ostream&, const i_mep&)` reads the slot (`print_format_flag`), switches on it
      and, in the default branch, calls `language(s, symbol::format(flag - language_f), ind)`
    * `operator<<(ostream&, const team<T>&)` executes a fixed list of statements per member

  The tables (enumerator values, what each manipulator stores, the switch, the team loop body)
  are EXTRACTED from the clang AST into `GenExport.lean`; everything here takes them as
  parameters.
-/
import Vita.C19.Genome
namespace Vita.C19

/-- one output statement of the team loop: `s << 'c'` or `s << member` -/
inductive TeamPrim where
  | put (c : Ch)
  | member
  deriving DecidableEq, Repr

/-- a statement of the team loop: an output, or `if (format == flag) thn else els` -/
inductive TeamStmt where
  | prim (p : TeamPrim)
  | ifFmt (flag : Nat) (thn els : List TeamPrim)
  deriving Repr

def execPrim (m : List Ch) : TeamPrim → List Ch
  | .put c => [c]
  | .member => m

def execStmt (pf : Nat) (m : List Ch) : TeamStmt → List Ch
  | .prim p => execPrim m p
  | .ifFmt flag thn els => (if pf = flag then thn else els).flatMap (execPrim m)

/-- what `operator<<(ostream&, team)` prints when the format flag is `pf` and the members print
    the texts `ms` -/
def teamExec (body : List TeamStmt) (pf : Nat) (ms : List (List Ch)) : List Ch :=
  ms.flatMap fun m => body.flatMap (execStmt pf m)

/-- the iword slots of one stream that were written (a slot never written holds 0) -/
structure StreamSt where
  slots : List (String × Nat)
  deriving Repr

def StreamSt.fresh : StreamSt := ⟨[]⟩

def StreamSt.get (s : StreamSt) (slot : String) : Nat :=
  match s.slots.find? (fun p => p.1 == slot) with
  | some p => p.2
  | none => 0

def StreamSt.set (s : StreamSt) (slot : String) (v : Nat) : StreamSt :=
  ⟨(slot, v) :: s.slots.filter (fun p => p.1 != slot)⟩

/-- what is done to a stream between two prints -/
inductive Op where
  | manip (name : String) (arg : Nat)     -- `s << out::name` / `s << out::print_format(arg)`
  | print                                 -- `s << individual`
  | fresh                                 -- another stream object
  deriving DecidableEq, Repr

abbrev ManipTable := List (String × String × Option Nat)

def applyManip (ms : ManipTable) (name : String) (arg : Nat) (s : StreamSt) : StreamSt :=
  match ms.find? (fun m => m.1 == name) with
  | some (_, slot, v) => s.set slot (v.getD arg)
  | none => s

def stStep (ms : ManipTable) (s : StreamSt) : Op → StreamSt
  | .manip n a => applyManip ms n a s
  | .print => s
  | .fresh => StreamSt.fresh

/-- the state of the stream after a history -/
def stAfter (ms : ManipTable) (s : StreamSt) (ops : List Op) : StreamSt := ops.foldl (stStep ms) s

/-- what `operator<<(ostream&, const i_mep&)` calls -/
inductive Shown where
  | fn (callee : String)              -- dump / graphviz / in_line / list / tree
  | lang (symfmt : Nat)               -- language(s, symbol::format(symfmt), ind)
  deriving DecidableEq, Repr

def shown (cases : List (Nat × String)) (base : Nat) (pf : Nat) : Shown :=
  match cases.find? (fun c => c.1 == pf) with
  | some c => .fn c.2
  | none => .lang (pf - base)

/-- for every `print` of a history: (format flag, long-form flag, what is called) -/
def runOps (ms : ManipTable) (cases : List (Nat × String)) (base : Nat) (fslot lslot : String) :
    StreamSt → List Op → List (Nat × Nat × Shown)
  | _, [] => []
  | s, .print :: r => (s.get fslot, s.get lslot, shown cases base (s.get fslot)) :: runOps ms cases base fslot lslot s r
  | s, o :: r => runOps ms cases base fslot lslot (stStep ms s o) r

/-- does the operation leave slot `slot` alone? -/
def quiet (ms : ManipTable) (slot : String) : Op → Bool
  | .print => true
  | .fresh => false
  | .manip n _ =>
      match ms.find? (fun m => m.1 == n) with
      | some (_, sl, _) => sl != slot
      | none => true

end Vita.C19
