/-
  C19 — expression syntax of the four export languages (the subset the templates use).

  * `Ast`                abstract syntax with holes and *explicit* parenthesis nodes
  * `flat`               the token list an `Ast` stands for (no parenthesis is ever added)
  * `lvl` / `ok`         precedence level of the outermost construct and the condition
                         "every operand binds at least as tightly as its position demands",
                         i.e. reading `flat a` with the language's precedence rules gives `a`
  * `subst`              replacing holes by trees
  * `parse`              executable precedence-climbing parser (fuel = structural)

  Levels (shared numbering, C family / Python):
     1 comma (argument lists)   2 conditional (`?:`, `x if c else y`)   3 `||`/`or`   4 `&&`/`and`
     C: 5 `|` 6 `^` 7 `&` 8 `== !=` 9 `< > <= >=`      Py: 5 `not` 6 comparisons 7 `|` 8 `^` 9 `&`
     10 shifts  11 `+ -`  12 `* / %` (`//`)  13 prefix `- + ~` (`!`)  15 postfix (call, member)
     16 primary (literal, name, parenthesised expression)
-/
import Vita.C19.Lex
namespace Vita.C19

inductive Ast where
  | leaf (ts : List Tok)
  | hole (i : Nat)
  | paren (e : Ast)
  | call (f a : Ast)
  | call0 (f : Ast)
  | member (e : Ast) (n : List Ch)
  | un (op : Tok) (e : Ast)
  | cast (ty : List Ch) (e : Ast)
  | bin (op : Tok) (l r : Ast)
  | tern (c a b : Ast)
  | pyif (a c b : Ast)
  deriving DecidableEq, Repr, Inhabited

def tQ : Tok := .op [63]          -- ?
def tColon : Tok := .op [58]      -- :
def tDot : Tok := .op [46]        -- .
def tScope : Tok := .op [58, 58]  -- ::
def tLt : Tok := .op [60]
def tGt : Tok := .op [62]
def kIf : Tok := .id [105, 102]
def kElse : Tok := .id [101, 108, 115, 101]
def kAnd : Tok := .id [97, 110, 100]
def kOr : Tok := .id [111, 114]
def kNot : Tok := .id [110, 111, 116]

def flat : Ast → List Tok
  | .leaf ts => ts
  | .hole i => [.hole i]
  | .paren e => .lp :: flat e ++ [.rp]
  | .call f a => flat f ++ .lp :: flat a ++ [.rp]
  | .call0 f => flat f ++ [.lp, .rp]
  | .member e n => flat e ++ [tDot, .id n]
  | .un op e => op :: flat e
  | .cast ty e => .lp :: .id ty :: .rp :: flat e
  | .bin op l r => flat l ++ op :: flat r
  | .tern c a b => flat c ++ tQ :: flat a ++ tColon :: flat b
  | .pyif a c b => flat a ++ kIf :: flat c ++ kElse :: flat b

/-- level of an infix operator token (comma = 1 only inside argument lists) -/
def binLevel (f : Fmt) (t : Tok) : Option Nat :=
  match t with
  | .comma => some 1
  | .op [42] | .op [47] | .op [37] => some 12
  | .op [47, 47] => if f = .py then some 12 else none
  | .op [43] | .op [45] => some 11
  | .op [60, 60] | .op [62, 62] => some 10
  | .op [60] | .op [62] | .op [60, 61] | .op [62, 61] => if f = .py then some 6 else some 9
  | .op [61, 61] | .op [33, 61] => if f = .py then some 6 else some 8
  | .op [38] => if f = .py then some 9 else some 7
  | .op [94] => if f = .py then some 8 else some 6
  | .op [124] => if f = .py then some 7 else some 5
  | .op [38, 38] => if f = .py then none else some 4
  | .op [124, 124] => if f = .py then none else some 3
  | .id [97, 110, 100] => if f = .py then some 4 else none
  | .id [111, 114] => if f = .py then some 3 else none
  | _ => none

/-- level of a prefix operator token -/
def preLevel (f : Fmt) (t : Tok) : Option Nat :=
  match t with
  | .op [45] | .op [43] | .op [126] => some 13
  | .op [33] => if f = .py then none else some 13
  | .id [110, 111, 116] => if f = .py then some 5 else none
  | _ => none

def isKeyword (f : Fmt) (s : List Ch) : Bool :=
  f = .py && (s == [105, 102] || s == [101, 108, 115, 101] || s == [97, 110, 100] ||
              s == [111, 114] || s == [110, 111, 116])

/-- the tail of a qualified name: `:: id` or `< id > :: id`, repeated (C++ only) -/
def qualTail : List Tok → Bool
  | [] => true
  | .op [58, 58] :: .id _ :: r => qualTail r
  | .op [60] :: .id _ :: .op [62] :: .op [58, 58] :: .id _ :: r => qualTail r
  | _ => false

/-- a leaf is a number, a string literal, a name, or (C++) a qualified name -/
def leafOk (f : Fmt) : List Tok → Bool
  | [.num _] => true
  | [.str _] => true
  | .id s :: r => !isKeyword f s && (r.isEmpty || (f = .cpp && qualTail r))
  | _ => false

/-- type names a C-style cast `(T)e` may use (C family only) -/
def isTypeName (s : List Ch) : Bool := s == [100, 111, 117, 98, 108, 101]   -- double

/-- level of the outermost construct; holes count as `hl` -/
def lvl (f : Fmt) (hl : Nat) : Ast → Nat
  | .leaf _ => 16
  | .hole _ => hl
  | .paren _ => 16
  | .call _ _ => 15
  | .call0 _ => 15
  | .member _ _ => 15
  | .un op _ => (preLevel f op).getD 0
  | .cast _ _ => 13
  | .bin op _ _ => (binLevel f op).getD 0
  | .tern _ _ _ => 2
  | .pyif _ _ _ => 2

/-- precedence consistency: `flat a` read with the precedence rules of `f` is `a` -/
def ok (f : Fmt) (hl : Nat) : Ast → Bool
  | .leaf ts => leafOk f ts
  | .hole _ => true
  | .paren e => ok f hl e && decide (2 ≤ lvl f hl e)
  | .call g a => ok f hl g && decide (15 ≤ lvl f hl g) && ok f hl a && decide (1 ≤ lvl f hl a)
  | .call0 g => ok f hl g && decide (15 ≤ lvl f hl g)
  | .member e _ => ok f hl e && decide (15 ≤ lvl f hl e)
  | .un op e =>
      match preLevel f op with
      | some p => ok f hl e && decide (p ≤ lvl f hl e)
      | none => false
  | .cast ty e => decide (f ≠ .py) && isTypeName ty && ok f hl e && decide (13 ≤ lvl f hl e)
  | .bin op l r =>
      match binLevel f op with
      | some p => ok f hl l && ok f hl r && decide (p ≤ lvl f hl l) && decide (p + 1 ≤ lvl f hl r)
      | none => false
  | .tern c a b =>
      decide (f ≠ .py) && ok f hl c && ok f hl a && ok f hl b &&
      decide (3 ≤ lvl f hl c) && decide (1 ≤ lvl f hl a) && decide (2 ≤ lvl f hl b)
  | .pyif a c b =>
      decide (f = .py) && ok f hl a && ok f hl c && ok f hl b &&
      decide (3 ≤ lvl f hl a) && decide (3 ≤ lvl f hl c) && decide (2 ≤ lvl f hl b)

def subst (σ : Nat → Ast) : Ast → Ast
  | .leaf ts => .leaf ts
  | .hole i => σ i
  | .paren e => .paren (subst σ e)
  | .call f a => .call (subst σ f) (subst σ a)
  | .call0 f => .call0 (subst σ f)
  | .member e n => .member (subst σ e) n
  | .un op e => .un op (subst σ e)
  | .cast ty e => .cast ty (subst σ e)
  | .bin op l r => .bin op (subst σ l) (subst σ r)
  | .tern c a b => .tern (subst σ c) (subst σ a) (subst σ b)
  | .pyif a c b => .pyif (subst σ a) (subst σ c) (subst σ b)

/-- every hole index of the tree is in `1..n` -/
def holesIn (n : Nat) : Ast → Bool
  | .leaf _ => true
  | .hole i => decide (1 ≤ i) && decide (i ≤ n)
  | .paren e => holesIn n e
  | .call f a => holesIn n f && holesIn n a
  | .call0 f => holesIn n f
  | .member e _ => holesIn n e
  | .un _ e => holesIn n e
  | .cast _ e => holesIn n e
  | .bin _ l r => holesIn n l && holesIn n r
  | .tern c a b => holesIn n c && holesIn n a && holesIn n b
  | .pyif a c b => holesIn n a && holesIn n c && holesIn n b

/-- substitution on token lists: `hole i` is replaced by `σ i` -/
def substToks (σ : Nat → List Tok) : List Tok → List Tok
  | [] => []
  | .hole i :: r => σ i ++ substToks σ r
  | t :: r => t :: substToks σ r

/-! ### executable parser

One structurally recursive function on `fuel`; `mode` selects the non-terminal:
  * `expr min`          an expression whose outermost construct has level ≥ `min`
  * `post a`            continue a postfix chain after `a`
  * `infx min a`        continue with infix operators of level ≥ `min` after the operand `a`
-/
inductive PMode where
  | expr (min : Nat)
  | post (a : Ast)
  | infx (min : Nat) (a : Ast)

/-- longest qualified-name prefix (C++): returns (name tokens, rest) -/
def takeQual : Nat → List Tok → List Tok × List Tok
  | fuel + 1, .op [58, 58] :: .id s :: r =>
      let q := takeQual fuel r
      (.op [58, 58] :: .id s :: q.1, q.2)
  | fuel + 1, .op [60] :: .id a :: .op [62] :: .op [58, 58] :: .id s :: r =>
      let q := takeQual fuel r
      (.op [60] :: .id a :: .op [62] :: .op [58, 58] :: .id s :: q.1, q.2)
  | _, r => ([], r)

/-- `( double )` followed by something: a C-style cast (C family) -/
def isCastHead (f : Fmt) : List Tok → Bool
  | .id ty :: .rp :: _ :: _ => decide (f ≠ .py) && isTypeName ty
  | _ => false

def parseGo (f : Fmt) : Nat → PMode → List Tok → Option (Ast × List Tok)
  | 0, _, _ => none
  | fuel + 1, .expr min, toks =>
      match toks with
      | [] => none
      | t :: r =>
        match preLevel f t with
        | some p =>
            if p < min then none else
            match parseGo f fuel (.expr p) r with
            | some (e, r') => parseGo f fuel (.infx min (.un t e)) r'
            | none => none
        | none =>
          match t with
          | .num s => match parseGo f fuel (.post (.leaf [.num s])) r with
                      | some (a, r') => parseGo f fuel (.infx min a) r'
                      | none => none
          | .str s => match parseGo f fuel (.post (.leaf [.str s])) r with
                      | some (a, r') => parseGo f fuel (.infx min a) r'
                      | none => none
          | .hole i => match parseGo f fuel (.post (.hole i)) r with
                      | some (a, r') => parseGo f fuel (.infx min a) r'
                      | none => none
          | .id s =>
              if isKeyword f s then none else
              let q := if f = .cpp then takeQual fuel r else ([], r)
              match parseGo f fuel (.post (.leaf (.id s :: q.1))) q.2 with
              | some (a, r') => parseGo f fuel (.infx min a) r'
              | none => none
          | .lp =>
              if isCastHead f r then
                match r with
                | .id ty :: .rp :: r2 =>
                    if 13 < min then none else
                    match parseGo f fuel (.expr 13) r2 with
                    | some (e, r') => parseGo f fuel (.infx min (.cast ty e)) r'
                    | none => none
                | _ => none
              else
              match parseGo f fuel (.expr 2) r with
              | some (e, .rp :: r') =>
                  match parseGo f fuel (.post (.paren e)) r' with
                  | some (a, r'') => parseGo f fuel (.infx min a) r''
                  | none => none
              | _ => none
          | _ => none
  | fuel + 1, .post a, toks =>
      match toks with
      | .lp :: .rp :: r => parseGo f fuel (.post (.call0 a)) r
      | .lp :: r =>
          match parseGo f fuel (.expr 1) r with
          | some (args, .rp :: r') => parseGo f fuel (.post (.call a args)) r'
          | _ => none
      | .op [46] :: .id n :: r => parseGo f fuel (.post (.member a n)) r
      | _ => some (a, toks)
  | fuel + 1, .infx min a, toks =>
      match toks with
      | [] => some (a, [])
      | t :: r =>
        -- conditional expressions (level 2)
        if t = tQ ∧ f ≠ .py ∧ min ≤ 2 ∧ 3 ≤ lvl f 16 a then
          match parseGo f fuel (.expr 1) r with
          | some (x, t2 :: r') =>
              if t2 = tColon then
                match parseGo f fuel (.expr 2) r' with
                | some (y, r'') => parseGo f fuel (.infx min (.tern a x y)) r''
                | none => none
              else none
          | _ => none
        else if t = kIf ∧ f = .py ∧ min ≤ 2 ∧ 3 ≤ lvl f 16 a then
          match parseGo f fuel (.expr 3) r with
          | some (c, t2 :: r') =>
              if t2 = kElse then
                match parseGo f fuel (.expr 2) r' with
                | some (y, r'') => parseGo f fuel (.infx min (.pyif a c y)) r''
                | none => none
              else none
          | _ => none
        else
        match binLevel f t with
        | some p =>
            if p < min then some (a, toks) else
            match parseGo f fuel (.expr (p + 1)) r with
            | some (rhs, r') => parseGo f fuel (.infx min (.bin t a rhs)) r'
            | none => none
        | none => some (a, toks)

/-- parse a whole token list as one expression (conditional level, no top-level comma) -/
def parse (f : Fmt) (toks : List Tok) : Option Ast :=
  match parseGo f (4 * toks.length + 8) (.expr 2) toks with
  | some (a, []) => some a
  | _ => none

end Vita.C19
