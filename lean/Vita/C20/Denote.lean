/-
  C20 — executing a statement skeleton (Sk.lean) over the storage primitives of Model.lean.

  `Sem` gives a meaning to the LEAVES of a skeleton (each condition and each statement, identified
  by its normalised source text, as a function on the model state); `execL` supplies the control
  structure.  For `resize` — the function whose branch structure is the most intricate and is not
  reached uniformly by sampled scripts — `resize_denotes` proves that the skeleton extracted from the
  clang AST, executed with `resizeSem`, IS the hand-written `resize` of Model.lean, for every state
  (well formed or not) and every `n`: the branch structure of the model is the branch structure of
  the code, not a re-implementation that happens to agree on the sampled inputs.
-/
import Vita.C20.Lemmas
import Vita.C20.Skeleton
set_option linter.unusedSimpArgs false
namespace Vita.C20

variable {α : Type}

structure Sem (σ : Type) where
  cond : String → Option (σ → Bool)
  stmt : String → Option (σ → M σ)
  /-- a `for` loop gets its meaning as a whole: key = header ++ "{" ++ body statement ++ "}" -/
  loop : String → Option (σ → M σ)

mutual
  def exec {σ : Type} (sem : Sem σ) : Sk → σ → M σ
    | .stmt t, s => match sem.stmt t with
      | some f => f s
      | none => .error .precond
    | .decl _, _ => .error .precond                     -- (no function denoted so far declares locals)
    | .ret _, _ => .error .precond                      -- (nor returns a value)
    | .ite c t e, s => match sem.cond c with
      | some f => if f s then execL sem t s else execL sem e s
      | none => .error .precond
    | .loop h [.stmt b], s => match sem.loop (h ++ "{" ++ b ++ "}") with
      | some f => f s
      | none => .error .precond
    | .loop _ _, _ => .error .precond
  def execL {σ : Type} (sem : Sem σ) : List Sk → σ → M σ
    | [], s => pure s
    | x :: xs, s => exec sem x s >>= execL sem xs
end

/-- `std::fill(end(), begin() + n, T())`: assignment onto the objects `[size, n)`; an empty range
    touches nothing -/
def fillTo (c : Cfg α) (n : Nat) (s : SV α) : M (SV α) :=
  if s.size < n then
    assignRange c.trivial s.buf s.size (List.replicate (n - s.size) c.dflt) >>= fun b => pure (s.setBuf b)
  else pure s

/-- `for (k = size(); k < n; ++k) new (data_ + k) T()` -/
def constructTo (c : Cfg α) (n : Nat) (s : SV α) : M (SV α) :=
  constructRange c.trivial s.buf s.size (List.replicate (n - s.size) c.dflt) >>= fun b => pure (s.setBuf b)

/-- `destroy_range(begin() + n, end())` -/
def destroyFrom (n : Nat) (s : SV α) : M (SV α) :=
  destroyRange s.buf n (s.size - n) >>= fun b => pure (s.setBuf b)

/-- `size_ = data_ + n` -/
def setSize (n : Nat) (s : SV α) : M (SV α) := pure { s with size := n }

/-- `for (; size_ < capacity_; ++size_) new (size_) T()`: constructs up to `capacity_` and leaves
    `size_ == capacity_` -/
def constructToCap (c : Cfg α) (s : SV α) : M (SV α) :=
  constructTo c (s.cap c) s >>= fun s' => pure { s' with size := s.cap c }

/-- the meaning of the conditions and statements that occur in `resize(n)` -/
def resizeSem (c : Cfg α) (n : Nat) : Sem (SV α) where
  cond t :=
    if t = "n<=capacity()" then some (fun s => decide (n ≤ s.cap c))
    else if t = "!std::is_trivially_default_constructible_v<T>" then some (fun _ => !c.trivial)
    else if t = "local_storage_used()" then some (fun s => s.isLocal)
    else if t = "n>=size()" then some (fun s => decide (s.size ≤ n))
    else if t = "n<size()" then some (fun s => decide (n < s.size))
    else if t = "n>size()" then some (fun s => decide (s.size < n))
    else none
  stmt t :=
    if t = "std::fill(end(),begin()+n,T())" then some (fillTo c n)
    else if t = "destroy_range(begin()+n,end())" then some (destroyFrom n)
    else if t = "size_=data_+n" then some (setSize n)
    else if t = "grow(n)" then some (fun s => grow c s n)
    else none
  loop t :=
    if t = "auto k(size());k<n;++k{new(data_+k)T()}" then some (constructTo c n)
    else if t = ";size_<capacity_;++size_{new(size_)T()}" then some (constructToCap c)
    else none

theorem constructRange_length {t : Bool} {buf b : List (Slot α)} {pos : Nat} {xs : List α}
    (h : constructRange t buf pos xs = .ok b) : b.length = buf.length := by
  unfold constructRange at h
  split at h
  · cases h
  · split at h
    · cases h
    · cases h
      simp [splice]; omega

/-- after `grow(n)` the capacity is exactly `n` -/
theorem grow_cap {c : Cfg α} {s s1 : SV α} {n : Nat} (h : grow c s n = .ok s1) :
    s1.cap c = n ∧ s1.heap.isSome = true := by
  unfold grow at h
  cases hm : moveOutRange c.trivial s.buf 0 s.size with
  | error e => simp [hm, bind, Except.bind] at h
  | ok p =>
    obtain ⟨vals, old⟩ := p
    cases hc : constructRange c.trivial (List.replicate n Slot.raw) 0 vals with
    | error e => simp [hm, hc, bind, Except.bind] at h
    | ok nb =>
      have hl := constructRange_length hc
      cases hh : s.heap with
      | none =>
        simp [hm, hc, hh, bind, Except.bind, pure, Except.pure] at h
        subst h; simp [SV.cap, hl]
      | some b0 =>
        cases hf : freeHeap c old s.size with
        | error e => simp [hm, hc, hh, hf, bind, Except.bind] at h
        | ok u =>
          simp [hm, hc, hh, hf, bind, Except.bind, pure, Except.pure] at h
          subst h; simp [SV.cap, hl]

/-! ### equation lemmas of the interpreter, the table entries of `resizeSem` -/

theorem exec_stmt {σ} (sem : Sem σ) (t : String) (s : σ) :
    exec sem (.stmt t) s = match sem.stmt t with | some f => f s | none => .error .precond := by
  rw [exec] <;> rfl
theorem exec_ite {σ} (sem : Sem σ) (c : String) (t e : List Sk) (s : σ) :
    exec sem (.ite c t e) s = match sem.cond c with
      | some f => if f s then execL sem t s else execL sem e s
      | none => .error .precond := by
  rw [exec] <;> rfl
theorem exec_loop1 {σ} (sem : Sem σ) (h b : String) (s : σ) :
    exec sem (.loop h [.stmt b]) s = match sem.loop (h ++ "{" ++ b ++ "}") with
      | some f => f s
      | none => .error .precond := by
  rw [exec] <;> rfl
theorem execL_nil {σ} (sem : Sem σ) : execL sem [] = pure := by funext s; rw [execL]
theorem execL_cons {σ} (sem : Sem σ) (x : Sk) (xs : List Sk) :
    execL sem (x :: xs) = fun s => exec sem x s >>= execL sem xs := by
  funext s; rw [execL]

theorem except_eta {σ : Type} (x : M σ) :
    (match x with | .ok a => (.ok a : M σ) | .error e => .error e) = x := by cases x <;> rfl

section keys
variable (c : Cfg α) (n : Nat)
theorem rk1 : (resizeSem c n).cond "n<=capacity()" = some (fun s => decide (n ≤ s.cap c)) := by
  simp only [resizeSem, String.reduceEq, if_true, if_false]
theorem rk2 : (resizeSem c n).cond "!std::is_trivially_default_constructible_v<T>" = some (fun _ => !c.trivial) := by
  simp only [resizeSem, String.reduceEq, if_true, if_false]
theorem rk3 : (resizeSem c n).cond "local_storage_used()" = some (fun s => s.isLocal) := by
  simp only [resizeSem, String.reduceEq, if_true, if_false]
theorem rk4 : (resizeSem c n).cond "n>=size()" = some (fun s => decide (s.size ≤ n)) := by
  simp only [resizeSem, String.reduceEq, if_true, if_false]
theorem rk5 : (resizeSem c n).cond "n<size()" = some (fun s => decide (n < s.size)) := by
  simp only [resizeSem, String.reduceEq, if_true, if_false]
theorem rk6 : (resizeSem c n).cond "n>size()" = some (fun s => decide (s.size < n)) := by
  simp only [resizeSem, String.reduceEq, if_true, if_false]
theorem rs1 : (resizeSem c n).stmt "std::fill(end(),begin()+n,T())" = some (fillTo c n) := by
  simp only [resizeSem, String.reduceEq, if_true, if_false]
theorem rs2 : (resizeSem c n).stmt "destroy_range(begin()+n,end())" = some (destroyFrom n) := by
  simp only [resizeSem, String.reduceEq, if_true, if_false]
theorem rs3 : (resizeSem c n).stmt "size_=data_+n" = some (setSize n) := by
  simp only [resizeSem, String.reduceEq, if_true, if_false]
theorem rs4 : (resizeSem c n).stmt "grow(n)" = some (fun s => grow c s n) := by
  simp only [resizeSem, String.reduceEq, if_true, if_false]
theorem rl1 : (resizeSem c n).loop ("auto k(size());k<n;++k" ++ "{" ++ "new(data_+k)T()" ++ "}") = some (constructTo c n) := by
  simp only [resizeSem, String.reduceAppend, String.reduceEq, if_true, if_false]
theorem rl2 : (resizeSem c n).loop (";size_<capacity_;++size_" ++ "{" ++ "new(size_)T()" ++ "}") =
    some (constructToCap c) := by
  simp only [resizeSem, String.reduceAppend, String.reduceEq, if_true, if_false]
end keys


/-- executing the skeleton of `resize(n)` with the meanings of `resizeSem` is the model's `resize` -/
theorem resize_denotes_aux (c : Cfg α) (n : Nat) (s : SV α) :
    execL (resizeSem c n) Skeleton.resizeSk s = resize c s n := by
  unfold Skeleton.resizeSk
  simp only [execL_cons, execL_nil, exec_ite, exec_stmt, exec_loop1]
  simp only [rk1, rk2, rk3, rk4, rk5, rk6, rs1, rs2, rs3, rs4, rl1, rl2]
  simp only [bind_pure]
  by_cases hc : n ≤ s.cap c
  · unfold resize
    simp only [hc, decide_true, if_true]
    cases hh : s.heap <;> cases ht : c.trivial <;> by_cases h1 : s.size < n <;> by_cases h2 : n < s.size <;>
      by_cases h3 : s.size ≤ n <;>
      first
      | omega
      | (simp [fillTo, constructTo, destroyFrom, setSize, SV.isLocal, SV.buf, SV.setBuf, hh, ht, h1, h2, h3])
  · unfold resize
    simp only [hc, decide_false, if_false, Bool.false_eq_true]
    cases hg : grow c s n with
    | error e => rfl
    | ok s1 =>
      obtain ⟨hcap, hheap⟩ := grow_cap hg
      have e1 : ∀ (f : SV α → M (SV α)), (Except.ok s1 >>= f) = f s1 := fun _ => rfl
      rw [e1, e1]
      simp [constructToCap, constructTo, hcap]

end Vita.C20
