/-
  C20 — executing a statement skeleton (Sk.lean) over the storage primitives of Model.lean.

  `Sem` gives a meaning to the LEAVES of a skeleton (each condition and each statement, identified
  by its normalised source text, as a function on the model state); `execL` supplies the control
  structure.  For `resize` — the function whose branch structure is the most intricate and is not
  reached uniformly by sampled scripts — `resize_denotes` proves that the skeleton extracted from the
  clang AST, executed with `resizeSem`, IS the hand-written `resize` of Model.lean, for every state
  (well formed or not) and every `n`: the branch structure of the model is the branch structure of
  the code, not a re-implementation that happens to agree on the sampled inputs.
  `assignCopy_denotes_aux` does the same for `operator=(const small_vector &)` (local state: `*this`,
  `n`, `needs_memory`, `assigned`), for every well-formed destination: there the code calls range
  primitives on empty ranges where the model calls nothing, which is the identity only inside the
  bounds the invariant gives.
-/
import Vita.C20.Lemmas
import Vita.C20.Skeleton
set_option linter.unusedSimpArgs false
namespace Vita.C20

variable {α : Type}

structure Sem (σ : Type) where
  cond : String → Option (σ → Bool)
  stmt : String → Option (σ → M σ)
  /-- a `for` loop gets its meaning as a whole: key = header ++ "{" ++ body statement ++ "}" -/
  loop : String → Option (σ → M σ)

mutual
  def exec {σ : Type} (sem : Sem σ) : Sk → σ → M σ
    | .stmt t, s => match sem.stmt t with
      | some f => f s
      | none => .error .precond
    | .decl t, s => match sem.stmt t with          -- a declaration updates the local state
      | some f => f s
      | none => .error .precond
    | .ret _, _ => .error .precond                  -- (`return` is only supported in tail position)
    | .ite c t e, s => match sem.cond c with
      | some f => if f s then execL sem t s else execL sem e s
      | none => .error .precond
    | .loop h [.stmt b], s => match sem.loop (h ++ "{" ++ b ++ "}") with
      | some f => f s
      | none => .error .precond
    | .loop _ _, _ => .error .precond
  def execL {σ : Type} (sem : Sem σ) : List Sk → σ → M σ
    | [], s => pure s
    | [.ret _], s => pure s                         -- `return e` as the last statement
    | x :: xs, s => exec sem x s >>= execL sem xs
end

/-- `std::fill(end(), begin() + n, T())`: assignment onto the objects `[size, n)`; an empty range
    touches nothing -/
def fillTo (c : Cfg α) (n : Nat) (s : SV α) : M (SV α) :=
  if s.size < n then
    assignRange c.trivial s.buf s.size (List.replicate (n - s.size) c.dflt) >>= fun b => pure (s.setBuf b)
  else pure s

/-- `for (k = size(); k < n; ++k) new (data_ + k) T()` -/
def constructTo (c : Cfg α) (n : Nat) (s : SV α) : M (SV α) :=
  constructRange c.trivial s.buf s.size (List.replicate (n - s.size) c.dflt) >>= fun b => pure (s.setBuf b)

/-- `destroy_range(begin() + n, end())` -/
def destroyFrom (n : Nat) (s : SV α) : M (SV α) :=
  destroyRange s.buf n (s.size - n) >>= fun b => pure (s.setBuf b)

/-- `size_ = data_ + n` -/
def setSize (n : Nat) (s : SV α) : M (SV α) := pure { s with size := n }

/-- `for (; size_ < capacity_; ++size_) new (size_) T()`: constructs up to `capacity_` and leaves
    `size_ == capacity_` -/
def constructToCap (c : Cfg α) (s : SV α) : M (SV α) :=
  constructTo c (s.cap c) s >>= fun s' => pure { s' with size := s.cap c }

/-- the meaning of the conditions and statements that occur in `resize(n)` -/
def resizeSem (c : Cfg α) (n : Nat) : Sem (SV α) where
  cond t :=
    if t = "n<=capacity()" then some (fun s => decide (n ≤ s.cap c))
    else if t = "!std::is_trivially_default_constructible_v<T>" then some (fun _ => !c.trivial)
    else if t = "local_storage_used()" then some (fun s => s.isLocal)
    else if t = "n>=size()" then some (fun s => decide (s.size ≤ n))
    else if t = "n<size()" then some (fun s => decide (n < s.size))
    else if t = "n>size()" then some (fun s => decide (s.size < n))
    else none
  stmt t :=
    if t = "std::fill(end(),begin()+n,T())" then some (fillTo c n)
    else if t = "destroy_range(begin()+n,end())" then some (destroyFrom n)
    else if t = "size_=data_+n" then some (setSize n)
    else if t = "grow(n)" then some (fun s => grow c s n)
    else none
  loop t :=
    if t = "auto k(size());k<n;++k{new(data_+k)T()}" then some (constructTo c n)
    else if t = ";size_<capacity_;++size_{new(size_)T()}" then some (constructToCap c)
    else none

theorem constructRange_length {t : Bool} {buf b : List (Slot α)} {pos : Nat} {xs : List α}
    (h : constructRange t buf pos xs = .ok b) : b.length = buf.length := by
  unfold constructRange at h
  split at h
  · cases h
  · split at h
    · cases h
    · cases h
      simp [splice]; omega

/-- after `grow(n)` the capacity is exactly `n` -/
theorem grow_cap {c : Cfg α} {s s1 : SV α} {n : Nat} (h : grow c s n = .ok s1) :
    s1.cap c = n ∧ s1.heap.isSome = true := by
  unfold grow at h
  cases hm : moveOutRange c.trivial s.buf 0 s.size with
  | error e => simp [hm, bind, Except.bind] at h
  | ok p =>
    obtain ⟨vals, old⟩ := p
    cases hc : constructRange c.trivial (List.replicate n Slot.raw) 0 vals with
    | error e => simp [hm, hc, bind, Except.bind] at h
    | ok nb =>
      have hl := constructRange_length hc
      cases hh : s.heap with
      | none =>
        simp [hm, hc, hh, bind, Except.bind, pure, Except.pure] at h
        subst h; simp [SV.cap, hl]
      | some b0 =>
        cases hf : freeHeap c old s.size with
        | error e => simp [hm, hc, hh, hf, bind, Except.bind] at h
        | ok u =>
          simp [hm, hc, hh, hf, bind, Except.bind, pure, Except.pure] at h
          subst h; simp [SV.cap, hl]

/-! ### equation lemmas of the interpreter, the table entries of `resizeSem` -/

theorem exec_stmt {σ} (sem : Sem σ) (t : String) (s : σ) :
    exec sem (.stmt t) s = match sem.stmt t with | some f => f s | none => .error .precond := by
  rw [exec] <;> rfl
theorem exec_decl {σ} (sem : Sem σ) (t : String) (s : σ) :
    exec sem (.decl t) s = match sem.stmt t with | some f => f s | none => .error .precond := by
  rw [exec] <;> rfl
theorem exec_ite {σ} (sem : Sem σ) (c : String) (t e : List Sk) (s : σ) :
    exec sem (.ite c t e) s = match sem.cond c with
      | some f => if f s then execL sem t s else execL sem e s
      | none => .error .precond := by
  rw [exec] <;> rfl
theorem exec_loop1 {σ} (sem : Sem σ) (h b : String) (s : σ) :
    exec sem (.loop h [.stmt b]) s = match sem.loop (h ++ "{" ++ b ++ "}") with
      | some f => f s
      | none => .error .precond := by
  rw [exec] <;> rfl
theorem execL_nil {σ} (sem : Sem σ) : execL sem [] = pure := by funext s; rw [execL]
theorem execL_ret {σ} (sem : Sem σ) (t : String) : execL sem [.ret t] = pure := by funext s; rw [execL]
theorem execL_cons_stmt {σ} (sem : Sem σ) (t : String) (xs : List Sk) :
    execL sem (.stmt t :: xs) = fun s => exec sem (.stmt t) s >>= execL sem xs := by
  funext s; rw [execL]; intro t' h; cases h
theorem execL_cons_decl {σ} (sem : Sem σ) (t : String) (xs : List Sk) :
    execL sem (.decl t :: xs) = fun s => exec sem (.decl t) s >>= execL sem xs := by
  funext s; rw [execL]; intro t' h; cases h
theorem execL_cons_ite {σ} (sem : Sem σ) (c : String) (t e : List Sk) (xs : List Sk) :
    execL sem (.ite c t e :: xs) = fun s => exec sem (.ite c t e) s >>= execL sem xs := by
  funext s; rw [execL]; intro t' h; cases h
theorem execL_cons_loop {σ} (sem : Sem σ) (h : String) (b : List Sk) (xs : List Sk) :
    execL sem (.loop h b :: xs) = fun s => exec sem (.loop h b) s >>= execL sem xs := by
  funext s; rw [execL]; intro t' h; cases h

theorem except_eta {σ : Type} (x : M σ) :
    (match x with | .ok a => (.ok a : M σ) | .error e => .error e) = x := by cases x <;> rfl

section keys
variable (c : Cfg α) (n : Nat)
theorem rk1 : (resizeSem c n).cond "n<=capacity()" = some (fun s => decide (n ≤ s.cap c)) := by
  simp only [resizeSem, String.reduceEq, if_true, if_false]
theorem rk2 : (resizeSem c n).cond "!std::is_trivially_default_constructible_v<T>" = some (fun _ => !c.trivial) := by
  simp only [resizeSem, String.reduceEq, if_true, if_false]
theorem rk3 : (resizeSem c n).cond "local_storage_used()" = some (fun s => s.isLocal) := by
  simp only [resizeSem, String.reduceEq, if_true, if_false]
theorem rk4 : (resizeSem c n).cond "n>=size()" = some (fun s => decide (s.size ≤ n)) := by
  simp only [resizeSem, String.reduceEq, if_true, if_false]
theorem rk5 : (resizeSem c n).cond "n<size()" = some (fun s => decide (n < s.size)) := by
  simp only [resizeSem, String.reduceEq, if_true, if_false]
theorem rk6 : (resizeSem c n).cond "n>size()" = some (fun s => decide (s.size < n)) := by
  simp only [resizeSem, String.reduceEq, if_true, if_false]
theorem rs1 : (resizeSem c n).stmt "std::fill(end(),begin()+n,T())" = some (fillTo c n) := by
  simp only [resizeSem, String.reduceEq, if_true, if_false]
theorem rs2 : (resizeSem c n).stmt "destroy_range(begin()+n,end())" = some (destroyFrom n) := by
  simp only [resizeSem, String.reduceEq, if_true, if_false]
theorem rs3 : (resizeSem c n).stmt "size_=data_+n" = some (setSize n) := by
  simp only [resizeSem, String.reduceEq, if_true, if_false]
theorem rs4 : (resizeSem c n).stmt "grow(n)" = some (fun s => grow c s n) := by
  simp only [resizeSem, String.reduceEq, if_true, if_false]
theorem rl1 : (resizeSem c n).loop ("auto k(size());k<n;++k" ++ "{" ++ "new(data_+k)T()" ++ "}") = some (constructTo c n) := by
  simp only [resizeSem, String.reduceAppend, String.reduceEq, if_true, if_false]
theorem rl2 : (resizeSem c n).loop (";size_<capacity_;++size_" ++ "{" ++ "new(size_)T()" ++ "}") =
    some (constructToCap c) := by
  simp only [resizeSem, String.reduceAppend, String.reduceEq, if_true, if_false]
end keys


/-- executing the skeleton of `resize(n)` with the meanings of `resizeSem` is the model's `resize` -/
theorem resize_denotes_aux (c : Cfg α) (n : Nat) (s : SV α) :
    execL (resizeSem c n) Skeleton.resizeSk s = resize c s n := by
  unfold Skeleton.resizeSk
  simp only [execL_cons_stmt, execL_cons_ite, execL_cons_loop, execL_nil, exec_ite, exec_stmt, exec_loop1]
  simp only [rk1, rk2, rk3, rk4, rk5, rk6, rs1, rs2, rs3, rs4, rl1, rl2]
  simp only [bind_pure]
  by_cases hc : n ≤ s.cap c
  · unfold resize
    simp only [hc, decide_true, if_true]
    cases hh : s.heap <;> cases ht : c.trivial <;> by_cases h1 : s.size < n <;> by_cases h2 : n < s.size <;>
      by_cases h3 : s.size ≤ n <;>
      first
      | omega
      | (simp [fillTo, constructTo, destroyFrom, setSize, SV.isLocal, SV.buf, SV.setBuf, hh, ht, h1, h2, h3])
  · unfold resize
    simp only [hc, decide_false, if_false, Bool.false_eq_true]
    cases hg : grow c s n with
    | error e => rfl
    | ok s1 =>
      obtain ⟨hcap, hheap⟩ := grow_cap hg
      have e1 : ∀ (f : SV α → M (SV α)), (Except.ok s1 >>= f) = f s1 := fun _ => rfl
      rw [e1, e1]
      simp [constructToCap, constructTo, hcap]

/-! ### `operator=(const small_vector &)` -/

/-- the local state of `operator=(const small_vector &rhs)`: `*this` and the locals -/
structure AState (α : Type) where
  d : SV α
  n : Nat
  needs : Bool
  assigned : Nat

def AState.upd (st : AState α) (f : SV α → M (SV α)) : M (AState α) :=
  f st.d >>= fun d' => pure { st with d := d' }

/-- meanings of the conditions / statements of `operator=(const small_vector &rhs)`; `vals` are the
    elements of `rhs` (read through `rhs.begin()…rhs.end()`) -/
def assignSem (c : Cfg α) (vals : List α) : Sem (AState α) where
  cond t :=
    if t = "this!=&rhs" then some (fun _ => true)
    else if t = "needs_memory" then some (fun st => st.needs)
    else if t = "!local_storage_used()" then some (fun st => !st.d.isLocal)
    else if t = "!std::is_trivially_default_constructible_v<T>" then some (fun _ => !c.trivial)
    else none
  stmt t :=
    if t = "const auto n(rhs.size())" then some (fun st => pure { st with n := vals.length })
    else if t = "const bool needs_memory(capacity()<n)" then
      some (fun st => pure { st with needs := decide (st.d.cap c < st.n) })
    else if t = "free_heap_memory()" then
      some (fun st => freeHeap c st.d.buf st.d.size >>= fun _ => pure st)
    else if t = "data_=static_cast<T*>(::operator new(n*sizeof(T)))" then
      some (fun st => pure { st with d := { loc := st.d.loc, heap := some (List.replicate st.n .raw), size := st.d.size } })
    else if t = "capacity_=size_=data_+n" then some (fun st => pure { st with d := { st.d with size := st.n } })
    else if t = "vita::uninitialized_copy(rhs.begin(),rhs.end(),begin())" then
      some (fun st => st.upd (fun d => constructRange c.trivial d.buf 0 vals >>= fun b => pure (d.setBuf b)))
    else if t = "const auto assigned(std::is_trivially_default_constructible_v<T>||local_storage_used()?n:std::min(n,size()))" then
      some (fun st => pure { st with assigned := if c.trivial || st.d.isLocal then st.n else min st.n st.d.size })
    else if t = "destroy_range(begin()+assigned,end())" then
      some (fun st => st.upd (fun d => destroyRange d.buf st.assigned (d.size - st.assigned) >>= fun b => pure (d.setBuf b)))
    else if t = "std::copy(rhs.begin(),rhs.begin()+assigned,begin())" then
      some (fun st => st.upd (fun d => assignRange c.trivial d.buf 0 (vals.take st.assigned) >>= fun b => pure (d.setBuf b)))
    else if t = "vita::uninitialized_copy(rhs.begin()+assigned,rhs.end(),begin()+assigned)" then
      some (fun st => st.upd (fun d => constructRange c.trivial d.buf st.assigned (vals.drop st.assigned) >>= fun b => pure (d.setBuf b)))
    else if t = "size_=begin()+n" then some (fun st => pure { st with d := { st.d with size := st.n } })
    else none
  loop _ := none

section akeys
variable (c : Cfg α) (vals : List α)
theorem ak1 : (assignSem c vals).cond "this!=&rhs" = some (fun _ => true) := by
  simp only [assignSem, String.reduceEq, if_true, if_false]
theorem ak2 : (assignSem c vals).cond "needs_memory" = some (fun st => st.needs) := by
  simp only [assignSem, String.reduceEq, if_true, if_false]
theorem ak3 : (assignSem c vals).cond "!local_storage_used()" = some (fun st => !st.d.isLocal) := by
  simp only [assignSem, String.reduceEq, if_true, if_false]
theorem ak4 : (assignSem c vals).cond "!std::is_trivially_default_constructible_v<T>" = some (fun _ => !c.trivial) := by
  simp only [assignSem, String.reduceEq, if_true, if_false]
theorem as1 : (assignSem c vals).stmt "const auto n(rhs.size())" = some (fun st => pure { st with n := vals.length }) := by
  simp only [assignSem, String.reduceEq, if_true, if_false]
theorem as2 : (assignSem c vals).stmt "const bool needs_memory(capacity()<n)" =
    some (fun st => pure { st with needs := decide (st.d.cap c < st.n) }) := by
  simp only [assignSem, String.reduceEq, if_true, if_false]
theorem as3 : (assignSem c vals).stmt "free_heap_memory()" =
    some (fun st => freeHeap c st.d.buf st.d.size >>= fun _ => pure st) := by
  simp only [assignSem, String.reduceEq, if_true, if_false]
theorem as4 : (assignSem c vals).stmt "data_=static_cast<T*>(::operator new(n*sizeof(T)))" =
    some (fun st => pure { st with d := { loc := st.d.loc, heap := some (List.replicate st.n .raw), size := st.d.size } }) := by
  simp only [assignSem, String.reduceEq, if_true, if_false]
theorem as5 : (assignSem c vals).stmt "capacity_=size_=data_+n" =
    some (fun st => pure { st with d := { st.d with size := st.n } }) := by
  simp only [assignSem, String.reduceEq, if_true, if_false]
theorem as6 : (assignSem c vals).stmt "vita::uninitialized_copy(rhs.begin(),rhs.end(),begin())" =
    some (fun st => st.upd (fun d => constructRange c.trivial d.buf 0 vals >>= fun b => pure (d.setBuf b))) := by
  simp only [assignSem, String.reduceEq, if_true, if_false]
theorem as7 : (assignSem c vals).stmt "const auto assigned(std::is_trivially_default_constructible_v<T>||local_storage_used()?n:std::min(n,size()))" =
    some (fun st => pure { st with assigned := if c.trivial || st.d.isLocal then st.n else min st.n st.d.size }) := by
  simp only [assignSem, String.reduceEq, if_true, if_false]
theorem as8 : (assignSem c vals).stmt "destroy_range(begin()+assigned,end())" =
    some (fun st => st.upd (fun d => destroyRange d.buf st.assigned (d.size - st.assigned) >>= fun b => pure (d.setBuf b))) := by
  simp only [assignSem, String.reduceEq, if_true, if_false]
theorem as9 : (assignSem c vals).stmt "std::copy(rhs.begin(),rhs.begin()+assigned,begin())" =
    some (fun st => st.upd (fun d => assignRange c.trivial d.buf 0 (vals.take st.assigned) >>= fun b => pure (d.setBuf b))) := by
  simp only [assignSem, String.reduceEq, if_true, if_false]
theorem as10 : (assignSem c vals).stmt "vita::uninitialized_copy(rhs.begin()+assigned,rhs.end(),begin()+assigned)" =
    some (fun st => st.upd (fun d => constructRange c.trivial d.buf st.assigned (vals.drop st.assigned) >>= fun b => pure (d.setBuf b))) := by
  simp only [assignSem, String.reduceEq, if_true, if_false]
theorem as11 : (assignSem c vals).stmt "size_=begin()+n" = some (fun st => pure { st with d := { st.d with size := st.n } }) := by
  simp only [assignSem, String.reduceEq, if_true, if_false]
end akeys

theorem mapM_slotVal_length {l : List (Slot α)} {vs : List α} (h : l.mapM slotVal = .ok vs) : vs.length = l.length := by
  induction l generalizing vs with
  | nil => simp [List.mapM_nil, pure, Except.pure] at h; subst h; rfl
  | cons x xs ih =>
    rw [List.mapM_cons] at h
    cases hx : slotVal x with
    | error e => simp [hx, bind, Except.bind] at h
    | ok v =>
      cases hr : xs.mapM slotVal with
      | error e => simp [hx, hr, bind, Except.bind] at h
      | ok r =>
        simp [hx, hr, bind, Except.bind, pure, Except.pure] at h
        subst h; simp [ih hr]

theorem readRange_length {buf : List (Slot α)} {n : Nat} {vals : List α} (h : readRange buf 0 n = .ok vals) :
    vals.length = n := by
  unfold readRange at h
  split at h
  · cases h
  · rw [mapM_slotVal_length h]; simp [seg]; omega

theorem constructRange_nil (t : Bool) (buf : List (Slot α)) (pos : Nat) (h : pos ≤ buf.length) :
    constructRange t buf pos [] = .ok buf := by
  unfold constructRange
  have : ¬ buf.length < pos + ([] : List α).length := by simp; omega
  simp [this, seg, splice, h]

theorem destroyRange_zero (buf : List (Slot α)) (pos : Nat) (h : pos ≤ buf.length) :
    destroyRange buf pos 0 = .ok buf := by
  unfold destroyRange
  have : ¬ buf.length < pos + 0 := by omega
  simp [this, seg, splice, h]

theorem assignRange_length {t : Bool} {buf b : List (Slot α)} {pos : Nat} {xs : List α}
    (h : assignRange t buf pos xs = .ok b) : b.length = buf.length := by
  unfold assignRange at h
  split at h
  · cases h
  · split at h
    · cases h
    · cases h
      simp [splice]; omega

theorem destroyRange_length {buf b : List (Slot α)} {pos n : Nat}
    (h : destroyRange buf pos n = .ok b) : b.length = buf.length := by
  unfold destroyRange at h
  split at h
  · cases h
  · split at h
    · cases h
    · cases h
      simp [splice]; omega

theorem ok_bind {β γ : Type} (x : β) (f : β → M γ) : ((Except.ok x : M β) >>= f) = f x := rfl
theorem err_bind {β γ : Type} (e : Fault) (f : β → M γ) : ((Except.error e : M β) >>= f) = .error e := rfl

theorem assignCopy_denotes_aux (c : Cfg α) {dst src : SV α} {els : List (Slot α)} (hd : Rep c dst els)
    {vals : List α} (hv : readRange src.buf 0 src.size = .ok vals) :
    (execL (assignSem c vals) Skeleton.assignCopySk ⟨dst, 0, false, 0⟩ >>= fun st => pure st.d)
      = assignCopy c dst src := by
  have hn := readRange_length hv
  unfold Skeleton.assignCopySk
  simp only [execL_cons_stmt, execL_cons_decl, execL_cons_ite, execL_nil, execL_ret, exec_ite, exec_stmt, exec_decl]
  simp only [ak1, ak2, ak3, ak4, as1, as2, as3, as4, as5, as6, as7, as8, as9, as10, as11]
  simp only [bind_pure, pure_bind, if_true]
  unfold assignCopy
  simp only [hv, ok_bind]
  simp only [← hn]
  have hcap := hd.cap
  have hsz := hd.size_le_cap
  by_cases hc : dst.cap c < vals.length
  · simp only [hc, decide_true, if_true]
    cases hh : dst.heap with
    | none =>
      simp [SV.isLocal, SV.buf, SV.setBuf, AState.upd, hh]
    | some hb =>
      have hf := hd.freeHeap_ok hb hh
      simp [SV.isLocal, SV.buf, SV.setBuf, AState.upd, hh, hf, ok_bind]
  · simp only [hc, decide_false, if_false, Bool.false_eq_true]
    have hle : vals.length ≤ dst.buf.length := by omega
    cases hh : dst.heap with
    | none =>
      have hb : dst.buf = dst.loc := by simp [SV.buf, hh]
      rw [hb] at hle
      simp [SV.isLocal, SV.buf, SV.setBuf, AState.upd, hh]
      cases ha : assignRange c.trivial dst.loc 0 vals with
      | error e => rfl
      | ok a =>
        have hl := assignRange_length ha
        simp [ok_bind, constructRange_nil c.trivial a vals.length (by omega)]
    | some hb0 =>
      have hb : dst.buf = hb0 := by simp [SV.buf, hh]
      rw [hb] at hle
      have hsz' : dst.size ≤ hb0.length := by rw [← hb, ← hcap]; exact hsz
      cases ht : c.trivial with
      | true =>
        simp [SV.isLocal, SV.buf, SV.setBuf, AState.upd, hh, ht]
        cases ha : assignRange true hb0 0 vals with
        | error e => rfl
        | ok a =>
          have hl := assignRange_length ha
          simp [ok_bind, constructRange_nil true a vals.length (by omega)]
      | false =>
        by_cases hlt : vals.length < dst.size
        · have hmin : min vals.length dst.size = vals.length := by omega
          simp [SV.isLocal, SV.buf, SV.setBuf, AState.upd, hh, ht, hlt, hmin]
          cases hdd : destroyRange hb0 vals.length (dst.size - vals.length) with
          | error e => rfl
          | ok b1 =>
            have hl1 := destroyRange_length hdd
            simp only [ok_bind]
            cases ha : assignRange false b1 0 vals with
            | error e => rfl
            | ok a =>
              have hl := assignRange_length ha
              simp [ok_bind, constructRange_nil false a vals.length (by omega)]
        · have hmin : min vals.length dst.size = dst.size := by omega
          simp [SV.isLocal, SV.buf, SV.setBuf, AState.upd, hh, ht, hlt, hmin]
          simp [destroyRange_zero hb0 dst.size hsz', ok_bind]

end Vita.C20
