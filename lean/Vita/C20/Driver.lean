/-
  C20 line-protocol driver (same requests as harness/c20_smallvec.cc):
    new <int|double|string|tracked> <S>
    <r> ctorN n | ctorNX n id | ctorList k id… | ctorCopy | ctorMove | assignCopy | assignMove
        | assignSelf | clear | pushBack v id | pushBack s i | emplaceBack v id | emplaceBack s i
        | insert pos k id… | resize n | reserve n | setAt i id | getAt i | cmpEq | cmpLt
    end
  answers:  ok <obs> | <reg0> | <reg1>     with <reg> = S size cap e0,e1,…  or  U size cap
            fault <kind>   (then `dead` until the next `new`)   precond   bad-op
            end ok | end fault <kind>
  Elements: ids; R = raw slot, M = moved-from object inside [0, size).
-/
import Vita.C20.Model
open Vita.C20

structure Session where
  cfg : Cfg Nat
  m : Mach Nat
  spec0 : Bool
  spec1 : Bool
  dead : Bool

def growthPolicy (n : Nat) : Nat := if n > 1 then 3 * n / 2 else n + 1

def showSlot : Slot Nat → String
  | .raw => "R"
  | .alive v => toString v
  | .moved => "M"

def showReg (c : Cfg Nat) (s : SV Nat) (spec : Bool) : String :=
  let hd := (if spec then "S " else "U ") ++ toString s.size ++ " " ++ toString (s.cap c)
  if !spec then hd else
  let els := (s.buf.take s.size).map showSlot
  hd ++ " " ++ (if els.isEmpty then "-" else ",".intercalate els)

def faultName : Fault → String
  | .readRaw => "readRaw" | .readMoved => "readMoved" | .assignRaw => "assignRaw"
  | .constructOverAlive => "constructOverAlive" | .destroyRaw => "destroyRaw" | .oob => "oob"
  | .freeAlive => "freeAlive" | .danglingRef => "danglingRef" | .precond => "precond"

def nums (ts : List String) : Option (List Nat) :=
  ts.mapM (fun t => if t.length ≤ 9 then t.toNat? else none)

inductive Req
  | bad | precond
  | op (r : Bool) (o : Op Nat) (specX specY : Bool)   -- resulting specified flags of x and y

def parseOp (ss : Session) (r : Bool) (name : String) (args : List String) : Req :=
  let x := ss.m.get r
  let sx := if r then ss.spec1 else ss.spec0
  let sy := if r then ss.spec0 else ss.spec1
  let needX (q : Req) : Req := if sx then q else .precond
  match name, args with
  | "pushBack", [k, a] | "emplaceBack", [k, a] =>
    match nums [a] with
    | some [v] =>
      if k == "v" then needX (.op r (if name == "pushBack" then .pushBack (.val v) else .emplaceBack (.val v)) sx sy)
      else if k == "s" then
        needX (if v < x.size then .op r (if name == "pushBack" then .pushBack (.self v) else .emplaceBack (.self v)) sx sy
               else .precond)
      else .bad
    | _ => .bad
  | _, _ =>
    match nums args with
    | none => .bad
    | some a =>
      match name, a with
      | "ctorN", [n] => if n > 64 then .precond else .op r (.ctorN n) true sy
      | "ctorNX", [n, v] => if n > 64 then .precond else .op r (.ctorNX n v) true sy
      | "ctorList", k :: vs =>
        if vs.length != k then .bad else if k > 10 then .precond else .op r (.ctorList vs) true sy
      | "ctorCopy", [] => if sy then .op r .ctorCopy true sy else .precond
      | "ctorMove", [] => if sy then .op r .ctorMove true false else .precond
      | "assignCopy", [] => if sy then .op r .assignCopy true sy else .precond
      | "assignMove", [] => if sy then .op r .assignMove true false else .precond
      | "assignSelf", [] => .op r .assignSelf sx sy
      | "clear", [] => .op r .clear true sy
      | "insert", pos :: k :: vs =>
        if vs.length != k then .bad else needX (if pos ≤ x.size then .op r (.insert pos vs) sx sy else .precond)
      | "resize", [n] => needX (if n > 64 then .precond else .op r (.resize n) sx sy)
      | "reserve", [n] => needX (if n > 64 then .precond else .op r (.reserve n) sx sy)
      | "setAt", [i, v] => needX (if i < x.size then .op r (.setAt i v) sx sy else .precond)
      | "getAt", [i] => needX (if i < x.size then .op r (.getAt i) sx sy else .precond)
      | "cmpEq", [] => needX (if sy then .op r .cmpEq sx sy else .precond)
      | "cmpLt", [] => needX (if sy then .op r .cmpLt sx sy else .precond)
      | _, _ => .bad

def showObs (op : Op Nat) : Obs Nat → String
  | .none => match op with
    | .insert pos _ => toString pos
    | _ => "-"
  | .val v => toString v
  | .bool b => if b then "1" else "0"

def handle (st : Option Session) (line : String) : Option Session × String :=
  match line.trimAscii.toString.splitOn " " |>.filter (· ≠ "") with
  | ["new", ty, s] =>
    match nums [s] with
    | some [n] =>
      if n < 1 || n > 8 then (none, "bad-op") else
      let triv? : Option Bool :=
        if ty == "int" || ty == "double" then some true
        else if ty == "string" || ty == "tracked" then some false else none
      match triv? with
      | none => (none, "bad-op")
      | some t =>
        let c : Cfg Nat := { S := n, trivial := t, growth := growthPolicy, dflt := 0 }
        (some { cfg := c, m := Mach.init c, spec0 := true, spec1 := true, dead := false }, "ok new")
    | _ => (none, "bad-op")
  | ["end"] =>
    match st with
    | none => (none, "bad-op")
    | some ss =>
      if ss.dead then (none, "dead") else
      match finish ss.cfg ss.m with
      | .ok _ => (none, "end ok")
      | .error e => (none, "end fault " ++ faultName e)
  | r :: name :: args =>
    match st with
    | none => (none, "bad-op")
    | some ss =>
      if r != "0" && r != "1" then (st, "bad-op") else
      if ss.dead then (st, "dead") else
      let rb := r == "1"
      match parseOp ss rb name args with
      | .bad => (st, "bad-op")
      | .precond => (st, "precond")
      | .op _ o sx sy =>
        match step ss.cfg (fun a b => decide (a < b)) ss.m rb o with
        | .error e => (some { ss with dead := true }, "fault " ++ faultName e)
        | .ok (m', obs) =>
          let s0 := if rb then sy else sx
          let s1 := if rb then sx else sy
          (some { ss with m := m', spec0 := s0, spec1 := s1 },
           "ok " ++ showObs o obs ++ " | " ++ showReg ss.cfg m'.a s0 ++ " | " ++ showReg ss.cfg m'.b s1)
  | _ => (st, "bad-op")

partial def loop (h : IO.FS.Stream) (out : IO.FS.Stream) (st : Option Session) : IO Unit := do
  let line ← h.getLine
  if line.isEmpty then return ()
  let (st', ans) := handle st line
  out.putStrLn ans
  loop h out st'

def main : IO Unit := do
  loop (← IO.getStdin) (← IO.getStdout) none
