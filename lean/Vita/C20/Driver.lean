/-
  C20 line-protocol driver (same requests as harness/c20_smallvec.cc):
    new <int|double|string|tracked|pod> <S>
    <r> ctorN n | ctorNX n id | ctorList k id… | ctorCopy | ctorMove | assignCopy | assignMove
        | assignSelf | clear | pushBack v id | pushBack s i | emplaceBack v id | emplaceBack s i
        | emplaceBack a<k> id (k-argument constructor form, k = 0..3)
        | insert pos k id… | insertL pos k id… (list iterators) | resize n | reserve n
        | setAt i id | getAt i | cmp <eq|ne|lt|gt|le|ge> | cmpEq | cmpLt
        | cmpMixed <S2 in 1,4,8> <eq|…|ge> <flip 0|1>
        | front | back | setFront id | setBack id | dataAt i | setData i id | iterFwd | iterRev
        | empty | size | capOk | maxSize
    end
  answers:  ok <obs> | <reg0> | <reg1>     with <reg> = S size cap e0,e1,…  or  U size cap
            fault <kind>   (then `dead` until the next `new`)   precond   bad-op
            end ok | end fault <kind>
  Elements: ids; R = raw slot, M = moved-from object inside [0, size).

  The element VALUE CLASS: an id names a representation; the element type supplies `==` and `<`
  on it (`tyEq`, `tyLt`), which are NOT the identity / order of ids:
    double  90000001 = -0.0 (== +0.0 = id 0), 90000002 / 90000003 = two NaNs (unordered, != itself),
            90000004 = +inf, 90000005 = -inf, 90000006 = -1.0, 90000007 = denorm_min, 90000008 = -2.0
    pod     id = aux * 1000000 + key: `operator==` and `operator<` look at `key` only
-/
import Vita.C20.Model
open Vita.C20

/-- `none` = NaN; otherwise an integer that orders the `double`s an id can denote -/
def dRank (id : Nat) : Option Int :=
  if id == 90000002 || id == 90000003 then none
  else if id == 90000001 then some 0
  else if id == 90000004 then some 1000000000000
  else if id == 90000005 then some (-1000000000000)
  else if id == 90000006 then some (-2)
  else if id == 90000007 then some 1
  else if id == 90000008 then some (-4)
  else some (2 * (id : Int))

/-- `T::operator==` on ids -/
def tyEq (ty : String) (a b : Nat) : Bool :=
  if ty == "double" then
    match dRank a, dRank b with
    | some x, some y => x == y
    | _, _ => false
  else if ty == "pod" then a % 1000000 == b % 1000000
  else a == b

/-- `T::operator<` on ids -/
def tyLt (ty : String) (a b : Nat) : Bool :=
  if ty == "double" then
    match dRank a, dRank b with
    | some x, some y => decide (x < y)
    | _, _ => false
  else if ty == "pod" then decide (a % 1000000 < b % 1000000)
  else decide (a < b)

structure Session where
  ty : String
  cfg : Cfg Nat
  m : Mach Nat
  spec0 : Bool
  spec1 : Bool
  dead : Bool

def growthPolicy (n : Nat) : Nat := if n > 1 then 3 * n / 2 else n + 1

def showSlot : Slot Nat → String
  | .raw => "R"
  | .alive v => toString v
  | .moved => "M"

def showReg (c : Cfg Nat) (s : SV Nat) (spec : Bool) : String :=
  let hd := (if spec then "S " else "U ") ++ toString s.size ++ " " ++ toString (s.cap c)
  if !spec then hd else
  let els := (s.buf.take s.size).map showSlot
  hd ++ " " ++ (if els.isEmpty then "-" else ",".intercalate els)

def faultName : Fault → String
  | .readRaw => "readRaw" | .readMoved => "readMoved" | .assignRaw => "assignRaw"
  | .constructOverAlive => "constructOverAlive" | .destroyRaw => "destroyRaw" | .oob => "oob"
  | .freeAlive => "freeAlive" | .danglingRef => "danglingRef" | .precond => "precond"

def cmpOf : String → Option Cmp
  | "eq" => some .eq | "ne" => some .ne | "lt" => some .lt | "gt" => some .gt | "le" => some .le
  | "ge" => some .ge | _ => none

def nums (ts : List String) : Option (List Nat) :=
  ts.mapM (fun t => if t.length ≤ 9 then t.toNat? else none)

inductive Req
  | bad | precond
  | op (r : Bool) (o : Op Nat) (specX specY : Bool)   -- resulting specified flags of x and y

def parseOp (ss : Session) (r : Bool) (name : String) (args : List String) : Req :=
  let x := ss.m.get r
  let sx := if r then ss.spec1 else ss.spec0
  let sy := if r then ss.spec0 else ss.spec1
  let needX (q : Req) : Req := if sx then q else .precond
  match name, args with
  | "pushBack", [k, a] | "emplaceBack", [k, a] =>
    match nums [a] with
    | some [v] =>
      if k == "v" then needX (.op r (if name == "pushBack" then .pushBack (.val v) else .emplaceBack (.val v)) sx sy)
      else if k == "s" then
        needX (if v < x.size then .op r (if name == "pushBack" then .pushBack (.self v) else .emplaceBack (.self v)) sx sy
               else .precond)
      else if name == "emplaceBack" && (k == "a0" || k == "a1" || k == "a2" || k == "a3") then
        -- T(args…) with k constructor arguments denotes the element `v`
        if (ss.ty == "int" || ss.ty == "double") && (k == "a2" || k == "a3") then .bad
        else if k == "a0" && v != 0 then .bad
        else needX (.op r (.emplaceBack (.val v)) sx sy)
      else .bad
    | _ => .bad
  | "cmp", [k] =>
    match cmpOf k with
    | some c => needX (if sy then .op r (.cmp c) sx sy else .precond)
    | none => .bad
  | "cmpMixed", [s2, k, f] =>
    match cmpOf k, nums [s2, f] with
    | some c, some [n, fl] =>
      if (n != 1 && n != 4 && n != 8) || fl > 1 then .bad
      else needX (if sy then .op r (.cmpMixed n c (fl == 1)) sx sy else .precond)
    | _, _ => .bad
  | _, _ =>
    match nums args with
    | none => .bad
    | some a =>
      match name, a with
      | "ctorN", [n] => if n > 64 then .precond else .op r (.ctorN n) true sy
      | "ctorNX", [n, v] => if n > 64 then .precond else .op r (.ctorNX n v) true sy
      | "ctorList", k :: vs =>
        if vs.length != k then .bad else if k > 10 then .precond else .op r (.ctorList vs) true sy
      | "ctorCopy", [] => if sy then .op r .ctorCopy true sy else .precond
      | "ctorMove", [] => if sy then .op r .ctorMove true false else .precond
      | "assignCopy", [] => if sy then .op r .assignCopy true sy else .precond
      | "assignMove", [] => if sy then .op r .assignMove true false else .precond
      | "assignSelf", [] => .op r .assignSelf sx sy
      | "clear", [] => .op r .clear true sy
      | "insert", pos :: k :: vs | "insertL", pos :: k :: vs =>
        if vs.length != k then .bad else needX (if pos ≤ x.size then .op r (.insert pos vs) sx sy else .precond)
      | "resize", [n] => needX (if n > 64 then .precond else .op r (.resize n) sx sy)
      | "reserve", [n] => needX (if n > 64 then .precond else .op r (.reserve n) sx sy)
      | "setAt", [i, v] => needX (if i < x.size then .op r (.setAt i v) sx sy else .precond)
      | "getAt", [i] => needX (if i < x.size then .op r (.getAt i) sx sy else .precond)
      | "cmpEq", [] => needX (if sy then .op r (.cmp .eq) sx sy else .precond)
      | "cmpLt", [] => needX (if sy then .op r (.cmp .lt) sx sy else .precond)
      | "front", [] => needX (if 0 < x.size then .op r .front sx sy else .precond)
      | "back", [] => needX (if 0 < x.size then .op r .back sx sy else .precond)
      | "setFront", [v] => needX (if 0 < x.size then .op r (.setFront v) sx sy else .precond)
      | "setBack", [v] => needX (if 0 < x.size then .op r (.setBack v) sx sy else .precond)
      | "dataAt", [i] => needX (if i < x.size then .op r (.dataAt i) sx sy else .precond)
      | "setData", [i, v] => needX (if i < x.size then .op r (.setData i v) sx sy else .precond)
      | "iterFwd", [] => needX (.op r .iterFwd sx sy)
      | "iterRev", [] => needX (.op r .iterRev sx sy)
      | "empty", [] => needX (.op r .empty sx sy)
      | "size", [] => needX (.op r .size sx sy)
      | "capOk", [] => needX (.op r .capOk sx sy)
      | "maxSize", [] => .op r .maxSize sx sy
      | _, _ => .bad

def showObs : Obs Nat → String
  | .none => "-"
  | .val v => toString v
  | .bool b => if b then "1" else "0"
  | .nat n => toString n
  | .list l => if l.isEmpty then "-" else ",".intercalate (l.map toString)

def handle (st : Option Session) (line : String) : Option Session × String :=
  match line.trimAscii.toString.splitOn " " |>.filter (· ≠ "") with
  | ["new", ty, s] =>
    match nums [s] with
    | some [n] =>
      if n < 1 || n > 8 then (none, "bad-op") else
      let triv? : Option Bool :=
        if ty == "int" || ty == "double" || ty == "pod" then some true
        else if ty == "string" || ty == "tracked" then some false else none
      match triv? with
      | none => (none, "bad-op")
      | some t =>
        let c : Cfg Nat := { S := n, trivial := t, growth := growthPolicy, dflt := 0 }
        (some { ty := ty, cfg := c, m := Mach.init c, spec0 := true, spec1 := true, dead := false }, "ok new")
    | _ => (none, "bad-op")
  | ["end"] =>
    match st with
    | none => (none, "bad-op")
    | some ss =>
      if ss.dead then (none, "dead") else
      match finish ss.cfg ss.m with
      | .ok _ => (none, "end ok")
      | .error e => (none, "end fault " ++ faultName e)
  | r :: name :: args =>
    match st with
    | none => (none, "bad-op")
    | some ss =>
      if r != "0" && r != "1" then (st, "bad-op") else
      if ss.dead then (st, "dead") else
      let rb := r == "1"
      match parseOp ss rb name args with
      | .bad => (st, "bad-op")
      | .precond => (st, "precond")
      | .op _ o sx sy =>
        match step ss.cfg (tyEq ss.ty) (tyLt ss.ty) ss.m rb o with
        | .error e => (some { ss with dead := true }, "fault " ++ faultName e)
        | .ok (m', obs) =>
          let s0 := if rb then sy else sx
          let s1 := if rb then sx else sy
          (some { ss with m := m', spec0 := s0, spec1 := s1 },
           "ok " ++ showObs obs ++ " | " ++ showReg ss.cfg m'.a s0 ++ " | " ++ showReg ss.cfg m'.b s1)
  | _ => (st, "bad-op")

partial def loop (h : IO.FS.Stream) (out : IO.FS.Stream) (st : Option Session) : IO Unit := do
  let line ← h.getLine
  if line.isEmpty then return ()
  let (st', ans) := handle st line
  out.putStrLn ans
  loop h out st'

def main : IO Unit := do
  loop (← IO.getStdin) (← IO.getStdout) none
