/-
  C20 — the member functions of small_vector.tcc as they were in the pinned tree (b4a6232),
  before the `fix:` commits on branch fix-c18.  They are kept only to state the defects as
  machine-checked witnesses (Props.lean, section "legacy"); the model of the current code is
  Model.lean.
-/
import Vita.C20.Model
namespace Vita.C20.Legacy
open Vita.C20

variable {α : Type}

/-- `operator=(const small_vector &)`: `destroy_range(begin() + n, end())` is executed also when
    `begin() + n > end()` (the loop `for (; b != e; ++b)` walks over raw memory past `end()`),
    then all `n` elements are copy-*assigned*. -/
def assignCopy (c : Cfg α) (dst src : SV α) : M (SV α) := do
  let n := src.size
  let vals ← readRange src.buf 0 n
  if dst.cap c < n then
    match dst.heap with
    | some b => freeHeap c b dst.size
    | none => pure ()
    let nb ← constructRange c.trivial (List.replicate n .raw) 0 vals
    pure { loc := dst.loc, heap := some nb, size := n }
  else
    match dst.heap with
    | none =>
      let l ← assignRange c.trivial dst.loc 0 vals
      pure { dst with loc := l, size := n }
    | some hb =>
      let b1 ← if c.trivial then pure hb
               else if dst.size < n then destroyRange hb n (hb.length - n + 1)   -- runs past the block
               else destroyRange hb n (dst.size - n)
      let b2 ← assignRange c.trivial b1 0 vals
      pure { dst with heap := some b2, size := n }

/-- `insert`: no early return for an empty range (`std::move_backward(i, end(), end())`
    move-assigns every element onto itself: unspecified value), and the second strategy
    constructs with placement new also in the inline buffer. -/
def insert (c : Cfg α) (s : SV α) (pos : Nat) (xs : List α) : M (SV α) := do
  if s.size < pos then throw .precond
  if pos = s.size then append c s xs
  else
    let n := xs.length
    let s1 ← reserve c s (s.size + n)
    let sz := s1.size
    if pos + n ≤ sz then
      let (tailv, b1) ← moveOutRange c.trivial s1.buf (sz - n) n
      let b2 ← putRange c s1.isLocal b1 sz tailv
      let (midv, b3) ← moveOutRange c.trivial b2 pos (sz - n - pos)
      let b4 ← if n = 0 then pure b3 else assignRange c.trivial b3 (pos + n) midv
      let b5 ← assignRange c.trivial b4 pos xs
      pure { s1.setBuf b5 with size := sz + n }
    else
      let ow := sz - pos
      let (tailv, b1) ← moveOutRange c.trivial s1.buf pos ow
      let b2 ← constructRange c.trivial b1 (pos + n) tailv
      let b3 ← assignRange c.trivial b2 pos (xs.take ow)
      let b4 ← constructRange c.trivial b3 sz (xs.drop ow)
      pure { s1.setBuf b4 with size := sz + n }

/-- `small_vector(n)`: nothing is initialised for trivially default constructible `T` -/
def ctorN (c : Cfg α) (n : Nat) : M (SV α) :=
  if c.trivial then
    if n ≤ c.S then pure { loc := freshLoc c, heap := none, size := n }
    else pure { loc := freshLoc c, heap := some (List.replicate n .raw), size := n }
  else Vita.C20.ctorN c n

/-- `push_back`: `grow()` first, then the argument is read through the (now dangling) reference -/
def pushBack (c : Cfg α) (s : SV α) (x : Src α) : M (SV α) := do
  if s.size = s.cap c then
    let s1 ← grow c s (c.growth s.size)
    let v ← match x with
      | .val v => pure v
      | .self i =>
        match s.heap with
        | some _ => throw .danglingRef                     -- the old block was freed by grow()
        | none =>                                          -- the inline object was moved from
          match readRange s1.loc i 1 with
          | .ok [v] => pure v
          | .ok _ => throw .oob
          | .error e => throw e
    let b ← constructRange c.trivial s1.buf s1.size [v]
    pure { s1.setBuf b with size := s1.size + 1 }
  else Vita.C20.pushBack c s x

end Vita.C20.Legacy
