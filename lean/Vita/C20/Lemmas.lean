/-
  C20 — lemmas: the storage primitives on buffers given as three segments `P ++ M ++ Q`,
  the representation invariant `Rep`, and one specification lemma per member function.
-/
import Vita.C20.Model
set_option linter.unusedSimpArgs false
set_option linter.unusedVariables false

namespace Vita.C20

variable {α : Type}

/-! ### segments -/

theorem seg_mid {β : Type} (P M Q : List β) : seg (P ++ M ++ Q) P.length M.length = M := by
  simp [seg, List.append_assoc]

theorem splice_mid {β : Type} (P M Q M' : List β) (h : M'.length = M.length) :
    splice (P ++ M ++ Q) P.length M' = P ++ M' ++ Q := by
  simp [splice, List.append_assoc, h]

/-! ### slot predicates -/

def NoRaw (l : List (Slot α)) : Prop := ∀ s ∈ l, s.isRaw = false
def AllRaw (l : List (Slot α)) : Prop := ∀ s ∈ l, s.isRaw = true

theorem NoRaw.append {a b : List (Slot α)} (ha : NoRaw a) (hb : NoRaw b) : NoRaw (a ++ b) := by
  intro s hs; rcases List.mem_append.1 hs with h | h
  · exact ha s h
  · exact hb s h
theorem NoRaw.left {a b : List (Slot α)} (h : NoRaw (a ++ b)) : NoRaw a :=
  fun s hs => h s (List.mem_append_left _ hs)
theorem NoRaw.right {a b : List (Slot α)} (h : NoRaw (a ++ b)) : NoRaw b :=
  fun s hs => h s (List.mem_append_right _ hs)
theorem AllRaw.append {a b : List (Slot α)} (ha : AllRaw a) (hb : AllRaw b) : AllRaw (a ++ b) := by
  intro s hs; rcases List.mem_append.1 hs with h | h
  · exact ha s h
  · exact hb s h
theorem AllRaw.left {a b : List (Slot α)} (h : AllRaw (a ++ b)) : AllRaw a :=
  fun s hs => h s (List.mem_append_left _ hs)
theorem AllRaw.right {a b : List (Slot α)} (h : AllRaw (a ++ b)) : AllRaw b :=
  fun s hs => h s (List.mem_append_right _ hs)
theorem NoRaw.nil : NoRaw ([] : List (Slot α)) := by intro s hs; cases hs
theorem AllRaw.nil : AllRaw ([] : List (Slot α)) := by intro s hs; cases hs

theorem noRaw_map_alive (vs : List α) : NoRaw (vs.map Slot.alive) := by
  intro s hs; rcases List.mem_map.1 hs with ⟨v, _, rfl⟩; rfl
theorem noRaw_replicate_moved (n : Nat) : NoRaw (List.replicate n (Slot.moved : Slot α)) := by
  intro s hs; rw [(List.mem_replicate.1 hs).2]; rfl
theorem noRaw_replicate_alive (n : Nat) (v : α) : NoRaw (List.replicate n (Slot.alive v)) := by
  intro s hs; rw [(List.mem_replicate.1 hs).2]; rfl
theorem allRaw_replicate (n : Nat) : AllRaw (List.replicate n (Slot.raw : Slot α)) := by
  intro s hs; rw [(List.mem_replicate.1 hs).2]; rfl

theorem any_isRaw_false {l : List (Slot α)} (h : NoRaw l) : l.any (fun s => s.isRaw) = false := by
  rw [List.any_eq_false]; intro s hs; simp [h s hs]
theorem any_notRaw_false {l : List (Slot α)} (h : AllRaw l) : l.any (fun s => !s.isRaw) = false := by
  rw [List.any_eq_false]; intro s hs; simp [h s hs]

/-- the objects left behind by reading `vs` as rvalues -/
def mv (t : Bool) (vs : List α) : List (Slot α) :=
  if t then vs.map Slot.alive else List.replicate vs.length Slot.moved

theorem mv_length (t : Bool) (vs : List α) : (mv t vs).length = vs.length := by
  unfold mv; split <;> simp
theorem mv_noRaw (t : Bool) (vs : List α) : NoRaw (mv t vs) := by
  unfold mv; split
  · exact noRaw_map_alive vs
  · exact noRaw_replicate_moved _

/-! ### primitives on `P ++ M ++ Q` -/

theorem mapM_slotVal_alive (vs : List α) : (vs.map Slot.alive).mapM slotVal = Except.ok vs := by
  induction vs with
  | nil => rfl
  | cons v vs ih =>
    simp only [List.map_cons, List.mapM_cons, slotVal, ih]
    rfl

theorem readRange_ok {buf : List (Slot α)} {pos n : Nat} (P : List (Slot α)) (vs : List α) (Q : List (Slot α))
    (hb : buf = P ++ vs.map Slot.alive ++ Q) (hp : pos = P.length) (hn : n = vs.length) :
    readRange buf pos n = .ok vs := by
  subst hb hp hn
  have h1 : ¬ ((P ++ vs.map Slot.alive ++ Q).length < P.length + vs.length) := by simp
  unfold readRange
  rw [if_neg h1]
  have := seg_mid P (vs.map Slot.alive) Q
  simp only [List.length_map] at this
  rw [this, mapM_slotVal_alive]

theorem constructRange_ok {buf : List (Slot α)} {pos : Nat} (t : Bool) (P M Q : List (Slot α)) (xs : List α)
    (hb : buf = P ++ M ++ Q) (hp : pos = P.length) (hM : M.length = xs.length)
    (hraw : t = false → AllRaw M) :
    constructRange t buf pos xs = .ok (P ++ xs.map Slot.alive ++ Q) := by
  subst hb hp
  have h1 : ¬ ((P ++ M ++ Q).length < P.length + xs.length) := by simp; omega
  unfold constructRange
  rw [if_neg h1, ← hM, seg_mid, splice_mid P M Q _ (by simp [hM])]
  cases t with
  | true => simp
  | false => simp [any_notRaw_false (hraw rfl)]

theorem assignRange_ok {buf : List (Slot α)} {pos : Nat} (t : Bool) (P M Q : List (Slot α)) (xs : List α)
    (hb : buf = P ++ M ++ Q) (hp : pos = P.length) (hM : M.length = xs.length)
    (hlive : t = false → NoRaw M) :
    assignRange t buf pos xs = .ok (P ++ xs.map Slot.alive ++ Q) := by
  subst hb hp
  have h1 : ¬ ((P ++ M ++ Q).length < P.length + xs.length) := by simp; omega
  unfold assignRange
  rw [if_neg h1, ← hM, seg_mid, splice_mid P M Q _ (by simp [hM])]
  cases t with
  | true => simp
  | false => simp [any_isRaw_false (hlive rfl)]

theorem destroyRange_ok {buf : List (Slot α)} {pos n : Nat} (P M Q : List (Slot α))
    (hb : buf = P ++ M ++ Q) (hp : pos = P.length) (hn : n = M.length) (hlive : NoRaw M) :
    destroyRange buf pos n = .ok (P ++ List.replicate n Slot.raw ++ Q) := by
  subst hb hp hn
  have h1 : ¬ ((P ++ M ++ Q).length < P.length + M.length) := by simp
  unfold destroyRange
  rw [if_neg h1, seg_mid, splice_mid P M Q _ (by simp)]
  simp [any_isRaw_false hlive]

theorem moveOutRange_ok {buf : List (Slot α)} {pos n : Nat} (t : Bool) (P : List (Slot α)) (vs : List α)
    (Q : List (Slot α)) (hb : buf = P ++ vs.map Slot.alive ++ Q) (hp : pos = P.length) (hn : n = vs.length) :
    moveOutRange t buf pos n = .ok (vs, P ++ mv t vs ++ Q) := by
  unfold moveOutRange
  rw [readRange_ok P vs Q hb hp hn]
  subst hb hp hn
  cases t with
  | true => simp [mv]
  | false =>
    have := splice_mid P (vs.map Slot.alive) Q (List.replicate vs.length Slot.moved) (by simp)
    simp only [mv, Bool.false_eq_true, if_false, this]

theorem putRange_ok {buf : List (Slot α)} {pos : Nat} (c : Cfg α) (isLocal : Bool) (P M Q : List (Slot α))
    (xs : List α) (hb : buf = P ++ M ++ Q) (hp : pos = P.length) (hM : M.length = xs.length)
    (h : c.trivial = false → if isLocal then NoRaw M else AllRaw M) :
    putRange c isLocal buf pos xs = .ok (P ++ xs.map Slot.alive ++ Q) := by
  unfold putRange
  cases isLocal with
  | true => simp only [if_true]; exact assignRange_ok _ P M Q xs hb hp hM (fun ht => by simpa using h ht)
  | false => simp only [Bool.false_eq_true, if_false]; exact constructRange_ok _ P M Q xs hb hp hM (fun ht => by simpa using h ht)

/-! ### representation invariant -/

/-- slots behind `end()`: live objects in the inline buffer, raw memory on the heap
    (nothing is required for trivial element types) -/
def TailOK (c : Cfg α) (isLocal : Bool) (tl : List (Slot α)) : Prop :=
  c.trivial = false → if isLocal then NoRaw tl else AllRaw tl

/-- `s` is well formed and the slots `[begin, end)` are exactly `els` -/
structure Rep (c : Cfg α) (s : SV α) (els : List (Slot α)) : Prop where
  loc_len : s.loc.length = c.S
  loc_live : c.trivial = false → NoRaw s.loc
  size_eq : els.length = s.size
  els_live : c.trivial = false → NoRaw els
  tail : ∃ tl, s.buf = els ++ tl ∧ TailOK c s.isLocal tl
  cap_ge : c.S ≤ s.cap c          -- "the capacity of the vector is always >= S"

/-- well formed: every element slot holds an object (possibly moved-from) -/
def WF (c : Cfg α) (s : SV α) : Prop := ∃ els, Rep c s els

/-- abstraction: the vector holds exactly the values `vs` -/
def Abs (c : Cfg α) (s : SV α) (vs : List α) : Prop := Rep c s (vs.map Slot.alive)

theorem Abs.wf {c : Cfg α} {s : SV α} {vs : List α} (h : Abs c s vs) : WF c s := ⟨_, h⟩

theorem Rep.cap {c : Cfg α} {s : SV α} {els : List (Slot α)} (h : Rep c s els) : s.cap c = s.buf.length := by
  unfold SV.cap SV.buf
  cases hh : s.heap with
  | none => simp [h.loc_len]
  | some b => simp

theorem Rep.size_le_cap {c : Cfg α} {s : SV α} {els : List (Slot α)} (h : Rep c s els) : s.size ≤ s.cap c := by
  rw [h.cap]
  obtain ⟨tl, hb, _⟩ := h.tail
  rw [hb, ← h.size_eq]; simp

theorem tailOK_nil (c : Cfg α) (l : Bool) : TailOK c l [] := by
  intro _; cases l <;> simp [NoRaw.nil, AllRaw.nil]

theorem TailOK.right {c : Cfg α} {l : Bool} {a b : List (Slot α)} (h : TailOK c l (a ++ b)) : TailOK c l b := by
  intro ht; have := h ht
  cases l
  · simp at this ⊢; exact this.right
  · simp at this ⊢; exact this.right

theorem TailOK.left {c : Cfg α} {l : Bool} {a b : List (Slot α)} (h : TailOK c l (a ++ b)) : TailOK c l a := by
  intro ht; have := h ht
  cases l
  · simp at this ⊢; exact this.left
  · simp at this ⊢; exact this.left

@[simp] theorem setBuf_buf (s : SV α) (b : List (Slot α)) : (s.setBuf b).buf = b := by
  unfold SV.setBuf SV.buf; cases s.heap <;> rfl
@[simp] theorem setBuf_isLocal (s : SV α) (b : List (Slot α)) : (s.setBuf b).isLocal = s.isLocal := by
  unfold SV.setBuf SV.isLocal; cases h : s.heap <;> simp [h]

/-- writing a new buffer of the same length that is again `objects ++ tail` -/
theorem rep_put {c : Cfg α} {s : SV α} {els : List (Slot α)} (hr : Rep c s els)
    (b els' tl' : List (Slot α)) (n : Nat) (hb : b = els' ++ tl') (hlen : b.length = s.buf.length)
    (hl : c.trivial = false → NoRaw els') (ht : TailOK c s.isLocal tl') (hn : els'.length = n) :
    Rep c { s.setBuf b with size := n } els' := by
  cases hh : s.heap with
  | none =>
    have hloc : s.isLocal = true := by simp [SV.isLocal, hh]
    have hbuf : s.buf = s.loc := by simp [SV.buf, hh]
    refine ⟨?_, ?_, hn, hl, ⟨tl', ?_, ?_⟩, ?_⟩
    · simp only [SV.setBuf, hh]; rw [hlen, hbuf]; exact hr.loc_len
    · intro htv
      simp only [SV.setBuf, hh]; rw [hb]
      have := ht htv; rw [hloc] at this
      exact NoRaw.append (hl htv) (by simpa using this)
    · simp only [SV.setBuf, hh, SV.buf]; exact hb
    · simpa [SV.setBuf, hh, SV.isLocal] using (hloc ▸ ht)
    · simp [SV.cap, SV.setBuf, hh]
  | some hb0 =>
    have hloc : s.isLocal = false := by simp [SV.isLocal, hh]
    refine ⟨?_, ?_, hn, hl, ⟨tl', ?_, ?_⟩, ?_⟩
    · simp only [SV.setBuf, hh]; exact hr.loc_len
    · simp only [SV.setBuf, hh]; exact hr.loc_live
    · simp only [SV.setBuf, hh, SV.buf]; exact hb
    · simpa [SV.setBuf, hh, SV.isLocal] using (hloc ▸ ht)
    · have := hr.cap_ge
      simp only [SV.cap, SV.setBuf, SV.buf, hh] at this hlen ⊢
      omega

theorem setBuf_size_same (s : SV α) (b : List (Slot α)) :
    ({ s.setBuf b with size := s.size } : SV α) = s.setBuf b := by
  unfold SV.setBuf; cases s.heap <;> rfl

theorem rep_put_same {c : Cfg α} {s : SV α} {els : List (Slot α)} (hr : Rep c s els)
    (b els' tl' : List (Slot α)) (hb : b = els' ++ tl') (hlen : b.length = s.buf.length)
    (hl : c.trivial = false → NoRaw els') (ht : TailOK c s.isLocal tl') (hn : els'.length = s.size) :
    Rep c (s.setBuf b) els' := by
  have := rep_put hr b els' tl' s.size hb hlen hl ht hn
  rwa [setBuf_size_same] at this

/-! ### free_heap_memory, grow, reserve -/

theorem freeHeap_ok (c : Cfg α) (els tl : List (Slot α)) (n : Nat) (hn : n = els.length)
    (hl : c.trivial = false → NoRaw els) (ht : c.trivial = false → AllRaw tl) :
    freeHeap c (els ++ tl) n = .ok () := by
  unfold freeHeap
  cases htv : c.trivial with
  | true => simp
  | false =>
    have := destroyRange_ok (buf := els ++ tl) (pos := 0) (n := n) [] els tl (by simp) (by simp) hn (hl htv)
    simp only [Bool.false_eq_true, if_false, this]
    have hr : AllRaw ([] ++ List.replicate n Slot.raw ++ tl) :=
      AllRaw.append (AllRaw.append AllRaw.nil (allRaw_replicate n)) (ht htv)
    rw [any_notRaw_false hr]; rfl

theorem Rep.freeHeap_ok {c : Cfg α} {s : SV α} {els : List (Slot α)} (h : Rep c s els) (b : List (Slot α))
    (hh : s.heap = some b) : freeHeap c b s.size = .ok () := by
  obtain ⟨tl, hb, ht⟩ := h.tail
  have hbuf : s.buf = b := by simp [SV.buf, hh]
  have hloc : s.isLocal = false := by simp [SV.isLocal, hh]
  rw [hbuf] at hb; subst hb
  exact Vita.C20.freeHeap_ok c els tl s.size h.size_eq.symm h.els_live (fun htv => by simpa [hloc] using ht htv)

theorem grow_spec {c : Cfg α} {s : SV α} {vs : List α} (h : Abs c s vs) (n : Nat) (hn : s.size ≤ n)
    (hS : c.S ≤ n) :
    ∃ s', grow c s n = .ok s' ∧ Abs c s' vs ∧ s'.heap.isSome = true ∧ s'.buf.length = n := by
  obtain ⟨tl, hb, ht⟩ := h.tail
  have hsz : vs.length = s.size := by simpa using h.size_eq
  have hmove := moveOutRange_ok (buf := s.buf) (pos := 0) (n := s.size) c.trivial [] vs tl
    (by simpa using hb) rfl hsz.symm
  have hrep : List.replicate n (Slot.raw : Slot α) =
      [] ++ List.replicate vs.length Slot.raw ++ List.replicate (n - vs.length) Slot.raw := by
    rw [List.nil_append, List.replicate_append_replicate]; congr 1; omega
  have hcons := constructRange_ok (buf := List.replicate n (Slot.raw : Slot α)) (pos := 0) c.trivial []
    (List.replicate vs.length Slot.raw) (List.replicate (n - vs.length) Slot.raw) vs hrep rfl (by simp)
    (fun _ => allRaw_replicate _)
  cases hh : s.heap with
  | none =>
    refine ⟨{ loc := [] ++ mv c.trivial vs ++ tl, heap := some ([] ++ vs.map Slot.alive ++ List.replicate (n - vs.length) Slot.raw),
              size := s.size }, ?_, ?_, rfl, ?_⟩
    · simp only [grow, hmove, hcons, hh, bind, Except.bind, pure, Except.pure]
    · have hloc : s.isLocal = true := by simp [SV.isLocal, hh]
      have hbuf : s.buf = s.loc := by simp [SV.buf, hh]
      refine ⟨?_, ?_, h.size_eq, h.els_live, ⟨List.replicate (n - vs.length) Slot.raw, by simp [SV.buf], ?_⟩, ?_⟩
      · have := h.loc_len; rw [← hbuf, hb] at this
        simpa [mv_length] using this
      · intro htv
        have := ht htv; rw [hloc] at this
        exact NoRaw.append (NoRaw.append NoRaw.nil (mv_noRaw _ _)) (by simpa using this)
      · intro _; simp [SV.isLocal]; exact allRaw_replicate _
      · simp [SV.cap]; omega
    · simp [SV.buf]; omega
  | some b0 =>
    have hfree := h.freeHeap_ok b0 hh
    have hbuf : s.buf = b0 := by simp [SV.buf, hh]
    have hloc : s.isLocal = false := by simp [SV.isLocal, hh]
    -- the old block after the move still frees cleanly
    have hfree' : freeHeap c ([] ++ mv c.trivial vs ++ tl) s.size = .ok () := by
      have := freeHeap_ok c (mv c.trivial vs) tl s.size (by simp [mv_length, hsz]) (fun _ => mv_noRaw _ _)
        (fun htv => by simpa [hloc] using ht htv)
      simpa using this
    refine ⟨{ loc := s.loc, heap := some ([] ++ vs.map Slot.alive ++ List.replicate (n - vs.length) Slot.raw),
              size := s.size }, ?_, ?_, rfl, ?_⟩
    · simp only [grow, hmove, hcons, hh, hfree', bind, Except.bind, pure, Except.pure]
    · refine ⟨h.loc_len, h.loc_live, h.size_eq, h.els_live,
        ⟨List.replicate (n - vs.length) Slot.raw, by simp [SV.buf], ?_⟩, by simp [SV.cap]; omega⟩
      intro _; simp [SV.isLocal]; exact allRaw_replicate _
    · simp [SV.buf]; omega

theorem reserve_spec {c : Cfg α} {s : SV α} {vs : List α} (h : Abs c s vs) (n : Nat) :
    ∃ s', reserve c s n = .ok s' ∧ Abs c s' vs ∧ n ≤ s'.buf.length ∧ s.buf.length ≤ s'.buf.length := by
  unfold reserve
  by_cases hc : s.cap c < n
  · have hle : s.size ≤ n := Nat.le_of_lt (Nat.lt_of_le_of_lt h.size_le_cap hc)
    obtain ⟨s', h1, h2, _, h4⟩ := grow_spec h n hle (by have := h.cap_ge; omega)
    refine ⟨s', by simp [hc, h1], h2, by omega, ?_⟩
    rw [← h.cap, h4]; omega
  · refine ⟨s, by simp [hc]; rfl, h, ?_, Nat.le_refl _⟩
    rw [← h.cap]; omega

/-! ### push_back, emplace_back, clear, append -/

/-- the value denoted by the argument of push_back / emplace_back -/
def srcVal (vs : List α) : Src α → Option α
  | .val v => some v
  | .self i => vs[i]?

theorem split_at {vs : List α} {i : Nat} {v : α} (h : vs[i]? = some v) :
    vs = vs.take i ++ [v] ++ vs.drop (i + 1) ∧ i < vs.length := by
  obtain ⟨hi, hv⟩ := List.getElem?_eq_some_iff.1 h
  refine ⟨?_, hi⟩
  have h1 := (List.take_append_drop i vs).symm
  have h2 := List.drop_eq_getElem_cons hi
  rw [h2, hv] at h1
  simpa [List.append_assoc] using h1

theorem readAt_ok {c : Cfg α} {s : SV α} {vs : List α} (h : Abs c s vs) (i : Nat) (v : α)
    (hv : vs[i]? = some v) : readRange s.buf i 1 = .ok [v] := by
  obtain ⟨tl, hb, _⟩ := h.tail
  obtain ⟨hsplit, hi⟩ := split_at hv
  refine readRange_ok ((vs.take i).map Slot.alive) [v] ((vs.drop (i + 1)).map Slot.alive ++ tl) ?_ ?_ rfl
  · rw [hb]; conv => lhs; rw [hsplit]
    simp [List.append_assoc]
  · simp; omega

theorem readSrc_ok {c : Cfg α} {s : SV α} {vs : List α} (h : Abs c s vs) (x : Src α) (v : α)
    (hx : srcVal vs x = some v) : readSrc s x = .ok v := by
  cases x with
  | val w => simp [srcVal] at hx; subst hx; rfl
  | self i =>
    simp only [srcVal] at hx
    have hi := (split_at hx).2
    have hsz : vs.length = s.size := by simpa using h.size_eq
    have : ¬ s.size ≤ i := by omega
    simp only [readSrc, this, if_false, readAt_ok h i v hx]

/-- writing `xs` behind the last element when the capacity suffices -/
theorem put_at_end {c : Cfg α} {s : SV α} {vs : List α} (h : Abs c s vs) (xs : List α)
    (hcap : s.size + xs.length ≤ s.buf.length) :
    ∃ b, putRange c s.isLocal s.buf s.size xs = .ok b ∧
      Abs c { s.setBuf b with size := s.size + xs.length } (vs ++ xs) := by
  obtain ⟨tl, hb, ht⟩ := h.tail
  have hsz : vs.length = s.size := by simpa using h.size_eq
  have htl : xs.length ≤ tl.length := by
    have := congrArg List.length hb; simp at this; omega
  have hsplit : tl = tl.take xs.length ++ tl.drop xs.length := (List.take_append_drop _ _).symm
  have ht1 : TailOK c s.isLocal (tl.take xs.length) := by rw [hsplit] at ht; exact ht.left
  have ht2 : TailOK c s.isLocal (tl.drop xs.length) := by rw [hsplit] at ht; exact ht.right
  have hput := putRange_ok (buf := s.buf) (pos := s.size) c s.isLocal (vs.map Slot.alive) (tl.take xs.length)
    (tl.drop xs.length) xs (by rw [hb, List.append_assoc, ← hsplit]) (by simp [hsz])
    (by simp; omega) ht1
  refine ⟨_, hput, ?_⟩
  refine rep_put h _ ((vs ++ xs).map Slot.alive) (tl.drop xs.length) _ (by simp) ?_ (fun _ => noRaw_map_alive _) ht2
    (by simp [hsz])
  rw [hb]; simp; omega

theorem pushBack_spec {c : Cfg α} (hg : ∀ n, n < c.growth n) {s : SV α} {vs : List α} (h : Abs c s vs)
    (x : Src α) (v : α) (hx : srcVal vs x = some v) :
    ∃ s', pushBack c s x = .ok s' ∧ Abs c s' (vs ++ [v]) := by
  have hread := readSrc_ok h x v hx
  by_cases hc : s.size = s.cap c
  · obtain ⟨s1, hg1, ha1, hh1, hl1⟩ := grow_spec h (c.growth s.size) (Nat.le_of_lt (hg _))
      (by have := h.cap_ge; have := hg s.size; omega)
    have hsz1 : s1.size = s.size := by
      have a := ha1.size_eq; have b := h.size_eq; omega
    have hloc1 : s1.isLocal = false := by
      unfold SV.isLocal; cases hq : s1.heap <;> simp_all
    obtain ⟨b, hput, habs⟩ := put_at_end ha1 [v] (by have := hg s.size; simp; omega)
    rw [hloc1] at hput
    simp only [putRange, Bool.false_eq_true, if_false] at hput
    refine ⟨_, ?_, habs⟩
    unfold pushBack
    rw [if_pos hc]
    simp only [hread, hg1, hput, bind, Except.bind, pure, Except.pure]
    rfl
  · have hlt : s.size + 1 ≤ s.buf.length := by
      have := h.size_le_cap; rw [← h.cap]; omega
    obtain ⟨b, hput, habs⟩ := put_at_end h [v] (by simpa using hlt)
    refine ⟨_, ?_, habs⟩
    unfold pushBack
    rw [if_neg hc]
    simp only [hread, hput, bind, Except.bind, pure, Except.pure]
    rfl

theorem emplaceBack_eq (c : Cfg α) (s : SV α) (x : Src α) : emplaceBack c s x = pushBack c s x := rfl

theorem clear_spec {c : Cfg α} {s : SV α} (h : WF c s) : ∃ s', clear c s = .ok s' ∧ Abs c s' [] := by
  obtain ⟨els, hr⟩ := h
  cases hh : s.heap with
  | some b =>
    refine ⟨{ loc := s.loc, heap := none, size := 0 }, ?_, ?_⟩
    · simp only [clear, hh, hr.freeHeap_ok b hh, bind, Except.bind, pure, Except.pure]
    · exact ⟨hr.loc_len, hr.loc_live, rfl, fun _ => NoRaw.nil,
        ⟨s.loc, by simp [SV.buf], fun htv => by simpa [SV.isLocal] using hr.loc_live htv⟩, by simp [SV.cap]⟩
  | none =>
    refine ⟨{ s with size := 0 }, by simp [clear, hh]; rfl, ?_⟩
    exact ⟨hr.loc_len, hr.loc_live, rfl, fun _ => NoRaw.nil,
      ⟨s.loc, by simp [SV.buf, hh], fun htv => by simpa [SV.isLocal, hh] using hr.loc_live htv⟩,
      by simp [SV.cap, hh]⟩

theorem append_spec {c : Cfg α} {s : SV α} {vs : List α} (h : Abs c s vs) (xs : List α) :
    ∃ s', append c s xs = .ok s' ∧ Abs c s' (vs ++ xs) := by
  obtain ⟨s1, hr1, ha1, hcap1, _⟩ := reserve_spec h (s.size + xs.length)
  have hsz1 : s1.size = s.size := by
    have a := ha1.size_eq; have b := h.size_eq; omega
  obtain ⟨b, hput, habs⟩ := put_at_end ha1 xs (by omega)
  refine ⟨_, ?_, habs⟩
  simp only [append, hr1, hput, bind, Except.bind, pure, Except.pure]

/-! ### insert -/

theorem split3 (vs : List α) (pos n : Nat) (h : pos + n ≤ vs.length) :
    ∃ A B C, vs = A ++ B ++ C ∧ A.length = pos ∧ C.length = n := by
  refine ⟨vs.take pos, (vs.drop pos).take (vs.length - pos - n), (vs.drop pos).drop (vs.length - pos - n), ?_, ?_, ?_⟩
  · rw [List.append_assoc, List.take_append_drop, List.take_append_drop]
  · simp; omega
  · simp; omega

theorem split2 {β : Type} (l : List β) (n : Nat) (h : n ≤ l.length) :
    ∃ A B, l = A ++ B ∧ A.length = n :=
  ⟨l.take n, l.drop n, (List.take_append_drop _ _).symm, by simp; omega⟩

theorem insert_spec {c : Cfg α} {s : SV α} {vs : List α} (h : Abs c s vs) (pos : Nat) (xs : List α)
    (hp : pos ≤ vs.length) :
    ∃ s', insert c s pos xs = .ok s' ∧ Abs c s' (vs.take pos ++ xs ++ vs.drop pos) := by
  have hsz : vs.length = s.size := by simpa using h.size_eq
  have hnp : ¬ s.size < pos := by omega
  by_cases hend : pos = s.size
  · obtain ⟨s', h1, h2⟩ := append_spec h xs
    refine ⟨s', ?_, ?_⟩
    · simp only [insert, hend, Nat.lt_irrefl, if_true, if_false, h1, bind, Except.bind, pure, Except.pure]
    · have : pos = vs.length := by omega
      subst this; simpa using h2
  by_cases hx : xs.length = 0
  · refine ⟨s, ?_, ?_⟩
    · simp only [insert, hnp, hend, hx, if_true, if_false, bind, Except.bind, pure, Except.pure]
    · have : xs = [] := List.length_eq_zero_iff.1 hx
      subst this; simpa using h
  obtain ⟨s1, hr1, ha1, hcap1, _⟩ := reserve_spec h (s.size + xs.length)
  have hsz1 : s1.size = vs.length := by have a := ha1.size_eq; simpa using a.symm
  obtain ⟨tl, hb, ht⟩ := ha1.tail
  have htl : xs.length ≤ tl.length := by
    have := congrArg List.length hb; simp at this; omega
  obtain ⟨T1, T2, htl2, hT1⟩ := split2 tl xs.length htl
  subst htl2
  have ht1 : TailOK c s1.isLocal T1 := ht.left
  have ht2 : TailOK c s1.isLocal T2 := ht.right
  by_cases hcase : pos + xs.length ≤ s1.size
  · -- enough elements after the insertion point: shift the tail, overwrite
    obtain ⟨A, B, C, hvs, hA, hC⟩ := split3 vs pos xs.length (by omega)
    subst hvs
    simp only [List.map_append] at hb
    have e1 : s1.size - xs.length = (A.map Slot.alive ++ B.map Slot.alive).length := by
      simp at hsz1 ⊢; omega
    have m1 := moveOutRange_ok (buf := s1.buf) (pos := s1.size - xs.length) (n := xs.length) c.trivial
      (A.map Slot.alive ++ B.map Slot.alive) C (T1 ++ T2) (by rw [hb]) e1 hC.symm
    have e2 : s1.size = (A.map Slot.alive ++ B.map Slot.alive ++ mv c.trivial C).length := by
      simp [mv_length] at hsz1 ⊢; omega
    have m2 := putRange_ok (buf := A.map Slot.alive ++ B.map Slot.alive ++ mv c.trivial C ++ (T1 ++ T2))
      (pos := s1.size) c s1.isLocal (A.map Slot.alive ++ B.map Slot.alive ++ mv c.trivial C) T1 T2 C
      (by simp only [List.append_assoc]) e2 (by omega) ht1
    have e3 : s1.size - xs.length - pos = B.length := by simp at hsz1; omega
    have m3 := moveOutRange_ok
      (buf := A.map Slot.alive ++ B.map Slot.alive ++ mv c.trivial C ++ C.map Slot.alive ++ T2)
      (pos := pos) (n := s1.size - xs.length - pos) c.trivial (A.map Slot.alive) B
      (mv c.trivial C ++ C.map Slot.alive ++ T2) (by simp only [List.append_assoc]) (by simp [hA]) e3
    -- the region [pos, pos + |B| + n) now holds moved-from / copied objects: split it at n
    have hY : xs.length ≤ (mv c.trivial B ++ mv c.trivial C).length := by simp [mv_length]; omega
    obtain ⟨Y1, Y2, hYs, hY1⟩ := split2 (mv c.trivial B ++ mv c.trivial C) xs.length hY
    have hYlive : NoRaw (Y1 ++ Y2) := hYs ▸ NoRaw.append (mv_noRaw _ _) (mv_noRaw _ _)
    have hY2 : Y2.length = B.length := by
      have := congrArg List.length hYs; simp [mv_length] at this; omega
    have hbuf3 : A.map Slot.alive ++ mv c.trivial B ++ (mv c.trivial C ++ C.map Slot.alive ++ T2) =
        (A.map Slot.alive ++ Y1) ++ Y2 ++ (C.map Slot.alive ++ T2) := by
      calc A.map Slot.alive ++ mv c.trivial B ++ (mv c.trivial C ++ C.map Slot.alive ++ T2)
          = A.map Slot.alive ++ ((mv c.trivial B ++ mv c.trivial C) ++ (C.map Slot.alive ++ T2)) := by
            simp only [List.append_assoc]
        _ = A.map Slot.alive ++ ((Y1 ++ Y2) ++ (C.map Slot.alive ++ T2)) := by rw [hYs]
        _ = _ := by simp only [List.append_assoc]
    have m4 := assignRange_ok (buf := A.map Slot.alive ++ mv c.trivial B ++ (mv c.trivial C ++ C.map Slot.alive ++ T2))
      (pos := pos + xs.length) c.trivial (A.map Slot.alive ++ Y1) Y2 (C.map Slot.alive ++ T2) B hbuf3
      (by simp [hA, hY1]) hY2 (fun _ => hYlive.right)
    have m5 := assignRange_ok (buf := A.map Slot.alive ++ Y1 ++ B.map Slot.alive ++ (C.map Slot.alive ++ T2))
      (pos := pos) c.trivial (A.map Slot.alive) Y1 (B.map Slot.alive ++ (C.map Slot.alive ++ T2)) xs
      (by simp only [List.append_assoc]) (by simp [hA]) hY1 (fun _ => hYlive.left)
    refine ⟨{ s1.setBuf (A.map Slot.alive ++ xs.map Slot.alive ++
        (B.map Slot.alive ++ (C.map Slot.alive ++ T2))) with size := s1.size + xs.length }, ?_, ?_⟩
    · unfold insert
      simp only [hnp, hend, hx, if_false, hr1, hcase, if_true, m1, m2, m3, m4, m5, bind, Except.bind, pure,
        Except.pure]
    · have hspec : (A ++ B ++ C).take pos ++ xs ++ (A ++ B ++ C).drop pos = A ++ xs ++ (B ++ C) := by
        subst hA; simp [List.take_append, List.drop_append]
      rw [hspec]
      refine rep_put ha1 _ ((A ++ xs ++ (B ++ C)).map Slot.alive) T2 _ (by simp [List.append_assoc]) ?_
        (fun _ => noRaw_map_alive _) ht2 (by simp at hsz1 ⊢; omega)
      rw [hb]; simp; omega
  · -- more elements inserted than follow the insertion point
    obtain ⟨A, B, hvs, hA⟩ := split2 vs pos hp
    subst hvs
    simp only [List.map_append] at hb
    have hBlen : B.length < xs.length := by simp at hsz1; omega
    have hBpos : s1.size - pos = B.length := by simp at hsz1; omega
    obtain ⟨T1a, T1b, hT1s, hT1a⟩ := split2 T1 (xs.length - B.length) (by omega)
    subst hT1s
    have hT1b : T1b.length = B.length := by simp at hT1; omega
    have m1 := moveOutRange_ok (buf := s1.buf) (pos := pos) (n := s1.size - pos) c.trivial (A.map Slot.alive) B
      (T1a ++ T1b ++ T2) (by rw [hb]) (by simp [hA]) hBpos
    have m2 := putRange_ok (buf := A.map Slot.alive ++ mv c.trivial B ++ (T1a ++ T1b ++ T2))
      (pos := pos + xs.length) c s1.isLocal (A.map Slot.alive ++ mv c.trivial B ++ T1a) T1b T2 B
      (by simp only [List.append_assoc]) (by simp [hA, mv_length, hT1a]; omega) hT1b ht1.right
    have m3 := assignRange_ok (buf := A.map Slot.alive ++ mv c.trivial B ++ T1a ++ B.map Slot.alive ++ T2)
      (pos := pos) c.trivial (A.map Slot.alive) (mv c.trivial B) (T1a ++ B.map Slot.alive ++ T2) (xs.take (s1.size - pos))
      (by simp only [List.append_assoc]) (by simp [hA]) (by simp [mv_length]; omega) (fun _ => mv_noRaw _ _)
    have m4 := putRange_ok
      (buf := A.map Slot.alive ++ (xs.take (s1.size - pos)).map Slot.alive ++ (T1a ++ B.map Slot.alive ++ T2))
      (pos := s1.size) c s1.isLocal (A.map Slot.alive ++ (xs.take (s1.size - pos)).map Slot.alive) T1a
      (B.map Slot.alive ++ T2) (xs.drop (s1.size - pos)) (by simp only [List.append_assoc])
      (by simp [hA] at hsz1 ⊢; omega) (by simp; omega) ht1.left
    refine ⟨{ s1.setBuf (A.map Slot.alive ++ (xs.take (s1.size - pos)).map Slot.alive ++
        (xs.drop (s1.size - pos)).map Slot.alive ++ (B.map Slot.alive ++ T2)) with size := s1.size + xs.length },
        ?_, ?_⟩
    · unfold insert
      simp only [hnp, hend, hx, if_false, hr1, hcase, m1, m2, m3, m4, bind, Except.bind, pure, Except.pure]
    · have hspec : (A ++ B).take pos ++ xs ++ (A ++ B).drop pos = A ++ xs ++ B := by
        subst hA; simp [List.take_append, List.drop_append]
      rw [hspec]
      refine rep_put ha1 _ ((A ++ xs ++ B).map Slot.alive) T2 _ ?_ ?_
        (fun _ => noRaw_map_alive _) ht2 (by simp at hsz1 ⊢; omega)
      · simp only [List.map_append, List.append_assoc]
        rw [← List.append_assoc ((xs.take _).map _), ← List.map_append, List.take_append_drop]
      · rw [hb]; simp at hT1 ⊢; omega

/-! ### resize -/

theorem resize_spec {c : Cfg α} {s : SV α} {vs : List α} (h : Abs c s vs) (n : Nat) :
    ∃ s', resize c s n = .ok s' ∧ Abs c s' (vs.take n ++ List.replicate (n - vs.length) c.dflt) := by
  have hsz : vs.length = s.size := by simpa using h.size_eq
  by_cases hc : n ≤ s.cap c
  · obtain ⟨tl, hb, ht⟩ := h.tail
    have hbl : s.buf.length = s.cap c := h.cap.symm
    by_cases hgrow : s.size < n
    · -- new elements inside the capacity
      have htl : n - s.size ≤ tl.length := by
        have := congrArg List.length hb; simp at this; omega
      obtain ⟨T1, T2, hts, hT1⟩ := split2 tl (n - s.size) htl
      subst hts
      have hspec : vs.take n ++ List.replicate (n - vs.length) c.dflt =
          vs ++ List.replicate (n - s.size) c.dflt := by
        rw [List.take_of_length_le (by omega), hsz]
      rw [hspec]
      cases hh : s.heap with
      | none =>
        have hloc : s.isLocal = true := by simp [SV.isLocal, hh]
        have hbuf : s.buf = s.loc := by simp [SV.buf, hh]
        have m := assignRange_ok (buf := s.loc) (pos := s.size) c.trivial (vs.map Slot.alive) T1 T2
          (List.replicate (n - s.size) c.dflt) (by rw [← hbuf, hb, List.append_assoc]) (by simp [hsz]) (by simpa using hT1)
          (fun htv => by have := ht.left htv; simpa [hloc] using this)
        refine ⟨{ s with loc := vs.map Slot.alive ++ (List.replicate (n - s.size) c.dflt).map Slot.alive ++ T2,
                         size := n }, ?_, ?_⟩
        · unfold resize
          simp only [hc, if_true, hh, hgrow, m, bind, Except.bind, pure, Except.pure]
        · have := rep_put h (vs.map Slot.alive ++ (List.replicate (n - s.size) c.dflt).map Slot.alive ++ T2)
            ((vs ++ List.replicate (n - s.size) c.dflt).map Slot.alive) T2 n (by simp) (by rw [hb]; simp; omega)
            (fun _ => noRaw_map_alive _) ht.right (by simp; omega)
          unfold Abs
          simpa [SV.setBuf, hh] using this
      | some hb0 =>
        have hloc : s.isLocal = false := by simp [SV.isLocal, hh]
        have hbuf : s.buf = hb0 := by simp [SV.buf, hh]
        have hres : Abs c { s with heap := some (vs.map Slot.alive ++
            (List.replicate (n - s.size) c.dflt).map Slot.alive ++ T2), size := n }
            (vs ++ List.replicate (n - s.size) c.dflt) := by
          have := rep_put h (vs.map Slot.alive ++ (List.replicate (n - s.size) c.dflt).map Slot.alive ++ T2)
            ((vs ++ List.replicate (n - s.size) c.dflt).map Slot.alive) T2 n (by simp) (by rw [hb]; simp; omega)
            (fun _ => noRaw_map_alive _) ht.right (by simp; omega)
          unfold Abs
          simpa [SV.setBuf, hh] using this
        refine ⟨_, ?_, hres⟩
        cases htv : c.trivial with
        | true =>
          have m := assignRange_ok (buf := hb0) (pos := s.size) true (vs.map Slot.alive) T1 T2
            (List.replicate (n - s.size) c.dflt) (by rw [← hbuf, hb, List.append_assoc]) (by simp [hsz])
            (by simpa using hT1) (fun hf => by cases hf)
          unfold resize
          simp only [hc, if_true, hh, hgrow, htv, m, bind, Except.bind, pure, Except.pure]
        | false =>
          have m := constructRange_ok (buf := hb0) (pos := s.size) false (vs.map Slot.alive) T1 T2
            (List.replicate (n - s.size) c.dflt) (by rw [← hbuf, hb, List.append_assoc]) (by simp [hsz])
            (by simpa using hT1) (fun _ => by have := ht.left htv; simpa [hloc] using this)
          have hn : ¬ n < s.size := by omega
          unfold resize
          simp only [hc, if_true, hh, hgrow, htv, hn, m, bind, Except.bind, pure, Except.pure, Bool.false_eq_true,
            if_false]
    · -- shrink (or same size)
      have hn : n ≤ vs.length := by omega
      obtain ⟨A, B, hvs, hA⟩ := split2 vs n hn
      subst hvs
      have hspec : (A ++ B).take n ++ List.replicate (n - (A ++ B).length) c.dflt = A := by
        subst hA; simp
      rw [hspec]
      simp only [List.map_append] at hb
      cases hh : s.heap with
      | none =>
        have hloc : s.isLocal = true := by simp [SV.isLocal, hh]
        have hbuf : s.buf = s.loc := by simp [SV.buf, hh]
        refine ⟨{ s with loc := s.loc, size := n }, ?_, ?_⟩
        · unfold resize
          simp only [hc, if_true, hh, hgrow, if_false, bind, Except.bind, pure, Except.pure]
        · refine ⟨h.loc_len, h.loc_live, by simp [hA], fun _ => noRaw_map_alive _,
            ⟨B.map Slot.alive ++ tl, ?_, ?_⟩, by simp [SV.cap, hh]⟩
          · simp only [SV.buf, hh]; rw [← hbuf, hb, List.append_assoc]
          · intro htv; simp only [SV.isLocal, hh]; simp
            have := ht htv; rw [hloc] at this
            exact NoRaw.append (noRaw_map_alive _) (by simpa using this)
      | some hb0 =>
        have hloc : s.isLocal = false := by simp [SV.isLocal, hh]
        have hbuf : s.buf = hb0 := by simp [SV.buf, hh]
        cases htv : c.trivial with
        | true =>
          refine ⟨{ s with heap := some hb0, size := n }, ?_, ?_⟩
          · unfold resize
            simp only [hc, if_true, hh, hgrow, htv, if_false, bind, Except.bind, pure, Except.pure]
          · refine ⟨h.loc_len, h.loc_live, by simp [hA], fun _ => noRaw_map_alive _,
              ⟨B.map Slot.alive ++ tl, ?_, fun hf => by rw [htv] at hf; cases hf⟩,
              by have := h.cap_ge; simpa [SV.cap, hh] using this⟩
            simp only [SV.buf]; rw [← hbuf, hb, List.append_assoc]
        | false =>
          by_cases hlt : n < s.size
          · have m := destroyRange_ok (buf := hb0) (pos := n) (n := s.size - n) (A.map Slot.alive) (B.map Slot.alive) tl
              (by rw [← hbuf, hb]) (by simp [hA]) (by simp at hsz ⊢; omega) (noRaw_map_alive _)
            refine ⟨{ s with heap := some (A.map Slot.alive ++ List.replicate (s.size - n) Slot.raw ++ tl), size := n },
              ?_, ?_⟩
            · unfold resize
              simp only [hc, if_true, hh, hgrow, htv, hlt, m, if_false, bind, Except.bind, pure, Except.pure,
                Bool.false_eq_true]
            · refine ⟨h.loc_len, h.loc_live, by simp [hA], fun _ => noRaw_map_alive _,
                ⟨List.replicate (s.size - n) Slot.raw ++ tl, by simp [SV.buf], ?_⟩, ?_⟩
              · intro _; simp only [SV.isLocal]; simp
                have := ht htv; rw [hloc] at this
                exact AllRaw.append (allRaw_replicate _) (by simpa using this)
              · have hcg := h.cap_ge
                have hl := congrArg List.length hb
                simp [SV.cap, hh, hbuf] at hcg hl hsz ⊢
                omega
          · have hB : B = [] := by
              have : B.length = 0 := by simp at hsz; omega
              exact List.length_eq_zero_iff.1 this
            subst hB
            have m := constructRange_ok (buf := hb0) (pos := s.size) false (A.map Slot.alive) [] tl
              (List.replicate (n - s.size) c.dflt) (by rw [← hbuf, hb]; simp) (by simp at hsz ⊢; omega)
              (by simp; omega) (fun _ => AllRaw.nil)
            have hz : n - s.size = 0 := by omega
            refine ⟨{ s with heap := some (A.map Slot.alive ++ ([] : List α).map Slot.alive ++ tl), size := n }, ?_, ?_⟩
            · unfold resize
              simp only [hz, List.replicate_zero] at m
              simp only [hc, if_true, hh, hgrow, htv, hlt, hz, m, List.replicate_zero, if_false, bind, Except.bind,
                pure, Except.pure, Bool.false_eq_true]
            · refine ⟨h.loc_len, h.loc_live, by simp [hA], fun _ => noRaw_map_alive _,
                ⟨tl, by simp [SV.buf], ?_⟩, ?_⟩
              · intro hf; simp only [SV.isLocal]; simp
                have := ht hf; rw [hloc] at this; simpa using this
              · have hcg := h.cap_ge
                have hl := congrArg List.length hb
                simp [SV.cap, hh, hbuf] at hcg hl hsz ⊢
                omega
  · -- beyond the capacity: grow, then construct the new elements
    have hle : s.size ≤ n := by have := h.size_le_cap; omega
    obtain ⟨s1, hg1, ha1, hh1, hl1⟩ := grow_spec h n hle (by have := h.cap_ge; omega)
    have hsz1 : s1.size = s.size := by
      have a := ha1.size_eq; have b := h.size_eq; omega
    have hloc1 : s1.isLocal = false := by
      unfold SV.isLocal; cases hq : s1.heap <;> simp_all
    obtain ⟨b, hput, habs⟩ := put_at_end ha1 (List.replicate (n - s1.size) c.dflt) (by simp; omega)
    rw [hloc1] at hput
    simp only [putRange, Bool.false_eq_true, if_false] at hput
    have hspec : vs.take n ++ List.replicate (n - vs.length) c.dflt =
        vs ++ List.replicate (n - s1.size) c.dflt := by
      rw [List.take_of_length_le (by omega), hsz, hsz1]
    rw [hspec]
    have hn : s1.size + (List.replicate (n - s1.size) c.dflt).length = n := by simp; omega
    rw [hn] at habs
    refine ⟨_, ?_, habs⟩
    unfold resize
    simp only [hc, if_false, hg1, hput, bind, Except.bind, pure, Except.pure]

/-! ### constructors, destructor, element access -/

theorem freshLoc_noRaw (c : Cfg α) (h : c.trivial = false) : NoRaw (freshLoc c) := by
  unfold freshLoc; rw [h]; exact noRaw_replicate_alive _ _

theorem freshLoc_length (c : Cfg α) : (freshLoc c).length = c.S := by simp [freshLoc]

theorem build_spec (c : Cfg α) (vals : List α) : ∃ s', build c vals = .ok s' ∧ Abs c s' vals := by
  by_cases hn : vals.length ≤ c.S
  · have hsplit : freshLoc c = [] ++ List.replicate vals.length (if c.trivial then Slot.raw else Slot.alive c.dflt)
        ++ List.replicate (c.S - vals.length) (if c.trivial then Slot.raw else Slot.alive c.dflt) := by
      rw [List.nil_append, List.replicate_append_replicate]; unfold freshLoc; congr 1; omega
    have hlive : c.trivial = false → NoRaw (List.replicate (c.S - vals.length)
        (if c.trivial then (Slot.raw : Slot α) else Slot.alive c.dflt)) := by
      intro ht; rw [ht]; exact noRaw_replicate_alive _ _
    have m := assignRange_ok (buf := freshLoc c) (pos := 0) c.trivial [] _ _ vals hsplit rfl (by simp)
      (fun ht => by rw [ht]; exact noRaw_replicate_alive _ _)
    refine ⟨?wA, ?h1, ?h2⟩
    case h1 =>
      unfold build
      simp only [hn, if_true, m, bind, Except.bind, pure, Except.pure]
      rfl
    case h2 =>
      refine ⟨by simp; omega, ?_, by simp, fun _ => noRaw_map_alive _, ⟨_, rfl, ?_⟩, by simp [SV.cap]⟩
      · intro ht
        exact NoRaw.append (NoRaw.append NoRaw.nil (noRaw_map_alive _)) (hlive ht)
      · intro ht; simpa [SV.isLocal] using hlive ht
  · have m := constructRange_ok (buf := List.replicate vals.length (Slot.raw : Slot α)) (pos := 0) c.trivial []
      (List.replicate vals.length Slot.raw) [] vals (by simp) rfl (by simp) (fun _ => allRaw_replicate _)
    refine ⟨?wB, ?h3, ?h4⟩
    case h3 =>
      unfold build
      simp only [hn, if_false, m, bind, Except.bind, pure, Except.pure]
      rfl
    case h4 =>
      exact ⟨freshLoc_length c, freshLoc_noRaw c, by simp, fun _ => noRaw_map_alive _,
        ⟨[], by simp [SV.buf], tailOK_nil _ _⟩, by simp [SV.cap]; omega⟩

theorem contents_ok {c : Cfg α} {s : SV α} {vs : List α} (h : Abs c s vs) : contents s = .ok vs := by
  obtain ⟨tl, hb, _⟩ := h.tail
  have hsz : vs.length = s.size := by simpa using h.size_eq
  exact readRange_ok [] vs tl (by simpa using hb) rfl hsz.symm

theorem ctorCopy_spec {c : Cfg α} {src : SV α} {vs : List α} (h : Abs c src vs) :
    ∃ s', ctorCopy c src = .ok s' ∧ Abs c s' vs := by
  obtain ⟨s', h1, h2⟩ := build_spec c vs
  have hr := contents_ok h
  unfold contents at hr
  exact ⟨s', by simp only [ctorCopy, hr, h1, bind, Except.bind], h2⟩

/-- the source of a move keeps `els` that are live objects: it stays well formed -/
theorem moved_from_wf {c : Cfg α} {s : SV α} {vs : List α} (h : Abs c s vs) (tl : List (Slot α))
    (hb : s.buf = vs.map Slot.alive ++ tl) (ht : TailOK c s.isLocal tl) :
    WF c (s.setBuf ([] ++ mv c.trivial vs ++ tl)) := by
  have hsz : vs.length = s.size := by simpa using h.size_eq
  have := rep_put_same h ([] ++ mv c.trivial vs ++ tl) (mv c.trivial vs) tl (by simp)
    (by rw [hb]; simp [mv_length]) (fun _ => mv_noRaw _ _) ht (by simp [mv_length, hsz])
  exact ⟨_, this⟩

theorem heap_of_big {c : Cfg α} {s : SV α} {els : List (Slot α)} (h : Rep c s els) (hn : ¬ s.size ≤ c.S) :
    ∃ hb, s.heap = some hb := by
  cases hh : s.heap with
  | some b => exact ⟨b, rfl⟩
  | none =>
    exfalso
    have := h.size_le_cap
    simp [SV.cap, hh] at this
    omega

theorem ctorMove_spec {c : Cfg α} {src : SV α} {vs : List α} (h : Abs c src vs) :
    ∃ d s', ctorMove c src = .ok (d, s') ∧ Abs c d vs ∧ WF c s' := by
  have hsz : vs.length = src.size := by simpa using h.size_eq
  obtain ⟨tl, hb, ht⟩ := h.tail
  by_cases hn : src.size ≤ c.S
  · have m1 := moveOutRange_ok (buf := src.buf) (pos := 0) (n := src.size) c.trivial [] vs tl
      (by simpa using hb) rfl hsz.symm
    have hsplit : freshLoc c = [] ++ List.replicate vs.length (if c.trivial then Slot.raw else Slot.alive c.dflt)
        ++ List.replicate (c.S - vs.length) (if c.trivial then Slot.raw else Slot.alive c.dflt) := by
      rw [List.nil_append, List.replicate_append_replicate]; unfold freshLoc; congr 1; omega
    have hlive : c.trivial = false → NoRaw (List.replicate (c.S - vs.length)
        (if c.trivial then (Slot.raw : Slot α) else Slot.alive c.dflt)) := by
      intro ht; rw [ht]; exact noRaw_replicate_alive _ _
    have m2 := assignRange_ok (buf := freshLoc c) (pos := 0) c.trivial [] _ _ vs hsplit rfl (by simp)
      (fun ht => by rw [ht]; exact noRaw_replicate_alive _ _)
    refine ⟨?d, _, ?h1, ?h2, moved_from_wf h tl hb ht⟩
    case h1 =>
      unfold ctorMove
      simp only [hn, if_true, m1, m2, bind, Except.bind, pure, Except.pure]
      rfl
    case h2 =>
      refine ⟨by simp; omega, ?_, by simp [hsz], fun _ => noRaw_map_alive _, ⟨_, rfl, ?_⟩, by simp [SV.cap]⟩
      · intro ht
        exact NoRaw.append (NoRaw.append NoRaw.nil (noRaw_map_alive _)) (hlive ht)
      · intro ht; simpa [SV.isLocal] using hlive ht
  · obtain ⟨hb0, hh⟩ := heap_of_big h hn
    have hbuf : src.buf = hb0 := by simp [SV.buf, hh]
    have hloc : src.isLocal = false := by simp [SV.isLocal, hh]
    refine ⟨{ loc := freshLoc c, heap := some hb0, size := src.size },
            { loc := src.loc, heap := none, size := 0 }, ?_, ?_, ?_⟩
    · unfold ctorMove
      simp only [hn, if_false, hh, bind, Except.bind, pure, Except.pure]
    · refine ⟨freshLoc_length c, freshLoc_noRaw c, h.size_eq, h.els_live, ⟨tl, ?_, ?_⟩,
        by have := h.cap_ge; simpa [SV.cap, hh] using this⟩
      · simp only [SV.buf]; rw [← hbuf, hb]
      · rw [hloc] at ht; simpa [SV.isLocal] using ht
    · exact ⟨[], h.loc_len, h.loc_live, rfl, fun _ => NoRaw.nil,
        ⟨src.loc, by simp [SV.buf], fun htv => by simpa [SV.isLocal] using h.loc_live htv⟩, by simp [SV.cap]⟩

theorem dtor_spec {c : Cfg α} {s : SV α} (h : WF c s) : dtor c s = .ok () := by
  obtain ⟨els, hr⟩ := h
  have hl : (!c.trivial && s.loc.any (fun x => x.isRaw)) = false := by
    cases ht : c.trivial with
    | true => rfl
    | false => simp only [Bool.not_false, Bool.true_and]; exact any_isRaw_false (hr.loc_live ht)
  cases hh : s.heap with
  | some b =>
    simp only [dtor, hh, hr.freeHeap_ok b hh, hl, bind, Except.bind, pure, Except.pure]
    rfl
  | none =>
    simp only [dtor, hh, hl, bind, Except.bind, pure, Except.pure]
    rfl

theorem getAt_spec {c : Cfg α} {s : SV α} {vs : List α} (h : Abs c s vs) (i : Nat) (v : α)
    (hv : vs[i]? = some v) : getAt s i = .ok v := by
  have hi := (split_at hv).2
  have hsz : vs.length = s.size := by simpa using h.size_eq
  have : ¬ s.size ≤ i := by omega
  simp only [getAt, this, if_false, readAt_ok h i v hv]

theorem setAt_spec {c : Cfg α} {s : SV α} {vs : List α} (h : Abs c s vs) (i : Nat) (x : α)
    (hi : i < vs.length) : ∃ s', setAt c s i x = .ok s' ∧ Abs c s' (vs.set i x) := by
  have hsz : vs.length = s.size := by simpa using h.size_eq
  obtain ⟨tl, hb, ht⟩ := h.tail
  have hv : vs[i]? = some vs[i] := List.getElem?_eq_getElem hi
  obtain ⟨hsplit, _⟩ := split_at hv
  have hbs : s.buf = (vs.take i).map Slot.alive ++ [Slot.alive vs[i]] ++ ((vs.drop (i + 1)).map Slot.alive ++ tl) := by
    calc s.buf = vs.map Slot.alive ++ tl := hb
      _ = (vs.take i ++ [vs[i]] ++ vs.drop (i + 1)).map Slot.alive ++ tl := by rw [← hsplit]
      _ = _ := by simp only [List.map_append, List.map_cons, List.map_nil, List.append_assoc]
  have m := assignRange_ok (buf := s.buf) (pos := i) c.trivial ((vs.take i).map Slot.alive) [Slot.alive vs[i]]
    ((vs.drop (i + 1)).map Slot.alive ++ tl) [x] hbs (by simp; omega) rfl (fun _ => by intro s hs; simp at hs; subst hs; rfl)
  have hset : vs.set i x = vs.take i ++ [x] ++ vs.drop (i + 1) := by
    rw [List.set_eq_take_append_cons_drop]; simp [hi, List.append_assoc]
  have hne : ¬ s.size ≤ i := by omega
  refine ⟨s.setBuf ((vs.take i).map Slot.alive ++ [x].map Slot.alive ++ ((vs.drop (i + 1)).map Slot.alive ++ tl)), ?_, ?_⟩
  · simp only [setAt, hne, if_false, m]
  · exact rep_put_same h ((vs.take i).map Slot.alive ++ [x].map Slot.alive ++ ((vs.drop (i + 1)).map Slot.alive ++ tl))
      ((vs.set i x).map Slot.alive) tl (by rw [hset]; simp [List.append_assoc]) (by rw [hbs]; simp)
      (fun _ => noRaw_map_alive _) ht (by simp [hsz])

/-! ### assignment -/

theorem assignCopy_spec {c : Cfg α} {dst src : SV α} {vs : List α} (hd : WF c dst) (h : Abs c src vs) :
    ∃ d', assignCopy c dst src = .ok d' ∧ Abs c d' vs := by
  obtain ⟨els, hr⟩ := hd
  have hsz : vs.length = src.size := by simpa using h.size_eq
  have hread := contents_ok h
  unfold contents at hread
  obtain ⟨tl, hb, ht⟩ := hr.tail
  by_cases hc : dst.cap c < src.size
  · -- a new block
    have m := constructRange_ok (buf := List.replicate src.size (Slot.raw : Slot α)) (pos := 0) c.trivial []
      (List.replicate src.size Slot.raw) [] vs (by simp) rfl (by simp [hsz]) (fun _ => allRaw_replicate _)
    have hres : Abs c { loc := dst.loc, heap := some ([] ++ vs.map Slot.alive ++ []), size := src.size } vs :=
      ⟨hr.loc_len, hr.loc_live, by simp [hsz], fun _ => noRaw_map_alive _, ⟨[], by simp [SV.buf], tailOK_nil _ _⟩,
        by have := hr.cap_ge; simp [SV.cap, hsz]; omega⟩
    refine ⟨_, ?_, hres⟩
    cases hh : dst.heap with
    | some b0 =>
      unfold assignCopy
      simp only [hread, hc, if_true, hh, hr.freeHeap_ok b0 hh, m, bind, Except.bind, pure, Except.pure]
    | none =>
      unfold assignCopy
      simp only [hread, hc, if_true, hh, m, bind, Except.bind, pure, Except.pure]
  · have hcap : src.size ≤ dst.buf.length := by rw [← hr.cap]; omega
    cases hh : dst.heap with
    | none =>
      have hloc : dst.isLocal = true := by simp [SV.isLocal, hh]
      have hbuf : dst.buf = dst.loc := by simp [SV.buf, hh]
      obtain ⟨L1, L2, hls, hL1⟩ := split2 dst.loc src.size (by rw [← hbuf]; exact hcap)
      have hlive : c.trivial = false → NoRaw (L1 ++ L2) := fun htv => hls ▸ hr.loc_live htv
      have m := assignRange_ok (buf := dst.loc) (pos := 0) c.trivial [] L1 L2 vs (by simpa using hls) rfl
        (by omega) (fun htv => (hlive htv).left)
      refine ⟨{ dst with loc := [] ++ vs.map Slot.alive ++ L2, size := src.size }, ?_, ?_⟩
      · unfold assignCopy
        simp only [hread, hc, if_false, hh, m, bind, Except.bind, pure, Except.pure]
      · refine ⟨?_, ?_, by simp [hsz], fun _ => noRaw_map_alive _, ⟨L2, by simp [SV.buf, hh], ?_⟩,
          by simp [SV.cap, hh]⟩
        · have := hr.loc_len; rw [hls] at this; simp at this ⊢; omega
        · intro htv; exact NoRaw.append (NoRaw.append NoRaw.nil (noRaw_map_alive _)) (hlive htv).right
        · intro htv; simp only [SV.isLocal, hh]; simpa using (hlive htv).right
    | some hb0 =>
      have hloc : dst.isLocal = false := by simp [SV.isLocal, hh]
      have hbuf : dst.buf = hb0 := by simp [SV.buf, hh]
      cases htv : c.trivial with
      | true =>
        obtain ⟨L1, L2, hls, hL1⟩ := split2 hb0 src.size (by rw [← hbuf]; exact hcap)
        have m := assignRange_ok (buf := hb0) (pos := 0) true [] L1 L2 vs (by simpa using hls) rfl
          (by omega) (fun hf => by cases hf)
        refine ⟨{ dst with heap := some ([] ++ vs.map Slot.alive ++ L2), size := src.size }, ?_, ?_⟩
        · unfold assignCopy
          simp only [hread, hc, if_false, hh, htv, if_true, m, bind, Except.bind, pure, Except.pure]
        · exact ⟨hr.loc_len, hr.loc_live, by simp [hsz], fun _ => noRaw_map_alive _,
            ⟨L2, by simp [SV.buf], fun hf => by rw [htv] at hf; cases hf⟩,
            by have hcg := hr.cap_ge
               have hl := congrArg List.length hls
               simp [SV.cap, hh] at hcg hl ⊢
               omega⟩
      | false =>
        have htl : AllRaw tl := by have := ht htv; rw [hloc] at this; simpa using this
        rw [hbuf] at hb
        by_cases hlt : src.size < dst.size
        · -- shrink: destroy the surplus, assign the rest
          obtain ⟨E1, E2, hes, hE1⟩ := split2 els src.size (by rw [hr.size_eq]; omega)
          subst hes
          have hlive := hr.els_live htv
          have m1 := destroyRange_ok (buf := hb0) (pos := src.size) (n := dst.size - src.size) E1 E2 tl hb
            hE1.symm (by have := hr.size_eq; simp at this; omega) hlive.right
          have m2 := assignRange_ok (buf := E1 ++ List.replicate (dst.size - src.size) Slot.raw ++ tl) (pos := 0)
            false [] E1 (List.replicate (dst.size - src.size) Slot.raw ++ tl) vs (by simp) rfl (by omega)
            (fun _ => hlive.left)
          refine ⟨{ dst with heap := some ([] ++ vs.map Slot.alive ++ (List.replicate (dst.size - src.size) Slot.raw ++ tl)), size := src.size }, ?_, ?_⟩
          · unfold assignCopy
            simp only [hread, hc, if_false, hh, htv, hlt, if_true, m1, m2, bind, Except.bind, pure, Except.pure,
              Bool.false_eq_true]
          · refine ⟨hr.loc_len, hr.loc_live, by simp [hsz], fun _ => noRaw_map_alive _,
              ⟨List.replicate (dst.size - src.size) Slot.raw ++ tl, by simp [SV.buf], ?_⟩, ?_⟩
            · intro _; simp only [SV.isLocal]; simp
              exact AllRaw.append (allRaw_replicate _) htl
            · have hcg := hr.cap_ge
              have hl := congrArg List.length hb
              have hse := hr.size_eq
              simp [SV.cap, hh] at hcg hl hse ⊢
              omega
        · -- assign onto the live prefix, construct the rest on raw memory
          have hels : els.length = dst.size := hr.size_eq
          have htlen : src.size - dst.size ≤ tl.length := by
            have := congrArg List.length hb; simp at this; rw [hbuf] at hcap; omega
          obtain ⟨T1, T2, hts, hT1⟩ := split2 tl (src.size - dst.size) htlen
          subst hts
          have m1 := assignRange_ok (buf := hb0) (pos := 0) false [] els (T1 ++ T2) (vs.take dst.size)
            (by simpa using hb) rfl (by simp; omega) (fun _ => hr.els_live htv)
          have m2 := constructRange_ok (buf := [] ++ (vs.take dst.size).map Slot.alive ++ (T1 ++ T2)) (pos := dst.size)
            false ([] ++ (vs.take dst.size).map Slot.alive) T1 T2 (vs.drop dst.size)
            (by simp only [List.append_assoc]) (by simp; omega) (by simp; omega) (fun _ => htl.left)
          refine ⟨{ dst with heap := some ([] ++ (vs.take dst.size).map Slot.alive ++ (vs.drop dst.size).map Slot.alive ++ T2), size := src.size }, ?_, ?_⟩
          · unfold assignCopy
            simp only [hread, hc, if_false, hh, htv, hlt, m1, m2, bind, Except.bind, pure, Except.pure,
              Bool.false_eq_true]
          · refine ⟨hr.loc_len, hr.loc_live, by simp [hsz], fun _ => noRaw_map_alive _, ⟨T2, ?_, ?_⟩, ?_⟩
            · simp only [SV.buf, List.nil_append]
              rw [← List.map_append, List.take_append_drop]
            · intro _; simp only [SV.isLocal]; simp; exact htl.right
            · have hcg := hr.cap_ge
              have hl := congrArg List.length hb
              simp [SV.cap, hh] at hcg hl ⊢
              omega

theorem assignMove_spec {c : Cfg α} {dst src : SV α} {vs : List α} (hd : WF c dst) (h : Abs c src vs) :
    ∃ d' s', assignMove c dst src = .ok (d', s') ∧ Abs c d' vs ∧ WF c s' := by
  obtain ⟨els, hr⟩ := hd
  have hsz : vs.length = src.size := by simpa using h.size_eq
  obtain ⟨tl, hb, ht⟩ := h.tail
  have hfree : (match dst.heap with
      | some b => freeHeap c b dst.size
      | none => (pure () : M Unit)) = .ok () := by
    cases hh : dst.heap with
    | some b => exact hr.freeHeap_ok b hh
    | none => rfl
  by_cases hn : src.size ≤ c.S
  · have m1 := moveOutRange_ok (buf := src.buf) (pos := 0) (n := src.size) c.trivial [] vs tl
      (by simpa using hb) rfl hsz.symm
    obtain ⟨L1, L2, hls, hL1⟩ := split2 dst.loc src.size (by rw [hr.loc_len]; exact hn)
    have hlive : c.trivial = false → NoRaw (L1 ++ L2) := fun htv => hls ▸ hr.loc_live htv
    have m2 := assignRange_ok (buf := dst.loc) (pos := 0) c.trivial [] L1 L2 vs (by simpa using hls) rfl
      (by omega) (fun htv => (hlive htv).left)
    refine ⟨{ loc := [] ++ vs.map Slot.alive ++ L2, heap := none, size := src.size }, _, ?_, ?_,
      moved_from_wf h tl hb ht⟩
    · unfold assignMove
      cases hh : dst.heap with
      | some b =>
        simp only [hr.freeHeap_ok b hh, hn, if_true, m1, m2, bind, Except.bind, pure, Except.pure]
      | none =>
        simp only [hn, if_true, m1, m2, bind, Except.bind, pure, Except.pure]
    · refine ⟨?_, ?_, by simp [hsz], fun _ => noRaw_map_alive _, ⟨L2, by simp [SV.buf], ?_⟩, by simp [SV.cap]⟩
      · have := hr.loc_len; rw [hls] at this; simp at this ⊢; omega
      · intro htv; exact NoRaw.append (NoRaw.append NoRaw.nil (noRaw_map_alive _)) (hlive htv).right
      · intro htv; simp only [SV.isLocal]; simpa using (hlive htv).right
  · obtain ⟨hb0, hh⟩ := heap_of_big h hn
    have hbuf : src.buf = hb0 := by simp [SV.buf, hh]
    have hloc : src.isLocal = false := by simp [SV.isLocal, hh]
    refine ⟨{ loc := dst.loc, heap := some hb0, size := src.size },
            { loc := src.loc, heap := none, size := 0 }, ?_, ?_, ?_⟩
    · unfold assignMove
      cases hd : dst.heap with
      | some b =>
        simp only [hr.freeHeap_ok b hd, hn, if_false, hh, bind, Except.bind, pure, Except.pure]
      | none =>
        simp only [hn, if_false, hh, bind, Except.bind, pure, Except.pure]
    · refine ⟨hr.loc_len, hr.loc_live, h.size_eq, h.els_live, ⟨tl, ?_, ?_⟩,
        by have := h.cap_ge; simpa [SV.cap, hh] using this⟩
      · simp only [SV.buf]; rw [← hbuf, hb]
      · rw [hloc] at ht; simpa [SV.isLocal] using ht
    · exact ⟨[], h.loc_len, h.loc_live, rfl, fun _ => NoRaw.nil,
        ⟨src.loc, by simp [SV.buf], fun htv => by simpa [SV.isLocal] using h.loc_live htv⟩, by simp [SV.cap]⟩

/-! ### comparison (the two operands may have different inline capacities) -/

theorem svEq_spec {c c' : Cfg α} (eq : α → α → Bool) {a b : SV α} {la lb : List α} (ha : Abs c a la)
    (hb : Abs c' b lb) : svEq eq a b = .ok (vecEq eq la lb) := by
  simp only [svEq, vecEq, contents_ok ha, contents_ok hb, bind, Except.bind, pure, Except.pure]

theorem svLt_spec {c c' : Cfg α} (lt : α → α → Bool) {a b : SV α} {la lb : List α} (ha : Abs c a la)
    (hb : Abs c' b lb) : svLt lt a b = .ok (lexLt lt la lb) := by
  simp only [svLt, contents_ok ha, contents_ok hb, bind, Except.bind, pure, Except.pure]

/-- each of the six operators of small_vector.tcc returns what `std::vector`'s operator returns -/
theorem svCmp_spec {c c' : Cfg α} (eq lt : α → α → Bool) (k : Cmp) {a b : SV α} {la lb : List α}
    (ha : Abs c a la) (hb : Abs c' b lb) : svCmp eq lt k a b = .ok (vecCmp eq lt k la lb) := by
  cases k <;>
    simp only [svCmp, vecCmp, svEq_spec eq ha hb, svLt_spec lt ha hb, svLt_spec lt hb ha, bind, Except.bind,
      pure, Except.pure]

/-! ### element access through front/back/data, iterators -/

theorem frontAt_spec {c : Cfg α} {s : SV α} {vs : List α} (h : Abs c s vs) (v : α) (hv : vs[0]? = some v) :
    frontAt s = .ok v := by
  have hi := (split_at hv).2
  have hsz : vs.length = s.size := by simpa using h.size_eq
  have : ¬ s.size = 0 := by omega
  simp only [frontAt, this, if_false, getAt_spec h 0 v hv]

theorem backAt_spec {c : Cfg α} {s : SV α} {vs : List α} (h : Abs c s vs) (v : α)
    (hv : vs[vs.length - 1]? = some v) : backAt s = .ok v := by
  have hi := (split_at hv).2
  have hsz : vs.length = s.size := by simpa using h.size_eq
  have : ¬ s.size = 0 := by omega
  rw [hsz] at hv
  simp only [backAt, this, if_false, getAt_spec h _ v hv]

theorem setFront_spec {c : Cfg α} {s : SV α} {vs : List α} (h : Abs c s vs) (x : α) (hi : 0 < vs.length) :
    ∃ s', setFront c s x = .ok s' ∧ Abs c s' (vs.set 0 x) := by
  have hsz : vs.length = s.size := by simpa using h.size_eq
  have : ¬ s.size = 0 := by omega
  obtain ⟨s', h1, h2⟩ := setAt_spec h 0 x hi
  exact ⟨s', by simp only [setFront, this, if_false, h1], h2⟩

theorem setBack_spec {c : Cfg α} {s : SV α} {vs : List α} (h : Abs c s vs) (x : α) (hi : 0 < vs.length) :
    ∃ s', setBack c s x = .ok s' ∧ Abs c s' (vs.set (vs.length - 1) x) := by
  have hsz : vs.length = s.size := by simpa using h.size_eq
  have : ¬ s.size = 0 := by omega
  obtain ⟨s', h1, h2⟩ := setAt_spec h (vs.length - 1) x (by omega)
  rw [hsz] at h1
  exact ⟨s', by simp only [setBack, this, if_false, h1], h2⟩

theorem dataAt_spec {c : Cfg α} {s : SV α} {vs : List α} (h : Abs c s vs) (i : Nat) (v : α)
    (hv : vs[i]? = some v) : dataAt s i = .ok v := getAt_spec h i v hv

theorem setData_spec {c : Cfg α} {s : SV α} {vs : List α} (h : Abs c s vs) (i : Nat) (x : α)
    (hi : i < vs.length) : ∃ s', setData c s i x = .ok s' ∧ Abs c s' (vs.set i x) := setAt_spec h i x hi

theorem derefAt_ok (P : List (Slot α)) (v : α) (Q : List (Slot α)) :
    derefAt (P ++ [Slot.alive v] ++ Q) P.length = .ok v := by
  have := readRange_ok (buf := P ++ [Slot.alive v] ++ Q) (pos := P.length) (n := 1) P [v] Q rfl rfl rfl
  simp only [derefAt, this]

/-- a forward traversal from an iterator to `end()` yields the elements in between -/
theorem iterGo_ok (P : List (Slot α)) (vs : List α) (Q : List (Slot α)) (f : Nat) (hf : vs.length ≤ f) :
    iterGo (P ++ vs.map Slot.alive ++ Q) (P.length + vs.length) f P.length = .ok vs := by
  induction vs generalizing P f with
  | nil => cases f <;> simp [iterGo]
  | cons v vs ih =>
    cases f with
    | zero => simp at hf
    | succ f =>
      have hne : ¬ P.length = P.length + (v :: vs).length := by simp
      have hb : P ++ (v :: vs).map Slot.alive ++ Q = (P ++ [Slot.alive v]) ++ vs.map Slot.alive ++ Q := by
        simp [List.append_assoc]
      have hd : derefAt (P ++ (v :: vs).map Slot.alive ++ Q) P.length = .ok v := by
        have := derefAt_ok P v (vs.map Slot.alive ++ Q)
        simpa [List.append_assoc] using this
      have hrec := ih (P ++ [Slot.alive v]) f (by simp at hf; omega)
      have hlen : (P ++ [Slot.alive v]).length = P.length + 1 := by simp
      rw [hlen] at hrec
      have he : P.length + (v :: vs).length = P.length + 1 + vs.length := by simp; omega
      rw [iterGo, if_neg hne, hd, hb, he, hrec]

theorem iterFwd_spec {c : Cfg α} {s : SV α} {vs : List α} (h : Abs c s vs) : iterFwd s = .ok vs := by
  obtain ⟨tl, hb, _⟩ := h.tail
  have hsz : vs.length = s.size := by simpa using h.size_eq
  have := iterGo_ok [] vs tl s.size (by omega)
  simp only [List.nil_append, List.length_nil, Nat.zero_add] at this
  rw [iterFwd, hb, ← hsz]
  rw [hsz]; exact hsz ▸ this

/-- a reverse traversal from `reverse_iterator(begin() + k)` to `rend()` yields the first `k`
    elements backwards -/
theorem riterGo_ok (vs : List α) (Q : List (Slot α)) (k f : Nat) (hk : k ≤ vs.length) (hf : k ≤ f) :
    riterGo (vs.map Slot.alive ++ Q) f k = .ok (vs.take k).reverse := by
  induction k generalizing f with
  | zero => cases f <;> simp [riterGo]
  | succ k ih =>
    cases f with
    | zero => omega
    | succ f =>
      have hlt : k < vs.length := by omega
      have hv : vs[k]? = some vs[k] := List.getElem?_eq_getElem hlt
      obtain ⟨hsplit, _⟩ := split_at hv
      have hd : derefAt (vs.map Slot.alive ++ Q) k = .ok vs[k] := by
        have := derefAt_ok ((vs.take k).map Slot.alive) vs[k] ((vs.drop (k + 1)).map Slot.alive ++ Q)
        have hl : ((vs.take k).map Slot.alive).length = k := by simp; omega
        rw [hl] at this
        rw [← this]; congr 1
        calc vs.map Slot.alive ++ Q = (vs.take k ++ [vs[k]] ++ vs.drop (k + 1)).map Slot.alive ++ Q := by rw [← hsplit]
          _ = _ := by simp only [List.map_append, List.map_cons, List.map_nil, List.append_assoc]
      have hrec := ih f (by omega) (by omega)
      have ht : (vs.take (k + 1)).reverse = vs[k] :: (vs.take k).reverse := by
        rw [List.take_add_one, hv]; simp
      rw [riterGo, if_neg (by omega), Nat.add_sub_cancel, hd, hrec, ht]

theorem iterRev_spec {c : Cfg α} {s : SV α} {vs : List α} (h : Abs c s vs) : iterRev s = .ok vs.reverse := by
  obtain ⟨tl, hb, _⟩ := h.tail
  have hsz : vs.length = s.size := by simpa using h.size_eq
  have := riterGo_ok vs tl s.size s.size (by omega) (Nat.le_refl _)
  rw [iterRev, hb, this, ← hsz, List.take_length]

/-- the iterator `insert` returns points to the first inserted element -/
theorem capOk_spec {c : Cfg α} {s : SV α} {vs : List α} (h : Abs c s vs) : capOk c s = true := by
  simp [capOk, h.cap_ge, h.size_le_cap]

theorem insertR_spec {c : Cfg α} {s : SV α} {vs : List α} (h : Abs c s vs) (pos : Nat) (xs : List α)
    (hp : pos ≤ vs.length) :
    ∃ s', insertR c s pos xs = .ok (s', pos) ∧ Abs c s' (vs.take pos ++ xs ++ vs.drop pos) := by
  obtain ⟨s', h1, h2⟩ := insert_spec h pos xs hp
  have hsz : vs.length = s.size := by simpa using h.size_eq
  have hsz' : (vs.take pos ++ xs ++ vs.drop pos).length = s'.size := by simpa using h2.size_eq
  refine ⟨s', ?_, h2⟩
  simp only [insertR, h1, bind, Except.bind, pure, Except.pure]
  by_cases he : pos = s.size
  · simp only [he, if_true]
    simp at hsz'
    congr 2; omega
  · simp only [he, if_false]

end Vita.C20
