/-
  C20 — model of `vita::small_vector<T,S>` (src/utility/small_vector.{h,tcc}) with EXPLICIT
  storage and object lifetimes.

  * `loc`  : the inline buffer `local_storage_[S]` (objects that live as long as the vector)
  * `heap` : `some buf` when `data_` points to a heap block of `buf.length` slots
  * `Slot` : `raw` (no object / uninitialised bytes), `alive v`, `moved` (a live object whose
             value is unspecified: the source of a move)
  * `size` : `size_ - data_`;  capacity = `S` (inline) or `buf.length` (heap)

  Every member function is written as in small_vector.tcc, at the granularity of the standard
  algorithms it calls (`std::copy`/`std::fill`/`std::move`/`std::move_backward` = assignment
  onto existing objects, `uninitialized_copy/move` and placement `new` = construction on raw
  storage, `destroy_range`, `::operator delete`).  The primitives check the lifetime rules and
  return a `Fault` instead of a value when the code would
    assign to raw storage, construct over a live object (leak), destroy a non-object or destroy
    twice, read an uninitialised or moved-from element, write out of bounds, free a block that
    still holds live objects (leak), or read through a dangling reference.

  Parameters: `S`, `trivial` (= `std::is_trivially_default_constructible_v<T>`, the switch the
  code uses for "needs construction/destruction"), the growth policy of `grow()` (any function
  with `n < growth n`), and the value of `T()`.
-/
namespace Vita.C20

inductive Fault
  | readRaw | readMoved | assignRaw | constructOverAlive | destroyRaw | oob | freeAlive
  | danglingRef | precond
  deriving DecidableEq, Repr

inductive Slot (α : Type)
  | raw
  | alive (v : α)
  | moved
  deriving Repr

def Slot.isRaw {α : Type} : Slot α → Bool
  | .raw => true
  | _ => false

structure Cfg (α : Type) where
  S : Nat
  trivial : Bool
  growth : Nat → Nat
  dflt : α

structure SV (α : Type) where
  loc : List (Slot α)
  heap : Option (List (Slot α))
  size : Nat

abbrev M := Except Fault

section
variable {α : Type}

/-! ### buffers: `seg buf pos n` = slots `[pos, pos+n)`, `splice` replaces them -/

def seg {β : Type} (buf : List β) (pos n : Nat) : List β := (buf.drop pos).take n

def splice {β : Type} (buf : List β) (pos : Nat) (mid : List β) : List β :=
  buf.take pos ++ mid ++ buf.drop (pos + mid.length)

def slotVal : Slot α → M α
  | .alive v => .ok v
  | .raw => .error .readRaw
  | .moved => .error .readMoved

/-- read `n` elements starting at `pos` (copy from / compare) -/
def readRange (buf : List (Slot α)) (pos n : Nat) : M (List α) :=
  if buf.length < pos + n then .error .oob else (seg buf pos n).mapM slotVal

/-- placement-construct `xs` on `[pos, pos+|xs|)` (`new (p) T(x)`, `uninitialized_copy/move`) -/
def constructRange (t : Bool) (buf : List (Slot α)) (pos : Nat) (xs : List α) : M (List (Slot α)) :=
  if buf.length < pos + xs.length then .error .oob
  else if !t && (seg buf pos xs.length).any (fun s => !s.isRaw) then .error .constructOverAlive
  else .ok (splice buf pos (xs.map .alive))

/-- assign `xs` onto the objects at `[pos, pos+|xs|)` (`*p = x`, `std::copy`, `std::fill`, `std::move`) -/
def assignRange (t : Bool) (buf : List (Slot α)) (pos : Nat) (xs : List α) : M (List (Slot α)) :=
  if buf.length < pos + xs.length then .error .oob
  else if !t && (seg buf pos xs.length).any (fun s => s.isRaw) then .error .assignRaw
  else .ok (splice buf pos (xs.map .alive))

/-- `destroy_range(b, e)` (the code calls it only for non-trivial `T`) -/
def destroyRange (buf : List (Slot α)) (pos n : Nat) : M (List (Slot α)) :=
  if buf.length < pos + n then .error .oob
  else if (seg buf pos n).any (fun s => s.isRaw) then .error .destroyRaw
  else .ok (splice buf pos (List.replicate n .raw))

/-- read `n` elements as rvalues: the sources stay live objects with unspecified value
    (for trivial `T` a move is a copy) -/
def moveOutRange (t : Bool) (buf : List (Slot α)) (pos n : Nat) : M (List α × List (Slot α)) :=
  match readRange buf pos n with
  | .error e => .error e
  | .ok vs => .ok (vs, if t then buf else splice buf pos (List.replicate n .moved))

/-! ### the class -/

def SV.buf (s : SV α) : List (Slot α) :=
  match s.heap with
  | none => s.loc
  | some b => b

def SV.isLocal (s : SV α) : Bool := s.heap.isNone      -- `local_storage_used()`

def SV.cap (c : Cfg α) (s : SV α) : Nat :=
  match s.heap with
  | none => c.S
  | some b => b.length

def SV.setBuf (s : SV α) (b : List (Slot α)) : SV α :=
  match s.heap with
  | none => { s with loc := b }
  | some _ => { s with heap := some b }

/-- members right after the (implicit) default-initialisation of `local_storage_[S]` -/
def freshLoc (c : Cfg α) : List (Slot α) :=
  List.replicate c.S (if c.trivial then .raw else .alive c.dflt)

/-- assignment if the inline buffer is in use, construction on the heap
    (the `local_storage_used()` switch of push_back / append / insert) -/
def putRange (c : Cfg α) (isLocal : Bool) (buf : List (Slot α)) (pos : Nat) (xs : List α) :=
  if isLocal then assignRange c.trivial buf pos xs else constructRange c.trivial buf pos xs

/-- `free_heap_memory()`: destroy `[begin, end)` (non-trivial `T`), then `::operator delete`;
    a block that still holds a live object is a leak -/
def freeHeap (c : Cfg α) (b : List (Slot α)) (size : Nat) : M Unit :=
  if c.trivial then .ok ()
  else match destroyRange b 0 size with
    | .error e => .error e
    | .ok b' => if b'.any (fun s => !s.isRaw) then .error .freeAlive else .ok ()

/-- `grow(n)`: new block, `uninitialized_move` everything, release the old block -/
def grow (c : Cfg α) (s : SV α) (n : Nat) : M (SV α) := do
  let (vals, old) ← moveOutRange c.trivial s.buf 0 s.size
  let nb ← constructRange c.trivial (List.replicate n .raw) 0 vals
  match s.heap with
  | some _ =>
    freeHeap c old s.size
    pure { loc := s.loc, heap := some nb, size := s.size }
  | none => pure { loc := old, heap := some nb, size := s.size }

def reserve (c : Cfg α) (s : SV α) (n : Nat) : M (SV α) :=
  if s.cap c < n then grow c s n else pure s

/-- the argument of push_back / emplace_back: a value, or a reference to an own element -/
inductive Src (α : Type)
  | val (v : α)
  | self (i : Nat)

def readSrc (s : SV α) : Src α → M α
  | .val v => .ok v
  | .self i =>
    if s.size ≤ i then .error .precond
    else match readRange s.buf i 1 with
      | .ok [v] => .ok v
      | .ok _ => .error .oob
      | .error e => .error e

/-- `push_back(const T &x)`.  At capacity the argument is copied before `grow()` (it may
    refer to an element of this vector); after `grow()` the data is on the heap. -/
def pushBack (c : Cfg α) (s : SV α) (x : Src α) : M (SV α) := do
  if s.size = s.cap c then
    let v ← readSrc s x
    let s1 ← grow c s (c.growth s.size)
    let b ← constructRange c.trivial s1.buf s1.size [v]
    pure { s1.setBuf b with size := s1.size + 1 }
  else
    let v ← readSrc s x
    let b ← putRange c s.isLocal s.buf s.size [v]
    pure { s.setBuf b with size := s.size + 1 }

/-- `emplace_back(args…)`: `*size_ = T(args…)` inline, `new (size_) T(args…)` on the heap;
    same lifetime events as `push_back`. -/
def emplaceBack (c : Cfg α) (s : SV α) (x : Src α) : M (SV α) := do
  if s.size = s.cap c then
    let v ← readSrc s x
    let s1 ← grow c s (c.growth s.size)
    let b ← constructRange c.trivial s1.buf s1.size [v]
    pure { s1.setBuf b with size := s1.size + 1 }
  else
    let v ← readSrc s x
    let b ← putRange c s.isLocal s.buf s.size [v]
    pure { s.setBuf b with size := s.size + 1 }

def clear (c : Cfg α) (s : SV α) : M (SV α) :=
  match s.heap with
  | some b => do
    freeHeap c b s.size
    pure { loc := s.loc, heap := none, size := 0 }
  | none => pure { s with size := 0 }

/-- `append(b, e)` (also `insert(end(), b, e)`) -/
def append (c : Cfg α) (s : SV α) (xs : List α) : M (SV α) := do
  let s1 ← reserve c s (s.size + xs.length)
  let b ← putRange c s1.isLocal s1.buf s1.size xs
  pure { s1.setBuf b with size := s1.size + xs.length }

/-- `insert(i, b, e)` with `i = begin() + pos` and `[b, e)` a range of another container -/
def insert (c : Cfg α) (s : SV α) (pos : Nat) (xs : List α) : M (SV α) := do
  if s.size < pos then throw .precond
  if pos = s.size then append c s xs
  else if xs.length = 0 then pure s
  else
    let n := xs.length
    let s1 ← reserve c s (s.size + n)
    let sz := s1.size
    if pos + n ≤ sz then
      -- append(move_iterator(end() - n), move_iterator(end()))
      let (tailv, b1) ← moveOutRange c.trivial s1.buf (sz - n) n
      let b2 ← putRange c s1.isLocal b1 sz tailv
      -- std::move_backward(i, old_end - n, old_end)
      let (midv, b3) ← moveOutRange c.trivial b2 pos (sz - n - pos)
      let b4 ← assignRange c.trivial b3 (pos + n) midv
      -- std::copy(b, e, i)
      let b5 ← assignRange c.trivial b4 pos xs
      pure { s1.setBuf b5 with size := sz + n }
    else
      let ow := sz - pos
      -- move [i, old_end) to the end of the enlarged vector
      let (tailv, b1) ← moveOutRange c.trivial s1.buf pos ow
      let b2 ← putRange c s1.isLocal b1 (pos + n) tailv
      -- replace the overwritten part
      let b3 ← assignRange c.trivial b2 pos (xs.take ow)
      -- the non-overwritten middle part
      let b4 ← putRange c s1.isLocal b3 sz (xs.drop ow)
      pure { s1.setBuf b4 with size := sz + n }

def resize (c : Cfg α) (s : SV α) (n : Nat) : M (SV α) := do
  if n ≤ s.cap c then
    match s.heap with
    | none =>
      let b ← if s.size < n then assignRange c.trivial s.loc s.size (List.replicate (n - s.size) c.dflt)
              else pure s.loc
      pure { s with loc := b, size := n }
    | some hb =>
      let b ← if c.trivial then
                (if s.size < n then assignRange c.trivial hb s.size (List.replicate (n - s.size) c.dflt)
                 else pure hb)
              else if n < s.size then destroyRange hb n (s.size - n)
              else constructRange c.trivial hb s.size (List.replicate (n - s.size) c.dflt)
      pure { s with heap := some b, size := n }
  else
    let s1 ← grow c s n
    let b ← constructRange c.trivial s1.buf s1.size (List.replicate (n - s1.size) c.dflt)
    pure { s1.setBuf b with size := n }

/-! ### constructors, destructor -/

/-- common tail of the constructors that receive `n` values -/
def build (c : Cfg α) (vals : List α) : M (SV α) := do
  let n := vals.length
  if n ≤ c.S then
    let l ← assignRange c.trivial (freshLoc c) 0 vals
    pure { loc := l, heap := none, size := n }
  else
    let b ← constructRange c.trivial (List.replicate n .raw) 0 vals
    pure { loc := freshLoc c, heap := some b, size := n }

def ctorN (c : Cfg α) (n : Nat) : M (SV α) := build c (List.replicate n c.dflt)
def ctorNX (c : Cfg α) (n : Nat) (x : α) : M (SV α) := build c (List.replicate n x)
def ctorList (c : Cfg α) (xs : List α) : M (SV α) := build c xs

def ctorCopy (c : Cfg α) (src : SV α) : M (SV α) := do
  let vals ← readRange src.buf 0 src.size
  build c vals

/-- `small_vector(small_vector &&rhs)`: returns (new vector, rhs afterwards) -/
def ctorMove (c : Cfg α) (src : SV α) : M (SV α × SV α) := do
  let n := src.size
  if n ≤ c.S then
    let (vals, sb) ← moveOutRange c.trivial src.buf 0 n
    let l ← assignRange c.trivial (freshLoc c) 0 vals
    pure ({ loc := l, heap := none, size := n }, src.setBuf sb)
  else
    match src.heap with
    | none => throw .precond        -- unreachable for a well-formed rhs (size ≤ S when inline)
    | some hb => pure ({ loc := freshLoc c, heap := some hb, size := n },
                       { loc := src.loc, heap := none, size := 0 })

/-- `~small_vector()` followed by the destruction of the member array -/
def dtor (c : Cfg α) (s : SV α) : M Unit := do
  match s.heap with
  | some b => freeHeap c b s.size
  | none => pure ()
  if !c.trivial && s.loc.any (fun x => x.isRaw) then throw .destroyRaw
  pure ()

/-! ### assignment -/

/-- `operator=(const small_vector &rhs)` for `this != &rhs` -/
def assignCopy (c : Cfg α) (dst src : SV α) : M (SV α) := do
  let n := src.size
  let vals ← readRange src.buf 0 n
  if dst.cap c < n then
    match dst.heap with
    | some b => freeHeap c b dst.size
    | none => pure ()
    let nb ← constructRange c.trivial (List.replicate n .raw) 0 vals
    pure { loc := dst.loc, heap := some nb, size := n }
  else
    match dst.heap with
    | none =>
      let l ← assignRange c.trivial dst.loc 0 vals
      pure { dst with loc := l, size := n }
    | some hb =>
      if c.trivial then
        let b ← assignRange c.trivial hb 0 vals
        pure { dst with heap := some b, size := n }
      else if n < dst.size then
        let b1 ← destroyRange hb n (dst.size - n)
        let b2 ← assignRange c.trivial b1 0 vals
        pure { dst with heap := some b2, size := n }
      else
        let b1 ← assignRange c.trivial hb 0 (vals.take dst.size)
        let b2 ← constructRange c.trivial b1 dst.size (vals.drop dst.size)
        pure { dst with heap := some b2, size := n }

/-- `operator=(small_vector &&rhs)` for `this != &rhs`: returns (this, rhs) -/
def assignMove (c : Cfg α) (dst src : SV α) : M (SV α × SV α) := do
  let n := src.size
  match dst.heap with
  | some b => freeHeap c b dst.size
  | none => pure ()
  if n ≤ c.S then
    let (vals, sb) ← moveOutRange c.trivial src.buf 0 n
    let l ← assignRange c.trivial dst.loc 0 vals
    pure ({ loc := l, heap := none, size := n }, src.setBuf sb)
  else
    match src.heap with
    | none => throw .precond
    | some hb => pure ({ loc := dst.loc, heap := some hb, size := n },
                       { loc := src.loc, heap := none, size := 0 })

/-! ### element access and comparison -/

def getAt (s : SV α) (i : Nat) : M α :=
  if s.size ≤ i then .error .precond
  else match readRange s.buf i 1 with
    | .ok [v] => .ok v
    | .ok _ => .error .oob
    | .error e => .error e

def setAt (c : Cfg α) (s : SV α) (i : Nat) (x : α) : M (SV α) :=
  if s.size ≤ i then .error .precond
  else match assignRange c.trivial s.buf i [x] with
    | .ok b => .ok (s.setBuf b)
    | .error e => .error e

/-- the elements `[begin(), end())` as values -/
def contents (s : SV α) : M (List α) := readRange s.buf 0 s.size

/-- `front()` / `front() const`: `begin()[0]` (calling it on an empty vector is undefined) -/
def frontAt (s : SV α) : M α :=
  if s.size = 0 then .error .precond else getAt s 0

/-- `back()` / `back() const`: `end()[-1]` -/
def backAt (s : SV α) : M α :=
  if s.size = 0 then .error .precond else getAt s (s.size - 1)

/-- `front() = x` through the non-const reference -/
def setFront (c : Cfg α) (s : SV α) (x : α) : M (SV α) :=
  if s.size = 0 then .error .precond else setAt c s 0 x

/-- `back() = x` through the non-const reference -/
def setBack (c : Cfg α) (s : SV α) (x : α) : M (SV α) :=
  if s.size = 0 then .error .precond else setAt c s (s.size - 1) x

/-- `data()[i]` (`data()` returns `data_`, the pointer `begin()` returns) -/
def dataAt (s : SV α) (i : Nat) : M α := getAt s i

/-- `data()[i] = x` / `*(begin() + i) = x` -/
def setData (c : Cfg α) (s : SV α) (i : Nat) (x : α) : M (SV α) := setAt c s i x

/-- one dereference of a pointer / iterator into the buffer -/
def derefAt (buf : List (Slot α)) (i : Nat) : M α :=
  match readRange buf i 1 with
  | .ok [v] => .ok v
  | .ok _ => .error .oob
  | .error e => .error e

/-- `for (it = begin() + i; it != end(); ++it) out.push_back(*it)` — iterators are pointers into
    the buffer: `begin() = data_` (index 0), `end() = size_` (index `size`).  `fuel` bounds the
    number of increments (the loop of the code has no bound: running out of fuel is `oob`). -/
def iterGo (buf : List (Slot α)) (e : Nat) : Nat → Nat → M (List α)
  | 0, it => if it = e then .ok [] else .error .oob
  | f + 1, it =>
    if it = e then .ok []
    else match derefAt buf it with
      | .error x => .error x
      | .ok v => match iterGo buf e f (it + 1) with
        | .error x => .error x
        | .ok r => .ok (v :: r)

/-- forward traversal `[begin(), end())` (also `cbegin()/cend()` and the const overloads) -/
def iterFwd (s : SV α) : M (List α) := iterGo s.buf s.size s.size 0

/-- `for (rit = rbegin(); rit != rend(); ++rit)`: `rbegin() = reverse_iterator(end())`,
    `rend() = reverse_iterator(begin())`, `*rit = *(rit.base() - 1)`, `++rit` = `--base` -/
def riterGo (buf : List (Slot α)) : Nat → Nat → M (List α)
  | 0, base => if base = 0 then .ok [] else .error .oob
  | f + 1, base =>
    if base = 0 then .ok []
    else match derefAt buf (base - 1) with
      | .error x => .error x
      | .ok v => match riterGo buf f (base - 1) with
        | .error x => .error x
        | .ok r => .ok (v :: r)

def iterRev (s : SV α) : M (List α) := riterGo s.buf s.size s.size

/-- `max_size()`: `static_cast<size_type>(-1)` with a 64-bit `size_type` -/
def maxSize : Nat := 18446744073709551615

/-- `capacity() >= std::max(S, size())` (the class invariant asserted by every constructor) -/
def capOk (c : Cfg α) (s : SV α) : Bool := decide (c.S ≤ s.cap c) && decide (s.size ≤ s.cap c)

/-! ### comparison: the element equality `eq` and the element order `lt` are PARAMETERS supplied by
    the element type (`T::operator==`, `T::operator<`), never the structural equality of the
    representation `α` (for `double`: `+0.0 == -0.0`, `NaN != NaN`; for a POD with padding or a
    user-defined `operator==`: equal objects with different bytes). -/

/-- `std::equal(b1, e1, b2)` on ranges of the same length -/
def allEq (eq : α → α → Bool) : List α → List α → Bool
  | [], _ => true
  | _ :: _, [] => false
  | a :: as, b :: bs => eq a b && allEq eq as bs

/-- `std::vector`'s `==`: same size and element-wise `eq` -/
def vecEq (eq : α → α → Bool) (la lb : List α) : Bool := la.length == lb.length && allEq eq la lb

/-- `operator==`: `lhs.size() == rhs.size() && std::equal(begin(lhs), end(lhs), begin(rhs))` -/
def svEq (eq : α → α → Bool) (a b : SV α) : M Bool := do
  let la ← contents a
  let lb ← contents b
  pure (la.length == lb.length && allEq eq la lb)

/-- `std::lexicographical_compare` with `lt` as the element order -/
def lexLt (lt : α → α → Bool) : List α → List α → Bool
  | [], [] => false
  | [], _ :: _ => true
  | _ :: _, [] => false
  | a :: as, b :: bs => if lt a b then true else if lt b a then false else lexLt lt as bs

def svLt (lt : α → α → Bool) (a b : SV α) : M Bool := do
  let la ← contents a
  let lb ← contents b
  pure (lexLt lt la lb)

/-- the six relational operators small_vector.tcc declares -/
inductive Cmp
  | eq | ne | lt | gt | le | ge
  deriving DecidableEq, Repr

/-- the operators as small_vector.tcc defines them: `!=` is `!operator==(lhs, rhs)`, `>` is
    `operator<(rhs, lhs)`, `>=` is `!operator<(lhs, rhs)`, `<=` is `!operator>(lhs, rhs)` -/
def svCmp (eq lt : α → α → Bool) (k : Cmp) (a b : SV α) : M Bool :=
  match k with
  | .eq => svEq eq a b
  | .ne => do let r ← svEq eq a b; pure (!r)
  | .lt => svLt lt a b
  | .gt => svLt lt b a
  | .ge => do let r ← svLt lt a b; pure (!r)
  | .le => do let r ← svLt lt b a; pure (!r)

/-- the relational operators of `std::vector` ([container.requirements], C++17):
    `a != b ≡ !(a == b)`, `a > b ≡ b < a`, `a <= b ≡ !(a > b)`, `a >= b ≡ !(a < b)` -/
def vecCmp (eq lt : α → α → Bool) (k : Cmp) (la lb : List α) : Bool :=
  match k with
  | .eq => vecEq eq la lb
  | .ne => !vecEq eq la lb
  | .lt => lexLt lt la lb
  | .gt => lexLt lt lb la
  | .le => !lexLt lt lb la
  | .ge => !lexLt lt la lb

/-- `insert(i, b, e)` together with the iterator it returns (as an index): `append` returns
    `end() - n`, the empty-range shortcut returns `i`, the two shifting strategies return the
    re-validated `begin() + insert_index` -/
def insertR (c : Cfg α) (s : SV α) (pos : Nat) (xs : List α) : M (SV α × Nat) := do
  let s' ← insert c s pos xs
  pure (s', if pos = s.size then s'.size - xs.length else pos)

end

/-! ### a machine with two vectors and the operation language of the property -/

inductive Op (α : Type)
  | ctorN (n : Nat) | ctorNX (n : Nat) (x : α) | ctorList (xs : List α)
  | ctorCopy | ctorMove                      -- from the other register
  | assignCopy | assignMove | assignSelf     -- from the other register / from itself
  | clear | pushBack (x : Src α) | emplaceBack (x : Src α)
  | insert (pos : Nat) (xs : List α) | resize (n : Nat) | reserve (n : Nat)
  | setAt (i : Nat) (x : α) | getAt (i : Nat)
  | cmp (k : Cmp)                            -- `x k y` with the other register
  /-- `x k t` (or `t k x` when `flip`) where `t` is a `small_vector<T, S2>` holding the elements
      of the other register: the operators are templates over BOTH inline capacities -/
  | cmpMixed (S2 : Nat) (k : Cmp) (flip : Bool)
  | front | back | setFront (x : α) | setBack (x : α)
  | dataAt (i : Nat) | setData (i : Nat) (x : α)
  | iterFwd | iterRev
  | empty | size | capOk | maxSize

/-- what an operation lets the caller observe -/
inductive Obs (α : Type)
  | none | val (v : α) | bool (b : Bool) | nat (n : Nat) | list (l : List α)

structure Mach (α : Type) where
  a : SV α
  b : SV α

section
variable {α : Type}

def Mach.get (m : Mach α) (r : Bool) : SV α := if r then m.b else m.a
def Mach.put (m : Mach α) (r : Bool) (s : SV α) : Mach α := if r then { m with b := s } else { m with a := s }

def Mach.init (c : Cfg α) : Mach α :=
  { a := { loc := freshLoc c, heap := none, size := 0 },
    b := { loc := freshLoc c, heap := none, size := 0 } }

/-- one operation on register `r` (binary operations take the other register as source) -/
def step (c : Cfg α) (eq lt : α → α → Bool) (m : Mach α) (r : Bool) (op : Op α) :
    M (Mach α × Obs α) := do
  let x := m.get r
  let y := m.get (!r)
  match op with
  | .ctorN n => dtor c x; let s ← ctorN c n; pure (m.put r s, .none)
  | .ctorNX n v => dtor c x; let s ← ctorNX c n v; pure (m.put r s, .none)
  | .ctorList xs => dtor c x; let s ← ctorList c xs; pure (m.put r s, .none)
  | .ctorCopy => dtor c x; let s ← ctorCopy c y; pure (m.put r s, .none)
  | .ctorMove => dtor c x; let (s, y') ← ctorMove c y; pure ((m.put r s).put (!r) y', .none)
  | .assignCopy => let s ← assignCopy c x y; pure (m.put r s, .none)
  | .assignMove => let (s, y') ← assignMove c x y; pure ((m.put r s).put (!r) y', .none)
  | .assignSelf => pure (m, .none)                       -- `if (this != &rhs)`
  | .clear => let s ← clear c x; pure (m.put r s, .none)
  | .pushBack v => let s ← pushBack c x v; pure (m.put r s, .none)
  | .emplaceBack v => let s ← emplaceBack c x v; pure (m.put r s, .none)
  | .insert pos xs => let (s, i) ← insertR c x pos xs; pure (m.put r s, .nat i)
  | .resize n => let s ← resize c x n; pure (m.put r s, .none)
  | .reserve n => let s ← reserve c x n; pure (m.put r s, .none)
  | .setAt i v => let s ← setAt c x i v; pure (m.put r s, .none)
  | .getAt i => let v ← getAt x i; pure (m, .val v)
  | .cmp k => let b ← svCmp eq lt k x y; pure (m, .bool b)
  | .cmpMixed S2 k flip =>
    -- small_vector<T, S2> t;  t.insert(t.end(), y.begin(), y.end());  x k t;  ~t
    let c2 : Cfg α := { c with S := S2 }
    let vals ← contents y
    let t0 ← ctorN c2 0
    let t ← insert c2 t0 0 vals
    let b ← if flip then svCmp eq lt k t x else svCmp eq lt k x t
    dtor c2 t
    pure (m, .bool b)
  | .front => let v ← frontAt x; pure (m, .val v)
  | .back => let v ← backAt x; pure (m, .val v)
  | .setFront v => let s ← setFront c x v; pure (m.put r s, .none)
  | .setBack v => let s ← setBack c x v; pure (m.put r s, .none)
  | .dataAt i => let v ← dataAt x i; pure (m, .val v)
  | .setData i v => let s ← setData c x i v; pure (m.put r s, .none)
  | .iterFwd => let l ← iterFwd x; pure (m, .list l)
  | .iterRev => let l ← iterRev x; pure (m, .list l)
  | .empty => pure (m, .bool (x.size == 0))              -- `end() == begin()`
  | .size => pure (m, .nat x.size)                        -- `end() - begin()`
  | .capOk => pure (m, .bool (capOk c x))
  | .maxSize => pure (m, .nat maxSize)

def run (c : Cfg α) (eq lt : α → α → Bool) :
    Mach α → List (Bool × Op α) → M (Mach α × List (Obs α))
  | m, [] => pure (m, [])
  | m, (r, op) :: rest => do
    let (m1, o) ← step c eq lt m r op
    let (m2, os) ← run c eq lt m1 rest
    pure (m2, o :: os)

/-- end of life of both vectors -/
def finish (c : Cfg α) (m : Mach α) : M Unit := do
  dtor c m.a
  dtor c m.b

end
end Vita.C20
